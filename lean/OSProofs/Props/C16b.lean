import OSProofs.C16Lemmas
/-!
# C16 — results do not depend on the unit or origin of the skill scale (game level)

The pair-level facts are in `OSProofs/Props/C16.lean`; here they are lifted to whole games, over `ℝ`.

* **Change of unit** (`k > 0`): every `mu`, `sigma`, `beta`, `tau` (model default and per-call value)
  is multiplied by `k`.  Inputs: `scaleTeams k teams`, `scaleParams k P`, `scaleOpts k o`.
  For Plackett–Luce and both Bradley–Terry models — and any gamma callback that is a pure number
  (`GammaScaleInv`: its value does not change when its arguments `c`, `mu`, the players' `mu`,
  `sigma` are multiplied by `k` and `sigma_squared` by `k²`; every member of the tagged family is, and so
  is the team-reading callback `gammaTeamSigma`) — `_compute` and `rate` return the old result in the
  new unit; the limit-sigma
  clamp, the rank sort/unsort and the `kappa` floor are unaffected.  No positivity condition on
  `beta` or the sigmas is needed (every identity used, `√(k²x) = k√x`, `kx/(kc) = x/c`, also holds
  at `c = 0`).  The Thurstone–Mosteller models use `kappa / c_iq` as a draw margin, so with a fixed
  `kappa` they are unit-free only for `kappa = 0` (`…_kappa0` versions below).
* **Change of origin** (`d` added to every `mu`), all five models, when all teams have the same
  number `m` of players: every team mu moves by `m·d`, every omega and delta is unchanged, so every
  posterior `mu` moves by `d` and every `sigma` is unchanged.  Gamma: any callback whose value is
  unchanged when the players' `mu` move by `d` and the team `mu` by (team size)·`d` (`GammaShiftInv`:
  the tagged family, `gammaTeamSigma`, …).
* The `…_tagged` versions restate the game-level theorems for the tagged family with no hypothesis on
  gamma (the statements as they were before `.fn` existed).
* **Predictions** (`predict_win`, `predict_draw`, `predict_rank`; the text is shared by the five
  models) are invariant under both.
-/
noncomputable section
namespace OS
open Scalar

/-! ## A. change of unit -/

/-- `scaleParams` is the record the statement of C16 talks about -/
theorem scaleParams_eq (k : ℝ) (P : Params ℝ) :
    scaleParams k P = { P with beta := k * P.beta, tau := k * P.tau } := rfl

/-- a team in the new unit aggregates to the old aggregate in the new unit (`TeamAgg.scale` also
    rescales the stored players, consistently) -/
theorem C16_teamAgg_scale (k : ℝ) (team : List (Rating ℝ)) (r : Nat) :
    teamAgg (team.map (scalePlayer k)) r = (teamAgg team r).scale k :=
  teamAgg_scale k team r

/-- **omega scales with the unit, delta does not** — Plackett–Luce and both Bradley–Terry models,
    every scale-invariant gamma callback (in particular the tagged family: default, constant, `1/k`,
    rank dependent, `σ²/c²`, zero).
    Only `beta` has to be rescaled for this statement (tau does not enter `omegaDelta`). -/
theorem C16_omegaDelta_scale (K : Kind) (hK : K = .PL ∨ K = .BTF ∨ K = .BTP) (L : Leaves ℝ)
    (k : ℝ) (hk : 0 < k) (P : Params ℝ) (hg : GammaScaleInv P.gamma) (ts : List (TeamAgg ℝ)) :
    omegaDelta K L { P with beta := k * P.beta } (ts.map (TeamAgg.scale k))
      = (omegaDelta K L P ts).map (fun od => (k * od.1, od.2)) := by
  rw [← omegaDelta_scale K hK L k hk P hg ts]
  exact omegaDelta_congr_params K L _ _ rfl rfl rfl _

/-- `_compute` in the new unit returns the old posterior in the new unit (dense ranks are pure
    numbers and stay as they are) -/
theorem C16_compute_scale (K : Kind) (hK : K = .PL ∨ K = .BTF ∨ K = .BTP) (L : Leaves ℝ)
    (k : ℝ) (hk : 0 < k) (P : Params ℝ) (hg : GammaScaleInv P.gamma)
    (teams : List (List (Rating ℝ))) (dense : List Nat) :
    compute K L (scaleParams k P) (scaleTeams k teams) dense
      = scaleTeams k (compute K L P teams dense) :=
  compute_scale K L k hk P hg (Or.inl hK) teams dense

/-- `rate` after validation, in the new unit: the tau inflation, the sort by rank, `_compute`, the
    sort back and the limit-sigma clamp all commute with the change of unit -/
theorem C16_rateCore_scale {ρ : Type} (K : Kind) (hK : K = .PL ∨ K = .BTF ∨ K = .BTP)
    (L : Leaves ℝ) (k : ℝ) (hk : 0 < k) (P : Params ℝ) (hg : GammaScaleInv P.gamma) (le : ρ → ρ → Bool)
    (teams : List (List (Rating ℝ))) (ranks : Option (List ρ)) (o : CallOpts ℝ) :
    rateCore K L (scaleParams k P) le (scaleTeams k teams) ranks (scaleOpts k o)
      = scaleTeams k (rateCore K L P le teams ranks o) :=
  rateCore_scale K L k hk P hg (Or.inl hK) le teams ranks o

/-- the same for `rate` with ranks, scores or neither -/
theorem C16_rate_scale {ρ : Type} (K : Kind) (hK : K = .PL ∨ K = .BTF ∨ K = .BTP)
    (L : Leaves ℝ) (k : ℝ) (hk : 0 < k) (P : Params ℝ) (hg : GammaScaleInv P.gamma)
    (le : ρ → ρ → Bool) (neg : ρ → ρ)
    (teams : List (List (Rating ℝ))) (oc : Outcome ρ) (o : CallOpts ℝ) :
    rate K L (scaleParams k P) le neg (scaleTeams k teams) oc (scaleOpts k o)
      = scaleTeams k (rate K L P le neg teams oc o) := by
  cases oc <;> simp only [rate] <;> exact C16_rateCore_scale K hK L k hk P hg le teams _ o

/-- `C16_rate_scale` for the tagged family: no hypothesis on gamma -/
theorem C16_rate_scale_tagged {ρ : Type} (K : Kind) (hK : K = .PL ∨ K = .BTF ∨ K = .BTP)
    (L : Leaves ℝ) (k : ℝ) (hk : 0 < k) (P : Params ℝ) (hg : P.gamma.Tagged)
    (le : ρ → ρ → Bool) (neg : ρ → ρ)
    (teams : List (List (Rating ℝ))) (oc : Outcome ρ) (o : CallOpts ℝ) :
    rate K L (scaleParams k P) le neg (scaleTeams k teams) oc (scaleOpts k o)
      = scaleTeams k (rate K L P le neg teams oc o) :=
  C16_rate_scale K hK L k hk P (gam_tagged_scaleInv hg) le neg teams oc o

/-- `C16_omegaDelta_scale` for the tagged family -/
theorem C16_omegaDelta_scale_tagged (K : Kind) (hK : K = .PL ∨ K = .BTF ∨ K = .BTP) (L : Leaves ℝ)
    (k : ℝ) (hk : 0 < k) (P : Params ℝ) (hg : P.gamma.Tagged) (ts : List (TeamAgg ℝ)) :
    omegaDelta K L { P with beta := k * P.beta } (ts.map (TeamAgg.scale k))
      = (omegaDelta K L P ts).map (fun od => (k * od.1, od.2)) :=
  C16_omegaDelta_scale K hK L k hk P (gam_tagged_scaleInv hg) ts

/-- with `kappa = 0` the change of unit is sound for all five models (for the Thurstone–Mosteller
    models `kappa / c_iq` is the draw margin, so a non-zero `kappa` carries the unit there while it is
    a pure number in the variance floor) -/
theorem C16_rateCore_scale_kappa0 {ρ : Type} (K : Kind) (L : Leaves ℝ) (k : ℝ) (hk : 0 < k)
    (P : Params ℝ) (hg : GammaScaleInv P.gamma) (hκ : P.kappa = 0) (le : ρ → ρ → Bool)
    (teams : List (List (Rating ℝ))) (ranks : Option (List ρ)) (o : CallOpts ℝ) :
    rateCore K L (scaleParams k P) le (scaleTeams k teams) ranks (scaleOpts k o)
      = scaleTeams k (rateCore K L P le teams ranks o) :=
  rateCore_scale K L k hk P hg (Or.inr hκ) le teams ranks o

/-- read off one player: mu and sigma are the old ones times `k`, the identity is kept -/
theorem C16_scale_player (k : ℝ) (p : Rating ℝ) :
    (scalePlayer k p).id = p.id ∧ (scalePlayer k p).mu = k * p.mu
      ∧ (scalePlayer k p).sigma = k * p.sigma := ⟨rfl, rfl, rfl⟩

/-! ## B. change of origin, equal team sizes, all five models -/

/-- a team of `m` players shifted by `d` has its total mu shifted by `m·d`, same variance -/
theorem C16_teamAgg_shift (d : ℝ) (team : List (Rating ℝ)) (r : Nat) :
    teamAgg (team.map (shiftPlayer d)) r = (teamAgg team r).shiftP d (team.length * d) :=
  teamAgg_shift d team r

/-- moving every team mu by the same amount `D` (and the mu of the players the aggregates carry by
    `d`) changes no omega and no delta — all five models, either leaf implementation, every gamma
    callback whose call for each team is unchanged (`gam_ShiftAt`; for a `GammaShiftInv` callback: when
    `D` = (team size)·`d`, see `gam_shiftAt_of_inv`) -/
theorem C16_omegaDelta_shift (K : Kind) (L : Leaves ℝ) (d D : ℝ) (P : Params ℝ)
    (ts : List (TeamAgg ℝ)) (hg : ∀ t ∈ ts, gam_ShiftAt P.gamma d D t) :
    omegaDelta K L P (ts.map (TeamAgg.shiftP d D)) = omegaDelta K L P ts :=
  omegaDelta_shift K L d D P ts hg

/-- the statement for the tagged family: any `d`, `D`, no hypothesis on gamma -/
theorem C16_omegaDelta_shift_tagged (K : Kind) (L : Leaves ℝ) (d D : ℝ) (P : Params ℝ)
    (hg : P.gamma.Tagged) (ts : List (TeamAgg ℝ)) :
    omegaDelta K L P (ts.map (TeamAgg.shiftP d D)) = omegaDelta K L P ts :=
  omegaDelta_shift_tagged K L d D P hg ts

/-- `_compute` with the origin moved by `d`, all teams of the same size: every posterior mu moves by
    `d`, every posterior sigma is unchanged -/
theorem C16_compute_shift (K : Kind) (L : Leaves ℝ) (d : ℝ) (m : Nat) (P : Params ℝ)
    (hg : GammaShiftInv P.gamma)
    (teams : List (List (Rating ℝ))) (hm : ∀ t ∈ teams, t.length = m) (dense : List Nat) :
    compute K L P (shiftTeams d teams) dense = shiftTeams d (compute K L P teams dense) :=
  compute_shift K L d m P hg teams hm dense

/-- `rate` after validation with the origin moved by `d`, all teams of the same size -/
theorem C16_rateCore_shift {ρ : Type} (K : Kind) (L : Leaves ℝ) (d : ℝ) (m : Nat)
    (P : Params ℝ) (hg : GammaShiftInv P.gamma) (le : ρ → ρ → Bool) (teams : List (List (Rating ℝ)))
    (hm : ∀ t ∈ teams, t.length = m) (ranks : Option (List ρ)) (o : CallOpts ℝ) :
    rateCore K L P le (shiftTeams d teams) ranks o
      = shiftTeams d (rateCore K L P le teams ranks o) :=
  rateCore_shift K L d m P hg le teams hm ranks o

/-- the same for `rate` with ranks, scores or neither -/
theorem C16_rate_shift {ρ : Type} (K : Kind) (L : Leaves ℝ) (d : ℝ) (m : Nat)
    (P : Params ℝ) (hg : GammaShiftInv P.gamma) (le : ρ → ρ → Bool) (neg : ρ → ρ)
    (teams : List (List (Rating ℝ)))
    (hm : ∀ t ∈ teams, t.length = m) (oc : Outcome ρ) (o : CallOpts ℝ) :
    rate K L P le neg (shiftTeams d teams) oc o = shiftTeams d (rate K L P le neg teams oc o) := by
  cases oc <;> simp only [rate] <;> exact C16_rateCore_shift K L d m P hg le teams hm _ o

/-- `C16_rate_shift` for the tagged family: no hypothesis on gamma -/
theorem C16_rate_shift_tagged {ρ : Type} (K : Kind) (L : Leaves ℝ) (d : ℝ) (m : Nat)
    (P : Params ℝ) (hg : P.gamma.Tagged) (le : ρ → ρ → Bool) (neg : ρ → ρ)
    (teams : List (List (Rating ℝ)))
    (hm : ∀ t ∈ teams, t.length = m) (oc : Outcome ρ) (o : CallOpts ℝ) :
    rate K L P le neg (shiftTeams d teams) oc o = shiftTeams d (rate K L P le neg teams oc o) :=
  C16_rate_shift K L d m P (gam_tagged_shiftInv hg) le neg teams hm oc o

/-- read off one player: mu is the old one plus `d`, sigma and identity are kept -/
theorem C16_shift_player (d : ℝ) (p : Rating ℝ) :
    (shiftPlayer d p).id = p.id ∧ (shiftPlayer d p).mu = p.mu + d
      ∧ (shiftPlayer d p).sigma = p.sigma := ⟨rfl, rfl, rfl⟩

/-! ## C. predictions -/

/-- `predict_win` does not depend on the unit -/
theorem C16_predictWin_scale (k β : ℝ) (hk : 0 < k) (teams : List (List (Rating ℝ))) :
    predictWin (k * β) (scaleTeams k teams) = predictWin β teams :=
  predictWin_scale k β hk teams

/-- `predict_draw` does not depend on the unit -/
theorem C16_predictDraw_scale (k β : ℝ) (hk : 0 < k) (teams : List (List (Rating ℝ))) :
    predictDraw (k * β) (scaleTeams k teams) = predictDraw β teams :=
  predictDraw_scale k β hk teams

/-- `predict_rank` (ranks and probabilities) does not depend on the unit -/
theorem C16_predictRank_scale (k β : ℝ) (hk : 0 < k) (teams : List (List (Rating ℝ))) :
    predictRank (k * β) (scaleTeams k teams) = predictRank β teams := by
  simp only [predictRank, predictRankProbs_scale k β hk]

/-- `predict_win` does not depend on the origin (teams of equal size) -/
theorem C16_predictWin_shift (d β : ℝ) (m : Nat) (teams : List (List (Rating ℝ)))
    (hm : ∀ t ∈ teams, t.length = m) :
    predictWin β (shiftTeams d teams) = predictWin β teams :=
  predictWin_shift d β m teams hm

/-- `predict_draw` does not depend on the origin (teams of equal size) -/
theorem C16_predictDraw_shift (d β : ℝ) (m : Nat) (teams : List (List (Rating ℝ)))
    (hm : ∀ t ∈ teams, t.length = m) :
    predictDraw β (shiftTeams d teams) = predictDraw β teams :=
  predictDraw_shift d β m teams hm

/-- `predict_rank` does not depend on the origin (teams of equal size) -/
theorem C16_predictRank_shift (d β : ℝ) (m : Nat) (teams : List (List (Rating ℝ)))
    (hm : ∀ t ∈ teams, t.length = m) :
    predictRank β (shiftTeams d teams) = predictRank β teams := by
  simp only [predictRank, predictRankProbs_shift d β m teams hm]

/-! ## the hypotheses are satisfiable, the statements are not about empty games -/

example : (Kind.PL).logistic ∧ (Kind.BTF).logistic ∧ (Kind.BTP).logistic :=
  ⟨Or.inl rfl, Or.inr (Or.inl rfl), Or.inr (Or.inr rfl)⟩

example : ∀ t ∈ ([[⟨0, 25, 8⟩, ⟨1, 20, 7⟩], [⟨2, 30, 5⟩, ⟨3, 22, 6⟩]] : List (List (Rating ℝ))),
    t.length = 2 := by
  intro t ht; simp at ht; rcases ht with rfl | rfl <;> rfl

end OS
end
