import OSModel
/-!
# C19 — the five models differ only in their update rule

In the model `predictWin`, `predictDraw`, `predictRank`, `cmpOp`, `eqOp`, `ordinal`, `mkRating`,
`createRating`, `deepcopyRating` do not take the `Kind` at all and `validateRate` / `validatePredict`
use it only for "a rating of this model's own class": equality across the five kinds is by
construction, and the substance of C19 is the correspondence of each of the five Python classes
with that single kind-free model.  What needs a proof is the last clause.
-/
namespace OS
variable {α : Type} [Scalar α]

theorem omegaDelta_btp_eq_btf (L : Leaves α) (P : Params α) (ts : List (TeamAgg α))
    (h : ts.length ≤ 2) : omegaDelta .BTP L P ts = omegaDelta .BTF L P ts := by
  match ts, h with
  | [], _ => rfl
  | [a], _ => simp [omegaDelta, othersOf, neighboursOf, List.zipIdx]
  | [a, b], _ =>
    simp [omegaDelta, othersOf, neighboursOf, List.zipIdx, List.filter]

theorem compute_btp_eq_btf (L : Leaves α) (P : Params α) (teams : List (List (Rating α)))
    (dense : List Nat) (h : teams.length ≤ 2) :
    compute .BTP L P teams dense = compute .BTF L P teams dense := by
  unfold compute
  have : (teamAggs teams dense).length ≤ 2 := by
    simp only [teamAggs, List.length_map, List.length_zip]; omega
  simp only [omegaDelta_btp_eq_btf L P _ this]

theorem unwind_fst_length_le {κ β : Type} (le : κ → κ → Bool) (t : List κ) (xs : List β) :
    (unwind le t xs).1.length ≤ xs.length := by
  simp [unwind, sortByKey, List.length_zip]; omega

/-- On two-team games Bradley–Terry partial pairing returns exactly what full pairing returns:
every outcome encoding, every option combination (also at `Float`: the equality is syntactic). -/
theorem C19_btp_eq_btf_two {ρ : Type} (L : Leaves α) (P : Params α) (le : ρ → ρ → Bool) (neg : ρ → ρ)
    (teams : List (List (Rating α))) (oc : Outcome ρ) (o : CallOpts α) (h : teams.length = 2) :
    rate .BTP L P le neg teams oc o = rate .BTF L P le neg teams oc o := by
  have hi : (inflate (resolveTau P o) teams).length = 2 := by simp [inflate, h]
  cases oc with
  | omitted =>
    simp only [rate, rateCore]
    rw [compute_btp_eq_btf L P _ _ (by omega)]
  | ranks r =>
    simp only [rate, rateCore]
    rw [compute_btp_eq_btf L P _ _ (Nat.le_trans (unwind_fst_length_le _ _ _) (by omega))]
  | scores s =>
    simp only [rate, rateCore]
    rw [compute_btp_eq_btf L P _ _ (Nat.le_trans (unwind_fst_length_le _ _ _) (by omega))]

end OS
