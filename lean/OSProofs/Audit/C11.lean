import OSProofs.Gauss
#print axioms Gauss.Phi_neg
#print axioms Gauss.Phi_pos
