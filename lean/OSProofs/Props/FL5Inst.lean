import OSProofs.Props.FL5
import OSProofs.MonoArithInst
import Mathlib.Tactic.NormNum

/-!
# FL5 — instances: `PhiMono` holds in ℝ and in every rounded arithmetic; C09 monotonicity at both

* `PhiMono.real` — the exact `Φ` is strictly increasing (`Gauss.Phi_strictMono`);
* `PhiMono.rn r` — `rnd ∘ Φ` is monotone for every monotone rounding `rnd`: a *correctly rounded* `Φ` is
  monotone on any float format.  (The libm `erfc` behind Python's `NormalDist.cdf` is not correctly rounded;
  for IEEE doubles `PhiMono` stays a hypothesis.)
* the headline theorems of `Props/FL5.lean` at `MonoArith.real` and at `MonoArith.rn r`; in the rounded
  arithmetic the inequalities are between the *rounded* results, exactly;
* `FL5_PhiMono_independent` — `PhiMono` is not a consequence of `MonoArith` (last section).
-/

noncomputable section
namespace OS
open Scalar

theorem PhiMono.real : PhiMono ℝ := by
  intro a b h
  simp only [sc_Phi]
  exact Gauss.Phi_strictMono.monotone h

theorem PhiMono.rn (r : Rounding) : PhiMono (RN r) := by
  intro a b h
  simp only [rn_le, rn_Phi] at *
  exact r.mono (Gauss.Phi_strictMono.monotone h)

/-- `PhiMono` at the genuinely lossy rounding of `MonoArithInst` -/
example : PhiMono (RN (truncRounding 10)) := PhiMono.rn _

/-! ### ℝ (re-proves `C09_monotone_own/other` for three or more teams through the order laws alone) -/

theorem FL_C09_two_monotone_real (β : ℝ) (a b : List (Rating ℝ)) (j : Nat) (hj : j < a.length) (m : ℝ)
    (hm : a[j].mu ≤ m)
    (hd : Scalar.ofNat 0 < pairDenom (playerCount [a, b]) β (teamAgg a 0) (teamAgg b 0)) :
    FL5_winR β a b ≤ FL5_winR β (fl5_setMu a j m) b
      ∧ Scalar.ofNat 1 - FL5_winR β (fl5_setMu a j m) b ≤ Scalar.ofNat 1 - FL5_winR β a b :=
  FL_C09_two_monotone MonoArith.real PhiMono.real β a b j hj m hm hd

theorem FL_C09_many_monotone_own_real (β : ℝ) (teams : List (List (Rating ℝ)))
    (hn : 3 ≤ teams.length) (i : Nat) (hi : i < teams.length) (j : Nat) (hj : j < teams[i].length)
    (m : ℝ) (hm : teams[i][j].mu ≤ m)
    (hd : ∀ b ∈ aggs teams, Scalar.ofNat 0 < pairDenom teams.length β (teamAgg teams[i] 0) b)
    (h1 : i < (predictWin β teams).length)
    (h2 : i < (predictWin β (teams.set i (fl5_setMu teams[i] j m))).length) :
    (predictWin β teams)[i] ≤ (predictWin β (teams.set i (fl5_setMu teams[i] j m)))[i] :=
  FL_C09_many_monotone_own MonoArith.real PhiMono.real β teams hn i hi j hj m hm hd h1 h2

theorem FL_C09_many_monotone_other_real (β : ℝ) (teams : List (List (Rating ℝ)))
    (hn : 3 ≤ teams.length) (i : Nat) (hi : i < teams.length) (j : Nat) (hj : j < teams[i].length)
    (m : ℝ) (hm : teams[i][j].mu ≤ m) (k : Nat) (hk : k < teams.length) (hki : k ≠ i)
    (hd : ∀ b ∈ aggs teams, Scalar.ofNat 0 < pairDenom teams.length β (teamAgg teams[k] 0) b)
    (h1 : k < (predictWin β teams).length)
    (h2 : k < (predictWin β (teams.set i (fl5_setMu teams[i] j m))).length) :
    (predictWin β (teams.set i (fl5_setMu teams[i] j m)))[k] ≤ (predictWin β teams)[k] :=
  FL_C09_many_monotone_other MonoArith.real PhiMono.real β teams hn i hi j hj m hm k hk hki hd h1 h2

/-! ### every rounded arithmetic `RN r` -/

variable (r : Rounding)

/-- a team's summed mu, rounded after every addition, is monotone in each member's mu -/
theorem FL_teamAgg_mu_mono_rn (t : List (Rating (RN r))) (j : Nat) (hj : j < t.length) (m : RN r)
    (h : t[j].mu ≤ m) (rk : Nat) :
    (teamAgg t rk).mu ≤ (teamAgg (fl5_setMu t j m) rk).mu
      ∧ (teamAgg (fl5_setMu t j m) rk).sig2 = (teamAgg t rk).sig2 :=
  FL_teamAgg_mu_mono (MonoArith.rn r) t j hj m h rk

/-- two teams, rounded arithmetic; the divisor hypothesis is discharged from "team a's rounded variance is
`> 0`" -/
theorem FL_C09_two_monotone_rn (β : RN r) (a b : List (Rating (RN r))) (j : Nat) (hj : j < a.length)
    (m : RN r) (hm : a[j].mu ≤ m) (hv : Scalar.ofNat 0 < (teamAgg a 0).sig2) :
    FL5_winR β a b ≤ FL5_winR β (fl5_setMu a j m) b
      ∧ Scalar.ofNat 1 - FL5_winR β (fl5_setMu a j m) b ≤ Scalar.ofNat 1 - FL5_winR β a b :=
  FL_C09_two_monotone (MonoArith.rn r) (PhiMono.rn r) β a b j hj m hm
    (FL_pairDenom_pos (MonoArith.rn r) _ β a b hv)

theorem FL_C09_two_monotone_b_rn (β : RN r) (a b : List (Rating (RN r))) (j : Nat) (hj : j < b.length)
    (m : RN r) (hm : b[j].mu ≤ m) (hv : Scalar.ofNat 0 < (teamAgg a 0).sig2) :
    FL5_winR β a (fl5_setMu b j m) ≤ FL5_winR β a b
      ∧ Scalar.ofNat 1 - FL5_winR β a b ≤ Scalar.ofNat 1 - FL5_winR β a (fl5_setMu b j m) :=
  FL_C09_two_monotone_b (MonoArith.rn r) (PhiMono.rn r) β a b j hj m hm
    (FL_pairDenom_pos (MonoArith.rn r) _ β a b hv)

/-- three or more teams, rounded arithmetic, own entry; hypothesis: team `i`'s rounded variance is `> 0` -/
theorem FL_C09_many_monotone_own_rn (β : RN r) (teams : List (List (Rating (RN r))))
    (hn : 3 ≤ teams.length) (i : Nat) (hi : i < teams.length) (j : Nat) (hj : j < teams[i].length)
    (m : RN r) (hm : teams[i][j].mu ≤ m) (hv : Scalar.ofNat 0 < (teamAgg teams[i] 0).sig2)
    (h1 : i < (predictWin β teams).length)
    (h2 : i < (predictWin β (teams.set i (fl5_setMu teams[i] j m))).length) :
    (predictWin β teams)[i] ≤ (predictWin β (teams.set i (fl5_setMu teams[i] j m)))[i] :=
  FL_C09_many_monotone_own (MonoArith.rn r) (PhiMono.rn r) β teams hn i hi j hj m hm
    (FL_C09_divisors_pos_of_var_pos (MonoArith.rn r) β teams i hi hv _) h1 h2

/-- three or more teams, rounded arithmetic, other entries; hypothesis: team `k`'s rounded variance is `> 0` -/
theorem FL_C09_many_monotone_other_rn (β : RN r) (teams : List (List (Rating (RN r))))
    (hn : 3 ≤ teams.length) (i : Nat) (hi : i < teams.length) (j : Nat) (hj : j < teams[i].length)
    (m : RN r) (hm : teams[i][j].mu ≤ m) (k : Nat) (hk : k < teams.length) (hki : k ≠ i)
    (hv : Scalar.ofNat 0 < (teamAgg teams[k] 0).sig2)
    (h1 : k < (predictWin β teams).length)
    (h2 : k < (predictWin β (teams.set i (fl5_setMu teams[i] j m))).length) :
    (predictWin β (teams.set i (fl5_setMu teams[i] j m)))[k] ≤ (predictWin β teams)[k] :=
  FL_C09_many_monotone_other (MonoArith.rn r) (PhiMono.rn r) β teams hn i hi j hj m hm k hk hki
    (FL_C09_divisors_pos_of_var_pos (MonoArith.rn r) β teams k hk hv _) h1 h2

/-- `predict_rank` probabilities, rounded arithmetic, own and other entries -/
theorem FL_C11_probs_monotone_own_rn (β : RN r) (teams : List (List (Rating (RN r))))
    (hn : 2 ≤ teams.length) (i : Nat) (hi : i < teams.length) (j : Nat) (hj : j < teams[i].length)
    (m : RN r) (hm : teams[i][j].mu ≤ m) (hv : Scalar.ofNat 0 < (teamAgg teams[i] 0).sig2)
    (h1 : i < (predictRankProbs β teams).length)
    (h2 : i < (predictRankProbs β (teams.set i (fl5_setMu teams[i] j m))).length) :
    (predictRankProbs β teams)[i]
      ≤ (predictRankProbs β (teams.set i (fl5_setMu teams[i] j m)))[i] :=
  FL_C11_probs_monotone_own (MonoArith.rn r) (PhiMono.rn r) β teams hn i hi j hj m hm
    (FL_C09_divisors_pos_of_var_pos (MonoArith.rn r) β teams i hi hv _) h1 h2

theorem FL_C11_probs_monotone_other_rn (β : RN r) (teams : List (List (Rating (RN r))))
    (hn : 2 ≤ teams.length) (i : Nat) (hi : i < teams.length) (j : Nat) (hj : j < teams[i].length)
    (m : RN r) (hm : teams[i][j].mu ≤ m) (k : Nat) (hk : k < teams.length) (hki : k ≠ i)
    (hv : Scalar.ofNat 0 < (teamAgg teams[k] 0).sig2)
    (h1 : k < (predictRankProbs β teams).length)
    (h2 : k < (predictRankProbs β (teams.set i (fl5_setMu teams[i] j m))).length) :
    (predictRankProbs β (teams.set i (fl5_setMu teams[i] j m)))[k]
      ≤ (predictRankProbs β teams)[k] :=
  FL_C11_probs_monotone_other (MonoArith.rn r) (PhiMono.rn r) β teams hn i hi j hj m hm k hk hki
    (FL_C09_divisors_pos_of_var_pos (MonoArith.rn r) β teams k hk hv _) h1 h2

/-! ### `PhiMono` is independent of `MonoArith`

`FL5Wob` is ℝ with the exact arithmetic and a *decreasing* `Φ` with values in `{0, 1}`.  It satisfies every
law of `MonoArith` (those only ask `0 ≤ Φ ≤ 1`) and it does not satisfy `PhiMono`: the hypothesis `PhiMono`
of the theorems of `Props/FL5.lean` is not a consequence of the order laws. -/

/-- a decreasing step function with values 1 and 0 -/
def fl5_wobPhi (x : ℝ) : ℝ := if x ≤ 0 then 1 else 0

/-- ℝ with a wobbling `Φ` -/
def FL5Wob : Type := ℝ

instance instScalarWob : Scalar FL5Wob where
  add := fun a b : ℝ => a + b
  sub := fun a b : ℝ => a - b
  mul := fun a b : ℝ => a * b
  div := fun a b : ℝ => a / b
  neg := fun a : ℝ => -a
  lt := fun a b : ℝ => a < b
  le := fun a b : ℝ => a ≤ b
  ofNat n := (n : ℝ)
  sqrt := Real.sqrt
  exp := Real.exp
  Phi := fl5_wobPhi
  phi := Gauss.phi
  PhiInv := Gauss.PhiInv
  decLt _ _ := Classical.propDecidable _
  decLe _ _ := Classical.propDecidable _

/-- every law of `MonoArith` is the law of ℝ, except the two about `Φ` -/
theorem MonoArith.wob : MonoArith FL5Wob where
  le_refl' := @MonoArith.le_refl' ℝ _ MonoArith.real
  le_trans' := @MonoArith.le_trans' ℝ _ MonoArith.real
  le_total' := @MonoArith.le_total' ℝ _ MonoArith.real
  lt_iff_not_le' := @MonoArith.lt_iff_not_le' ℝ _ MonoArith.real
  add_le_add' := @MonoArith.add_le_add' ℝ _ MonoArith.real
  add_nonneg' := @MonoArith.add_nonneg' ℝ _ MonoArith.real
  add_nonpos' := @MonoArith.add_nonpos' ℝ _ MonoArith.real
  le_add_right' := @MonoArith.le_add_right' ℝ _ MonoArith.real
  le_add_left' := @MonoArith.le_add_left' ℝ _ MonoArith.real
  add_le_right' := @MonoArith.add_le_right' ℝ _ MonoArith.real
  add_le_left' := @MonoArith.add_le_left' ℝ _ MonoArith.real
  sub_le_sub' := @MonoArith.sub_le_sub' ℝ _ MonoArith.real
  sub_nonneg' := @MonoArith.sub_nonneg' ℝ _ MonoArith.real
  sub_nonpos' := @MonoArith.sub_nonpos' ℝ _ MonoArith.real
  sub_le_self' := @MonoArith.sub_le_self' ℝ _ MonoArith.real
  le_sub_self' := @MonoArith.le_sub_self' ℝ _ MonoArith.real
  neg_le_neg' := @MonoArith.neg_le_neg' ℝ _ MonoArith.real
  neg_nonneg' := @MonoArith.neg_nonneg' ℝ _ MonoArith.real
  neg_nonpos' := @MonoArith.neg_nonpos' ℝ _ MonoArith.real
  neg_add_le' := @MonoArith.neg_add_le' ℝ _ MonoArith.real
  neg_sub_le' := @MonoArith.neg_sub_le' ℝ _ MonoArith.real
  mul_nonneg' := @MonoArith.mul_nonneg' ℝ _ MonoArith.real
  mul_nonpos_right' := @MonoArith.mul_nonpos_right' ℝ _ MonoArith.real
  mul_nonpos_left' := @MonoArith.mul_nonpos_left' ℝ _ MonoArith.real
  mul_self_nonneg' := @MonoArith.mul_self_nonneg' ℝ _ MonoArith.real
  mul_le_mul' := @MonoArith.mul_le_mul' ℝ _ MonoArith.real
  mul_le_of_le_one_right' := @MonoArith.mul_le_of_le_one_right' ℝ _ MonoArith.real
  mul_le_of_le_one_left' := @MonoArith.mul_le_of_le_one_left' ℝ _ MonoArith.real
  le_mul_of_one_le_right' := @MonoArith.le_mul_of_one_le_right' ℝ _ MonoArith.real
  div_nonneg' := @MonoArith.div_nonneg' ℝ _ MonoArith.real
  div_nonpos' := @MonoArith.div_nonpos' ℝ _ MonoArith.real
  div_le_div_right' := @MonoArith.div_le_div_right' ℝ _ MonoArith.real
  div_le_one' := @MonoArith.div_le_one' ℝ _ MonoArith.real
  div_self' := @MonoArith.div_self' ℝ _ MonoArith.real
  div_le_self' := @MonoArith.div_le_self' ℝ _ MonoArith.real
  sqrt_nonneg' := @MonoArith.sqrt_nonneg' ℝ _ MonoArith.real
  sqrt_pos' := @MonoArith.sqrt_pos' ℝ _ MonoArith.real
  sqrt_le_sqrt' := @MonoArith.sqrt_le_sqrt' ℝ _ MonoArith.real
  sqrt_le_one' := @MonoArith.sqrt_le_one' ℝ _ MonoArith.real
  exp_nonneg' := @MonoArith.exp_nonneg' ℝ _ MonoArith.real
  Phi_nonneg' := fun a : ℝ => by
    show (((0 : ℕ) : ℝ)) ≤ fl5_wobPhi a
    unfold fl5_wobPhi
    split <;> norm_num
  Phi_le_one' := fun a : ℝ => by
    show fl5_wobPhi a ≤ (((1 : ℕ) : ℝ))
    unfold fl5_wobPhi
    split <;> norm_num
  phi_nonneg' := @MonoArith.phi_nonneg' ℝ _ MonoArith.real
  ofNat_le' := @MonoArith.ofNat_le' ℝ _ MonoArith.real
  ofNat_lt' := @MonoArith.ofNat_lt' ℝ _ MonoArith.real
  ofNat_add' := @MonoArith.ofNat_add' ℝ _ MonoArith.real
  ofNat_mul_div' := @MonoArith.ofNat_mul_div' ℝ _ MonoArith.real

/-- `MonoArith` does not imply `PhiMono` -/
theorem FL5_PhiMono_independent : MonoArith FL5Wob ∧ ¬ PhiMono FL5Wob := by
  refine ⟨MonoArith.wob, fun h => ?_⟩
  have h1 := h (ofNat 0) (ofNat 1) (MonoArith.wob.ofNat_le' (Nat.zero_le 1))
  change fl5_wobPhi ((0 : ℕ) : ℝ) ≤ fl5_wobPhi ((1 : ℕ) : ℝ) at h1
  unfold fl5_wobPhi at h1
  norm_num at h1

end OS
end
