import OSProofs.Props.C16
#print axioms OS.C16_btPair_scale
#print axioms OS.C16_btPair_shift
#print axioms OS.C16_tmPair_shift
#print axioms OS.C16_predict_pair_scale
#print axioms OS.C16_predict_pair_shift
#print axioms OS.C16_drawMargin_scale
