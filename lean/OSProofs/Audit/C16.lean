import OSProofs.Props.C16
import OSProofs.Props.C16b
#print axioms OS.C16_btPair_scale
#print axioms OS.C16_btPair_shift
#print axioms OS.C16_tmPair_shift
#print axioms OS.C16_predict_pair_scale
#print axioms OS.C16_predict_pair_shift
#print axioms OS.C16_drawMargin_scale
#print axioms OS.C16_teamAgg_scale
#print axioms OS.C16_omegaDelta_scale
#print axioms OS.C16_compute_scale
#print axioms OS.C16_rateCore_scale
#print axioms OS.C16_rate_scale
#print axioms OS.C16_rateCore_scale_kappa0
#print axioms OS.C16_teamAgg_shift
#print axioms OS.C16_omegaDelta_shift
#print axioms OS.C16_compute_shift
#print axioms OS.C16_rateCore_shift
#print axioms OS.C16_rate_shift
#print axioms OS.C16_predictWin_scale
#print axioms OS.C16_predictDraw_scale
#print axioms OS.C16_predictRank_scale
#print axioms OS.C16_predictWin_shift
#print axioms OS.C16_predictDraw_shift
#print axioms OS.C16_predictRank_shift
#print axioms OS.applyTeam_scale
#print axioms OS.inflate_scale
#print axioms OS.omegaDelta_scale
