import OSModel
import OSProofs.Gauss
import Mathlib.Analysis.SpecialFunctions.Sqrt
import Mathlib.Analysis.SpecialFunctions.Exp

/-!
# The model's scalar interface at ℝ

`instance : Scalar ℝ` makes every definition of `OSModel` a definition over the reals: the
objects the theorems of `OSProofs` are about are literally the terms the driver executes at
`Float`.
-/

noncomputable section
namespace OS

instance instScalarReal : Scalar ℝ where
  ofNat n := (n : ℝ)
  sqrt := Real.sqrt
  exp := Real.exp
  Phi := Gauss.Phi
  phi := Gauss.phi
  PhiInv := Gauss.PhiInv
  decLt _ _ := Classical.propDecidable _
  decLe _ _ := Classical.propDecidable _

@[simp] theorem sc_sqrt (x : ℝ) : Scalar.sqrt x = Real.sqrt x := rfl
@[simp] theorem sc_exp (x : ℝ) : Scalar.exp x = Real.exp x := rfl
@[simp] theorem sc_ofNat (n : ℕ) : (Scalar.ofNat n : ℝ) = (n : ℝ) := rfl
@[simp] theorem sc_Phi (x : ℝ) : Scalar.Phi x = Gauss.Phi x := rfl
@[simp] theorem sc_phi (x : ℝ) : Scalar.phi x = Gauss.phi x := rfl
@[simp] theorem sc_PhiInv (x : ℝ) : Scalar.PhiInv x = Gauss.PhiInv x := rfl

/-- the left fold `sumL` is the list sum -/
theorem sumL_eq_sum (l : List ℝ) : sumL l = l.sum := by
  unfold sumL
  have : ∀ (l : List ℝ) (a : ℝ), List.foldl (· + ·) a l = a + l.sum := by
    intro l
    induction l with
    | nil => intro a; simp
    | cons x xs ih => intro a; simp [ih, add_assoc]
  rw [this]; simp

theorem smax_eq_max (a b : ℝ) : smax a b = max a b := by
  unfold smax
  split_ifs with h
  · exact (max_eq_right h.le).symm
  · exact (max_eq_left (not_lt.mp h)).symm

theorem sabs_eq_abs (a : ℝ) : sabs a = |a| := by
  unfold sabs
  simp only [sc_ofNat, Nat.cast_zero]
  split_ifs with h
  · exact (abs_of_neg h).symm
  · exact (abs_of_nonneg (not_lt.mp h)).symm

theorem epsF_pos : (0 : ℝ) < epsF := by
  unfold epsF; simp only [sc_ofNat]; positivity

theorem tiny5_pos : (0 : ℝ) < tiny5 := by
  unfold tiny5; simp only [sc_ofNat]; positivity

end OS
end
