import OSProofs.Props.C16
import OSProofs.SortLemmas
import Mathlib.Algebra.BigOperators.Group.List.Basic
import Mathlib.Algebra.BigOperators.Ring.List
/-!
# Helper lemmas for C16b (change of unit / origin at the level of a whole game)

* the rescaled / shifted inputs (`scalePlayer`, `scaleTeams`, `shiftPlayer`, `shiftTeams`,
  `scaleOpts`, `TeamAgg.shiftP`);
* list plumbing: every traversal of the model (`othersOf`, `neighboursOf`, `orderedPairs`,
  `zipIdx`, `_unwind`) commutes with a slot-wise map of the payload;
* the scalar identities (`√(k²x) = k√x`, `kx/(kc) = x/c`) — none of them needs `c ≠ 0`, so the
  game-level statements carry no positivity side condition besides `0 < k`.
-/
noncomputable section
namespace OS
open Scalar

/-! ### the transformed inputs -/

/-- one player in rescaled units -/
def scalePlayer (k : ℝ) (p : Rating ℝ) : Rating ℝ := { p with mu := k * p.mu, sigma := k * p.sigma }

/-- every player of every team in rescaled units -/
def scaleTeams (k : ℝ) (teams : List (List (Rating ℝ))) : List (List (Rating ℝ)) :=
  teams.map (·.map (scalePlayer k))

/-- one player with the origin of the scale moved by `d` -/
def shiftPlayer (d : ℝ) (p : Rating ℝ) : Rating ℝ := { p with mu := p.mu + d }

/-- every player of every team with the origin of the scale moved by `d` -/
def shiftTeams (d : ℝ) (teams : List (List (Rating ℝ))) : List (List (Rating ℝ)) :=
  teams.map (·.map (shiftPlayer d))

/-- the per-call options in rescaled units (only a per-call `tau` carries a unit) -/
def scaleOpts (k : ℝ) (o : CallOpts ℝ) : CallOpts ℝ := { o with tau := o.tau.map (k * ·) }

/-- the parameters in rescaled units: `beta` and `tau` carry the unit, `kappa` and the gamma
    callbacks of the tagged family are pure numbers -/
def scaleParams (k : ℝ) (P : Params ℝ) : Params ℝ := { P with beta := k * P.beta, tau := k * P.tau }

/-- a team aggregate whose players are shifted by `d` and whose total mu is shifted by `D` -/
def TeamAgg.shiftP (d D : ℝ) (t : TeamAgg ℝ) : TeamAgg ℝ :=
  { t with mu := t.mu + D, players := t.players.map (shiftPlayer d) }

theorem TeamAgg.scale_players (k : ℝ) (t : TeamAgg ℝ) :
    (t.scale k).players = t.players.map (scalePlayer k) := rfl

/-! ### list plumbing -/

section plumbing
variable {β γ : Type}

theorem c16_othersOf_map (f : β → γ) (l : List β) (i : Nat) :
    othersOf (l.map f) i = (othersOf l i).map f := by
  simp [othersOf, List.zipIdx_map, List.filter_map, Function.comp_def]

theorem c16_neighboursOf_map (f : β → γ) (l : List β) (i : Nat) :
    neighboursOf (l.map f) i = (neighboursOf l i).map f := by
  unfold neighboursOf
  have h : ∀ j : Nat, ((l.map f)[j]?).toList = ((l[j]?).toList).map f := by
    intro j; rw [List.getElem?_map]; cases l[j]? <;> rfl
  split_ifs <;> simp only [h, List.map_append, List.nil_append]

theorem c16_orderedPairs_map (f : β → γ) (l : List β) :
    orderedPairs (l.map f) = (orderedPairs l).map (Prod.map f f) := by
  simp [orderedPairs, List.zipIdx_map, List.filter_map, Function.comp_def, List.flatMap_map,
    List.map_flatMap]

theorem playerCount_map_map {δ : Type} (f : β → δ) (teams : List (List β)) :
    playerCount (teams.map (·.map f)) = playerCount teams := by
  simp [playerCount, Function.comp_def]

/-- every element the first component of `_unwind` returns is one of the objects -/
theorem c16_mem_unwind_fst {κ : Type} (le : κ → κ → Bool) (tenet : List κ) (xs : List β) (x : β)
    (h : x ∈ (unwind le tenet xs).1) : x ∈ xs := by
  simp only [unwind, sortByKey, List.mem_map, List.mem_mergeSort] at h
  obtain ⟨e, he, rfl⟩ := h
  have h2 : e.2 ∈ xs.zipIdx := (List.of_mem_zip he).2
  obtain ⟨e1, e2, e3⟩ := e
  have := List.mem_zipIdx h2
  simp at this
  obtain ⟨h3, h4⟩ := this
  simp [h4]

end plumbing

/-! ### sums -/

theorem sumL_map_mul_left {β : Type} (k : ℝ) (f : β → ℝ) (l : List β) :
    sumL (l.map (fun x => k * f x)) = k * sumL (l.map f) := by
  simp only [sumL_eq_sum, List.sum_map_mul_left]

theorem sumL_map_add_const {β : Type} (d : ℝ) (f : β → ℝ) (l : List β) :
    sumL (l.map (fun x => f x + d)) = sumL (l.map f) + l.length * d := by
  simp only [sumL_eq_sum]
  induction l with
  | nil => simp
  | cons x xs ih => simp only [List.map_cons, List.sum_cons, ih, List.length_cons]; push_cast; ring

theorem c16_sumL_nonneg (l : List ℝ) (h : ∀ x ∈ l, 0 ≤ x) : 0 ≤ sumL l := by
  rw [sumL_eq_sum]; exact List.sum_nonneg h

theorem sumPairs_scale {β : Type} (k : ℝ) (g : β → ℝ × ℝ) (l : List β) :
    sumPairs (l.map (fun x => (k * (g x).1, (g x).2)))
      = (k * (sumPairs (l.map g)).1, (sumPairs (l.map g)).2) := by
  simp only [sumPairs, List.map_map, Function.comp_def]
  rw [sumL_map_mul_left]

/-! ### scalar identities (no denominator needs to be non-zero) -/

theorem mul_div_scale (k x c : ℝ) (hk : k ≠ 0) : k * x / (k * c) = x / c :=
  mul_div_mul_left x c hk

theorem sq_mul_div_scale (k x c : ℝ) (hk : k ≠ 0) : k ^ 2 * x / (k * c) = k * (x / c) := by
  rw [pow_two, mul_assoc, mul_div_mul_left _ _ hk, mul_div_assoc]

theorem sq_mul_div_sq_scale (k x c : ℝ) (hk : k ≠ 0) : k ^ 2 * x / (k * c * (k * c)) = x / (c * c) := by
  have : k * c * (k * c) = k ^ 2 * (c * c) := by ring
  rw [this, mul_div_mul_left _ _ (pow_ne_zero 2 hk)]

/-- every gamma of the tagged family is a pure number: it does not change with the unit
(an arbitrary callback: hypothesis `GammaScaleInv`) -/
theorem gammaVal_scale (g : GammaFn ℝ) (hg : g.Tagged) (k c : ℝ) (hk : 0 < k) (n : Nat) (mu mu' s2 : ℝ)
    (team team' : List (Rating ℝ)) (r : Nat) :
    gammaVal g (k * c) n mu' (k ^ 2 * s2) team' r = gammaVal g c n mu s2 team r :=
  gam_tagged_scale hg k c hk n mu mu' s2 team team' r

/-- no gamma of the tagged family reads the team mu (nor the players) -/
theorem gammaVal_mu (g : GammaFn ℝ) (hg : g.Tagged) (c : ℝ) (n : Nat) (mu mu' s2 : ℝ)
    (team team' : List (Rating ℝ)) (r : Nat) :
    gammaVal g c n mu' s2 team' r = gammaVal g c n mu s2 team r :=
  gam_tagged_mu_team hg c n mu mu' s2 team team' r

/-- the scale invariance of a callback, on the call `_compute` makes for a team aggregate -/
theorem gam_scaleInv_agg {g : GammaFn ℝ} (hg : GammaScaleInv g) (k : ℝ) (hk : 0 < k) (c : ℝ) (n : Nat)
    (t : TeamAgg ℝ) :
    gammaVal g (k * c) n (k * t.mu) (k ^ 2 * t.sig2)
        (t.players.map (fun p => { p with mu := k * p.mu, sigma := k * p.sigma })) t.rank
      = gammaVal g c n t.mu t.sig2 t.players t.rank :=
  hg k hk c n t.mu t.sig2 t.players t.rank

/-! ### change of unit: aggregates, the per-player update, the inflation, the clamp -/

theorem teamAgg_scale (k : ℝ) (team : List (Rating ℝ)) (r : Nat) :
    teamAgg (team.map (scalePlayer k)) r = (teamAgg team r).scale k := by
  simp only [teamAgg, TeamAgg.scale, List.map_map, Function.comp_def, scalePlayer]
  congr 1
  · exact sumL_map_mul_left k (fun p => p.mu) team
  · rw [← sumL_map_mul_left]; congr 2; funext p; ring

theorem teamAggs_scale (k : ℝ) (teams : List (List (Rating ℝ))) (ranks : List Nat) :
    teamAggs (scaleTeams k teams) ranks = (teamAggs teams ranks).map (TeamAgg.scale k) := by
  simp only [teamAggs, scaleTeams, List.zip_map_left, List.map_map, Function.comp_def, Prod.map,
    teamAgg_scale, id]

theorem aggs_scale (k : ℝ) (teams : List (List (Rating ℝ))) :
    aggs (scaleTeams k teams) = (aggs teams).map (TeamAgg.scale k) := by
  simp only [aggs, scaleTeams, List.map_map, Function.comp_def, teamAgg_scale]

theorem c16_teamAgg_sig2_nonneg (team : List (Rating ℝ)) (r : Nat) : 0 ≤ (teamAgg team r).sig2 := by
  apply c16_sumL_nonneg
  intro x hx
  obtain ⟨p, -, rfl⟩ := List.mem_map.mp hx
  exact mul_self_nonneg _

/-- the per-player update in rescaled units -/
theorem applyTeam_scale (k κ : ℝ) (hk : k ≠ 0) (t : TeamAgg ℝ) (ω δ : ℝ) :
    applyTeam κ (t.scale k) (k * ω) δ = (applyTeam κ t ω δ).map (scalePlayer k) := by
  simp only [applyTeam, TeamAgg.scale, List.map_map, Function.comp_def, scalePlayer]
  refine List.map_congr_left (fun p _ => ?_)
  have hs : k * p.sigma * (k * p.sigma) / (k ^ 2 * t.sig2) = p.sigma * p.sigma / t.sig2 := by
    have : k * p.sigma * (k * p.sigma) = k ^ 2 * (p.sigma * p.sigma) := by ring
    rw [this, mul_div_mul_left _ _ (pow_ne_zero 2 hk)]
  rw [hs]
  congr 1
  · ring
  · ring

theorem inflate_scale (k τ : ℝ) (hk : 0 < k) (teams : List (List (Rating ℝ))) :
    inflate (k * τ) (scaleTeams k teams) = scaleTeams k (inflate τ teams) := by
  simp only [inflate, scaleTeams, List.map_map, Function.comp_def, scalePlayer]
  refine List.map_congr_left (fun t _ => List.map_congr_left (fun p _ => ?_))
  have : k * p.sigma * (k * p.sigma) + k * τ * (k * τ) = k ^ 2 * (p.sigma * p.sigma + τ * τ) := by
    ring
  simp only [sc_sqrt, this, sqrt_scale k _ hk]

theorem clampTeams_scale (k : ℝ) (hk : 0 < k) (orig res : List (List (Rating ℝ))) :
    clampTeams (scaleTeams k orig) (scaleTeams k res) = scaleTeams k (clampTeams orig res) := by
  simp only [clampTeams, scaleTeams, List.zip_map, List.map_map, Function.comp_def, Prod.map]
  refine List.map_congr_left (fun tr _ => List.map_congr_left (fun pq _ => ?_))
  have h : k * pq.1.sigma ≤ k * pq.2.sigma ↔ pq.1.sigma ≤ pq.2.sigma :=
    mul_le_mul_iff_right₀ hk
  simp only [scalePlayer, h]
  split_ifs <;> rfl

theorem length_scaleTeams (k : ℝ) (teams : List (List (Rating ℝ))) :
    (scaleTeams k teams).length = teams.length := by simp [scaleTeams]

theorem resolveTau_scale (k : ℝ) (P : Params ℝ) (o : CallOpts ℝ) :
    resolveTau (scaleParams k P) (scaleOpts k o) = k * resolveTau P o := by
  unfold resolveTau scaleOpts scaleParams
  cases o.tau <;> rfl

theorem resolveLimit_scale (k : ℝ) (P : Params ℝ) (o : CallOpts ℝ) :
    resolveLimit (scaleParams k P) (scaleOpts k o) = resolveLimit P o := rfl

/-! ### change of unit: Bradley–Terry -/

/-- Bradley–Terry pair term under a change of unit, any scale-invariant gamma callback (all of the
    tagged family), no positivity side condition -/
theorem btPair_scale (k β : ℝ) (hk : 0 < k) (g : GammaFn ℝ) (hg : GammaScaleInv g) (n : Nat)
    (ti tq : TeamAgg ℝ) :
    btPair (k * β) g n (ti.scale k) (tq.scale k)
      = (k * (btPair β g n ti tq).1, (btPair β g n ti tq).2) := by
  have hcs : Real.sqrt (k ^ 2 * ti.sig2 + k ^ 2 * tq.sig2 + 2 * (k * β * (k * β)))
      = k * Real.sqrt (ti.sig2 + tq.sig2 + 2 * (β * β)) := by
    rw [← sqrt_scale k _ hk]; congr 1; ring
  simp only [btPair, TeamAgg.scale, sc_sqrt, sc_exp, sc_ofNat, Nat.cast_ofNat, Nat.cast_one,
    Nat.cast_zero, hcs, ← mul_sub, mul_div_scale k _ _ hk.ne', sq_mul_div_scale k _ _ hk.ne',
    gam_scaleInv_agg hg k hk _ n ti]
  refine Prod.ext ?_ ?_
  · simp only []; ring
  · simp only []
    rw [← mul_assoc, mul_comm _ k, mul_assoc k, mul_div_scale k _ _ hk.ne']

theorem omegaDelta_scale_BTF (L : Leaves ℝ) (k : ℝ) (hk : 0 < k) (P : Params ℝ)
    (hg : GammaScaleInv P.gamma) (ts : List (TeamAgg ℝ)) :
    omegaDelta .BTF L (scaleParams k P) (ts.map (TeamAgg.scale k))
      = (omegaDelta .BTF L P ts).map (fun od => (k * od.1, od.2)) := by
  simp only [omegaDelta, scaleParams, List.zipIdx_map, List.map_map, Function.comp_def, Prod.map,
    c16_othersOf_map, List.length_map, id, btPair_scale k _ hk _ hg, sumPairs_scale]

theorem omegaDelta_scale_BTP (L : Leaves ℝ) (k : ℝ) (hk : 0 < k) (P : Params ℝ)
    (hg : GammaScaleInv P.gamma) (ts : List (TeamAgg ℝ)) :
    omegaDelta .BTP L (scaleParams k P) (ts.map (TeamAgg.scale k))
      = (omegaDelta .BTP L P ts).map (fun od => (k * od.1, od.2)) := by
  simp only [omegaDelta, scaleParams, List.zipIdx_map, List.map_map, Function.comp_def, Prod.map,
    c16_neighboursOf_map, List.length_map, id, btPair_scale k _ hk _ hg, sumPairs_scale]

/-! ### change of unit: Plackett–Luce -/

theorem plC_scale (k β : ℝ) (hk : 0 < k) (ts : List (TeamAgg ℝ)) :
    plC (k * β) (ts.map (TeamAgg.scale k)) = k * plC β ts := by
  simp only [plC, sc_sqrt, List.map_map, Function.comp_def, TeamAgg.scale]
  rw [← sqrt_scale k _ hk, ← sumL_map_mul_left]
  congr 3; funext t; ring

theorem plSumQ_scale (k c : ℝ) (hk : k ≠ 0) (ts : List (TeamAgg ℝ)) :
    plSumQ (ts.map (TeamAgg.scale k)) (k * c) = plSumQ ts c := by
  simp only [plSumQ, List.map_map, List.filter_map, Function.comp_def, TeamAgg.scale,
    mul_div_scale k _ _ hk]
  rfl

theorem plA_scale (k : ℝ) (ts : List (TeamAgg ℝ)) : plA (ts.map (TeamAgg.scale k)) = plA ts := by
  simp only [plA, List.map_map, List.filter_map, Function.comp_def, TeamAgg.scale, List.length_map]
  rfl

theorem plOmegaDelta_scale (k : ℝ) (hk : 0 < k) (g : GammaFn ℝ) (hg : GammaScaleInv g)
    (ts : List (TeamAgg ℝ)) (c : ℝ)
    (sq : List ℝ) (a : List Nat) (i : Nat) (ti : TeamAgg ℝ) :
    plOmegaDelta g (ts.map (TeamAgg.scale k)) (k * c) sq a i (ti.scale k)
      = (k * (plOmegaDelta g ts c sq a i ti).1, (plOmegaDelta g ts c sq a i ti).2) := by
  have hz : ((ts.map (TeamAgg.scale k)).zip (sq.zip a)).zipIdx
      = ((ts.zip (sq.zip a)).zipIdx).map (Prod.map (Prod.map (TeamAgg.scale k) id) id) := by
    rw [List.zip_map_left, List.zipIdx_map]
  simp only [plOmegaDelta, hz, List.filter_map, List.map_map, Function.comp_def, Prod.map, id,
    List.length_map]
  simp only [TeamAgg.scale, mul_div_scale k _ _ hk.ne', sq_mul_div_scale k _ _ hk.ne',
    sq_mul_div_sq_scale k _ _ hk.ne',
    gam_scaleInv_agg hg k hk _ ts.length ti]
  refine Prod.ext ?_ rfl
  simp only []
  rw [mul_left_comm]
  rfl

theorem omegaDelta_scale_PL (L : Leaves ℝ) (k : ℝ) (hk : 0 < k) (P : Params ℝ)
    (hg : GammaScaleInv P.gamma) (ts : List (TeamAgg ℝ)) :
    omegaDelta .PL L (scaleParams k P) (ts.map (TeamAgg.scale k))
      = (omegaDelta .PL L P ts).map (fun od => (k * od.1, od.2)) := by
  simp only [omegaDelta, scaleParams, plC_scale k _ hk, plSumQ_scale k _ hk.ne', plA_scale,
    List.zipIdx_map, List.map_map, Function.comp_def, Prod.map, id, plOmegaDelta_scale k hk _ hg]

/-! ### change of unit: Thurstone–Mosteller with `kappa = 0`

In the Thurstone–Mosteller models `kappa` is used twice: as the (dimensionless) floor of the
variance factor in `applyTeam` and, divided by `c_iq`, as the draw margin of the pair term, where
it carries the unit of the skill scale.  So with one `kappa` these models are unit-free only for
`kappa = 0`. -/

theorem tmPair_scale_kappa0 (L : Leaves ℝ) (cmul k β : ℝ) (hk : 0 < k) (g : GammaFn ℝ)
    (hg : GammaScaleInv g) (n : Nat) (ti tq : TeamAgg ℝ) :
    tmPair L cmul (k * β) 0 g n (ti.scale k) (tq.scale k)
      = (k * (tmPair L cmul β 0 g n ti tq).1, (tmPair L cmul β 0 g n ti tq).2) := by
  have hcs : cmul * Real.sqrt (k ^ 2 * ti.sig2 + k ^ 2 * tq.sig2 + 2 * (k * β * (k * β)))
      = k * (cmul * Real.sqrt (ti.sig2 + tq.sig2 + 2 * (β * β))) := by
    rw [mul_left_comm k cmul, ← sqrt_scale k _ hk]; congr 2; ring
  simp only [tmPair, TeamAgg.scale, sc_sqrt, sc_ofNat, Nat.cast_ofNat, hcs, ← mul_sub,
    mul_div_scale k _ _ hk.ne', sq_mul_div_scale k _ _ hk.ne', zero_div,
    gam_scaleInv_agg hg k hk _ n ti]
  have h2 : ∀ x c : ℝ, gammaVal g c n ti.mu ti.sig2 ti.players ti.rank * (k * x) / (k * c)
      = gammaVal g c n ti.mu ti.sig2 ti.players ti.rank * x / c := by
    intro x c; rw [mul_left_comm, mul_div_scale k _ _ hk.ne']
  simp only [h2]
  split_ifs
  · refine Prod.ext ?_ rfl; simp only []; ring
  · refine Prod.ext ?_ rfl; simp only []; ring
  · refine Prod.ext ?_ rfl; simp only []; ring

theorem omegaDelta_scale_TM_kappa0 (K : Kind) (L : Leaves ℝ) (k : ℝ) (hk : 0 < k) (P : Params ℝ)
    (hg : GammaScaleInv P.gamma) (hκ : P.kappa = 0) (ts : List (TeamAgg ℝ)) :
    omegaDelta K L (scaleParams k P) (ts.map (TeamAgg.scale k))
      = (omegaDelta K L P ts).map (fun od => (k * od.1, od.2)) := by
  cases K with
  | PL => exact omegaDelta_scale_PL L k hk P hg ts
  | BTF => exact omegaDelta_scale_BTF L k hk P hg ts
  | BTP => exact omegaDelta_scale_BTP L k hk P hg ts
  | TMF =>
    simp only [omegaDelta, scaleParams, hκ, List.zipIdx_map, List.map_map, Function.comp_def,
      Prod.map, c16_othersOf_map, List.length_map, id, tmPair_scale_kappa0 L _ k _ hk _ hg, sumPairs_scale]
  | TMP =>
    simp only [omegaDelta, scaleParams, hκ, List.zipIdx_map, List.map_map, Function.comp_def,
      Prod.map, c16_neighboursOf_map, List.length_map, id, tmPair_scale_kappa0 L _ k _ hk _ hg,
      sumPairs_scale]

/-! ### change of unit: `omegaDelta`, `_compute` -/

/-- the models whose update is built from logistic (Bradley–Terry / Plackett–Luce) terms -/
def Kind.logistic (K : Kind) : Prop := K = .PL ∨ K = .BTF ∨ K = .BTP

/-- in rescaled units every omega is multiplied by the unit and every delta is unchanged -/
theorem omegaDelta_scale (K : Kind) (hK : K.logistic) (L : Leaves ℝ) (k : ℝ) (hk : 0 < k)
    (P : Params ℝ) (hg : GammaScaleInv P.gamma) (ts : List (TeamAgg ℝ)) :
    omegaDelta K L (scaleParams k P) (ts.map (TeamAgg.scale k))
      = (omegaDelta K L P ts).map (fun od => (k * od.1, od.2)) := by
  rcases hK with rfl | rfl | rfl
  · exact omegaDelta_scale_PL L k hk P hg ts
  · exact omegaDelta_scale_BTF L k hk P hg ts
  · exact omegaDelta_scale_BTP L k hk P hg ts

/-- the same for every model for which the change of unit is sound: the three logistic models, or
    any model when `kappa = 0` -/
theorem omegaDelta_scale_gen (K : Kind) (L : Leaves ℝ) (k : ℝ) (hk : 0 < k)
    (P : Params ℝ) (hg : GammaScaleInv P.gamma) (hK : K.logistic ∨ P.kappa = 0) (ts : List (TeamAgg ℝ)) :
    omegaDelta K L (scaleParams k P) (ts.map (TeamAgg.scale k))
      = (omegaDelta K L P ts).map (fun od => (k * od.1, od.2)) := by
  rcases hK with hK | hκ
  · exact omegaDelta_scale K hK L k hk P hg ts
  · exact omegaDelta_scale_TM_kappa0 K L k hk P hg hκ ts

theorem compute_scale (K : Kind) (L : Leaves ℝ) (k : ℝ) (hk : 0 < k)
    (P : Params ℝ) (hg : GammaScaleInv P.gamma) (hK : K.logistic ∨ P.kappa = 0) (teams : List (List (Rating ℝ))) (dense : List Nat) :
    compute K L (scaleParams k P) (scaleTeams k teams) dense
      = scaleTeams k (compute K L P teams dense) := by
  simp only [compute, teamAggs_scale, omegaDelta_scale_gen K L k hk P hg hK, List.zip_map, List.map_map,
    Function.comp_def, Prod.map, applyTeam_scale k _ hk.ne']
  simp only [scaleTeams, List.map_map, Function.comp_def]
  rfl

theorem unwind_scaleTeams {κ : Type} (le : κ → κ → Bool) (tenet : List κ) (k : ℝ)
    (xs : List (List (Rating ℝ))) :
    unwind le tenet (scaleTeams k xs)
      = (scaleTeams k (unwind le tenet xs).1, (unwind le tenet xs).2) :=
  unwind_map le tenet xs _

theorem rateCore_scale {ρ : Type} (K : Kind) (L : Leaves ℝ) (k : ℝ) (hk : 0 < k)
    (P : Params ℝ) (hg : GammaScaleInv P.gamma) (hK : K.logistic ∨ P.kappa = 0) (le : ρ → ρ → Bool)
    (teams : List (List (Rating ℝ))) (ranks : Option (List ρ)) (o : CallOpts ℝ) :
    rateCore K L (scaleParams k P) le (scaleTeams k teams) ranks (scaleOpts k o)
      = scaleTeams k (rateCore K L P le teams ranks o) := by
  cases ranks with
  | none =>
    simp only [rateCore, resolveTau_scale, resolveLimit_scale, inflate_scale _ _ hk,
      length_scaleTeams, compute_scale K L k hk P hg hK, clampTeams_scale k hk]
    split_ifs <;> rfl
  | some r =>
    simp only [rateCore, resolveTau_scale, resolveLimit_scale, inflate_scale _ _ hk,
      unwind_scaleTeams, compute_scale K L k hk P hg hK, clampTeams_scale k hk]
    split_ifs <;> rfl

/-! ### change of origin: aggregates, the per-player update, the inflation, the clamp -/

theorem teamAgg_shift (d : ℝ) (team : List (Rating ℝ)) (r : Nat) :
    teamAgg (team.map (shiftPlayer d)) r = (teamAgg team r).shiftP d (team.length * d) := by
  simp only [teamAgg, TeamAgg.shiftP, List.map_map, Function.comp_def, shiftPlayer]
  congr 1
  exact sumL_map_add_const d (fun p => p.mu) team

theorem teamAggs_shift (d : ℝ) (m : Nat) (teams : List (List (Rating ℝ)))
    (hm : ∀ t ∈ teams, t.length = m) (ranks : List Nat) :
    teamAggs (shiftTeams d teams) ranks = (teamAggs teams ranks).map (TeamAgg.shiftP d (m * d)) := by
  simp only [teamAggs, shiftTeams, List.zip_map_left, List.map_map, Function.comp_def, Prod.map,
    teamAgg_shift, id]
  refine List.map_congr_left (fun tr htr => ?_)
  rw [hm _ (List.of_mem_zip htr).1]

theorem aggs_shift (d : ℝ) (m : Nat) (teams : List (List (Rating ℝ)))
    (hm : ∀ t ∈ teams, t.length = m) :
    aggs (shiftTeams d teams) = (aggs teams).map (TeamAgg.shiftP d (m * d)) := by
  simp only [aggs, shiftTeams, List.map_map, Function.comp_def, teamAgg_shift]
  refine List.map_congr_left (fun t ht => ?_)
  rw [hm _ ht]

/-- the per-player update with the origin moved -/
theorem applyTeam_shift (κ d D : ℝ) (t : TeamAgg ℝ) (ω δ : ℝ) :
    applyTeam κ (t.shiftP d D) ω δ = (applyTeam κ t ω δ).map (shiftPlayer d) := by
  simp only [applyTeam, TeamAgg.shiftP, List.map_map, Function.comp_def, shiftPlayer]
  refine List.map_congr_left (fun p _ => ?_)
  congr 1
  ring

theorem inflate_shift (d τ : ℝ) (teams : List (List (Rating ℝ))) :
    inflate τ (shiftTeams d teams) = shiftTeams d (inflate τ teams) := by
  simp only [inflate, shiftTeams, List.map_map, Function.comp_def, shiftPlayer]

theorem clampTeams_shift (d : ℝ) (orig res : List (List (Rating ℝ))) :
    clampTeams (shiftTeams d orig) (shiftTeams d res) = shiftTeams d (clampTeams orig res) := by
  simp only [clampTeams, shiftTeams, List.zip_map, List.map_map, Function.comp_def, Prod.map]
  refine List.map_congr_left (fun tr _ => List.map_congr_left (fun pq _ => ?_))
  by_cases h : pq.1.sigma ≤ pq.2.sigma
  · have h' : (shiftPlayer d pq.1).sigma ≤ (shiftPlayer d pq.2).sigma := h
    rw [if_pos h, if_pos h']
  · have h' : ¬ (shiftPlayer d pq.1).sigma ≤ (shiftPlayer d pq.2).sigma := h
    rw [if_neg h, if_neg h']
    rfl

theorem length_shiftTeams (d : ℝ) (teams : List (List (Rating ℝ))) :
    (shiftTeams d teams).length = teams.length := by simp [shiftTeams]

theorem unwind_shiftTeams {κ : Type} (le : κ → κ → Bool) (tenet : List κ) (d : ℝ)
    (xs : List (List (Rating ℝ))) :
    unwind le tenet (shiftTeams d xs)
      = (shiftTeams d (unwind le tenet xs).1, (unwind le tenet xs).2) :=
  unwind_map le tenet xs _

theorem inflate_lengths (τ : ℝ) (m : Nat) (teams : List (List (Rating ℝ)))
    (hm : ∀ t ∈ teams, t.length = m) : ∀ t ∈ inflate τ teams, t.length = m := by
  intro t ht
  simp only [inflate, List.mem_map] at ht
  obtain ⟨t0, ht0, rfl⟩ := ht
  simpa using hm t0 ht0

/-! ### change of origin: pair terms, Plackett–Luce, `omegaDelta` -/

/-- the gamma call `_compute` makes for team `t` is the same after the shift (players by `d`, team mu
by `D`) -/
def gam_ShiftAt (g : GammaFn ℝ) (d D : ℝ) (t : TeamAgg ℝ) : Prop :=
  ∀ (c : ℝ) (n : Nat),
    gammaVal g c n (t.mu + D) t.sig2 (t.players.map (shiftPlayer d)) t.rank
      = gammaVal g c n t.mu t.sig2 t.players t.rank

/-- a tagged member: any `d`, `D` -/
theorem gam_shiftAt_tagged {g : GammaFn ℝ} (hg : g.Tagged) (d D : ℝ) (t : TeamAgg ℝ) :
    gam_ShiftAt g d D t :=
  fun c n => gam_tagged_mu_team hg c n t.mu _ t.sig2 t.players _ t.rank

/-- a shift-invariant callback: `D` = (number of players) · `d` -/
theorem gam_shiftAt_of_inv {g : GammaFn ℝ} (hg : GammaShiftInv g) (d : ℝ) (t : TeamAgg ℝ) :
    gam_ShiftAt g d (t.players.length * d) t :=
  fun c n => hg d c n t.mu t.sig2 t.players t.rank

theorem btPair_shiftP (d D β : ℝ) (g : GammaFn ℝ) (n : Nat) (ti tq : TeamAgg ℝ)
    (hg : gam_ShiftAt g d D ti) :
    btPair β g n (ti.shiftP d D) (tq.shiftP d D) = btPair β g n ti tq := by
  have h : tq.mu + D - (ti.mu + D) = tq.mu - ti.mu := by ring
  simp only [btPair, TeamAgg.shiftP, h, hg _ n]
  rfl

theorem tmPair_shiftP (L : Leaves ℝ) (cmul d D β κ : ℝ) (g : GammaFn ℝ) (n : Nat)
    (ti tq : TeamAgg ℝ) (hg : gam_ShiftAt g d D ti) :
    tmPair L cmul β κ g n (ti.shiftP d D) (tq.shiftP d D) = tmPair L cmul β κ g n ti tq := by
  have h : ti.mu + D - (tq.mu + D) = ti.mu - tq.mu := by ring
  simp only [tmPair, TeamAgg.shiftP, h, hg _ n]

theorem plC_shift (d D β : ℝ) (ts : List (TeamAgg ℝ)) :
    plC β (ts.map (TeamAgg.shiftP d D)) = plC β ts := by
  simp only [plC, List.map_map, Function.comp_def, TeamAgg.shiftP]

theorem exp_shift (x D c : ℝ) : Real.exp ((x + D) / c) = Real.exp (D / c) * Real.exp (x / c) := by
  rw [add_div, Real.exp_add, mul_comm]

theorem plSumQ_shift (d D c : ℝ) (ts : List (TeamAgg ℝ)) :
    plSumQ (ts.map (TeamAgg.shiftP d D)) c = (plSumQ ts c).map (fun s => Real.exp (D / c) * s) := by
  simp only [plSumQ, List.map_map, List.filter_map, Function.comp_def, TeamAgg.shiftP, sc_exp,
    exp_shift, sumL_map_mul_left]
  rfl

theorem plA_shift (d D : ℝ) (ts : List (TeamAgg ℝ)) :
    plA (ts.map (TeamAgg.shiftP d D)) = plA ts := by
  simp only [plA, List.map_map, List.filter_map, Function.comp_def, TeamAgg.shiftP,
    List.length_map]
  rfl

theorem plOmegaDelta_shift (d D : ℝ) (g : GammaFn ℝ) (ts : List (TeamAgg ℝ)) (c : ℝ)
    (sq : List ℝ) (a : List Nat) (i : Nat) (ti : TeamAgg ℝ) (hg : gam_ShiftAt g d D ti) :
    plOmegaDelta g (ts.map (TeamAgg.shiftP d D)) c (sq.map (fun s => Real.exp (D / c) * s)) a i
        (ti.shiftP d D)
      = plOmegaDelta g ts c sq a i ti := by
  have hz : ((ts.map (TeamAgg.shiftP d D)).zip ((sq.map (fun s => Real.exp (D / c) * s)).zip a)).zipIdx
      = ((ts.zip (sq.zip a)).zipIdx).map
          (Prod.map (Prod.map (TeamAgg.shiftP d D) (Prod.map (fun s => Real.exp (D / c) * s) id)) id) := by
    rw [List.zip_map_left (l₁ := sq), List.zip_map, List.zipIdx_map]
  simp only [plOmegaDelta, hz, List.filter_map, List.map_map, Function.comp_def, Prod.map, id,
    List.length_map]
  simp only [TeamAgg.shiftP, sc_exp, exp_shift, mul_div_mul_left _ _ (Real.exp_ne_zero _),
    hg c ts.length]
  rfl

/-- moving every team mu by the same amount changes no omega and no delta (all five models), as long
as the gamma call of each team is unchanged (`gam_ShiftAt`: any tagged member; a shift-invariant
callback when `D` is (team size) · `d`) -/
theorem omegaDelta_shift (K : Kind) (L : Leaves ℝ) (d D : ℝ) (P : Params ℝ)
    (ts : List (TeamAgg ℝ)) (hg : ∀ t ∈ ts, gam_ShiftAt P.gamma d D t) :
    omegaDelta K L P (ts.map (TeamAgg.shiftP d D)) = omegaDelta K L P ts := by
  cases K with
  | PL =>
    simp only [omegaDelta, plC_shift, plSumQ_shift, plA_shift, List.zipIdx_map, List.map_map,
      Function.comp_def, Prod.map, id]
    refine List.map_congr_left (fun x hx => ?_)
    exact plOmegaDelta_shift d D _ ts _ _ _ _ _ (hg _ (List.fst_mem_of_mem_zipIdx hx))
  | BTF =>
    simp only [omegaDelta, List.zipIdx_map, List.map_map, Function.comp_def, Prod.map,
      c16_othersOf_map, List.length_map, id]
    refine List.map_congr_left (fun x hx => ?_)
    simp only [btPair_shiftP d D _ _ _ x.1 _ (hg _ (List.fst_mem_of_mem_zipIdx hx))]
  | BTP =>
    simp only [omegaDelta, List.zipIdx_map, List.map_map, Function.comp_def, Prod.map,
      c16_neighboursOf_map, List.length_map, id]
    refine List.map_congr_left (fun x hx => ?_)
    simp only [btPair_shiftP d D _ _ _ x.1 _ (hg _ (List.fst_mem_of_mem_zipIdx hx))]
  | TMF =>
    simp only [omegaDelta, List.zipIdx_map, List.map_map, Function.comp_def, Prod.map,
      c16_othersOf_map, List.length_map, id]
    refine List.map_congr_left (fun x hx => ?_)
    simp only [tmPair_shiftP L _ d D _ _ _ _ x.1 _ (hg _ (List.fst_mem_of_mem_zipIdx hx))]
  | TMP =>
    simp only [omegaDelta, List.zipIdx_map, List.map_map, Function.comp_def, Prod.map,
      c16_neighboursOf_map, List.length_map, id]
    refine List.map_congr_left (fun x hx => ?_)
    simp only [tmPair_shiftP L _ d D _ _ _ _ x.1 _ (hg _ (List.fst_mem_of_mem_zipIdx hx))]

/-- the statement for the tagged family: any `d`, `D` -/
theorem omegaDelta_shift_tagged (K : Kind) (L : Leaves ℝ) (d D : ℝ) (P : Params ℝ)
    (hg : P.gamma.Tagged) (ts : List (TeamAgg ℝ)) :
    omegaDelta K L P (ts.map (TeamAgg.shiftP d D)) = omegaDelta K L P ts :=
  omegaDelta_shift K L d D P ts (fun t _ => gam_shiftAt_tagged hg d D t)

/-- the players carried by the aggregates of teams of size `m` -/
theorem gam_teamAggs_players_length (m : Nat) (teams : List (List (Rating ℝ)))
    (hm : ∀ t ∈ teams, t.length = m) (ranks : List Nat) :
    ∀ t ∈ teamAggs teams ranks, t.players.length = m := by
  intro t ht
  simp only [teamAggs, List.mem_map] at ht
  obtain ⟨tr, htr, rfl⟩ := ht
  exact hm _ (List.of_mem_zip htr).1

theorem compute_shift (K : Kind) (L : Leaves ℝ) (d : ℝ) (m : Nat) (P : Params ℝ)
    (hg : GammaShiftInv P.gamma)
    (teams : List (List (Rating ℝ))) (hm : ∀ t ∈ teams, t.length = m) (dense : List Nat) :
    compute K L P (shiftTeams d teams) dense = shiftTeams d (compute K L P teams dense) := by
  have hod := omegaDelta_shift K L d (m * d) P (teamAggs teams dense) (fun t ht => by
    have := gam_shiftAt_of_inv hg d t
    rwa [gam_teamAggs_players_length m teams hm dense t ht] at this)
  simp only [compute, teamAggs_shift d m teams hm, hod, List.zip_map_left,
    List.map_map, Function.comp_def, Prod.map, applyTeam_shift, id]
  simp only [shiftTeams, List.map_map, Function.comp_def]

theorem rateCore_shift {ρ : Type} (K : Kind) (L : Leaves ℝ) (d : ℝ) (m : Nat)
    (P : Params ℝ) (hg : GammaShiftInv P.gamma) (le : ρ → ρ → Bool) (teams : List (List (Rating ℝ)))
    (hm : ∀ t ∈ teams, t.length = m) (ranks : Option (List ρ)) (o : CallOpts ℝ) :
    rateCore K L P le (shiftTeams d teams) ranks o = shiftTeams d (rateCore K L P le teams ranks o) := by
  have hm' := inflate_lengths (resolveTau P o) m teams hm
  cases ranks with
  | none =>
    simp only [rateCore, inflate_shift, length_shiftTeams, compute_shift K L d m P hg _ hm',
      clampTeams_shift]
    split_ifs <;> rfl
  | some r =>
    have hm'' : ∀ t ∈ (unwind le r (inflate (resolveTau P o) teams)).1, t.length = m :=
      fun t ht => hm' t (c16_mem_unwind_fst le r _ t ht)
    simp only [rateCore, inflate_shift, unwind_shiftTeams, compute_shift K L d m P hg _ hm'',
      clampTeams_shift]
    split_ifs <;> rfl

/-! ### predictions -/

theorem playerCount_scaleTeams (k : ℝ) (teams : List (List (Rating ℝ))) :
    playerCount (scaleTeams k teams) = playerCount teams := playerCount_map_map _ teams

theorem playerCount_shiftTeams (d : ℝ) (teams : List (List (Rating ℝ))) :
    playerCount (shiftTeams d teams) = playerCount teams := playerCount_map_map _ teams

theorem pairDenom_scale (k β : ℝ) (hk : 0 < k) (nb : Nat) (a b : TeamAgg ℝ) :
    pairDenom nb (k * β) (a.scale k) (b.scale k) = k * pairDenom nb β a b := by
  simp only [pairDenom, TeamAgg.scale, sc_sqrt, sc_ofNat]
  rw [← sqrt_scale k _ hk]; congr 1; ring

theorem pairDenom_shiftP (d D β : ℝ) (nb : Nat) (a b : TeamAgg ℝ) :
    pairDenom nb β (a.shiftP d D) (b.shiftP d D) = pairDenom nb β a b := rfl

/-- the argument of every pairwise normal CDF, with a margin `m`, in rescaled units -/
theorem predArg_scale (k β : ℝ) (hk : 0 < k) (nb : Nat) (a b : TeamAgg ℝ) (m : ℝ) :
    ((a.scale k).mu - (b.scale k).mu - k * m) / pairDenom nb (k * β) (a.scale k) (b.scale k)
      = (a.mu - b.mu - m) / pairDenom nb β a b := by
  rw [pairDenom_scale k β hk]
  simp only [TeamAgg.scale, ← mul_sub, mul_div_scale k _ _ hk.ne']

theorem predArg_scale0 (k β : ℝ) (hk : 0 < k) (nb : Nat) (a b : TeamAgg ℝ) :
    ((a.scale k).mu - (b.scale k).mu) / pairDenom nb (k * β) (a.scale k) (b.scale k)
      = (a.mu - b.mu) / pairDenom nb β a b := by
  have := predArg_scale k β hk nb a b 0
  simpa using this

theorem predArg_scale' (k β : ℝ) (hk : 0 < k) (nb : Nat) (a b : TeamAgg ℝ) (m : ℝ) :
    (k * m - (a.scale k).mu + (b.scale k).mu) / pairDenom nb (k * β) (a.scale k) (b.scale k)
      = (m - a.mu + b.mu) / pairDenom nb β a b := by
  rw [pairDenom_scale k β hk]
  simp only [TeamAgg.scale, ← mul_sub, ← mul_add, mul_div_scale k _ _ hk.ne']

theorem predArg_shift (d D : ℝ) (a b : TeamAgg ℝ) (m : ℝ) :
    (a.shiftP d D).mu - (b.shiftP d D).mu - m = a.mu - b.mu - m := by
  simp only [TeamAgg.shiftP]; ring

theorem predArg_shift0 (d D : ℝ) (a b : TeamAgg ℝ) :
    (a.shiftP d D).mu - (b.shiftP d D).mu = a.mu - b.mu := by
  simp only [TeamAgg.shiftP]; ring

theorem predArg_shift' (d D : ℝ) (a b : TeamAgg ℝ) (m : ℝ) :
    m - (a.shiftP d D).mu + (b.shiftP d D).mu = m - a.mu + b.mu := by
  simp only [TeamAgg.shiftP]; ring

/-- the branch of `predict_win` for a number of teams other than two -/
def winGeneral (β : ℝ) (n : Nat) (ts : List (TeamAgg ℝ)) : List ℝ :=
  (chunk (n - 1) ((orderedPairs ts).map (fun ab =>
      Phi ((ab.1.mu - ab.2.mu) / pairDenom n β ab.1 ab.2)))).map
    (fun c => sumL c / (ofNat (n * (n - 1)) / ofNat 2))

theorem winGeneral_scale (k β : ℝ) (hk : 0 < k) (n : Nat) (ts : List (TeamAgg ℝ)) :
    winGeneral (k * β) n (ts.map (TeamAgg.scale k)) = winGeneral β n ts := by
  simp only [winGeneral, c16_orderedPairs_map, List.map_map, Function.comp_def, Prod.map,
    predArg_scale0 k β hk]

theorem winGeneral_shift (d D β : ℝ) (n : Nat) (ts : List (TeamAgg ℝ)) :
    winGeneral β n (ts.map (TeamAgg.shiftP d D)) = winGeneral β n ts := by
  simp only [winGeneral, c16_orderedPairs_map, List.map_map, Function.comp_def, Prod.map,
    predArg_shift0, pairDenom_shiftP]

theorem predictWin_scale (k β : ℝ) (hk : 0 < k) (teams : List (List (Rating ℝ))) :
    predictWin (k * β) (scaleTeams k teams) = predictWin β teams := by
  unfold predictWin
  simp only [aggs_scale, length_scaleTeams, playerCount_scaleTeams]
  generalize aggs teams = ts
  rcases ts with _ | ⟨a, _ | ⟨b, _ | ⟨c, l⟩⟩⟩
  · exact winGeneral_scale k β hk _ []
  · exact winGeneral_scale k β hk _ [a]
  · simp only [List.map_cons, List.map_nil, predArg_scale0 k β hk]
  · exact winGeneral_scale k β hk _ (a :: b :: c :: l)

theorem predictWin_shift (d β : ℝ) (m : Nat) (teams : List (List (Rating ℝ)))
    (hm : ∀ t ∈ teams, t.length = m) :
    predictWin β (shiftTeams d teams) = predictWin β teams := by
  unfold predictWin
  simp only [aggs_shift d m teams hm, length_shiftTeams, playerCount_shiftTeams]
  generalize aggs teams = ts
  rcases ts with _ | ⟨a, _ | ⟨b, _ | ⟨c, l⟩⟩⟩
  · exact winGeneral_shift d _ β _ []
  · exact winGeneral_shift d _ β _ [a]
  · simp only [List.map_cons, List.map_nil, predArg_shift0, pairDenom_shiftP]
  · exact winGeneral_shift d _ β _ (a :: b :: c :: l)

theorem predictDraw_scale (k β : ℝ) (hk : 0 < k) (teams : List (List (Rating ℝ))) :
    predictDraw (k * β) (scaleTeams k teams) = predictDraw β teams := by
  simp only [predictDraw, aggs_scale, length_scaleTeams, playerCount_scaleTeams,
    C16_drawMargin_scale, c16_orderedPairs_map, List.map_map, Function.comp_def, Prod.map,
    predArg_scale k β hk, predArg_scale' k β hk]

theorem predictDraw_shift (d β : ℝ) (m : Nat) (teams : List (List (Rating ℝ)))
    (hm : ∀ t ∈ teams, t.length = m) :
    predictDraw β (shiftTeams d teams) = predictDraw β teams := by
  simp only [predictDraw, aggs_shift d m teams hm, length_shiftTeams, playerCount_shiftTeams,
    c16_orderedPairs_map, List.map_map, Function.comp_def, Prod.map,
    predArg_shift, predArg_shift', pairDenom_shiftP]

theorem predictRankProbs_scale (k β : ℝ) (hk : 0 < k) (teams : List (List (Rating ℝ))) :
    predictRankProbs (k * β) (scaleTeams k teams) = predictRankProbs β teams := by
  simp only [predictRankProbs, aggs_scale, length_scaleTeams, playerCount_scaleTeams,
    C16_drawMargin_scale, c16_orderedPairs_map, List.map_map, Function.comp_def, Prod.map,
    predArg_scale k β hk]

theorem predictRankProbs_shift (d β : ℝ) (m : Nat) (teams : List (List (Rating ℝ)))
    (hm : ∀ t ∈ teams, t.length = m) :
    predictRankProbs β (shiftTeams d teams) = predictRankProbs β teams := by
  simp only [predictRankProbs, aggs_shift d m teams hm, length_shiftTeams, playerCount_shiftTeams,
    c16_orderedPairs_map, List.map_map, Function.comp_def, Prod.map,
    predArg_shift, pairDenom_shiftP]

/-! ### `omegaDelta` reads only `beta`, `kappa`, `gamma` of the parameters -/

theorem omegaDelta_congr_params (K : Kind) (L : Leaves ℝ) (P P' : Params ℝ)
    (hb : P.beta = P'.beta) (hκ : P.kappa = P'.kappa) (hg : P.gamma = P'.gamma)
    (ts : List (TeamAgg ℝ)) : omegaDelta K L P ts = omegaDelta K L P' ts := by
  cases K <;> simp only [omegaDelta, hb, hκ, hg]


end OS
end
