import OSModel.Compute
import OSModel.Predict
/-
  Code-shaped (literal) transliterations of the two Python loops that the rest of the model
  replaces by a closed form:

  * `PlackettLuce._sum_q`   (models/weng_lin/plackett_luce.py)  — closed form `plSumQ`
  * `_arg_sort`/`_rank_data` (models/common.py)                 — closed form `rankData`

  Nothing else in `OSModel` uses this file.  `OSProofs/CodeShaped.lean` proves
  `plSumQCode ts c = plSumQ ts c` (ranks non-decreasing) and `rankDataCode v = rankData v`.
-/
namespace OS
open Scalar

/-! ### `_sum_q` : a Python `dict` is an association list in insertion order -/

/-- `if q in d: d[q] += x  else: d[q] = x` on a dict represented by its items in insertion
    order: an existing entry is updated in place, a new key is appended at the end. -/
def dictAdd {β : Type} [Add β] : List (Nat × β) → Nat → β → List (Nat × β)
  | [], q, x => [(q, x)]
  | (k, v) :: rest, q, x =>
    if k = q then (k, v + x) :: rest else (k, v) :: dictAdd rest q x

variable {α : Type} [Scalar α]

/-- body of the inner loop `for q, team_q in enumerate(team_ratings)` for a fixed `team_i` -/
def plSumQInner (ts : List (TeamAgg α)) (rankI : Nat) (summed : α) (d : List (Nat × α)) :
    List (Nat × α) :=
  ts.zipIdx.foldl
    (fun d tq => if rankI ≥ tq.1.rank then dictAdd d tq.2 summed else d) d

/-- the dict `sum_q` after the double loop -/
def plSumQDict (ts : List (TeamAgg α)) (c : α) : List (Nat × α) :=
  ts.zipIdx.foldl
    (fun d ti =>
      let summed := exp (ti.1.mu / c)
      plSumQInner ts ti.1.rank summed d)
    []

/-- `_sum_q(team_ratings, c)`, literally: `list(sum_q.values())` -/
def plSumQCode (ts : List (TeamAgg α)) (c : α) : List α :=
  (plSumQDict ts c).map (·.2)

/-! ### `_arg_sort` / `_rank_data` -/

/-- Python's tuple comparison `(v, i) <= (w, j)` when `==` on the first component is
    `¬ v < w ∧ ¬ w < v`: the first differing component decides. -/
def lexLe (a b : α × Nat) : Bool :=
  decide (a.1 < b.1) || (!decide (b.1 < a.1) && decide (a.2 ≤ b.2))

/-- `_arg_sort(vector)`:
    `[i for (v, i) in sorted((v, i) for (i, v) in enumerate(vector))]` -/
def argSortCode (v : List α) : List Nat :=
  (v.zipIdx.mergeSort lexLe).map (·.2)

/-- `a != b` for scalars -/
def sne (a b : α) : Bool := decide (a < b) || decide (b < a)

/-- Python `range(a, b)` -/
def pyRange (a b : Nat) : List Nat := List.range' a (b - a)

/-- `_rank_data(vector)`, literally.  The loop state is `(duplicate_count, rank_vector_with_ties)`
    (`sum_ranks` is written but never read in the Python code, so it is left out).  List
    reads `l[k]` are `l.getD k default`; every index that occurs is in range.  Python's integer
    expression `index - duplicate_count + 1` is written `index + 1 - dup` because `Nat`
    subtraction truncates (`duplicate_count ≤ index + 1` always, so the value is the same). -/
def rankDataCode (v : List α) : List Nat :=
  let n := v.length
  let argSortRank := argSortCode v
  let argSorted : List α := argSortRank.map (fun r => v.getD r (ofNat 0))
  let step := fun (st : Nat × List Nat) (index : Nat) =>
    let dup := st.1 + 1
    if index == n - 1 || sne (argSorted.getD index (ofNat 0)) (argSorted.getD (index + 1) (ofNat 0))
    then
      let out := (pyRange (index + 1 - dup) (index + 1)).foldl
        (fun out j => out.set (argSortRank.getD j 0) (index + 1 - dup + 1)) st.2
      (0, out)
    else (dup, st.2)
  ((List.range n).foldl step (0, List.replicate n 0)).2

end OS
