import OSProofs.LeagueLemmas
import OSProofs.LeagueRealLemmas
import OSProofs.Props.C06

/-!
# C06 for a concrete league

`OSModel/League.lean` models a league: a store `player ↦ (mu, sigma)`, games given by player
numbers, `playGame` = load the participants' ratings from the store, `rate`, write every returned
rating back under its id; `playLeague` folds `playGame` over a history.  Here the abstract
league statements of C06 (`C06_history`, `C06_history_limit`, stated over an arbitrary
`GameStep`) are proved for that state machine, at `α := ℝ`.

Standing hypotheses (those of `C06_rate`, for every game of the history): `0 < κ ≤ 1`,
`GammaOK P.gamma`, `LeafFacts L` (asked only if some game of the history uses a Thurstone–Mosteller
model), and every game well-formed (`LeagueGame.WF`: pairwise distinct players, one outcome entry per
team).  Every game may have its own model kind, outcome form, per-call `tau` and `limit_sigma`;
nothing is assumed about the comparator `le`, about `neg`, `β`, or the sign of the sigmas unless
stated.

* `C06_playGame_slot` — one game: a participant ends with `σ' ≤ √(σ² + τ_g²)`, `0 < σ → 0 < σ'`,
  `0 ≤ σ → 0 ≤ σ'`, `σ' ≤ σ` under limit_sigma; everybody else keeps his (mu, sigma).
* `C06_league` — after every prefix of the history `σ_k² ≤ σ_0² + Σ τ_g²` over the games among the
  first `k` in which the player took part (`leagueBudget`).
* `C06_league_limit` — with limit_sigma in force (in the games the player takes part in),
  `k ≤ l → σ_l ≤ σ_k`.
* `C06_league_pos`, `C06_league_nonneg` — a positive (non-negative) sigma stays so for ever.
* `C06_league_steps`, `C06_league_via_history` — the `GameStep`s read off the concrete league
  satisfy the hypothesis of the abstract `C06_history`, whose conclusion is `C06_league`.
-/

noncomputable section
namespace OS
open Scalar
variable {ρ : Type}

/-! ### one game -/

/-- **C06 for one game of the league.**  Let `s' = playGame … s g` for a well-formed game `g`,
`τ_g` and `limit_sigma` as resolved for that call.  For every player `p`:

* if `p` takes part in `g`: `σ'(p) ≤ √(σ(p)² + τ_g²)`; `0 < σ(p) → 0 < σ'(p)`;
  `0 ≤ σ(p) → 0 ≤ σ'(p)`; with limit_sigma on, `σ'(p) ≤ σ(p)`; with limit_sigma off,
  `σ(p) ≠ 0 ∨ τ_g ≠ 0 → 0 < σ'(p)`;
* if `p` does not take part: `μ'(p) = μ(p)` and `σ'(p) = σ(p)`. -/
theorem C06_playGame_slot (L : Leaves ℝ) (P : Params ℝ) (le : ρ → ρ → Bool) (neg : ρ → ρ)
    (s : Store ℝ) (g : LeagueGame ℝ ρ)
    (hL : g.kind = .TMF ∨ g.kind = .TMP → LeafFacts L) (hk0 : 0 < P.kappa) (hk1 : P.kappa ≤ 1)
    (hg : GammaOK P.gamma) (hwf : g.WF) (p : Nat) :
    (g.plays p →
      (playGame L P le neg s g).sigma p ≤ √(s.sigma p ^ 2 + resolveTau P g.opts ^ 2)
      ∧ (0 < s.sigma p → 0 < (playGame L P le neg s g).sigma p)
      ∧ (0 ≤ s.sigma p → 0 ≤ (playGame L P le neg s g).sigma p)
      ∧ (resolveLimit P g.opts = true → (playGame L P le neg s g).sigma p ≤ s.sigma p)
      ∧ (resolveLimit P g.opts = false → (s.sigma p ≠ 0 ∨ resolveTau P g.opts ≠ 0) →
          0 < (playGame L P le neg s g).sigma p))
    ∧ (¬ g.plays p →
      (playGame L P le neg s g).mu p = s.mu p ∧ (playGame L P le neg s g).sigma p = s.sigma p) := by
  refine ⟨fun hp => ?_, fun hp => playGame_untouched L P le neg s g hwf.2 p hp⟩
  obtain ⟨r', ⟨h1, h2, h3, h4, h5, h6⟩, _, hsig⟩ :=
    lg_playGame_slotC06 L P le neg s g hL hk0 hk1 hg hwf p hp
  simp only [lg_load_sigma] at h2 h3 h4 h5 h6
  rw [hsig]
  exact ⟨h2, h3, h5, h6, h4⟩

/-- the sigma of every player after one well-formed game is at most `√(σ² + budget)`, squared:
`σ'² ≤ σ² + (τ_g² if he played, else 0)`, for a player who entered with `0 ≤ σ` -/
theorem C06_playGame_sq (L : Leaves ℝ) (P : Params ℝ) (le : ρ → ρ → Bool) (neg : ρ → ρ)
    (s : Store ℝ) (g : LeagueGame ℝ ρ)
    (hL : g.kind = .TMF ∨ g.kind = .TMP → LeafFacts L) (hk0 : 0 < P.kappa) (hk1 : P.kappa ≤ 1)
    (hg : GammaOK P.gamma) (hwf : g.WF) (p : Nat) (hp : 0 ≤ s.sigma p) :
    0 ≤ (playGame L P le neg s g).sigma p ∧
    (playGame L P le neg s g).sigma p ^ 2 ≤ s.sigma p ^ 2 + gameBudget P g p := by
  obtain ⟨hin, hout⟩ := C06_playGame_slot L P le neg s g hL hk0 hk1 hg hwf p
  by_cases hpl : g.plays p
  · obtain ⟨h1, _, h3, _, _⟩ := hin hpl
    refine ⟨h3 hp, ?_⟩
    have h2 := pow_le_pow_left₀ (h3 hp) h1 2
    rw [Real.sq_sqrt (by positivity)] at h2
    rw [gameBudget_pos hpl]
    exact h2
  · rw [(hout hpl).2, gameBudget_neg hpl]
    exact ⟨hp, by linarith⟩

/-! ### a history -/

/-- **Variance budget, whole history.**  For a player who starts with `0 ≤ σ_0`:
`0 ≤ σ_end` and `σ_end² ≤ σ_0² + Σ_{g in the history, p takes part in g} τ_g²`. -/
theorem C06_league_total (L : Leaves ℝ) (P : Params ℝ) (le : ρ → ρ → Bool) (neg : ρ → ρ)
    (s : Store ℝ) (gs : List (LeagueGame ℝ ρ))
    (hL : ∀ g ∈ gs, g.kind = .TMF ∨ g.kind = .TMP → LeafFacts L)
    (hk0 : 0 < P.kappa) (hk1 : P.kappa ≤ 1) (hg : GammaOK P.gamma) (hwf : ∀ g ∈ gs, g.WF)
    (p : Nat) (hp : 0 ≤ s.sigma p) :
    0 ≤ (playLeague L P le neg s gs).sigma p ∧
    (playLeague L P le neg s gs).sigma p ^ 2 ≤ s.sigma p ^ 2 + leagueBudget P gs p := by
  induction gs generalizing s with
  | nil => exact ⟨hp, by simp [lg_playLeague_nil, leagueBudget]⟩
  | cons g gs ih =>
    obtain ⟨h0, h1⟩ := C06_playGame_sq L P le neg s g (hL g List.mem_cons_self) hk0 hk1 hg
      (hwf g List.mem_cons_self) p hp
    obtain ⟨i0, i1⟩ := ih (playGame L P le neg s g)
      (fun g' h => hL g' (List.mem_cons_of_mem _ h)) (fun g' h => hwf g' (List.mem_cons_of_mem _ h)) h0
    rw [lg_playLeague_cons, leagueBudget_cons]
    exact ⟨i0, by linarith⟩

/-- **Variance budget of the league (C06, history clause without limit_sigma).**  Write `σ_k(p)`
for the sigma of player `p` in the store after the first `k` games of the history `gs`
(`playLeague … s (gs.take k)`; `k` beyond the end means the whole history).  If every game is
well-formed then for every player with `0 ≤ σ_0(p)` and every `k`:

`σ_k(p)² ≤ σ_0(p)² + Σ_{g among the first k games, p takes part in g} τ_g²`,

`τ_g = resolveTau P g.opts` being the tau in force in game `g` (per-call value, else the
model's).  So sigma grows by at most tau, in quadrature, per game played. -/
theorem C06_league (L : Leaves ℝ) (P : Params ℝ) (le : ρ → ρ → Bool) (neg : ρ → ρ)
    (s : Store ℝ) (gs : List (LeagueGame ℝ ρ))
    (hL : ∀ g ∈ gs, g.kind = .TMF ∨ g.kind = .TMP → LeafFacts L)
    (hk0 : 0 < P.kappa) (hk1 : P.kappa ≤ 1) (hg : GammaOK P.gamma) (hwf : ∀ g ∈ gs, g.WF)
    (p : Nat) (hp : 0 ≤ s.sigma p) (k : Nat) :
    (playLeague L P le neg s (gs.take k)).sigma p ^ 2
      ≤ s.sigma p ^ 2 + leagueBudget P (gs.take k) p :=
  (C06_league_total L P le neg s (gs.take k) (fun g h => hL g (List.mem_of_mem_take h)) hk0 hk1 hg
    (fun g h => hwf g (List.mem_of_mem_take h)) p hp).2

/-- **A non-negative sigma stays non-negative** after every prefix of the history. -/
theorem C06_league_nonneg (L : Leaves ℝ) (P : Params ℝ) (le : ρ → ρ → Bool) (neg : ρ → ρ)
    (s : Store ℝ) (gs : List (LeagueGame ℝ ρ))
    (hL : ∀ g ∈ gs, g.kind = .TMF ∨ g.kind = .TMP → LeafFacts L)
    (hk0 : 0 < P.kappa) (hk1 : P.kappa ≤ 1) (hg : GammaOK P.gamma) (hwf : ∀ g ∈ gs, g.WF)
    (p : Nat) (hp : 0 ≤ s.sigma p) (k : Nat) :
    0 ≤ (playLeague L P le neg s (gs.take k)).sigma p :=
  (C06_league_total L P le neg s (gs.take k) (fun g h => hL g (List.mem_of_mem_take h)) hk0 hk1 hg
    (fun g h => hwf g (List.mem_of_mem_take h)) p hp).1

/-- whole-history form of `C06_league_pos` -/
theorem C06_league_pos_total (L : Leaves ℝ) (P : Params ℝ) (le : ρ → ρ → Bool) (neg : ρ → ρ)
    (s : Store ℝ) (gs : List (LeagueGame ℝ ρ))
    (hL : ∀ g ∈ gs, g.kind = .TMF ∨ g.kind = .TMP → LeafFacts L)
    (hk0 : 0 < P.kappa) (hk1 : P.kappa ≤ 1) (hg : GammaOK P.gamma) (hwf : ∀ g ∈ gs, g.WF)
    (p : Nat) (hp : 0 < s.sigma p) : 0 < (playLeague L P le neg s gs).sigma p := by
  induction gs generalizing s with
  | nil => exact hp
  | cons g gs ih =>
    rw [lg_playLeague_cons]
    apply ih _ (fun g' h => hL g' (List.mem_cons_of_mem _ h))
      (fun g' h => hwf g' (List.mem_cons_of_mem _ h))
    obtain ⟨hin, hout⟩ := C06_playGame_slot L P le neg s g (hL g List.mem_cons_self) hk0 hk1 hg
      (hwf g List.mem_cons_self) p
    by_cases hpl : g.plays p
    · exact (hin hpl).2.1 hp
    · rw [(hout hpl).2]; exact hp

/-- **A positive sigma stays positive for ever**: `0 < σ_0(p) → 0 < σ_k(p)` for all `k`, with or
without limit_sigma, whatever the taus (zero and negative ones included). -/
theorem C06_league_pos (L : Leaves ℝ) (P : Params ℝ) (le : ρ → ρ → Bool) (neg : ρ → ρ)
    (s : Store ℝ) (gs : List (LeagueGame ℝ ρ))
    (hL : ∀ g ∈ gs, g.kind = .TMF ∨ g.kind = .TMP → LeafFacts L)
    (hk0 : 0 < P.kappa) (hk1 : P.kappa ≤ 1) (hg : GammaOK P.gamma) (hwf : ∀ g ∈ gs, g.WF)
    (p : Nat) (hp : 0 < s.sigma p) (k : Nat) :
    0 < (playLeague L P le neg s (gs.take k)).sigma p :=
  C06_league_pos_total L P le neg s (gs.take k) (fun g h => hL g (List.mem_of_mem_take h)) hk0 hk1 hg
    (fun g h => hwf g (List.mem_of_mem_take h)) p hp

/-- whole-history form of `C06_league_limit`: the final sigma is at most the initial one -/
theorem C06_league_limit_total (L : Leaves ℝ) (P : Params ℝ) (le : ρ → ρ → Bool) (neg : ρ → ρ)
    (s : Store ℝ) (gs : List (LeagueGame ℝ ρ))
    (hL : ∀ g ∈ gs, g.kind = .TMF ∨ g.kind = .TMP → LeafFacts L)
    (hk0 : 0 < P.kappa) (hk1 : P.kappa ≤ 1) (hg : GammaOK P.gamma) (hwf : ∀ g ∈ gs, g.WF)
    (p : Nat) (hlim : ∀ g ∈ gs, g.plays p → resolveLimit P g.opts = true) :
    (playLeague L P le neg s gs).sigma p ≤ s.sigma p := by
  induction gs generalizing s with
  | nil => exact le_refl _
  | cons g gs ih =>
    rw [lg_playLeague_cons]
    refine (ih (playGame L P le neg s g) (fun g' h => hL g' (List.mem_cons_of_mem _ h))
      (fun g' h => hwf g' (List.mem_cons_of_mem _ h))
      (fun g' h => hlim g' (List.mem_cons_of_mem _ h))).trans ?_
    obtain ⟨hin, hout⟩ := C06_playGame_slot L P le neg s g (hL g List.mem_cons_self) hk0 hk1 hg
      (hwf g List.mem_cons_self) p
    by_cases hpl : g.plays p
    · exact (hin hpl).2.2.2.1 (hlim g List.mem_cons_self hpl)
    · rw [(hout hpl).2]

/-- **limit_sigma makes sigma non-increasing along the league (C06, history clause with
limit_sigma).**  If limit_sigma is in force (per call, else by the model's setting) in every game
of the history in which player `p` takes part — in particular if it is in force in every game —
then `σ_k(p)` is non-increasing in `k`: `k ≤ l → σ_l(p) ≤ σ_k(p)`.  No sign condition on the
sigmas, none on the taus. -/
theorem C06_league_limit (L : Leaves ℝ) (P : Params ℝ) (le : ρ → ρ → Bool) (neg : ρ → ρ)
    (s : Store ℝ) (gs : List (LeagueGame ℝ ρ))
    (hL : ∀ g ∈ gs, g.kind = .TMF ∨ g.kind = .TMP → LeafFacts L)
    (hk0 : 0 < P.kappa) (hk1 : P.kappa ≤ 1) (hg : GammaOK P.gamma) (hwf : ∀ g ∈ gs, g.WF)
    (p : Nat) (hlim : ∀ g ∈ gs, g.plays p → resolveLimit P g.opts = true)
    (k l : Nat) (hkl : k ≤ l) :
    (playLeague L P le neg s (gs.take l)).sigma p ≤ (playLeague L P le neg s (gs.take k)).sigma p := by
  obtain ⟨d, rfl⟩ := Nat.exists_eq_add_of_le hkl
  rw [List.take_add, lg_playLeague_append]
  have hsub : ∀ g ∈ (gs.drop k).take d, g ∈ gs :=
    fun g h => List.mem_of_mem_drop (List.mem_of_mem_take h)
  exact C06_league_limit_total L P le neg _ _ (fun g h => hL g (hsub g h)) hk0 hk1 hg
    (fun g h => hwf g (hsub g h)) p (fun g h => hlim g (hsub g h))

/-- the form asked for: limit_sigma in force in every game of the history -/
theorem C06_league_limit_all (L : Leaves ℝ) (P : Params ℝ) (le : ρ → ρ → Bool) (neg : ρ → ρ)
    (s : Store ℝ) (gs : List (LeagueGame ℝ ρ))
    (hL : ∀ g ∈ gs, g.kind = .TMF ∨ g.kind = .TMP → LeafFacts L)
    (hk0 : 0 < P.kappa) (hk1 : P.kappa ≤ 1) (hg : GammaOK P.gamma) (hwf : ∀ g ∈ gs, g.WF)
    (hlim : ∀ g ∈ gs, resolveLimit P g.opts = true) :
    ∀ (p k l : Nat), k ≤ l →
      (playLeague L P le neg s (gs.take l)).sigma p ≤ (playLeague L P le neg s (gs.take k)).sigma p :=
  fun p k l hkl => C06_league_limit L P le neg s gs hL hk0 hk1 hg hwf p
    (fun g h _ => hlim g h) k l hkl

/-! ### the abstract `C06_history` instantiated -/

/-- the `GameStep` of game number `k` of the league: the tau in force, who takes part, and the
sigmas in the store after the game (past the end of the history: nobody plays) -/
def leagueStep (L : Leaves ℝ) (P : Params ℝ) (le : ρ → ρ → Bool) (neg : ρ → ρ)
    (s : Store ℝ) (gs : List (LeagueGame ℝ ρ)) (k : Nat) : GameStep :=
  match gs[k]? with
  | some g => ⟨resolveTau P g.opts, g.plays, (playLeague L P le neg s (gs.take (k + 1))).sigma⟩
  | none => ⟨0, fun _ => False, (playLeague L P le neg s (gs.take k)).sigma⟩

/-- **The concrete league is an instance of the abstract history of `C06_history`.**  With
`sig k = ` the sigmas after `k` games: if all players start with `0 ≤ σ`, every game of the
history is an admissible step (`GameStep.Adm`) from the state before it and leads to the state
after it. -/
theorem C06_league_steps (L : Leaves ℝ) (P : Params ℝ) (le : ρ → ρ → Bool) (neg : ρ → ρ)
    (s : Store ℝ) (gs : List (LeagueGame ℝ ρ))
    (hL : ∀ g ∈ gs, g.kind = .TMF ∨ g.kind = .TMP → LeafFacts L)
    (hk0 : 0 < P.kappa) (hk1 : P.kappa ≤ 1) (hg : GammaOK P.gamma) (hwf : ∀ g ∈ gs, g.WF)
    (hs : ∀ p, 0 ≤ s.sigma p) :
    ∀ k < gs.length,
      (leagueStep L P le neg s gs k).Adm (playLeague L P le neg s (gs.take k)).sigma
      ∧ (playLeague L P le neg s (gs.take (k + 1))).sigma = (leagueStep L P le neg s gs k).post := by
  intro k hk
  have hget : gs[k]? = some gs[k] := List.getElem?_eq_getElem hk
  have hstep : leagueStep L P le neg s gs k
      = ⟨resolveTau P gs[k].opts, gs[k].plays, (playLeague L P le neg s (gs.take (k + 1))).sigma⟩ := by
    simp only [leagueStep, hget]
  have hnext : playLeague L P le neg s (gs.take (k + 1))
      = playGame L P le neg (playLeague L P le neg s (gs.take k)) gs[k] := by
    rw [List.take_add_one, hget, lg_playLeague_append]
    rfl
  rw [hstep]
  refine ⟨fun p => ?_, rfl⟩
  have hmem : gs[k] ∈ gs := List.getElem_mem hk
  have h0 := C06_league_nonneg L P le neg s gs hL hk0 hk1 hg hwf p (hs p) k
  obtain ⟨hin, hout⟩ := C06_playGame_slot L P le neg (playLeague L P le neg s (gs.take k)) gs[k]
    (hL _ hmem) hk0 hk1 hg (hwf _ hmem) p
  simp only [hnext]
  exact ⟨fun hpl => ⟨(hin hpl).2.2.1 h0, (hin hpl).1⟩, fun hpl => (hout hpl).2⟩

/-- the conclusion of the abstract `C06_history` for the concrete league (all players starting
with `0 ≤ σ`): the same bound as `C06_league`, with the budget written as `tauBudget` -/
theorem C06_league_via_history (L : Leaves ℝ) (P : Params ℝ) (le : ρ → ρ → Bool) (neg : ρ → ρ)
    (s : Store ℝ) (gs : List (LeagueGame ℝ ρ))
    (hL : ∀ g ∈ gs, g.kind = .TMF ∨ g.kind = .TMP → LeafFacts L)
    (hk0 : 0 < P.kappa) (hk1 : P.kappa ≤ 1) (hg : GammaOK P.gamma) (hwf : ∀ g ∈ gs, g.WF)
    (hs : ∀ p, 0 ≤ s.sigma p) :
    ∀ k ≤ gs.length, ∀ p,
      (playLeague L P le neg s (gs.take k)).sigma p ^ 2
        ≤ s.sigma p ^ 2 + tauBudget (leagueStep L P le neg s gs) p k := by
  have h := C06_history (leagueStep L P le neg s gs)
    (fun k => (playLeague L P le neg s (gs.take k)).sigma) gs.length
    (C06_league_steps L P le neg s gs hL hk0 hk1 hg hwf hs)
  intro k hk p
  have := h k hk p
  simpa [lg_playLeague_nil] using this

/-- the abstract budget `tauBudget` of the league's steps is the concrete `leagueBudget` -/
theorem C06_league_budget_eq (L : Leaves ℝ) (P : Params ℝ) (le : ρ → ρ → Bool) (neg : ρ → ρ)
    (s : Store ℝ) (gs : List (LeagueGame ℝ ρ)) (p k : Nat) (hk : k ≤ gs.length) :
    tauBudget (leagueStep L P le neg s gs) p k = leagueBudget P (gs.take k) p := by
  induction k with
  | zero => simp [tauBudget_zero, leagueBudget]
  | succ k ih =>
    have hk' : k < gs.length := hk
    have hget : gs[k]? = some gs[k] := List.getElem?_eq_getElem hk'
    rw [tauBudget_succ, ih (Nat.le_of_succ_le hk), List.take_add_one, hget, leagueBudget_append]
    congr 1
    simp only [leagueStep, hget, stepBudget, gameBudget, Option.toList_some, leagueBudget,
      List.map_cons, List.map_nil, List.sum_cons, List.sum_nil, add_zero]

/-! ### the hypotheses are satisfiable -/

/-- a three-player, two-game history of well-formed games: a 2-vs-1 Plackett–Luce game with ranks,
then a Thurstone–Mosteller free-for-all with scores, its own tau and limit_sigma -/
example :
    ∀ g ∈ ([⟨.PL, [[0, 1], [2]], .ranks [1, 2], ⟨none, none⟩⟩,
            ⟨.TMF, [[2], [0], [1]], .scores [3, 1, 2], ⟨some (1 / 10), some true⟩⟩] :
              List (LeagueGame ℝ Nat)), g.WF := by
  intro g hg
  simp only [List.mem_cons, List.not_mem_nil, or_false] at hg
  rcases hg with rfl | rfl <;> exact ⟨by dsimp only; decide, by dsimp only; decide⟩

/-- `C06_league` instantiated on that history with the library defaults
(`β = 25/6`, `κ = 0.0001`, `τ = 25/300`, default gamma), leaves satisfying `LeafFacts`, every player
starting at `σ = 25/3`: player 0 after both games has `σ² ≤ (25/3)² + (25/300)² + (1/10)²`. -/
example :
    (playLeague ⟨fun x t => |t - x|, fun _ _ => 0, fun x _ => -x, fun _ _ => 0⟩
        ⟨25 / 6, 1 / 10000, 25 / 300, false, .dflt⟩ leNat (fun n => 10 - n)
        ⟨fun _ => 25, fun _ => 25 / 3⟩
        [⟨.PL, [[0, 1], [2]], .ranks [1, 2], ⟨none, none⟩⟩,
         ⟨.TMF, [[2], [0], [1]], .scores [3, 1, 2], ⟨some (1 / 10), some true⟩⟩]).sigma 0 ^ 2
      ≤ (25 / 3 : ℝ) ^ 2 + ((25 / 300) ^ 2 + (1 / 10) ^ 2) := by
  have h := C06_league ⟨fun x t => |t - x|, fun _ _ => 0, fun x _ => -x, fun _ _ => 0⟩
    ⟨25 / 6, 1 / 10000, 25 / 300, false, .dflt⟩ leNat (fun n => 10 - n)
    ⟨fun _ => 25, fun _ => 25 / 3⟩
    [⟨.PL, [[0, 1], [2]], .ranks [1, 2], ⟨none, none⟩⟩,
     ⟨.TMF, [[2], [0], [1]], .scores [3, 1, 2], ⟨some (1 / 10), some true⟩⟩]
    (fun _ _ _ => { v_nonneg := fun x t => abs_nonneg _, v_ge := fun x t => le_abs_self _,
                    w_nonneg := fun _ _ => le_refl _, wt_nonneg := fun _ _ _ => le_refl _,
                    vt_mem := fun x t ht => ⟨by linarith, by linarith⟩, vt_odd := fun x t _ => rfl })
    (by norm_num) (by norm_num) (gammaOK_of_tag _ trivial (by intro x h; cases h))
    (by
      intro g hg
      simp only [List.mem_cons, List.not_mem_nil, or_false] at hg
      rcases hg with rfl | rfl <;> exact ⟨by dsimp only; decide, by dsimp only; decide⟩)
    0 (by norm_num) 2
  have hb : leagueBudget ⟨25 / 6, 1 / 10000, 25 / 300, false, .dflt⟩
      (List.take 2 ([⟨.PL, [[0, 1], [2]], .ranks [1, 2], ⟨none, none⟩⟩,
        ⟨.TMF, [[2], [0], [1]], .scores [3, 1, 2], ⟨some (1 / 10), some true⟩⟩] :
          List (LeagueGame ℝ Nat))) 0 = (25 / 300) ^ 2 + (1 / 10) ^ 2 := by
    simp [leagueBudget, gameBudget, LeagueGame.plays, resolveTau]
  rw [hb] at h
  exact h

end OS
end
