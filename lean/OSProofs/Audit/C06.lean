import OSProofs.Props.C06
#print axioms OS.delta_nonneg
#print axioms OS.gammaVal_nonneg
#print axioms OS.applyTeam_sigma_le
#print axioms OS.applyTeam_sigma_le_mem
#print axioms OS.C06_game_membership
#print axioms OS.C06_game_membership_players
#print axioms OS.rawResult_forall₂
#print axioms OS.rateCore_eq_clamp
#print axioms OS.C06_game
#print axioms OS.C06_game_slot
#print axioms OS.C06_rate
#print axioms OS.C06_limit_zero_stays_zero
#print axioms OS.C06_clamp
#print axioms OS.C06_clamp_forall₂
#print axioms OS.C06_history
#print axioms OS.C06_history_limit
