import OSModel.Loops
import OSProofs.Ladder
/-!
# Helper lemmas: the loop-shaped `_compute` bodies equal the closed forms of `Compute.lean`

Mathlib-free and generic over `[Scalar α]`: no law of arithmetic is used except where a hypothesis
says so explicitly (`hsub` for Plackett–Luce, `hone` for Thurstone–Mosteller full pairing).
Headline theorems are in `OSProofs/Props/Loops.lean`.
-/
namespace OS
open Scalar

/-! ## generic `foldl` facts -/

theorem lp_foldl_ext {β γ : Type} (f g : β → γ → β) (l : List γ) (b : β)
    (h : ∀ a, ∀ x ∈ l, f a x = g a x) : l.foldl f b = l.foldl g b := by
  induction l generalizing b with
  | nil => rfl
  | cons x xs ih =>
    rw [List.foldl_cons, List.foldl_cons, h b x (List.mem_cons_self ..)]
    exact ih _ (fun a y hy => h a y (List.mem_cons_of_mem _ hy))

/-- `result = acc; for x in l: result.append(f(x))` is `acc ++ map f l` -/
theorem lp_foldl_append {β γ : Type} (f : γ → β) (l : List γ) (acc : List β) :
    l.foldl (fun r x => r ++ [f x]) acc = acc ++ l.map f := by
  induction l generalizing acc with
  | nil => simp
  | cons x xs ih => rw [List.foldl_cons, ih, List.map_cons, List.append_assoc]; rfl

/-- `result = []; for x in l: result.append(f(x))` is `map f l` -/
theorem lp_foldl_append_nil {β γ : Type} (f : γ → β) (l : List γ) :
    l.foldl (fun r x => r ++ [f x]) [] = l.map f := by
  rw [lp_foldl_append, List.nil_append]

/-- `for x in l: if p(x): continue; body` — skipping is filtering -/
theorem lp_foldl_skip {β γ : Type} (p : γ → Prop) [DecidablePred p] (f : β → γ → β) (l : List γ)
    (b : β) :
    l.foldl (fun a x => if p x then a else f a x) b = (l.filter (fun x => !decide (p x))).foldl f b := by
  rw [List.foldl_filter]
  apply lp_foldl_ext
  intro a x _
  by_cases hp : p x <;> simp [hp]

/-- `for k, x in enumerate(l): if k == i: continue; body` is the loop over `othersOf` -/
theorem lp_foldl_skip_idx {β γ : Type} (i : Nat) (f : β → γ × Nat → β) (l : List (γ × Nat)) (b : β) :
    l.foldl (fun a x => if x.2 = i then a else f a x) b = (l.filter (fun x => x.2 != i)).foldl f b := by
  rw [List.foldl_filter]
  apply lp_foldl_ext
  intro a x _
  by_cases hp : x.2 = i <;> simp [hp]

/-- `for x in l: if p(x): body` — guarding is filtering -/
theorem lp_foldl_guard {β γ : Type} (p : γ → Prop) [DecidablePred p] (f : β → γ → β) (l : List γ)
    (b : β) :
    l.foldl (fun a x => if p x then f a x else a) b = (l.filter (fun x => decide (p x))).foldl f b := by
  rw [List.foldl_filter]
  apply lp_foldl_ext
  intro a x _
  by_cases hp : p x <;> simp [hp]

section
variable {α : Type} [Scalar α]

/-- one loop with two accumulators = two loops with one accumulator each, same order of additions -/
theorem lp_foldl_pair {γ : Type} (f g : γ → α) (l : List γ) (a b : α) :
    l.foldl (fun od x => (od.1 + f x, od.2 + g x)) (a, b) =
      ((l.map f).foldl (· + ·) a, (l.map g).foldl (· + ·) b) := by
  induction l generalizing a b with
  | nil => rfl
  | cons x xs ih => rw [List.foldl_cons, ih]; rfl

/-- the two-accumulator loop started at `(0.0, 0.0)` is `sumPairs` of the per-opponent terms -/
theorem lp_foldl_sumPairs {γ : Type} (F : γ → α × α) (l : List γ) :
    l.foldl (fun od x => (od.1 + (F x).1, od.2 + (F x).2)) (ofNat 0, ofNat 0) = sumPairs (l.map F) := by
  rw [lp_foldl_pair]
  unfold sumPairs sumL
  rw [List.map_map, List.map_map]
  rfl

end

/-! ## `zip` / `zipIdx` facts -/

theorem lp_zip_zipIdx_map_aux {β γ : Type} (l : List β) (k : Nat) (f : β × Nat → γ) :
    l.zip ((l.zipIdx k).map f) = (l.zipIdx k).map (fun x => (x.1, f x)) := by
  induction l generalizing k with
  | nil => rfl
  | cons a as ih =>
    rw [List.zipIdx_cons, List.map_cons, List.zip_cons_cons, List.map_cons, ih]

/-- `zip(l, [f(x, k) for k, x in enumerate(l)])` -/
theorem lp_zip_zipIdx_map {β γ : Type} (l : List β) (f : β × Nat → γ) :
    l.zip (l.zipIdx.map f) = l.zipIdx.map (fun x => (x.1, f x)) :=
  lp_zip_zipIdx_map_aux l 0 f

/-- `zip(l, [f(k) for k in range(len(l))])` -/
theorem lp_zip_range_map {β γ : Type} (l : List β) (f : Nat → γ) :
    l.zip ((List.range l.length).map f) = l.zipIdx.map (fun x => (x.1, f x.2)) := by
  rw [List.zipIdx_eq_zip_range', List.range_eq_range', List.zip_map_right]
  rfl

theorem lp_map_zipIdx_fst {β γ : Type} (l : List β) (g : β → γ) :
    l.zipIdx.map (fun x => g x.1) = l.map g := by
  have h := congrArg (List.map g) (List.zipIdx_map_fst 0 l)
  rw [List.map_map] at h
  exact h

theorem lp_getD_of_mem_zipIdx {β : Type} (l : List β) (x : β × Nat) (d : β) (h : x ∈ l.zipIdx) :
    l.getD x.2 d = x.1 := by
  rw [List.mem_zipIdx_iff_getElem?] at h
  rw [List.getD_eq_getElem?_getD, h]
  rfl

/-- `zip(team_ratings, _ladder_pairs(team_ratings))` pairs every team with its neighbours -/
theorem lp_zip_ladder {β : Type} (ts : List β) :
    ts.zip (ladderPairsCode ts) = ts.zipIdx.map (fun x => (x.1, neighboursOf ts x.2)) := by
  cases ts with
  | nil => rfl
  | cons a as =>
    rw [ladderPairsCode_eq (a :: as) (List.cons_ne_nil _ _), lp_zip_range_map]

section
variable {α : Type} [Scalar α]

/-! ## the team list and `original_teams` -/

/-- `original_teams[i]` is `team_ratings[i].team` -/
theorem lp_orig_getD (teams : List (List (Rating α))) (dense : List Nat) (x : TeamAgg α × Nat)
    (h : x ∈ (teamAggs teams dense).zipIdx) : teams.getD x.2 [] = x.1.players := by
  rw [List.mem_zipIdx_iff_getElem?] at h
  unfold teamAggs at h
  rw [List.getElem?_map] at h
  cases hz : (teams.zip dense)[x.2]? with
  | none => rw [hz] at h; simp at h
  | some tr =>
    rw [hz] at h
    simp only [Option.map_some, Option.some.injEq] at h
    have h1 := (List.getElem?_zip_eq_some.mp hz).1
    rw [List.getD_eq_getElem?_getD, h1, ← h]
    rfl

/-! ## the player loop -/

/-- the player loop is `applyTeam`, when the modified player is read from the team's own list -/
theorem lp_loopPlayers_eq (kappa : α) (t : TeamAgg α) (src : List (Rating α)) (hsrc : src = t.players)
    (omega delta : α) : loopPlayers kappa t src omega delta = applyTeam kappa t omega delta := by
  subst hsrc
  let G : Rating α → Rating α := fun p =>
    let share := p.sigma * p.sigma / t.sig2
    { p with mu := p.mu + share * omega,
             sigma := p.sigma * sqrt (smax (ofNat 1 - share * delta) kappa) }
  unfold loopPlayers applyTeam
  rw [lp_foldl_ext _ (fun r (jp : Rating α × Nat) => r ++ [G jp.1])]
  · rw [lp_foldl_append_nil (fun jp : Rating α × Nat => G jp.1)]
    exact lp_map_zipIdx_fst t.players G
  · intro r jp hjp
    have := lp_getD_of_mem_zipIdx t.players jp Rating.dflt hjp
    simp only [this]
    rfl

/-! ## the outer loop -/

/-- shape of `compute`: a `map` over the enumerated team list -/
theorem lp_compute_eq (K : Kind) (L : Leaves α) (P : Params α) (teams : List (List (Rating α)))
    (dense : List Nat) (od : TeamAgg α × Nat → α × α)
    (h : omegaDelta K L P (teamAggs teams dense) = (teamAggs teams dense).zipIdx.map od) :
    compute K L P teams dense =
      (teamAggs teams dense).zipIdx.map (fun x => applyTeam P.kappa x.1 (od x).1 (od x).2) := by
  unfold compute
  simp only [h]
  rw [lp_zip_zipIdx_map, List.map_map]
  rfl

/-- shape of the full-pairing loops: `result = []; for i, team_i in enumerate(team_ratings): …append` -/
theorem lp_outer_eq (kappa : α) (teams : List (List (Rating α))) (dense : List Nat)
    (od : TeamAgg α × Nat → α × α) :
    (teamAggs teams dense).zipIdx.foldl
      (fun result it => result ++ [loopPlayers kappa it.1 (teams.getD it.2 []) (od it).1 (od it).2]) [] =
    (teamAggs teams dense).zipIdx.map (fun x => applyTeam kappa x.1 (od x).1 (od x).2) := by
  rw [lp_foldl_append_nil]
  apply List.map_congr_left
  intro x hx
  exact lp_loopPlayers_eq kappa x.1 _ (lp_orig_getD teams dense x hx) _ _

/-! ## Bradley–Terry -/

/-- one iteration of the Bradley–Terry loop body adds the two components of `btPair` -/
theorem lp_bt_step (P : Params α) (n : Nat) (ti tq : TeamAgg α) (od : α × α) :
    (let beta := P.beta
     let omega := od.1
     let delta := od.2
     let c_iq := sqrt (ti.sig2 + tq.sig2 + (ofNat 2 * (beta * beta)))
     let piq := ofNat 1 / (ofNat 1 + exp ((tq.mu - ti.mu) / c_iq))
     let sigma_squared_to_ciq := ti.sig2 / c_iq
     let s : α := ofNat 0
     let s : α :=
       if tq.rank > ti.rank then ofNat 1
       else if tq.rank = ti.rank then ofNat 1 / ofNat 2
       else s
     let omega := omega + sigma_squared_to_ciq * (s - piq)
     let gamma_value := gammaVal P.gamma c_iq n ti.mu ti.sig2 ti.players ti.rank
     let delta := delta + ((gamma_value * sigma_squared_to_ciq) / c_iq) * piq * (ofNat 1 - piq)
     (omega, delta)) =
    (od.1 + (btPair P.beta P.gamma n ti tq).1, od.2 + (btPair P.beta P.gamma n ti tq).2) := rfl

theorem lp_loopBTFInner_eq (P : Params α) (ts : List (TeamAgg α)) (i : Nat) (ti : TeamAgg α) :
    loopBTFInner P ts i ti = sumPairs ((othersOf ts i).map (btPair P.beta P.gamma ts.length ti)) := by
  unfold loopBTFInner othersOf
  rw [List.map_map, ← lp_foldl_sumPairs]
  exact lp_foldl_skip_idx i _ ts.zipIdx _

theorem lp_loopBTPReduce_eq (P : Params α) (n : Nat) (ti : TeamAgg α) (game_q : List (TeamAgg α)) :
    loopBTPReduce P n ti (ofNat 0, ofNat 0) game_q = sumPairs (game_q.map (btPair P.beta P.gamma n ti)) := by
  unfold loopBTPReduce
  rw [← lp_foldl_sumPairs]
  rfl

/-! ## Thurstone–Mosteller -/

/-- one iteration of the Thurstone–Mosteller loop body adds the two components of `tmPair`; the
    factor `cmul` is whatever multiplies the square root (`2` in the partial-pairing text) -/
theorem lp_tm_step (L : Leaves α) (P : Params α) (cmul : α) (n : Nat) (ti tq : TeamAgg α) (od : α × α) :
    (let beta := P.beta
     let omega := od.1
     let delta := od.2
     let c_iq := cmul * sqrt (ti.sig2 + tq.sig2 + (ofNat 2 * (beta * beta)))
     let delta_mu := (ti.mu - tq.mu) / c_iq
     let s2c := ti.sig2 / c_iq
     let gamma_value := gammaVal P.gamma c_iq n ti.mu ti.sig2 ti.players ti.rank
     if tq.rank > ti.rank then
       (omega + s2c * L.v delta_mu (P.kappa / c_iq),
        delta + gamma_value * s2c / c_iq * L.w delta_mu (P.kappa / c_iq))
     else if tq.rank < ti.rank then
       (omega + -s2c * L.v (-delta_mu) (P.kappa / c_iq),
        delta + gamma_value * s2c / c_iq * L.w (-delta_mu) (P.kappa / c_iq))
     else
       (omega + s2c * L.vt delta_mu (P.kappa / c_iq),
        delta + gamma_value * s2c / c_iq * L.wt delta_mu (P.kappa / c_iq))) =
    (od.1 + (tmPair L cmul P.beta P.kappa P.gamma n ti tq).1,
     od.2 + (tmPair L cmul P.beta P.kappa P.gamma n ti tq).2) := by
  unfold tmPair
  by_cases h1 : tq.rank > ti.rank
  · have h1' : ti.rank < tq.rank := h1
    simp only [h1, if_true]
  · have h1' : ¬ ti.rank < tq.rank := h1
    by_cases h2 : tq.rank < ti.rank
    · simp only [h1, h2, if_true, if_false]
    · simp only [h1, h2, if_false]

theorem lp_loopTMPReduce_eq (L : Leaves α) (P : Params α) (n : Nat) (ti : TeamAgg α)
    (game_q : List (TeamAgg α)) :
    loopTMPReduce L P n ti (ofNat 0, ofNat 0) game_q =
      sumPairs (game_q.map (tmPair L (ofNat 2) P.beta P.kappa P.gamma n ti)) := by
  unfold loopTMPReduce
  rw [← lp_foldl_sumPairs]
  apply lp_foldl_ext
  intro od tq _
  exact lp_tm_step L P (ofNat 2) n ti tq od

/-- the full-pairing text has no factor in front of the square root; `tmPair` multiplies by
    `ofNat 1`: equal as soon as `1 * x = x` -/
theorem lp_loopTMFInner_eq (hone : ∀ a : α, ofNat 1 * a = a) (L : Leaves α) (P : Params α)
    (ts : List (TeamAgg α)) (i : Nat) (ti : TeamAgg α) :
    loopTMFInner L P ts i ti =
      sumPairs ((othersOf ts i).map (tmPair L (ofNat 1) P.beta P.kappa P.gamma ts.length ti)) := by
  unfold loopTMFInner othersOf
  rw [List.map_map, ← lp_foldl_sumPairs, ← lp_foldl_skip_idx i _ ts.zipIdx _]
  apply lp_foldl_ext
  intro od tq _
  by_cases hq : tq.2 = i
  · simp only [hq, if_true]
  · simp only [hq, if_false]
    have := lp_tm_step L P (ofNat 1) ts.length ti tq.1 od
    simp only [hone] at this
    exact this

/-! ## Plackett–Luce -/

/-- `enumerate(team_ratings)` against the zipped list `plOmegaDelta` runs over -/
theorem lp_zipIdx_zip3 {β γ δ : Type} (ts : List β) (sq : List γ) (a : List δ) (k : Nat)
    (hsq : sq.length = ts.length) (ha : a.length = ts.length) :
    ts.zipIdx k = ((ts.zip (sq.zip a)).zipIdx k).map (fun x => (x.1.1, x.2)) := by
  induction ts generalizing sq a k with
  | nil => rfl
  | cons t ts ih =>
    cases sq with
    | nil => simp at hsq
    | cons s sq =>
      cases a with
      | nil => simp at ha
      | cons b a =>
        simp only [List.length_cons, Nat.add_right_cancel_iff] at hsq ha
        rw [List.zip_cons_cons, List.zip_cons_cons, List.zipIdx_cons, List.zipIdx_cons, List.map_cons,
          ← ih sq a (k + 1) hsq ha]

/-- the reads `sum_q[q]`, `a[q]` are the zipped components -/
theorem lp_reads_zip3 {β γ δ : Type} (ts : List β) (sq : List γ) (a : List δ) (dγ : γ) (dδ : δ)
    (x : (β × γ × δ) × Nat) (hx : x ∈ (ts.zip (sq.zip a)).zipIdx) :
    sq.getD x.2 dγ = x.1.2.1 ∧ a.getD x.2 dδ = x.1.2.2 := by
  rw [List.mem_zipIdx_iff_getElem?] at hx
  have h1 := (List.getElem?_zip_eq_some.mp hx).2
  have h2 := List.getElem?_zip_eq_some.mp h1
  rw [List.getD_eq_getElem?_getD, List.getD_eq_getElem?_getD, h2.1, h2.2]
  exact ⟨rfl, rfl⟩

/-- the inner loop of Plackett–Luce: the pair of sums of `plOmegaDelta` before the final scalings.
    `hsub` is the only arithmetic law used: the code subtracts (`omega -= x`), the closed form adds
    the negation. -/
theorem lp_loopPLInner_eq (hsub : ∀ a b : α, a - b = a + -b) (ts : List (TeamAgg α)) (c : α)
    (sq : List α) (a : List Nat) (hsq : sq.length = ts.length) (ha : a.length = ts.length)
    (i : Nat) (ti : TeamAgg α) :
    loopPLInner ts c sq a i ti =
      (let ei := exp (ti.mu / c)
       let qs := ((ts.zip (sq.zip a)).zipIdx).filter (fun x => decide (x.1.1.rank ≤ ti.rank))
       (sumL (qs.map (fun x =>
          let p := ei / x.1.2.1
          if x.2 = i then (ofNat 1 - p) / ofNat x.1.2.2 else -(p / ofNat x.1.2.2))),
        sumL (qs.map (fun x =>
          let p := ei / x.1.2.1
          p * (ofNat 1 - p) / ofNat x.1.2.2)))) := by
  unfold loopPLInner sumL
  simp only []
  rw [← lp_foldl_pair, lp_zipIdx_zip3 ts sq a 0 hsq ha, List.foldl_map,
    ← lp_foldl_guard (fun x : (TeamAgg α × α × Nat) × Nat => x.1.1.rank ≤ ti.rank)]
  apply lp_foldl_ext
  intro od x hx
  obtain ⟨r1, r2⟩ := lp_reads_zip3 ts sq a (ofNat 0) 0 x hx
  simp only [r1, r2]
  by_cases hr : x.1.1.rank ≤ ti.rank
  · simp only [hr, if_true]
    by_cases hq : x.2 = i
    · simp only [hq, if_true]
    · simp only [hq, if_false, hsub]
  · simp only [hr, if_false]

/-- the body of the outer Plackett–Luce loop after the inner loop (`omega *= …`, `delta *= …`,
    `delta *= gamma_value`) is `plOmegaDelta` -/
theorem lp_plOmegaDelta_eq (hsub : ∀ a b : α, a - b = a + -b) (g : GammaFn α) (ts : List (TeamAgg α))
    (c : α) (sq : List α) (a : List Nat) (hsq : sq.length = ts.length) (ha : a.length = ts.length)
    (i : Nat) (ti : TeamAgg α) :
    plOmegaDelta g ts c sq a i ti =
      ((loopPLInner ts c sq a i ti).1 * (ti.sig2 / c),
       (loopPLInner ts c sq a i ti).2 * (ti.sig2 / (c * c)) * gammaVal g c ts.length ti.mu ti.sig2 ti.players ti.rank) := by
  rw [lp_loopPLInner_eq hsub ts c sq a hsq ha i ti]
  rfl

end
/-! # The loops of `rate` and of the helper methods -/

/-! ## more generic list facts -/

/-- a read `m[k]` inside `for k, x in enumerate(l)` against `zip(l, m)` -/
theorem lp_zipIdx_getD_map {β γ δ : Type} (F : β → γ → δ) (d : γ) (l : List β) (m : List γ)
    (h : l.length ≤ m.length) :
    l.zipIdx.map (fun x => F x.1 (m.getD x.2 d)) = (l.zip m).map (fun p => F p.1 p.2) := by
  apply List.ext_getElem
  · simp only [List.length_map, List.length_zipIdx, List.length_zip]; omega
  · intro i h1 h2
    simp only [List.length_map, List.length_zipIdx] at h1
    simp only [List.getElem_map, List.getElem_zipIdx, List.getElem_zip, Nat.zero_add]
    rw [List.getD_eq_getElem?_getD, List.getElem?_eq_getElem (by omega)]
    rfl

/-- the same with the hypothesis per pair, for a body that itself depends on the read -/
theorem lp_zipIdx_getD_map_congr {β γ δ : Type} (F G : β → γ → δ) (d : γ) (l : List β) (m : List γ)
    (h : l.length ≤ m.length) (hFG : ∀ p ∈ l.zip m, F p.1 p.2 = G p.1 p.2) :
    l.zipIdx.map (fun x => F x.1 (m.getD x.2 d)) = (l.zip m).map (fun p => G p.1 p.2) := by
  rw [lp_zipIdx_getD_map F d l m h]
  exact List.map_congr_left hFG

theorem lp_modify_append_length {β : Type} (pre : List β) (a : β) (suf : List β) (f : β → β) :
    (pre ++ a :: suf).modify pre.length f = pre ++ f a :: suf := by
  induction pre with
  | nil => rfl
  | cons b pre ih => rw [List.cons_append, List.length_cons, List.modify_succ_cons, ih]; rfl

theorem lp_foldl_modify_self_aux {β : Type} (G : β → β → β) (suf pre : List β) :
    (suf.zipIdx pre.length).foldl (fun r x => r.modify x.2 (G x.1)) (pre ++ suf) =
      pre ++ suf.map (fun x => G x x) := by
  induction suf generalizing pre with
  | nil => rfl
  | cons a suf ih =>
    rw [List.zipIdx_cons, List.foldl_cons, lp_modify_append_length]
    have h := ih (pre ++ [G a a])
    simp only [List.length_append, List.length_singleton, List.append_assoc,
      List.singleton_append] at h
    rw [List.map_cons]
    exact h

/-- `for k, x in enumerate(l): l[k] = G(x, l[k])` (every slot written once, from its own old value) -/
theorem lp_foldl_modify_self {β : Type} (G : β → β → β) (l : List β) :
    l.zipIdx.foldl (fun r x => r.modify x.2 (G x.1)) l = l.map (fun x => G x x) :=
  lp_foldl_modify_self_aux G l []

/-- a loop that only ever writes into row `i` is a write of the looped row into row `i` -/
theorem lp_foldl_modify_row {β γ : Type} (i : Nat) (H : γ → β → β) (l : List γ) (T : List β) :
    l.foldl (fun T x => T.modify i (H x)) T = T.modify i (fun row => l.foldl (fun row x => H x row) row) := by
  induction l generalizing T with
  | nil =>
    simp only [List.foldl_nil]
    exact (List.modify_id i T).symm
  | cons x xs ih =>
    rw [List.foldl_cons, ih, List.modify_modify_eq]
    rfl

section
variable {α : Type} [Scalar α]

/-! ## `_calculate_team_ratings` -/

/-- `reduce(+, xs)` (starts from the first element) against `sumL` (starts from `0.0`): equal exactly
    when adding the first element to `0.0` gives it back -/
theorem lp_reduceAdd_eq_sumL (l : List α) (h : ∀ x, l.head? = some x → ofNat 0 + x = x) :
    reduceAdd l = sumL l := by
  cases l with
  | nil => rfl
  | cons x xs =>
    unfold reduceAdd sumL
    rw [List.foldl_cons, h x rfl]

/-- `_calculate_team_ratings` (loop, `reduce` without initial value, `rank[index]`) is `teamAggs`,
    provided every team's FIRST player satisfies `0.0 + mu = mu` and `0.0 + sigma² = sigma²`, and there
    are at least as many ranks as teams. -/
theorem lp_teamRatingsLoop_eq (game : List (List (Rating α))) (rank : List Nat)
    (hlen : game.length ≤ rank.length)
    (hz : ∀ team ∈ game, ∀ p, team.head? = some p →
      ofNat 0 + p.mu = p.mu ∧ ofNat 0 + p.sigma * p.sigma = p.sigma * p.sigma) :
    teamRatingsLoop game rank = teamAggs game rank := by
  unfold teamRatingsLoop teamAggs
  rw [lp_foldl_append_nil (fun ti : List (Rating α) × Nat =>
    ({ mu := reduceAdd (ti.1.map (fun p => p.mu)),
       sig2 := reduceAdd (ti.1.map (fun p => p.sigma * p.sigma)),
       players := ti.1, rank := rank.getD ti.2 0 } : TeamAgg α))]
  apply lp_zipIdx_getD_map_congr
    (fun (team : List (Rating α)) (r : Nat) =>
      ({ mu := reduceAdd (team.map (fun p => p.mu)),
         sig2 := reduceAdd (team.map (fun p => p.sigma * p.sigma)),
         players := team, rank := r } : TeamAgg α))
    (fun team r => teamAgg team r) 0 game rank hlen
  intro p hp
  have hmem : p.1 ∈ game := (List.of_mem_zip (show (p.1, p.2) ∈ game.zip rank from hp)).1
  unfold teamAgg
  rw [lp_reduceAdd_eq_sumL, lp_reduceAdd_eq_sumL]
  · intro x hx
    cases ht : p.1 with
    | nil => rw [ht] at hx; simp at hx
    | cons q qs =>
      rw [ht] at hx
      simp only [List.map_cons, List.head?_cons, Option.some.injEq] at hx
      rw [← hx]
      exact (hz p.1 hmem q (by rw [ht]; rfl)).2
  · intro x hx
    cases ht : p.1 with
    | nil => rw [ht] at hx; simp at hx
    | cons q qs =>
      rw [ht] at hx
      simp only [List.map_cons, List.head?_cons, Option.some.injEq] at hx
      rw [← hx]
      exact (hz p.1 hmem q (by rw [ht]; rfl)).1

/-! ## `_c` -/

/-- the `_c` loop is `plC`, same additions in the same order -/
theorem lp_plCLoop_eq (beta : α) (ts : List (TeamAgg α)) : plCLoop beta ts = plC beta ts := by
  unfold plCLoop plC sumL
  rw [List.foldl_map]

end

/-! ## `_calculate_rankings` -/

theorem lp_dictSet_fresh {β : Type} (d : List (Nat × β)) (k : Nat) (v : β)
    (h : ∀ p ∈ d, p.1 ≠ k) : dictSet d k v = d ++ [(k, v)] := by
  induction d with
  | nil => rfl
  | cons e d ih =>
    obtain ⟨k', v'⟩ := e
    have hk : k' ≠ k := h (k', v') (List.mem_cons_self ..)
    unfold dictSet
    rw [if_neg hk, ih (fun p hp => h p (List.mem_cons_of_mem _ hp))]
    rfl

/-- invariant of the `rank_output` loop from position `pre.length ≥ 1` on -/
theorem lp_rankOutput_aux {ρ : Type} (lt : ρ → ρ → Bool) (S : List ρ) (suf pre : List ρ) (prev : ρ)
    (hS : S = pre ++ prev :: suf) (s : Nat) (d : List (Nat × Nat))
    (hd : ∀ p ∈ d, p.1 < pre.length + 1) :
    ((suf.zipIdx (pre.length + 1)).foldl
      (fun (st : Nat × List (Nat × Nat)) (vi : ρ × Nat) =>
        let s := st.1
        let rank_output := st.2
        let index := vi.2
        let s :=
          if index > 0 then
            match S[index - 1]?, S[index]? with
            | some a, some b => if lt a b then index else s
            | _, _ => s
          else s
        (s, dictSet rank_output index s))
      (s, d)).2.map (·.2) = d.map (·.2) ++ denseRanksAux lt prev (pre.length + 1) s suf := by
  induction suf generalizing pre prev s d with
  | nil => simp [denseRanksAux]
  | cons x xs ih =>
    rw [List.zipIdx_cons, List.foldl_cons]
    have h1 : S[pre.length + 1 - 1]? = some prev := by
      rw [hS, Nat.add_sub_cancel, List.getElem?_append_right (Nat.le_refl _), Nat.sub_self]
      rfl
    have h2 : S[pre.length + 1]? = some x := by
      have e : pre.length + 1 - pre.length = 1 := by omega
      rw [hS, List.getElem?_append_right (Nat.le_succ _), e]
      rfl
    simp only [h1, h2, Nat.succ_pos, gt_iff_lt, if_true]
    have hfresh : ∀ p ∈ d, p.1 ≠ pre.length + 1 := fun p hp => Nat.ne_of_lt (hd p hp)
    rw [lp_dictSet_fresh d _ _ hfresh]
    have hS' : S = (pre ++ [prev]) ++ x :: xs := by rw [hS, List.append_assoc]; rfl
    have hlen : (pre ++ [prev]).length = pre.length + 1 := by
      rw [List.length_append, List.length_singleton]
    have := ih (pre ++ [prev]) x hS' (if lt prev x = true then pre.length + 1 else s)
      (d ++ [(pre.length + 1, if lt prev x = true then pre.length + 1 else s)])
      (by
        intro p hp
        rw [hlen]
        rcases List.mem_append.mp hp with hp | hp
        · exact Nat.lt_succ_of_lt (hd p hp)
        · rw [List.mem_singleton] at hp; rw [hp]; exact Nat.lt_succ_self _)
    rw [hlen] at this
    rw [this, denseRanksAux, List.map_append, List.append_assoc]
    rfl

/-- **the `rank_output` loop of `_calculate_rankings` is `denseRanks`** (any comparison, any list) -/
theorem lp_rankOutputLoop_eq {ρ : Type} (lt : ρ → ρ → Bool) (S : List ρ) :
    rankOutputLoop lt S = denseRanks lt S := by
  cases S with
  | nil => rfl
  | cons x xs =>
    unfold rankOutputLoop denseRanks
    simp only []
    rw [List.zipIdx_cons, List.foldl_cons]
    have := lp_rankOutput_aux lt (x :: xs) xs [] x rfl 0 [(0, 0)]
      (by intro p hp; rw [List.mem_singleton] at hp; rw [hp]; exact Nat.zero_lt_one)
    exact this

/-- `team_scores = []; for index, _ in enumerate(game): team_scores.append(ranks[index])` -/
theorem lp_teamScores_aux {ρ γ : Type} (game : List γ) (ranks : List ρ) (k : Nat) (acc : List ρ) :
    (game.zipIdx k).foldl (fun ts gi => ts ++ (ranks[gi.2]?).toList) acc =
      acc ++ (ranks.drop k).take game.length := by
  induction game generalizing k acc with
  | nil => simp
  | cons g gs ih =>
    rw [List.zipIdx_cons, List.foldl_cons, ih, List.append_assoc]
    congr 1
    by_cases hk : k < ranks.length
    · rw [List.getElem?_eq_getElem hk, List.drop_eq_getElem_cons hk]
      rfl
    · have hk' : ranks.length ≤ k := Nat.le_of_not_lt hk
      rw [List.getElem?_eq_none hk', List.drop_eq_nil_of_le hk',
        List.drop_eq_nil_of_le (Nat.le_succ_of_le hk')]
      simp

/-- **`_calculate_rankings(game, ranks)` is `denseRanks`** of the first `len(game)` rank values
    (all of them when there is one per team) -/
theorem lp_rankingsLoopRanks_eq {ρ γ : Type} (lt : ρ → ρ → Bool) (game : List γ) (ranks : List ρ)
    (h : ranks.length = game.length) : rankingsLoopRanks lt game ranks = denseRanks lt ranks := by
  unfold rankingsLoopRanks
  simp only []
  rw [lp_teamScores_aux, lp_rankOutputLoop_eq, List.drop_zero, List.nil_append, ← h, List.take_length]

theorem lp_denseRanksAux_range' (p s k : Nat) :
    denseRanksAux (fun a b => decide (a < b)) p (p + 1) s (List.range' (p + 1) k) =
      List.range' (p + 1) k := by
  induction k generalizing p s with
  | zero => rfl
  | succ k ih =>
    rw [List.range'_succ, denseRanksAux]
    simp only [Nat.lt_succ_self, decide_true, if_true]
    rw [ih]

/-- **`_calculate_rankings(game)` (no ranks) is `range(len(game))`** — the shortcut `rateCore` takes -/
theorem lp_rankingsLoopNone_eq {γ : Type} (game : List γ) :
    rankingsLoopNone game = List.range game.length := by
  unfold rankingsLoopNone
  simp only []
  rw [lp_rankOutputLoop_eq]
  have : game.zipIdx.map (fun gi => gi.2) = List.range' 0 game.length := List.zipIdx_map_snd 0 game
  rw [this, List.range_eq_range']
  cases game.length with
  | zero => rfl
  | succ n =>
    rw [List.range'_succ, denseRanks]
    have := lp_denseRanksAux_range' 0 0 n
    simp only [Nat.zero_add] at this
    rw [this]

section
variable {α : Type} [Scalar α]

/-! ## the loops of `rate` -/

/-- **the tau loop (in-place writes, slot by slot) is `inflate`** -/
theorem lp_inflateLoop_eq (tau : α) (teams : List (List (Rating α))) :
    inflateLoop tau teams = inflate tau teams := by
  let W : Rating α → Rating α → Rating α := fun p obj =>
    { obj with sigma := sqrt (p.sigma * p.sigma + tau * tau) }
  let G2 : List (Rating α) → List (Rating α) → List (Rating α) := fun team row =>
    team.zipIdx.foldl (fun row (pp : Rating α × Nat) => row.modify pp.2 (W pp.1)) row
  have hinner : ∀ (T : List (List (Rating α))) (tt : List (Rating α) × Nat),
      tt.1.zipIdx.foldl
        (fun T (pp : Rating α × Nat) => T.modify tt.2 (fun row => row.modify pp.2 (W pp.1))) T =
      T.modify tt.2 (G2 tt.1) := by
    intro T tt
    exact lp_foldl_modify_row tt.2
      (fun (pp : Rating α × Nat) (row : List (Rating α)) => row.modify pp.2 (W pp.1)) tt.1.zipIdx T
  unfold inflateLoop inflate
  refine (lp_foldl_ext _ (fun T (tt : List (Rating α) × Nat) => T.modify tt.2 (G2 tt.1)) _ _
    (fun T tt _ => hinner T tt)).trans ?_
  refine (lp_foldl_modify_self G2 teams).trans ?_
  apply List.map_congr_left
  intro team _
  exact lp_foldl_modify_self W team

/-- the score negation loop is `map` -/
theorem lp_negateLoop_eq {ρ : Type} (neg : ρ → ρ) (scores : List ρ) :
    negateLoop neg scores = scores.map neg := lp_foldl_append_nil neg scores

/-- the copy into `processed_result` is the identity on values -/
theorem lp_copyLoop_eq {β : Type} (result : List (List β)) : copyLoop result = result := by
  unfold copyLoop
  rw [lp_foldl_append_nil (fun item : List β => item.foldl (fun team player => team ++ [player]) [])]
  conv => rhs; rw [← List.map_id result]
  apply List.map_congr_left
  intro item _
  rw [lp_foldl_append_nil (fun p : β => p), List.map_id']
  rfl

/-- **the `limit_sigma` loop is `clampTeams`**, when every result row is read inside the original
    (`original_teams[team_index][player_index]` in range) -/
theorem lp_clampLoop_eq (orig res : List (List (Rating α))) (hlen : res.length ≤ orig.length)
    (hrow : ∀ p ∈ res.zip orig, p.1.length ≤ p.2.length) : clampLoop orig res = clampTeams orig res := by
  let C : Rating α → Rating α → Rating α := fun a b =>
    if a.sigma ≤ b.sigma then a else { a with sigma := b.sigma }
  let R : List (Rating α) → List (Rating α) → List (Rating α) := fun team row =>
    team.zipIdx.foldl (fun final_team (pp : Rating α × Nat) =>
      final_team ++ [C pp.1 (row.getD pp.2 Rating.dflt)]) []
  unfold clampLoop clampTeams
  refine (lp_foldl_append_nil (fun tt : List (Rating α) × Nat => R tt.1 (orig.getD tt.2 []))
    res.zipIdx).trans ?_
  apply lp_zipIdx_getD_map_congr R
    (fun (team row : List (Rating α)) => (team.zip row).map (fun pq => C pq.1 pq.2)) [] res orig hlen
  intro p hp
  refine (lp_foldl_append_nil (fun pp : Rating α × Nat => C pp.1 (p.2.getD pp.2 Rating.dflt))
    p.1.zipIdx).trans ?_
  exact lp_zipIdx_getD_map C Rating.dflt p.1 p.2 (hrow p hp)

end
end OS
