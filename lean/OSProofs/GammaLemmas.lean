import OSModel
/-!
# The gamma callback as an arbitrary function (generic part, any scalar type)

`GammaFn` has six tagged members and `.fn f`, any pure callback
`gamma(c, k, mu, sigma_squared, team, rank)`.  The tagged members never read `team` (nor `mu`);
an arbitrary callback may.  The properties of the library that are true "for every gamma" in the
tagged family need, for an arbitrary callback, exactly the corresponding invariance of the
callback.  These invariances are the named predicates of this file (any scalar type) and of
`GammaRealLemmas.lean` (over ℝ):

* `GammaFn.Tagged g`    — `g` is one of the six tagged members;
* `GammaIdInv g`        — the value does not depend on the `id` fields of the players handed over;
* `GammaPermInv g`      — the value does not depend on the order of the players handed over;
* `GammaAt g c k t`     — the call `_compute` makes for the team aggregate `t`.
-/
namespace OS
open Scalar
variable {α : Type} [Scalar α]

/-- `g` is one of the six tagged members (default, constant, `1/k`, rank dependent, `σ²/c²`, zero) -/
def GammaFn.Tagged : GammaFn α → Prop
  | .fn _ => False
  | _ => True

/-- the call `_compute` makes for team `t`: `gamma(c, k, t.mu, t.sigma_squared, t.team, t.rank)` -/
def GammaAt (g : GammaFn α) (c : α) (k : Nat) (t : TeamAgg α) : α :=
  gammaVal g c k t.mu t.sig2 t.players t.rank

theorem gam_gammaAt (g : GammaFn α) (c : α) (k : Nat) (t : TeamAgg α) :
    gammaVal g c k t.mu t.sig2 t.players t.rank = GammaAt g c k t := rfl

@[simp] theorem gam_gammaVal_fn (f : α → Nat → α → α → List (Rating α) → Nat → α) (c : α) (k : Nat)
    (mu s2 : α) (team : List (Rating α)) (r : Nat) :
    gammaVal (.fn f) c k mu s2 team r = f c k mu s2 team r := rfl

/-- a tagged member reads neither the team mu nor the players -/
theorem gam_tagged_mu_team {g : GammaFn α} (hg : g.Tagged) (c : α) (k : Nat) (mu mu' s2 : α)
    (team team' : List (Rating α)) (r : Nat) :
    gammaVal g c k mu' s2 team' r = gammaVal g c k mu s2 team r := by
  cases g with
  | fn f => exact hg.elim
  | _ => rfl

/-- a tagged member does not read the players -/
theorem gam_tagged_team {g : GammaFn α} (hg : g.Tagged) (c : α) (k : Nat) (mu s2 : α)
    (team team' : List (Rating α)) (r : Nat) :
    gammaVal g c k mu s2 team' r = gammaVal g c k mu s2 team r :=
  gam_tagged_mu_team hg c k mu mu s2 team team' r

/-- the value of the callback does not depend on the `id` fields of the players it is handed -/
def GammaIdInv (g : GammaFn α) : Prop :=
  ∀ (f : Nat → Nat) (c : α) (k : Nat) (mu s2 : α) (team : List (Rating α)) (r : Nat),
    gammaVal g c k mu s2 (team.map (fun p => { p with id := f p.id })) r = gammaVal g c k mu s2 team r

/-- the value of the callback does not depend on the order in which the players are handed over -/
def GammaPermInv (g : GammaFn α) : Prop :=
  ∀ (c : α) (k : Nat) (mu s2 : α) (team team' : List (Rating α)) (r : Nat),
    team.Perm team' → gammaVal g c k mu s2 team r = gammaVal g c k mu s2 team' r

theorem gam_tagged_idInv {g : GammaFn α} (hg : g.Tagged) : GammaIdInv g :=
  fun _ c k mu s2 team r => gam_tagged_team hg c k mu s2 team _ r

theorem gam_tagged_permInv {g : GammaFn α} (hg : g.Tagged) : GammaPermInv g :=
  fun c k mu s2 team team' r _ => gam_tagged_team hg c k mu s2 team' team r

/-- a callback that reads the players only through their `(mu, sigma)` is id-invariant -/
theorem gam_fn_idInv_of_values (f : α → Nat → α → α → List (α × α) → Nat → α) :
    GammaIdInv (.fn (fun c k mu s2 team r => f c k mu s2 (team.map (fun p => (p.mu, p.sigma))) r)
      : GammaFn α) := by
  intro h c k mu s2 team r
  simp only [gam_gammaVal_fn, List.map_map, Function.comp_def]

/-- the team-reading callback "T" reads the players only through their sigmas -/
theorem gam_teamSigma_idInv : GammaIdInv (gammaTeamSigma : GammaFn α) := by
  intro h c k mu s2 team r
  simp only [gammaTeamSigma, gam_gammaVal_fn, List.map_map, Function.comp_def]

omit [Scalar α] in
/-- the tagged members, spelled out -/
theorem gam_tagged_dflt : (GammaFn.dflt : GammaFn α).Tagged := trivial
omit [Scalar α] in
theorem gam_tagged_const (x : α) : (GammaFn.const x : GammaFn α).Tagged := trivial
omit [Scalar α] in
theorem gam_tagged_invK : (GammaFn.invK : GammaFn α).Tagged := trivial
omit [Scalar α] in
theorem gam_tagged_rankDep : (GammaFn.rankDep : GammaFn α).Tagged := trivial
omit [Scalar α] in
theorem gam_tagged_sq : (GammaFn.sq : GammaFn α).Tagged := trivial
omit [Scalar α] in
theorem gam_tagged_zero : (GammaFn.zero : GammaFn α).Tagged := trivial
omit [Scalar α] in
theorem gam_not_tagged_fn (f : α → Nat → α → α → List (Rating α) → Nat → α) :
    ¬ (GammaFn.fn f : GammaFn α).Tagged := id

/-! ### `omegaDelta` / `_compute` read the callback only through the calls for the teams of the game -/

theorem gam_btPair_congr (beta : α) (g g' : GammaFn α) (n : Nat) (ti tq : TeamAgg α)
    (h : ∀ c, GammaAt g c n ti = GammaAt g' c n ti) :
    btPair beta g n ti tq = btPair beta g' n ti tq := by
  have h' : ∀ c, gammaVal g c n ti.mu ti.sig2 ti.players ti.rank
      = gammaVal g' c n ti.mu ti.sig2 ti.players ti.rank := h
  simp only [btPair, h']

theorem gam_tmPair_congr (L : Leaves α) (cmul beta kappa : α) (g g' : GammaFn α) (n : Nat)
    (ti tq : TeamAgg α) (h : ∀ c, GammaAt g c n ti = GammaAt g' c n ti) :
    tmPair L cmul beta kappa g n ti tq = tmPair L cmul beta kappa g' n ti tq := by
  have h' : ∀ c, gammaVal g c n ti.mu ti.sig2 ti.players ti.rank
      = gammaVal g' c n ti.mu ti.sig2 ti.players ti.rank := h
  simp only [tmPair, h']

theorem gam_plOmegaDelta_congr (g g' : GammaFn α) (ts : List (TeamAgg α)) (c : α) (sq : List α)
    (a : List Nat) (i : Nat) (ti : TeamAgg α) (h : ∀ c, GammaAt g c ts.length ti = GammaAt g' c ts.length ti) :
    plOmegaDelta g ts c sq a i ti = plOmegaDelta g' ts c sq a i ti := by
  have h' : ∀ c, gammaVal g c ts.length ti.mu ti.sig2 ti.players ti.rank
      = gammaVal g' c ts.length ti.mu ti.sig2 ti.players ti.rank := h
  simp only [plOmegaDelta, h']

omit [Scalar α] in
theorem gam_fst_mem_of_mem_zipIdx {β : Type} {l : List β} {x : β × Nat} (h : x ∈ l.zipIdx) : x.1 ∈ l := by
  obtain ⟨a, i⟩ := x
  exact (List.mem_zipIdx' h).2 ▸ List.getElem_mem _

/-- two parameter sets with the same `beta`, `kappa` whose gamma callbacks return the same value on
every call made for a team of `ts` give the same `(Ω, Δ)` -/
theorem gam_omegaDelta_congr_gamma (K : Kind) (L : Leaves α) (P P' : Params α)
    (hb : P.beta = P'.beta) (hk : P.kappa = P'.kappa) (ts : List (TeamAgg α))
    (h : ∀ t ∈ ts, ∀ c, GammaAt P.gamma c ts.length t = GammaAt P'.gamma c ts.length t) :
    omegaDelta K L P ts = omegaDelta K L P' ts := by
  cases K <;> simp only [omegaDelta, hb, hk] <;> refine List.map_congr_left (fun x hx => ?_)
  · exact gam_plOmegaDelta_congr _ _ _ _ _ _ _ _ (h _ (gam_fst_mem_of_mem_zipIdx hx))
  · have e : btPair P'.beta P.gamma ts.length x.1 = btPair P'.beta P'.gamma ts.length x.1 :=
      funext (fun tq => gam_btPair_congr P'.beta _ _ _ x.1 tq (h _ (gam_fst_mem_of_mem_zipIdx hx)))
    rw [e]
  · have e : btPair P'.beta P.gamma ts.length x.1 = btPair P'.beta P'.gamma ts.length x.1 :=
      funext (fun tq => gam_btPair_congr P'.beta _ _ _ x.1 tq (h _ (gam_fst_mem_of_mem_zipIdx hx)))
    rw [e]
  · have e : tmPair L (ofNat 1) P'.beta P'.kappa P.gamma ts.length x.1
        = tmPair L (ofNat 1) P'.beta P'.kappa P'.gamma ts.length x.1 :=
      funext (fun tq => gam_tmPair_congr L _ P'.beta P'.kappa _ _ _ x.1 tq
        (h _ (gam_fst_mem_of_mem_zipIdx hx)))
    rw [e]
  · have e : tmPair L (ofNat 2) P'.beta P'.kappa P.gamma ts.length x.1
        = tmPair L (ofNat 2) P'.beta P'.kappa P'.gamma ts.length x.1 :=
      funext (fun tq => gam_tmPair_congr L _ P'.beta P'.kappa _ _ _ x.1 tq
        (h _ (gam_fst_mem_of_mem_zipIdx hx)))
    rw [e]

/-- on a team aggregate built by `teamAgg` the team-reading callback *is* the default callback:
`sigma_squared` is the very sum the callback recomputes -/
theorem gam_teamSigma_eq_dflt_teamAgg (c : α) (k : Nat) (team : List (Rating α)) (rank : Nat) :
    GammaAt gammaTeamSigma c k (teamAgg team rank) = GammaAt .dflt c k (teamAgg team rank) := rfl

theorem gam_mem_teamAggs {teams : List (List (Rating α))} {ranks : List Nat} {t : TeamAgg α}
    (h : t ∈ teamAggs teams ranks) : ∃ S r, t = teamAgg S r := by
  simp only [teamAggs] at h
  obtain ⟨⟨S, r⟩, _, rfl⟩ := List.mem_map.1 h
  exact ⟨S, r, rfl⟩

/-- **`_compute` with the team-reading callback `sqrt(Σ_team σ²)/c` returns exactly what it returns
with the default callback** — any scalar type, so bit for bit at `Float` -/
theorem gam_compute_teamSigma (K : Kind) (L : Leaves α) (P : Params α)
    (teams : List (List (Rating α))) (dense : List Nat) :
    compute K L { P with gamma := gammaTeamSigma } teams dense
      = compute K L { P with gamma := .dflt } teams dense := by
  have h := gam_omegaDelta_congr_gamma K L { P with gamma := gammaTeamSigma } { P with gamma := .dflt }
    rfl rfl (teamAggs teams dense) (fun t ht c => by
      obtain ⟨S, r, rfl⟩ := gam_mem_teamAggs ht
      rfl)
  simp only [compute, h]

/-- the same for `rate` (any outcome form, any options) -/
theorem gam_rate_teamSigma {ρ : Type} (K : Kind) (L : Leaves α) (P : Params α) (le : ρ → ρ → Bool)
    (neg : ρ → ρ) (teams : List (List (Rating α))) (oc : Outcome ρ) (o : CallOpts α) :
    rate K L { P with gamma := gammaTeamSigma } le neg teams oc o
      = rate K L { P with gamma := .dflt } le neg teams oc o := by
  have hc := gam_compute_teamSigma K L P
  cases oc <;> simp only [rate, rateCore, hc] <;> rfl

end OS
