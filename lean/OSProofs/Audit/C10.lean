import OSProofs.Props.C10
import OSProofs.Props.C10Teams
import OSProofs.Props.FL2
import OSProofs.MonoArithInst
import OSProofs.Props.PredictLoops
#print axioms OS.C10_term_eq_band
#print axioms OS.C10_terms_eq_pairBand
#print axioms OS.C10_pairBand_eq
#print axioms OS.C10_pairBand_mem
#print axioms OS.C10_pairBand_even
#print axioms OS.C10_pairBand_antitone
#print axioms OS.C10_pairBand_max_at_zero
#print axioms OS.C10_avg_bound
#print axioms OS.C10_many_teams_mem
#print axioms OS.C10_equalise
#print axioms OS.C10_equalise_sum
#print axioms OS.C10_two_team_nonneg
#print axioms OS.C10_two_team_le_one
#print axioms OS.C10_two_team_antitone_gap
#print axioms OS.C10_two_team_sharp
#print axioms OS.predictDraw_two_eq
#print axioms OS.C10_predictDraw_two_teams
#print axioms OS.C10_predictDraw_two_teams_antitone
#print axioms OS.draw_size_ineq
#print axioms OS.band_neg_of_gt
#print axioms OS.predictDraw_eq_unordered
#print axioms OS.C10_drawMargin_nonneg
#print axioms OS.C10_predictDraw_many_teams
#print axioms OS.C10_predictDraw_mem
#print axioms OS.C10_predictDraw_equalise
#print axioms OS.MonoArith.real
#print axioms OS.MonoArith.rn
#print axioms OS.truncRounding
#print axioms OS.truncRounding_lossy
#print axioms OS.truncRounding_ne_id
#print axioms OS.FL_C10_nonneg
#print axioms OS.FL_C10_le_one_many
#print axioms OS.FL_C10_range_many
#print axioms OS.FL_C10_le_one_many'
#print axioms OS.FL_C10_range_many'
#print axioms OS.predictDrawLoop_eq
#print axioms OS.predictDrawLoop_eq_real
