import OSProofs.Props.C05
#print axioms OS.C05_same_direction
