import OSModel.Leaf
import OSModel.Team
/-
  `_c`, `_sum_q`, `_a`, `_compute` of the five models.  Loops are left folds (`sumL ∘ map`)
  in the code's iteration order.
-/
namespace OS
open Scalar
variable {α : Type} [Scalar α]

/-! ### Plackett–Luce -/

/-- `_c` -/
def plC (beta : α) (ts : List (TeamAgg α)) : α :=
  sqrt (sumL (ts.map (fun t => t.sig2 + beta * beta)))

/-- `_sum_q`: `sum_q[q] = Σ_{i : rank_i ≥ rank_q} exp(mu_i / c)`, accumulated in the order of `i`.
(The code builds a dict keyed by `q`; because dense ranks are non-decreasing the keys are
inserted in ascending `q`, so `list(sum_q.values())[q]` is the entry of `q`.) -/
def plSumQ (ts : List (TeamAgg α)) (c : α) : List α :=
  ts.map (fun tq =>
    sumL ((ts.filter (fun ti => decide (tq.rank ≤ ti.rank))).map (fun ti => exp (ti.mu / c))))

/-- `_a` -/
def plA (ts : List (TeamAgg α)) : List Nat :=
  ts.map (fun i => (ts.filter (fun q => decide (i.rank = q.rank))).length)

def plOmegaDelta (g : GammaFn α) (ts : List (TeamAgg α)) (c : α)
    (sq : List α) (a : List Nat) (i : Nat) (ti : TeamAgg α) : α × α :=
  let ei := exp (ti.mu / c)
  let qs := ((ts.zip (sq.zip a)).zipIdx).filter (fun x => decide (x.1.1.rank ≤ ti.rank))
  let om := sumL (qs.map (fun x =>
    let p := ei / x.1.2.1
    if x.2 = i then (ofNat 1 - p) / ofNat x.1.2.2 else -(p / ofNat x.1.2.2)))
  let de := sumL (qs.map (fun x =>
    let p := ei / x.1.2.1
    p * (ofNat 1 - p) / ofNat x.1.2.2))
  let omega := om * (ti.sig2 / c)
  let delta := de * (ti.sig2 / (c * c))
  (omega, delta * gammaVal g c ts.length ti.mu ti.sig2 ti.players ti.rank)

/-! ### Bradley–Terry pair term -/

def btPair (beta : α) (g : GammaFn α) (n : Nat) (ti tq : TeamAgg α) : α × α :=
  let ciq := sqrt (ti.sig2 + tq.sig2 + ofNat 2 * (beta * beta))
  let piq := ofNat 1 / (ofNat 1 + exp ((tq.mu - ti.mu) / ciq))
  let s2c := ti.sig2 / ciq
  let s : α := if ti.rank < tq.rank then ofNat 1
               else if tq.rank = ti.rank then ofNat 1 / ofNat 2 else ofNat 0
  let gam := gammaVal g ciq n ti.mu ti.sig2 ti.players ti.rank
  (s2c * (s - piq), ((gam * s2c) / ciq) * piq * (ofNat 1 - piq))

/-! ### Thurstone–Mosteller pair term (`cmul` = 1 full pairing, 2 partial pairing) -/

def tmPair (L : Leaves α) (cmul : α) (beta kappa : α) (g : GammaFn α) (n : Nat)
    (ti tq : TeamAgg α) : α × α :=
  let ciq := cmul * sqrt (ti.sig2 + tq.sig2 + ofNat 2 * (beta * beta))
  let dmu := (ti.mu - tq.mu) / ciq
  let s2c := ti.sig2 / ciq
  let gam := gammaVal g ciq n ti.mu ti.sig2 ti.players ti.rank
  let t := kappa / ciq
  if ti.rank < tq.rank then (s2c * L.v dmu t, gam * s2c / ciq * L.w dmu t)
  else if tq.rank < ti.rank then ((-s2c) * L.v (-dmu) t, gam * s2c / ciq * L.w (-dmu) t)
  else (s2c * L.vt dmu t, gam * s2c / ciq * L.wt dmu t)

/-! ### opponents -/

/-- full pairing: every other team, by index, in list order -/
def othersOf {β : Type} (ts : List β) (i : Nat) : List β :=
  (ts.zipIdx.filter (fun x => x.2 != i)).map (·.1)

/-- partial pairing: `_ladder_pairs`: left neighbour then right neighbour -/
def neighboursOf {β : Type} (ts : List β) (i : Nat) : List β :=
  (if i = 0 then [] else (ts[i - 1]?).toList) ++ (ts[i + 1]?).toList

def sumPairs (prs : List (α × α)) : α × α :=
  (sumL (prs.map (·.1)), sumL (prs.map (·.2)))

/-- `(omega_i, delta_i)` for every team -/
def omegaDelta (K : Kind) (L : Leaves α) (P : Params α) (ts : List (TeamAgg α)) : List (α × α) :=
  let n := ts.length
  match K with
  | .PL =>
    let c := plC P.beta ts
    let sq := plSumQ ts c
    let a := plA ts
    ts.zipIdx.map (fun x => plOmegaDelta P.gamma ts c sq a x.2 x.1)
  | .BTF => ts.zipIdx.map (fun x => sumPairs ((othersOf ts x.2).map (btPair P.beta P.gamma n x.1)))
  | .BTP => ts.zipIdx.map (fun x => sumPairs ((neighboursOf ts x.2).map (btPair P.beta P.gamma n x.1)))
  | .TMF => ts.zipIdx.map (fun x =>
      sumPairs ((othersOf ts x.2).map (tmPair L (ofNat 1) P.beta P.kappa P.gamma n x.1)))
  | .TMP => ts.zipIdx.map (fun x =>
      sumPairs ((neighboursOf ts x.2).map (tmPair L (ofNat 2) P.beta P.kappa P.gamma n x.1)))

/-- `_compute(teams, ranks)` with the dense ranks already computed -/
def compute (K : Kind) (L : Leaves α) (P : Params α)
    (teams : List (List (Rating α))) (dense : List Nat) : List (List (Rating α)) :=
  let ts := teamAggs teams dense
  (ts.zip (omegaDelta K L P ts)).map (fun x => applyTeam P.kappa x.1 x.2.1 x.2.2)

end OS
