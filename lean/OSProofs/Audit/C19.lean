import OSProofs.Props.C19
import OSProofs.Props.C19b
import OSProofs.GenTie
import OSProofs.GenValTie
#print axioms OS.omegaDelta_btp_eq_btf
#print axioms OS.compute_btp_eq_btf
#print axioms OS.C19_btp_eq_btf_two
#print axioms OS.C19_validateRate_kind_free
#print axioms OS.C19_validatePredict_kind_free
#print axioms OS.swapKind_isRatingOf
#print axioms OS.Gen.ordinal_PL_eq
#print axioms OS.Gen.lt_PL_eq
#print axioms OS.Gen.eq_PL_eq
#print axioms OS.Gen.gamma_PL_eq
#print axioms OS.Gen.ordinal_BTF_eq
#print axioms OS.Gen.lt_BTF_eq
#print axioms OS.Gen.eq_BTF_eq
#print axioms OS.Gen.gamma_BTF_eq
#print axioms OS.Gen.ordinal_BTP_eq
#print axioms OS.Gen.lt_BTP_eq
#print axioms OS.Gen.eq_BTP_eq
#print axioms OS.Gen.gamma_BTP_eq
#print axioms OS.Gen.ordinal_TMF_eq
#print axioms OS.Gen.lt_TMF_eq
#print axioms OS.Gen.eq_TMF_eq
#print axioms OS.Gen.gamma_TMF_eq
#print axioms OS.Gen.ordinal_TMP_eq
#print axioms OS.Gen.lt_TMP_eq
#print axioms OS.Gen.eq_TMP_eq
#print axioms OS.Gen.gamma_TMP_eq
#print axioms OS.VLangTie.exec_checkTeams
#print axioms OS.VLangTie.exec_rateHead
#print axioms OS.Gen.checkTeams_PL_eq
#print axioms OS.Gen.rateHead_PL_eq
#print axioms OS.Gen.checkTeams_BTF_eq
#print axioms OS.Gen.rateHead_BTF_eq
#print axioms OS.Gen.checkTeams_BTP_eq
#print axioms OS.Gen.rateHead_BTP_eq
#print axioms OS.Gen.checkTeams_TMF_eq
#print axioms OS.Gen.rateHead_TMF_eq
#print axioms OS.Gen.checkTeams_TMP_eq
#print axioms OS.Gen.rateHead_TMP_eq
