import OSModel.League
import OSProofs.Props.C02
import OSProofs.Props.C20b
/-!
# Helper lemmas for the concrete league (`OSModel/League.lean`)

Generic over the scalar type and Mathlib-free: what `storeBack` / `storeBackPos` read and write,
well-formed games, and the facts about `playGame` that need only "`rate` keeps every id in its
slot" (C02) and "`rate` reads a rating only through its numbers" (C20).
-/
namespace OS
open Scalar
variable {α ρ : Type}

/-! ### well-formed games -/

/-- A game is well-formed when no player number occurs twice in it (neither within a team nor
    in two teams) and the outcome has one entry per team (or is omitted). -/
def LeagueGame.WF (g : LeagueGame α ρ) : Prop :=
  g.teams.flatten.Nodup ∧ g.outcome.fits g.teams.length

/-- player `p` takes part in game `g` -/
def LeagueGame.plays (g : LeagueGame α ρ) (p : Nat) : Prop := p ∈ g.teams.flatten

instance (g : LeagueGame α ρ) (p : Nat) : Decidable (g.plays p) :=
  inferInstanceAs (Decidable (p ∈ g.teams.flatten))

instance (oc : Outcome ρ) (n : Nat) : Decidable (oc.fits n) :=
  match oc with
  | .omitted => isTrue trivial
  | .ranks r => inferInstanceAs (Decidable (r.length = n))
  | .scores s => inferInstanceAs (Decidable (s.length = n))

instance (g : LeagueGame α ρ) : Decidable g.WF :=
  inferInstanceAs (Decidable (_ ∧ _))

/-! ### the store -/

@[simp] theorem lg_put_mu (s : Store α) (p : Nat) (m sg : α) (q : Nat) :
    (s.put p m sg).mu q = if q = p then m else s.mu q := rfl

@[simp] theorem lg_put_sigma (s : Store α) (p : Nat) (m sg : α) (q : Nat) :
    (s.put p m sg).sigma q = if q = p then sg else s.sigma q := rfl

@[simp] theorem lg_load_id (s : Store α) (p : Nat) : (s.load p).id = p := rfl
@[simp] theorem lg_load_mu (s : Store α) (p : Nat) : (s.load p).mu = s.mu p := rfl
@[simp] theorem lg_load_sigma (s : Store α) (p : Nat) : (s.load p).sigma = s.sigma p := rfl

theorem lg_store_ext {s t : Store α} (hm : ∀ p, s.mu p = t.mu p) (hs : ∀ p, s.sigma p = t.sigma p) :
    s = t := by
  obtain ⟨sm, ss⟩ := s
  obtain ⟨tm, ts⟩ := t
  simp only at hm hs
  rw [funext hm, funext hs]

/-- a fold of writes leaves every id it does not mention alone -/
theorem lg_foldl_write_not_mem (l : List (Rating α)) (s : Store α) (p : Nat)
    (h : p ∉ l.map (·.id)) :
    (l.foldl Store.write s).mu p = s.mu p ∧ (l.foldl Store.write s).sigma p = s.sigma p := by
  induction l generalizing s with
  | nil => exact ⟨rfl, rfl⟩
  | cons r l ih =>
    simp only [List.map_cons, List.mem_cons, not_or] at h
    obtain ⟨h1, h2⟩ := ih (s.write r) h.2
    simp only [List.foldl_cons]
    rw [h1, h2]
    simp [Store.write, h.1]

/-- a fold of writes with pairwise distinct ids stores every rating of the list at its id -/
theorem lg_foldl_write_mem (l : List (Rating α)) (s : Store α) (hn : (l.map (·.id)).Nodup)
    (r : Rating α) (hr : r ∈ l) :
    (l.foldl Store.write s).mu r.id = r.mu ∧ (l.foldl Store.write s).sigma r.id = r.sigma := by
  induction l generalizing s with
  | nil => cases hr
  | cons x l ih =>
    simp only [List.map_cons, List.nodup_cons] at hn
    simp only [List.foldl_cons]
    rcases List.mem_cons.1 hr with rfl | hr'
    · obtain ⟨h1, h2⟩ := lg_foldl_write_not_mem l (s.write r) r.id hn.1
      rw [h1, h2]
      simp [Store.write]
    · exact ih (s.write x) hn.2 hr'

omit ρ in
theorem lg_idsOf_flatten (res : List (List (Rating α))) :
    (idsOf res).flatten = res.flatten.map (·.id) := by
  simp only [idsOf, List.map_flatten]

/-- **`storeBack` only writes ids that occur** in the result -/
theorem storeBack_not_mem (s : Store α) (res : List (List (Rating α))) (p : Nat)
    (h : p ∉ (idsOf res).flatten) :
    (storeBack s res).mu p = s.mu p ∧ (storeBack s res).sigma p = s.sigma p :=
  lg_foldl_write_not_mem _ s p (lg_idsOf_flatten res ▸ h)

/-- **`storeBack` stores every returned rating at its id** when the ids of the result are
    pairwise distinct -/
theorem storeBack_mem (s : Store α) (res : List (List (Rating α)))
    (hn : (idsOf res).flatten.Nodup) (r : Rating α) (hr : r ∈ res.flatten) :
    (storeBack s res).mu r.id = r.mu ∧ (storeBack s res).sigma r.id = r.sigma :=
  lg_foldl_write_mem _ s (lg_idsOf_flatten res ▸ hn) r hr

/-- writing back by position with the ids and values of `res` is writing back `res` by id -/
theorem storeBackPos_eq_storeBack (s : Store α) (res : List (List (Rating α))) :
    storeBackPos s (idsOf res) (valuesOf res) = storeBack s res := by
  have h : List.zipWith List.zip (idsOf res) (valuesOf res)
      = res.map (·.map (fun r => (r.id, r.mu, r.sigma))) := by
    simp only [idsOf, valuesOf, List.zipWith_map, List.zipWith_self, List.zip_map']
  simp only [storeBackPos, storeBack, h, ← List.map_flatten, List.foldl_map]
  rfl

/-! ### one game -/

variable [Scalar α]

omit [Scalar α] in
theorem lg_idsOf_loadTeams (s : Store α) (g : LeagueGame α ρ) : idsOf (loadTeams s g) = g.teams := by
  simp [idsOf, loadTeams, List.map_map, Function.comp_def]

omit [Scalar α] in
theorem lg_loadTeams_length (s : Store α) (g : LeagueGame α ρ) :
    (loadTeams s g).length = g.teams.length := by
  simp [loadTeams]

omit [Scalar α] in
theorem lg_loadTeams_flatten (s : Store α) (g : LeagueGame α ρ) :
    (loadTeams s g).flatten = g.teams.flatten.map s.load := by
  simp only [loadTeams, List.map_flatten]

/-- the ids of what `rate` returns for the loaded teams are the player numbers of the game, slot
    by slot (C02) -/
theorem lg_idsOf_rate_load (L : Leaves α) (P : Params α) (le : ρ → ρ → Bool) (neg : ρ → ρ)
    (s : Store α) (g : LeagueGame α ρ) (hf : g.outcome.fits g.teams.length) :
    idsOf (rate g.kind L P le neg (loadTeams s g) g.outcome g.opts) = g.teams := by
  rw [C02_ids_rate _ _ _ _ _ _ _ _ (by rw [lg_loadTeams_length]; exact hf), lg_idsOf_loadTeams]

/-- **A player who does not take part in a game keeps his (mu, sigma).** -/
theorem playGame_untouched (L : Leaves α) (P : Params α) (le : ρ → ρ → Bool) (neg : ρ → ρ)
    (s : Store α) (g : LeagueGame α ρ) (hf : g.outcome.fits g.teams.length) (p : Nat)
    (hp : ¬ g.plays p) :
    (playGame L P le neg s g).mu p = s.mu p ∧ (playGame L P le neg s g).sigma p = s.sigma p := by
  apply storeBack_not_mem
  rw [lg_idsOf_rate_load L P le neg s g hf]
  exact hp

/-- **What a participant finds in the store after a well-formed game** is the rating `rate`
    returned in (any of) his slot(s): every rating `r` of the result sits at `r.id`. -/
theorem playGame_stored (L : Leaves α) (P : Params α) (le : ρ → ρ → Bool) (neg : ρ → ρ)
    (s : Store α) (g : LeagueGame α ρ) (hwf : g.WF) (r : Rating α)
    (hr : r ∈ (rate g.kind L P le neg (loadTeams s g) g.outcome g.opts).flatten) :
    (playGame L P le neg s g).mu r.id = r.mu ∧ (playGame L P le neg s g).sigma r.id = r.sigma := by
  apply storeBack_mem _ _ _ r hr
  rw [lg_idsOf_rate_load L P le neg s g hwf.2]
  exact hwf.1

/-- writing back by position = writing back by id, when the game is rated on the loaded objects -/
theorem playGamePos_load (L : Leaves α) (P : Params α) (le : ρ → ρ → Bool) (neg : ρ → ρ)
    (s : Store α) (g : LeagueGame α ρ) (hf : g.outcome.fits g.teams.length) :
    playGamePos L P le neg s g (loadTeams s g) = playGame L P le neg s g := by
  have h := storeBackPos_eq_storeBack s (rate g.kind L P le neg (loadTeams s g) g.outcome g.opts)
  rw [lg_idsOf_rate_load L P le neg s g hf] at h
  exact h

/-- `playGamePos` depends on the objects handed to `rate` only through their numbers -/
theorem playGamePos_congr (L : Leaves α) (P : Params α) (hg : GammaIdInv P.gamma)
    (le : ρ → ρ → Bool) (neg : ρ → ρ)
    (s : Store α) (g : LeagueGame α ρ) (ts ts' : List (List (Rating α)))
    (h : valuesOf ts = valuesOf ts') :
    playGamePos L P le neg s g ts = playGamePos L P le neg s g ts' := by
  have := C20_rate_values_of_eq g.kind L P hg le neg ts ts' g.outcome g.opts h
  simp only [valuesOf] at this
  simp only [playGamePos, this]

/-! ### a history -/

/-- a fold over the numbered games equals the plain fold when the steps agree on every game
    (game number `k + i` being the `i`-th of the list) -/
theorem lg_foldl_zipIdx {σ γ : Type} (F : Nat → σ → γ → σ) (G : σ → γ → σ) (gs : List γ) (k : Nat)
    (h : ∀ i (hi : i < gs.length), ∀ s, F (k + i) s gs[i] = G s gs[i]) (s : σ) :
    (gs.zipIdx k).foldl (fun s gk => F gk.2 s gk.1) s = gs.foldl G s := by
  induction gs generalizing k s with
  | nil => rfl
  | cons g gs ih =>
    simp only [List.zipIdx_cons, List.foldl_cons]
    have h0 := h 0 (by simp) s
    simp only [Nat.add_zero, List.getElem_cons_zero] at h0
    rw [h0]
    apply ih
    intro i hi s'
    have := h (i + 1) (by simpa using hi) s'
    simp only [List.getElem_cons_succ] at this
    rw [← this]
    congr 1
    omega

theorem lg_playLeague_nil (L : Leaves α) (P : Params α) (le : ρ → ρ → Bool) (neg : ρ → ρ)
    (s : Store α) : playLeague L P le neg s ([] : List (LeagueGame α ρ)) = s := rfl

theorem lg_playLeague_cons (L : Leaves α) (P : Params α) (le : ρ → ρ → Bool) (neg : ρ → ρ)
    (s : Store α) (g : LeagueGame α ρ) (gs : List (LeagueGame α ρ)) :
    playLeague L P le neg s (g :: gs) = playLeague L P le neg (playGame L P le neg s g) gs := rfl

theorem lg_playLeague_append (L : Leaves α) (P : Params α) (le : ρ → ρ → Bool) (neg : ρ → ρ)
    (s : Store α) (gs hs : List (LeagueGame α ρ)) :
    playLeague L P le neg s (gs ++ hs) = playLeague L P le neg (playLeague L P le neg s gs) hs := by
  simp only [playLeague, List.foldl_append]

end OS
