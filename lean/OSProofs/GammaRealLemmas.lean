import OSProofs.RealInst
import OSProofs.GammaLemmas
import Mathlib.Tactic.Ring
import Mathlib.Tactic.Positivity
import Mathlib.Algebra.BigOperators.Group.List.Basic
import Mathlib.Algebra.BigOperators.Ring.List
/-!
# The gamma callback as an arbitrary function (over ℝ)

* `GammaScaleInv g` — the callback is a pure number: its value is unchanged when `c`, `mu` and every
  player's `mu`, `sigma` are multiplied by `k > 0` and `sigma_squared` by `k²`;
* `GammaShiftInv g` — its value is unchanged when every player's `mu` is moved by `d` and the team
  `mu` by (number of players) · `d`  (the way the origin of the skill scale moves);
* `GammaMuFree g`   — the callback does not read the team `mu` argument (pair-level statements that
  move the team `mu` alone).

Each holds for the six tagged members and for the team-reading callback `gammaTeamSigma`.
-/
noncomputable section
namespace OS
open Scalar

/-- the value is unchanged under a change of unit `k > 0` -/
def GammaScaleInv (g : GammaFn ℝ) : Prop :=
  ∀ (k : ℝ), 0 < k → ∀ (c : ℝ) (n : Nat) (mu s2 : ℝ) (team : List (Rating ℝ)) (r : Nat),
    gammaVal g (k * c) n (k * mu) (k ^ 2 * s2)
        (team.map (fun p => { p with mu := k * p.mu, sigma := k * p.sigma })) r
      = gammaVal g c n mu s2 team r

/-- the value is unchanged under a change of origin: every player's mu moves by `d`, the team mu by
(number of players) · `d` -/
def GammaShiftInv (g : GammaFn ℝ) : Prop :=
  ∀ (d c : ℝ) (n : Nat) (mu s2 : ℝ) (team : List (Rating ℝ)) (r : Nat),
    gammaVal g c n (mu + team.length * d) s2 (team.map (fun p => { p with mu := p.mu + d })) r
      = gammaVal g c n mu s2 team r

/-- the callback does not read the team `mu` argument -/
def GammaMuFree (g : GammaFn ℝ) : Prop :=
  ∀ (c : ℝ) (n : Nat) (mu mu' s2 : ℝ) (team : List (Rating ℝ)) (r : Nat),
    gammaVal g c n mu' s2 team r = gammaVal g c n mu s2 team r

theorem gam_sqrt_scale (k x : ℝ) (hk : 0 < k) : Real.sqrt (k ^ 2 * x) = k * Real.sqrt x := by
  rw [Real.sqrt_mul (by positivity), Real.sqrt_sq hk.le]

/-- every tagged member is a pure number; it reads neither `mu` nor the players -/
theorem gam_tagged_scale {g : GammaFn ℝ} (hg : g.Tagged) (k c : ℝ) (hk : 0 < k) (n : Nat)
    (mu mu' s2 : ℝ) (team team' : List (Rating ℝ)) (r : Nat) :
    gammaVal g (k * c) n mu' (k ^ 2 * s2) team' r = gammaVal g c n mu s2 team r := by
  cases g with
  | fn f => exact hg.elim
  | dflt =>
    simp only [gammaVal, sc_sqrt, gam_sqrt_scale k _ hk]
    exact mul_div_mul_left _ _ hk.ne'
  | sq =>
    simp only [gammaVal]
    have : k * c * (k * c) = k ^ 2 * (c * c) := by ring
    rw [this, mul_div_mul_left _ _ (pow_ne_zero 2 hk.ne')]
  | _ => rfl

theorem gam_tagged_scaleInv {g : GammaFn ℝ} (hg : g.Tagged) : GammaScaleInv g :=
  fun k hk c n mu s2 team r => gam_tagged_scale hg k c hk n mu (k * mu) s2 team _ r

theorem gam_tagged_shiftInv {g : GammaFn ℝ} (hg : g.Tagged) : GammaShiftInv g :=
  fun _ c n mu s2 team r => gam_tagged_mu_team hg c n mu _ s2 team _ r

theorem gam_tagged_muFree {g : GammaFn ℝ} (hg : g.Tagged) : GammaMuFree g :=
  fun c n mu mu' s2 team r => gam_tagged_mu_team hg c n mu mu' s2 team team r

/-! ### the team-reading callback `gammaTeamSigma` (`sqrt(Σ_team σ²)/c`) -/

theorem gam_teamSigma_val (c : ℝ) (k : Nat) (mu s2 : ℝ) (team : List (Rating ℝ)) (r : Nat) :
    gammaVal gammaTeamSigma c k mu s2 team r
      = Real.sqrt ((team.map (fun p => p.sigma * p.sigma)).sum) / c := by
  simp only [gammaTeamSigma, gam_gammaVal_fn, sc_sqrt, sumL_eq_sum]

theorem gam_teamSigma_nonneg (c : ℝ) (hc : 0 ≤ c) (k : Nat) (mu s2 : ℝ) (team : List (Rating ℝ))
    (r : Nat) : 0 ≤ gammaVal gammaTeamSigma c k mu s2 team r := by
  rw [gam_teamSigma_val]; exact div_nonneg (Real.sqrt_nonneg _) hc

theorem gam_teamSigma_scaleInv : GammaScaleInv gammaTeamSigma := by
  intro k hk c n mu s2 team r
  rw [gam_teamSigma_val, gam_teamSigma_val, List.map_map]
  have h : (List.map ((fun p : Rating ℝ => p.sigma * p.sigma) ∘
        fun p => { p with mu := k * p.mu, sigma := k * p.sigma }) team).sum
      = k ^ 2 * (team.map (fun p => p.sigma * p.sigma)).sum := by
    rw [← List.sum_map_mul_left]
    congr 1
    refine List.map_congr_left (fun p _ => ?_)
    simp only [Function.comp_def]; ring
  rw [h, gam_sqrt_scale k _ hk]
  exact mul_div_mul_left _ _ hk.ne'

theorem gam_teamSigma_shiftInv : GammaShiftInv gammaTeamSigma := by
  intro d c n mu s2 team r
  rw [gam_teamSigma_val, gam_teamSigma_val, List.map_map]
  rfl

theorem gam_teamSigma_muFree : GammaMuFree gammaTeamSigma :=
  fun _ _ _ _ _ _ _ => rfl

theorem gam_teamSigma_permInv : GammaPermInv (gammaTeamSigma : GammaFn ℝ) := by
  intro c k mu s2 team team' r h
  rw [gam_teamSigma_val, gam_teamSigma_val, (h.map _).sum_eq]

/-- on the arguments `_compute` passes (`s2` is the team's summed variance) the team-reading
callback is the default one -/
theorem gam_teamSigma_eq_dflt (c : ℝ) (k : Nat) (t : TeamAgg ℝ)
    (ht : t.sig2 = sumL (t.players.map (fun p => p.sigma * p.sigma))) :
    GammaAt gammaTeamSigma c k t = GammaAt .dflt c k t := by
  simp only [GammaAt, gammaTeamSigma, gammaVal, ht]

end OS
end
