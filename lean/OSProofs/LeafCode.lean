import OSProofs.LeafFacts
import OSProofs.Gauss2
import Mathlib.Tactic.FieldSimp
import Mathlib.Tactic.Ring
import Mathlib.Tactic.Linarith
import Mathlib.Tactic.Positivity
import Mathlib.Tactic.NormNum

/-!
# The code's `v, w, vt, wt` over ℝ satisfy `LeafFacts`

Unfolding lemmas (`vCode_asym`, `vCode_exact`, …) expose the two branches of every leaf in
terms of `Gauss.phi`, `Gauss.Phi`; the six fields of `LeafFacts codeLeaves` follow from the
Gaussian facts G1–G8a of `OSProofs/Gauss.lean`.
-/

noncomputable section
namespace OS
open Gauss

theorem epsF_eq : (epsF : ℝ) = 1 / 4503599627370496 := by
  unfold epsF; simp only [sc_ofNat]; norm_num

theorem tiny5_eq : (tiny5 : ℝ) = 1 / 100000 := by
  unfold tiny5; simp only [sc_ofNat]; norm_num

theorem epsF_lt_half : (epsF : ℝ) < 1 / 2 := by
  rw [epsF_eq]; norm_num

theorem epsF_lt_tiny5 : (epsF : ℝ) < tiny5 := by
  rw [epsF_eq, tiny5_eq]; norm_num

/-- the asymptotic branch of `v`, `w` is only entered left of 0 -/
theorem neg_of_Phi_lt_epsF {u : ℝ} (h : Phi u < epsF) : u < 0 := by
  by_contra hu
  have h0 : Phi 0 ≤ Phi u := Phi_strictMono.monotone (not_lt.mp hu)
  rw [Phi_zero] at h0
  have := epsF_lt_half
  linarith

/-! ### branch-exposing lemmas -/

theorem vCode_asym {x t : ℝ} (h : Phi (x - t) < epsF) : vCode x t = -(x - t) := by
  simp only [vCode, sc_Phi, sc_phi]; rw [if_pos h]

theorem vCode_exact {x t : ℝ} (h : ¬ Phi (x - t) < epsF) :
    vCode x t = phi (x - t) / Phi (x - t) := by
  simp only [vCode, sc_Phi, sc_phi]; rw [if_neg h]

theorem wCode_asym_neg {x t : ℝ} (h : Phi (x - t) < epsF) (hx : x < 0) : wCode x t = 1 := by
  have hx' : x < ((0 : ℕ) : ℝ) := by simpa using hx
  simp only [wCode, sc_Phi, sc_ofNat]; rw [if_pos h, if_pos hx']; simp

theorem wCode_asym_nonneg {x t : ℝ} (h : Phi (x - t) < epsF) (hx : ¬ x < 0) : wCode x t = 0 := by
  have hx' : ¬ x < ((0 : ℕ) : ℝ) := by simpa using hx
  simp only [wCode, sc_Phi, sc_ofNat]; rw [if_pos h, if_neg hx']; simp

theorem wCode_exact {x t : ℝ} (h : ¬ Phi (x - t) < epsF) :
    wCode x t = phi (x - t) / Phi (x - t) * (phi (x - t) / Phi (x - t) + (x - t)) := by
  have hv := vCode_exact h
  simp only [wCode, sc_Phi]; rw [if_neg h, hv]

/-- the code's normaliser `b = Φ(t − |x|) − Φ(−t − |x|)` -/
def Zc (x t : ℝ) : ℝ := Phi (t - |x|) - Phi (-t - |x|)

theorem vtCode_asym_neg {x t : ℝ} (h : Zc x t < tiny5) (hx : x < 0) : vtCode x t = -x - t := by
  have hx' : x < ((0 : ℕ) : ℝ) := by simpa using hx
  unfold Zc at h
  simp only [vtCode, sc_Phi, sc_phi, sc_ofNat, sabs_eq_abs]
  rw [if_pos h, if_pos hx']

theorem vtCode_asym_nonneg {x t : ℝ} (h : Zc x t < tiny5) (hx : ¬ x < 0) :
    vtCode x t = -x + t := by
  have hx' : ¬ x < ((0 : ℕ) : ℝ) := by simpa using hx
  unfold Zc at h
  simp only [vtCode, sc_Phi, sc_phi, sc_ofNat, sabs_eq_abs]
  rw [if_pos h, if_neg hx']

theorem vtCode_exact_neg {x t : ℝ} (h : ¬ Zc x t < tiny5) (hx : x < 0) :
    vtCode x t = -(phi (-t - |x|) - phi (t - |x|)) / Zc x t := by
  have hx' : x < ((0 : ℕ) : ℝ) := by simpa using hx
  unfold Zc at h
  simp only [vtCode, sc_Phi, sc_phi, sc_ofNat, sabs_eq_abs]
  rw [if_neg h, if_pos hx']; rfl

theorem vtCode_exact_nonneg {x t : ℝ} (h : ¬ Zc x t < tiny5) (hx : ¬ x < 0) :
    vtCode x t = (phi (-t - |x|) - phi (t - |x|)) / Zc x t := by
  have hx' : ¬ x < ((0 : ℕ) : ℝ) := by simpa using hx
  unfold Zc at h
  simp only [vtCode, sc_Phi, sc_phi, sc_ofNat, sabs_eq_abs]
  rw [if_neg h, if_neg hx']; rfl

theorem wtCode_asym {x t : ℝ} (h : Zc x t < epsF) : wtCode x t = 1 := by
  unfold Zc at h
  simp only [wtCode, sc_Phi, sc_phi, sc_ofNat, sabs_eq_abs]
  rw [if_pos h]; simp

theorem wtCode_exact {x t : ℝ} (h : ¬ Zc x t < epsF) :
    wtCode x t = ((t - |x|) * phi (t - |x|) + (t + |x|) * phi (-t - |x|)) / Zc x t
      + (phi (-t - |x|) - phi (t - |x|)) / Zc x t * ((phi (-t - |x|) - phi (t - |x|)) / Zc x t) := by
  unfold Zc at h
  simp only [wtCode, sc_Phi, sc_phi, sc_ofNat, sabs_eq_abs]
  rw [if_neg h]; rfl

/-! ### facts about the normaliser -/

theorem Zc_neg (x t : ℝ) : Zc (-x) t = Zc x t := by unfold Zc; rw [abs_neg]

/-- a positive normaliser forces a non-degenerate truncation interval -/
theorem interval_of_Zc_pos {x t : ℝ} (h : 0 < Zc x t) : -t - |x| < t - |x| := lt_of_Z_pos h

theorem t_pos_of_Zc_pos {x t : ℝ} (h : 0 < Zc x t) : 0 < t := by
  have := interval_of_Zc_pos h; linarith

theorem Zc_pos_of_not_lt_epsF {x t : ℝ} (h : ¬ Zc x t < epsF) : 0 < Zc x t :=
  lt_of_lt_of_le epsF_pos (not_lt.mp h)

theorem Zc_pos_of_not_lt_tiny5 {x t : ℝ} (h : ¬ Zc x t < tiny5) : 0 < Zc x t :=
  lt_of_lt_of_le tiny5_pos (not_lt.mp h)

/-! ### the six fields -/

theorem vCode_nonneg (x t : ℝ) : 0 ≤ vCode x t := by
  by_cases h : Phi (x - t) < epsF
  · rw [vCode_asym h]; have := neg_of_Phi_lt_epsF h; linarith
  · rw [vCode_exact h]; exact (mills_ratio_pos _).le

theorem vCode_ge (x t : ℝ) : t - x ≤ vCode x t := by
  by_cases h : Phi (x - t) < epsF
  · rw [vCode_asym h]; linarith
  · rw [vCode_exact h]; have := mills_ratio_gt (x - t); linarith

theorem wCode_nonneg (x t : ℝ) : 0 ≤ wCode x t := by
  by_cases h : Phi (x - t) < epsF
  · by_cases hx : x < 0
    · rw [wCode_asym_neg h hx]; exact zero_le_one
    · rw [wCode_asym_nonneg h hx]
  · rw [wCode_exact h]
    exact (mul_pos (mills_ratio_pos _) (mills_ratio_add_pos _)).le

/-- the exact branch of `wt` as a single fraction over Z² -/
theorem wtCode_exact_frac {x t : ℝ} (h : ¬ Zc x t < epsF) :
    wtCode x t = (((t - |x|) * phi (t - |x|) - (-t - |x|) * phi (-t - |x|)) * Zc x t
      + (phi (-t - |x|) - phi (t - |x|)) ^ 2) / Zc x t ^ 2 := by
  have hZ := Zc_pos_of_not_lt_epsF h
  rw [wtCode_exact h]
  field_simp
  ring

theorem wtCode_nonneg (x t : ℝ) (_ht : 0 ≤ t) : 0 ≤ wtCode x t := by
  by_cases h : Zc x t < epsF
  · rw [wtCode_asym h]; exact zero_le_one
  · have hZ := Zc_pos_of_not_lt_epsF h
    rw [wtCode_exact_frac h]
    apply div_nonneg _ (sq_nonneg _)
    exact Wt_mul_Z_nonneg (interval_of_Zc_pos hZ)

theorem vtCode_mem (x t : ℝ) (ht : 0 ≤ t) : -t - x ≤ vtCode x t ∧ vtCode x t ≤ t - x := by
  by_cases h : Zc x t < tiny5
  · by_cases hx : x < 0
    · rw [vtCode_asym_neg h hx]; constructor <;> linarith
    · rw [vtCode_asym_nonneg h hx]; constructor <;> linarith
  · have hZ := Zc_pos_of_not_lt_tiny5 h
    obtain ⟨h1, h2⟩ := trunc_ratio_mem (interval_of_Zc_pos hZ)
    change _ < _ / Zc x t at h1
    change _ / Zc x t < _ at h2
    by_cases hx : x < 0
    · rw [vtCode_exact_neg h hx, neg_div]
      rw [abs_of_neg hx] at h1 h2 ⊢
      constructor <;> linarith
    · rw [vtCode_exact_nonneg h hx]
      rw [abs_of_nonneg (not_lt.mp hx)] at h1 h2 ⊢
      constructor <;> linarith

theorem vtCode_odd (x t : ℝ) (hx : x ≠ 0) : vtCode (-x) t = -vtCode x t := by
  rcases lt_or_gt_of_ne hx with hneg | hpos
  · have hnx : ¬ (-x) < 0 := by linarith
    by_cases h : Zc x t < tiny5
    · have h' : Zc (-x) t < tiny5 := by rwa [Zc_neg]
      rw [vtCode_asym_neg h hneg, vtCode_asym_nonneg h' hnx]; ring
    · have h' : ¬ Zc (-x) t < tiny5 := by rwa [Zc_neg]
      rw [vtCode_exact_neg h hneg, vtCode_exact_nonneg h' hnx, Zc_neg, abs_neg]; ring
  · have hnx : (-x) < 0 := by linarith
    have hx' : ¬ x < 0 := by linarith
    by_cases h : Zc x t < tiny5
    · have h' : Zc (-x) t < tiny5 := by rwa [Zc_neg]
      rw [vtCode_asym_nonneg h hx', vtCode_asym_neg h' hnx]; ring
    · have h' : ¬ Zc (-x) t < tiny5 := by rwa [Zc_neg]
      rw [vtCode_exact_nonneg h hx', vtCode_exact_neg h' hnx, Zc_neg, abs_neg]; ring

/-- the code's four correction functions, read over ℝ, satisfy every fact the game-level
theorems use -/
theorem leafFacts_code : LeafFacts (codeLeaves : Leaves ℝ) where
  v_nonneg := vCode_nonneg
  v_ge := vCode_ge
  w_nonneg := wCode_nonneg
  wt_nonneg := wtCode_nonneg
  vt_mem := vtCode_mem
  vt_odd := vtCode_odd

end OS
end
