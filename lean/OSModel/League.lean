import OSModel.Rate
/-
  A league: a store of (mu, sigma) per player number and a history of games played through
  `rate`.  Before a game the participants' rating objects are built from the store
  (`loadTeams`), the game is rated, and every returned rating is written back.

  Two ways of writing back are modelled:
  * `storeBack`    — by the id the returned rating carries (what a caller does who keeps a
                     dict `player -> rating` and stores `result[i][j]` under its own name);
  * `storeBackPos` — by position: the value in slot `[i][j]` of the result goes to the player
                     who was put in slot `[i][j]` of the game (what a caller does who rebuilds
                     fresh rating objects from stored numbers before every game).
  Mathlib-free, computable, generic over the scalar type.
-/
namespace OS
open Scalar
variable {α ρ : Type}

/-- a league: the store maps a player number to his current (mu, sigma) -/
structure Store (α : Type) where
  mu : Nat → α
  sigma : Nat → α

/-- one game: which players form which team (player numbers), the outcome, the per-call
    options, the model kind -/
structure LeagueGame (α ρ : Type) where
  kind : Kind
  teams : List (List Nat)
  outcome : Outcome ρ
  opts : CallOpts α

/-- the rating object of player `p` as stored: `id` is the player number -/
def Store.load (s : Store α) (p : Nat) : Rating α :=
  { id := p, mu := s.mu p, sigma := s.sigma p }

/-- the rating objects of the participants of `g`, in the nesting of the game -/
def loadTeams (s : Store α) (g : LeagueGame α ρ) : List (List (Rating α)) :=
  g.teams.map (·.map s.load)

/-- store the pair `(m, sg)` for player `p` -/
def Store.put (s : Store α) (p : Nat) (m sg : α) : Store α :=
  { mu := fun q => if q = p then m else s.mu q,
    sigma := fun q => if q = p then sg else s.sigma q }

/-- store one rating under its own id -/
def Store.write (s : Store α) (r : Rating α) : Store α := s.put r.id r.mu r.sigma

/-- write every returned rating back at its `id`, team by team, left to right (a later write
    to the same id wins) -/
def storeBack (s : Store α) (res : List (List (Rating α))) : Store α :=
  res.flatten.foldl Store.write s

/-- write the values `vals[i][j]` back to the player `ids[i][j]` (by position; slots without
    a partner are dropped), team by team, left to right -/
def storeBackPos (s : Store α) (ids : List (List Nat)) (vals : List (List (α × α))) : Store α :=
  (List.zipWith List.zip ids vals).flatten.foldl (fun s pv => s.put pv.1 pv.2.1 pv.2.2) s

variable [Scalar α]

/-- one game of the league: load, rate, write back by id -/
def playGame (L : Leaves α) (P : Params α) (le : ρ → ρ → Bool) (neg : ρ → ρ)
    (s : Store α) (g : LeagueGame α ρ) : Store α :=
  storeBack s (rate g.kind L P le neg (loadTeams s g) g.outcome g.opts)

/-- a history of games, played in order -/
def playLeague (L : Leaves α) (P : Params α) (le : ρ → ρ → Bool) (neg : ρ → ρ)
    (s : Store α) (gs : List (LeagueGame α ρ)) : Store α :=
  gs.foldl (playGame L P le neg) s

/-- one game rated on the rating objects `ts` (whatever ids they carry) and written back by
    position to the players of `g.teams` -/
def playGamePos (L : Leaves α) (P : Params α) (le : ρ → ρ → Bool) (neg : ρ → ρ)
    (s : Store α) (g : LeagueGame α ρ) (ts : List (List (Rating α))) : Store α :=
  storeBackPos s g.teams
    ((rate g.kind L P le neg ts g.outcome g.opts).map (·.map (fun p => (p.mu, p.sigma))))

/-- a history in which, before game number `k` (counted from 0), the objects handed to `rate`
    are `build k s g` (e.g. fresh objects rebuilt from the stored numbers) and the results are
    written back by position -/
def playLeagueWith (L : Leaves α) (P : Params α) (le : ρ → ρ → Bool) (neg : ρ → ρ)
    (build : Nat → Store α → LeagueGame α ρ → List (List (Rating α)))
    (s : Store α) (gs : List (LeagueGame α ρ)) : Store α :=
  gs.zipIdx.foldl (fun s gk => playGamePos L P le neg s gk.1 (build gk.2 s gk.1)) s

end OS
