import OSProofs.HiPrecLemmas

/-!
# Oracle — the arithmetic core of the high-precision evaluator is proved, not trusted

`OSModel/HiPrec.lean` (namespace `OS.HP`) is the big-float evaluator the differential tests
compare the Python implementation with.  A big float is a pair `⟨m, e⟩` of integers meaning
the real number `m · 2^e` (`BF.toReal`).  This file states, against that real-number meaning,

* that `neg`, `abs`, `scale2`, `ofInt`, `isNeg`, `lt`, `floor` are **exact**
  (`lt` decides the order of the real numbers: the recorded-comparison / knife-edge logic
  relies on exactly this);
* that `norm P` truncates the mantissa toward zero to at most `P` bits, with relative loss
  `≤ 2^(1-P)`, never increasing the magnitude and never changing the sign;
* relative error bounds for `mul` (`2^(1-P)`), `add`/`sub` (`2^(1-P)`), `div` (`2^(2-P)`),
  `sqrt` (`2^(2-P)`), and the documented totalisations `div _ 0 = 0`, `sqrt (≤ 0) = 0`.

`add_err` needs **no** hypothesis on the operands: the shortcut in `add` (return the operand
with the larger exponent unchanged) tests `bitLen lo.m ≤ P + 8` itself, so the neglected term is
bounded whatever the caller passes.

The series functions (`ln2`, `pi`, `exp`, `erfc`, `Φ`, `φ`, `Φ⁻¹`, leaves) and the conversions
`ofFloat`/`toFloat` stay trusted executable code; every rounding step *inside* them is one of the
operations below.
-/

namespace OS.HP

noncomputable section

/-! ## 1. exact operations -/

/-- negation is exact -/
theorem Oracle_neg_toReal (a : BF) : (neg a).toReal = -a.toReal := neg_toReal a

/-- absolute value is exact -/
theorem Oracle_abs_toReal (a : BF) : (abs a).toReal = |a.toReal| := abs_toReal a

/-- multiplication by a power of two is exact -/
theorem Oracle_scale2_toReal (a : BF) (k : Int) :
    (scale2 a k).toReal = a.toReal * (2 : ℝ) ^ k := scale2_toReal a k

/-- an integer is represented exactly -/
theorem Oracle_ofInt_toReal (i : Int) : (ofInt i).toReal = (i : ℝ) := ofInt_toReal i

/-- the sign test is exact -/
theorem Oracle_isNeg_iff (a : BF) : isNeg a = true ↔ a.toReal < 0 := isNeg_iff a

/-- the comparison is exact: `lt a b` answers `true` exactly when the real number `a` stands
for is smaller than the real number `b` stands for (no rounding is involved at all) -/
theorem Oracle_lt_iff (a b : BF) : lt a b = true ↔ a.toReal < b.toReal := lt_iff a b

/-- consequently `lt a b = false` means `b ≤ a` as real numbers -/
theorem Oracle_lt_false_iff (a b : BF) : lt a b = false ↔ b.toReal ≤ a.toReal := by
  rw [← not_lt, ← lt_iff]; simp

/-- `floor` is the floor of the real value -/
theorem Oracle_floor_spec (a : BF) :
    ((floor a : Int) : ℝ) ≤ a.toReal ∧ a.toReal < ((floor a : Int) : ℝ) + 1 := floor_spec a

/-- the same, said with Mathlib's floor function -/
theorem Oracle_floor_eq (a : BF) : floor a = ⌊a.toReal⌋ := by
  obtain ⟨h1, h2⟩ := floor_spec a
  exact (Int.floor_eq_iff.2 ⟨h1, h2⟩).symm

/-! ## 2. bit length -/

/-- `bitLen n` is the number of binary digits of `n > 0` -/
theorem Oracle_bitLen_spec {n : Nat} (h : 0 < n) :
    2 ^ (bitLen n - 1) ≤ n ∧ n < 2 ^ bitLen n := ⟨bitLen_lower h, bitLen_upper n⟩

theorem Oracle_bitLen_zero : bitLen 0 = 0 := bitLen_zero

/-- `bitLen n ≤ k` says exactly `n < 2^k` -/
theorem Oracle_bitLen_le_iff {n k : Nat} : bitLen n ≤ k ↔ n < 2 ^ k := bitLen_le_iff

/-! ## 3. rounding (`norm`) -/

/-- a value whose mantissa already fits in `P` bits is left unchanged in value (this includes
the mantissa 0, which is re-written as `⟨0, 0⟩`) -/
theorem Oracle_norm_exact {P : Nat} (x : BF) (h : bitLen x.m.natAbs ≤ P) :
    (norm P x).toReal = x.toReal := norm_exact x h

/-- truncation to `P` bits loses at most the relative amount `2^(1-P)` -/
theorem Oracle_norm_err {P : Nat} (hP : 0 < P) (x : BF) :
    |(norm P x).toReal - x.toReal| ≤ |x.toReal| * (2 : ℝ) ^ (1 - (P : Int)) :=
  (norm_spec hP x).err

/-- truncation never increases the magnitude -/
theorem Oracle_norm_abs_le {P : Nat} (hP : 0 < P) (x : BF) :
    |(norm P x).toReal| ≤ |x.toReal| := (norm_spec hP x).abs_le

/-- truncation keeps the sign -/
theorem Oracle_norm_sign {P : Nat} (hP : 0 < P) (x : BF) :
    (0 ≤ x.toReal → 0 ≤ (norm P x).toReal) ∧ (x.toReal ≤ 0 → (norm P x).toReal ≤ 0) :=
  ⟨(norm_spec hP x).nonneg, (norm_spec hP x).nonpos⟩

/-- the three facts at once: `norm P x = x · (1 - θ)` with `0 ≤ θ ≤ 2^(1-P)`, `θ ≤ 1` -/
theorem Oracle_norm_spec {P : Nat} (hP : 0 < P) (x : BF) :
    ∃ θ : ℝ, 0 ≤ θ ∧ θ ≤ (2 : ℝ) ^ (1 - (P : Int)) ∧ θ ≤ 1 ∧
      (norm P x).toReal = x.toReal * (1 - θ) := norm_spec hP x

/-- the result of `norm P` has at most `P` mantissa bits (for every `P`, also 0) -/
theorem Oracle_norm_bitLen {P : Nat} (x : BF) : bitLen (norm P x).m.natAbs ≤ P := norm_bitLen x

/-! ## 4. multiplication -/

/-- the product is the exact product truncated to `P` bits -/
theorem Oracle_mul_err {P : Nat} (hP : 0 < P) (a b : BF) :
    |(mul P a b).toReal - a.toReal * b.toReal|
      ≤ |a.toReal * b.toReal| * (2 : ℝ) ^ (1 - (P : Int)) := (mul_spec hP a b).err

/-- and it is a truncation: never larger in magnitude than the exact product -/
theorem Oracle_mul_abs_le {P : Nat} (hP : 0 < P) (a b : BF) :
    |(mul P a b).toReal| ≤ |a.toReal * b.toReal| := (mul_spec hP a b).abs_le

theorem Oracle_mul_bitLen {P : Nat} (a b : BF) : bitLen (mul P a b).m.natAbs ≤ P := norm_bitLen _

/-! ## 5. addition and subtraction -/

/-- the sum has relative error at most `2^(1-P)` — for **all** operands: either the exact sum
is formed and truncated, or (exponents more than `2P+64` apart and the low operand at most
`P+8` bits long, both tested by the code) the low operand is dropped, and it is then smaller
than `2^(1-P)` times the exact sum. -/
theorem Oracle_add_err {P : Nat} (hP : 0 < P) (a b : BF) :
    |(add P a b).toReal - (a.toReal + b.toReal)|
      ≤ |a.toReal + b.toReal| * (2 : ℝ) ^ (1 - (P : Int)) := add_err hP a b

/-- the statement in the form asked for (operands normalised to `P + 8` bits): a special case -/
theorem Oracle_add_err_normalised {P : Nat} (hP : 0 < P) (a b : BF)
    (_h : bitLen a.m.natAbs ≤ P + 8 ∧ bitLen b.m.natAbs ≤ P + 8) :
    |(add P a b).toReal - (a.toReal + b.toReal)|
      ≤ |a.toReal + b.toReal| * (2 : ℝ) ^ (1 - (P : Int)) := add_err hP a b

theorem Oracle_sub_err {P : Nat} (hP : 0 < P) (a b : BF) :
    |(sub P a b).toReal - (a.toReal - b.toReal)|
      ≤ |a.toReal - b.toReal| * (2 : ℝ) ^ (1 - (P : Int)) := sub_err hP a b

/-- in particular a sum or difference that is exactly zero is computed as exactly zero -/
theorem Oracle_sub_self_zero {P : Nat} (hP : 0 < P) (a b : BF) (h : a.toReal = b.toReal) :
    (sub P a b).toReal = 0 := by
  have := sub_err hP a b
  rw [h, sub_self, abs_zero, zero_mul, sub_zero] at this
  exact abs_eq_zero.1 (le_antisymm this (abs_nonneg _))

/-! ## 6. division -/

/-- the quotient (formed with `P + 8` guard bits by integer division toward zero, then
truncated to `P` bits) has relative error at most `2^(2-P)` -/
theorem Oracle_div_err {P : Nat} (hP : 0 < P) (a b : BF) (hb : b.m ≠ 0) :
    |(div P a b).toReal - a.toReal / b.toReal|
      ≤ |a.toReal / b.toReal| * (2 : ℝ) ^ (2 - (P : Int)) := (div_spec hP a b hb).err

/-- and it is a truncation: never larger in magnitude than the exact quotient -/
theorem Oracle_div_abs_le {P : Nat} (hP : 0 < P) (a b : BF) (hb : b.m ≠ 0) :
    |(div P a b).toReal| ≤ |a.toReal / b.toReal| := (div_spec hP a b hb).abs_le

/-- documented totalisation: division by zero gives 0 in the model (Python raises
`ZeroDivisionError`; the harness never compares such a case) -/
theorem Oracle_div_zero (P : Nat) (a b : BF) (h : b.m = 0) : div P a b = ⟨0, 0⟩ :=
  div_zero P a b h

/-- `b.m ≠ 0` is the same as "the divisor is not the real number 0" -/
theorem Oracle_m_ne_zero_iff (b : BF) : b.m ≠ 0 ↔ b.toReal ≠ 0 := by
  refine ⟨toReal_ne_zero, fun h hm => h (toReal_zero_of_m hm)⟩

/-! ## 7. square root -/

/-- the square root (integer square root of the mantissa shifted to at least `2P+4` bits on an
even exponent, then truncated to `P` bits) has relative error at most `2^(2-P)` -/
theorem Oracle_sqrt_err {P : Nat} (hP : 0 < P) (a : BF) (h : 0 < a.m) :
    |(sqrt P a).toReal - Real.sqrt a.toReal|
      ≤ Real.sqrt a.toReal * (2 : ℝ) ^ (2 - (P : Int)) := by
  have := (sqrt_spec hP a h).err
  rwa [abs_of_nonneg (Real.sqrt_nonneg _)] at this

/-- and it is a truncation: `0 ≤ sqrt P a ≤ √a` -/
theorem Oracle_sqrt_le {P : Nat} (hP : 0 < P) (a : BF) (h : 0 < a.m) :
    0 ≤ (sqrt P a).toReal ∧ (sqrt P a).toReal ≤ Real.sqrt a.toReal := by
  have hs := sqrt_spec hP a h
  refine ⟨hs.nonneg (Real.sqrt_nonneg _), ?_⟩
  have := hs.abs_le
  rw [abs_of_nonneg (Real.sqrt_nonneg _)] at this
  exact (le_abs_self _).trans this

/-- documented totalisation: the root of a non-positive number is 0 in the model -/
theorem Oracle_sqrt_nonpos (P : Nat) (a : BF) (h : a.m ≤ 0) : sqrt P a = ⟨0, 0⟩ :=
  sqrt_nonpos P a h

/-! ## non-vacuity: the functions evaluated on concrete numbers -/

example : mul 8 ⟨3, 0⟩ ⟨5, 1⟩ = ⟨15, 1⟩ := by rfl
/-- 1 < 1.5 -/
example : lt ⟨1, 0⟩ ⟨3, -1⟩ = true := by rfl
example : lt ⟨3, -1⟩ ⟨1, 0⟩ = false := by rfl
/-- −1.5 < −1 -/
example : lt ⟨-3, -1⟩ ⟨-1, 0⟩ = true := by rfl
/-- 1000 = 1111101000₂ truncated to 4 bits is 1111₂ · 2^6 = 960 -/
example : norm 4 ⟨1000, 0⟩ = ⟨15, 6⟩ := by rfl
example : norm 4 ⟨-1000, 0⟩ = ⟨-15, 6⟩ := by rfl
example : bitLen 1000 = 10 := by rfl
/-- 1 + 2^-3 at 8 bits is exact: 9 · 2^-3 -/
example : add 8 ⟨1, 0⟩ ⟨1, -3⟩ = ⟨9, -3⟩ := by rfl
/-- the shortcut: 1 + 2^-200 at 8 bits returns 1 -/
example : add 8 ⟨1, 0⟩ ⟨1, -200⟩ = ⟨1, 0⟩ := by rfl
/-- floor(−1.5) = −2, floor(1.5) = 1 -/
example : floor ⟨-3, -1⟩ = -2 := by rfl
example : floor ⟨3, -1⟩ = 1 := by rfl
/-- 1/3 at 4 bits: 0.0101010101…₂ truncated to 1010₂ · 2^-5 = 0.3125 -/
example : div 4 ⟨1, 0⟩ ⟨3, 0⟩ = ⟨10, -5⟩ := by rfl
example : div 4 ⟨1, 0⟩ ⟨0, 7⟩ = ⟨0, 0⟩ := by rfl
/-- √2 at 4 bits: 1.011₂ = 1.375 -/
example : (sqrt 4 ⟨2, 0⟩).m = 11 ∧ (sqrt 4 ⟨2, 0⟩).e = -3 := by decide +kernel
example : sqrt 4 ⟨-2, 0⟩ = ⟨0, 0⟩ := by rfl

/-- the hypotheses of the error theorems are satisfiable and the bounds are not trivial:
`1/3` at 4 bits is `0.3125`, off by `1/48 ≤ (1/3)·2^(2-4)` -/
example : |(div 4 ⟨1, 0⟩ ⟨3, 0⟩).toReal - (1 : ℝ) / 3| ≤ |(1 : ℝ) / 3| * (2 : ℝ) ^ (2 - ((4 : Nat) : Int)) := by
  have := Oracle_div_err (P := 4) (by norm_num) ⟨1, 0⟩ ⟨3, 0⟩ (by decide)
  simpa [BF.toReal] using this

end

end OS.HP
