import OSProofs.Gauss
#print axioms Gauss.Phi_neg
#print axioms Gauss.Phi_strictMono
#print axioms Gauss.Phi_zero
#print axioms Gauss.Phi_pos
#print axioms Gauss.Phi_lt_one
