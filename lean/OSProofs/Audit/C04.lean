import OSProofs.Props.C04
#print axioms OS.sumL_perm
#print axioms OS.C04_teamAgg_perm
#print axioms OS.C04_applyTeam_perm
#print axioms OS.C04_sumPairs_perm
#print axioms OS.C04_plC_perm
