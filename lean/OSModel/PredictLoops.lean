import OSModel.Predict
import OSModel.Sort
import OSModel.CodeShaped
import OSModel.Loops
/-
  Statement-by-statement transliterations of
    predict_win / predict_draw / predict_rank   (the same text in all five files of
                                                 /repo/openskill/models/weng_lin/*.py; checked by
                                                 comparing the ASTs of the method bodies)
    _unwind                                     (/repo/openskill/models/weng_lin/common.py)
    _matrix_transpose                           (/repo/openskill/models/common.py)
  with the Python line as a comment next to each Lean line.  `OSModel/Predict.lean` and
  `OSModel/Sort.lean` replace the loops by closed forms; `OSProofs/Props/PredictLoops.lean` proves the
  two equal.

  Conventions (those of `OSModel/Loops.lean`)
  * `xs.append(x)` is `xs ++ [x]`;  `x**2` is `x * x`;  the literals `0 1 2` are `ofNat`; an `int` that
    meets a `float` in arithmetic is converted by `ofNat`; `int / int` (true division) is the quotient of
    the two converted values.
  * A list read `l[k]` is `l.getD k default` where a default exists, `l[k]?` otherwise; every index that
    occurs is in range (proved, not assumed: the equality theorems go through the reads).
  * The method `_calculate_team_ratings` is `teamRatingsCode` of `Loops.lean` (literal: it calls the
    literal `_calculate_rankings`, uses `reduce` WITHOUT an initial value, reads `rank[index]`).
    The predictions call it WITHOUT ranks.
  * `sum(xs)` of floats is `sumL` (left fold that starts from the int `0`).  CPython >= 3.12 adds floats
    in `sum` with Neumaier compensation, so there the float result can differ from the plain left fold
    in the last place; CPython <= 3.11 is the plain left fold.
  * `phi_major`, `phi_major_inverse`, `math.sqrt` are the `Scalar` operations `Phi`, `PhiInv`, `sqrt`.

  Nothing else in `OSModel` uses this file.
-/
namespace OS
open Scalar

/-! ### `itertools.permutations(xs, 2)` -/

/-- `itertools.permutations(iterable, 2)`, as the itertools documentation defines it:
    ```
    pool = tuple(iterable)
    n = len(pool)
    for indices in product(range(n), repeat=2):     # i outer, j inner, both ascending
        if len(set(indices)) == 2:                  # i != j
            yield tuple(pool[i] for i in indices)
    ``` -/
def permutations2 {β : Type} (iterable : List β) : List (β × β) :=
  let pool := iterable                                  -- pool = tuple(iterable)
  let n := pool.length                                  -- n = len(pool)
  (List.range n).foldl                                  -- for i in range(n):
    (fun out i =>
      (List.range n).foldl                              --   for j in range(n):
        (fun out j =>
          if i != j then                                --     if i != j:
            match pool[i]?, pool[j]? with
            | some a, some b => out ++ [(a, b)]         --       yield (pool[i], pool[j])
            | _, _ => out
          else out)
        out)
    []

/-! ### `itertools.zip_longest(*[iter(xs)] * k)` -/

/-- one output tuple of `zip_longest(it, it, …, it)` (`k` references to ONE iterator `it`): position
    by position, left to right, `next(it)` is called; a position whose call raises `StopIteration`
    is filled with `None`.  The iterator is the list of the items it has not yielded yet.
    Returns (the tuple, the iterator afterwards). -/
def zlRound {β : Type} : Nat → List β → List (Option β) × List β
  | 0, it => ([], it)
  | k + 1, [] => let r := zlRound k []; (none :: r.1, r.2)          -- StopIteration: fillvalue
  | k + 1, x :: it => let r := zlRound k it; (some x :: r.1, r.2)   -- next(it) = x

theorem zlRound_snd {β : Type} (k : Nat) (it : List β) : (zlRound k it).2 = it.drop k := by
  induction k generalizing it with
  | zero => rfl
  | succ k ih =>
    cases it with
    | nil => simp [zlRound, ih]
    | cons x xs => simp [zlRound, ih]

/-- `list(itertools.zip_longest(*[iter(xs)] * k))`.  `zip_longest` stops as soon as, within one round,
    the last of its still-active arguments raises `StopIteration`; all `k` arguments being the same
    iterator, that is: a round that starts on the exhausted iterator emits nothing and ends the
    iteration, and a round that obtains at least one item emits its tuple (padded with `None`), after
    which the iterator is exhausted or not.  With `k = 0` there is no argument and nothing is emitted. -/
def zipLongestIter {β : Type} (k : Nat) : List β → List (List (Option β))
  | [] => []
  | x :: xs =>
    if k = 0 then [] else
      (zlRound k (x :: xs)).1 :: zipLongestIter k ((zlRound k (x :: xs)).2)
termination_by l => l.length
decreasing_by rw [zlRound_snd]; simp; omega

/-- `sum(team_prob)` for a tuple produced by `zip_longest`: a `None` in the tuple would make Python
    raise `TypeError`; no tuple contains one when the number of items is a multiple of `k`
    (`pl2_zipLongestIter_eq_chunk`), which `n * (n - 1)` is of `n - 1`.  The `None`s are skipped here. -/
def sumTuple {α : Type} [Scalar α] (team_prob : List (Option α)) : α :=
  sumL (team_prob.filterMap id)

/-! ### the three predictions -/

variable {α : Type} [Scalar α]

/-- the value of an out-of-range list read (never reached) -/
def TeamAgg.dflt : TeamAgg α := { mu := ofNat 0, sig2 := ofNat 0, rank := 0, players := [] }

/-- `self._calculate_team_ratings(game)` — called WITHOUT ranks: `ranks=None` is falsy, so
    `_calculate_rankings(game)` is called without ranks too and returns `[0, 1, …, len(game)-1]`
    (`lp_rankingsLoopNone_eq`); the team at position `k` gets rank `k`. -/
def calcTeamRatingsNoRanks (game : List (List (Rating α))) : List (TeamAgg α) :=
  teamRatingsCode (fun (a b : Nat) => decide (a < b)) game none

/-- `predict_win(teams)` after `self._check_teams(teams)`, literally -/
def predictWinLoop (beta : α) (teams : List (List (Rating α))) : List α :=
  let n := teams.length                                 -- n = len(teams)
  let denominator : α := ofNat (n * (n - 1)) / ofNat 2  -- denominator = (n * (n - 1)) / 2
  if n = 2 then                                         -- if n == 2:
    let total_player_count := (teams.getD 0 []).length + (teams.getD 1 []).length
                                                        --   total_player_count = len(teams[0]) + len(teams[1])
    let teams_ratings := calcTeamRatingsNoRanks teams   --   teams_ratings = self._calculate_team_ratings(teams)
    let a := teams_ratings.getD 0 TeamAgg.dflt          --   a = teams_ratings[0]
    let b := teams_ratings.getD 1 TeamAgg.dflt          --   b = teams_ratings[1]
    let result := Phi ((a.mu - b.mu)                    --   result = phi_major((a.mu - b.mu)
      / sqrt (ofNat total_player_count * (beta * beta)  --     / math.sqrt(total_player_count * self.beta**2
              + a.sig2 + b.sig2))                       --                 + a.sigma_squared + b.sigma_squared))
    [result, ofNat 1 - result]                          --   return [result, 1 - result]
  else
  let pairwise_probabilities : List α :=                -- pairwise_probabilities = []
    (permutations2 teams).foldl                         -- for pair_a, pair_b in itertools.permutations(teams, 2):
      (fun pairwise_probabilities ab =>
        let pair_a := ab.1
        let pair_b := ab.2
        let pair_a_subset := calcTeamRatingsNoRanks [pair_a]    -- pair_a_subset = self._calculate_team_ratings([pair_a])
        let pair_b_subset := calcTeamRatingsNoRanks [pair_b]    -- pair_b_subset = self._calculate_team_ratings([pair_b])
        let mu_a := (pair_a_subset.getD 0 TeamAgg.dflt).mu      -- mu_a = pair_a_subset[0].mu
        let sigma_a := (pair_a_subset.getD 0 TeamAgg.dflt).sig2 -- sigma_a = pair_a_subset[0].sigma_squared
        let mu_b := (pair_b_subset.getD 0 TeamAgg.dflt).mu      -- mu_b = pair_b_subset[0].mu
        let sigma_b := (pair_b_subset.getD 0 TeamAgg.dflt).sig2 -- sigma_b = pair_b_subset[0].sigma_squared
        pairwise_probabilities ++                               -- pairwise_probabilities.append(
          [Phi ((mu_a - mu_b) / sqrt (ofNat n * (beta * beta) + sigma_a + sigma_b))])
                                                        --   phi_major((mu_a - mu_b) / math.sqrt(n * self.beta**2 + sigma_a + sigma_b)))
      []
  (zipLongestIter (n - 1) pairwise_probabilities).map   -- return [ … for team_prob in itertools.zip_longest(*[iter(pairwise_probabilities)] * (n - 1))]
    (fun team_prob => sumTuple team_prob / denominator) --   (sum(team_prob) / denominator)

/-- `predict_draw(teams)` after `self._check_teams(teams)`, literally -/
def predictDrawLoop (beta : α) (teams : List (List (Rating α))) : α :=
  let n := teams.length                                 -- n = len(teams)
  let total_player_count : Nat := (teams.map (fun t => t.length)).foldl (· + ·) 0
                                                        -- total_player_count = sum([len(_) for _ in teams])
  let draw_probability : α := ofNat 1 / ofNat total_player_count   -- draw_probability = 1 / total_player_count
  let draw_margin :=                                    -- draw_margin = (
    sqrt (ofNat total_player_count)                     --   math.sqrt(total_player_count)
      * beta                                            --   * self.beta
      * PhiInv ((ofNat 1 + draw_probability) / ofNat 2) --   * phi_major_inverse((1 + draw_probability) / 2))
  let pairwise_probabilities : List α :=                -- pairwise_probabilities = []
    (permutations2 teams).foldl                         -- for pair_a, pair_b in itertools.permutations(teams, 2):
      (fun pairwise_probabilities ab =>
        let pair_a := ab.1
        let pair_b := ab.2
        let pair_a_subset := calcTeamRatingsNoRanks [pair_a]    -- pair_a_subset = self._calculate_team_ratings([pair_a])
        let pair_b_subset := calcTeamRatingsNoRanks [pair_b]    -- pair_b_subset = self._calculate_team_ratings([pair_b])
        let mu_a := (pair_a_subset.getD 0 TeamAgg.dflt).mu      -- mu_a = pair_a_subset[0].mu
        let sigma_a := (pair_a_subset.getD 0 TeamAgg.dflt).sig2 -- sigma_a = pair_a_subset[0].sigma_squared
        let mu_b := (pair_b_subset.getD 0 TeamAgg.dflt).mu      -- mu_b = pair_b_subset[0].mu
        let sigma_b := (pair_b_subset.getD 0 TeamAgg.dflt).sig2 -- sigma_b = pair_b_subset[0].sigma_squared
        pairwise_probabilities ++                               -- pairwise_probabilities.append(
          [Phi ((draw_margin - mu_a + mu_b)                     --   phi_major((draw_margin - mu_a + mu_b)
                / sqrt (ofNat n * (beta * beta) + sigma_a + sigma_b))   --     / math.sqrt(n * self.beta**2 + sigma_a + sigma_b))
           - Phi ((mu_a - mu_b - draw_margin)                   --   - phi_major((mu_a - mu_b - draw_margin)
                / sqrt (ofNat n * (beta * beta) + sigma_a + sigma_b))]) --     / math.sqrt(n * self.beta**2 + sigma_a + sigma_b)))
      []
  let denominator : Nat := 1                            -- denominator = 1
  let denominator : Nat :=
    if n > 2 then n * (n - 1)                           -- if n > 2: denominator = n * (n - 1)
    else denominator
  sabs (sumL pairwise_probabilities) / ofNat denominator   -- return abs(sum(pairwise_probabilities)) / denominator

/-- `max(ranks)` for a list of `int`s: the first item, replaced by every later item that is strictly
    greater.  (`max([])` raises `ValueError`; `0` stands for that case — no team at all — which
    validation rejects.) -/
def pyMaxNat : List Nat → Nat
  | [] => 0
  | x :: xs => xs.foldl (fun maxitem item => if item > maxitem then item else maxitem) x

/-- `predict_rank(teams)` after `self._check_teams(teams)`, literally.  `_rank_data` is the literal
    `rankDataCode` of `CodeShaped.lean`.  The Python `int`s `_ - max_ordinal` can be negative: they are
    `Int`s here, `abs` is `Int.natAbs`. -/
def predictRankLoop (beta : α) (teams : List (List (Rating α))) : List (Nat × α) :=
  let n := teams.length                                 -- n = len(teams)
  let total_player_count : Nat := (teams.map (fun t => t.length)).foldl (· + ·) 0
                                                        -- total_player_count = sum([len(_) for _ in teams])
  let denom : α := ofNat (n * (n - 1)) / ofNat 2        -- denom = (n * (n - 1)) / 2
  let draw_probability : α := ofNat 1 / ofNat total_player_count   -- draw_probability = 1 / total_player_count
  let draw_margin :=                                    -- draw_margin = (
    sqrt (ofNat total_player_count)                     --   math.sqrt(total_player_count)
      * beta                                            --   * self.beta
      * PhiInv ((ofNat 1 + draw_probability) / ofNat 2) --   * phi_major_inverse((1 + draw_probability) / 2))
  let pairwise_probabilities : List α :=                -- pairwise_probabilities = []
    (permutations2 teams).foldl                         -- for pair_a, pair_b in itertools.permutations(teams, 2):
      (fun pairwise_probabilities ab =>
        let pair_a := ab.1
        let pair_b := ab.2
        let pair_a_subset := calcTeamRatingsNoRanks [pair_a]    -- pair_a_subset = self._calculate_team_ratings([pair_a])
        let pair_b_subset := calcTeamRatingsNoRanks [pair_b]    -- pair_b_subset = self._calculate_team_ratings([pair_b])
        let mu_a := (pair_a_subset.getD 0 TeamAgg.dflt).mu      -- mu_a = pair_a_subset[0].mu
        let sigma_a := (pair_a_subset.getD 0 TeamAgg.dflt).sig2 -- sigma_a = pair_a_subset[0].sigma_squared
        let mu_b := (pair_b_subset.getD 0 TeamAgg.dflt).mu      -- mu_b = pair_b_subset[0].mu
        let sigma_b := (pair_b_subset.getD 0 TeamAgg.dflt).sig2 -- sigma_b = pair_b_subset[0].sigma_squared
        pairwise_probabilities ++                               -- pairwise_probabilities.append(
          [Phi ((mu_a - mu_b - draw_margin)                     --   phi_major((mu_a - mu_b - draw_margin)
                / sqrt (ofNat n * (beta * beta) + sigma_a + sigma_b))]) --     / math.sqrt(n * self.beta**2 + sigma_a + sigma_b)))
      []
  let win_probability : List α :=                       -- win_probability = [
    (zipLongestIter (n - 1) pairwise_probabilities).map --   … for team_prob in itertools.zip_longest(*[iter(pairwise_probabilities)] * (n - 1))]
      (fun team_prob => sumTuple team_prob / denom)     --   (sum(team_prob) / denom)
  let ranked_probability := win_probability.map (fun x => sabs x)   -- ranked_probability = [abs(_) for _ in win_probability]
  let ranks : List Nat := rankDataCode ranked_probability           -- ranks = list(_rank_data(ranked_probability))
  let max_ordinal : Nat := pyMaxNat ranks                           -- max_ordinal = max(ranks)
  let ranks : List Nat :=                                           -- ranks = [abs(_ - max_ordinal) + 1 for _ in ranks]
    ranks.map (fun (x : Nat) => (Int.ofNat x - Int.ofNat max_ordinal).natAbs + 1)
  let predictions := ranks.zip ranked_probability       -- predictions = list(zip(ranks, ranked_probability))
  predictions                                           -- return predictions

/-! ### `_unwind` -/

/-- `_matrix_transpose(matrix)` = `[list(row) for row in zip(*matrix)]` for a matrix whose rows all have
    exactly two entries (`[tenet[i], [x, i]]`), a row being a pair here.  `zip(*matrix)` of `m ≥ 1` rows
    of length 2 yields two tuples (the first entries, the second entries); `zip()` of no rows yields
    nothing, and the result is the empty list (`none`). -/
def matrixTranspose2 {κ γ : Type} (matrix : List (κ × γ)) : Option (List κ × List γ) :=
  match matrix with
  | [] => none
  | row :: rows => some ((row :: rows).map (·.1), (row :: rows).map (·.2))

/-- `_unwind(tenet, objects)` for a list `objects` (the `isinstance(objects, list)` branch), literally.
    The read `tenet[i]` is `tenet[i]?`: when `tenet` is SHORTER than `objects` Python raises
    `IndexError` at the first missing entry; here the rows from that entry on are dropped (so that the
    function is total); when `tenet` is longer the surplus entries are never read.  `le a b` is
    `not (b < a)` on the keys, the only comparison `list.sort` makes; `list.sort(key=…)` is stable and so
    is `List.mergeSort`. -/
def unwindCode {κ β : Type} (le : κ → κ → Bool) (tenet : List κ) (objects : List β) :
    List β × List Nat :=
  let objects_to_sort := objects
  let matrix : List (κ × (β × Nat)) :=                  -- matrix = [[tenet[i], [x, i]] for i, x in enumerate(objects_to_sort)]
    objects_to_sort.zipIdx.filterMap (fun xi => (tenet[xi.2]?).map (fun t => (t, (xi.1, xi.2))))
  let unsorted_matrix := matrixTranspose2 matrix        -- unsorted_matrix = _matrix_transpose(matrix)
  match unsorted_matrix with
  | some unsorted_matrix =>                             -- if unsorted_matrix:
    let zipped_matrix := unsorted_matrix.1.zip unsorted_matrix.2   -- zipped_matrix = list(zip(unsorted_matrix[0], unsorted_matrix[1]))
    let _pick_zeroth_index := fun (item : κ × (β × Nat)) => item.1 -- def _pick_zeroth_index(item): return item[0]
    let zipped_matrix := zipped_matrix.mergeSort                   -- zipped_matrix.sort(key=_pick_zeroth_index)
      (fun a b => le (_pick_zeroth_index a) (_pick_zeroth_index b))
    let sorted_matrix := zipped_matrix.map (fun p => p.2)          -- sorted_matrix = [x for _, x in zipped_matrix]
    (sorted_matrix.map (fun p => p.1), sorted_matrix.map (fun p => p.2))
                                                        -- return [x for x, _ in sorted_matrix], [x for _, x in sorted_matrix]
  | none => ([], [])                                    -- else: return [], []

end OS
