import OSProofs.Props.C05
import OSProofs.Props.C05b
#print axioms OS.C05_same_direction
#print axioms OS.C05_btPair_win_nonneg
#print axioms OS.C05_btPair_loss_nonpos
#print axioms OS.C05_btPair_loss_le_draw_le_win
#print axioms OS.C05_tmPair_sign
#print axioms OS.C05_sole_first
#print axioms OS.C05_sole_last
#print axioms OS.C05_sole_first_members
#print axioms OS.C05_sole_last_members
#print axioms OS.C05_compute_sole_first
#print axioms OS.C05_compute_sole_last
#print axioms OS.C05_two_team_chain
#print axioms OS.C05_two_team_draw_BT_PL
#print axioms OS.C05_two_team_draw_BT_PL_strict
#print axioms OS.C05_two_team_draw_TM
#print axioms OS.C05_identical_teams_BTF
#print axioms OS.C05_identical_teams_TMF
