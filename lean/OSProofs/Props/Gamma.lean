import OSProofs.GammaLemmas
import OSProofs.GammaRealLemmas
import OSProofs.Props.C01
import OSProofs.Props.C06
import OSProofs.Props.C16b
import OSProofs.Props.C04b
import OSProofs.Props.C20b
import Mathlib.Tactic.NormNum
/-!
# Gamma — every gamma callback, not only the tagged family

The library's models take a constructor argument `gamma`, a callback
`gamma(c, k, mu, sigma_squared, team, rank) -> float`.  In the model this is `GammaFn α`: six tagged
members (default `√σ²/c`, constant, `1/k`, `1/(rank+1)`, `σ²/c²`, zero) and `.fn f`, ANY pure
function of the six arguments (`team` = the players of the team with their tau-inflated values).

Every theorem of the development that is stated for `g : GammaFn _` or `P : Params _` therefore
quantifies over arbitrary callbacks.  Most need no hypothesis on gamma at all (C01 refinement, C02,
C03, C05 signs, C07 antisymmetry of Ω, C08 guards, …).  The ones that do need a property of the
callback name it as a predicate:

| property                          | predicate          | used by                              |
|-----------------------------------|--------------------|--------------------------------------|
| `0 ≤ gamma` when `c, σ² ≥ 0`      | `GammaOK`          | C06 (sigma bounds), C06b             |
| pure number (change of unit)      | `GammaScaleInv`    | C16 `…_scale`                        |
| change of origin                  | `GammaShiftInv`    | C16 `…_shift` (game level)           |
| does not read the team `mu`       | `GammaMuFree`      | C16 pair-level `…Pair_shift`         |
| order of the players              | `GammaPermInv`     | C04b `…playerPerm…`                  |
| `id` fields of the players        | `GammaIdInv`       | C20 `…reid…`, `…rebuilt`, `setIds`   |

This file proves that the six tagged members and the team-reading callback `gammaTeamSigma`
(`lambda c,k,mu,s2,team,rank: sqrt(sum(p.sigma*p.sigma for p in team))/c`, gamma tag `"T"` of the
driver) satisfy all of them, spells the predicates out for `.fn f`, and restates the main theorems for
an arbitrary function `f`.
-/
noncomputable section
namespace OS
open Scalar

/-! ## the tagged members satisfy every predicate -/

/-- **Non-negativity.**  Every tagged member is non-negative whenever `c ≥ 0` and `σ² ≥ 0` (a
constant one: iff its constant is). -/
theorem Gamma_tagged_nonneg (g : GammaFn ℝ) (ht : g.Tagged) (hc : ∀ x, g = .const x → 0 ≤ x) :
    GammaOK g :=
  gammaOK_of_tag g ht hc

/-- **Change of unit.**  Every tagged member is a pure number. -/
theorem Gamma_tagged_scaleInv (g : GammaFn ℝ) (ht : g.Tagged) : GammaScaleInv g :=
  gam_tagged_scaleInv ht

/-- **Change of origin.**  No tagged member reads a `mu`. -/
theorem Gamma_tagged_shiftInv (g : GammaFn ℝ) (ht : g.Tagged) : GammaShiftInv g ∧ GammaMuFree g :=
  ⟨gam_tagged_shiftInv ht, gam_tagged_muFree ht⟩

/-- **Players.**  No tagged member reads the players: neither their order nor their ids matter (any
scalar type). -/
theorem Gamma_tagged_players {α : Type} [Scalar α] (g : GammaFn α) (ht : g.Tagged) :
    GammaPermInv g ∧ GammaIdInv g :=
  ⟨gam_tagged_permInv ht, gam_tagged_idInv ht⟩

/-- the tagged members are exactly the six constructors other than `.fn` -/
theorem Gamma_tagged_iff {α : Type} (g : GammaFn α) :
    g.Tagged ↔ g = .dflt ∨ (∃ x, g = .const x) ∨ g = .invK ∨ g = .rankDep ∨ g = .sq ∨ g = .zero := by
  cases g <;> simp [GammaFn.Tagged]

/-! ## the team-reading callback "T" satisfies every predicate -/

/-- **The team-reading callback** `√(Σ_team σ²)/c` is non-negative for `c ≥ 0`, a pure number,
independent of the origin, of the order of the players and of their ids. -/
theorem Gamma_teamSigma_all :
    GammaOK gammaTeamSigma ∧ GammaScaleInv gammaTeamSigma ∧ GammaShiftInv gammaTeamSigma
      ∧ GammaMuFree gammaTeamSigma ∧ GammaPermInv (gammaTeamSigma : GammaFn ℝ)
      ∧ GammaIdInv (gammaTeamSigma : GammaFn ℝ) :=
  ⟨gam_teamSigma_gammaOK, gam_teamSigma_scaleInv, gam_teamSigma_shiftInv, gam_teamSigma_muFree,
    gam_teamSigma_permInv, gam_teamSigma_idInv⟩

/-- **With the team-reading callback `rate` returns exactly what it returns with the default
callback** — for every scalar type, hence bit for bit at `Float`: the `sigma_squared` the library
hands over is the very left-to-right sum the callback recomputes from `team`. -/
theorem Gamma_teamSigma_rate {α ρ : Type} [Scalar α] (K : Kind) (L : Leaves α) (P : Params α)
    (le : ρ → ρ → Bool) (neg : ρ → ρ) (teams : List (List (Rating α))) (oc : Outcome ρ)
    (o : CallOpts α) :
    rate K L { P with gamma := gammaTeamSigma } le neg teams oc o
      = rate K L { P with gamma := .dflt } le neg teams oc o :=
  gam_rate_teamSigma K L P le neg teams oc o

/-! ## the predicates, spelled out for an arbitrary function -/

section fn
variable (f : ℝ → ℕ → ℝ → ℝ → List (Rating ℝ) → ℕ → ℝ)

theorem Gamma_fn_val (c : ℝ) (k : ℕ) (mu s2 : ℝ) (team : List (Rating ℝ)) (rank : ℕ) :
    gammaVal (.fn f) c k mu s2 team rank = f c k mu s2 team rank := rfl

theorem Gamma_fn_nonneg :
    GammaOK (.fn f) ↔ ∀ c k mu s2 team r, 0 ≤ c → 0 ≤ s2 → 0 ≤ f c k mu s2 team r := Iff.rfl

theorem Gamma_fn_scaleInv :
    GammaScaleInv (.fn f) ↔ ∀ k : ℝ, 0 < k → ∀ c n mu s2 (team : List (Rating ℝ)) r,
      f (k * c) n (k * mu) (k ^ 2 * s2)
          (team.map (fun p => { p with mu := k * p.mu, sigma := k * p.sigma })) r
        = f c n mu s2 team r := Iff.rfl

theorem Gamma_fn_shiftInv :
    GammaShiftInv (.fn f) ↔ ∀ d c n mu s2 (team : List (Rating ℝ)) r,
      f c n (mu + team.length * d) s2 (team.map (fun p => { p with mu := p.mu + d })) r
        = f c n mu s2 team r := Iff.rfl

theorem Gamma_fn_permInv :
    GammaPermInv (.fn f) ↔ ∀ c k mu s2 (team team' : List (Rating ℝ)) r, team.Perm team' →
      f c k mu s2 team r = f c k mu s2 team' r := Iff.rfl

theorem Gamma_fn_idInv :
    GammaIdInv (.fn f) ↔ ∀ (h : ℕ → ℕ) c k mu s2 (team : List (Rating ℝ)) r,
      f c k mu s2 (team.map (fun p => { p with id := h p.id })) r = f c k mu s2 team r := Iff.rfl

end fn

/-! ## the main theorems for an arbitrary function -/

/-- **C01 for any callback.**  Whatever pure function `f` is passed as `gamma`, `_compute` returns
the published posterior in which `γ_i` (resp. `γ_iq`) is `f(c, n, μ_i, σ_i², team_i, rank_i)` —
`team_i` the players of team `i` as `_compute` received them. -/
theorem C01_compute_any_gamma (f : ℝ → ℕ → ℝ → ℝ → List (Rating ℝ) → ℕ → ℝ)
    (K : Kind) (L : Leaves ℝ) (β κ τ : ℝ) (ls : Bool) (teams : List (List (Rating ℝ)))
    (dense : List ℕ) :
    compute K L ⟨β, κ, τ, ls, .fn f⟩ teams dense
        = specCompute K L ⟨β, κ, τ, ls, .fn f⟩ (teamAggs teams dense)
    ∧ ∀ (ts : List (TeamAgg ℝ)) (c : ℝ) (i : Fin ts.length),
        gammaOf (.fn f) ts c i = f c ts.length ts[i].mu ts[i].sig2 ts[i].players ts[i].rank :=
  ⟨C01_compute K L _ teams dense, fun _ _ _ => rfl⟩

/-- the `(Ω, Δ)` level, any callback -/
theorem C01_omegaDelta_any_gamma (g : GammaFn ℝ) (K : Kind) (L : Leaves ℝ) (β κ τ : ℝ) (ls : Bool)
    (ts : List (TeamAgg ℝ)) :
    omegaDelta K L ⟨β, κ, τ, ls, g⟩ ts = List.ofFn (specOmegaDelta K L ⟨β, κ, τ, ls, g⟩ ts) :=
  C01_omegaDelta K L _ ts

/-- **C06 for any non-negative callback.**  If `f ≥ 0` whenever `c ≥ 0` and `σ² ≥ 0`, then with
`gamma = f`, `0 < κ ≤ 1` (and the leaf facts for the Thurstone–Mosteller models) every slot of
`rate` satisfies the sigma bounds of C06: same id, `σ' ≤ √(σ² + τ²)`, positivity, and `σ' ≤ σ`
under `limit_sigma`. -/
theorem C06_any_gamma {ρ : Type} (f : ℝ → ℕ → ℝ → ℝ → List (Rating ℝ) → ℕ → ℝ)
    (hf : ∀ c k mu s2 team r, 0 ≤ c → 0 ≤ s2 → 0 ≤ f c k mu s2 team r)
    (K : Kind) (L : Leaves ℝ) (β κ τ : ℝ) (ls : Bool)
    (le : ρ → ρ → Bool) (neg : ρ → ρ) (teams : List (List (Rating ℝ))) (oc : Outcome ρ)
    (o : CallOpts ℝ) (hL : K = .TMF ∨ K = .TMP → LeafFacts L) (hk0 : 0 < κ) (hk1 : κ ≤ 1)
    (hr : ∀ r, (oc = .ranks r ∨ oc = .scores r) → r.length = teams.length) :
    List.Forall₂ (List.Forall₂
        (SlotC06 (resolveTau ⟨β, κ, τ, ls, .fn f⟩ o) (resolveLimit ⟨β, κ, τ, ls, .fn f⟩ o)))
      teams (rate K L ⟨β, κ, τ, ls, .fn f⟩ le neg teams oc o) :=
  C06_rate K L ⟨β, κ, τ, ls, .fn f⟩ le neg teams oc o hL hk0 hk1 hf hr

/-- **δ ≥ 0 for any non-negative callback** (all five models) -/
theorem C06_delta_nonneg_any_gamma (f : ℝ → ℕ → ℝ → ℝ → List (Rating ℝ) → ℕ → ℝ)
    (hf : ∀ c k mu s2 team r, 0 ≤ c → 0 ≤ s2 → 0 ≤ f c k mu s2 team r)
    (K : Kind) (L : Leaves ℝ) (β κ τ : ℝ) (ls : Bool)
    (hL : K = .TMF ∨ K = .TMP → LeafFacts L) (hk0 : 0 < κ)
    (ts : List (TeamAgg ℝ)) (hts : ∀ t ∈ ts, 0 ≤ t.sig2) :
    ∀ od ∈ omegaDelta K L ⟨β, κ, τ, ls, .fn f⟩ ts, 0 ≤ od.2 :=
  delta_nonneg K L ⟨β, κ, τ, ls, .fn f⟩ hL hk0 hf ts hts

/-- **C16 (change of unit) for any callback that is a pure number** — Plackett–Luce and both
Bradley–Terry models -/
theorem C16_scale_any_gamma {ρ : Type} (P : Params ℝ) (hg : GammaScaleInv P.gamma)
    (K : Kind) (hK : K = .PL ∨ K = .BTF ∨ K = .BTP) (L : Leaves ℝ) (k : ℝ) (hk : 0 < k)
    (le : ρ → ρ → Bool) (neg : ρ → ρ) (teams : List (List (Rating ℝ))) (oc : Outcome ρ)
    (o : CallOpts ℝ) :
    rate K L (scaleParams k P) le neg (scaleTeams k teams) oc (scaleOpts k o)
      = scaleTeams k (rate K L P le neg teams oc o) :=
  C16_rate_scale K hK L k hk P hg le neg teams oc o

/-- **C16 (change of origin) for any shift-invariant callback** — all five models, teams of equal
size -/
theorem C16_shift_any_gamma {ρ : Type} (P : Params ℝ) (hg : GammaShiftInv P.gamma)
    (K : Kind) (L : Leaves ℝ) (d : ℝ) (m : ℕ)
    (le : ρ → ρ → Bool) (neg : ρ → ρ) (teams : List (List (Rating ℝ)))
    (hm : ∀ t ∈ teams, t.length = m) (oc : Outcome ρ) (o : CallOpts ℝ) :
    rate K L P le neg (shiftTeams d teams) oc o = shiftTeams d (rate K L P le neg teams oc o) :=
  C16_rate_shift K L d m P hg le neg teams hm oc o

/-- **C04 (players in another order) for any callback that does not depend on the order of the
players** — all five models -/
theorem C04_playerPerm_any_gamma {ρ : Type} (P : Params ℝ) (hg : GammaPermInv P.gamma)
    (K : Kind) (L : Leaves ℝ) (le : ρ → ρ → Bool) (neg : ρ → ρ)
    {teams teams' : List (List (Rating ℝ))} (h : List.Forall₂ List.Perm teams teams')
    (oc : Outcome ρ) (o : CallOpts ℝ) (hoc : oc.fits teams.length) :
    List.Forall₂ List.Perm (rate K L P le neg teams oc o) (rate K L P le neg teams' oc o) :=
  C04b_rate_playerPerm K L P hg le neg h oc o hoc

/-- **C20 (rebuilt players) for any callback that does not read the ids** — all five models, any
scalar type -/
theorem C20_reid_any_gamma {α ρ : Type} [Scalar α] (P : Params α) (hg : GammaIdInv P.gamma)
    (h : ℕ → ℕ) (K : Kind) (L : Leaves α) (le : ρ → ρ → Bool) (neg : ρ → ρ)
    (teams : List (List (Rating α))) (oc : Outcome ρ) (o : CallOpts α) :
    rate K L P le neg (reid h teams) oc o = reid h (rate K L P le neg teams oc o) :=
  C20_rate_reid h K L P hg le neg teams oc o

/-! ## the hypotheses are satisfiable, and not vacuous -/

/-- all six predicates at once for the default callback and for "T" -/
example : (GammaOK (.dflt : GammaFn ℝ) ∧ GammaScaleInv .dflt ∧ GammaShiftInv .dflt
      ∧ GammaPermInv (.dflt : GammaFn ℝ) ∧ GammaIdInv (.dflt : GammaFn ℝ))
    ∧ (GammaOK gammaTeamSigma ∧ GammaScaleInv gammaTeamSigma ∧ GammaShiftInv gammaTeamSigma
      ∧ GammaPermInv (gammaTeamSigma : GammaFn ℝ) ∧ GammaIdInv (gammaTeamSigma : GammaFn ℝ)) :=
  ⟨⟨Gamma_tagged_nonneg _ trivial (by intro x h; cases h), Gamma_tagged_scaleInv _ trivial,
      (Gamma_tagged_shiftInv .dflt trivial).1, (Gamma_tagged_players .dflt trivial).1,
      (Gamma_tagged_players .dflt trivial).2⟩,
    ⟨Gamma_teamSigma_all.1, Gamma_teamSigma_all.2.1, Gamma_teamSigma_all.2.2.1,
      Gamma_teamSigma_all.2.2.2.2.1, Gamma_teamSigma_all.2.2.2.2.2⟩⟩

/-- a genuinely team-reading callback other than "T": "number of players of the team over the number
of teams" — non-negative, a pure number, origin-free, order-free, id-free -/
example : let g : GammaFn ℝ := .fn (fun _ k _ _ team _ => (team.length : ℝ) / k)
    GammaOK g ∧ GammaScaleInv g ∧ GammaShiftInv g ∧ GammaPermInv g ∧ GammaIdInv g := by
  refine ⟨?_, ?_, ?_, ?_, ?_⟩
  · intro c k mu s2 team r _ _
    simp only [gam_gammaVal_fn]; positivity
  · intro k _ c n mu s2 team r
    simp only [gam_gammaVal_fn, List.length_map]
  · intro d c n mu s2 team r
    simp only [gam_gammaVal_fn, List.length_map]
  · intro c k mu s2 team team' r h
    simp only [gam_gammaVal_fn, h.length_eq]
  · intro h c k mu s2 team r
    simp only [gam_gammaVal_fn, List.length_map]

/-- the predicates are real restrictions: a callback that returns `c` is not a pure number -/
example : ¬ GammaScaleInv (.fn (fun c _ _ _ _ _ => c) : GammaFn ℝ) := by
  intro h
  have := h 2 (by norm_num) 1 0 0 0 [] 0
  simp only [gam_gammaVal_fn] at this
  norm_num at this

/-- … one that returns the team `mu` depends on the origin -/
example : ¬ GammaShiftInv (.fn (fun _ _ mu _ _ _ => mu) : GammaFn ℝ) := by
  intro h
  have := h 1 0 0 0 0 [⟨0, 0, 0⟩] 0
  simp only [gam_gammaVal_fn, List.length_cons, List.length_nil] at this
  norm_num at this

/-- … one that returns the first player's sigma depends on the order of the players -/
example : ¬ GammaPermInv (.fn (fun _ _ _ _ team _ => (team.head?.map (·.sigma)).getD 0) : GammaFn ℝ) := by
  intro h
  have := h 0 0 0 0 [⟨0, 0, 1⟩, ⟨1, 0, 2⟩] [⟨1, 0, 2⟩, ⟨0, 0, 1⟩] 0 (List.Perm.swap _ _ _)
  simp only [gam_gammaVal_fn, List.head?_cons, Option.map_some, Option.getD_some] at this
  norm_num at this

/-- … one that returns an id depends on the ids -/
example : ¬ GammaIdInv (.fn (fun _ _ _ _ team _ => ((team.map (·.id)).sum : ℝ)) : GammaFn ℝ) := by
  intro h
  have := h (fun _ => 1) 0 0 0 0 [⟨0, 0, 0⟩] 0
  simp only [gam_gammaVal_fn, List.map_cons, List.map_nil, List.sum_cons, List.sum_nil] at this
  norm_num at this

/-- … and one that returns `-1` is not admissible for C06 -/
example : ¬ GammaOK (.fn (fun _ _ _ _ _ _ => -1) : GammaFn ℝ) := by
  intro h
  have := h 0 0 0 0 [] 0 le_rfl le_rfl
  simp only [gam_gammaVal_fn] at this
  norm_num at this

end OS
end
