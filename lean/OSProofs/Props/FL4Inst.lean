import OSProofs.Props.FL4
import OSProofs.Props.FL1Inst
import OSProofs.Props.C06b

/-!
# FL4 — the league theorems and `_rank_data` instantiated at ℝ and at every rounded arithmetic `RN r`

* over ℝ the hypothesis `FLLeagueOK` follows from conditions on the input only (`FL_gameOK_real`,
  `FL_leagueOK_real`): well-formed games with at least one team and no empty team, every player starting with
  `σ > 0`, `0 < κ ≤ 1`, a non-negative gamma, the leaf facts for Thurstone–Mosteller games;
  `FL_C06_league_limit_real` is `FL_C06_league_limit` with that hypothesis discharged, and a concrete
  two-game history is given as an `example`;
* over `RN r` (exact result, then an arbitrary monotone rounding `r`): `FL_C06_league_limit_rn`,
  `FL_C06_league_nonneg_rn`, `FL_C06_league_step_bound_rn`; `FLGameOK` for a Bradley–Terry game with the default
  gamma reduces to `κ ≤ 1`, well-formedness and positive rounded variances (`FL_gameOK_rn_BT`);
* `_rank_data` / `predict_rank`: `rankDataCode_eq_rn`, and `predictRankLoop_eq_rn` WITHOUT any hypothesis —
  in `RN r`, `0 + a` is `rnd a = a` for a representable `a`, so `FirstPlayerZeroAdd` holds for every team.
-/

noncomputable section
namespace OS
open Scalar
variable {ρ : Type}

/-! ### ℝ -/

theorem fl4_ranksOf_length (neg : ρ → ρ) (oc : Outcome ρ) (n : Nat) (hf : oc.fits n) :
    ∀ r, fl4_ranksOf neg oc = some r → r.length = n := by
  intro r h
  cases oc with
  | omitted => cases h
  | ranks r' => cases h; exact hf
  | scores s' => cases h; rw [List.length_map]; exact hf

/-- **Over ℝ, `FLGameOK` follows from conditions on the input**: a well-formed game with at least one team and
no empty team, every participant stored with `σ > 0`, `κ ≤ 1`, non-negative gamma (non-negative leaves for a
Thurstone–Mosteller game). -/
theorem FL_gameOK_real (L : Leaves ℝ) (P : Params ℝ) (le : ρ → ρ → Bool) (neg : ρ → ρ)
    (s : Store ℝ) (g : LeagueGame ℝ ρ)
    (hL : g.kind = .TMF ∨ g.kind = .TMP → LeavesNonneg L) (hk : P.kappa ≤ 1)
    (hg : GammaNonneg P.gamma) (hwf : g.WF) (hne : g.teams ≠ []) (hT : ∀ T ∈ g.teams, T ≠ [])
    (hs : ∀ p, g.plays p → 0 < s.sigma p) : FLGameOK L P le neg s g := by
  have hne' : loadTeams s g ≠ [] := by
    intro h; apply hne
    have := congrArg List.length h
    rw [lg_loadTeams_length] at this
    exact List.eq_nil_of_length_eq_zero (by simpa using this)
  have hT' : ∀ T ∈ loadTeams s g, T ≠ [] := by
    intro T hTm
    obtain ⟨T₀, hT₀, rfl⟩ := List.mem_map.1 hTm
    intro h; exact hT T₀ hT₀ (List.map_eq_nil_iff.1 h)
  have hs' : ∀ T ∈ loadTeams s g, ∀ p ∈ T, (0 : ℝ) < p.sigma := by
    intro T hTm p hp
    obtain ⟨T₀, hT₀, rfl⟩ := List.mem_map.1 hTm
    obtain ⟨q, hq, rfl⟩ := List.mem_map.1 hp
    exact hs q (List.mem_flatten.2 ⟨T₀, hT₀, hq⟩)
  have hv := fl1_real_infl_var_pos (resolveTau P g.opts) (loadTeams s g) hT' hs'
  have hr : ∀ r, fl4_ranksOf neg g.outcome = some r → r.length = (loadTeams s g).length := by
    rw [lg_loadTeams_length]; exact fl4_ranksOf_length neg g.outcome _ hwf.2
  refine ⟨hL, hv, by simpa using hk, hg, ?_, hwf⟩
  apply FL_divisorsPosRest_real g.kind P _ (fl1_rateAggs_ne_nil P le _ _ g.opts hne' hr)
  intro t ht
  obtain ⟨S, hS, d, rfl⟩ := fl1_rateAggs_mem P le _ _ g.opts t ht
  simpa [fl1_teamAgg_sig2] using hv S hS

theorem fl4_gammaNonneg_of_OK {g : GammaFn ℝ} (h : GammaOK g) : GammaNonneg g := by
  intro c k mu s2 team rank hc hs _
  have hc' : (0 : ℝ) ≤ c := by have : (0 : ℝ) < c := by simpa using hc
                               exact this.le
  simpa using h c k mu s2 team rank hc' (by simpa using hs)

/-- **Over ℝ, `FLLeagueOK` follows from conditions on the input**: every game well-formed with at least one
team and no empty team, every player starting with `σ > 0`, `0 < κ ≤ 1`, gamma non-negative (`GammaOK`), and
for Thurstone–Mosteller games the leaf facts.  (Positivity of the stored sigmas is kept by every game:
`C06_playGame_slot`.) -/
theorem FL_leagueOK_real (L : Leaves ℝ) (P : Params ℝ) (le : ρ → ρ → Bool) (neg : ρ → ρ)
    (s : Store ℝ) (gs : List (LeagueGame ℝ ρ))
    (hL : ∀ g ∈ gs, g.kind = .TMF ∨ g.kind = .TMP → LeafFacts L ∧ LeavesNonneg L)
    (hk0 : 0 < P.kappa) (hk1 : P.kappa ≤ 1) (hg : GammaOK P.gamma)
    (hwf : ∀ g ∈ gs, g.WF ∧ g.teams ≠ [] ∧ ∀ T ∈ g.teams, T ≠ [])
    (hs : ∀ p, 0 < s.sigma p) : FLLeagueOK L P le neg s gs := by
  induction gs generalizing s with
  | nil => trivial
  | cons g gs ih =>
    obtain ⟨hw, hne, hT⟩ := hwf g List.mem_cons_self
    refine ⟨FL_gameOK_real L P le neg s g (fun h => (hL g List.mem_cons_self h).2) hk1
      (fl4_gammaNonneg_of_OK hg) hw hne hT (fun p _ => hs p), ?_⟩
    apply ih _ (fun g' h => hL g' (List.mem_cons_of_mem _ h))
      (fun g' h => hwf g' (List.mem_cons_of_mem _ h))
    intro p
    obtain ⟨hin, hout⟩ := C06_playGame_slot L P le neg s g
      (fun h => (hL g List.mem_cons_self h).1) hk0 hk1 hg hw p
    by_cases hpl : g.plays p
    · exact (hin hpl).2.1 (hs p)
    · rw [(hout hpl).2]; exact hs p

/-- **C06 along a league over ℝ through the `MonoArith` route, hypotheses on the input only.** -/
theorem FL_C06_league_limit_real (L : Leaves ℝ) (P : Params ℝ) (le : ρ → ρ → Bool) (neg : ρ → ρ)
    (s : Store ℝ) (gs : List (LeagueGame ℝ ρ))
    (hL : ∀ g ∈ gs, g.kind = .TMF ∨ g.kind = .TMP → LeafFacts L ∧ LeavesNonneg L)
    (hk0 : 0 < P.kappa) (hk1 : P.kappa ≤ 1) (hg : GammaOK P.gamma)
    (hwf : ∀ g ∈ gs, g.WF ∧ g.teams ≠ [] ∧ ∀ T ∈ g.teams, T ≠ [])
    (hs : ∀ p, 0 < s.sigma p)
    (p : Nat) (hlim : ∀ g ∈ gs, g.plays p → resolveLimit P g.opts = true)
    (k l : Nat) (hkl : k ≤ l) :
    (playLeague L P le neg s (gs.take l)).sigma p ≤ (playLeague L P le neg s (gs.take k)).sigma p :=
  FL_C06_league_limit MonoArith.real L P le neg s gs
    (FL_leagueOK_real L P le neg s gs hL hk0 hk1 hg hwf hs) p hlim k l hkl

/-- `FLLeagueOK` is satisfiable: the two-game, three-player history of `C06b` (a 2-vs-1 Plackett–Luce game
with ranks, then a Thurstone–Mosteller free-for-all with scores, its own tau and limit_sigma), library
defaults, every player starting at `σ = 25/3` -/
example :
    FLLeagueOK ⟨fun x t => |t - x|, fun _ _ => 0, fun x _ => -x, fun _ _ => 0⟩
      ⟨25 / 6, 1 / 10000, 25 / 300, false, .dflt⟩ leNat (fun n => 10 - n)
      ⟨fun _ => 25, fun _ => 25 / 3⟩
      ([⟨.PL, [[0, 1], [2]], .ranks [1, 2], ⟨none, none⟩⟩,
        ⟨.TMF, [[2], [0], [1]], .scores [3, 1, 2], ⟨some (1 / 10), some true⟩⟩] :
          List (LeagueGame ℝ Nat)) := by
  apply FL_leagueOK_real
  · intro _ _ _
    exact ⟨{ v_nonneg := fun x t => abs_nonneg _, v_ge := fun x t => le_abs_self _,
             w_nonneg := fun _ _ => le_refl _, wt_nonneg := fun _ _ _ => le_refl _,
             vt_mem := fun x t ht => ⟨by linarith, by linarith⟩, vt_odd := fun x t _ => rfl },
           ⟨fun x t => by simp, fun _ _ => by simp, fun _ _ => by simp⟩⟩
  · norm_num
  · norm_num
  · exact gammaOK_of_tag _ trivial (by intro x h; cases h)
  · intro g hg
    simp only [List.mem_cons, List.not_mem_nil, or_false] at hg
    rcases hg with rfl | rfl
    · exact ⟨⟨by dsimp only; decide, by dsimp only; decide⟩, by simp, by simp⟩
    · exact ⟨⟨by dsimp only; decide, by dsimp only; decide⟩, by simp, by simp⟩
  · intro p; norm_num

/-! ### `RN r`: exact result, then an arbitrary monotone rounding -/

/-- **Sigma never increases along a league under limit_sigma, in every rounded arithmetic** — a statement
about the *rounded* numbers in the store. -/
theorem FL_C06_league_limit_rn (r : Rounding) (L : Leaves (RN r)) (P : Params (RN r))
    (le : ρ → ρ → Bool) (neg : ρ → ρ) (s : Store (RN r)) (gs : List (LeagueGame (RN r) ρ))
    (hok : FLLeagueOK L P le neg s gs)
    (p : Nat) (hlim : ∀ g ∈ gs, g.plays p → resolveLimit P g.opts = true)
    (k l : Nat) (hkl : k ≤ l) :
    (playLeague L P le neg s (gs.take l)).sigma p ≤ (playLeague L P le neg s (gs.take k)).sigma p :=
  FL_C06_league_limit (MonoArith.rn r) L P le neg s gs hok p hlim k l hkl

/-- a stored sigma that starts `≥ 0` stays `≥ 0`, in every rounded arithmetic -/
theorem FL_C06_league_nonneg_rn (r : Rounding) (L : Leaves (RN r)) (P : Params (RN r))
    (le : ρ → ρ → Bool) (neg : ρ → ρ) (s : Store (RN r)) (gs : List (LeagueGame (RN r) ρ))
    (hok : FLLeagueOK L P le neg s gs) (p : Nat) (hp : Scalar.ofNat 0 ≤ s.sigma p) (k : Nat) :
    Scalar.ofNat 0 ≤ (playLeague L P le neg s (gs.take k)).sigma p :=
  FL_C06_league_nonneg (MonoArith.rn r) L P le neg s gs hok p hp k

/-- the per-game bound in every rounded arithmetic (the accumulated real-number bound is not claimed) -/
theorem FL_C06_league_step_bound_rn (r : Rounding) (L : Leaves (RN r)) (P : Params (RN r))
    (le : ρ → ρ → Bool) (neg : ρ → ρ) (s : Store (RN r)) (gs : List (LeagueGame (RN r) ρ))
    (hok : FLLeagueOK L P le neg s gs) (k : Nat) (hk : k < gs.length) (p : Nat) (hp : gs[k].plays p) :
    (playLeague L P le neg s (gs.take (k + 1))).sigma p
      ≤ sqrt ((playLeague L P le neg s (gs.take k)).sigma p * (playLeague L P le neg s (gs.take k)).sigma p
          + resolveTau P gs[k].opts * resolveTau P gs[k].opts) :=
  FL_C06_league_step_bound (MonoArith.rn r) L P le neg s gs hok k hk p hp

/-- **`FLGameOK` for a Bradley–Terry game with the library's default gamma, in every rounded arithmetic**:
what is left to assume is `κ ≤ 1`, the well-formedness of the game, and that the (rounded) variances of the
loaded, inflated teams are `> 0`. -/
theorem FL_gameOK_rn_BT (r : Rounding) (L : Leaves (RN r)) (beta kappa tau : RN r) (lim : Bool)
    (le : ρ → ρ → Bool) (neg : ρ → ρ) (s : Store (RN r)) (g : LeagueGame (RN r) ρ)
    (hK : g.kind = .BTF ∨ g.kind = .BTP)
    (hv : ∀ T ∈ inflate (resolveTau ⟨beta, kappa, tau, lim, .dflt⟩ g.opts) (loadTeams s g),
      Scalar.ofNat 0 < sumL (T.map (fun p => p.sigma * p.sigma)))
    (hk : kappa ≤ Scalar.ofNat 1) (hwf : g.WF) :
    FLGameOK L ⟨beta, kappa, tau, lim, .dflt⟩ le neg s g := by
  refine ⟨fl1_not_TM_of_BT hK L, hv, hk,
    (MonoArith.rn r).fl1_gammaNonneg_of_tag _ (by intro x h; cases h) (by intro h; cases h)
      (by intro f h; cases h), ?_, hwf⟩
  rcases hK with h | h <;> rw [h] <;> trivial

/-- one Bradley–Terry game in the lossy arithmetic `truncRounding 10`, limit_sigma requested per call: no
participant's stored sigma goes up -/
example (L : Leaves (RN (truncRounding 10))) (beta kappa tau : RN (truncRounding 10))
    (s : Store (RN (truncRounding 10))) (teams : List (List Nat)) (hn : teams.flatten.Nodup)
    (hv : ∀ T ∈ inflate tau (loadTeams s
        (⟨.BTF, teams, .omitted, ⟨none, some true⟩⟩ : LeagueGame (RN (truncRounding 10)) Nat)),
      Scalar.ofNat 0 < sumL (T.map (fun p => p.sigma * p.sigma)))
    (hk : kappa ≤ Scalar.ofNat 1) (p : Nat) :
    (playLeague L ⟨beta, kappa, tau, false, .dflt⟩ leNat id s
        [⟨.BTF, teams, .omitted, ⟨none, some true⟩⟩]).sigma p ≤ s.sigma p := by
  apply FL_C06_league_limit_total (MonoArith.rn _)
  · exact ⟨FL_gameOK_rn_BT _ L beta kappa tau false leNat id s _ (Or.inl rfl) hv hk ⟨hn, trivial⟩,
      trivial⟩
  · intro g hg _
    simp only [List.mem_cons, List.not_mem_nil, or_false] at hg
    subst hg; rfl

/-! ### `_rank_data` and `predict_rank` -/

/-- `_rank_data` literal = closed form over ℝ, through the preorder route (same statement as
`rankDataCode_eq`) -/
example (v : List ℝ) : rankDataCode v = rankData v := rankDataCode_eq_mono MonoArith.real v

/-- **`_rank_data` literal = closed form in every rounded arithmetic** -/
theorem rankDataCode_eq_rn (r : Rounding) (v : List (RN r)) : rankDataCode v = rankData v :=
  rankDataCode_eq_mono (MonoArith.rn r) v

/-- in `RN r`, `0 + a = a` for every (representable) `a` -/
theorem fl4_rn_zero_add (r : Rounding) (a : RN r) : Scalar.ofNat 0 + a = a := by
  apply RN.ext
  show r.rnd (((0 : ℕ) : ℝ) + a.1) = a.1
  rw [Nat.cast_zero, zero_add, a.2]

/-- in `RN r` every team satisfies `FirstPlayerZeroAdd` -/
theorem fl4_firstPlayer_rn (r : Rounding) (team : List (Rating (RN r))) : FirstPlayerZeroAdd team :=
  fun _ _ => ⟨fl4_rn_zero_add r _, fl4_rn_zero_add r _⟩

/-- **In every rounded arithmetic the literal `predict_rank` IS the model's `predictRank`, for every input**
(no hypothesis left: `0 + a` rounds to `a`). -/
theorem predictRankLoop_eq_rn (r : Rounding) (beta : RN r) (teams : List (List (Rating (RN r)))) :
    predictRankLoop beta teams = predictRank beta teams :=
  predictRankLoop_eq_mono (MonoArith.rn r) beta teams (fun t _ => fl4_firstPlayer_rn r t)

/-- the hypotheses of `predictRankLoop_eq_mono` are satisfiable (every game over ℝ) -/
example (beta : ℝ) (teams : List (List (Rating ℝ))) :
    predictRankLoop beta teams = predictRank beta teams :=
  predictRankLoop_eq_mono MonoArith.real beta teams (fun t _ => pl2_firstPlayer_real t)

/-- a two-point scalar type in which `a ≤ b` always and `a < b` never -/
@[reducible] def fl4_flatScalar : Scalar Bool :=
  { add := fun a _ => a, sub := fun a _ => a, mul := fun a _ => a, div := fun a _ => a, neg := id,
    lt := fun _ _ => False, le := fun _ _ => True, ofNat := fun _ => false, sqrt := id, exp := id,
    Phi := id, phi := id, PhiInv := id,
    decLt := fun _ _ => isFalse id, decLe := fun _ _ => isTrue trivial }

/-- `OrderLaws` does not imply antisymmetry: in `fl4_flatScalar` the four laws hold, `false ≤ true ≤ false`,
and `false ≠ true`.  (`rankDataCode_eq_of_preorder` covers it: every entry gets rank 1.) -/
example : @OrderLaws Bool fl4_flatScalar ∧ fl4_flatScalar.le false true ∧ fl4_flatScalar.le true false
    ∧ false ≠ true :=
  ⟨@OrderLaws.mk Bool fl4_flatScalar (fun _ => trivial) (fun _ _ => trivial) (fun _ _ => Or.inl trivial)
    ⟨fun h => h.elim, fun h => (h trivial).elim⟩, trivial, trivial, by decide⟩

end OS
end
