import OSProofs.Props.C08b
/-!
# C08 — the discarded computations of the full-pairing models

`BradleyTerryFull._compute` and `ThurstoneMostellerFull._compute` also evaluate
`c = self._c(team_ratings)`, `sum_q = self._sum_q(team_ratings, c)` and `a = self._a(team_ratings)`
and then never use the results (text inherited from the Plackett–Luce file).  The model of these two
update rules omits the dead computation, but Python still executes it — `math.exp(team.mu / c)` can
raise `OverflowError` — so its guards belong to C08.  They are exactly the Plackett–Luce sites, which
hold for the same team list on the same domain.
-/
noncomputable section
namespace OS
open Grd

/-- the sites of the discarded `_c` / `_sum_q` / `_a` calls of the two full-pairing models are safe on
the domain: in particular `|θ_i / c| ≤ 453 < 709.78`, so the dead `math.exp` cannot overflow -/
theorem C08_full_models_discarded_sites (β : ℝ) (g : GammaFn ℝ) (hβ : 0 < β)
    (teams : List (List (Rating ℝ))) (I : Inflated β teams)
    (dense : List Nat) (hd : dense.length = teams.length) :
    plSites β g (teamAggs teams dense) :=
  C08_rate_guards_PL β g hβ teams I dense hd

end OS
end
