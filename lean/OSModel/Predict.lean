import OSModel.Team
/-
  predict_win / predict_draw / predict_rank  (identical text in all five model files)
  and models/common.py::_rank_data.
-/
namespace OS
open Scalar
variable {α : Type} [Scalar α]

/-- the order of `itertools.permutations(l, 2)` -/
def orderedPairs {β : Type} (l : List β) : List (β × β) :=
  l.zipIdx.flatMap (fun a => (l.zipIdx.filter (fun b => b.2 != a.2)).map (fun b => (a.1, b.1)))

/-- `zip_longest(*[iter(l)] * k)`: consecutive groups of `k` (the lengths that occur are
    multiples of `k`, so no padding arises) -/
def chunk {β : Type} (k : Nat) : List β → List (List β)
  | [] => []
  | x :: xs =>
    if k = 0 then [] else (x :: xs).take k :: chunk k ((x :: xs).drop k)
termination_by l => l.length
decreasing_by simp; omega

def playerCount {β : Type} (teams : List (List β)) : Nat :=
  (teams.map List.length).foldl (· + ·) 0

def aggs (teams : List (List (Rating α))) : List (TeamAgg α) := teams.map (fun t => teamAgg t 0)

def pairDenom (nb : Nat) (beta : α) (a b : TeamAgg α) : α :=
  sqrt (ofNat nb * (beta * beta) + a.sig2 + b.sig2)

def predictWin (beta : α) (teams : List (List (Rating α))) : List α :=
  let n := teams.length
  match aggs teams with
  | [a, b] =>
    let r := Phi ((a.mu - b.mu) / pairDenom (playerCount teams) beta a b)
    [r, ofNat 1 - r]
  | ts =>
    let denom : α := ofNat (n * (n - 1)) / ofNat 2
    let pw := (orderedPairs ts).map (fun ab =>
      Phi ((ab.1.mu - ab.2.mu) / pairDenom n beta ab.1 ab.2))
    (chunk (n - 1) pw).map (fun c => sumL c / denom)

def drawMargin (beta : α) (N : Nat) : α :=
  sqrt (ofNat N) * beta * PhiInv ((ofNat 1 + ofNat 1 / ofNat N) / ofNat 2)

def predictDraw (beta : α) (teams : List (List (Rating α))) : α :=
  let n := teams.length
  let m := drawMargin beta (playerCount teams)
  let ts := aggs teams
  let pw := (orderedPairs ts).map (fun ab =>
    let s := pairDenom n beta ab.1 ab.2
    Phi ((m - ab.1.mu + ab.2.mu) / s) - Phi ((ab.1.mu - ab.2.mu - m) / s))
  let denom : α := if n > 2 then ofNat (n * (n - 1)) else ofNat 1
  sabs (sumL pw) / denom

/-- `_rank_data` (competition ranking): 1 + number of strictly smaller entries.
    (Closed form of the sort-based loop in models/common.py; tied entries share the
    smallest rank of their group.) -/
def rankData (v : List α) : List Nat :=
  v.map (fun x => 1 + (v.filter (fun y => decide (y < x))).length)

def listMaxNat (l : List Nat) : Nat := l.foldl Nat.max 0

def predictRankProbs (beta : α) (teams : List (List (Rating α))) : List α :=
  let n := teams.length
  let m := drawMargin beta (playerCount teams)
  let ts := aggs teams
  let denom : α := ofNat (n * (n - 1)) / ofNat 2
  let pw := (orderedPairs ts).map (fun ab =>
    Phi ((ab.1.mu - ab.2.mu - m) / pairDenom n beta ab.1 ab.2))
  ((chunk (n - 1) pw).map (fun c => sumL c / denom)).map sabs

def predictRank (beta : α) (teams : List (List (Rating α))) : List (Nat × α) :=
  let probs := predictRankProbs beta teams
  let r := rankData probs
  let mx := listMaxNat r
  (r.map (fun x => (mx - x) + 1)).zip probs

end OS
