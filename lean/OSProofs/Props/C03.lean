import OSModel
import OSProofs.C03Lemmas
/-!
# C03 — outcomes are ordinal

`rate` looks at the rank (or score) values only through the comparison `le`: which value is
below which, and which compare equal.  The type of the values (int / float / bool / mixed) and
their magnitudes are irrelevant.

Everything is generic over the scalar type `α` (so it holds for the `Float` instance the driver
runs and for ℝ), over the model kind `K`, and over the type `ρ` of rank values with its Boolean
comparison `le`.

* `C03_scores`            scores are ranks after negation, nothing else
* `C03_relabel(_rate)`    an order-isomorphic re-labelling of the rank values changes nothing
* `C03_relabel_on`        same, the re-labelling only has to respect `le` on the values that occur
* `C03_pointwise(_rate)`  two rank lists (possibly of different types) whose entries compare the
                          same way position by position give the same result
* `C03_omitted(_encoded/_rate)`  omitting ranks = ranks `[0,1,…,n−1]` in any encoding
* `denseRanks_spec`, `C03_ties`, `C03_strict`  what the internal dense ranks are
* `sortedKeys_sorted`     the list handed to `denseRanks` is sorted, so the three above apply
-/
namespace OS
variable {α : Type} [Scalar α] {ρ ρ' : Type}

/-! ## 1. scores -/

/-- Passing `scores = s` is the same as passing `ranks = [−x for x in s]`. -/
theorem C03_scores (K : Kind) (L : Leaves α) (P : Params α) (le : ρ → ρ → Bool) (neg : ρ → ρ)
    (teams : List (List (Rating α))) (s : List ρ) (o : CallOpts α) :
    rate K L P le neg teams (.scores s) o = rate K L P le neg teams (.ranks (s.map neg)) o :=
  rfl

/-! ## 2. re-labelling -/

/-- Re-labelling the rank values by a map `f` that respects the comparison on the values that
    actually occur in `r` does not change the result. -/
theorem C03_relabel_on (K : Kind) (L : Leaves α) (P : Params α)
    (le : ρ → ρ → Bool) (le' : ρ' → ρ' → Bool) (f : ρ → ρ') (r : List ρ)
    (h : ∀ a ∈ r, ∀ b ∈ r, le' (f a) (f b) = le a b)
    (teams : List (List (Rating α))) (o : CallOpts α) :
    rateCore K L P le' teams (some (r.map f)) o = rateCore K L P le teams (some r) o := by
  unfold rateCore
  simp only []
  rw [unwind_map_key le le' f r _ h, sortedKeys_map le le' f r h,
    denseRanks_map (fun a b => !le b a) (fun a b => !le' b a) f (sortedKeys le r)]
  intro a ha b hb
  rw [mem_sortedKeys] at ha hb
  rw [h b hb a ha]

/-- **C03 (re-labelling).** If `f` is an order-isomorphic re-labelling of rank values
    (`le' (f a) (f b) = le a b` for all `a b`; every strictly increasing map between
    int / float / mixed values is one), then `ranks = [f x for x in r]` gives exactly the same
    ratings as `ranks = r`. -/
theorem C03_relabel (K : Kind) (L : Leaves α) (P : Params α)
    (le : ρ → ρ → Bool) (le' : ρ' → ρ' → Bool) (f : ρ → ρ')
    (h : ∀ a b, le' (f a) (f b) = le a b)
    (teams : List (List (Rating α))) (r : List ρ) (o : CallOpts α) :
    rateCore K L P le' teams (some (r.map f)) o = rateCore K L P le teams (some r) o :=
  C03_relabel_on K L P le le' f r (fun a _ b _ => h a b) teams o

/-- `C03_relabel` for the public entry point `rate`. -/
theorem C03_relabel_rate (K : Kind) (L : Leaves α) (P : Params α)
    (le : ρ → ρ → Bool) (le' : ρ' → ρ' → Bool) (neg : ρ → ρ) (neg' : ρ' → ρ') (f : ρ → ρ')
    (h : ∀ a b, le' (f a) (f b) = le a b)
    (teams : List (List (Rating α))) (r : List ρ) (o : CallOpts α) :
    rate K L P le' neg' teams (.ranks (r.map f)) o = rate K L P le neg teams (.ranks r) o :=
  C03_relabel K L P le le' f h teams r o

/-- **C03 (general form).** Two rank lists of the same length — their entries may live in
    different types — whose entries compare in the same way position by position
    (`r'[i] ≤ r'[j]` exactly when `r[i] ≤ r[j]`) give exactly the same ratings.  So only the order
    and the equality pattern of the rank values matter.  No assumption on `le`, `le'` at all. -/
theorem C03_pointwise (K : Kind) (L : Leaves α) (P : Params α)
    (le : ρ → ρ → Bool) (le' : ρ' → ρ' → Bool) (r : List ρ) (r' : List ρ')
    (hlen : r'.length = r.length)
    (h : ∀ (i j : Nat) (hi : i < r.length) (hj : j < r.length),
      le' (r'[i]'(by omega)) (r'[j]'(by omega)) = le r[i] r[j])
    (teams : List (List (Rating α))) (o : CallOpts α) :
    rateCore K L P le' teams (some r') o = rateCore K L P le teams (some r) o := by
  -- route both sides through the list of positions, compared as the entries compare
  let leI : Fin r.length → Fin r.length → Bool := fun i j => le r[i.1] r[j.1]
  have e : (List.finRange r.length).map (fun i => r[i.1]) = r :=
    map_getElem_finRange r
  have e' : (List.finRange r.length).map (fun i => r'[i.1]'(by have := i.2; omega)) = r' := by
    apply List.ext_getElem
    · simp [hlen]
    · intro i h1 h2; simp
  have s1 := C03_relabel_on K L P leI le (fun i => r[i.1]) (List.finRange r.length)
    (fun _ _ _ _ => rfl) teams o
  have s2 := C03_relabel_on K L P leI le' (fun i => r'[i.1]'(by have := i.2; omega))
    (List.finRange r.length) (fun a _ b _ => h a.1 b.1 a.2 b.2) teams o
  rw [e] at s1
  rw [e'] at s2
  rw [s1, s2]

/-- `C03_pointwise` for `rate` with ranks. -/
theorem C03_pointwise_rate (K : Kind) (L : Leaves α) (P : Params α)
    (le : ρ → ρ → Bool) (le' : ρ' → ρ' → Bool) (neg : ρ → ρ) (neg' : ρ' → ρ')
    (r : List ρ) (r' : List ρ') (hlen : r'.length = r.length)
    (h : ∀ (i j : Nat) (hi : i < r.length) (hj : j < r.length),
      le' (r'[i]'(by omega)) (r'[j]'(by omega)) = le r[i] r[j])
    (teams : List (List (Rating α))) (o : CallOpts α) :
    rate K L P le' neg' teams (.ranks r') o = rate K L P le neg teams (.ranks r) o :=
  C03_pointwise K L P le le' r r' hlen h teams o

/-- The same for scores: two score lists whose NEGATED entries compare in the same way position
    by position give the same ratings (for the usual unary minus: `s'[i] ≥ s'[j]` exactly when
    `s[i] ≥ s[j]`). -/
theorem C03_pointwise_scores (K : Kind) (L : Leaves α) (P : Params α)
    (le : ρ → ρ → Bool) (le' : ρ' → ρ' → Bool) (neg : ρ → ρ) (neg' : ρ' → ρ')
    (s : List ρ) (s' : List ρ') (hlen : s'.length = s.length)
    (h : ∀ (i j : Nat) (hi : i < s.length) (hj : j < s.length),
      le' (neg' (s'[i]'(by omega))) (neg' (s'[j]'(by omega))) = le (neg s[i]) (neg s[j]))
    (teams : List (List (Rating α))) (o : CallOpts α) :
    rate K L P le' neg' teams (.scores s') o = rate K L P le neg teams (.scores s) o := by
  show rateCore K L P le' teams (some (s'.map neg')) o
      = rateCore K L P le teams (some (s.map neg)) o
  apply C03_pointwise K L P le le' (s.map neg) (s'.map neg') (by simp [hlen])
  intro i j hi hj
  simp only [List.length_map] at hi hj
  simp only [List.getElem_map]
  exact h i j hi hj

/-! ## 3. omitted ranks -/

/-- **C03 (omitted).** Calling `rate` without ranks and scores is the same as passing
    `ranks = [0, 1, …, n−1]`. -/
theorem C03_omitted (K : Kind) (L : Leaves α) (P : Params α)
    (teams : List (List (Rating α))) (o : CallOpts α) :
    rateCore K L P leNat teams (some (List.range teams.length)) o
      = rateCore K L P leNat teams none o := by
  unfold rateCore
  simp only []
  have hn : (inflate (resolveTau P o) teams).length = teams.length := length_inflate _ _
  rw [unwind_range _ _ hn, sortedKeys_range, denseRanks_range]
  simp only []
  rw [unwind_range _ _ (by rw [length_compute, hn]; simp), hn]

/-- … and the same as passing `[f 0, f 1, …, f (n−1)]` for ANY encoding `f` of the naturals into
    a rank type whose comparison agrees with `≤` on naturals (ints, floats, `2*i+1`, …).
    (When ranks are omitted the comparison is not used, so `le` on the right is arbitrary.) -/
theorem C03_omitted_encoded (K : Kind) (L : Leaves α) (P : Params α)
    (le : ρ → ρ → Bool) (f : Nat → ρ)
    (h : ∀ a b, le (f a) (f b) = decide (a ≤ b))
    (teams : List (List (Rating α))) (o : CallOpts α) :
    rateCore K L P le teams (some ((List.range teams.length).map f)) o
      = rateCore K L P le teams none o := by
  rw [C03_relabel K L P leNat le f h teams _ o, C03_omitted]
  rfl

/-- `C03_omitted_encoded` for the public entry point. -/
theorem C03_omitted_rate (K : Kind) (L : Leaves α) (P : Params α)
    (le : ρ → ρ → Bool) (neg : ρ → ρ) (f : Nat → ρ)
    (h : ∀ a b, le (f a) (f b) = decide (a ≤ b))
    (teams : List (List (Rating α))) (o : CallOpts α) :
    rate K L P le neg teams (.ranks ((List.range teams.length).map f)) o
      = rate K L P le neg teams .omitted o :=
  C03_omitted_encoded K L P le f h teams o

/-! ## 4. what the dense ranks are -/

section dense
variable (le : ρ → ρ → Bool)

/-- The list `rate` hands to `_calculate_rankings` (`sorted(ranks)`) is sorted, provided the
    comparison is total and transitive. -/
theorem sortedKeys_sorted
    (total : ∀ a b, (le a b || le b a) = true)
    (trans : ∀ a b c, le a b = true → le b c = true → le a c = true) (r : List ρ) :
    (sortedKeys le r).Pairwise (fun a b => le a b = true) :=
  sortedKeys_pairwise le total trans r

/-- **R2.** For a sorted list `s` of rank values (any type, any total transitive comparison),
    the dense rank of position `k` is the number of positions holding a strictly smaller value
    (`lt a b := !le b a`). -/
theorem denseRanks_spec
    (total : ∀ a b, (le a b || le b a) = true)
    (trans : ∀ a b c, le a b = true → le b c = true → le a c = true)
    (s : List ρ) (hs : s.Pairwise (fun a b => le a b = true)) (k : Nat) (hk : k < s.length) :
    (denseRanks (fun a b => !le b a) s)[k]'(by rw [length_denseRanks]; exact hk)
      = (s.filter (fun y => !le s[k] y)).length := by
  simp only [denseRanks_eq_map total trans s hs, List.getElem_map, below]

/-- **C03 (ties).** Two teams get the same dense rank exactly when their rank values compare
    equal (`a ≤ b` and `b ≤ a`) — whatever their types, e.g. `1` and `1.0`. -/
theorem C03_ties
    (total : ∀ a b, (le a b || le b a) = true)
    (trans : ∀ a b c, le a b = true → le b c = true → le a c = true)
    (s : List ρ) (hs : s.Pairwise (fun a b => le a b = true))
    (i k : Nat) (hi : i < s.length) (hk : k < s.length) :
    (denseRanks (fun a b => !le b a) s)[i]'(by rw [length_denseRanks]; exact hi)
        = (denseRanks (fun a b => !le b a) s)[k]'(by rw [length_denseRanks]; exact hk)
      ↔ (le s[i] s[k] = true ∧ le s[k] s[i] = true) := by
  simp only [denseRanks_eq_map total trans s hs, List.getElem_map]
  constructor
  · intro heq
    cases h1 : le s[i] s[k] <;> cases h2 : le s[k] s[i]
    · have := total s[i] s[k]; simp [h1, h2] at this
    · have := below_lt total trans s (List.getElem_mem hk) h1; omega
    · have := below_lt total trans s (List.getElem_mem hi) h2; omega
    · exact ⟨rfl, rfl⟩
  · rintro ⟨h1, h2⟩
    exact below_congr trans s h1 h2

/-- **C03 (strict order).** One team's dense rank is strictly smaller than another's exactly
    when its rank value is strictly smaller (`lt a b := !le b a`). -/
theorem C03_strict
    (total : ∀ a b, (le a b || le b a) = true)
    (trans : ∀ a b c, le a b = true → le b c = true → le a c = true)
    (s : List ρ) (hs : s.Pairwise (fun a b => le a b = true))
    (i k : Nat) (hi : i < s.length) (hk : k < s.length) :
    (denseRanks (fun a b => !le b a) s)[i]'(by rw [length_denseRanks]; exact hi)
        < (denseRanks (fun a b => !le b a) s)[k]'(by rw [length_denseRanks]; exact hk)
      ↔ (!le s[k] s[i]) = true := by
  simp only [denseRanks_eq_map total trans s hs, List.getElem_map]
  constructor
  · intro hlt
    cases h2 : le s[k] s[i]
    · rfl
    · cases h1 : le s[i] s[k]
      · have := below_lt total trans s (List.getElem_mem hk) h1; omega
      · have := below_congr trans s h1 h2; omega
  · intro h
    exact below_lt total trans s (List.getElem_mem hi) (by simpa using h)

/-- The three facts above, instantiated at what `rateCore` actually computes: the dense ranks it
    passes to `_compute` are `denseRanks lt (sortedKeys le r)`, and `sortedKeys le r` is sorted. -/
theorem C03_dense_of_rate
    (total : ∀ a b, (le a b || le b a) = true)
    (trans : ∀ a b c, le a b = true → le b c = true → le a c = true) (r : List ρ)
    (k : Nat) (hk : k < (sortedKeys le r).length) :
    (denseRanks (fun a b => !le b a) (sortedKeys le r))[k]'(by rw [length_denseRanks]; exact hk)
      = ((sortedKeys le r).filter (fun y => !le (sortedKeys le r)[k] y)).length :=
  denseRanks_spec le total trans _ (sortedKeys_sorted le total trans r) k hk

end dense

/-! ## the hypotheses are satisfiable -/

/-- Python's `≤` on ints is total and transitive … -/
example : ∀ a b : Int, (decide (a ≤ b) || decide (b ≤ a)) = true := by
  intro a b; simp; omega
example : ∀ a b c : Int, decide (a ≤ b) = true → decide (b ≤ c) = true → decide (a ≤ c) = true := by
  intro a b c; simp; omega

/-- … `x ↦ 2x+1` is an order-isomorphic re-labelling of the ints … -/
example : ∀ a b : Int, decide (2 * a + 1 ≤ 2 * b + 1) = decide (a ≤ b) := by
  intro a b; simp

/-- … so ranks `[3, 1, 1, 7]` and `[7, 3, 3, 15]` rate alike, -/
example (K : Kind) (L : Leaves α) (P : Params α) (teams : List (List (Rating α))) (o : CallOpts α) :
    rateCore K L P (fun a b : Int => decide (a ≤ b)) teams (some [7, 3, 3, 15]) o
      = rateCore K L P (fun a b : Int => decide (a ≤ b)) teams (some [3, 1, 1, 7]) o := by
  have e : ([3, 1, 1, 7] : List Int).map (fun x => 2 * x + 1) = [7, 3, 3, 15] := by simp
  rw [← e]
  exact C03_relabel K L P _ _ (fun x => 2 * x + 1) (by intro a b; simp) teams [3, 1, 1, 7] o

/-- … the naturals embed into the ints (`Int.ofNat`) order-isomorphically, so omitting ranks is
    `ranks = [0, 1, …, n−1]` as Python ints, -/
example (K : Kind) (L : Leaves α) (P : Params α) (teams : List (List (Rating α))) (o : CallOpts α) :
    rateCore K L P (fun a b : Int => decide (a ≤ b)) teams
        (some ((List.range teams.length).map Int.ofNat)) o
      = rateCore K L P (fun a b : Int => decide (a ≤ b)) teams none o :=
  C03_omitted_encoded K L P _ Int.ofNat (by intro a b; simp) teams o

/-- … and a sorted list with a tie: dense ranks of `[1, 1, 4]` are `[0, 0, 2]`. -/
example : denseRanks (fun a b : Int => !decide (b ≤ a)) [1, 1, 4] = [0, 0, 2] := by decide

/-- mixed types: ranks given as ints and the "same" ranks in a type with two copies of every
    int (think `1` and `1.0`), compared by value, rate alike — `C03_pointwise` needs no map. -/
example (K : Kind) (L : Leaves α) (P : Params α) (teams : List (List (Rating α))) (o : CallOpts α) :
    rateCore K L P (fun a b : Int × Bool => decide (a.1 ≤ b.1)) teams
        (some [(2, true), (1, false), (1, true), (2, false)]) o
      = rateCore K L P (fun a b : Int => decide (a ≤ b)) teams (some [5, 3, 3, 5]) o := by
  apply C03_pointwise K L P (fun a b : Int => decide (a ≤ b))
    (fun a b : Int × Bool => decide (a.1 ≤ b.1)) [5, 3, 3, 5]
    [(2, true), (1, false), (1, true), (2, false)] rfl
  intro i j hi hj
  simp only [List.length_cons, List.length_nil] at hi hj
  have : i = 0 ∨ i = 1 ∨ i = 2 ∨ i = 3 := by omega
  have : j = 0 ∨ j = 1 ∨ j = 2 ∨ j = 3 := by omega
  rcases ‹i = 0 ∨ _› with rfl | rfl | rfl | rfl <;> rcases ‹j = 0 ∨ _› with rfl | rfl | rfl | rfl <;>
    simp

end OS
