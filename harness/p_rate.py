"""
Checks for the properties of rate(): C01-C08, C15, C16.
"""
import copy, itertools, math, random
import core
from core import (KINDS, IS_TM, IS_PART, MODEL_CLS, make_game, run_impl_rate, impl_teams, build_model,
                  build_teams, call_rate, rate_line, parse_rate_out, compare_rate, corr_games,
                  teams_close, rel_budget, close, size, describe, Driver, has_ties, tm_tmin)
import gen
from gen import gen_game, gen_teams, gen_config, weak_orders, random_weak_order, encode_ranks
from props import register


def G(item):
    return item["game"]


# =============================================================================== C01
def c01_item(res, item):
    g = G(item)
    res.case(g)
    corr_games(res, [g], "property", "C01 closed form")
    c01_exact(res, [g])


def c01_exact(res, games):
    """the most independent oracle: the closed form with EXACT V, W, V~, W~ evaluated by the same Lean model
    terms on 192-bit big floats (op HRATE e); deviation allowed = the documented asymptotic forms' stated errors"""
    lines = [rate_line(dict(g, leaves="e")).replace("RATE", "HRATE", 1) for g in games]
    outs = Driver().run(lines)
    for g, o in zip(games, outs):
        impl = run_impl_rate(g)
        mm = core.compare_rate_exact(g, impl, parse_rate_out(o))
        res.traces += 1
        res.count("exact_leaf_highprec_comparisons")
        if mm:
            res.fail("property", "C01 exact closed form (high precision): " + mm, dict(type="game", game=g))


def c01_sum_q(res, rng):
    """the literal (dict-shaped) Lean model of _sum_q against the real static method, bit for bit in structure
    and 1e-12 relative in value, on the rank vectors _calculate_rankings can produce"""
    lines, cases = [], []
    for _ in range(size(res, 300, 1500)):
        n = rng.randint(1, 8)
        # only rank vectors the library itself can produce (non-decreasing, rank = index of the first team of the tie
        # group): on other inputs the dict order of _sum_q is an accident of the implementation, not behaviour to pin
        dense = sorted(random_weak_order(rng, n))
        ranks = [dense.index(r) for r in dense]
        mus = [rng.uniform(-60, 60) for _ in range(n)]
        c = rng.uniform(3, 30)
        lines.append("SUMQ %s %d %s %s" % (core.f2h(c), n, " ".join(map(str, ranks)), " ".join(core.f2h(m) for m in mus)))
        cases.append((c, ranks, mus))
    outs = Driver().run(lines)
    for (c, ranks, mus), o in zip(cases, outs):
        kind = KINDS[len(ranks) % 5]
        mod = core.MODULES[kind]
        TR = getattr(mod, MODEL_CLS[kind].__name__ + "TeamRating")
        trs = [TR(m, 1.0, [], r) for m, r in zip(mus, ranks)]
        got = MODEL_CLS[kind]._sum_q(trs, c)
        want = [core.h2f(x) for x in o.split(" ")[1:]]
        res.traces += 1
        res.count("sum_q_literal_comparisons")
        if len(got) != len(want) or any(not close(a, b, 1e-12, 0.0) for a, b in zip(got, want)):
            res.fail("correspondence", "C01: %s._sum_q(ranks=%r) = %r differs from the literal Lean model %r" % (kind, ranks, got, want),
                     dict(type="sumq", c=c, ranks=ranks, mus=mus))


def c01_ladder(res):
    """the literal Lean model of _ladder_pairs against the real function"""
    ns = list(range(0, 12))
    outs = Driver().run(["LADDER %d" % n for n in ns])
    for n, o in zip(ns, outs):
        want = [[int(x) for x in part.split()] for part in o[3:].split("|")] if n > 0 else [[]]
        got = core.wl_common._ladder_pairs(list(range(1, n + 1)))
        res.traces += 1
        res.count("ladder_literal_comparisons")
        if got != want:
            res.fail("correspondence", "C01: _ladder_pairs(1..%d) = %r differs from the literal Lean model %r" % (n, got, want), dict(type="ladder", n=n))


def kappa_window_games(res, rng, n):
    """Directed stratum for the variance floor max(1 - share*delta, kappa).  With a constant gamma callback delta is
    proportional to the constant, so the constant that puts a chosen player's factor at a chosen place relative to kappa
    (just above, just below, a small positive fraction of it, zero, negative) is computed from the implementation's own
    response at gamma = 1.  Random gammas essentially never land in the window (0, kappa), which is 1e-4 wide."""
    out = []
    tries = 0
    while len(out) < n and tries < 6 * n:
        tries += 1
        g = gen_game(rng, stratum=rng.choice(["typical", "typical", "equalsize", "identical"]), options=False,
                     n=rng.randint(2, 5), maxsize=3)
        g["gamma"] = ("C", 1.0)
        g["tau"] = 0.0 if rng.random() < 0.5 else g["tau"]
        impl = run_impl_rate(g)
        if impl[0] != "OK":
            continue
        flat_prior = [ms for t in g["teams"] for ms in t]
        cands = []
        for t in impl[1]:
            for (slot, mu_, sg_) in t:
                pm, ps = flat_prior[slot]
                infl = math.sqrt(ps * ps + g["tau"] * g["tau"])
                f1 = (sg_ / infl) ** 2
                if 0 < 1 - f1 < 1 and f1 > g["kappa"] * 1.5:
                    cands.append(1 - f1)
        if not cands:
            continue
        sd = rng.choice(cands)                      # share * delta of one player at gamma = 1
        target = g["kappa"] * rng.choice([0.5, 0.5, 0.99, 1.01, 1e-3, 2.0, 0.0, -1.0, -50.0])
        g2 = dict(g)
        g2["gamma"] = ("C", (1 - target) / sd)
        res.count("kappa_window_target_%s" % ("in_window" if 0 < target < g["kappa"] else "at_or_below_zero" if target <= 0 else "above_kappa"))
        out.append(g2)
    return out


def c01(res):
    rng = random.Random(res.seed)
    import gentie
    gentie.note(res, "v, w, vt, wt, the default gamma of the five models")
    c01_sum_q(res, rng)
    if res.shard == 0:
        c01_ladder(res)
    n = size(res, 2500, 12000)
    games = [gen_game(rng) for _ in range(n)]
    games += kappa_window_games(res, random.Random(res.seed * 31 + 5 + res.shard), size(res, 150, 500))
    # every weak order of n <= 4 (quick) / n <= 5 (thorough) teams, sharded
    top = 4 if res.tier == "quick" else 5
    k = 0
    for nt in range(2, top + 1):
        for wo in weak_orders(nt):
            for kind in KINDS:
                k += 1
                if k % res.nshards != res.shard:
                    continue
                if res.tier == "quick" and nt == 4 and k % 3:
                    continue
                beta, kappa, tau = gen_config(rng)
                teams = gen_teams(rng, rng.choice(["typical", "mismatch", "equalsize"]), beta, n=nt, maxsize=3)
                games.append(make_game(kind, teams, oc=("R", wo), beta=beta, kappa=kappa, tau=tau,
                                       gamma=rng.choice(gen.GAMMAS)))
    for g in games:
        res.case(g)
        describe(res, g)
    corr_games(res, games, "property", "C01 closed form")
    core.trace_games(res, games[:: max(1, len(games) // size(res, 700, 1500))], "correspondence", "C01")
    sample = games[:: max(1, len(games) // size(res, 500, 900))]
    tm = [g for g in sample if IS_TM[g["kind"]]]
    c01_exact(res, [g for g in sample if not IS_TM[g["kind"]]] + tm[:: max(1, len(tm) // size(res, 90, 150))])
    res.rule = ("random games over all strata (typical, wide, corners, mismatch 4-9 c apart, identical, equal sizes) "
                "x 5 models x configurations (beta 1e-3..1e3 rescaled, kappa, tau, limit_sigma, 6 gamma callbacks) "
                "x outcomes as ranks/scores in 9 numeric encodings, plus every weak order of n<=%d teams; each game's "
                "posterior compared with the Lean model (code-shaped closed form at Float) within the computed budget; a sample also "
                "with the exact-leaf closed form on 192-bit floats (documented asymptote errors propagated) and with the model's trace of "
                "the gamma-callback invocations (internal state); _sum_q / _ladder_pairs against their literal Lean models; every sixth "
                "call interleaved with a nested rate() on the same model, every fifth with the outcome passed positionally; "
                "distinct = distinct game JSON" % top)


register("C01", c01, c01_item,
         assumptions=["gamma callbacks outside the tagged family {default, const, 1/k, 1/(rank+1), s2/c^2, 0} are not exercised",
                      "real-vs-double rounding is sampled, not proved"])


# =============================================================================== C02
def c02_one(res, g, drv_line_out=None):
    model = build_model(g)
    teams = build_teams(model, g)
    shared = g.get("_shared_ids")
    if shared:
        # distinct rating objects carrying one id (clones of a template: deepcopy keeps the id; a guest account): the names
        # (unique here) and the object identities still tell the players apart
        flat = [p for t in teams for p in t]
        if shared == "first-players":
            for t in teams:
                t[0].id = teams[0][0].id
        elif shared == "everyone":
            for p in flat:
                p.id = flat[0].id
        elif shared == "team-mates":
            for t in teams:
                for p in t:
                    p.id = t[0].id
        elif shared == "same-names":
            # different players (distinct objects, distinct ids) carrying the same non-empty name: two "Alex"
            for k_, p in enumerate(flat):
                p.name = ("Alex", "Guest")[k_ % 2] if k_ < 4 else p.name
        elif shared == "row-numbers":
            # ids assigned by the application: row numbers 0, 1, 2, ... and "" are ids like any other (unique here)
            alt = [0, ""] if len(flat) % 2 else [0]
            for k_, p in enumerate(flat):
                p.id = alt[k_] if k_ < len(alt) else k_
        res.count("shared_id_games_" + shared)
    passed = [list(t) for t in teams]
    snap = [[(p.id, p.name, p.mu, p.sigma) for p in t] for t in teams]
    inp = dict(type="game", game=g)
    try:
        out = call_rate(model, teams, g, reentrant=False) if shared else call_rate(model, teams, g)
    except Exception as e:  # noqa: BLE001
        res.fail("property", "C02: valid call raised %s: %s" % (type(e).__name__, e), inp)
        return
    if len(out) != len(snap) or any(len(a) != len(b) for a, b in zip(out, snap)):
        res.fail("property", "C02: result shape %s differs from input shape %s" % (
            [len(t) for t in out], [len(t) for t in snap]), inp)
        return
    flat_index = {}
    name_index = {}
    k = 0
    for t in snap:
        for s in t:
            flat_index[s[0]] = k
            name_index[s[1]] = k
            k += 1
    for i, t in enumerate(out):
        for j, p in enumerate(t):
            if p.id != snap[i][j][0] or p.name != snap[i][j][1]:
                res.fail("property", "C02: result[%d][%d] carries id/name of input slot %s (name %r), expected player %r" % (
                    i, j, flat_index.get(p.id, "?"), p.name, snap[i][j][1]), inp)
                return
    # the caller's lists still hold the same objects in the same slots
    for i, t in enumerate(teams):
        if len(t) != len(passed[i]) or any(a is not b for a, b in zip(t, passed[i])):
            res.fail("property", "C02: the caller's team list %d was reordered or changed" % i, inp)
            return
    untouched = all(p.mu == s[2] and p.sigma == s[3] for t, ts in zip(passed, snap) for p, s in zip(t, ts))
    equal = all(p.mu == o.mu and p.sigma == o.sigma and p.id == o.id
                for t, to in zip(passed, out) for p, o in zip(t, to))
    res.count("passed_untouched" if untouched else ("passed_equal_returned" if equal else "passed_mixture"))
    if g.get("_identical_priors"):
        res.count("identical_priors_tie_games")
    if g.get("_zero_sigma_member"):
        res.count("zero_sigma_member_games")
    # no object and no id appears twice in the result
    objs = [id(p) for t in out for p in t]
    by_name = bool(shared) and shared != "same-names"       # what tells the players apart in this game: their names, or their ids
    ids_ = [p.name for t in out for p in t] if by_name else [p.id for t in out for p in t]
    if len(set(objs)) != len(objs) or len(set(ids_)) != len(ids_):
        res.fail("property", "C02: a player appears twice in the result (and another is dropped)", inp)
        return
    if not (untouched or equal):
        res.fail("property", "C02: passed rating objects are a mixture of touched and untouched / differ from the returned ratings", inp)
        return
    # forced clamp: sigma of every slot is bit-identical to the prior sigma of the same slot
    if g.get("_forced_clamp"):
        for i, t in enumerate(out):
            for j, p in enumerate(t):
                if p.sigma != snap[i][j][3]:
                    res.fail("property", "C02: with limit_sigma and a huge tau, result[%d][%d].sigma=%r is not the prior sigma %r of that slot" % (
                        i, j, p.sigma, snap[i][j][3]), inp)
                    return
    # numbers: the posterior of *that* player (model, slot by slot)
    if drv_line_out is not None:
        impl = ("OK", [[(name_index[p.name] if by_name else flat_index[p.id], p.mu, p.sigma) for p in t] for t in out])
        mm = compare_rate(g, impl, parse_rate_out(drv_line_out))
        res.traces += 1
        if mm:
            res.fail("property", "C02: result is not the posterior of the player in that slot: " + mm, inp)


def c02_games(res, rng, n):
    games = []
    for _ in range(n):
        st_ = rng.choice(["typical", "wide", "equalsize", "same-sigma"])
        g = gen_game(rng, stratum=st_)
        # distinct priors per player so that any misplacement shows (team-mates sharing one sigma exactly keep it: only mu is spread)
        k = 0
        for t in g["teams"]:
            for j in range(len(t)):
                t[j] = (t[j][0] + 0.37 * k * g["beta"] / 4, t[j][1] * (1 + 0.011 * k) if st_ != "same-sigma" else t[j][1])
                k += 1
        if rng.random() < 0.22:
            g["_shared_ids"] = rng.choice(["first-players", "first-players", "everyone", "team-mates", "row-numbers", "row-numbers", "same-names", "same-names"])
            if rng.random() < 0.5:
                g["ls"] = True          # the sigma cap is looked up per player
        if rng.random() < 0.25:
            # brand-new players everywhere (all priors identical), equal team sizes, tie-heavy outcome:
            # only ids / names / object identity tell the slots apart
            sz = rng.randint(1, 3)
            g["teams"] = [[(25.0 * g["beta"] / core.DEFAULTS["beta"], 25.0 / 3 * g["beta"] / core.DEFAULTS["beta"])] * sz
                          for _ in g["teams"]]
            nt = len(g["teams"])
            dense = [rng.randrange(max(1, nt // 2)) for _ in range(nt)]
            g["oc"] = (rng.choice(["R", "S"]), encode_ranks(rng, sorted(set(dense)).__class__(
                [sorted(set(dense)).index(d) for d in dense])))
            g["_identical_priors"] = True
        elif rng.random() < 0.12:
            # a member whose (inflated) sigma is exactly zero next to ordinary team mates: tau = 0 for this call
            g["tauopt"] = 0.0
            big = [i for i, t in enumerate(g["teams"]) if len(t) >= 2]
            if not big:
                g["teams"][0] = g["teams"][0] + [(g["teams"][0][0][0] + g["beta"], g["teams"][0][0][1] * 1.3)]
                big = [0]
            for i in big:
                j = rng.randrange(len(g["teams"][i]))
                g["teams"][i][j] = (g["teams"][i][j][0], rng.choice([0.0, 1e-170]))
            g["_zero_sigma_member"] = True
        elif rng.random() < 0.2:
            g["tau"] = 1e3 * g["beta"]
            g["tauopt"] = None
            g["ls"] = True
            g["lsopt"] = None
            g["gamma"] = ("Z", 0.0)     # no variance reduction, so the clamp certainly acts
            g["_forced_clamp"] = True
        games.append(g)
    return games


def c02_item(res, item):
    g = G(item)
    res.case(g)
    out = Driver().run([rate_line(g)])[0]
    c02_one(res, g, out)


def c02(res):
    rng = random.Random(res.seed)
    games = c02_games(res, rng, size(res, 2500, 12000))
    outs = Driver().run([rate_line(g) for g in games])
    for g, o in zip(games, outs):
        res.case(g)
        describe(res, g)
        c02_one(res, g, o)
    res.rule = ("games with pairwise distinct priors and names, rank/score vectors in 8 numeric encodings that genuinely "
                "permute the teams, limit_sigma on/off, forced clamp (tau = 1000 beta); observable: nesting shape, id and "
                "name per returned slot, aliasing disjunction, per-slot numbers against the model's slot ids")


register("C02", c02, c02_item)


# =============================================================================== C03
ENCODINGS = ["int", "float", "mixed", "neg", "big", "gap", "bool", "frac", "huge", "near", "unit"]


def bits_equal(A, B):
    return A == B


def py_dense(vals):
    """dense ranks via Python's own exact comparisons: number of distinct smaller values"""
    out = []
    for v in vals:
        smaller = []
        for w in vals:
            if w < v and not any(w == s for s in smaller):
                smaller.append(w)
        out.append(len(smaller))
    return out


def c03_one(res, base_game, dense, rng):
    """base_game: game whose oc is ignored; dense: dense rank vector"""
    n = len(dense)
    inp0 = dict(type="c03", game=base_game, dense=dense)
    g0 = dict(base_game); g0["oc"] = ("R", list(dense))
    try:
        base = impl_teams(g0)
    except Exception as e:  # noqa: BLE001
        res.fail("property", "C03: baseline int ranks raised %s" % type(e).__name__, inp0)
        return []
    variants = []
    for enc in ENCODINGS:
        vals = encode_ranks(rng, dense, enc)
        assert py_dense(vals) == py_dense(dense), (vals, dense)
        variants.append(("ranks/" + enc, ("R", vals)))
        if enc in ("int", "float", "mixed", "frac", "gap"):
            variants.append(("scores/" + enc, ("S", [-v for v in vals])))
    if dense == list(range(n)):
        variants.append(("omitted", ("N", None)))
    games = [g0]
    for name, oc in variants:
        g = dict(base_game); g["oc"] = oc
        games.append(g)
        try:
            out = impl_teams(g)
        except Exception as e:  # noqa: BLE001
            res.fail("property", "C03: %s raised %s" % (name, type(e).__name__), dict(type="game", game=g))
            continue
        res.count("enc_" + name)
        if out != base:
            res.fail("property", "C03: outcome given as %s %r gives a different result than the order-isomorphic int ranks %r: e.g. %r vs %r" % (
                name, oc[1], dense, first_diff(out, base), None), dict(type="c03", game=base_game, dense=dense, variant=[name, oc]))
    return games


def first_diff(A, B):
    for i, (ta, tb) in enumerate(zip(A, B)):
        for j, (x, y) in enumerate(zip(ta, tb)):
            if x != y:
                return (i, j, x, y)
    return None


TIE_PAIRS = [([1, 1.0], True), ([True, 1.0], True), ([0, -0.0], True), ([2 ** 53, 2.0 ** 53], True),
             ([0.5, 0.5], True), ([-3.0, -3], True), ([False, 0.0], True),
             ([2 ** 53 + 1, 2.0 ** 53], False), ([1.5, 1], False), ([1, 1.0000000000000002], False),
             ([-1e-300, 0], False), ([10 ** 20, 1e20], True), ([10 ** 20 + 1, 1e20], False),
             ([10 ** 400, 10 ** 400], True), ([10 ** 400, 10 ** 400 + 1], False), ([2 ** 1024, 1.7976931348623157e308], False), ([True, 10 ** 400], False)]


def c03_ties(res):
    """tied exactly when the values compare equal, whatever their type"""
    for kind in KINDS:
        for vals, tied in TIE_PAIRS:
            for sel in ("R", "S"):
                g = make_game(kind, [[(25.0, 8.0)], [(25.0, 8.0)]], oc=(sel, list(vals)))
                res.case(g)
                try:
                    out = impl_teams(g)
                except Exception as e:  # noqa: BLE001
                    res.fail("property", "C03: %s=%r raised %s" % (sel, vals, type(e).__name__), dict(type="game", game=g))
                    continue
                same = out[0][0][0] == out[1][0][0]
                if same != tied:
                    res.fail("property", "C03: two identical teams with %s=%r (values compare %s) end %s: mu %r / %r" % (
                        "ranks" if sel == "R" else "scores", vals, "equal" if tied else "unequal",
                        "tied" if same else "not tied", out[0][0][0], out[1][0][0]), dict(type="game", game=g))


def c03_item(res, item):
    rng = random.Random(res.seed)
    if item.get("type") == "c03":
        res.case(item)
        games = c03_one(res, item["game"], item["dense"], rng)
        corr_games(res, games, "property", "C03 dense ranks / order of processing")
    else:
        g = G(item)
        res.case(g)
        corr_games(res, [g], "property", "C03 dense ranks / order of processing")
        if g["oc"][0] != "N":
            d = py_dense(g["oc"][1]) if g["oc"][0] == "R" else py_dense([-v for v in g["oc"][1]])
            c03_one(res, g, d, rng)


def c03_numle(res, rng):
    """the model's exact int/float comparison (PyNum.le) against Python's own `<=` on rank-like values"""
    vals = [0, 1, -1, True, False, 2 ** 53, 2 ** 53 + 1, 2 ** 53 - 1, -2 ** 53 - 1, 10 ** 20, 10 ** 20 + 1, 2 ** 1023, -2 ** 1030,
            0.0, -0.0, 1.0, 0.5, -1.5, 2.0 ** 53, 2.0 ** 53 + 2, 1e20, 1e300, -1e300, 5e-324, -5e-324, 1.0000000000000002, float("inf"), float("-inf")]
    for _ in range(size(res, 150, 600)):
        vals.append(rng.choice([rng.randint(-10, 10), rng.uniform(-10, 10), rng.randint(-2 ** 70, 2 ** 70), float(rng.randint(-2 ** 60, 2 ** 60)),
                                rng.randint(2 ** 53 - 4, 2 ** 53 + 4), 2.0 ** 53 + 2 * rng.randint(-3, 3)]))
    pairs = [(rng.choice(vals), rng.choice(vals)) for _ in range(size(res, 3000, 12000))]
    outs = Driver().run(["NUMLE %s %s" % (core.num_token(a), core.num_token(b)) for a, b in pairs])
    for (a, b), o in zip(pairs, outs):
        res.traces += 1
        res.count("numle_comparisons")
        if str(a <= b) != o:
            res.fail("correspondence", "C03: Python evaluates %r <= %r as %r, the model's PyNum.le as %s" % (a, b, a <= b, o), dict(type="numle", a=repr(a), b=repr(b)))


def c03_hash_collisions(res, rng):
    """Outcome vectors whose Python hashes coincide although their tie patterns differ (hash(-1) == hash(-2); hash(n) == hash(n mod
    (2**61-1)); hash(-1.0) == hash(-2.0)), rated one after the other on ONE model object: each must be rated for what it is."""
    M61 = 2 ** 61 - 1
    seqs = [([("ranks", [-1, -1]), ("ranks", [-2, -1]), ("ranks", [-1, -2]), ("scores", [1, 1]), ("scores", [2, 1]), ("scores", [1, 2])], 2),
            ([("ranks", [0, 0, 5]), ("ranks", [0, M61, M61 + 5]), ("ranks", [M61, 0, 5]), ("ranks", [5, M61 + 5, 0])], 3),
            ([("ranks", [-1.0, -1.0, 3.0]), ("ranks", [-2.0, -1.0, 3.0]), ("scores", [1.0, 2.0, -3.0]), ("scores", [1.0, 1.0, -3.0])], 3),
            ([("ranks", [1, 1, 1, 2]), ("ranks", [1, M61 + 1, 2 * M61 + 1, 2]), ("ranks", [1, 1, M61 + 1, 2])], 4)]
    for kind in KINDS:
        for seq, n in seqs:
            beta, kappa, tau = gen_config(rng)
            base = make_game(kind, gen_teams(rng, "typical", beta, n=n, maxsize=2), beta=beta, kappa=kappa, tau=tau)
            shared = build_model(dict(base, _plain=True))
            for key, vals in seq:
                res.count("hash_collision_sequence_calls")
                got = [[(p.mu, p.sigma) for p in t] for t in shared.rate(build_teams(shared, base), **{key: list(vals)})]
                fresh = build_model(dict(base, _plain=True))
                want = [[(p.mu, p.sigma) for p in t] for t in fresh.rate(build_teams(fresh, base), **{key: list(vals)})]
                if got != want:
                    res.fail("property", "C03: %s: %s=%r rated on a model that has rated other outcome vectors with the same hashes gives %r, on a fresh model %r" % (
                        kind, key, vals, core.first_pair(got, want), None), dict(type="game", game=dict(base, oc=("R" if key == "ranks" else "S", list(vals)))))
                    break


def c03(res):
    rng = random.Random(res.seed)
    c03_ties(res)
    if res.shard == 0:
        c03_hash_collisions(res, rng)
    c03_numle(res, rng)
    allgames = []
    n = size(res, 220, 1200)
    for _ in range(n):
        # half of the games carry model-level limit_sigma and per-call tau / limit_sigma: the outcome encoding must not interact with them
        g = gen_game(rng, options=rng.random() < 0.5)
        if g["tauopt"] is not None or g["lsopt"] is not None or g["ls"]:
            res.count("games_with_options")
        nt = len(g["teams"])
        dense = random_weak_order(rng, nt)
        res.case(dict(game=g, dense=dense))
        describe(res, g)
        allgames += c03_one(res, g, dense, rng)
    # every weak order for n <= 4 (thorough: 5) on one game per model
    top = 3 if res.tier == "quick" else 5
    k = 0
    for nt in range(2, top + 1):
        for wo in weak_orders(nt):
            k += 1
            if k % res.nshards != res.shard:
                continue
            kind = KINDS[k % 5]
            beta, kappa, tau = gen_config(rng)
            g = make_game(kind, gen_teams(rng, "typical", beta, n=nt, maxsize=2), beta=beta, kappa=kappa, tau=tau)
            res.case(dict(game=g, dense=wo))
            allgames += c03_one(res, g, wo, rng)
    corr_games(res, allgames, "property", "C03 dense ranks / order of processing")
    core.trace_games(res, allgames[:: max(1, len(allgames) // size(res, 800, 1500))], "correspondence", "C03")
    res.rule = ("for each game and weak order: ranks in 9 order-isomorphic encodings (int, float, mixed int/float, negative, "
                "|v|>=2^53, gaps, bool, fractional, ints beyond the float range), scores (negated), omitted vs [0..n-1]; all results must be bit-identical "
                "to the dense-int baseline on the implementation, and equal to the model (exact Python int/float comparison); "
                "plus literal tie pairs such as [1, 1.0], [2**53+1, 2.0**53]")


register("C03", c03, c03_item)


# =============================================================================== C04
def permute_game(g, perm, rng=None, shuffle_players=False):
    """teams listed in the order perm (new position k holds old team perm[k]); ranks alongside"""
    g2 = dict(g)
    n = len(g["teams"])
    teams = [list(g["teams"][p]) for p in perm]
    inner = []
    for t in teams:
        idx = list(range(len(t)))
        if shuffle_players and rng is not None:
            rng.shuffle(idx)
        inner.append(idx)
    g2["teams"] = [[t[i] for i in idx] for t, idx in zip(teams, inner)]
    if g["oc"][0] == "N":
        g2["oc"] = ("R", [p for p in perm])
    else:
        g2["oc"] = (g["oc"][0], [g["oc"][1][p] for p in perm])
    return g2, inner


def keeps_tie_order(g, perm):
    if g["oc"][0] == "N":
        return True
    v = g["oc"][1]
    key = (lambda x: x) if g["oc"][0] == "R" else (lambda x: -x)
    for a in range(len(perm)):
        for b in range(a + 1, len(perm)):
            if key(v[perm[a]]) == key(v[perm[b]]) and perm[a] > perm[b]:
                return False
    return True


def c04_one(res, g, perms, rng, games_out):
    inp = dict(type="game", game=g)
    try:
        base = impl_teams(g)
    except Exception as e:  # noqa: BLE001
        res.fail("property", "C04: valid call raised %s" % type(e).__name__, inp)
        return
    games_out.append(g)
    rel = 4 * rel_budget(g)
    for perm in perms:
        if IS_PART[g["kind"]] and not keeps_tie_order(g, perm):
            res.count("skipped_tie_reordering_partial")
            continue
        g2, inner = permute_game(g, perm, rng, shuffle_players=True)
        games_out.append(g2)
        try:
            out = impl_teams(g2)
        except Exception as e:  # noqa: BLE001
            res.fail("property", "C04: permuted presentation raised %s" % type(e).__name__, dict(type="game", game=g2))
            continue
        # map back
        back = [None] * len(perm)
        for k, p in enumerate(perm):
            team = [None] * len(inner[k])
            for pos, src in enumerate(inner[k]):
                team[src] = out[k][pos]
            back[p] = team
        res.count("perm_checked")
        mm = teams_close(g, back, base, rel)
        if mm:
            inp2 = dict(type="c04", game=g, perm=list(perm))
            if tm_zero_gap_explains(g, back, base, rel):
                res.count("known_tm_tie_zero_gap")
                res.fail("property", "C04 [tm-tie-zero-gap]: Thurstone-Mosteller tie between teams of equal total mu: vt's asymptote jumps by 2t at "
                         "x = 0, so re-summing the team mu in another player order flips the draw-margin term: " + mm, inp2)
            else:
                res.fail("property", "C04: listing the teams in order %s (players shuffled) changes a posterior: %s" % (perm, mm), inp2)


def tm_zero_gap_explains(g, A, B, rel):
    """True when every deviation between A and B is a mu deviation of a team that is tied with a team of
    (up to rounding) equal total mu under a Thurstone-Mosteller model, no larger than the draw-margin terms
    2 t sigma_i^2/c_iq of those pairs (finding K1, DESIGN §9)."""
    if not (IS_TM[g["kind"]] and has_ties(g)):
        return False
    tau = g["tau"] if g["tauopt"] is None else g["tauopt"]
    n = len(g["teams"])
    key = g["oc"][1] if g["oc"][0] == "R" else [-v for v in g["oc"][1]]
    s2 = [sum(s * s + tau * tau for (_, s) in t) for t in g["teams"]]
    th = [math.fsum(m for (m, _) in t) for t in g["teams"]]
    absth = [sum(abs(m) for (m, _) in t) for t in g["teams"]]
    cm = 2 if g["kind"] == "TMP" else 1
    sc = core.prior_scales(g)
    for i in range(n):
        allowed = 0.0
        for q in range(n):
            if q != i and key[i] == key[q] and abs(th[i] - th[q]) <= 1e-13 * (absth[i] + absth[q]):
                c = cm * math.sqrt(s2[i] + s2[q] + 2 * g["beta"] ** 2)
                allowed += (s2[i] / c) * 2 * (g["kappa"] / c)
        for j, (x, y) in enumerate(zip(A[i], B[i])):
            if not close(x[1], y[1], rel, sc[i][j]):
                return False
            if not close(x[0], y[0], rel, g["beta"]):
                share = sc[i][j] ** 2 / s2[i]
                if abs(x[0] - y[0]) > share * allowed * (1 + 1e-6) + rel * g["beta"]:
                    return False
    return True


def c04_item(res, item):
    rng = random.Random(res.seed)
    g = G(item)
    res.case(g)
    n = len(g["teams"])
    perms = [tuple(item["perm"])] if "perm" in item else list(itertools.permutations(range(n)))[:120]
    games = []
    c04_one(res, g, perms, rng, games)
    corr_games(res, games, "correspondence", "C04 rate numbers")


def c04(res):
    rng = random.Random(res.seed)
    games = []
    n = size(res, 350, 2500)
    for _ in range(n):
        g = gen_game(rng, options=rng.random() < 0.3)
        nt = len(g["teams"])
        res.case(g)
        describe(res, g)
        if nt <= (4 if res.tier == "quick" else 5) and rng.random() < 0.5:
            perms = list(itertools.permutations(range(nt)))
            res.count("exhaustive_perm_games")
        else:
            perms = []
            for _ in range(4):
                p = list(range(nt)); rng.shuffle(p); perms.append(tuple(p))
            perms.append(tuple(reversed(range(nt))))
        c04_one(res, g, perms, rng, games)
    # limit_sigma with a mixed outcome inside one team: under a large tau a settled member's sigma rises (and is capped) while a new
    # member's falls — the cap is per player, whatever the listing order of the members
    for k in range(size(res, 40, 200)):
        kind = KINDS[k % 5]
        beta = core.DEFAULTS["beta"] * rng.choice([1.0, 1.0, 0.01, 30.0])
        nt = 2 + k % 3
        teams = []
        for _ in range(nt):
            sg = [beta * 10 ** rng.uniform(-2.5, -1.0), beta * rng.uniform(1.0, 3.0), beta * rng.uniform(4.0, 9.0), beta * 10 ** rng.uniform(-2.0, 0.5)]
            rng.shuffle(sg)
            teams.append([(rng.gauss(25, 5) * beta / core.DEFAULTS["beta"], s_) for s_ in sg[: rng.randint(2, 4)]])
        g = make_game(kind, teams, oc=("R", encode_ranks(rng, random_weak_order(rng, nt), "int")), beta=beta, kappa=1e-4,
                      tau=beta * rng.uniform(0.3, 1.5), ls=(k % 2 == 0), lsopt=(None if k % 2 == 0 else True))
        res.case(g); res.count("mixed_clamp_games")
        perms = [tuple(range(nt)), tuple(reversed(range(nt)))]
        c04_one(res, g, perms, rng, games)
    corr_games(res, games, "correspondence", "C04 rate numbers")
    res.rule = ("each game re-presented under team permutations (all n! for n<=4 quick / n<=5 thorough on half the games, 5 "
                "sampled otherwise; partial-pairing models: only permutations keeping tied teams in relative order) with the "
                "players of every team shuffled; posteriors compared slot-by-slot within 4x the computed float budget; both "
                "presentations also compared with the Lean model")


register("C04", c04, c04_item)


# =============================================================================== C05
def deltas(g, out):
    return [[o[0] - p[0] for o, p in zip(to, tp)] for to, tp in zip(out, g["teams"])]


def mu_tol(g):
    """absolute slack for sign statements about a posterior mu"""
    mx = max(abs(m) for t in g["teams"] for (m, _) in t)
    return 1e-12 * max(g["beta"], mx) + 8 * math.ulp(mx)


def with_ranks(g, ranks):
    g2 = dict(g); g2["oc"] = ("R", list(ranks)); return g2


def team_theta(g, i):
    return sum(m for (m, _) in g["teams"][i])


def c05_sole(res, g, games):
    """sole first never loses mu, sole last never gains; same direction, proportional to variance"""
    inp = dict(type="game", game=g)
    try:
        out = impl_teams(g)
    except Exception as e:  # noqa: BLE001
        res.fail("property", "C05: valid call raised %s" % type(e).__name__, inp)
        return
    games.append(g)
    n = len(g["teams"])
    if g["oc"][0] == "N":
        key = list(range(n))
    elif g["oc"][0] == "R":
        key = list(g["oc"][1])
    else:
        key = [-v for v in g["oc"][1]]
    d = deltas(g, out)
    tol = mu_tol(g)
    tau = g["tau"] if g["tauopt"] is None else g["tauopt"]
    for i in range(n):
        first = all(key[i] < key[q] for q in range(n) if q != i)
        last = all(key[i] > key[q] for q in range(n) if q != i)
        if first:
            res.count("sole_first")
            if any(x < -tol for x in d[i]):
                res.fail("property", "C05: team %d finished alone in first place but a member's mu changed by %r" % (i, min(d[i])), inp)
        if last:
            res.count("sole_last")
            if any(x > tol for x in d[i]):
                res.fail("property", "C05: team %d finished alone in last place but a member's mu changed by %r" % (i, max(d[i])), inp)
        # same direction, proportional to the tau-inflated variance
        var = [s * s + tau * tau for (_, s) in g["teams"][i]]
        jm = max(range(len(var)), key=lambda j: var[j])
        if var[jm] > 0:
            omega_est = d[i][jm] / var[jm]
            for j in range(len(var)):
                exp_ = omega_est * var[j]
                slack = 1e-7 * abs(exp_) + 16 * math.ulp(max(abs(g["teams"][i][j][0]), abs(out[i][j][0]), abs(g["teams"][i][jm][0]))) * max(1.0, var[j] / var[jm]) + tol
                if abs(d[i][j] - exp_) > slack:
                    res.fail("property", "C05: members of team %d do not move in proportion to their variance: member %d moved %r, expected %r" % (
                        i, j, d[i][j], exp_), inp)
                    break


def c05_two(res, g, games):
    """two-team game: loss <= draw <= win, prior between loss and win, draw direction"""
    inp = dict(type="game", game=g)
    outs = {}
    for name, r in (("win", [0, 1]), ("draw", [0, 0]), ("loss", [1, 0])):
        g2 = with_ranks(g, r)
        games.append(g2)
        try:
            outs[name] = impl_teams(g2)
        except Exception as e:  # noqa: BLE001
            res.fail("property", "C05: valid call raised %s" % type(e).__name__, dict(type="game", game=g2))
            return
    tol = mu_tol(g)
    tau = g["tau"] if g["tauopt"] is None else g["tauopt"]
    s2 = [sum(s * s + tau * tau for (_, s) in t) for t in g["teams"]]
    c = math.sqrt(s2[0] + s2[1] + 2 * g["beta"] ** 2) * (2 if g["kind"] == "TMP" else 1)
    th = [team_theta(g, 0), team_theta(g, 1)]
    for ti in (0, 1):
        w, l = ("win", "loss") if ti == 0 else ("loss", "win")
        for j, (m, s) in enumerate(g["teams"][ti]):
            mw, md, ml = outs[w][ti][j][0], outs["draw"][ti][j][0], outs[l][ti][j][0]
            res.count("two_team_players")
            if not (ml <= md + tol and md <= mw + tol):
                res.fail("property", "C05: two-team game, player [%d][%d]: loss %r <= draw %r <= win %r fails" % (ti, j, ml, md, mw),
                         dict(type="c05two", game=g))
            if not (ml <= m + tol and m <= mw + tol):
                res.fail("property", "C05: two-team game, player [%d][%d]: prior %r not between loss %r and win %r" % (ti, j, m, ml, mw),
                         dict(type="c05two", game=g))
            margin = 0.0
            if IS_TM[g["kind"]]:
                share = (s * s + tau * tau) / s2[ti]
                margin = share * (s2[ti] / c) * (g["kappa"] / c) * (1 + 1e-6)
            dd = md - m
            if th[ti] > th[1 - ti] and dd > margin + tol:
                res.fail("property", "C05: a draw raised a member of the stronger team by %r (allowed draw-margin term %r)" % (dd, margin),
                         dict(type="c05two", game=g))
            if th[ti] < th[1 - ti] and dd < -margin - tol:
                res.fail("property", "C05: a draw lowered a member of the weaker team by %r (allowed draw-margin term %r)" % (dd, margin),
                         dict(type="c05two", game=g))


def c05_swap(res, g, rng, games):
    """no ties, PL / full pairing: exchanging places with a better-placed team never lowers mu"""
    n = len(g["teams"])
    order = list(range(n)); rng.shuffle(order)
    g1 = with_ranks(g, order)
    games.append(g1)
    try:
        o1 = impl_teams(g1)
    except Exception as e:  # noqa: BLE001
        res.fail("property", "C05: valid call raised %s" % type(e).__name__, dict(type="game", game=g1))
        return
    tol = mu_tol(g)
    for _ in range(min(3, n)):
        i = rng.randrange(n)
        better = [q for q in range(n) if order[q] < order[i]]
        if not better:
            continue
        q = rng.choice(better)
        o2r = list(order); o2r[i], o2r[q] = o2r[q], o2r[i]
        g2 = with_ranks(g, o2r)
        games.append(g2)
        o2 = impl_teams(g2)
        res.count("swap_checked")
        for j in range(len(g["teams"][i])):
            if o2[i][j][0] < o1[i][j][0] - tol:
                res.fail("property", "C05: team %d moving from place %d up to place %d lowers member %d's posterior mu: %r -> %r" % (
                    i, order[i], order[q], j, o1[i][j][0], o2[i][j][0]), dict(type="c05swap", game=g, order=order, i=i, q=q))


def c05_identical(res, g, rng, games):
    """identical teams end ordered by place"""
    kind = g["kind"]
    n = len(g["teams"])
    tol = mu_tol(g)
    if IS_PART[kind]:
        # all teams identical
        t0 = g["teams"][0]
        g2 = dict(g); g2["teams"] = [list(t0) for _ in range(n)]
        order = list(range(n)); rng.shuffle(order)
        g2 = with_ranks(g2, order)
        games.append(g2)
        out = impl_teams(g2)
        res.count("identical_all")
        byplace = sorted(range(n), key=lambda i: order[i])
        for a, b in zip(byplace, byplace[1:]):
            for j in range(len(t0)):
                if out[a][j][0] < out[b][j][0] - tol:
                    res.fail("property", "C05: identical teams: place %d ends with mu %r below place %d with %r" % (
                        order[a], out[a][j][0], order[b], out[b][j][0]), dict(type="game", game=g2))
    else:
        if n < 2:
            return
        a, b = rng.sample(range(n), 2)
        g2 = dict(g); g2["teams"] = [list(t) for t in g["teams"]]
        g2["teams"][b] = list(g2["teams"][a])
        order = list(range(n)); rng.shuffle(order)
        g2 = with_ranks(g2, order)
        games.append(g2)
        out = impl_teams(g2)
        res.count("identical_pair")
        hi, lo = (a, b) if order[a] < order[b] else (b, a)
        for j in range(len(g2["teams"][a])):
            if out[hi][j][0] < out[lo][j][0] - tol:
                res.fail("property", "C05: two identical teams: the better placed (place %d) ends with mu %r below the other (place %d) with %r" % (
                    order[hi], out[hi][j][0], order[lo], out[lo][j][0]), dict(type="game", game=g2))


def c05_item(res, item):
    rng = random.Random(res.seed)
    g = G(item)
    res.case(g)
    games = []
    c05_sole(res, g, games)
    if len(g["teams"]) == 2:
        c05_two(res, g, games)
    if not IS_PART[g["kind"]]:
        c05_swap(res, g, rng, games)
    c05_identical(res, g, rng, games)
    corr_games(res, games, "correspondence", "C05 rate numbers")


def c05(res):
    rng = random.Random(res.seed)
    games = []
    n = size(res, 500, 3000)
    for k in range(n):
        stratum = rng.choice(["typical", "wide", "mismatch", "mismatch", "corners", "equalsize"])
        g = gen_game(rng, stratum=stratum, options=True)
        res.case(g)
        describe(res, g)
        c05_sole(res, g, games)
        g2 = gen_game(rng, stratum=stratum, n=2, options=False)
        if k % 3 == 0:
            g2["tauopt"] = 0.0          # no inflation in force: the values the model sees are the values the caller passed
        res.case(g2)
        c05_two(res, g2, games)
        if not IS_PART[g["kind"]]:
            c05_swap(res, g, rng, games)
        c05_identical(res, g, rng, games)
    corr_games(res, games, "correspondence", "C05 rate numbers")
    res.rule = ("predicates of the property evaluated on the implementation: sole first / sole last sign, proportionality to the "
                "tau-inflated variance within a team, two-team loss<=draw<=win and draw direction (TM: within the draw-margin term), "
                "place exchange (PL, full pairing; tie-free), identical teams ordered by place; strata include teams 4-9 c apart; "
                "every game also compared with the Lean model")


register("C05", c05, c05_item)


# =============================================================================== C06
def c06_game(res, g, games=None):
    inp = dict(type="game", game=g)
    try:
        out = impl_teams(g)
    except Exception as e:  # noqa: BLE001
        res.fail("property", "C06: valid call raised %s" % type(e).__name__, inp)
        return None
    if games is not None:
        games.append(g)
    tau = g["tau"] if g["tauopt"] is None else g["tauopt"]
    ls = g["ls"] if g["lsopt"] is None else g["lsopt"]
    for i, t in enumerate(out):
        for j, (m, s) in enumerate(t):
            ps = g["teams"][i][j][1]
            bound = math.sqrt(ps * ps + tau * tau)
            if not (math.isfinite(s) and math.isfinite(m)):
                res.fail("property", "C06: non-finite posterior at [%d][%d]: mu %r sigma %r" % (i, j, m, s), inp)
                return out
            if not s > 0:
                res.fail("property", "C06: posterior sigma %r at [%d][%d] is not strictly positive" % (s, i, j), inp)
                return out
            if s > bound * (1 + 1e-12):
                res.fail("property", "C06: posterior sigma %r at [%d][%d] exceeds sqrt(prior^2 + tau^2) = %r (prior %r, tau %r)" % (
                    s, i, j, bound, ps, tau), inp)
                return out
            if ls and s > ps:
                res.fail("property", "C06: limit_sigma in force but posterior sigma %r at [%d][%d] exceeds the prior %r" % (s, i, j, ps), inp)
                return out
            if s >= bound * (1 - 1e-15):
                res.count("sigma_at_bound")
    return out


def c06_league(res, rng, kind, ngames, games):
    """a league on ONE model object with the rating objects fed back; per-call tau / limit_sigma arbitrary per step;
    newcomers with the default values join now and then"""
    beta, kappa, tau = gen_config(rng, default_bias=0.6)
    nplayers = rng.randint(6, 16)
    sc = beta / core.DEFAULTS["beta"]
    always_ls = rng.random() < 0.4
    ls_model = always_ls or rng.random() < 0.2
    model = MODEL_CLS[kind](beta=beta, kappa=kappa, tau=tau, limit_sigma=ls_model)
    default = (25.0 * sc, 25.0 / 3.0 * sc)
    pool = [model.rating(*(default if rng.random() < 0.6 else (rng.gauss(25, 8) * sc, rng.uniform(1, 9) * sc))) for _ in range(nplayers)]
    if rng.random() < 0.3:
        # a settled league under a large additive dynamics factor: what tau adds outweighs what a game takes away, so the bound
        # sqrt(prior^2 + tau^2) is tight and any tau other than the one in force shows
        tau = beta / rng.choice([3, 5, 10])
        model.tau = tau
        pool = [model.rating(rng.gauss(25, 3) * sc, rng.uniform(0.05, 0.5) * sc) for _ in range(nplayers)]
        res.count("settled_leagues")
    acc = [p.sigma ** 2 for p in pool]       # sigma_0^2 + sum of tau_g^2
    for gi in range(ngames):
        if rng.random() < 0.2:
            k = rng.randrange(nplayers)
            pool[k] = model.rating(*default)   # a newcomer replaces a player
            acc[k] = pool[k].sigma ** 2
        if rng.random() < 0.12:
            # the operator re-tunes the running system: the public attribute is re-assigned, later games must use it
            tau = rng.choice([0.0, tau / 2, tau * 2 + 1e-3 * beta])
            model.tau = tau
            res.count("league_tau_retuned")
        nt = rng.randint(2, min(5, nplayers // 2))
        ids = rng.sample(range(nplayers), rng.randint(nt, min(nplayers, nt * 3)))
        teams_ids = [[] for _ in range(nt)]
        for k, pid in enumerate(ids):
            teams_ids[k % nt].append(pid)
        dense = random_weak_order(rng, nt)
        tauopt = None if rng.random() < 0.6 else rng.choice([0.0, tau * 2, beta / 10, 3 * beta])
        lsopt = None if (always_ls or rng.random() < 0.7) else (rng.random() < 0.5)
        prior = [[(pool[p].mu, pool[p].sigma) for p in t] for t in teams_ids]
        if any(abs(m_) > 20 * beta or s_ > 10 * beta for t in prior for (m_, s_) in t):
            res.count("league_left_supported_range")     # |mu| <= 20 beta, sigma <= 10 beta: the supported numeric range
            return
        g = make_game(kind, prior, oc=("R", dense), beta=beta, kappa=kappa, tau=tau,
                      ls=ls_model, tauopt=tauopt, lsopt=lsopt, gamma=("D", 0.0))
        kw = dict(ranks=list(dense))
        if tauopt is not None: kw["tau"] = tauopt
        if lsopt is not None: kw["limit_sigma"] = lsopt
        try:
            out = model.rate([[pool[p] for p in t] for t in teams_ids], **kw)
        except Exception as e:  # noqa: BLE001
            res.fail("property", "C06: valid call raised %s in a league" % type(e).__name__, dict(type="game", game=g)); return
        res.count("league_games")
        res.evaluations += 1
        if gi % 9 == 0:
            games.append(g)
        teff = tau if tauopt is None else tauopt
        ls = ls_model if lsopt is None else lsopt
        for t, to, tp in zip(teams_ids, out, prior):
            for pid, p, (pm, ps) in zip(t, to, tp):
                acc[pid] += teff * teff
                s_ = p.sigma
                bound = math.sqrt(ps * ps + teff * teff)
                inp = dict(type="c06league", game=g, note="game %d of a league on one model object" % gi)
                if not (math.isfinite(s_) and s_ > 0):
                    res.fail("property", "C06: league game %d: sigma %r not finite and positive" % (gi, s_), inp); return
                if s_ > bound * (1 + 1e-12):
                    res.fail("property", "C06: league game %d (same model object, per-call tau %r): sigma %r exceeds sqrt(prior^2+tau^2) = %r (prior %r)" % (
                        gi, tauopt, s_, bound, ps), inp); return
                if ls and s_ > ps:
                    res.fail("property", "C06: league game %d: limit_sigma in force but sigma rose %r -> %r" % (gi, ps, s_), inp); return
                if s_ * s_ > acc[pid] * (1 + 1e-9):
                    res.fail("property", "C06: along a league, player %d's sigma^2 %r exceeds sigma_0^2 + sum tau^2 = %r after %d games" % (
                        pid, s_ * s_, acc[pid], gi + 1), inp); return
                pool[pid] = p


def c06_league_model(res, rng):
    """short leagues (ratings fed back) on the implementation against the Lean league machine (`playLeague`): the
    composition — load by player, rate, write back — is compared, not only single games; the kind may change from game
    to game (one model object per kind, same parameters)"""
    lines, finals = [], []
    for _ in range(size(res, 60, 300)):
        beta, kappa, tau = gen_config(rng, default_bias=0.6)
        ls = rng.random() < 0.3
        sc = beta / core.DEFAULTS["beta"]
        npl = rng.randint(4, 9)
        init = [(rng.gauss(25, 8) * sc, rng.uniform(1, 9) * sc) for _ in range(npl)]
        models = {k: MODEL_CLS[k](beta=beta, kappa=kappa, tau=tau, limit_sigma=ls) for k in KINDS}
        pool = [models["PL"].rating(m, s_) for (m, s_) in init]
        toks = [core.f2h(beta), core.f2h(kappa), core.f2h(tau), "1" if ls else "0", "D", core.f2h(0.0), str(npl)]
        for (m, s_) in init:
            toks += [core.f2h(m), core.f2h(s_)]
        ng = rng.randint(2, 8)
        toks.append(str(ng))
        ok = True
        noisy = False
        for _g in range(ng):
            kind = rng.choice(KINDS)
            nt = rng.randint(2, min(4, npl // 2))
            ids = rng.sample(range(npl), rng.randint(nt, min(npl, 2 * nt)))
            tid = [[] for _ in range(nt)]
            for k, pid in enumerate(ids):
                tid[k % nt].append(pid)
            dense = random_weak_order(rng, nt)
            mode = rng.choice(["R", "S", "N"])
            if IS_TM[kind] and mode != "N" and len(set(dense)) < nt:
                noisy = True        # a Thurstone-Mosteller tie: wt amplifies rounding by 1e-13/t (C17), and the league feeds it back
            tauopt = None if rng.random() < 0.6 else rng.choice([0.0, beta / 10])
            lsopt = None if rng.random() < 0.7 else (rng.random() < 0.5)
            toks += [kind, "-" if tauopt is None else core.f2h(tauopt), "-" if lsopt is None else ("1" if lsopt else "0"), mode,
                     str(nt)] + [str(len(t)) for t in tid] + [str(p) for t in tid for p in t]
            kw = {}
            if mode != "N":
                vals = encode_ranks(rng, dense, rng.choice(["int", "float", "frac"]))
                toks += [core.num_token(v) for v in vals]
                kw["ranks" if mode == "R" else "scores"] = vals
            if tauopt is not None: kw["tau"] = tauopt
            if lsopt is not None: kw["limit_sigma"] = lsopt
            RC = core.RATING_CLS[kind]
            teams = [[RC(pool[p].mu, pool[p].sigma) for p in t] for t in tid]      # each class rates its own rating objects
            try:
                out = models[kind].rate(teams, **kw)
            except Exception as e:  # noqa: BLE001
                res.fail("property", "C06: valid call raised %s in a league" % type(e).__name__, None); ok = False; break
            for t, to in zip(tid, out):
                for pid, p in zip(t, to):
                    pool[pid] = p
        if ok:
            lines.append("LEAGUE " + " ".join(toks))
            finals.append((beta, init, [(p.mu, p.sigma) for p in pool], 2e-5 if noisy else 2e-7))
    drv = Driver()
    outs = drv.run(lines)
    # the same leagues on 192-bit floats: the distance between the model's own double run and its exact run is the rounding
    # noise of this very history (a fed-back sequence amplifies it, Thurstone-Mosteller ties most of all)
    import symtrace
    outsx = drv.run([l.replace("LEAGUE ", "LEAGUEX ", 1) for l in lines])
    for (beta, init, fin, tol), o, ox in zip(finals, outs, outsx):
        want = [tuple(core.h2f(x) for x in tok.split(":")) for tok in o.split(" ")[1:]]
        exact_ = [tuple(float(symtrace.parse_bf(x)) for x in tok.split(":")) for tok in ox.split(" ")[1:] if tok]
        res.traces += 1
        res.count("league_machine_comparisons")
        for pid, (a, b, e) in enumerate(zip(fin, want, exact_)):
            okm = abs(a[0] - e[0]) <= tol * max(abs(e[0]), beta) + 30 * abs(b[0] - e[0])
            oks = abs(a[1] - e[1]) <= tol * max(abs(e[1]), init[pid][1]) + 30 * abs(b[1] - e[1])
            if not (okm and oks):
                res.fail("correspondence", "C06: after a league of fed-back games player %d holds %r on the implementation, %r on the Lean league machine (doubles), %r on 192-bit floats" % (pid, a, b, e), None)
                break


def c06_item(res, item):
    g = G(item)
    res.case(g)
    games = []
    c06_game(res, g, games)
    corr_games(res, games, "correspondence", "C06 rate numbers")


def c06(res):
    rng = random.Random(res.seed)
    if res.shard == 0:
        core.optimised_interpreter(res, "C06")
    games = []
    n = size(res, 2500, 15000)
    for k in range(n):
        stratum = rng.choice(["typical", "wide", "mismatch", "mismatch", "mismatch", "corners", "identical", "lopsided", "lopsided", "lowedge", "bigsum"])
        kind = rng.choice(KINDS + ["TMF", "TMP"])
        g = gen_game(rng, kind=kind, stratum=stratum)
        if rng.random() < 0.25:
            # draw margin t = kappa/c not tiny: kappa fixed, beta (and the ratings) scaled down
            g["kappa"] = rng.choice([1e-2, 1e-3, 1e-2])
        if rng.random() < 0.3:
            g["tauopt"] = 0.0
        res.case(g)
        describe(res, g)
        c06_game(res, g, games if k % 2 == 0 else None)
    # large draw margins: small beta, teams many c apart, ties
    for k in range(size(res, 300, 2000)):
        kind = rng.choice(["TMF", "TMP"])
        beta = core.DEFAULTS["beta"] * 10 ** rng.uniform(-3.5, -1.5)
        kappa = rng.choice([1e-2, 3e-3, 1e-3])
        sig = beta * rng.uniform(0.3, 2)
        c = math.sqrt(2 * sig * sig + 2 * beta * beta) * (2 if kind == "TMP" else 1)
        z = rng.uniform(0, 9)
        g = make_game(kind, [[(0.0, sig)], [(z * c, sig)]], oc=("R", [0, 0]), beta=beta, kappa=kappa, tau=0.0)
        res.case(g)
        res.count("large_margin_tie")
        c06_game(res, g, games)
    for k in range(size(res, 20, 60)):
        c06_league(res, rng, KINDS[k % 5], size(res, 120, 1200), games)
    corr_games(res, games, "correspondence", "C06 rate numbers")
    c06_league_model(res, rng)
    import exact
    exact.exact_leagues(res, random.Random(res.seed * 7919 + 13 + res.shard), size(res, 40, 120), "C06 league")
    res.rule = ("per game on the implementation: finite, sigma > 0, sigma <= sqrt(prior^2+tau^2) (1e-12 relative slack), with "
                "limit_sigma sigma <= prior exactly; strata incl. teams 4-9 c apart, TM ties at draw margins t up to ~0.3, tau=0 "
                "per call; leagues with ratings fed back and per-call tau/limit_sigma arbitrary per step: sigma_k^2 <= sigma_0^2 + "
                "sum tau_g^2, non-increasing under limit_sigma; every second game also compared with the Lean model")


register("C06", c06, c06_item)


# =============================================================================== C07
def c07_game(res, g, games):
    inp = dict(type="game", game=g)
    try:
        out = impl_teams(g)
    except Exception as e:  # noqa: BLE001
        res.fail("property", "C07: valid call raised %s" % type(e).__name__, inp)
        return
    games.append(g)
    tau = g["tau"] if g["tauopt"] is None else g["tauopt"]
    n = len(g["teams"])
    s2 = [sum(s * s + tau * tau for (_, s) in t) for t in g["teams"]]
    resid, gross, cond = 0.0, 0.0, 0.0
    for i in range(n):
        dsum = math.fsum(o[0] - p[0] for o, p in zip(out[i], g["teams"][i]))
        resid += dsum / s2[i]
        gross += abs(dsum) / s2[i]
        cond += sum(2 * math.ulp(max(abs(o[0]), abs(p[0]))) for o, p in zip(out[i], g["teams"][i])) / s2[i]
    # rounding of the Omega sums themselves: each of the <= n terms of Omega_i is O(1) (a probability or a V value times 1/A), so
    # Omega_i carries ~n eps, the team's mu change (s2_i / c) * that, and its weighted share n eps / c — also when the exact
    # change is zero (identical teams all tied) and however small the mus are
    c_lo = math.sqrt(2 * min(s2) + 2 * g["beta"] ** 2)
    cond += 4 * n * n * 2.3e-16 / c_lo
    allow = 1e-9 * gross + cond + 1e-300
    if IS_TM[g["kind"]] and has_ties(g):
        key = g["oc"][1] if g["oc"][0] == "R" else [-v for v in g["oc"][1]]
        cm = 2 if g["kind"] == "TMP" else 1
        for i in range(n):
            for q in range(i + 1, n):
                if key[i] == key[q]:
                    c2 = (s2[i] + s2[q] + 2 * g["beta"] ** 2) * cm * cm
                    allow += 2 * g["kappa"] / c2 * (1 + 1e-6)
                    # float noise of vt on the exact branch: ~1e-13/t relative to 1
                    allow += 4e-13 / max(tm_tmin(g), 1e-300) / math.sqrt(c2)
    res.count("residual_checked")
    if abs(resid) > allow:
        res.fail("property", "C07: precision-weighted mu change sums to %r, allowed %r (gross flow %r)" % (resid, allow, gross), inp)
    # equal team variances: plain sum of mu changes is zero
    if max(s2) - min(s2) <= 1e-12 * max(s2) and not (IS_TM[g["kind"]] and has_ties(g)):
        tot = math.fsum(o[0] - p[0] for to, tp in zip(out, g["teams"]) for o, p in zip(to, tp))
        gross2 = sum(abs(o[0] - p[0]) for to, tp in zip(out, g["teams"]) for o, p in zip(to, tp))
        res.count("equal_variance_games")
        if abs(tot) > 1e-9 * gross2 + cond * max(s2) + 1e-300:
            res.fail("property", "C07: equal team variances but mu changes sum to %r (gross %r)" % (tot, gross2), inp)


def c07_item(res, item):
    g = G(item)
    res.case(g)
    games = []
    c07_game(res, g, games)
    corr_games(res, games, "correspondence", "C07 rate numbers")


def c07(res):
    rng = random.Random(res.seed)
    games = []
    for k in range(size(res, 2500, 15000)):
        g = gen_game(rng, stratum=rng.choice(["typical", "wide", "mismatch", "identical", "equalsize", "corners", "lopsided", "bigsum"]))
        if rng.random() < 0.3:
            # equal team variances
            s = g["teams"][0][0][1]
            sz = len(g["teams"][0])
            g["teams"] = [[(m, s) for (m, _) in (t * sz)[:sz]] for t in g["teams"]]
        res.case(g)
        describe(res, g)
        c07_game(res, g, games)
    corr_games(res, games, "correspondence", "C07 rate numbers")
    res.rule = ("residual sum_i (sum_j dmu_ij)/sigma_i^2 measured on the implementation with the conditioning term sum ulp(mu)/sigma_i^2; "
                "bound 1e-9 x gross flow (+ 2 kappa/c^2 per tied pair and vt float noise for Thurstone-Mosteller ties); equal-variance "
                "games: plain sum; all outcomes incl. multi-way ties, beta/tau/kappa/gamma varied; every game compared with the Lean model")


register("C07", c07, c07_item)


# =============================================================================== C08
def c08_gen(rng):
    kind = rng.choice(KINDS)
    beta = core.DEFAULTS["beta"] * 10 ** rng.uniform(-3, 3)
    kappa = rng.choice([1e-2, 1e-4, 1e-8, 1e-12, 10 ** rng.uniform(-12, -2)])
    tau = rng.choice([0.0, beta / 50, beta * 5, 1e-9 * beta])
    n = rng.randint(2, 8)
    teams = []
    mode = rng.choice(["corner", "corner", "wide", "maxmismatch", "zero-sigma"])
    for i in range(n):
        sz = rng.choice([1, 2, 8, 16, rng.randint(1, 16)])
        if mode == "corner":
            t = [(rng.choice([-20, 20, 0]) * beta, rng.choice([1e-4, 10, 1]) * beta) for _ in range(sz)]
        elif mode == "wide":
            t = [(rng.uniform(-20, 20) * beta, beta * 10 ** rng.uniform(-4, 1)) for _ in range(sz)]
        elif mode == "maxmismatch":
            sgn = 1 if i % 2 else -1
            t = [(sgn * 20 * beta, 1e-4 * beta) for _ in range(sz)]
        else:
            t = [(rng.uniform(-20, 20) * beta, 0.0) for _ in range(sz)]
            if tau == 0.0:
                tau = beta / 50
        teams.append(t)
    alias = False
    if rng.random() < 0.15:
        teams[-1] = list(teams[0])          # the same squad entered twice (predictions: as one list object)
        alias = True
    dense = random_weak_order(rng, n)
    oc = rng.choice([("R", dense), ("S", dense), ("N", None)])
    tauopt = None
    if mode == "zero-sigma" and rng.random() < 0.5:
        # tau > 0 in force through the per-call argument only (the model's own tau is 0), or the other way round
        tauopt, tau = (tau, 0.0) if rng.random() < 0.7 else (0.0 if False else tau * 2, tau)
    g = make_game(kind, teams, oc=oc, beta=beta, kappa=kappa, tau=tau, ls=rng.random() < 0.2,
                  gamma=rng.choice(gen.GAMMAS), tauopt=tauopt)
    if alias:
        g["alias"] = True
    return g


def predict_all(g):
    model = build_model(g)
    teams = build_teams(model, g)
    return model.predict_win(teams), model.predict_draw(teams), model.predict_rank(teams)


def c08_one(res, g, games):
    inp = dict(type="game", game=g)
    games.append(g)
    try:
        out = impl_teams(g)
    except Exception as e:  # noqa: BLE001
        t_eff = g["tau"] if g.get("tauopt") is None else g["tauopt"]
        if isinstance(e, ZeroDivisionError) and t_eff > 0 and t_eff * t_eff == 0.0 and any(all(s_ * s_ == 0.0 for (_m, s_) in t) for t in g["teams"]):
            # known finding K2, verified: the tau in force is positive but its square underflows, and a whole team has sigma 0
            res.fail("property", "C08 [tau-squared-underflow]: rate raised ZeroDivisionError: a team whose members all have sigma 0.0 under a positive tau %r "
                     "whose square underflows to 0.0" % t_eff, inp)
        else:
            res.fail("property", "C08: rate raised %s: %s" % (type(e).__name__, e), inp)
        out = None
    if out is not None and not all(math.isfinite(x) for t in out for p in t for x in p):
        res.fail("property", "C08: rate returned a non-finite number", inp)
    try:
        import p_pred
        pw, pd, pr = p_pred.impl_pred(g)
        if len(pw) != len(g["teams"]) or len(pr) != len(g["teams"]):
            res.fail("property", "C08: a prediction returned %d / %d entries for %d teams" % (len(pw), len(pr), len(g["teams"])), inp)
        nums = list(pw) + [pd] + [p for (_, p) in pr]
        if not all(math.isfinite(x) for x in nums):
            res.fail("property", "C08: a prediction is not finite: %r" % (nums,), inp)
    except Exception as e:  # noqa: BLE001
        res.fail("property", "C08: a predict operation raised %s: %s" % (type(e).__name__, e), inp)


def c08_item(res, item):
    g = G(item)
    res.case(g)
    games = []
    c08_one(res, g, games)
    t_eff = g["tau"] if g.get("tauopt") is None else g["tauopt"]
    if t_eff > 0 and t_eff * t_eff == 0.0:
        return          # known finding K2: the implementation raises where the Float model yields NaN; nothing further to compare
    corr_games(res, games, "correspondence", "C08 outcome class")


def c08(res):
    rng = random.Random(res.seed)
    games = []
    for k_ in range(size(res, 1500, 10000)):
        # three games in four from the domain corners; one in four from the general strata (kappa floor reached under a large gamma,
        # lopsided and big-sum lobbies, newcomers, equal ordinals, ...): totality is a claim about every valid game
        g = c08_gen(rng) if k_ % 4 else gen_game(rng, stratum=("floor" if k_ % 16 == 0 else None))
        res.case(g)
        describe(res, g)
        c08_one(res, g, games)
    outs = Driver().run([rate_line(g) for g in games])
    for g, o in zip(games, outs):
        res.traces += 1
        if not o.startswith("OK "):
            res.fail("correspondence", "C08: the guarded model does not return finite numbers: " + o[:60], dict(type="game", game=g))
    res.rule = ("domain corners: beta over six decades with mu/sigma co-scaled, |mu| = 20 beta, sigma in {1e-4, 1, 10} beta, 16-player "
                "teams, sigma = 0 with tau > 0, kappa down to 1e-12, maximal mismatches, all outcomes; rate and the three predictions on "
                "the implementation must return finite numbers; the Float model must be finite on the same inputs")


register("C08", c08, c08_item,
         assumptions=["overflow/underflow of IEEE doubles inside sums and products is sampled at the domain corners, not proved (theorems are over the reals)"])


# =============================================================================== C15
def c15_one(res, g):
    """per-call tau / limit_sigma vs constructor setting: bit-identical"""
    inp = dict(type="game", game=g)
    beta = g["beta"]
    for t in (0.0, 1e-9 * beta, g["tau"], 7.5 * beta, 0, 1, 10, 25.0 / 300.0):
        for b in (True, False, None):
            for model_tau in (g["tau"], 0.0, 3 * beta):
                for model_ls in (False, True):
                    ga = dict(g); ga.update(tau=model_tau, ls=model_ls, tauopt=t, lsopt=b)
                    gb = dict(g); gb.update(tau=t, ls=(model_ls if b is None else b), tauopt=None, lsopt=None)
                    try:
                        A = impl_teams(ga); B = impl_teams(gb)
                    except Exception as e:  # noqa: BLE001
                        res.fail("property", "C15: valid call raised %s" % type(e).__name__, dict(type="game", game=ga))
                        return
                    res.count("option_combinations")
                    if A != B:
                        res.fail("property", "C15: rate(tau=%r, limit_sigma=%r) on a model with tau=%r, limit_sigma=%r differs from a model constructed with those settings: %r" % (
                            t, b, model_tau, model_ls, p_first(A, B)), dict(type="c15", game=ga, other=gb))
                        return
    # (a) the constructor's settings re-assigned on the public attributes afterwards, arguments omitted;
    # (b) the documented positional form rate(teams, ranks, scores, tau, limit_sigma);
    # (c) a model whose default mu is not 25, with tau exactly the library default 25/300
    import hashlib as _h
    sel = int(_h.sha1(repr(g["teams"]).encode()).hexdigest()[:6], 16)
    t = (0.0, 1e-9 * beta, g["tau"], 7.5 * beta, 25.0 / 300.0)[sel % 5]
    b = (True, False)[sel // 5 % 2]
    model_tau = (g["tau"], 0.0, 3 * beta)[sel // 10 % 3]
    model_ls = (False, True)[sel // 30 % 2]
    target = dict(g); target.update(tau=t, ls=b, tauopt=None, lsopt=None)
    try:
        want = impl_teams(target)
        m = build_model(dict(g, tau=model_tau, ls=model_ls))
        m.predict_win(build_teams(m, g))
        m.tau = t; m.limit_sigma = b
        kw = {}
        if g["oc"][0] == "R": kw["ranks"] = list(g["oc"][1])
        elif g["oc"][0] == "S": kw["scores"] = list(g["oc"][1])
        got = [[(p.mu, p.sigma) for p in tm] for tm in m.rate(build_teams(m, g), **kw)]
        res.count("settings_reassigned_after_construction")
        if got != want:
            res.fail("property", "C15: a model constructed with tau=%r, limit_sigma=%r whose public attributes were then set to tau=%r, limit_sigma=%r "
                     "(arguments omitted) differs from a model constructed with those settings: %r" % (model_tau, model_ls, t, b, first_diff(got, want)),
                     dict(type="c15", game=dict(g, tau=model_tau, ls=model_ls), other=target)); return
        m2 = build_model(dict(g, tau=model_tau, ls=model_ls))
        pos = m2.rate(build_teams(m2, g), kw.get("ranks"), kw.get("scores"), t, b)
        res.count("options_passed_positionally")
        if [[(p.mu, p.sigma) for p in tm] for tm in pos] != want:
            res.fail("property", "C15: rate(teams, ranks, scores, %r, %r) with the options passed by position differs from a model constructed with those settings" % (t, b),
                     dict(type="c15", game=dict(g, tau=model_tau, ls=model_ls, tauopt=t, lsopt=b), other=target)); return
        for mm_, t_ in ((1500.0, t), (0.5, t), (1500.0, 25.0 / 300.0), (0.0, 25.0 / 300.0)):
            want_ = want if t_ == t else impl_teams(dict(target, tau=t_))
            A = impl_teams(dict(g, model_mu=mm_, tau=t_, ls=b, tauopt=None, lsopt=None))
            B = impl_teams(dict(g, model_mu=mm_, tau=model_tau, ls=model_ls, tauopt=t_, lsopt=b))
            res.count("models_with_other_default_mu")
            if A != want_ or B != want_:
                t = t_
                res.fail("property", "C15: on a model whose default mu is %r, tau=%r / limit_sigma=%r given to the constructor (%s) or per call (%s) differ from the model with default mu 25"
                         % (mm_, t, b, "differs" if A != want_ else "same", "differs" if B != want_ else "same"),
                         dict(type="c15", game=dict(g, model_mu=mm_, tau=t, ls=b, tauopt=None, lsopt=None), other=target)); return
    except Exception as e:  # noqa: BLE001
        res.fail("property", "C15: valid call raised %s" % type(e).__name__, inp); return
    # omitted = the model's own
    for model_ls in (False, True):
        ga = dict(g); ga.update(ls=model_ls, tauopt=None, lsopt=None)
        gb = dict(g); gb.update(ls=model_ls, tauopt=g["tau"], lsopt=model_ls)
        if impl_teams(ga) != impl_teams(gb):
            res.fail("property", "C15: omitting tau/limit_sigma differs from passing the model's own settings", dict(type="c15", game=ga, other=gb))


def p_first(A, B):
    return first_diff(A, B)


def c15_item(res, item):
    g = G(item)
    res.case(g)
    if "other" in item:
        A, B = impl_teams(g), impl_teams(item["other"])
        if A != B:
            res.fail("property", "C15: per-call option differs from the constructor setting: %r" % (first_diff(A, B),), item)
    c15_one(res, g)
    corr_games(res, [g], "correspondence", "C15 option resolution")


def c15_positional_constructor(res, rng):
    """a model built by position, Model(mu, sigma, beta, kappa, gamma, tau, limit_sigma), is the model built with those keywords: its
    model-level tau / limit_sigma are what per-call tau / limit_sigma mean"""
    for k_ in range(size(res, 20, 100)):
        kind = KINDS[k_ % 5]
        M = MODEL_CLS[kind]
        g = gen_game(rng, kind=kind, stratum=rng.choice(["typical", "floor", "wide"]), options=False)
        t, b = rng.choice([0.0, g["beta"] / 3, g["beta"] * 2]), (k_ % 3 != 0)
        dg = M().gamma
        kw = dict(ranks=list(g["oc"][1])) if g["oc"][0] == "R" else (dict(scores=list(g["oc"][1])) if g["oc"][0] == "S" else {})
        res.count("positionally_constructed_models")
        try:
            m_pos = M(25.0, 25.0 / 3.0, g["beta"], g["kappa"], dg, t, b)
            m_kw = M(beta=g["beta"], kappa=g["kappa"], tau=t, limit_sigma=b)
            m_call = M(beta=g["beta"], kappa=g["kappa"], tau=t * 3 + 1.0, limit_sigma=not b)
            r_pos = [[(p.mu, p.sigma) for p in tm] for tm in m_pos.rate([[m_pos.rating(mu=m, sigma=s_) for (m, s_) in tm] for tm in g["teams"]], **kw)]
            r_kw = [[(p.mu, p.sigma) for p in tm] for tm in m_kw.rate([[m_kw.rating(mu=m, sigma=s_) for (m, s_) in tm] for tm in g["teams"]], **kw)]
            r_call = [[(p.mu, p.sigma) for p in tm] for tm in m_call.rate([[m_call.rating(mu=m, sigma=s_) for (m, s_) in tm] for tm in g["teams"]], tau=t, limit_sigma=b, **kw)]
        except Exception as e:  # noqa: BLE001
            res.fail("property", "C15: %s: a positionally constructed model raised %s" % (kind, type(e).__name__), dict(type="game", game=g)); continue
        # copies of the configured model are configured alike: copy.copy, copy.deepcopy, a pickle round trip
        import copy as _copy, pickle as _pickle
        for how, mk in (("copy.copy", _copy.copy), ("copy.deepcopy", _copy.deepcopy), ("pickle", lambda m_: _pickle.loads(_pickle.dumps(m_)))):
            try:
                m_c = mk(m_kw)
                r_c = [[(p.mu, p.sigma) for p in tm] for tm in m_c.rate([[m_c.rating(mu=m, sigma=s_) for (m, s_) in tm] for tm in g["teams"]], **kw)]
            except Exception as e:  # noqa: BLE001
                res.fail("property", "C15: %s: a %s of a model constructed with tau=%r, limit_sigma=%r raised %s" % (kind, how, t, b, type(e).__name__), dict(type="game", game=g)); return
            res.count("copied_models")
            if r_c != r_kw:
                res.fail("property", "C15: %s: a %s of a model constructed with tau=%r, limit_sigma=%r rates differently from the model itself: %r" % (
                    kind, how, t, b, core.first_pair(r_c, r_kw)), dict(type="game", game=g)); return
        if not (r_pos == r_kw == r_call):
            res.fail("property", "C15: %s(mu, sigma, beta, kappa, gamma, tau=%r, limit_sigma=%r) by position, by keyword and rate(..., tau, limit_sigma) disagree: %r / %r / %r" % (
                kind, t, b, core.first_pair(r_pos, r_kw), core.first_pair(r_kw, r_call), None), dict(type="game", game=g))
            return


def c15(res):
    rng = random.Random(res.seed)
    c15_positional_constructor(res, rng)
    if res.shard == 0:
        core.optimised_interpreter(res, "C15")
    games = []
    for i_ in range(size(res, 60, 400)):
        # every model with every way of giving the outcome (ranks, scores, omitted), in turn — not left to chance
        g = gen_game(rng, kind=KINDS[i_ % 5], stratum=rng.choice(["typical", "wide", "mismatch"]), options=True)
        form = "RSN"[(i_ // 5) % 3]
        if form == "N":
            g["oc"] = ("N", None)
        elif g["oc"][0] == "N":
            g["oc"] = (form, encode_ranks(rng, random_weak_order(rng, len(g["teams"]))))
        else:
            g["oc"] = (form, g["oc"][1])
        res.case(g)
        describe(res, g)
        c15_one(res, g)
        games.append(g)
        for t in (0.0, 1e-9 * g["beta"]):
            for b in (True, False):
                g2 = dict(g); g2.update(tauopt=t, lsopt=b); games.append(g2)
    corr_games(res, games, "correspondence", "C15 option resolution")
    res.rule = ("for each game: t in {0, 1e-9 beta, model tau, 7.5 beta} x b in {True, False, omitted} x model tau in {default, 0, 3 beta} "
                "x model limit_sigma: per-call result bit-identical to the constructor-configured model; games with per-call options "
                "also compared with the Lean model (option resolution)")


register("C15", c15, c15_item)


# =============================================================================== C16
def scale_game(g, k):
    g2 = dict(g)
    g2["teams"] = [[(m * k, s * k) for (m, s) in t] for t in g["teams"]]
    g2["beta"] = g["beta"] * k
    g2["tau"] = g["tau"] * k
    if g.get("model_mu") is not None:
        g2["model_mu"] = g["model_mu"] * k
    if g["tauopt"] is not None:
        g2["tauopt"] = g["tauopt"] * k
    return g2


def shift_game(g, d):
    g2 = dict(g)
    g2["teams"] = [[(m + d, s) for (m, s) in t] for t in g["teams"]]
    return g2


def preds_close(A, B, tol=1e-9):
    (w1, d1, r1), (w2, d2, r2) = A, B
    if len(w1) != len(w2) or any(abs(a - b) > tol for a, b in zip(w1, w2)):
        return "predict_win %r vs %r" % (w1, w2)
    if abs(d1 - d2) > tol:
        return "predict_draw %r vs %r" % (d1, d2)
    if any(abs(a[1] - b[1]) > tol for a, b in zip(r1, r2)):
        return "predict_rank %r vs %r" % (r1, r2)
    return None


def c16_one(res, g, rng, games):
    inp = dict(type="game", game=g)
    try:
        base = impl_teams(g)
        pbase = predict_all(g)
    except Exception as e:  # noqa: BLE001
        res.fail("property", "C16: valid call raised %s" % type(e).__name__, inp)
        return
    games.append(g)
    for k in (10 ** rng.uniform(-3, 3), 1e-3, 1e3, 2.0):
        g2 = scale_game(g, k)
        res.count("scalings")
        mm = preds_close(pbase, predict_all(g2))
        if mm:
            res.fail("property", "C16: predictions change under scaling by %r: %s" % (k, mm), dict(type="c16", game=g, scale=k))
        if not IS_TM[g["kind"]]:
            games.append(g2)
            out = impl_teams(g2)
            back = [[(m / k, s / k) for (m, s) in t] for t in out]
            mm = teams_close(g, back, base, 4e-9)
            if mm:
                res.fail("property", "C16: posterior does not scale with the unit (factor %r): %s" % (k, mm), dict(type="c16", game=g, scale=k))
    if len(set(len(t) for t in g["teams"])) == 1:
        lo = min(m for t in g["teams"] for (m, _) in t)
        hi = max(m for t in g["teams"] for (m, _) in t)
        edge = [-20 * g["beta"] - lo, 20 * g["beta"] - hi] if hi - lo <= 40 * g["beta"] else []
        for d in [rng.uniform(-5, 5) * g["beta"], 3 * g["beta"], -g["beta"]] + edge:
            g2 = shift_game(g, d)
            games.append(g2)
            res.count("shifts")
            out = impl_teams(g2)
            back = [[(m - d, s) for (m, s) in t] for t in out]
            rel = 4 * rel_budget(g) + 1e-9
            mm = teams_close(g, back, base, rel)
            if mm and tm_zero_gap_explains(g, back, base, rel):
                # known finding K1 (see C04), verified: a Thurstone-Mosteller tie between teams whose total mu are equal; the shift re-rounds the
                # two sums, x moves from 0.0 to +-1 ulp and vt's asymptote jumps by 2t
                res.fail("property", "C16 [tm-tie-zero-gap]: Thurstone-Mosteller tie between teams of equal total mu: adding %r to every mu re-rounds the team sums, "
                         "vt's asymptote jumps by 2t at x = 0 and the draw-margin term flips: %s" % (d, mm), dict(type="c16", game=g, shift=d))
            elif mm:
                res.fail("property", "C16: adding %r to every mu is not a pure shift of the posterior: %s" % (d, mm), dict(type="c16", game=g, shift=d))
            mm = preds_close(pbase, predict_all(g2))
            if mm:
                res.fail("property", "C16: predictions change under a shift by %r: %s" % (d, mm), dict(type="c16", game=g, shift=d))


def c16_item(res, item):
    rng = random.Random(res.seed)
    g = G(item)
    res.case(g)
    games = []
    c16_one(res, g, rng, games)
    if item.get("shift") is not None and len(set(len(t) for t in g["teams"])) == 1:
        d = item["shift"]
        base = impl_teams(g)
        back = [[(m - d, s_) for (m, s_) in t] for t in impl_teams(shift_game(g, d))]
        rel = 4 * rel_budget(g) + 1e-9
        mm = teams_close(g, back, base, rel)
        if mm and tm_zero_gap_explains(g, back, base, rel):
            res.fail("property", "C16 [tm-tie-zero-gap]: Thurstone-Mosteller tie between teams of equal total mu: adding %r to every mu re-rounds the team sums, "
                     "vt's asymptote jumps by 2t at x = 0 and the draw-margin term flips: %s" % (d, mm), dict(type="c16", game=g, shift=d))
        elif mm:
            res.fail("property", "C16: adding %r to every mu is not a pure shift of the posterior: %s" % (d, mm), dict(type="c16", game=g, shift=d))
    corr_games(res, games, "correspondence", "C16 rate numbers")


def c16(res):
    rng = random.Random(res.seed)
    games = []
    for _ in range(size(res, 400, 2500)):
        g = gen_game(rng, stratum=rng.choice(["typical", "equalsize", "equalsize", "mismatch", "wide", "lopsided"]))
        res.case(g)
        describe(res, g)
        c16_one(res, g, rng, games)
    corr_games(res, games, "correspondence", "C16 rate numbers")
    import p_pred
    for g in games[:: max(1, len(games) // 150)]:
        p_pred.reconfigure_sequence(res, dict(g, teams=[list(t) for t in g["teams"]]), rng, "C16")
    # players whose mu is exactly 0.0 before the change of unit / origin, and shifts that put a player exactly at 0.0
    for k_ in range(size(res, 40, 200)):
        g = gen_game(rng, kind=KINDS[k_ % 5], stratum="zero-mu", n=rng.randint(2, 4), maxsize=3, options=False)
        sz = len(g["teams"][0])
        g["teams"] = [(t * sz)[:sz] for t in g["teams"]]
        if k_ % 2:
            j_ = rng.randrange(len(g["teams"]))
            g["teams"][j_][0] = (0.0, g["teams"][j_][0][1])
        res.case(g); res.count("zero_mu_games")
        c16_one(res, g, rng, games)
        m_any = g["teams"][-1][-1][0]
        if m_any != 0.0:
            g3 = shift_game(g, -m_any)          # ... lands that player exactly on 0.0
            try:
                back = [[(m + m_any, s_) for (m, s_) in t] for t in impl_teams(g3)]
                mm = teams_close(g, back, impl_teams(g), 4 * rel_budget(g) + 1e-9)
                if mm:
                    res.fail("property", "C16: a shift that puts a player exactly at mu = 0.0 is not a pure shift of the posterior: %s" % mm, dict(type="c16", game=g, shift=-m_any))
            except Exception as e:  # noqa: BLE001
                res.fail("property", "C16: valid call raised %s" % type(e).__name__, dict(type="game", game=g3))
    # large settled teams at the low edge of the range, shifted up and down
    for _ in range(size(res, 60, 400)):
        g = gen_game(rng, kind=rng.choice(KINDS), stratum="lowedge", options=False)
        res.case(g); res.count("lowedge_games")
        c16_one(res, g, rng, games)
    # the ends of the unit range: settled players (sigma 1e-4..1e-2 beta, tau 0) in a micro unit (beta ~ 4e-3) or a mega unit
    # (beta ~ 4e3), rescaled by 1e-3 / 1e3: an absolute threshold anywhere in the update shows here
    for _ in range(size(res, 60, 300)):
        beta = core.DEFAULTS["beta"] * rng.choice([1e-3, 1e3])
        n = rng.randint(2, 4)
        teams = [[(rng.gauss(25, 8) * beta / core.DEFAULTS["beta"], beta * 10 ** rng.uniform(-4, -2)) for _ in range(rng.randint(1, 3))] for _ in range(n)]
        g = make_game(rng.choice(["PL", "BTF", "BTP"]), teams, oc=("R", random_weak_order(rng, n)), beta=beta, kappa=rng.choice([1e-4, 1e-6]),
                      tau=(0.0 if _ % 2 else beta * (1e-6, 3e-6, 1e-5)[_ // 2 % 3]),       # no drift, or a tiny one: tau is a quantity on the skill scale too
                      gamma=rng.choice(gen.GAMMAS))
        res.case(g); res.count("unit_range_end_games")
        c16_one(res, g, rng, games)
    # models whose own default mu is not 25, with tau pinned to values that coincide with the library's default 25/300 in one of the
    # two units (tau is a number like any other: nothing may hinge on its being "the default")
    for kind in ("PL", "BTF", "BTP"):
        for mm_, tau_, k in ((30.0, 25.0 / 300.0, 2.0), (30.0, 50.0 / 300.0, 0.5), (50.0, 25.0 / 300.0, 3.0), (12.5, 25.0 / 300.0, 2.0), (100.0, 100.0 / 300.0, 0.25)):
            teams = [[(rng.gauss(25, 6), rng.uniform(0.3, 2.0)) for _ in range(rng.randint(1, 2))] for _ in range(3)]
            g = make_game(kind, teams, oc=("R", [1, 0, 1]), tau=tau_)
            g["model_mu"] = mm_
            res.case(g); res.count("models_with_other_default_mu")
            try:
                base, out = impl_teams(g), impl_teams(scale_game(g, k))
            except Exception as e:  # noqa: BLE001
                res.fail("property", "C16: valid call raised %s" % type(e).__name__, dict(type="game", game=g)); continue
            mm = teams_close(g, [[(m / k, s_ / k) for (m, s_) in t] for t in out], base, 4e-9)
            if mm:
                res.fail("property", "C16: posterior does not scale with the unit (factor %r, model default mu %r, tau %r): %s" % (k, mm_, tau_, mm), dict(type="c16", game=g, scale=k))
    # drawn games between teams whose total mu differ by a relative 1e-12 .. 1e-8 (a near-even draw): shifting the origin must not
    # change on which side of any tolerance the pair falls
    for _ in range(size(res, 60, 300)):
        kind = rng.choice(KINDS)
        sz = rng.randint(1, 2)
        base_mu = rng.choice([25.0, 30.0, 18.5])
        t0 = [(base_mu, rng.uniform(2, 8)) for _ in range(sz)]
        t1 = [(base_mu * (1 + 10 ** rng.uniform(-12, -8.3)), s_) for (_m, s_) in t0]
        teams = [t0, t1] + ([[(rng.gauss(25, 5), rng.uniform(2, 8)) for _ in range(sz)]] if rng.random() < 0.5 else [])
        g = make_game(kind, teams, oc=("R", [0, 0] + ([1] if len(teams) == 3 else [])), tau=rng.choice([0.0, core.DEFAULTS["tau"]]))
        res.case(g); res.count("near_even_draws")
        c16_one(res, g, rng, games)
    res.rule = ("each game rescaled by k in {1e-3, 1e3, 2, 10^U(-3,3)} (mu, sigma, beta, tau; kappa and the degree-0 gamma callbacks "
                "unchanged): posterior/k compared with the original (PL, BT full/part), predictions compared (all models); equal-size "
                "games shifted by constants: posterior mu shifted, sigma and predictions unchanged; all presentations also compared with "
                "the Lean model")


register("C16", c16, c16_item)
