import OSProofs.FL5Lemmas
import OSProofs.Props.FL3

/-!
# FL5 — C09 (monotonicity of the predictions in a player's mu), exactly, in every monotone arithmetic

`Props/C09.lean` proves over ℝ that raising the mu of a member of a team never lowers that team's win
probability and never raises any other team's.  Here the same is proved as an inequality *between the
computed numbers*, for every `[Scalar α]` whose arithmetic satisfies the order laws `MonoArith α` and ONE
further law,

  `PhiMono α : ∀ a b, a ≤ b → Φ a ≤ Φ b`   (the computed normal cdf is monotone).

`PhiMono` holds in ℝ and in every "compute exactly, then round monotonically" arithmetic
(`Props/FL5Inst.lean`).  For IEEE doubles it is a property of the libm in use (`Φ` is `erfc` of the C library,
which is not correctly rounded and not guaranteed monotone): it is a *hypothesis* of the theorems, not a law
of `MonoArith`.  For two teams the first entry *is* `Φ` of a quantity that is monotone in θa, so nothing weaker can do.

No associativity is used: sums are the left folds `sumL` of the code, and `sumL` is monotone entry by entry
because each `+` is (`add_le_add'`).  Divisions are by the *same* computed divisor on both sides
(`div_le_div_right'`): the pair divisor `√(c β² + s²a + s²b)` does not depend on any mu, and the hypotheses
say it is `> 0` as computed (it is whenever the team's computed variance is `> 0`: `FL_pairDenom_pos`).

"Raising a member's mu" is `fl5_setMu t j m`: the `j`-th member's mu replaced by any `m` with `t[j].mu ≤ m`
(the ℝ statement's `mu + d`, `d ≥ 0`, is the instance `m = mu + d`: `FL_raise_by`).
-/

namespace OS
open Scalar
variable {α : Type} [Scalar α]

local notation "𝟘" => (Scalar.ofNat 0)
local notation "𝟙" => (Scalar.ofNat 1)

/-- the first entry of `predict_win` for two teams: `Φ((θa − θb) / √(N β² + s²a + s²b))` -/
def FL5_winR (β : α) (a b : List (Rating α)) : α :=
  Phi (((teamAgg a 0).mu - (teamAgg b 0).mu)
    / pairDenom (playerCount [a, b]) β (teamAgg a 0) (teamAgg b 0))

/-- two teams: `predict_win` returns `[r, 1 − r]` (every scalar type, by unfolding) -/
theorem FL_C09_two_form (β : α) (a b : List (Rating α)) :
    predictWin β [a, b] = [FL5_winR β a b, 𝟙 - FL5_winR β a b] := rfl

/-! ### entries of the results, every scalar type -/

theorem fl5_win_entry (β : α) (teams : List (List (Rating α))) (hn : 3 ≤ teams.length) (k : Nat)
    (hk : k < teams.length) (h : k < (predictWin β teams).length) :
    (predictWin β teams)[k]
      = fl5_entry id teams.length β (aggs teams) (teamAgg teams[k] 0) k := by
  rw [List.getElem_of_eq (GEN_C12_win_many β teams hn) h]
  simp only [List.getElem_map, List.getElem_zipIdx, Nat.zero_add, aggs]
  rfl

theorem fl5_rank_entry (β : α) (teams : List (List (Rating α))) (hn : 2 ≤ teams.length) (k : Nat)
    (hk : k < teams.length) (h : k < (predictRankProbs β teams).length) :
    (predictRankProbs β teams)[k]
      = sabs (fl5_entry (fun x => x - drawMargin β (playerCount teams)) teams.length β (aggs teams)
          (teamAgg teams[k] 0) k) := by
  rw [List.getElem_of_eq (GEN_C12_rank_probs β teams (by omega)) h]
  simp only [List.getElem_map, List.getElem_zipIdx, Nat.zero_add, aggs]
  rfl

section
variable (M : MonoArith α)
include M

/-- **`FL_teamAgg_mu_mono`.**  Replacing one member's mu by a larger one does not lower the team's summed mu
as computed by the left fold `sumL`, and leaves the team's `s²` unchanged (it is the same computation on the
same sigmas). -/
theorem FL_teamAgg_mu_mono (t : List (Rating α)) (j : Nat) (hj : j < t.length) (m : α)
    (h : t[j].mu ≤ m) (r : Nat) :
    (teamAgg t r).mu ≤ (teamAgg (fl5_setMu t j m) r).mu
      ∧ (teamAgg (fl5_setMu t j m) r).sig2 = (teamAgg t r).sig2 := by
  refine ⟨M.fl5_sumL_mono (fl5_setMu_mus M.le_refl' t j m ?_), ?_⟩
  · intro p hp
    rw [List.getElem?_eq_getElem hj] at hp
    cases hp
    exact h
  · simp only [teamAgg]
    rw [fl5_setMu_sigmas]

/-- adding a computed `d ≥ 0` to a mu is an instance of "a larger mu" (`a ≤ a + d` is a law) -/
theorem FL_raise_by (mu d : α) (hd : 𝟘 ≤ d) : mu ≤ mu + d := M.le_add_right' hd

/-- the computed pair divisor is `> 0` when the first team's computed variance is `> 0` and the second's
is `≥ 0` (which it always is) — for any β, also `β = 0` -/
theorem FL_pairDenom_pos (n : Nat) (β : α) (a b : List (Rating α))
    (ha : 𝟘 < (teamAgg a 0).sig2) : 𝟘 < pairDenom n β (teamAgg a 0) (teamAgg b 0) :=
  M.fl5_pairDenom_pos n β ha (M.fl1_teamAgg_sig2_nonneg b 0)

end

/-! ### two teams -/

section
variable (M : MonoArith α)
include M

omit M in
theorem fl5_playerCount_pair {β : Type} (a a' b : List β) (h : a'.length = a.length) :
    playerCount [a', b] = playerCount [a, b] := by
  simp [playerCount, h]

/-- **Two teams, team a replaced** by a team of the same size, the same computed `s²` and a computed θ that
is not smaller: `r = Φ((θa − θb)/d)` does not go down and the second entry `1 − r` does not go up.
Hypothesis: the computed `d = √(N β² + s²a + s²b)` is `> 0`. -/
theorem FL_C09_two_monotone_team (hΦ : PhiMono α) (β : α) (a a' b : List (Rating α))
    (hlen : a'.length = a.length) (hsig : (teamAgg a' 0).sig2 = (teamAgg a 0).sig2)
    (hmu : (teamAgg a 0).mu ≤ (teamAgg a' 0).mu)
    (hd : 𝟘 < pairDenom (playerCount [a, b]) β (teamAgg a 0) (teamAgg b 0)) :
    FL5_winR β a b ≤ FL5_winR β a' b ∧ 𝟙 - FL5_winR β a' b ≤ 𝟙 - FL5_winR β a b := by
  have hd' : 𝟘 < pairDenom (playerCount [a, b]) β (teamAgg a' 0) (teamAgg b 0) := by
    have e : pairDenom (playerCount [a, b]) β (teamAgg a' 0) (teamAgg b 0)
        = pairDenom (playerCount [a, b]) β (teamAgg a 0) (teamAgg b 0) := by
      unfold pairDenom; rw [hsig]
    rw [e]; exact hd
  have key : FL5_winR β a b ≤ FL5_winR β a' b := by
    have h := M.fl5_term_le hΦ (g := id) (fun _ _ h => h) (playerCount [a, b]) β hmu hsig.symm
      (M.fl5_raised_refl (teamAgg b 0)) hd'
    unfold FL5_winR
    rw [fl5_playerCount_pair a a' b hlen]
    exact h
  exact ⟨key, M.sub_le_sub' (M.le_refl' _) key⟩

/-- **Two teams, team b replaced** likewise: `r` does not go up and team b's entry `1 − r` does not go down. -/
theorem FL_C09_two_monotone_team_b (hΦ : PhiMono α) (β : α) (a b b' : List (Rating α))
    (hlen : b'.length = b.length) (hsig : (teamAgg b' 0).sig2 = (teamAgg b 0).sig2)
    (hmu : (teamAgg b 0).mu ≤ (teamAgg b' 0).mu)
    (hd : 𝟘 < pairDenom (playerCount [a, b]) β (teamAgg a 0) (teamAgg b 0)) :
    FL5_winR β a b' ≤ FL5_winR β a b ∧ 𝟙 - FL5_winR β a b ≤ 𝟙 - FL5_winR β a b' := by
  have key : FL5_winR β a b' ≤ FL5_winR β a b := by
    have h := M.fl5_term_le hΦ (g := id) (fun _ _ h => h) (playerCount [a, b]) β
      (M.le_refl' (teamAgg a 0).mu) rfl (show fl5_Raised (teamAgg b 0) (teamAgg b' 0) from ⟨hsig, hmu⟩) hd
    have e : playerCount [a, b'] = playerCount [a, b] := by simp [playerCount, hlen]
    unfold FL5_winR
    rw [e]
    exact h
  exact ⟨key, M.sub_le_sub' (M.le_refl' _) key⟩

/-- **`FL_C09_two_monotone`.**  Two teams `[a, b]`; the mu of member `j` of team a is replaced by a larger
one: team a's computed win probability `r` does not go down, team b's computed `1 − r` does not go up. -/
theorem FL_C09_two_monotone (hΦ : PhiMono α) (β : α) (a b : List (Rating α)) (j : Nat)
    (hj : j < a.length) (m : α) (hm : a[j].mu ≤ m)
    (hd : 𝟘 < pairDenom (playerCount [a, b]) β (teamAgg a 0) (teamAgg b 0)) :
    FL5_winR β a b ≤ FL5_winR β (fl5_setMu a j m) b
      ∧ 𝟙 - FL5_winR β (fl5_setMu a j m) b ≤ 𝟙 - FL5_winR β a b :=
  FL_C09_two_monotone_team M hΦ β a _ b (fl5_length_setMu a j m)
    (FL_teamAgg_mu_mono M a j hj m hm 0).2 (FL_teamAgg_mu_mono M a j hj m hm 0).1 hd

/-- **the symmetric statement**: the mu of member `j` of team b is replaced by a larger one: team b's
computed `1 − r` does not go down, team a's `r` does not go up. -/
theorem FL_C09_two_monotone_b (hΦ : PhiMono α) (β : α) (a b : List (Rating α)) (j : Nat)
    (hj : j < b.length) (m : α) (hm : b[j].mu ≤ m)
    (hd : 𝟘 < pairDenom (playerCount [a, b]) β (teamAgg a 0) (teamAgg b 0)) :
    FL5_winR β a (fl5_setMu b j m) ≤ FL5_winR β a b
      ∧ 𝟙 - FL5_winR β a b ≤ 𝟙 - FL5_winR β a (fl5_setMu b j m) :=
  FL_C09_two_monotone_team_b M hΦ β a b _ (fl5_length_setMu b j m)
    (FL_teamAgg_mu_mono M b j hj m hm 0).2 (FL_teamAgg_mu_mono M b j hj m hm 0).1 hd

end

/-! ### three or more teams (`predict_win`), two or more (`predict_rank`) -/

section
variable (M : MonoArith α)
include M

/-- own entry, at the level of the closed form, for any monotone `g` applied to `θi − θq` -/
theorem fl5_many_own_core (hΦ : PhiMono α) {g : α → α} (hg : ∀ x y, x ≤ y → g x ≤ g y) (β : α)
    (teams : List (List (Rating α))) (hn : 2 ≤ teams.length) (i : Nat) (hi : i < teams.length)
    (t' : List (Rating α)) (hsig : (teamAgg t' 0).sig2 = (teamAgg teams[i] 0).sig2)
    (hmu : (teamAgg teams[i] 0).mu ≤ (teamAgg t' 0).mu)
    (hd : ∀ b ∈ aggs teams, 𝟘 < pairDenom teams.length β (teamAgg teams[i] 0) b)
    (hi' : i < (teams.set i t').length) :
    fl5_entry g teams.length β (aggs teams) (teamAgg teams[i] 0) i
      ≤ fl5_entry g (teams.set i t').length β (aggs (teams.set i t'))
          (teamAgg (teams.set i t')[i] 0) i := by
  have hia : i < (aggs teams).length := by rw [fl3_length_aggs]; exact hi
  have e := fl5_getElem_aggs teams i hi hia
  have h := M.fl5_entry_own hΦ hg hn β (aggs teams) i hia (teamAgg t' 0)
    (by rw [e]; exact ⟨hsig, hmu⟩) (by rw [e]; exact hd)
  rw [e] at h
  simp only [List.length_set, List.getElem_set_self, fl5_aggs_set]
  exact h

/-- another team's entry, at the level of the closed form -/
theorem fl5_many_other_core (hΦ : PhiMono α) {g : α → α} (hg : ∀ x y, x ≤ y → g x ≤ g y) (β : α)
    (teams : List (List (Rating α))) (hn : 2 ≤ teams.length) (i : Nat) (hi : i < teams.length)
    (t' : List (Rating α)) (hsig : (teamAgg t' 0).sig2 = (teamAgg teams[i] 0).sig2)
    (hmu : (teamAgg teams[i] 0).mu ≤ (teamAgg t' 0).mu)
    (k : Nat) (hk : k < teams.length) (hki : k ≠ i)
    (hd : ∀ b ∈ aggs teams, 𝟘 < pairDenom teams.length β (teamAgg teams[k] 0) b)
    (hk' : k < (teams.set i t').length) :
    fl5_entry g (teams.set i t').length β (aggs (teams.set i t')) (teamAgg (teams.set i t')[k] 0) k
      ≤ fl5_entry g teams.length β (aggs teams) (teamAgg teams[k] 0) k := by
  have hia : i < (aggs teams).length := by rw [fl3_length_aggs]; exact hi
  have e := fl5_getElem_aggs teams i hi hia
  have h := M.fl5_entry_other hΦ hg hn β (aggs teams) i hia (teamAgg t' 0)
    (by rw [e]; exact ⟨hsig, hmu⟩) (teamAgg teams[k] 0) k hd
  simp only [List.length_set, List.getElem_set_ne (Ne.symm hki), fl5_aggs_set]
  exact h

/-- **Three or more teams, own entry, team replaced.**  Replace team `i` by a team with the same computed
`s²` and a computed θ that is not smaller: entry `i` of `predict_win`, as computed, does not go down.
Hypothesis: team `i`'s computed pair divisors `√(n β² + s²i + s²q)` are `> 0`. -/
theorem FL_C09_many_monotone_team_own (hΦ : PhiMono α) (β : α) (teams : List (List (Rating α)))
    (hn : 3 ≤ teams.length) (i : Nat) (hi : i < teams.length) (t' : List (Rating α))
    (hsig : (teamAgg t' 0).sig2 = (teamAgg teams[i] 0).sig2)
    (hmu : (teamAgg teams[i] 0).mu ≤ (teamAgg t' 0).mu)
    (hd : ∀ b ∈ aggs teams, 𝟘 < pairDenom teams.length β (teamAgg teams[i] 0) b)
    (h1 : i < (predictWin β teams).length) (h2 : i < (predictWin β (teams.set i t')).length) :
    (predictWin β teams)[i] ≤ (predictWin β (teams.set i t'))[i] := by
  have hi' : i < (teams.set i t').length := by simpa using hi
  rw [fl5_win_entry β teams hn i hi h1, fl5_win_entry β _ (by simpa using hn) i hi' h2]
  exact fl5_many_own_core M hΦ (fun _ _ h => h) β teams (by omega) i hi t' hsig hmu hd hi'

/-- **Three or more teams, other entries, team replaced.**  Under the same replacement the entry of every
other team `k`, as computed, does not go up.  Hypothesis: team `k`'s computed pair divisors are `> 0`. -/
theorem FL_C09_many_monotone_team_other (hΦ : PhiMono α) (β : α) (teams : List (List (Rating α)))
    (hn : 3 ≤ teams.length) (i : Nat) (hi : i < teams.length) (t' : List (Rating α))
    (hsig : (teamAgg t' 0).sig2 = (teamAgg teams[i] 0).sig2)
    (hmu : (teamAgg teams[i] 0).mu ≤ (teamAgg t' 0).mu)
    (k : Nat) (hk : k < teams.length) (hki : k ≠ i)
    (hd : ∀ b ∈ aggs teams, 𝟘 < pairDenom teams.length β (teamAgg teams[k] 0) b)
    (h1 : k < (predictWin β teams).length) (h2 : k < (predictWin β (teams.set i t')).length) :
    (predictWin β (teams.set i t'))[k] ≤ (predictWin β teams)[k] := by
  have hk' : k < (teams.set i t').length := by simpa using hk
  rw [fl5_win_entry β teams hn k hk h1, fl5_win_entry β _ (by simpa using hn) k hk' h2]
  exact fl5_many_other_core M hΦ (fun _ _ h => h) β teams (by omega) i hi t' hsig hmu k hk hki hd hk'

/-- **`FL_C09_many_monotone_own`.**  Three or more teams; the mu of member `j` of team `i` is replaced by a
larger one: team `i`'s computed win probability does not go down. -/
theorem FL_C09_many_monotone_own (hΦ : PhiMono α) (β : α) (teams : List (List (Rating α)))
    (hn : 3 ≤ teams.length) (i : Nat) (hi : i < teams.length) (j : Nat) (hj : j < teams[i].length)
    (m : α) (hm : teams[i][j].mu ≤ m)
    (hd : ∀ b ∈ aggs teams, 𝟘 < pairDenom teams.length β (teamAgg teams[i] 0) b)
    (h1 : i < (predictWin β teams).length)
    (h2 : i < (predictWin β (teams.set i (fl5_setMu teams[i] j m))).length) :
    (predictWin β teams)[i] ≤ (predictWin β (teams.set i (fl5_setMu teams[i] j m)))[i] :=
  FL_C09_many_monotone_team_own M hΦ β teams hn i hi _
    (FL_teamAgg_mu_mono M teams[i] j hj m hm 0).2 (FL_teamAgg_mu_mono M teams[i] j hj m hm 0).1 hd h1 h2

/-- **`FL_C09_many_monotone_other`.**  … and the computed win probability of every other team `k` does not
go up. -/
theorem FL_C09_many_monotone_other (hΦ : PhiMono α) (β : α) (teams : List (List (Rating α)))
    (hn : 3 ≤ teams.length) (i : Nat) (hi : i < teams.length) (j : Nat) (hj : j < teams[i].length)
    (m : α) (hm : teams[i][j].mu ≤ m) (k : Nat) (hk : k < teams.length) (hki : k ≠ i)
    (hd : ∀ b ∈ aggs teams, 𝟘 < pairDenom teams.length β (teamAgg teams[k] 0) b)
    (h1 : k < (predictWin β teams).length)
    (h2 : k < (predictWin β (teams.set i (fl5_setMu teams[i] j m))).length) :
    (predictWin β (teams.set i (fl5_setMu teams[i] j m)))[k] ≤ (predictWin β teams)[k] :=
  FL_C09_many_monotone_team_other M hΦ β teams hn i hi _
    (FL_teamAgg_mu_mono M teams[i] j hj m hm 0).2 (FL_teamAgg_mu_mono M teams[i] j hj m hm 0).1
    k hk hki hd h1 h2

/-! ### the probabilities of `predict_rank` (two or more teams; the draw margin is subtracted, `abs` is taken)

The entries are `abs` of a number that is `≥ 0` as computed (a left-fold sum of values of `Φ`, divided by a
positive integer), so `abs` returns it unchanged (`fl5_sabs_entry`); the margin depends only on β and on the
number of players, which the replacement must therefore preserve (`hlen`). -/

/-- **`predict_rank` probabilities, own entry, team replaced** by one of the same size, same computed `s²`
and a computed θ that is not smaller: entry `i`, as computed, does not go down. -/
theorem FL_C11_probs_monotone_team_own (hΦ : PhiMono α) (β : α) (teams : List (List (Rating α)))
    (hn : 2 ≤ teams.length) (i : Nat) (hi : i < teams.length) (t' : List (Rating α))
    (hlen : t'.length = teams[i].length)
    (hsig : (teamAgg t' 0).sig2 = (teamAgg teams[i] 0).sig2)
    (hmu : (teamAgg teams[i] 0).mu ≤ (teamAgg t' 0).mu)
    (hd : ∀ b ∈ aggs teams, 𝟘 < pairDenom teams.length β (teamAgg teams[i] 0) b)
    (h1 : i < (predictRankProbs β teams).length)
    (h2 : i < (predictRankProbs β (teams.set i t')).length) :
    (predictRankProbs β teams)[i] ≤ (predictRankProbs β (teams.set i t'))[i] := by
  have hi' : i < (teams.set i t').length := by simpa using hi
  have hn' : 2 ≤ (teams.set i t').length := by simpa using hn
  rw [fl5_rank_entry β teams hn i hi h1, fl5_rank_entry β _ hn' i hi' h2,
    fl5_playerCount_set teams i hi t' hlen, M.fl5_sabs_entry _ hn, M.fl5_sabs_entry _ hn']
  exact fl5_many_own_core M hΦ (fun _ _ h => M.sub_le_sub' h (M.le_refl' _)) β teams hn i hi t'
    hsig hmu hd hi'

/-- **`predict_rank` probabilities, other entries**: under the same replacement the entry of every other
team `k`, as computed, does not go up. -/
theorem FL_C11_probs_monotone_team_other (hΦ : PhiMono α) (β : α) (teams : List (List (Rating α)))
    (hn : 2 ≤ teams.length) (i : Nat) (hi : i < teams.length) (t' : List (Rating α))
    (hlen : t'.length = teams[i].length)
    (hsig : (teamAgg t' 0).sig2 = (teamAgg teams[i] 0).sig2)
    (hmu : (teamAgg teams[i] 0).mu ≤ (teamAgg t' 0).mu)
    (k : Nat) (hk : k < teams.length) (hki : k ≠ i)
    (hd : ∀ b ∈ aggs teams, 𝟘 < pairDenom teams.length β (teamAgg teams[k] 0) b)
    (h1 : k < (predictRankProbs β teams).length)
    (h2 : k < (predictRankProbs β (teams.set i t')).length) :
    (predictRankProbs β (teams.set i t'))[k] ≤ (predictRankProbs β teams)[k] := by
  have hk' : k < (teams.set i t').length := by simpa using hk
  have hn' : 2 ≤ (teams.set i t').length := by simpa using hn
  rw [fl5_rank_entry β teams hn k hk h1, fl5_rank_entry β _ hn' k hk' h2,
    fl5_playerCount_set teams i hi t' hlen, M.fl5_sabs_entry _ hn, M.fl5_sabs_entry _ hn']
  exact fl5_many_other_core M hΦ (fun _ _ h => M.sub_le_sub' h (M.le_refl' _)) β teams hn i hi t'
    hsig hmu k hk hki hd hk'

/-- **`predict_rank` probabilities, a member's mu replaced by a larger one, own entry** -/
theorem FL_C11_probs_monotone_own (hΦ : PhiMono α) (β : α) (teams : List (List (Rating α)))
    (hn : 2 ≤ teams.length) (i : Nat) (hi : i < teams.length) (j : Nat) (hj : j < teams[i].length)
    (m : α) (hm : teams[i][j].mu ≤ m)
    (hd : ∀ b ∈ aggs teams, 𝟘 < pairDenom teams.length β (teamAgg teams[i] 0) b)
    (h1 : i < (predictRankProbs β teams).length)
    (h2 : i < (predictRankProbs β (teams.set i (fl5_setMu teams[i] j m))).length) :
    (predictRankProbs β teams)[i]
      ≤ (predictRankProbs β (teams.set i (fl5_setMu teams[i] j m)))[i] :=
  FL_C11_probs_monotone_team_own M hΦ β teams hn i hi _ (fl5_length_setMu _ j m)
    (FL_teamAgg_mu_mono M teams[i] j hj m hm 0).2 (FL_teamAgg_mu_mono M teams[i] j hj m hm 0).1 hd h1 h2

/-- **`predict_rank` probabilities, a member's mu replaced by a larger one, other entries** -/
theorem FL_C11_probs_monotone_other (hΦ : PhiMono α) (β : α) (teams : List (List (Rating α)))
    (hn : 2 ≤ teams.length) (i : Nat) (hi : i < teams.length) (j : Nat) (hj : j < teams[i].length)
    (m : α) (hm : teams[i][j].mu ≤ m) (k : Nat) (hk : k < teams.length) (hki : k ≠ i)
    (hd : ∀ b ∈ aggs teams, 𝟘 < pairDenom teams.length β (teamAgg teams[k] 0) b)
    (h1 : k < (predictRankProbs β teams).length)
    (h2 : k < (predictRankProbs β (teams.set i (fl5_setMu teams[i] j m))).length) :
    (predictRankProbs β (teams.set i (fl5_setMu teams[i] j m)))[k]
      ≤ (predictRankProbs β teams)[k] :=
  FL_C11_probs_monotone_team_other M hΦ β teams hn i hi _ (fl5_length_setMu _ j m)
    (FL_teamAgg_mu_mono M teams[i] j hj m hm 0).2 (FL_teamAgg_mu_mono M teams[i] j hj m hm 0).1
    k hk hki hd h1 h2

/-! ### the hypotheses are satisfiable -/

/-- the pair-divisor hypothesis follows from "team `i`'s computed variance is `> 0`" -/
theorem FL_C09_divisors_pos_of_var_pos (β : α) (teams : List (List (Rating α))) (i : Nat)
    (hi : i < teams.length) (hv : 𝟘 < (teamAgg teams[i] 0).sig2) (n : Nat) :
    ∀ b ∈ aggs teams, 𝟘 < pairDenom n β (teamAgg teams[i] 0) b := by
  intro b hb
  obtain ⟨t, _, rfl⟩ := List.mem_map.mp hb
  exact FL_pairDenom_pos M n β teams[i] t hv

omit M in
/-- the index hypotheses: every team index is a valid index of the results, also after the replacement -/
example (β : α) (teams : List (List (Rating α))) (hn : 2 ≤ teams.length) (i : Nat)
    (hi : i < teams.length) (t' : List (Rating α)) :
    i < (predictWin β teams).length ∧ i < (predictWin β (teams.set i t')).length
      ∧ i < (predictRankProbs β teams).length
      ∧ i < (predictRankProbs β (teams.set i t')).length := by
  have h := GEN_C12_length β teams (by omega)
  have h' := GEN_C12_length β (teams.set i t') (by simp only [List.length_set]; omega)
  simp only [List.length_set] at h'
  rw [h.1, h.2.1, h'.1, h'.2.1]
  exact ⟨hi, hi, hi, hi⟩

/-- the mu hypothesis: `mu + d` with a computed `d ≥ 0` is a larger mu -/
example (t : List (Rating α)) (j : Nat) (hj : j < t.length) (d : α) (hd : 𝟘 ≤ d) :
    (teamAgg t 0).mu ≤ (teamAgg (fl5_setMu t j (t[j].mu + d)) 0).mu :=
  (FL_teamAgg_mu_mono M t j hj _ (FL_raise_by M _ d hd) 0).1

end

end OS
