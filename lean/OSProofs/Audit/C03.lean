import OSProofs.Props.C03
import OSProofs.GenTie
#print axioms OS.C03_scores
#print axioms OS.C03_relabel
#print axioms OS.C03_relabel_on
#print axioms OS.C03_relabel_rate
#print axioms OS.C03_pointwise
#print axioms OS.C03_pointwise_rate
#print axioms OS.C03_pointwise_scores
#print axioms OS.C03_omitted
#print axioms OS.C03_omitted_encoded
#print axioms OS.C03_omitted_rate
#print axioms OS.sortedKeys_sorted
#print axioms OS.denseRanks_spec
#print axioms OS.C03_ties
#print axioms OS.C03_strict
#print axioms OS.C03_dense_of_rate
#print axioms OS.Gen.unaryMinus_eq
