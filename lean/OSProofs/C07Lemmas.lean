import OSProofs.LeafFacts
import Mathlib.Algebra.BigOperators.Field
import Mathlib.Algebra.BigOperators.Ring.Finset
import Mathlib.Algebra.BigOperators.Fin
import Mathlib.Algebra.BigOperators.Intervals
import Mathlib.Algebra.Order.BigOperators.Group.Finset
import Mathlib.Tactic.FieldSimp
import Mathlib.Tactic.Ring
import Mathlib.Tactic.Linarith
import Mathlib.Tactic.Positivity

namespace OS
open Scalar Finset

/-! ### list sums as `Fin`-indexed sums -/

theorem sum_zipIdx_map {β : Type} (l : List β) (f : β × ℕ → ℝ) :
    (l.zipIdx.map f).sum = ∑ i : Fin l.length, f (l[i], i) := by
  rw [← List.sum_ofFn]
  congr 1
  apply List.ext_getElem <;> simp

theorem c07_sum_filter_map {β : Type} (l : List β) (p : β → Bool) (f : β → ℝ) :
    ((l.filter p).map f).sum = (l.map (fun x => if p x then f x else 0)).sum := by
  induction l with
  | nil => simp
  | cons x xs ih =>
    by_cases h : p x <;> simp [h, ih]

theorem sum_map_fin {β : Type} (l : List β) (f : β → ℝ) :
    (l.map f).sum = ∑ i : Fin l.length, f l[i] := (Fin.sum_univ_fun_getElem l f).symm

theorem zip_zipIdx_map {β γ : Type} (l : List β) (F : β × ℕ → γ) :
    (l.zipIdx.map F).zip l = l.zipIdx.map (fun x => (F x, x.1)) := by
  have h : (l.zipIdx.map F).zip (l.zipIdx.map Prod.fst) = l.zipIdx.map (fun x => (F x, x.1)) :=
    List.zip_map'
  rwa [List.zipIdx_map_fst] at h

/-- the quantity of C07 for an `omegaDelta` of the shape `ts.zipIdx.map F` -/
theorem c07_sum_eq (ts : List (TeamAgg ℝ)) (F : TeamAgg ℝ × ℕ → ℝ × ℝ) :
    (((ts.zipIdx.map F).zip ts).map (fun x => x.1.1 / x.2.sig2)).sum
      = ∑ i : Fin ts.length, (F (ts[i], i)).1 / ts[i].sig2 := by
  rw [zip_zipIdx_map, List.map_map, sum_zipIdx_map]
  rfl

/-! ### Plackett–Luce -/

/-- `sum_q` entry of a team -/
noncomputable def plS (ts : List (TeamAgg ℝ)) (c : ℝ) (tq : TeamAgg ℝ) : ℝ :=
  sumL ((ts.filter (fun ti => decide (tq.rank ≤ ti.rank))).map (fun ti => exp (ti.mu / c)))

/-- `a` entry of a team -/
def plAq (ts : List (TeamAgg ℝ)) (t : TeamAgg ℝ) : ℕ :=
  (ts.filter (fun q => decide (t.rank = q.rank))).length

theorem pl_zip_eq (ts : List (TeamAgg ℝ)) (c : ℝ) :
    ts.zip ((plSumQ ts c).zip (plA ts)) = ts.map (fun t => (t, plS ts c t, plAq ts t)) := by
  have h1 : (plSumQ ts c).zip (plA ts) = ts.map (fun t => (plS ts c t, plAq ts t)) :=
    List.zip_map'
  have h2 : (ts.map id).zip (ts.map (fun t => (plS ts c t, plAq ts t)))
      = ts.map (fun t => (id t, plS ts c t, plAq ts t)) := List.zip_map'
  rw [h1]; simpa using h2

theorem plS_eq (ts : List (TeamAgg ℝ)) (c : ℝ) (tq : TeamAgg ℝ) :
    plS ts c tq = ∑ j : Fin ts.length,
      if tq.rank ≤ ts[j].rank then Real.exp (ts[j].mu / c) else 0 := by
  unfold plS
  rw [sumL_eq_sum, c07_sum_filter_map, sum_map_fin]
  simp only [sc_exp, decide_eq_true_eq]

theorem plS_pos (ts : List (TeamAgg ℝ)) (c : ℝ) (q : Fin ts.length) : 0 < plS ts c ts[q] := by
  rw [plS_eq]
  apply Finset.sum_pos'
  · intro j _; split_ifs
    · exact (Real.exp_pos _).le
    · exact le_rfl
  · exact ⟨q, Finset.mem_univ _, by simp [Real.exp_pos]⟩

/-- `Ω_i` of Plackett–Luce as a `Fin`-indexed sum -/
theorem plOmega_eq (g : GammaFn ℝ) (ts : List (TeamAgg ℝ)) (c : ℝ) (i : Fin ts.length) :
    (plOmegaDelta g ts c (plSumQ ts c) (plA ts) i ts[i]).1
      = (∑ q : Fin ts.length, if ts[q].rank ≤ ts[i].rank then
            ((if q = i then 1 else 0) - Real.exp (ts[i].mu / c) / plS ts c ts[q]) / (plAq ts ts[q] : ℝ)
          else 0) * (ts[i].sig2 / c) := by
  simp only [plOmegaDelta, pl_zip_eq, List.zipIdx_map, sumL_eq_sum, c07_sum_filter_map, List.map_map,
    sum_zipIdx_map]
  congr 1
  apply Finset.sum_congr rfl
  intro q _
  simp only [Function.comp, Prod.map, id, sc_exp, sc_ofNat, decide_eq_true_eq, Nat.cast_one,
    Fin.val_inj]
  split_ifs <;> ring

/-- the Plackett–Luce zero sum, `Fin`-indexed -/
theorem pl_zero_sum (ts : List (TeamAgg ℝ)) (c : ℝ) :
    ∑ i : Fin ts.length, ∑ q : Fin ts.length, (if ts[q].rank ≤ ts[i].rank then
        ((if q = i then 1 else 0) - Real.exp (ts[i].mu / c) / plS ts c ts[q]) / (plAq ts ts[q] : ℝ)
      else 0) = 0 := by
  rw [Finset.sum_comm]
  apply Finset.sum_eq_zero
  intro q _
  have hS := plS_pos ts c q
  simp only [← Finset.sum_filter]
  rw [← Finset.sum_div, Finset.sum_sub_distrib, ← Finset.sum_div]
  have h1 : ∑ i ∈ Finset.univ.filter (fun i : Fin ts.length => ts[q].rank ≤ ts[i].rank),
      (if q = i then (1:ℝ) else 0) = 1 := by
    rw [Finset.sum_ite_eq]; simp
  have h2 : ∑ i ∈ Finset.univ.filter (fun i : Fin ts.length => ts[q].rank ≤ ts[i].rank),
      Real.exp (ts[i].mu / c) = plS ts c ts[q] := by
    rw [plS_eq, Finset.sum_filter]
  rw [h1, h2, div_self hS.ne']
  simp

/-! ### full pairing -/


theorem sumPairs_map_fst {β : Type} (l : List β) (pr : β → ℝ × ℝ) :
    (sumPairs (l.map pr)).1 = (l.map (fun q => (pr q).1)).sum := by
  simp [sumPairs, sumL_eq_sum, List.map_map, Function.comp_def]

theorem c07_sum_othersOf {β : Type} (ts : List β) (i : ℕ) (f : β → ℝ) :
    ((othersOf ts i).map f).sum = ∑ q : Fin ts.length, if (q : ℕ) ≠ i then f ts[q] else 0 := by
  unfold othersOf
  rw [List.map_map, c07_sum_filter_map, sum_zipIdx_map]
  simp

/-- a double sum over ordered pairs `i ≠ q` is the sum over `i < q` of the symmetrised term -/
theorem sum_offdiag_symm {n : ℕ} (a : Fin n → Fin n → ℝ) :
    ∑ i : Fin n, ∑ q : Fin n, (if (q : ℕ) ≠ i then a i q else 0)
      = ∑ i : Fin n, ∑ q : Fin n, if i < q then a i q + a q i else 0 := by
  have h1 : ∀ i q : Fin n, (if (q : ℕ) ≠ i then a i q else 0)
      = (if i < q then a i q else 0) + (if q < i then a i q else 0) := by
    intro i q
    rcases lt_trichotomy i q with h | h | h
    · have : (q : ℕ) ≠ i := by have := Fin.lt_def.mp h; omega
      simp [h, this, not_lt.mpr h.le]
    · subst h; simp
    · have : (q : ℕ) ≠ i := by have := Fin.lt_def.mp h; omega
      simp [h, this, not_lt.mpr h.le]
  have h2 : ∑ i : Fin n, ∑ q : Fin n, (if q < i then a i q else 0)
      = ∑ i : Fin n, ∑ q : Fin n, (if i < q then a q i else 0) := Finset.sum_comm
  simp only [h1, Finset.sum_add_distrib, h2]
  rw [← Finset.sum_add_distrib]
  apply Finset.sum_congr rfl; intro i _
  rw [← Finset.sum_add_distrib]
  apply Finset.sum_congr rfl; intro q _
  split_ifs <;> simp

/-- the C07 quantity of a full-pairing model -/
theorem c07_full_eq (ts : List (TeamAgg ℝ)) (pr : TeamAgg ℝ → TeamAgg ℝ → ℝ × ℝ) :
    (((ts.zipIdx.map (fun x => sumPairs ((othersOf ts x.2).map (pr x.1)))).zip ts).map
        (fun x => x.1.1 / x.2.sig2)).sum
      = ∑ i : Fin ts.length, ∑ q : Fin ts.length,
          if i < q then (pr ts[i] ts[q]).1 / ts[i].sig2 + (pr ts[q] ts[i]).1 / ts[q].sig2 else 0 := by
  rw [c07_sum_eq, ← sum_offdiag_symm]
  apply Finset.sum_congr rfl; intro i _
  simp only [sumPairs_map_fst, c07_sum_othersOf, Finset.sum_div]
  apply Finset.sum_congr rfl; intro q _
  split_ifs <;> simp


/-! ### partial pairing (ladder) -/



theorem c07_sum_neighboursOf {β : Type} (ts : List β) (d : β) (i : ℕ) (f : β → ℝ) :
    ((neighboursOf ts i).map f).sum
      = (if i = 0 then 0 else if i - 1 < ts.length then f (ts.getD (i - 1) d) else 0)
        + (if i + 1 < ts.length then f (ts.getD (i + 1) d) else 0) := by
  unfold neighboursOf
  rw [List.map_append, List.sum_append]
  congr 1
  · by_cases h0 : i = 0
    · simp [h0]
    · by_cases h1 : i - 1 < ts.length
      · simp [h0, h1, List.getD_eq_getElem?_getD]
      · simp [h0, h1]
  · by_cases h1 : i + 1 < ts.length
    · simp [h1, List.getD_eq_getElem?_getD]
    · simp [h1]

/-- ladder sum: `Σ_i [a(i,i−1) + a(i,i+1)] = Σ_j [a(j,j+1) + a(j+1,j)]` -/
theorem sum_ladder (n : ℕ) (A : ℕ → ℕ → ℝ) :
    ∑ i ∈ Finset.range n, ((if i = 0 then 0 else if i - 1 < n then A i (i - 1) else 0)
        + (if i + 1 < n then A i (i + 1) else 0))
      = ∑ j ∈ Finset.range (n - 1), (A j (j + 1) + A (j + 1) j) := by
  cases n with
  | zero => simp
  | succ m =>
    rw [Finset.sum_add_distrib, Finset.sum_range_succ', Finset.sum_range_succ]
    simp only [Nat.add_sub_cancel, Finset.sum_add_distrib]
    have h1 : ∑ k ∈ Finset.range m,
        (if k + 1 = 0 then 0 else if k < m + 1 then A (k + 1) k else 0)
        = ∑ k ∈ Finset.range m, A (k + 1) k := by
      apply Finset.sum_congr rfl; intro k hk
      have := Finset.mem_range.mp hk
      simp [show k < m + 1 by omega]
    have h2 : ∑ k ∈ Finset.range m, (if k + 1 < m + 1 then A k (k + 1) else 0)
        = ∑ k ∈ Finset.range m, A k (k + 1) := by
      apply Finset.sum_congr rfl; intro k hk
      have := Finset.mem_range.mp hk
      simp [this]
    rw [h1, h2]; simp; ring

/-- the C07 quantity of a partial-pairing (ladder) model -/
theorem c07_partial_eq (ts : List (TeamAgg ℝ)) (d : TeamAgg ℝ)
    (pr : TeamAgg ℝ → TeamAgg ℝ → ℝ × ℝ) :
    (((ts.zipIdx.map (fun x => sumPairs ((neighboursOf ts x.2).map (pr x.1)))).zip ts).map
        (fun x => x.1.1 / x.2.sig2)).sum
      = ∑ j ∈ Finset.range (ts.length - 1),
          ((pr (ts.getD j d) (ts.getD (j + 1) d)).1 / (ts.getD j d).sig2
            + (pr (ts.getD (j + 1) d) (ts.getD j d)).1 / (ts.getD (j + 1) d).sig2) := by
  rw [c07_sum_eq, ← sum_ladder ts.length
    (fun i q => (pr (ts.getD i d) (ts.getD q d)).1 / (ts.getD i d).sig2),
    ← Fin.sum_univ_eq_sum_range]
  apply Finset.sum_congr rfl; intro i _
  have hi : ts[i] = ts.getD i d := List.getElem_eq_getD d
  simp only [sumPairs_map_fst, c07_sum_neighboursOf ts d, hi]
  split_ifs <;> simp [add_div]


/-! ### Thurstone–Mosteller pair term -/


/-- `c_iq` of the Thurstone–Mosteller pair term -/
noncomputable def tmC (cmul β : ℝ) (ti tq : TeamAgg ℝ) : ℝ :=
  cmul * Real.sqrt (ti.sig2 + tq.sig2 + 2 * (β * β))

/-- the largest possible contribution `2κ / c_iq²` of a tied pair with exactly equal mu -/
noncomputable def tmSlack (cmul β κ : ℝ) (ti tq : TeamAgg ℝ) : ℝ :=
  2 * κ / (cmul ^ 2 * (ti.sig2 + tq.sig2 + 2 * (β * β)))

theorem tmC_symm (cmul β : ℝ) (ti tq : TeamAgg ℝ) : tmC cmul β tq ti = tmC cmul β ti tq := by
  unfold tmC; congr 2; ring

theorem tmC_pos (cmul β : ℝ) (ti tq : TeamAgg ℝ) (hc : 0 < cmul) (hi : 0 < ti.sig2)
    (hq : 0 < tq.sig2) : 0 < tmC cmul β ti tq := by
  unfold tmC
  apply mul_pos hc
  apply Real.sqrt_pos.mpr
  have : 0 ≤ β * β := mul_self_nonneg β
  linarith

theorem tmC_sq (cmul β : ℝ) (ti tq : TeamAgg ℝ) (hi : 0 < ti.sig2) (hq : 0 < tq.sig2) :
    tmC cmul β ti tq ^ 2 = cmul ^ 2 * (ti.sig2 + tq.sig2 + 2 * (β * β)) := by
  unfold tmC
  have : 0 ≤ β * β := mul_self_nonneg β
  rw [mul_pow, Real.sq_sqrt (by linarith)]

/-- the first component of `tmPair`, in terms of `tmC` -/
theorem tmPair_fst (L : Leaves ℝ) (cmul β κ : ℝ) (g : GammaFn ℝ) (n : ℕ) (ti tq : TeamAgg ℝ) :
    (tmPair L cmul β κ g n ti tq).1 =
      if ti.rank < tq.rank then
        ti.sig2 / tmC cmul β ti tq * L.v ((ti.mu - tq.mu) / tmC cmul β ti tq) (κ / tmC cmul β ti tq)
      else if tq.rank < ti.rank then
        -(ti.sig2 / tmC cmul β ti tq) *
          L.v (-((ti.mu - tq.mu) / tmC cmul β ti tq)) (κ / tmC cmul β ti tq)
      else
        ti.sig2 / tmC cmul β ti tq * L.vt ((ti.mu - tq.mu) / tmC cmul β ti tq) (κ / tmC cmul β ti tq) := by
  simp only [tmPair, tmC, sc_sqrt, sc_ofNat, Nat.cast_ofNat]
  split_ifs <;> rfl

theorem share_cancel (s c v : ℝ) (hs : s ≠ 0) : s / c * v / s = v / c := by
  by_cases hc : c = 0
  · simp [hc]
  · field_simp


/-! ### consequences used by the property theorems -/

theorem c07_full_zero (ts : List (TeamAgg ℝ)) (pr : TeamAgg ℝ → TeamAgg ℝ → ℝ × ℝ)
    (h : ∀ i q : Fin ts.length, i < q →
      (pr ts[i] ts[q]).1 / ts[i].sig2 + (pr ts[q] ts[i]).1 / ts[q].sig2 = 0) :
    (((ts.zipIdx.map (fun x => sumPairs ((othersOf ts x.2).map (pr x.1)))).zip ts).map
        (fun x => x.1.1 / x.2.sig2)).sum = 0 := by
  rw [c07_full_eq]
  apply Finset.sum_eq_zero; intro i _
  apply Finset.sum_eq_zero; intro q _
  split_ifs with hiq
  · exact h i q hiq
  · rfl

theorem c07_full_abs_le (ts : List (TeamAgg ℝ)) (pr : TeamAgg ℝ → TeamAgg ℝ → ℝ × ℝ)
    (B : Fin ts.length → Fin ts.length → ℝ)
    (h : ∀ i q : Fin ts.length, i < q →
      |(pr ts[i] ts[q]).1 / ts[i].sig2 + (pr ts[q] ts[i]).1 / ts[q].sig2| ≤ B i q) :
    |(((ts.zipIdx.map (fun x => sumPairs ((othersOf ts x.2).map (pr x.1)))).zip ts).map
        (fun x => x.1.1 / x.2.sig2)).sum|
      ≤ ∑ i : Fin ts.length, ∑ q : Fin ts.length, if i < q then B i q else 0 := by
  rw [c07_full_eq]
  refine (Finset.abs_sum_le_sum_abs _ _).trans (Finset.sum_le_sum fun i _ => ?_)
  refine (Finset.abs_sum_le_sum_abs _ _).trans (Finset.sum_le_sum fun q _ => ?_)
  split_ifs with hiq
  · exact h i q hiq
  · simp

/-- a default team, only used as the out-of-range value of `List.getD` -/
def dfltTeam : TeamAgg ℝ := ⟨0, 0, 0, []⟩

theorem c07_partial_zero (ts : List (TeamAgg ℝ)) (pr : TeamAgg ℝ → TeamAgg ℝ → ℝ × ℝ)
    (h : ∀ (j : ℕ) (hj : j + 1 < ts.length),
      (pr ts[j] ts[j + 1]).1 / ts[j].sig2 + (pr ts[j + 1] ts[j]).1 / ts[j + 1].sig2 = 0) :
    (((ts.zipIdx.map (fun x => sumPairs ((neighboursOf ts x.2).map (pr x.1)))).zip ts).map
        (fun x => x.1.1 / x.2.sig2)).sum = 0 := by
  rw [c07_partial_eq ts dfltTeam]
  apply Finset.sum_eq_zero; intro j hj
  have hj' : j + 1 < ts.length := by have := Finset.mem_range.mp hj; omega
  rw [← List.getElem_eq_getD (h := hj') dfltTeam,
    ← List.getElem_eq_getD (h := Nat.lt_of_succ_lt hj') dfltTeam]
  exact h j hj'

theorem c07_partial_abs_le (ts : List (TeamAgg ℝ)) (pr : TeamAgg ℝ → TeamAgg ℝ → ℝ × ℝ)
    (B : ℕ → ℝ)
    (h : ∀ (j : ℕ) (hj : j + 1 < ts.length),
      |(pr ts[j] ts[j + 1]).1 / ts[j].sig2 + (pr ts[j + 1] ts[j]).1 / ts[j + 1].sig2| ≤ B j) :
    |(((ts.zipIdx.map (fun x => sumPairs ((neighboursOf ts x.2).map (pr x.1)))).zip ts).map
        (fun x => x.1.1 / x.2.sig2)).sum|
      ≤ ∑ j ∈ Finset.range (ts.length - 1), B j := by
  rw [c07_partial_eq ts dfltTeam]
  refine (Finset.abs_sum_le_sum_abs _ _).trans (Finset.sum_le_sum fun j hj => ?_)
  have hj' : j + 1 < ts.length := by have := Finset.mem_range.mp hj; omega
  rw [← List.getElem_eq_getD (h := hj') dfltTeam,
    ← List.getElem_eq_getD (h := Nat.lt_of_succ_lt hj') dfltTeam]
  exact h j hj'

/-- every `omegaDelta` is a map over the indexed team list -/
theorem omegaDelta_shape (K : Kind) (L : Leaves ℝ) (P : Params ℝ) (ts : List (TeamAgg ℝ)) :
    ∃ F : TeamAgg ℝ × ℕ → ℝ × ℝ, omegaDelta K L P ts = ts.zipIdx.map F := by
  cases K <;> exact ⟨_, rfl⟩

theorem c07_equal_variance_aux (ts : List (TeamAgg ℝ)) (F : TeamAgg ℝ × ℕ → ℝ × ℝ) (s : ℝ)
    (h : ∀ t ∈ ts, t.sig2 = s) :
    (((ts.zipIdx.map F).zip ts).map (fun x => x.1.1 / x.2.sig2)).sum
      = ((ts.zipIdx.map F).map (·.1)).sum / s := by
  rw [c07_sum_eq, List.map_map, sum_zipIdx_map, Finset.sum_div]
  apply Finset.sum_congr rfl; intro i _
  rw [h ts[i] (List.getElem_mem _)]
  rfl

/-! ### the per-player update -/

/-- A team whose `sig2` is the sum of its members' variances (as built by `teamAgg`). -/
def TeamAgg.Coherent (t : TeamAgg ℝ) : Prop :=
  t.sig2 = (t.players.map (fun p => p.sigma * p.sigma)).sum

theorem teamAgg_coherent (team : List (Rating ℝ)) (r : ℕ) : (teamAgg team r).Coherent := by
  simp [TeamAgg.Coherent, teamAgg, sumL_eq_sum]

theorem teamAggs_coherent (teams : List (List (Rating ℝ))) (dense : List ℕ) :
    ∀ t ∈ teamAggs teams dense, t.Coherent := by
  intro t ht
  obtain ⟨tr, _, rfl⟩ := List.mem_map.mp ht
  exact teamAgg_coherent _ _

theorem team_total_change_of_coherent (κ : ℝ) (t : TeamAgg ℝ) (ω δ : ℝ) (hc : t.Coherent)
    (h : t.sig2 ≠ 0) :
    (((applyTeam κ t ω δ).zip t.players).map (fun x => x.1.mu - x.2.mu)).sum = ω := by
  unfold applyTeam
  have hz : ∀ (l : List (Rating ℝ)) (G : Rating ℝ → Rating ℝ),
      (l.map G).zip l = l.map (fun p => (G p, p)) := by
    intro l G
    have := List.zip_map' (f := G) (g := id) (l := l)
    simpa using this
  rw [hz, List.map_map]
  have hf : ((fun x : Rating ℝ × Rating ℝ => x.1.mu - x.2.mu) ∘ fun p : Rating ℝ =>
      ({ p with mu := p.mu + p.sigma * p.sigma / t.sig2 * ω,
                sigma := p.sigma * sqrt (smax (ofNat 1 - p.sigma * p.sigma / t.sig2 * δ) κ) }, p))
      = fun p => p.sigma * p.sigma * (ω / t.sig2) := by
    funext p
    simp only [Function.comp]
    ring
  rw [hf, List.sum_map_mul_right, ← hc]
  field_simp

end OS
