import OSProofs.Gauss
import OSProofs.PredictSumLemmas
import Mathlib.Tactic.Ring
import Mathlib.Tactic.Linarith
import Mathlib.Tactic.FieldSimp

/-!
# Helper lemmas for C11b (rank probabilities + draw probability = 1)

Small facts about sums of real lists, and strict positivity of the model's quantile function
above one half.
-/

noncomputable section
namespace OS

/-- dividing every term by `D` divides the sum by `D` -/
theorem rks_sum_map_div {ι : Type} (l : List ι) (f : ι → ℝ) (D : ℝ) :
    (l.map (fun a => f a / D)).sum = (l.map f).sum / D := by
  induction l with
  | nil => simp
  | cons a l ih => simp only [List.map_cons, List.sum_cons, ih]; ring

/-- if `f p + g p / 2 = c` for every entry, then `Σ f + (Σ g)/2 = c · length` -/
theorem rks_sum_add_half {ι : Type} (l : List ι) (f g : ι → ℝ) (c : ℝ)
    (h : ∀ p ∈ l, f p + g p / 2 = c) :
    (l.map f).sum + (l.map g).sum / 2 = c * (l.length : ℝ) := by
  induction l with
  | nil => simp
  | cons a l ih =>
    have h1 := h a (by simp)
    have h2 := ih (fun p hp => h p (by simp [hp]))
    simp only [List.map_cons, List.sum_cons, List.length_cons]
    push_cast
    linarith

/-- the arithmetic at the end: `R/(N/2) + Dr/N = 1` when `R + Dr/2 = k`, `N = 2k`, `k > 0` -/
theorem rks_final_arith (R Dr k N : ℝ) (hk : 0 < k) (hN : N = 2 * k) (h : R + Dr / 2 = 1 * k) :
    R / (N / 2) + Dr / N = 1 := by
  subst hN
  have hk' : k ≠ 0 := ne_of_gt hk
  have hR : R = k - Dr / 2 := by linarith
  subst hR
  field_simp
  ring

/-- the model's quantile function is strictly positive strictly between ½ and 1 -/
theorem rks_PhiInv_pos {p : ℝ} (h0 : 1 / 2 < p) (h1 : p < 1) : 0 < Gauss.PhiInv p := by
  by_contra hneg
  have hle : Gauss.PhiInv p ≤ 0 := not_lt.mp hneg
  have := Gauss.Phi_strictMono.monotone hle
  rw [Gauss.Phi_PhiInv (by linarith) h1, Gauss.Phi_zero] at this
  linarith

end OS
end
