import OSProofs.RealInst
import Mathlib.Data.List.Sort
/-!
# C18 — rating comparison operators order players exactly as ordinal() does
-/
namespace OS
open Scalar

section generic
variable {α : Type} [Scalar α]

/-- `ordinal(z) = mu − z·sigma` -/
theorem C18_ordinal (z : α) (r : Rating α) : ordinal z r = r.mu - z * r.sigma := rfl

/-- the four order operators on two ratings of one class are the comparisons of the ordinals (z = 3) -/
theorem C18_lt (a b : Rating α) :
    cmpOp .lt a (.same b) = .bool (decide (ordinal three a < ordinal three b)) := rfl
theorem C18_le (a b : Rating α) :
    cmpOp .le a (.same b) = .bool (decide (ordinal three a ≤ ordinal three b)) := rfl
theorem C18_gt (a b : Rating α) :
    cmpOp .gt a (.same b) = .bool (decide (ordinal three b < ordinal three a)) := rfl
theorem C18_ge (a b : Rating α) :
    cmpOp .ge a (.same b) = .bool (decide (ordinal three b ≤ ordinal three a)) := rfl

/-- anything that is not a rating of the same class: ValueError for the four order operators … -/
theorem C18_foreign_order (op : CmpOp) (a : Rating α) : cmpOp op a .foreign = .valueError := rfl

/-- … and simply unequal for `==` -/
theorem C18_foreign_eq (a : Rating α) : eqOp a .foreign = false := rfl

end generic

/-- over ℝ: `a == b` holds exactly when mu and sigma are both equal -/
theorem C18_eq_iff (a b : Rating ℝ) : eqOp a (.same b) = true ↔ (a.mu = b.mu ∧ a.sigma = b.sigma) := by
  simp only [eqOp, feq, Bool.and_eq_true, decide_eq_true_eq]
  constructor
  · rintro ⟨⟨h1, h2⟩, h3, h4⟩; exact ⟨le_antisymm h1 h2, le_antisymm h3 h4⟩
  · rintro ⟨h1, h2⟩; rw [h1, h2]; exact ⟨⟨le_refl _, le_refl _⟩, le_refl _, le_refl _⟩

/-- over ℝ: `a < b` holds exactly when ordinal(a) < ordinal(b) with ordinal = mu − 3 sigma -/
theorem C18_lt_iff (a b : Rating ℝ) :
    cmpOp .lt a (.same b) = .bool true ↔ a.mu - 3 * a.sigma < b.mu - 3 * b.sigma := by
  simp [cmpOp, ordinal, three]
  exact decide_eq_true_iff

theorem C18_le_iff (a b : Rating ℝ) :
    cmpOp .le a (.same b) = .bool true ↔ a.mu - 3 * a.sigma ≤ b.mu - 3 * b.sigma := by
  simp [cmpOp, ordinal, three]

/-- sorting rating objects with `<=` (what `sorted` does through `__lt__`) yields a list that is
non-decreasing in ordinal: the leaderboard order -/
theorem C18_sorted_leaderboard (l : List (Rating ℝ)) :
    (l.mergeSort (fun a b => decide (ordinal three a ≤ ordinal three b))).Pairwise
      (fun a b => ordinal three a ≤ ordinal three b) := by
  have := List.pairwise_mergeSort
    (le := fun (a b : Rating ℝ) => decide (ordinal three a ≤ ordinal three b))
    (fun a b c hab hbc => by simp only [decide_eq_true_eq] at *; exact le_trans hab hbc)
    (fun a b => by simp only [Bool.or_eq_true, decide_eq_true_eq]; exact le_total _ _) l
  simpa using this

/-- non-vacuity: two different ratings with equal ordinals are `<=` both ways, not `<`, and not `==` -/
example : cmpOp .le ({ id := 0, mu := 25, sigma := 8 } : Rating ℝ) (.same { id := 1, mu := 28, sigma := 9 }) = .bool true := by
  rw [C18_le_iff]; norm_num

end OS
