import OSProofs.Loops
import OSProofs.RealInst
import OSProofs.SortLemmas
import OSProofs.CodeShaped

/-!
# The closed forms of `Compute.lean` are justified by proof: loop-shaped `_compute` = `compute`

`OSModel/Loops.lean` transliterates the five `_compute` bodies statement by statement (nested `for`
loops with the accumulators `omega`, `delta`, `continue`, the `if / elif / else` on the ranks, the
final `*=` scalings, the player loop with its list reads).  This file proves each of them equal to the
closed form `compute` that every other theorem of the project is about.

* `computeLoopBTF_eq`, `computeLoopBTP_eq`, `computeLoopTMP_eq` hold for EVERY scalar type with no
  hypothesis: both sides perform the same operations in the same order, hence the equality holds for
  the `Float` instantiation bit for bit.
* `computeLoopPL_eq` needs `hsub : a - b = a + -b`: the code says `omega -= p / a[q]`, the closed form
  adds `-(p / a)`.  (True in ℝ and in IEEE-754 arithmetic.)
* `computeLoopTMF_eq` needs `hone : 1 * a = a`: the code says `c_iq = math.sqrt(…)`, the closed form
  `tmPair` is shared with partial pairing (`c_iq = 2 * math.sqrt(…)`) and multiplies by `ofNat 1`.
  (True in ℝ and in IEEE-754 arithmetic.)
* `computeLoop_eq` collects the five; `computeLoop_eq_real` is the unconditional statement over ℝ.
* `rateCore_via_loops` / `rateCore_via_loops_real`: `rateCore` with `compute` replaced by `computeLoop`
  is the same function.
-/

namespace OS
open Scalar

section
variable {α : Type} [Scalar α]

/-- **Bradley–Terry full pairing: the nested loops of `_compute` equal the closed form**, for every
scalar type, no arithmetic law used (same operations, same order — bit for bit at `Float`). -/
theorem computeLoopBTF_eq (L : Leaves α) (P : Params α) (teams : List (List (Rating α)))
    (dense : List Nat) : computeLoopBTF L P teams dense = compute .BTF L P teams dense := by
  rw [lp_compute_eq .BTF L P teams dense
    (fun x => sumPairs ((othersOf (teamAggs teams dense) x.2).map
      (btPair P.beta P.gamma (teamAggs teams dense).length x.1))) rfl]
  have h := lp_outer_eq P.kappa teams dense
    (fun it => loopBTFInner P (teamAggs teams dense) it.2 it.1)
  unfold computeLoopBTF computeLoopBTFOn
  refine h.trans ?_
  apply List.map_congr_left
  intro x _
  simp only [lp_loopBTFInner_eq]

/-- **Thurstone–Mosteller full pairing: the nested loops of `_compute` equal the closed form**, for
every scalar type in which `1 * a = a` (the closed form multiplies the square root by `ofNat 1`, the
code does not multiply). -/
theorem computeLoopTMF_eq (hone : ∀ a : α, ofNat 1 * a = a) (L : Leaves α) (P : Params α)
    (teams : List (List (Rating α))) (dense : List Nat) :
    computeLoopTMF L P teams dense = compute .TMF L P teams dense := by
  rw [lp_compute_eq .TMF L P teams dense
    (fun x => sumPairs ((othersOf (teamAggs teams dense) x.2).map
      (tmPair L (ofNat 1) P.beta P.kappa P.gamma (teamAggs teams dense).length x.1))) rfl]
  have h := lp_outer_eq P.kappa teams dense
    (fun it => loopTMFInner L P (teamAggs teams dense) it.2 it.1)
  unfold computeLoopTMF computeLoopTMFOn
  refine h.trans ?_
  apply List.map_congr_left
  intro x _
  simp only [lp_loopTMFInner_eq hone]

/-- **Plackett–Luce: the nested loops of `_compute` equal the closed form**, for every scalar type in
which `a - b = a + -b` (the code subtracts, the closed form adds the negation). -/
theorem computeLoopPL_eq (hsub : ∀ a b : α, a - b = a + -b) (L : Leaves α) (P : Params α)
    (teams : List (List (Rating α))) (dense : List Nat) :
    computeLoopPL L P teams dense = compute .PL L P teams dense := by
  rw [lp_compute_eq .PL L P teams dense
    (fun x => plOmegaDelta P.gamma (teamAggs teams dense) (plC P.beta (teamAggs teams dense))
      (plSumQ (teamAggs teams dense) (plC P.beta (teamAggs teams dense))) (plA (teamAggs teams dense))
      x.2 x.1) rfl]
  have h := lp_outer_eq P.kappa teams dense
    (fun it =>
      let ts := teamAggs teams dense
      let c := plC P.beta ts
      let od := loopPLInner ts c (plSumQ ts c) (plA ts) it.2 it.1
      (od.1 * (it.1.sig2 / c),
       od.2 * (it.1.sig2 / (c * c)) * gammaVal P.gamma c ts.length it.1.mu it.1.sig2 it.1.players it.1.rank))
  unfold computeLoopPL computeLoopPLOn computeLoopPLWith
  refine h.trans ?_
  apply List.map_congr_left
  intro x _
  rw [lp_plOmegaDelta_eq hsub P.gamma (teamAggs teams dense) _ _ _
    (by unfold plSumQ; rw [List.length_map]) (by unfold plA; rw [List.length_map])]

/-- **Bradley–Terry partial pairing: `zip(team_ratings, _ladder_pairs(team_ratings))`, `i_map`,
`od_reduce` equal the closed form**, for every scalar type, no arithmetic law used. -/
theorem computeLoopBTP_eq (L : Leaves α) (P : Params α) (teams : List (List (Rating α)))
    (dense : List Nat) : computeLoopBTP L P teams dense = compute .BTP L P teams dense := by
  rw [lp_compute_eq .BTP L P teams dense
    (fun x => sumPairs ((neighboursOf (teamAggs teams dense) x.2).map
      (btPair P.beta P.gamma (teamAggs teams dense).length x.1))) rfl]
  unfold computeLoopBTP computeLoopBTPOn
  simp only []
  rw [lp_zip_ladder, List.map_map]
  apply List.map_congr_left
  intro x _
  simp only [Function.comp, lp_loopBTPReduce_eq]
  exact lp_loopPlayers_eq P.kappa x.1 _ rfl _ _

/-- **Thurstone–Mosteller partial pairing: `zip(team_ratings, _ladder_pairs(team_ratings))`, `i_map`,
`od_reduce` equal the closed form**, for every scalar type, no arithmetic law used. -/
theorem computeLoopTMP_eq (L : Leaves α) (P : Params α) (teams : List (List (Rating α)))
    (dense : List Nat) : computeLoopTMP L P teams dense = compute .TMP L P teams dense := by
  rw [lp_compute_eq .TMP L P teams dense
    (fun x => sumPairs ((neighboursOf (teamAggs teams dense) x.2).map
      (tmPair L (ofNat 2) P.beta P.kappa P.gamma (teamAggs teams dense).length x.1))) rfl]
  unfold computeLoopTMP computeLoopTMPOn
  simp only []
  rw [lp_zip_ladder, List.map_map]
  apply List.map_congr_left
  intro x _
  simp only [Function.comp, lp_loopTMPReduce_eq]
  exact lp_loopPlayers_eq P.kappa x.1 _ rfl _ _

/-- **All five models: the loop-shaped `_compute` equals the closed form `compute`.**  The two
hypotheses are laws of IEEE-754 arithmetic as well as of ℝ; each is needed by one model only
(`hsub` by Plackett–Luce, `hone` by Thurstone–Mosteller full pairing — see the per-kind theorems,
which state exactly what each model needs). -/
theorem computeLoop_eq (K : Kind) (hsub : ∀ a b : α, a - b = a + -b) (hone : ∀ a : α, ofNat 1 * a = a)
    (L : Leaves α) (P : Params α) (teams : List (List (Rating α))) (dense : List Nat) :
    computeLoop K L P teams dense = compute K L P teams dense := by
  cases K with
  | PL => exact computeLoopPL_eq hsub L P teams dense
  | BTF => exact computeLoopBTF_eq L P teams dense
  | BTP => exact computeLoopBTP_eq L P teams dense
  | TMF => exact computeLoopTMF_eq hone L P teams dense
  | TMP => exact computeLoopTMP_eq L P teams dense

/-- the three kinds whose loop and closed form are operation-for-operation identical -/
theorem computeLoop_eq_exact (K : Kind) (hK : K = .BTF ∨ K = .BTP ∨ K = .TMP)
    (L : Leaves α) (P : Params α) (teams : List (List (Rating α))) (dense : List Nat) :
    computeLoop K L P teams dense = compute K L P teams dense := by
  rcases hK with h | h | h <;> subst h
  · exact computeLoopBTF_eq L P teams dense
  · exact computeLoopBTP_eq L P teams dense
  · exact computeLoopTMP_eq L P teams dense

/-- **`rateCore` computed through the loops is `rateCore`** (any scalar type with the two laws). -/
theorem rateCore_via_loops {ρ : Type} (K : Kind) (hsub : ∀ a b : α, a - b = a + -b)
    (hone : ∀ a : α, ofNat 1 * a = a) (L : Leaves α) (P : Params α) (le : ρ → ρ → Bool)
    (teams : List (List (Rating α))) (ranks : Option (List ρ)) (o : CallOpts α) :
    rateCoreLoop K L P le teams ranks o = rateCore K L P le teams ranks o := by
  unfold rateCoreLoop rateCore
  simp only [computeLoop_eq K hsub hone]
  cases ranks <;> rfl

end

/-! ## over ℝ, unconditionally -/

theorem lp_hsub_real : ∀ a b : ℝ, a - b = a + -b := fun a b => sub_eq_add_neg a b

theorem lp_hone_real : ∀ a : ℝ, (Scalar.ofNat 1 : ℝ) * a = a := by
  intro a
  simp only [sc_ofNat, Nat.cast_one, one_mul]

theorem lp_hzero_real : ∀ a : ℝ, (Scalar.ofNat 0 : ℝ) + a = a := by
  intro a
  simp only [sc_ofNat, Nat.cast_zero, zero_add]

/-- **Over ℝ the loop-shaped `_compute` of every model equals `compute`**, no hypothesis. -/
theorem computeLoop_eq_real (K : Kind) (L : Leaves ℝ) (P : Params ℝ) (teams : List (List (Rating ℝ)))
    (dense : List Nat) : computeLoop K L P teams dense = compute K L P teams dense :=
  computeLoop_eq K lp_hsub_real lp_hone_real L P teams dense

/-- **Over ℝ, `rateCore` computed through the loops is `rateCore`**, no hypothesis. -/
theorem rateCore_via_loops_real {ρ : Type} (K : Kind) (L : Leaves ℝ) (P : Params ℝ) (le : ρ → ρ → Bool)
    (teams : List (List (Rating ℝ))) (ranks : Option (List ρ)) (o : CallOpts ℝ) :
    rateCoreLoop K L P le teams ranks o = rateCore K L P le teams ranks o :=
  rateCore_via_loops K lp_hsub_real lp_hone_real L P le teams ranks o

/-! # `rate` itself: every loop literal (`rateLoop`) = the model (`rate`)

Besides `hsub` and `hone`, one more law is needed: `hzero : 0 + a = a`.  The code sums a team's `mu`s and
`sigma²`s with `functools.reduce` WITHOUT an initial value (the fold starts from the first player), and
`_sum_q` starts each dict entry from its first term, whereas `teamAgg` / `plSumQ` use `sumL`, which
starts from `0.0`.  In IEEE-754 arithmetic `0.0 + a = a` for every `a` except `a = -0.0`
(`0.0 + -0.0 = +0.0`); the component lemmas (`lp_teamRatingsLoop_eq`, `plSumQCode_eq_of_zero`) state the
exact condition: it is only the FIRST player's `mu` (resp. `sigma²`, `exp(…)`) that is added to zero. -/

section
variable {α : Type} [Scalar α]

/-- `_sum_q`, literal = closed form, for every scalar type: non-decreasing ranks, and adding
    `exp(mu_i / c)` to `0.0` gives it back (at `Float`: always, `exp` never returns `-0.0`) -/
theorem plSumQCode_eq_of_zero (ts : List (TeamAgg α)) (c : α)
    (hs : ts.Pairwise (fun a b => a.rank ≤ b.rank))
    (hz : ∀ ti ∈ ts, ofNat 0 + exp (ti.mu / c) = exp (ti.mu / c)) :
    plSumQCode ts c = plSumQ ts c := by
  rw [plSumQCode_eq_generic ts c hs]
  unfold plSumQ
  apply List.map_congr_left
  intro tq _
  have h1 : ∀ l : List α, lit_sumL1 l = reduceAdd l := by
    intro l; cases l <;> rfl
  rw [h1]
  apply lp_reduceAdd_eq_sumL
  intro x hx
  have hmem := List.mem_of_mem_head? (Option.mem_def.mpr hx)
  obtain ⟨ti, hti, rfl⟩ := List.mem_map.mp hmem
  exact hz ti (List.mem_filter.mp hti).1

/-- Plackett–Luce with the literal `_c` and `_sum_q` = with their closed forms -/
theorem computeLoopPLCodeOn_eq (L : Leaves α) (P : Params α) (teams : List (List (Rating α)))
    (ts : List (TeamAgg α)) (hs : ts.Pairwise (fun a b => a.rank ≤ b.rank))
    (hz : ∀ a : α, ofNat 0 + a = a) :
    computeLoopPLCodeOn L P teams ts = computeLoopPLOn L P teams ts := by
  unfold computeLoopPLCodeOn computeLoopPLOn computeLoopPLWith
  simp only [lp_plCLoop_eq]
  rw [plSumQCode_eq_of_zero ts _ hs (fun ti _ => hz _)]

theorem computeLoop_eq_On (K : Kind) (L : Leaves α) (P : Params α) (teams : List (List (Rating α)))
    (dense : List Nat) :
    computeLoopOn K L P teams (teamAggs teams dense) = computeLoop K L P teams dense := by
  cases K <;> rfl

/-- `_compute(teams, ranks)` with EVERYTHING literal (`_calculate_team_ratings`, `_calculate_rankings`,
    for Plackett–Luce `_c` and `_sum_q`, the body) = `compute` on the dense ranks -/
theorem computeCode_some_eq {ρ : Type} (K : Kind) (hsub : ∀ a b : α, a - b = a + -b)
    (hone : ∀ a : α, ofNat 1 * a = a) (hzero : ∀ a : α, ofNat 0 + a = a)
    (L : Leaves α) (P : Params α) (lt : ρ → ρ → Bool) (teams : List (List (Rating α))) (r : List ρ)
    (hr : r.length = teams.length) :
    computeCode K L P lt teams (some r) = compute K L P teams (denseRanks lt r) := by
  have hT : teamRatingsCode lt teams (some r) = teamAggs teams (denseRanks lt r) := by
    unfold teamRatingsCode
    simp only []
    rw [lp_rankingsLoopRanks_eq lt teams r hr]
    exact lp_teamRatingsLoop_eq teams _ (by rw [denseRanks_length, hr])
      (fun _ _ _ _ => ⟨hzero _, hzero _⟩)
  unfold computeCode
  simp only [hT]
  rw [← computeLoop_eq K hsub hone, ← computeLoop_eq_On]
  cases K
  case PL =>
    exact computeLoopPLCodeOn_eq L P teams _
      (teamAggs_rank_nondecreasing teams _ (denseRanks_nondecreasing lt r)) hzero
  all_goals rfl

/-- the same without ranks: `_calculate_rankings(game)` yields `range(len(game))` -/
theorem computeCode_none_eq {ρ : Type} (K : Kind) (hsub : ∀ a b : α, a - b = a + -b)
    (hone : ∀ a : α, ofNat 1 * a = a) (hzero : ∀ a : α, ofNat 0 + a = a)
    (L : Leaves α) (P : Params α) (lt : ρ → ρ → Bool) (teams : List (List (Rating α))) :
    computeCode K L P lt teams none = compute K L P teams (List.range teams.length) := by
  have hT : teamRatingsCode lt teams none = teamAggs teams (List.range teams.length) := by
    unfold teamRatingsCode
    simp only []
    rw [lp_rankingsLoopNone_eq teams]
    exact lp_teamRatingsLoop_eq teams _ (by rw [List.length_range])
      (fun _ _ _ _ => ⟨hzero _, hzero _⟩)
  unfold computeCode
  simp only [hT]
  rw [← computeLoop_eq K hsub hone, ← computeLoop_eq_On]
  cases K
  case PL =>
    exact computeLoopPLCodeOn_eq L P teams _
      (teamAggs_rank_nondecreasing teams _ (List.pairwise_lt_range.imp Nat.le_of_lt)) hzero
  all_goals rfl

/-! ## shapes (for the reads `original_teams[team_index][player_index]` of the `limit_sigma` loop) -/

theorem lp_shape_compute (K : Kind) (L : Leaves α) (P : Params α) (teams : List (List (Rating α)))
    (dense : List Nat) (h : teams.length ≤ dense.length) :
    (compute K L P teams dense).map List.length = teams.map List.length := by
  obtain ⟨od, hod⟩ : ∃ od : TeamAgg α × Nat → α × α,
      omegaDelta K L P (teamAggs teams dense) = (teamAggs teams dense).zipIdx.map od := by
    cases K <;> exact ⟨_, rfl⟩
  rw [lp_compute_eq K L P teams dense od hod, List.map_map]
  have h1 : (List.length ∘ fun x : TeamAgg α × Nat => applyTeam P.kappa x.1 (od x).1 (od x).2) =
      fun x => x.1.players.length := by
    funext x
    simp only [Function.comp, applyTeam, List.length_map]
  rw [h1, lp_map_zipIdx_fst (teamAggs teams dense) (fun t => t.players.length)]
  unfold teamAggs
  rw [List.map_map]
  have h2 : ((fun t : TeamAgg α => t.players.length) ∘ fun tr : List (Rating α) × Nat => teamAgg tr.1 tr.2) =
      List.length ∘ Prod.fst := by
    funext tr; rfl
  rw [h2, ← List.map_map, List.map_fst_zip h]

theorem lp_length_inflate (tau : α) (teams : List (List (Rating α))) :
    (inflate tau teams).length = teams.length := by
  unfold inflate
  rw [List.length_map]

theorem lp_shape_inflate (tau : α) (teams : List (List (Rating α))) :
    (inflate tau teams).map List.length = teams.map List.length := by
  unfold inflate
  rw [List.map_map]
  apply List.map_congr_left
  intro t _
  simp only [Function.comp, List.length_map]

theorem lp_rows_of_shape {β : Type} (res orig : List (List β))
    (h : res.map List.length = orig.map List.length) :
    res.length ≤ orig.length ∧ ∀ p ∈ res.zip orig, p.1.length ≤ p.2.length := by
  have hl : res.length = orig.length := by
    have := congrArg List.length h
    simpa using this
  refine ⟨Nat.le_of_eq hl, ?_⟩
  intro p hp
  obtain ⟨i, hi⟩ := List.mem_iff_getElem?.mp hp
  obtain ⟨h1, h2⟩ := List.getElem?_zip_eq_some.mp hi
  have h3 := congrArg (fun l => l[i]?) h
  simp only [List.getElem?_map, h1, h2, Option.map_some, Option.some.injEq] at h3
  exact Nat.le_of_eq h3

/-- the result of `rateCore` before the clamp has the shape of `teams` -/
theorem lp_shape_res {ρ : Type} (K : Kind) (L : Leaves α) (P : Params α) (le : ρ → ρ → Bool)
    (tau : α) (teams : List (List (Rating α))) (r : List ρ) (hr : r.length = teams.length) :
    ((unwind leNat (unwind le r (inflate tau teams)).2
      (compute K L P (unwind le r (inflate tau teams)).1
        (denseRanks (fun a b => !le b a) (sortedKeys le r)))).1).map List.length =
    teams.map List.length := by
  have hr' : r.length = (inflate tau teams).length := by rw [lp_length_inflate, hr]
  have h1 := congrArg Prod.fst (unwind_map leNat (unwind le r (inflate tau teams)).2
    (compute K L P (unwind le r (inflate tau teams)).1
      (denseRanks (fun a b => !le b a) (sortedKeys le r))) List.length)
  simp only [] at h1
  rw [← h1, lp_shape_compute, unwind_roundtrip le r (inflate tau teams) List.length hr',
    lp_shape_inflate]
  rw [denseRanks_length, sortedKeys_length, unwind_fst_length, hr']
  exact Nat.le_of_eq (Nat.min_self _)

/-- **`rate` with every loop literal is `rate`** — `_calculate_team_ratings`, `_calculate_rankings`, `_c`,
`_sum_q`, the `_compute` body, the tau loop, the score negation, the copy into `processed_result`,
the `limit_sigma` loop — for every scalar type with the three laws, when there is one rank (score) per
team, which validation guarantees. -/
theorem rateLoop_eq {ρ : Type} (K : Kind) (hsub : ∀ a b : α, a - b = a + -b)
    (hone : ∀ a : α, ofNat 1 * a = a) (hzero : ∀ a : α, ofNat 0 + a = a)
    (L : Leaves α) (P : Params α) (le : ρ → ρ → Bool) (neg : ρ → ρ)
    (teams : List (List (Rating α))) (oc : Outcome ρ) (o : CallOpts α)
    (hlen : match oc with
      | .omitted => True
      | .ranks r => r.length = teams.length
      | .scores s => s.length = teams.length) :
    rateLoop K L P le neg teams oc o = rate K L P le neg teams oc o := by
  have hnone : rateLoop K L P le neg teams .omitted o = rateCore K L P le teams none o := by
    unfold rateLoop rateCore
    simp only [lp_inflateLoop_eq, lp_copyLoop_eq, computeCode_none_eq K hsub hone hzero]
    split
    · have hsh := lp_rows_of_shape _ teams
        ((lp_shape_compute K L P (inflate (resolveTau P o) teams)
          (List.range (inflate (resolveTau P o) teams).length)
          (by rw [List.length_range])).trans (lp_shape_inflate _ teams))
      exact lp_clampLoop_eq teams _ hsh.1 hsh.2
    · rfl
  have hsome : ∀ (oc' : Outcome ρ) (r : List ρ), r.length = teams.length →
      (rateLoop K L P le neg teams oc' o =
        (let lt : ρ → ρ → Bool := fun a b => !le b a
         let teams' := inflateLoop (resolveTau P o) teams
         let pr := copyLoop (unwind leNat (unwind le r teams').2
           (computeCode K L P lt (unwind le r teams').1 (some (sortedKeys le r)))).1
         if resolveLimit P o then clampLoop teams pr else pr)) →
      rateLoop K L P le neg teams oc' o = rateCore K L P le teams (some r) o := by
    intro oc' r hr hdef
    rw [hdef]
    unfold rateCore
    have hl : (sortedKeys le r).length = ((unwind le r (inflate (resolveTau P o) teams)).1).length := by
      rw [sortedKeys_length, unwind_fst_length, lp_length_inflate, hr, Nat.min_self]
    simp only [lp_inflateLoop_eq, lp_copyLoop_eq, computeCode_some_eq K hsub hone hzero L P _ _ _ hl]
    split
    · have hsh := lp_rows_of_shape _ teams (lp_shape_res K L P le (resolveTau P o) teams r hr)
      exact lp_clampLoop_eq teams _ hsh.1 hsh.2
    · rfl
  cases oc with
  | omitted => exact hnone
  | ranks r => exact hsome _ r hlen rfl
  | scores s =>
    have hl : (s.map neg).length = teams.length := by rw [List.length_map]; exact hlen
    refine hsome _ (s.map neg) hl ?_
    unfold rateLoop
    simp only [lp_negateLoop_eq]

end

/-- **Over ℝ: `rate` with every loop literal is `rate`**, the only hypothesis being one rank (score)
per team. -/
theorem rateLoop_eq_real {ρ : Type} (K : Kind) (L : Leaves ℝ) (P : Params ℝ) (le : ρ → ρ → Bool)
    (neg : ρ → ρ) (teams : List (List (Rating ℝ))) (oc : Outcome ρ) (o : CallOpts ℝ)
    (hlen : match oc with
      | .omitted => True
      | .ranks r => r.length = teams.length
      | .scores s => s.length = teams.length) :
    rateLoop K L P le neg teams oc o = rate K L P le neg teams oc o :=
  rateLoop_eq K lp_hsub_real lp_hone_real lp_hzero_real L P le neg teams oc o hlen

end OS

/-! ## The hypotheses are satisfiable, and the literal definitions compute what Python computes

`#guard` evaluates the definitions at `Float` (compile-time check, no axiom).  The expected values are
the outputs of the pinned Python library:
```
m = Model(); mk = lambda mu, s: m.rating(mu=mu, sigma=s)
teams = [[mk(25.0, 8.0), mk(30.0, 4.0)], [mk(27.0, 6.0)], [mk(20.0, 7.5), mk(22.0, 3.0), mk(31.0, 9.0)], [mk(24.0, 5.0)]]
m._compute(teams, ranks=[1, 1, 2, 5])
```
(`Float`'s Φ is not CPython's, so the Thurstone–Mosteller values agree to rounding only.) -/

namespace OS

example : (∀ a b : ℝ, a - b = a + -b) ∧ (∀ a : ℝ, (Scalar.ofNat 1 : ℝ) * a = a) ∧
    (∀ a : ℝ, (Scalar.ofNat 0 : ℝ) + a = a) := ⟨lp_hsub_real, lp_hone_real, lp_hzero_real⟩

private def lp_P : Params Float :=
  { beta := 25.0 / 6.0, kappa := 0.0001, tau := 25.0 / 300.0, limitSigma := false, gamma := .dflt }

private def lp_teams : List (List (Rating Float)) :=
  [[⟨0, 25.0, 8.0⟩, ⟨1, 30.0, 4.0⟩], [⟨2, 27.0, 6.0⟩], [⟨3, 20.0, 7.5⟩, ⟨4, 22.0, 3.0⟩, ⟨5, 31.0, 9.0⟩],
   [⟨6, 24.0, 5.0⟩]]

/-- bit patterns: equality of these is bit-for-bit equality of the floats -/
private def lp_bits (r : List (List (Rating Float))) : List (List (Nat × UInt64 × UInt64)) :=
  r.map (·.map (fun p => (p.id, p.mu.toBits, p.sigma.toBits)))

private def lp_close (r : List (List (Rating Float))) (e : List (List (Float × Float))) : Bool :=
  r.length == e.length && (r.zip e).all (fun te =>
    te.1.length == te.2.length && (te.1.zip te.2).all (fun pq =>
      (pq.1.mu - pq.2.1).abs < 1e-9 && (pq.1.sigma - pq.2.2).abs < 1e-9))

private def lp_lt : Nat → Nat → Bool := fun a b => decide (a < b)

-- the loop-shaped `_compute` and the closed form agree bit for bit, for all five kinds
#guard [Kind.PL, .BTF, .BTP, .TMF, .TMP].all (fun K =>
  lp_bits (computeLoop K codeLeaves lp_P lp_teams [0, 0, 2, 3]) ==
    lp_bits (compute K codeLeaves lp_P lp_teams [0, 0, 2, 3]))
-- … and so does the fully literal `_compute` (`_calculate_rankings`, `reduce`, `_c`, `_sum_q` literal)
#guard [Kind.PL, .BTF, .BTP, .TMF, .TMP].all (fun K =>
  lp_bits (computeCode K codeLeaves lp_P lp_lt lp_teams (some [1, 1, 2, 5])) ==
    lp_bits (compute K codeLeaves lp_P lp_teams [0, 0, 2, 3]))
-- … and `rate` with every loop literal, with ranks, with scores, without either, with the clamp
#guard [Kind.PL, .BTF, .BTP, .TMF, .TMP].all (fun K =>
  [Outcome.omitted, .ranks [2, 1, 2, 0], .scores [2, 1, 2, 0]].all (fun oc =>
    [some true, none].all (fun ls =>
      lp_bits (rateLoop K codeLeaves lp_P (fun a b => decide (a ≤ b)) (fun (a : Int) => -a) lp_teams oc
          ⟨none, ls⟩) ==
        lp_bits (rate K codeLeaves lp_P (fun a b => decide (a ≤ b)) (fun (a : Int) => -a) lp_teams oc
          ⟨none, ls⟩))))
-- the values are Python's
#guard lp_close (computeLoop .PL codeLeaves lp_P lp_teams [0, 0, 2, 3])
  [[(25.85021639406587, 7.936168602811145), (30.212554098516467, 3.992044996711001)],
   [(27.84525699458559, 5.994864967979828)],
   [(18.282721427739347, 7.388092622482741), (21.725235428438296, 2.992882918277731),
    (28.527118855944657, 8.805975310208908)], [(23.844135118054982, 4.994867281951186)]]
#guard lp_close (computeLoop .BTF codeLeaves lp_P lp_teams [0, 0, 2, 3])
  [[(26.226290325680388, 7.701791064225682), (30.3065725814201, 3.9632498154685707)],
   [(32.09507148708129, 5.789683644320047)],
   [(13.84551610949909, 7.326576104966513), (21.015282577519855, 2.9890090608761586),
    (22.137543197678692, 8.698746372091895)], [(22.718062426836163, 4.90235434240659)]]
#guard lp_close (computeLoop .BTP codeLeaves lp_P lp_teams [0, 0, 2, 3])
  [[(22.87690211978782, 7.895204066057156), (29.469225529946957, 3.986965067917305)],
   [(30.535167242007052, 5.962227708518039)],
   [(16.46715310348267, 7.440912566426588), (21.434744496557226, 2.9962309329260406),
    (25.912700469015043, 8.897717914007554)], [(23.94451203429402, 4.996738760439069)]]
#guard lp_close (computeLoop .TMF codeLeaves lp_P lp_teams [0, 0, 2, 3])
  [[(19.587819633217666, 6.031406934211739), (28.646954908304416, 3.778044050878522)],
   [(44.2487049303442, 4.98402301027683)],
   [(1.3985872890957332, 6.135136098046155), (19.023773966255316, 2.9195173077931313),
    (4.213965696297858, 6.512302676534314)], [(22.403160181214993, 4.800846650708588)]]
#guard lp_close (computeLoop .TMP codeLeaves lp_P lp_teams [0, 0, 2, 3])
  [[(22.027655289347585, 7.843796861388969), (29.256913822336898, 3.9806182717224927)],
   [(31.10504929689745, 5.934183841888958)],
   [(16.38872302597406, 7.395000279272467), (21.42219568415585, 2.9933196197097396),
    (25.799761157402646, 8.817990134088385)], [(23.915355462653565, 4.99768235139527)]]
-- `_calculate_rankings`: Python `[0, 0, 2, 3]` and `[0, 1, 2]`
#guard rankingsLoopRanks lp_lt lp_teams [1, 1, 2, 5] == [0, 0, 2, 3]
#guard rankingsLoopNone [(), (), ()] == [0, 1, 2]
-- the one place where the model and the code differ at `Float`: a team whose first player has
-- `mu = -0.0`.  `reduce` (no initial value) keeps `-0.0`; `sumL` computes `0.0 + -0.0 = +0.0`.
-- Python: `m._calculate_team_ratings([[m.rating(mu=-0.0, sigma=1.0)]])[0].mu` is `-0.0`.
#guard ((teamRatingsLoop [[(⟨0, -0.0, 1.0⟩ : Rating Float)]] [0]).map (·.mu.toBits)) == [(-0.0 : Float).toBits]
#guard ((teamAggs [[(⟨0, -0.0, 1.0⟩ : Rating Float)]] [0]).map (·.mu.toBits)) == [(0.0 : Float).toBits]

end OS
