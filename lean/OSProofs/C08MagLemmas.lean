import OSProofs.Props.C08b
import OSProofs.Props.C06
import OSProofs.Props.C17
import OSProofs.Gauss2
import Mathlib.Tactic.Linarith
import Mathlib.Tactic.Positivity
import Mathlib.Tactic.Ring
import Mathlib.Tactic.NormNum
import Mathlib.Tactic.GCongr
import Mathlib.Analysis.SpecialFunctions.Exponential
/-!
# Helper lemmas for C08Mag (magnitudes of every intermediate quantity on the supported range)

Everything is over `ℝ`; every lemma is prefixed `mag_`.  The domain predicates live in
`namespace Mag`.
-/
noncomputable section
namespace OS
open Gauss

/-! ### sums over lists -/

theorem mag_sum_le {γ : Type} (l : List γ) (f : γ → ℝ) (B : ℝ)
    (h : ∀ x ∈ l, f x ≤ B) : (l.map f).sum ≤ l.length * B := by
  induction l with
  | nil => simp
  | cons a l ih =>
    have h1 := h a (by simp)
    have h2 := ih (fun x hx => h x (by simp [hx]))
    have h4 : (((a :: l).length : ℕ) : ℝ) * B = B + l.length * B := by
      simp only [List.length_cons, Nat.cast_succ]; ring
    rw [h4]
    simp only [List.map_cons, List.sum_cons]
    linarith

theorem mag_sum_nonneg {γ : Type} (l : List γ) (f : γ → ℝ)
    (h : ∀ x ∈ l, 0 ≤ f x) : 0 ≤ (l.map f).sum := by
  apply List.sum_nonneg
  intro x hx
  obtain ⟨y, hy, rfl⟩ := List.mem_map.mp hx
  exact h y hy

/-- one non-negative term is at most the sum -/
theorem mag_term_le_sum {γ : Type} (l : List γ) (f : γ → ℝ) (h : ∀ x ∈ l, 0 ≤ f x)
    {a : γ} (ha : a ∈ l) : f a ≤ (l.map f).sum := by
  apply le_sum_of_mem_of_nonneg
  · intro x hx
    obtain ⟨y, hy, rfl⟩ := List.mem_map.mp hx
    exact h y hy
  · exact List.mem_map.mpr ⟨a, ha, rfl⟩

/-- a sum of at most `n` terms each in `[-B, B]` -/
theorem mag_abs_sum_le_of_length {γ : Type} (l : List γ) (f : γ → ℝ) (B : ℝ) (n : ℕ)
    (hB : 0 ≤ B) (hl : l.length ≤ n) (h : ∀ x ∈ l, |f x| ≤ B) : |(l.map f).sum| ≤ n * B := by
  have h1 := grd_abs_sum_le l f B h
  have h2 : (l.length : ℝ) ≤ n := by exact_mod_cast hl
  have h3 : (l.length : ℝ) * B ≤ n * B := mul_le_mul_of_nonneg_right h2 hB
  linarith

theorem mag_sum_le_of_length {γ : Type} (l : List γ) (f : γ → ℝ) (B : ℝ) (n : ℕ)
    (hB : 0 ≤ B) (hl : l.length ≤ n) (h : ∀ x ∈ l, f x ≤ B) : (l.map f).sum ≤ n * B := by
  have h1 := mag_sum_le l f B h
  have h2 : (l.length : ℝ) ≤ n := by exact_mod_cast hl
  have h3 : (l.length : ℝ) * B ≤ n * B := mul_le_mul_of_nonneg_right h2 hB
  linarith

namespace Mag

/-! ### the domains -/

/-- a valid `rate` call in the supported numeric range, WITH the upper bounds that the
magnitude statements need: `β > 0`, `0 < κ ≤ 1/100`, `0 ≤ τ ≤ 10β`, 2..8 teams of 1..16 players,
`|mu| ≤ 20β`, `0 ≤ sigma ≤ 10β`, and a floor `lo > 0` such that every player has `lo ≤ sigma` or
`lo ≤ τ`  (`lo = 1e-4·β` when every sigma is at least `1e-4·β`; `lo = min(1e-4·β, τ)` when
`sigma = 0` is admitted together with `τ > 0`) -/
structure Domain (β κ τ lo : ℝ) (teams : List (List (Rating ℝ))) : Prop where
  beta_pos : 0 < β
  lo_pos : 0 < lo
  kappa_pos : 0 < κ
  kappa_le : κ ≤ 1 / 100
  tau_nonneg : 0 ≤ τ
  tau_le : τ ≤ 10 * β
  teams_ge : 2 ≤ teams.length
  teams_le : teams.length ≤ 8
  players_ge : ∀ t ∈ teams, 1 ≤ t.length
  players_le : ∀ t ∈ teams, t.length ≤ 16
  mu_bound : ∀ t ∈ teams, ∀ p ∈ t, |p.mu| ≤ 20 * β
  sigma_nonneg : ∀ t ∈ teams, ∀ p ∈ t, 0 ≤ p.sigma
  sigma_le : ∀ t ∈ teams, ∀ p ∈ t, p.sigma ≤ 10 * β
  floor : ∀ t ∈ teams, ∀ p ∈ t, lo ≤ p.sigma ∨ lo ≤ τ

/-- what `_compute` receives on `Mag.Domain`: tau-inflated ratings with
`lo ≤ σ̂` and `σ̂² ≤ 200β²` (`= (10β)² + (10β)²`), in any order -/
structure Inflated (β lo : ℝ) (teams : List (List (Rating ℝ))) : Prop where
  beta_pos : 0 < β
  lo_pos : 0 < lo
  teams_ge : 2 ≤ teams.length
  teams_le : teams.length ≤ 8
  players_ge : ∀ t ∈ teams, 1 ≤ t.length
  players_le : ∀ t ∈ teams, t.length ≤ 16
  mu_bound : ∀ t ∈ teams, ∀ p ∈ t, |p.mu| ≤ 20 * β
  sigma_ge : ∀ t ∈ teams, ∀ p ∈ t, lo ≤ p.sigma
  sigma_sq_le : ∀ t ∈ teams, ∀ p ∈ t, p.sigma * p.sigma ≤ 200 * (β * β)

/-- the bounds on a list of team aggregates from which every later bound is derived -/
structure AggBounds (β lo : ℝ) (ts : List (TeamAgg ℝ)) : Prop where
  beta_pos : 0 < β
  lo_pos : 0 < lo
  len_ge : 2 ≤ ts.length
  len_le : ts.length ≤ 8
  mu : ∀ t ∈ ts, |t.mu| ≤ 320 * β
  var_ge : ∀ t ∈ ts, lo * lo ≤ t.sig2
  var_le : ∀ t ∈ ts, t.sig2 ≤ 3200 * (β * β)
  player_mu : ∀ t ∈ ts, ∀ p ∈ t.players, |p.mu| ≤ 20 * β
  player_sigma_ge : ∀ t ∈ ts, ∀ p ∈ t.players, lo ≤ p.sigma
  player_sigma_sq_le : ∀ t ∈ ts, ∀ p ∈ t.players, p.sigma * p.sigma ≤ 200 * (β * β)
  player_share : ∀ t ∈ ts, ∀ p ∈ t.players, p.sigma * p.sigma ≤ t.sig2

end Mag

/-! ### the domain: relation to `Grd.Domain`, inflation, sorting -/

theorem mag_domain_toGrd {β κ τ lo : ℝ} {teams : List (List (Rating ℝ))}
    (D : Mag.Domain β κ τ lo teams) : Grd.Domain β κ τ teams where
  beta_pos := D.beta_pos
  kappa_pos := D.kappa_pos
  kappa_le_one := le_trans D.kappa_le (by norm_num)
  tau_nonneg := D.tau_nonneg
  teams_ge := D.teams_ge
  teams_le := D.teams_le
  players_ge := D.players_ge
  players_le := D.players_le
  mu_bound := D.mu_bound
  sigma_nonneg := D.sigma_nonneg
  sigma_le := D.sigma_le
  nondeg := fun t ht p hp => by
    rcases D.floor t ht p hp with h | h
    · exact Or.inl (lt_of_lt_of_le D.lo_pos h)
    · exact Or.inr (lt_of_lt_of_le D.lo_pos h)

theorem mag_inflated_toGrd {β lo : ℝ} {teams : List (List (Rating ℝ))}
    (I : Mag.Inflated β lo teams) : Grd.Inflated β teams where
  teams_ge := I.teams_ge
  players_ge := I.players_ge
  players_le := I.players_le
  mu_bound := I.mu_bound
  sigma_pos := fun t ht p hp => lt_of_lt_of_le I.lo_pos (I.sigma_ge t ht p hp)

/-- one inflated sigma: `lo ≤ √(σ² + τ²)` and `(√(σ² + τ²))² ≤ 200β²` -/
theorem mag_inflate_one {β τ lo σ : ℝ} (hlo : 0 < lo) (hσ0 : 0 ≤ σ) (hσ : σ ≤ 10 * β)
    (hτ0 : 0 ≤ τ) (hτ : τ ≤ 10 * β) (hf : lo ≤ σ ∨ lo ≤ τ) :
    lo ≤ Real.sqrt (σ * σ + τ * τ)
    ∧ Real.sqrt (σ * σ + τ * τ) * Real.sqrt (σ * σ + τ * τ) ≤ 200 * (β * β) := by
  have h0 : 0 ≤ σ * σ + τ * τ := add_nonneg (mul_self_nonneg _) (mul_self_nonneg _)
  constructor
  · rw [Real.le_sqrt' hlo]
    rcases hf with h | h
    · nlinarith [mul_self_nonneg τ]
    · nlinarith [mul_self_nonneg σ]
  · rw [Real.mul_self_sqrt h0]
    nlinarith

theorem mag_inflate_domain {β κ τ lo : ℝ} {teams : List (List (Rating ℝ))}
    (D : Mag.Domain β κ τ lo teams) : Mag.Inflated β lo (inflate τ teams) := by
  refine ⟨D.beta_pos, D.lo_pos, by simpa [inflate] using D.teams_ge,
    by simpa [inflate] using D.teams_le, ?_, ?_, ?_, ?_, ?_⟩
  · intro t ht
    obtain ⟨t0, h0, rfl⟩ := grd_mem_inflate ht
    simpa using D.players_ge t0 h0
  · intro t ht
    obtain ⟨t0, h0, rfl⟩ := grd_mem_inflate ht
    simpa using D.players_le t0 h0
  · intro t ht p hp
    obtain ⟨t0, h0, rfl⟩ := grd_mem_inflate ht
    obtain ⟨p0, hp0, rfl⟩ := List.mem_map.mp hp
    exact D.mu_bound t0 h0 p0 hp0
  · intro t ht p hp
    obtain ⟨t0, h0, rfl⟩ := grd_mem_inflate ht
    obtain ⟨p0, hp0, rfl⟩ := List.mem_map.mp hp
    exact (mag_inflate_one D.lo_pos (D.sigma_nonneg t0 h0 p0 hp0) (D.sigma_le t0 h0 p0 hp0)
      D.tau_nonneg D.tau_le (D.floor t0 h0 p0 hp0)).1
  · intro t ht p hp
    obtain ⟨t0, h0, rfl⟩ := grd_mem_inflate ht
    obtain ⟨p0, hp0, rfl⟩ := List.mem_map.mp hp
    exact (mag_inflate_one D.lo_pos (D.sigma_nonneg t0 h0 p0 hp0) (D.sigma_le t0 h0 p0 hp0)
      D.tau_nonneg D.tau_le (D.floor t0 h0 p0 hp0)).2

/-- sorting the teams by rank keeps the game in `Mag.Inflated` -/
theorem mag_unwind_inflated {ρ : Type} {β lo : ℝ} {teams : List (List (Rating ℝ))}
    (I : Mag.Inflated β lo teams) (le : ρ → ρ → Bool) (r : List ρ) (hr : r.length = teams.length) :
    Mag.Inflated β lo (unwind le r teams).1 := by
  have hl : (unwind le r teams).1.length = teams.length := by
    rw [unwind_fst_length, hr, Nat.min_self]
  refine ⟨I.beta_pos, I.lo_pos, by rw [hl]; exact I.teams_ge, by rw [hl]; exact I.teams_le,
    ?_, ?_, ?_, ?_, ?_⟩
  · exact fun t ht => I.players_ge t (grd_mem_unwind le r teams ht)
  · exact fun t ht => I.players_le t (grd_mem_unwind le r teams ht)
  · exact fun t ht => I.mu_bound t (grd_mem_unwind le r teams ht)
  · exact fun t ht => I.sigma_ge t (grd_mem_unwind le r teams ht)
  · exact fun t ht => I.sigma_sq_le t (grd_mem_unwind le r teams ht)

/-! ### one team aggregate -/

theorem mag_team_var_le (team : List (Rating ℝ)) (rk : Nat) (B : ℝ) (hB : 0 ≤ B)
    (hlen : team.length ≤ 16) (h : ∀ p ∈ team, p.sigma * p.sigma ≤ B) :
    (teamAgg team rk).sig2 ≤ 16 * B := by
  simp only [teamAgg, sumL_eq_sum]
  exact mag_sum_le_of_length team (fun p => p.sigma * p.sigma) B 16 hB hlen h

theorem mag_team_share (team : List (Rating ℝ)) (rk : Nat) {p : Rating ℝ} (hp : p ∈ team) :
    p.sigma * p.sigma ≤ (teamAgg team rk).sig2 := by
  simp only [teamAgg, sumL_eq_sum]
  exact mag_term_le_sum team (fun p => p.sigma * p.sigma) (fun x _ => mul_self_nonneg _) hp

theorem mag_team_var_ge (team : List (Rating ℝ)) (rk : Nat) (lo : ℝ) (hlo : 0 ≤ lo)
    (hlen : 1 ≤ team.length) (h : ∀ p ∈ team, lo ≤ p.sigma) :
    lo * lo ≤ (teamAgg team rk).sig2 := by
  cases team with
  | nil => simp at hlen
  | cons p rest =>
    have h1 := mag_team_share (p :: rest) rk (p := p) (by simp)
    have h2 := h p (by simp)
    nlinarith

theorem mag_aggBounds {β lo : ℝ} {teams : List (List (Rating ℝ))} (I : Mag.Inflated β lo teams)
    (dense : List Nat) (hd : dense.length = teams.length) :
    Mag.AggBounds β lo (teamAggs teams dense) := by
  have hβ := I.beta_pos
  have hl : (teamAggs teams dense).length = teams.length := by
    have h : (teamAggs teams dense).length = min teams.length dense.length := by simp [teamAggs]
    rw [h, hd, Nat.min_self]
  refine ⟨hβ, I.lo_pos, by rw [hl]; exact I.teams_ge, by rw [hl]; exact I.teams_le,
    ?_, ?_, ?_, ?_, ?_, ?_, ?_⟩
  · intro t ht
    obtain ⟨tm, hm, rk, rfl⟩ := grd_mem_teamAggs ht
    exact grd_team_mu_bound tm rk β hβ (I.players_le tm hm) (I.mu_bound tm hm)
  · intro t ht
    obtain ⟨tm, hm, rk, rfl⟩ := grd_mem_teamAggs ht
    exact mag_team_var_ge tm rk lo I.lo_pos.le (I.players_ge tm hm) (I.sigma_ge tm hm)
  · intro t ht
    obtain ⟨tm, hm, rk, rfl⟩ := grd_mem_teamAggs ht
    have := mag_team_var_le tm rk (200 * (β * β)) (by positivity) (I.players_le tm hm)
      (I.sigma_sq_le tm hm)
    linarith
  · intro t ht p hp
    obtain ⟨tm, hm, rk, rfl⟩ := grd_mem_teamAggs ht
    exact I.mu_bound tm hm p hp
  · intro t ht p hp
    obtain ⟨tm, hm, rk, rfl⟩ := grd_mem_teamAggs ht
    exact I.sigma_ge tm hm p hp
  · intro t ht p hp
    obtain ⟨tm, hm, rk, rfl⟩ := grd_mem_teamAggs ht
    exact I.sigma_sq_le tm hm p hp
  · intro t ht p hp
    obtain ⟨tm, hm, rk, rfl⟩ := grd_mem_teamAggs ht
    exact mag_team_share tm rk hp

/-! ### scalar facts: roots, `exp`, the logistic function -/

/-- `c_iq = √(σ_i² + σ_q² + 2β²)` lies in `[√2·β, 81β]` when both variances are in `[0, 3200β²]` -/
theorem mag_ciq_bounds (β si sq : ℝ) (hβ : 0 < β) (hi : 0 ≤ si) (hq : 0 ≤ sq)
    (hi' : si ≤ 3200 * (β * β)) (hq' : sq ≤ 3200 * (β * β)) :
    Real.sqrt 2 * β ≤ Real.sqrt (si + sq + 2 * (β * β))
    ∧ Real.sqrt (si + sq + 2 * (β * β)) ≤ 81 * β
    ∧ β ≤ Real.sqrt (si + sq + 2 * (β * β)) := by
  have h1 := (C08_ciq_pos β si sq hβ hi hq).2
  refine ⟨h1, ?_, ?_⟩
  · rw [Real.sqrt_le_iff]
    exact ⟨by positivity, by nlinarith [mul_pos hβ hβ]⟩
  · have := grd_sqrt_two_gt
    nlinarith

/-- `x / √(x + y)` with `0 ≤ x`, `0 < x + y`, `0 ≤ y` is at most `√(x + y)` -/
theorem mag_div_sqrt_le {x c : ℝ} (hx : 0 ≤ x) (hc : 0 < c) (hxc : x ≤ c * c) :
    0 ≤ x / c ∧ x / c ≤ c ∧ x / c / c ≤ 1 ∧ 0 ≤ x / c / c := by
  have h1 : x / c ≤ c := by rw [div_le_iff₀ hc]; exact hxc
  refine ⟨div_nonneg hx hc.le, h1, ?_, div_nonneg (div_nonneg hx hc.le) hc.le⟩
  rw [div_le_iff₀ hc]; linarith

theorem mag_exp_bounds {x A : ℝ} (h : |x| ≤ A) :
    Real.exp (-A) ≤ Real.exp x ∧ Real.exp x ≤ Real.exp A := by
  obtain ⟨h1, h2⟩ := abs_le.mp h
  exact ⟨Real.exp_le_exp.mpr h1, Real.exp_le_exp.mpr h2⟩

/-- the logistic value `p = 1/(1+E)` for `E ∈ [e^{-A}, e^{A}]`: `p` and `1 − p` lie in
`[e^{-A}/2, 1]`, and `p(1−p) ∈ [e^{-A}/4, 1/4]` -/
theorem mag_logistic {E A : ℝ} (hA : 0 ≤ A) (h1 : Real.exp (-A) ≤ E) (h2 : E ≤ Real.exp A) :
    Real.exp (-A) / 2 ≤ 1 / (1 + E) ∧ 1 / (1 + E) ≤ 1
    ∧ Real.exp (-A) / 2 ≤ 1 - 1 / (1 + E) ∧ 1 - 1 / (1 + E) ≤ 1
    ∧ Real.exp (-A) / 4 ≤ 1 / (1 + E) * (1 - 1 / (1 + E))
    ∧ 1 / (1 + E) * (1 - 1 / (1 + E)) ≤ 1 / 4 := by
  have he : 0 < Real.exp (-A) := Real.exp_pos _
  have hE : 0 < E := lt_of_lt_of_le he h1
  have hle1 : Real.exp (-A) ≤ 1 := by
    rw [← Real.exp_zero]; exact Real.exp_le_exp.mpr (by linarith)
  have hmul : Real.exp (-A) * Real.exp A = 1 := by rw [← Real.exp_add]; simp
  have hEA : 0 < Real.exp A := Real.exp_pos _
  have h1E : 0 < 1 + E := by linarith
  have hq : 1 - 1 / (1 + E) = E / (1 + E) := by field_simp; ring
  -- p ≥ e^{-A}/2
  have hp : Real.exp (-A) / 2 ≤ 1 / (1 + E) := by
    rw [div_le_div_iff₀ (by norm_num) h1E]
    nlinarith
  have hp1 : 1 / (1 + E) ≤ 1 := by rw [div_le_one h1E]; linarith
  have hq0 : Real.exp (-A) / 2 ≤ E / (1 + E) := by
    rw [div_le_div_iff₀ (by norm_num) h1E]
    nlinarith
  have hq1 : E / (1 + E) ≤ 1 := by rw [div_le_one h1E]; linarith
  refine ⟨hp, hp1, by rw [hq]; exact hq0, by rw [hq]; exact hq1, ?_, ?_⟩
  · rw [hq]
    have hp0 : 0 < 1 / (1 + E) := by positivity
    have hqq : 0 < E / (1 + E) := by positivity
    have hsum : 1 / (1 + E) + E / (1 + E) = 1 := by field_simp
    rcases le_total (1 / 2) (1 / (1 + E)) with h | h
    · nlinarith
    · have : 1 / 2 ≤ E / (1 + E) := by linarith
      nlinarith
  · have hsq : 0 ≤ (1 / (1 + E) - 1 / 2) ^ 2 := sq_nonneg _
    nlinarith

/-- the default gamma `√σ_i² / c` lies in `[lo/c, 1]` when `lo² ≤ σ_i² ≤ c²` -/
theorem mag_gamma_dflt {x c lo : ℝ} (hlo : 0 ≤ lo) (hx : lo * lo ≤ x) (hc : 0 < c) (hxc : x ≤ c * c) :
    lo / c ≤ Real.sqrt x / c ∧ Real.sqrt x / c ≤ 1 := by
  constructor
  · apply div_le_div_of_nonneg_right _ hc.le
    rw [← Real.sqrt_mul_self hlo]
    exact Real.sqrt_le_sqrt hx
  · rw [div_le_one hc, Real.sqrt_le_iff]
    exact ⟨hc.le, by nlinarith⟩

/-! ### Bradley–Terry: one ordered pair of teams -/

namespace Mag

/-- the logistic argument of the Bradley–Terry pair `(i, q)` -/
def btArg (β : ℝ) (ti tq : TeamAgg ℝ) : ℝ := (tq.mu - ti.mu) / Grd.ciq β ti tq

/-- `p_iq = 1 / (1 + exp((θ_q − θ_i)/c_iq))` -/
def btP (β : ℝ) (ti tq : TeamAgg ℝ) : ℝ := 1 / (1 + Real.exp (btArg β ti tq))

/-- every intermediate quantity of `btPair β g n ti tq` (default gamma for the last three) -/
structure BTPairBounds (β lo : ℝ) (n : ℕ) (ti tq : TeamAgg ℝ) : Prop where
  ciq_ge : Real.sqrt 2 * β ≤ Grd.ciq β ti tq
  ciq_le : Grd.ciq β ti tq ≤ 81 * β
  arg_abs : |btArg β ti tq| ≤ 453
  exp_ge : Real.exp (-453) ≤ Real.exp (btArg β ti tq)
  exp_le : Real.exp (btArg β ti tq) ≤ Real.exp 453
  denom_ge : 1 ≤ 1 + Real.exp (btArg β ti tq)
  denom_le : 1 + Real.exp (btArg β ti tq) ≤ 2 * Real.exp 453
  p_ge : Real.exp (-453) / 2 ≤ btP β ti tq
  p_le : btP β ti tq ≤ 1
  q_ge : Real.exp (-453) / 2 ≤ 1 - btP β ti tq
  q_le : 1 - btP β ti tq ≤ 1
  pq_ge : Real.exp (-453) / 4 ≤ btP β ti tq * (1 - btP β ti tq)
  pq_le : btP β ti tq * (1 - btP β ti tq) ≤ 1 / 4
  s2c_ge : lo * lo / (81 * β) ≤ ti.sig2 / Grd.ciq β ti tq
  s2c_le : ti.sig2 / Grd.ciq β ti tq ≤ 81 * β
  s2cc_ge : lo * lo / (81 * β) / (81 * β) ≤ ti.sig2 / Grd.ciq β ti tq / Grd.ciq β ti tq
  s2cc_le : ti.sig2 / Grd.ciq β ti tq / Grd.ciq β ti tq ≤ 1
  gamma_ge : lo / (81 * β) ≤ gammaVal .dflt (Grd.ciq β ti tq) n ti.mu ti.sig2 ti.players ti.rank
  gamma_le : gammaVal .dflt (Grd.ciq β ti tq) n ti.mu ti.sig2 ti.players ti.rank ≤ 1
  /-- the pair's contribution to `Ω_i`, for any gamma -/
  omega_abs : ∀ g : GammaFn ℝ, |(btPair β g n ti tq).1| ≤ 81 * β
  /-- the pair's contribution to `Δ_i`, default gamma -/
  delta_ge : lo / (81 * β) * (lo * lo / (81 * β) / (81 * β)) * (Real.exp (-453) / 4)
      ≤ (btPair β .dflt n ti tq).2
  delta_le : (btPair β .dflt n ti tq).2 ≤ 1 / 4

end Mag

theorem mag_div_le_div {a b c d : ℝ} (ha : 0 ≤ a) (hab : a ≤ b) (hd : 0 < d) (hdc : d ≤ c) :
    a / c ≤ b / d := by
  have hc : 0 < c := lt_of_lt_of_le hd hdc
  rw [div_le_div_iff₀ hc hd]
  nlinarith

/-- a product of three factors bounded below and above by non-negative numbers -/
theorem mag_mul3_bounds {x y z a b c : ℝ} (ha : 0 ≤ a) (hb : 0 ≤ b) (hc : 0 ≤ c)
    (hx : a ≤ x) (hy : b ≤ y) (hz : c ≤ z) : a * b * c ≤ x * y * z := by
  have h1 : a * b ≤ x * y := mul_le_mul hx hy hb (le_trans ha hx)
  exact mul_le_mul h1 hz hc (le_trans (mul_nonneg ha hb) h1)

theorem mag_mul3_le_one {x y z : ℝ} (_hx0 : 0 ≤ x) (hy0 : 0 ≤ y) (hx : x ≤ 1) (hy : y ≤ 1)
    {B : ℝ} (hz0 : 0 ≤ z) (hz : z ≤ B) : x * y * z ≤ B := by
  have h1 : x * y ≤ 1 := mul_le_one₀ hx hy0 hy
  have h2 : x * y * z ≤ 1 * z := mul_le_mul_of_nonneg_right h1 hz0
  linarith

theorem mag_btPair_bounds {β lo : ℝ} {ts : List (TeamAgg ℝ)} (A : Mag.AggBounds β lo ts) (n : ℕ)
    {ti tq : TeamAgg ℝ} (hi : ti ∈ ts) (hq : tq ∈ ts) : Mag.BTPairBounds β lo n ti tq := by
  have hβ := A.beta_pos
  have hlo := A.lo_pos
  have hsi0 : 0 ≤ ti.sig2 := le_trans (mul_self_nonneg lo) (A.var_ge ti hi)
  have hsq0 : 0 ≤ tq.sig2 := le_trans (mul_self_nonneg lo) (A.var_ge tq hq)
  obtain ⟨hc1, hc2, hc3⟩ :=
    mag_ciq_bounds β ti.sig2 tq.sig2 hβ hsi0 hsq0 (A.var_le ti hi) (A.var_le tq hq)
  have hcc : Grd.ciq β ti tq * Grd.ciq β ti tq = ti.sig2 + tq.sig2 + 2 * (β * β) :=
    Real.mul_self_sqrt (by positivity)
  change Real.sqrt 2 * β ≤ Grd.ciq β ti tq at hc1
  change Grd.ciq β ti tq ≤ 81 * β at hc2
  change β ≤ Grd.ciq β ti tq at hc3
  have hcpos : 0 < Grd.ciq β ti tq := lt_of_lt_of_le hβ hc3
  have h81 : 0 < 81 * β := by positivity
  have hd : |tq.mu - ti.mu| ≤ 640 * β := by
    have := abs_sub tq.mu ti.mu
    have := A.mu ti hi
    have := A.mu tq hq
    linarith
  have harg : |Mag.btArg β ti tq| ≤ 453 := C08_bt_exp_arg_bound β _ _ hβ hd hc1
  obtain ⟨he1, he2⟩ := mag_exp_bounds harg
  obtain ⟨l1, l2, l3, l4, l5, l6⟩ := mag_logistic (by norm_num) he1 he2
  have hsc : ti.sig2 ≤ Grd.ciq β ti tq * Grd.ciq β ti tq := by
    rw [hcc]; nlinarith [mul_pos hβ hβ]
  obtain ⟨d1, d2, d3, d4⟩ := mag_div_sqrt_le hsi0 hcpos hsc
  obtain ⟨g1, g2⟩ := mag_gamma_dflt hlo.le (A.var_ge ti hi) hcpos hsc
  have hll : 0 ≤ lo * lo := mul_self_nonneg lo
  have s1 : lo * lo / (81 * β) ≤ ti.sig2 / Grd.ciq β ti tq :=
    mag_div_le_div hll (A.var_ge ti hi) hcpos hc2
  have s2 : lo * lo / (81 * β) / (81 * β) ≤ ti.sig2 / Grd.ciq β ti tq / Grd.ciq β ti tq :=
    mag_div_le_div (div_nonneg hll h81.le) s1 hcpos hc2
  have g0 : lo / (81 * β) ≤ Real.sqrt ti.sig2 / Grd.ciq β ti tq :=
    le_trans (mag_div_le_div hlo.le le_rfl hcpos hc2) g1
  have hE : 0 < Real.exp (Mag.btArg β ti tq) := Real.exp_pos _
  have hshape : gammaVal .dflt (Grd.ciq β ti tq) n ti.mu ti.sig2 ti.players ti.rank
        * (ti.sig2 / Grd.ciq β ti tq) / Grd.ciq β ti tq * Mag.btP β ti tq * (1 - Mag.btP β ti tq)
      = Real.sqrt ti.sig2 / Grd.ciq β ti tq * (ti.sig2 / Grd.ciq β ti tq / Grd.ciq β ti tq)
        * (Mag.btP β ti tq * (1 - Mag.btP β ti tq)) := by
    simp only [gammaVal, sc_sqrt]; ring
  refine ⟨hc1, hc2, harg, he1, he2, by linarith, ?_, l1, l2, l3, l4, l5, l6, s1,
    le_trans d2 hc2, s2, d3, ?_, ?_, ?_, ?_, ?_⟩
  · have : 1 ≤ Real.exp 453 := by
      rw [← Real.exp_zero]; exact Real.exp_le_exp.mpr (by norm_num)
    linarith
  · simpa only [gammaVal, sc_sqrt] using g0
  · simpa only [gammaVal, sc_sqrt] using g2
  · intro g
    rw [C08_btPair_shape]
    show |ti.sig2 / Grd.ciq β ti tq * (_ - Mag.btP β ti tq)| ≤ 81 * β
    rw [abs_mul, abs_of_nonneg d1]
    have hp0 : 0 ≤ Mag.btP β ti tq := le_trans (by positivity) l1
    have hp1 : Mag.btP β ti tq ≤ 1 := l2
    have hs : |(if ti.rank < tq.rank then (1 : ℝ) else if tq.rank = ti.rank then 1 / 2 else 0)
        - Mag.btP β ti tq| ≤ 1 := by
      rw [abs_le]
      split_ifs <;> constructor <;> linarith
    calc ti.sig2 / Grd.ciq β ti tq * _ ≤ ti.sig2 / Grd.ciq β ti tq * 1 :=
          mul_le_mul_of_nonneg_left hs d1
      _ ≤ 81 * β := by linarith
  · rw [C08_btPair_shape]
    show _ ≤ gammaVal .dflt (Grd.ciq β ti tq) n ti.mu ti.sig2 ti.players ti.rank
        * (ti.sig2 / Grd.ciq β ti tq) / Grd.ciq β ti tq * Mag.btP β ti tq * (1 - Mag.btP β ti tq)
    rw [hshape]
    exact mag_mul3_bounds (div_nonneg hlo.le h81.le) (div_nonneg (div_nonneg hll h81.le) h81.le)
      (by positivity) g0 s2 l5
  · rw [C08_btPair_shape]
    show gammaVal .dflt (Grd.ciq β ti tq) n ti.mu ti.sig2 ti.players ti.rank
        * (ti.sig2 / Grd.ciq β ti tq) / Grd.ciq β ti tq * Mag.btP β ti tq * (1 - Mag.btP β ti tq) ≤ 1 / 4
    rw [hshape]
    exact mag_mul3_le_one (div_nonneg (Real.sqrt_nonneg _) hcpos.le) d4 g2 d3
      (le_trans (by positivity) l5) l6

/-! ### pairing loops -/

theorem mag_othersOf_length_le {γ : Type} (ts : List γ) (i : Nat) :
    (othersOf ts i).length ≤ ts.length := by
  unfold othersOf
  rw [List.length_map]
  exact le_trans (List.length_filter_le _ _) (by simp)

theorem mag_neighboursOf_length_le {γ : Type} (ts : List γ) (i : Nat) :
    (neighboursOf ts i).length ≤ 2 := by
  unfold neighboursOf
  rw [List.length_append]
  have h1 : ∀ o : Option γ, o.toList.length ≤ 1 := by intro o; cases o <;> simp
  have := h1 ts[i - 1]?
  have := h1 ts[i + 1]?
  split_ifs <;> simp <;> omega

theorem mag_neighboursOf_subset {γ : Type} (ts : List γ) (i : Nat) :
    ∀ x ∈ neighboursOf ts i, x ∈ ts := by
  intro x hx
  unfold neighboursOf at hx
  rcases List.mem_append.mp hx with h | h
  · split_ifs at h
    · simp at h
    · exact List.mem_of_getElem? (Option.mem_toList.mp h)
  · exact List.mem_of_getElem? (Option.mem_toList.mp h)

/-- the two accumulators of a pairing loop over at most `m` opponents -/
theorem mag_sumPairs_bounds {γ : Type} (l : List γ) (f : γ → ℝ × ℝ) (m : ℕ) (B D : ℝ)
    (hB : 0 ≤ B) (hD : 0 ≤ D) (hl : l.length ≤ m)
    (h1 : ∀ x ∈ l, |(f x).1| ≤ B) (h2 : ∀ x ∈ l, 0 ≤ (f x).2 ∧ (f x).2 ≤ D) :
    |(sumPairs (l.map f)).1| ≤ m * B ∧ 0 ≤ (sumPairs (l.map f)).2
    ∧ (sumPairs (l.map f)).2 ≤ m * D := by
  simp only [sumPairs, sumL_eq_sum, List.map_map]
  refine ⟨mag_abs_sum_le_of_length l _ B m hB hl h1, mag_sum_nonneg l _ (fun x hx => (h2 x hx).1),
    mag_sum_le_of_length l _ D m hD hl (fun x hx => (h2 x hx).2)⟩

/-- **Bradley–Terry (full or partial pairing), default gamma**: `|Ω_i| ≤ 648β`, `0 ≤ Δ_i ≤ 2` -/
theorem mag_omegaDelta_BT {β lo : ℝ} (K : Kind) (hK : K = .BTF ∨ K = .BTP) (L : Leaves ℝ)
    (P : Params ℝ) (hP : P.beta = β) (hg : P.gamma = .dflt)
    {ts : List (TeamAgg ℝ)} (A : Mag.AggBounds β lo ts) :
    ∀ od ∈ omegaDelta K L P ts, |od.1| ≤ 648 * β ∧ 0 ≤ od.2 ∧ od.2 ≤ 2 := by
  have hβ := A.beta_pos
  have hlo := A.lo_pos
  intro od hod
  have key : ∀ (ti : TeamAgg ℝ) (l : List (TeamAgg ℝ)), ti ∈ ts → l.length ≤ 8 → (∀ x ∈ l, x ∈ ts) →
      |(sumPairs (l.map (btPair P.beta P.gamma ts.length ti))).1| ≤ 648 * β
      ∧ 0 ≤ (sumPairs (l.map (btPair P.beta P.gamma ts.length ti))).2
      ∧ (sumPairs (l.map (btPair P.beta P.gamma ts.length ti))).2 ≤ 2 := by
    intro ti l hti hl hsub
    rw [hP, hg]
    have h := mag_sumPairs_bounds l (btPair β .dflt ts.length ti) 8 (81 * β) (1 / 4)
      (by positivity) (by norm_num) hl
      (fun x hx => (mag_btPair_bounds A ts.length hti (hsub x hx)).omega_abs .dflt)
      (fun x hx => by
        have B := mag_btPair_bounds A ts.length hti (hsub x hx)
        refine ⟨le_trans ?_ B.delta_ge, B.delta_le⟩
        have : 0 < 81 * β := by positivity
        have := Real.exp_pos (-453)
        positivity)
    obtain ⟨h1, h2, h3⟩ := h
    refine ⟨by push_cast at h1; linarith, h2, by push_cast at h3; linarith⟩
  rcases hK with rfl | rfl
  · simp only [omegaDelta] at hod
    obtain ⟨x, hx, rfl⟩ := List.mem_map.mp hod
    exact key x.1 _ (List.fst_mem_of_mem_zipIdx hx)
      (le_trans (mag_othersOf_length_le ts x.2) A.len_le) (othersOf_subset ts x.2)
  · simp only [omegaDelta] at hod
    obtain ⟨x, hx, rfl⟩ := List.mem_map.mp hod
    exact key x.1 _ (List.fst_mem_of_mem_zipIdx hx)
      (le_trans (mag_neighboursOf_length_le ts x.2) (by norm_num)) (mag_neighboursOf_subset ts x.2)

/-! ### Plackett–Luce -/

/-- `c = √(Σ_i (σ_i² + β²))`: `√2·β ≤ c ≤ 161β`, `β ≤ c`, `c² = Σ…`, and `σ_i² ≤ c²` -/
theorem mag_plC_bounds {β lo : ℝ} {ts : List (TeamAgg ℝ)} (A : Mag.AggBounds β lo ts) :
    Real.sqrt 2 * β ≤ plC β ts ∧ plC β ts ≤ 161 * β ∧ β ≤ plC β ts
    ∧ ∀ t ∈ ts, t.sig2 ≤ plC β ts * plC β ts := by
  have hβ := A.beta_pos
  have hs : ∀ t ∈ ts, 0 ≤ t.sig2 := fun t ht => le_trans (mul_self_nonneg lo) (A.var_ge t ht)
  have h1 := grd_plC_ge β hβ ts A.len_ge hs
  have hnn : ∀ t ∈ ts, 0 ≤ (fun t : TeamAgg ℝ => t.sig2 + β * β) t := by
    intro t ht; have := hs t ht; positivity
  have hsum0 : 0 ≤ (ts.map (fun t => t.sig2 + β * β)).sum := mag_sum_nonneg ts _ hnn
  have hcc : plC β ts * plC β ts = (ts.map (fun t => t.sig2 + β * β)).sum := by
    unfold plC; rw [sc_sqrt, sumL_eq_sum]; exact Real.mul_self_sqrt hsum0
  refine ⟨h1, ?_, ?_, ?_⟩
  · unfold plC
    rw [sc_sqrt, sumL_eq_sum, Real.sqrt_le_iff]
    refine ⟨by positivity, ?_⟩
    have h2 := mag_sum_le_of_length ts (fun t => t.sig2 + β * β) (3201 * (β * β)) 8 (by positivity)
      A.len_le (fun t ht => by have := A.var_le t ht; linarith)
    push_cast at h2
    nlinarith [mul_pos hβ hβ]
  · have := grd_sqrt_two_gt
    nlinarith
  · intro t ht
    rw [hcc]
    have := mag_term_le_sum ts (fun t => t.sig2 + β * β) hnn ht
    have : 0 ≤ β * β := mul_self_nonneg β
    linarith

/-- `|θ_i / c| ≤ 227` for the Plackett–Luce `exp` arguments -/
theorem mag_pl_exp_arg_bound (β d c : ℝ) (hβ : 0 < β) (hd : |d| ≤ 320 * β)
    (hc : Real.sqrt 2 * β ≤ c) : |d / c| ≤ 227 := by
  have hs2 := grd_sqrt_two_gt
  have hcpos : 0 < c := lt_of_lt_of_le (by positivity) hc
  rw [abs_div, abs_of_pos hcpos, div_le_iff₀ hcpos]
  have : 1.414 * β ≤ c := le_trans (by nlinarith) hc
  nlinarith

/-- every entry of `sum_q` lies in `[e^{-227}, 8·e^{227}]` -/
theorem mag_plSumQ_bounds {β lo : ℝ} {ts : List (TeamAgg ℝ)} (A : Mag.AggBounds β lo ts)
    (c : ℝ) (hc : ∀ t ∈ ts, |t.mu / c| ≤ 227) :
    ∀ tq ∈ ts, Real.exp (-227) ≤
        sumL ((ts.filter (fun ti => decide (tq.rank ≤ ti.rank))).map (fun ti => Scalar.exp (ti.mu / c)))
      ∧ sumL ((ts.filter (fun ti => decide (tq.rank ≤ ti.rank))).map (fun ti => Scalar.exp (ti.mu / c)))
        ≤ 8 * Real.exp 227 := by
  intro tq htq
  rw [sumL_eq_sum]
  have hmem : tq ∈ ts.filter (fun ti => decide (tq.rank ≤ ti.rank)) :=
    List.mem_filter.mpr ⟨htq, by simp⟩
  constructor
  · have h1 := mag_term_le_sum _ (fun ti : TeamAgg ℝ => (Scalar.exp (ti.mu / c) : ℝ))
      (fun x _ => (Real.exp_pos _).le) hmem
    exact le_trans (mag_exp_bounds (hc tq htq)).1 h1
  · have h2 := mag_sum_le_of_length (ts.filter (fun ti => decide (tq.rank ≤ ti.rank)))
      (fun ti : TeamAgg ℝ => (Scalar.exp (ti.mu / c) : ℝ)) (Real.exp 227) 8 (Real.exp_pos _).le
      (le_trans (List.length_filter_le _ _) A.len_le)
      (fun x hx => (mag_exp_bounds (hc x (List.mem_filter.mp hx).1)).2)
    exact_mod_cast h2

/-- every entry of `A` lies in `[1, 8]` -/
theorem mag_plA_bounds {β lo : ℝ} {ts : List (TeamAgg ℝ)} (A : Mag.AggBounds β lo ts) :
    ∀ ti ∈ ts, 1 ≤ (ts.filter (fun q => decide (ti.rank = q.rank))).length
      ∧ (ts.filter (fun q => decide (ti.rank = q.rank))).length ≤ 8 := by
  intro ti hti
  exact ⟨List.length_pos_of_mem (List.mem_filter.mpr ⟨hti, by simp⟩),
    le_trans (List.length_filter_le _ _) A.len_le⟩

/-- `p_iq = e_i / sum_q[q] ∈ [e^{-454}/8, 1]` when `rank_q ≤ rank_i` -/
theorem mag_pl_p_bounds {β lo : ℝ} {ts : List (TeamAgg ℝ)} (A : Mag.AggBounds β lo ts)
    (c : ℝ) (hc : ∀ t ∈ ts, |t.mu / c| ≤ 227) (ti tq : TeamAgg ℝ) (hti : ti ∈ ts) (htq : tq ∈ ts)
    (hr : tq.rank ≤ ti.rank) :
    Real.exp (-454) / 8 ≤ Real.exp (ti.mu / c) /
        sumL ((ts.filter (fun tj => decide (tq.rank ≤ tj.rank))).map (fun tj => Scalar.exp (tj.mu / c)))
    ∧ Real.exp (ti.mu / c) /
        sumL ((ts.filter (fun tj => decide (tq.rank ≤ tj.rank))).map (fun tj => Scalar.exp (tj.mu / c)))
      ≤ 1 := by
  refine ⟨?_, (pl_p_mem ts c ti tq hti hr).2⟩
  obtain ⟨h1, h2⟩ := mag_plSumQ_bounds A c hc tq htq
  have h3 := (mag_exp_bounds (hc ti hti)).1
  have h4 : Real.exp (-454) = Real.exp (-227) * Real.exp (-227) := by
    rw [← Real.exp_add]; norm_num
  have h5 : Real.exp (-227) * Real.exp 227 = 1 := by rw [← Real.exp_add]; simp
  have hS : 0 < sumL ((ts.filter (fun tj => decide (tq.rank ≤ tj.rank))).map
      (fun tj => (Scalar.exp (tj.mu / c) : ℝ))) := lt_of_lt_of_le (Real.exp_pos _) h1
  rw [div_le_div_iff₀ (by norm_num) hS, h4]
  have h6 : 0 < Real.exp (-227) := Real.exp_pos _
  have h7 : Real.exp (-227) * Real.exp (-227) *
      sumL ((ts.filter (fun tj => decide (tq.rank ≤ tj.rank))).map (fun tj => (Scalar.exp (tj.mu / c) : ℝ)))
      ≤ Real.exp (-227) * Real.exp (-227) * (8 * Real.exp 227) :=
    mul_le_mul_of_nonneg_left h2 (by positivity)
  nlinarith

/-- the rows the Plackett–Luce inner loop of team `i` walks over -/
theorem mag_pl_rows_mem {γ δ : Type} (ts : List (TeamAgg ℝ)) (f : TeamAgg ℝ → γ) (g : TeamAgg ℝ → δ)
    (ti : TeamAgg ℝ) {x : (TeamAgg ℝ × γ × δ) × Nat}
    (hx : x ∈ List.filter (fun x => decide (x.1.1.rank ≤ ti.rank))
      (List.map (fun t => (t, f t, g t)) ts).zipIdx) :
    ∃ tq ∈ ts, tq.rank ≤ ti.rank ∧ x.1 = (tq, f tq, g tq) := by
  obtain ⟨hx1, hx2⟩ := List.mem_filter.mp hx
  obtain ⟨tq, htq, hxe⟩ := List.mem_map.mp (List.fst_mem_of_mem_zipIdx hx1)
  refine ⟨tq, htq, ?_, hxe.symm⟩
  have : x.1.1 = tq := by rw [← hxe]
  rw [this] at hx2
  simpa using hx2

theorem mag_pl_rows_length {γ δ : Type} (ts : List (TeamAgg ℝ)) (f : TeamAgg ℝ → γ) (g : TeamAgg ℝ → δ)
    (ti : TeamAgg ℝ) :
    (List.filter (fun x : (TeamAgg ℝ × γ × δ) × Nat => decide (x.1.1.rank ≤ ti.rank))
      (List.map (fun t => (t, f t, g t)) ts).zipIdx).length ≤ ts.length :=
  le_trans (List.length_filter_le _ _) (by simp)

/-- **Plackett–Luce, default gamma**: `|Ω_i| ≤ 1288β`, `0 ≤ Δ_i ≤ 2` -/
theorem mag_plOmegaDelta {β lo : ℝ} {ts : List (TeamAgg ℝ)} (A : Mag.AggBounds β lo ts) (i : Nat)
    (ti : TeamAgg ℝ) (hti : ti ∈ ts) :
    |(plOmegaDelta .dflt ts (plC β ts) (plSumQ ts (plC β ts)) (plA ts) i ti).1| ≤ 1288 * β
    ∧ 0 ≤ (plOmegaDelta .dflt ts (plC β ts) (plSumQ ts (plC β ts)) (plA ts) i ti).2
    ∧ (plOmegaDelta .dflt ts (plC β ts) (plSumQ ts (plC β ts)) (plA ts) i ti).2 ≤ 2 := by
  have hβ := A.beta_pos
  obtain ⟨hc1, hc2, hc3, hcs⟩ := mag_plC_bounds A
  have hcpos : 0 < plC β ts := lt_of_lt_of_le hβ hc3
  have harg : ∀ t ∈ ts, |t.mu / plC β ts| ≤ 227 :=
    fun t ht => mag_pl_exp_arg_bound β _ _ hβ (A.mu t ht) hc1
  have hsi0 : 0 ≤ ti.sig2 := le_trans (mul_self_nonneg lo) (A.var_ge ti hti)
  obtain ⟨d1, d2, d3, d4⟩ := mag_div_sqrt_le hsi0 hcpos (hcs ti hti)
  obtain ⟨_, g2⟩ := mag_gamma_dflt A.lo_pos.le (A.var_ge ti hti) hcpos (hcs ti hti)
  have g0 : 0 ≤ Real.sqrt ti.sig2 / plC β ts := div_nonneg (Real.sqrt_nonneg _) hcpos.le
  -- one row
  have hrow : ∀ x ∈ List.filter (fun x => decide (x.1.1.rank ≤ ti.rank))
      (List.map (fun t => (t,
        sumL (List.map (fun ti => Real.exp (ti.mu / plC β ts))
          (List.filter (fun ti => decide (t.rank ≤ ti.rank)) ts)),
        (List.filter (fun q => decide (t.rank = q.rank)) ts).length)) ts).zipIdx,
      0 ≤ Real.exp (ti.mu / plC β ts) / x.1.2.1 ∧ Real.exp (ti.mu / plC β ts) / x.1.2.1 ≤ 1
      ∧ (1 : ℝ) ≤ (x.1.2.2 : ℝ) := by
    intro x hx
    obtain ⟨tq, htq, hr, hxe⟩ := mag_pl_rows_mem ts _ _ ti hx
    rw [hxe]
    obtain ⟨p1, p2⟩ := mag_pl_p_bounds A (plC β ts) harg ti tq hti htq hr
    have := Real.exp_pos (-454)
    exact ⟨le_trans (by positivity) p1, p2, by exact_mod_cast (mag_plA_bounds A tq htq).1⟩
  have hlen := le_trans (mag_pl_rows_length ts
      (fun t => sumL (List.map (fun ti => Real.exp (ti.mu / plC β ts))
          (List.filter (fun ti => decide (t.rank ≤ ti.rank)) ts)))
      (fun t => (List.filter (fun q => decide (t.rank = q.rank)) ts).length) ti) A.len_le
  simp only [plOmegaDelta, plSumQ, plA, zip_map_zip_map, sc_exp, sc_ofNat, Nat.cast_one, gammaVal,
    sc_sqrt, sumL_eq_sum]
  simp only [sumL_eq_sum] at hrow hlen
  refine ⟨?_, ?_, ?_⟩
  · rw [abs_mul, abs_of_nonneg d1]
    have hom := mag_abs_sum_le_of_length _ (fun x : (TeamAgg ℝ × ℝ × ℕ) × ℕ =>
        if x.2 = i then (1 - Real.exp (ti.mu / plC β ts) / x.1.2.1) / (x.1.2.2 : ℝ)
        else -(Real.exp (ti.mu / plC β ts) / x.1.2.1 / (x.1.2.2 : ℝ))) 1 8 zero_le_one hlen
      (fun x hx => by
        obtain ⟨p0, p1, a1⟩ := hrow x hx
        have ha : (0 : ℝ) < x.1.2.2 := by linarith
        split_ifs
        · rw [abs_div, abs_of_pos ha, div_le_one ha, abs_le]; constructor <;> linarith
        · rw [abs_neg, abs_div, abs_of_pos ha, div_le_one ha, abs_of_nonneg p0]; linarith)
    calc _ ≤ (8 * 1 : ℝ) * (161 * β) :=
          mul_le_mul (by exact_mod_cast hom) (le_trans d2 hc2) d1 (by norm_num)
      _ = 1288 * β := by ring
  · refine mul_nonneg (mul_nonneg ?_ (by rw [← div_div]; exact d4)) g0
    apply mag_sum_nonneg
    intro x hx
    obtain ⟨p0, p1, a1⟩ := hrow x hx
    exact div_nonneg (mul_nonneg p0 (by linarith)) (by linarith)
  · have hde := mag_sum_le_of_length _ (fun x : (TeamAgg ℝ × ℝ × ℕ) × ℕ =>
        Real.exp (ti.mu / plC β ts) / x.1.2.1 * (1 - Real.exp (ti.mu / plC β ts) / x.1.2.1)
          / (x.1.2.2 : ℝ)) (1 / 4) 8 (by norm_num) hlen
      (fun x hx => by
        obtain ⟨p0, p1, a1⟩ := hrow x hx
        have ha : (0 : ℝ) < x.1.2.2 := by linarith
        rw [div_le_iff₀ ha]
        nlinarith [sq_nonneg (Real.exp (ti.mu / plC β ts) / x.1.2.1 - 1 / 2)])
    have hde0 : 0 ≤ (List.map (fun x : (TeamAgg ℝ × ℝ × ℕ) × ℕ =>
        Real.exp (ti.mu / plC β ts) / x.1.2.1 * (1 - Real.exp (ti.mu / plC β ts) / x.1.2.1)
          / (x.1.2.2 : ℝ)) _).sum := mag_sum_nonneg _ _ (fun x hx => by
        obtain ⟨p0, p1, a1⟩ := hrow x hx
        exact div_nonneg (mul_nonneg p0 (by linarith)) (by linarith))
    have h2 : (8 : ℝ) * (1 / 4) = 2 := by norm_num
    rw [mul_assoc]
    have hprod : ti.sig2 / (plC β ts * plC β ts) * (Real.sqrt ti.sig2 / plC β ts) ≤ 1 := by
      rw [← div_div]
      exact mul_le_one₀ d3 g0 g2
    have hprod0 : 0 ≤ ti.sig2 / (plC β ts * plC β ts) * (Real.sqrt ti.sig2 / plC β ts) := by
      rw [← div_div]; exact mul_nonneg d4 g0
    calc _ ≤ (8 * (1 / 4) : ℝ) * 1 := mul_le_mul (by exact_mod_cast hde) hprod hprod0 (by norm_num)
      _ = 2 := by norm_num

/-- **Plackett–Luce, default gamma**, every team: `|Ω_i| ≤ 1288β`, `0 ≤ Δ_i ≤ 2` -/
theorem mag_omegaDelta_PL {β lo : ℝ} (L : Leaves ℝ) (P : Params ℝ) (hP : P.beta = β)
    (hg : P.gamma = .dflt) {ts : List (TeamAgg ℝ)} (A : Mag.AggBounds β lo ts) :
    ∀ od ∈ omegaDelta .PL L P ts, |od.1| ≤ 1288 * β ∧ 0 ≤ od.2 ∧ od.2 ≤ 2 := by
  intro od hod
  simp only [omegaDelta] at hod
  obtain ⟨x, hx, rfl⟩ := List.mem_map.mp hod
  rw [hP, hg]
  exact mag_plOmegaDelta A x.2 x.1 (List.fst_mem_of_mem_zipIdx hx)

/-! ### Thurstone–Mosteller: the four correction functions -/

namespace Mag

/-- magnitude facts about the four correction functions `v, w, vt, wt` -/
structure LeafBounds (L : Leaves ℝ) : Prop where
  v_abs : ∀ x t : ℝ, |L.v x t| ≤ |x| + |t| + 1
  w_mem : ∀ x t : ℝ, 0 ≤ L.w x t ∧ L.w x t ≤ 1
  vt_abs : ∀ x t : ℝ, 0 ≤ t → |L.vt x t| ≤ |x| + t
  wt_mem : ∀ x t : ℝ, 0 ≤ t → 0 ≤ L.wt x t ∧ L.wt x t ≤ 1

end Mag

/-- `0 ≤ v(x,t) ≤ |x − t| + 1` on both branches of the code (exact branch: Sampford's inequality
`V(V+u) < 1`) -/
theorem mag_vCode_le (x t : ℝ) : vCode x t ≤ |x - t| + 1 := by
  by_cases h : Phi (x - t) < epsF
  · rw [vCode_asym h]
    have := neg_le_abs (x - t)
    linarith
  · rw [vCode_exact h]
    have hs := sampford (x - t)
    have hv := mills_ratio_pos (x - t)
    by_contra hc
    have hc := not_le.mp hc
    have h1 := neg_abs_le (x - t)
    have h2 := abs_nonneg (x - t)
    nlinarith

theorem mag_leafBounds_code : Mag.LeafBounds (codeLeaves : Leaves ℝ) where
  v_abs := fun x t => by
    show |vCode x t| ≤ _
    rw [abs_of_nonneg (vCode_nonneg x t)]
    have h1 := mag_vCode_le x t
    have h2 : |x - t| ≤ |x| + |t| := abs_sub x t
    linarith
  w_mem := fun x t => C17_w_range x t
  vt_abs := fun x t ht => by
    show |vtCode x t| ≤ _
    obtain ⟨h1, h2⟩ := vtCode_mem x t ht
    have h3 := neg_abs_le x
    have h4 := le_abs_self x
    rw [abs_le]; constructor <;> linarith
  wt_mem := fun x t ht => C17_wt_range x t ht

/-! ### Thurstone–Mosteller: one ordered pair of teams -/

namespace Mag

/-- every intermediate quantity of `tmPair L cmul β κ g n ti tq` (`c = cmul·c_iq`; default gamma
for the gamma and delta fields) -/
structure TMPairBounds (L : Leaves ℝ) (β lo κ cmul : ℝ) (n : ℕ) (ti tq : TeamAgg ℝ) : Prop where
  c_ge : Real.sqrt 2 * β ≤ cmul * Grd.ciq β ti tq
  c_le : cmul * Grd.ciq β ti tq ≤ 162 * β
  x_abs : |(ti.mu - tq.mu) / (cmul * Grd.ciq β ti tq)| ≤ 453
  t_pos : 0 < κ / (cmul * Grd.ciq β ti tq)
  t_le : κ / (cmul * Grd.ciq β ti tq) ≤ κ / β
  t_ge : κ / (162 * β) ≤ κ / (cmul * Grd.ciq β ti tq)
  s2c_ge : lo * lo / (162 * β) ≤ ti.sig2 / (cmul * Grd.ciq β ti tq)
  s2c_le : ti.sig2 / (cmul * Grd.ciq β ti tq) ≤ 81 * β
  s2cc_ge : lo * lo / (162 * β) / (162 * β)
      ≤ ti.sig2 / (cmul * Grd.ciq β ti tq) / (cmul * Grd.ciq β ti tq)
  s2cc_le : ti.sig2 / (cmul * Grd.ciq β ti tq) / (cmul * Grd.ciq β ti tq) ≤ 1
  gamma_ge : lo / (162 * β)
      ≤ gammaVal .dflt (cmul * Grd.ciq β ti tq) n ti.mu ti.sig2 ti.players ti.rank
  gamma_le : gammaVal .dflt (cmul * Grd.ciq β ti tq) n ti.mu ti.sig2 ti.players ti.rank ≤ 1
  /-- the pair's contribution to `Ω_i`, for any gamma -/
  omega_abs : ∀ g : GammaFn ℝ, |(tmPair L cmul β κ g n ti tq).1| ≤ 36774 * β + κ
  /-- the pair's contribution to `Δ_i`, default gamma -/
  delta_nonneg : 0 ≤ (tmPair L cmul β κ .dflt n ti tq).2
  delta_le : (tmPair L cmul β κ .dflt n ti tq).2 ≤ 1

end Mag

theorem mag_tm_omega_core {S T X V β κ : ℝ} (hβ : 0 < β) (hS0 : 0 ≤ S) (hS : S ≤ 81 * β)
    (_hT : 0 ≤ T) (hST : S * T ≤ κ) (hX : |X| ≤ 453) (hV : |V| ≤ |X| + T + 1) :
    |S * V| ≤ 36774 * β + κ := by
  rw [abs_mul, abs_of_nonneg hS0]
  have h1 : S * |V| ≤ S * (|X| + T + 1) := mul_le_mul_of_nonneg_left hV hS0
  have h2 : S * (|X| + 1) ≤ 81 * β * 454 :=
    mul_le_mul hS (by linarith) (by positivity) (by positivity)
  nlinarith

theorem mag_tm_delta_core {G S W : ℝ} (hG0 : 0 ≤ G) (hG : G ≤ 1) (hS0 : 0 ≤ S) (hS : S ≤ 1)
    (hW0 : 0 ≤ W) (hW : W ≤ 1) : 0 ≤ G * S * W ∧ G * S * W ≤ 1 :=
  ⟨mul_nonneg (mul_nonneg hG0 hS0) hW0, mag_mul3_le_one hG0 hS0 hG hS hW0 hW⟩

theorem mag_tmPair_bounds {L : Leaves ℝ} (LB : Mag.LeafBounds L) {β lo κ cmul : ℝ}
    {ts : List (TeamAgg ℝ)} (A : Mag.AggBounds β lo ts) (hκ : 0 < κ) (hcm1 : 1 ≤ cmul)
    (hcm2 : cmul ≤ 2) (n : ℕ) {ti tq : TeamAgg ℝ} (hi : ti ∈ ts) (hq : tq ∈ ts) :
    Mag.TMPairBounds L β lo κ cmul n ti tq := by
  have hβ := A.beta_pos
  have hlo := A.lo_pos
  have B := mag_btPair_bounds A n hi hq
  have hsi0 : 0 ≤ ti.sig2 := le_trans (mul_self_nonneg lo) (A.var_ge ti hi)
  have hsq0 : 0 ≤ tq.sig2 := le_trans (mul_self_nonneg lo) (A.var_ge tq hq)
  have hc3 : β ≤ Grd.ciq β ti tq :=
    (mag_ciq_bounds β ti.sig2 tq.sig2 hβ hsi0 hsq0 (A.var_le ti hi) (A.var_le tq hq)).2.2
  have hq0 : 0 < Grd.ciq β ti tq := lt_of_lt_of_le hβ hc3
  have hcc : Grd.ciq β ti tq * Grd.ciq β ti tq = ti.sig2 + tq.sig2 + 2 * (β * β) :=
    Real.mul_self_sqrt (by positivity)
  generalize hcdef : cmul * Grd.ciq β ti tq = c
  have hcq : Grd.ciq β ti tq ≤ c := by rw [← hcdef]; nlinarith
  have hc1 : Real.sqrt 2 * β ≤ c := le_trans B.ciq_ge hcq
  have hc2 : c ≤ 162 * β := by rw [← hcdef]; nlinarith [B.ciq_le]
  have hcβ : β ≤ c := le_trans hc3 hcq
  have hcpos : 0 < c := lt_of_lt_of_le hβ hcβ
  have h162 : 0 < 162 * β := by positivity
  have hsc : ti.sig2 ≤ c * c := by
    have : Grd.ciq β ti tq * Grd.ciq β ti tq ≤ c * c := mul_le_mul hcq hcq hq0.le hcpos.le
    nlinarith [mul_pos hβ hβ]
  have hd : |ti.mu - tq.mu| ≤ 640 * β := by
    have := abs_sub ti.mu tq.mu
    have := A.mu ti hi
    have := A.mu tq hq
    linarith
  have hx : |(ti.mu - tq.mu) / c| ≤ 453 := C08_bt_exp_arg_bound β _ _ hβ hd hc1
  obtain ⟨d1, d2, d3, d4⟩ := mag_div_sqrt_le hsi0 hcpos hsc
  obtain ⟨g1, g2⟩ := mag_gamma_dflt hlo.le (A.var_ge ti hi) hcpos hsc
  have hll : 0 ≤ lo * lo := mul_self_nonneg lo
  have s1 : lo * lo / (162 * β) ≤ ti.sig2 / c := mag_div_le_div hll (A.var_ge ti hi) hcpos hc2
  have s1' : ti.sig2 / c ≤ 81 * β :=
    le_trans (div_le_div_of_nonneg_left hsi0 hq0 hcq) B.s2c_le
  have s2 : lo * lo / (162 * β) / (162 * β) ≤ ti.sig2 / c / c :=
    mag_div_le_div (div_nonneg hll h162.le) s1 hcpos hc2
  have g0 : lo / (162 * β) ≤ Real.sqrt ti.sig2 / c :=
    le_trans (mag_div_le_div hlo.le le_rfl hcpos hc2) g1
  have gnn : 0 ≤ Real.sqrt ti.sig2 / c := div_nonneg (Real.sqrt_nonneg _) hcpos.le
  have t0 : 0 < κ / c := div_pos hκ hcpos
  have t1 : κ / c ≤ κ / β := div_le_div_of_nonneg_left hκ.le hβ hcβ
  have t2 : κ / (162 * β) ≤ κ / c := div_le_div_of_nonneg_left hκ.le hcpos hc2
  have hST : ti.sig2 / c * (κ / c) ≤ κ := by
    have : ti.sig2 / c * (κ / c) = ti.sig2 / c / c * κ := by ring
    rw [this]
    calc ti.sig2 / c / c * κ ≤ 1 * κ := mul_le_mul_of_nonneg_right d3 hκ.le
      _ = κ := one_mul κ
  have habs_t : |κ / c| = κ / c := abs_of_pos t0
  subst hcdef
  refine ⟨hc1, hc2, hx, t0, t1, t2, s1, s1', s2, d3, ?_, ?_, ?_, ?_, ?_⟩
  · simpa only [gammaVal, sc_sqrt] using g0
  · simpa only [gammaVal, sc_sqrt] using g2
  · intro g
    rw [C08_tmPair_shape]
    split_ifs
    · refine mag_tm_omega_core hβ d1 s1' t0.le hST hx ?_
      have := LB.v_abs ((ti.mu - tq.mu) / (cmul * Grd.ciq β ti tq)) (κ / (cmul * Grd.ciq β ti tq))
      rwa [habs_t] at this
    · rw [neg_mul, abs_neg]
      refine mag_tm_omega_core hβ d1 s1' t0.le hST hx ?_
      have := LB.v_abs (-((ti.mu - tq.mu) / (cmul * Grd.ciq β ti tq))) (κ / (cmul * Grd.ciq β ti tq))
      rwa [habs_t, abs_neg] at this
    · refine mag_tm_omega_core hβ d1 s1' t0.le hST hx ?_
      have := LB.vt_abs ((ti.mu - tq.mu) / (cmul * Grd.ciq β ti tq)) (κ / (cmul * Grd.ciq β ti tq)) t0.le
      linarith
  · rw [C08_tmPair_shape]
    simp only [gammaVal, sc_sqrt, mul_div_assoc]
    split_ifs
    · exact (mag_tm_delta_core gnn g2 d4 d3 (LB.w_mem _ _).1 (LB.w_mem _ _).2).1
    · exact (mag_tm_delta_core gnn g2 d4 d3 (LB.w_mem _ _).1 (LB.w_mem _ _).2).1
    · exact (mag_tm_delta_core gnn g2 d4 d3 (LB.wt_mem _ _ t0.le).1 (LB.wt_mem _ _ t0.le).2).1
  · rw [C08_tmPair_shape]
    simp only [gammaVal, sc_sqrt, mul_div_assoc]
    split_ifs
    · exact (mag_tm_delta_core gnn g2 d4 d3 (LB.w_mem _ _).1 (LB.w_mem _ _).2).2
    · exact (mag_tm_delta_core gnn g2 d4 d3 (LB.w_mem _ _).1 (LB.w_mem _ _).2).2
    · exact (mag_tm_delta_core gnn g2 d4 d3 (LB.wt_mem _ _ t0.le).1 (LB.wt_mem _ _ t0.le).2).2

/-- **Thurstone–Mosteller (full or partial pairing), default gamma**:
`|Ω_i| ≤ 294192β + 8κ`, `0 ≤ Δ_i ≤ 8` -/
theorem mag_omegaDelta_TM {β lo : ℝ} (K : Kind) (hK : K = .TMF ∨ K = .TMP) (L : Leaves ℝ)
    (LB : Mag.LeafBounds L) (P : Params ℝ) (hP : P.beta = β) (hg : P.gamma = .dflt)
    (hκ : 0 < P.kappa) {ts : List (TeamAgg ℝ)} (A : Mag.AggBounds β lo ts) :
    ∀ od ∈ omegaDelta K L P ts,
      |od.1| ≤ 294192 * β + 8 * P.kappa ∧ 0 ≤ od.2 ∧ od.2 ≤ 8 := by
  have hβ := A.beta_pos
  intro od hod
  have key : ∀ (cmul : ℝ) (ti : TeamAgg ℝ) (l : List (TeamAgg ℝ)), 1 ≤ cmul → cmul ≤ 2 → ti ∈ ts →
      l.length ≤ 8 → (∀ x ∈ l, x ∈ ts) →
      |(sumPairs (l.map (tmPair L cmul P.beta P.kappa P.gamma ts.length ti))).1|
        ≤ 294192 * β + 8 * P.kappa
      ∧ 0 ≤ (sumPairs (l.map (tmPair L cmul P.beta P.kappa P.gamma ts.length ti))).2
      ∧ (sumPairs (l.map (tmPair L cmul P.beta P.kappa P.gamma ts.length ti))).2 ≤ 8 := by
    intro cmul ti l h1 h2 hti hl hsub
    rw [hP, hg]
    have h := mag_sumPairs_bounds l (tmPair L cmul β P.kappa .dflt ts.length ti) 8
      (36774 * β + P.kappa) 1 (by positivity) zero_le_one hl
      (fun x hx => (mag_tmPair_bounds LB A hκ h1 h2 ts.length hti (hsub x hx)).omega_abs .dflt)
      (fun x hx => by
        have B := mag_tmPair_bounds LB A hκ h1 h2 ts.length hti (hsub x hx)
        exact ⟨B.delta_nonneg, B.delta_le⟩)
    obtain ⟨h1, h2, h3⟩ := h
    refine ⟨by push_cast at h1; linarith, h2, by push_cast at h3; linarith⟩
  rcases hK with rfl | rfl
  · simp only [omegaDelta, sc_ofNat, Nat.cast_one] at hod
    obtain ⟨x, hx, rfl⟩ := List.mem_map.mp hod
    exact key 1 x.1 _ le_rfl one_le_two (List.fst_mem_of_mem_zipIdx hx)
      (le_trans (mag_othersOf_length_le ts x.2) A.len_le) (othersOf_subset ts x.2)
  · simp only [omegaDelta, sc_ofNat, Nat.cast_ofNat] at hod
    obtain ⟨x, hx, rfl⟩ := List.mem_map.mp hod
    exact key 2 x.1 _ one_le_two le_rfl (List.fst_mem_of_mem_zipIdx hx)
      (le_trans (mag_neighboursOf_length_le ts x.2) (by norm_num)) (mag_neighboursOf_subset ts x.2)

end OS
end
