import OSProofs.Props.C18
#print axioms OS.C18_ordinal
#print axioms OS.C18_lt
#print axioms OS.C18_le
#print axioms OS.C18_gt
#print axioms OS.C18_ge
#print axioms OS.C18_foreign_order
#print axioms OS.C18_foreign_eq
#print axioms OS.C18_eq_iff
#print axioms OS.C18_lt_iff
#print axioms OS.C18_le_iff
#print axioms OS.C18_sorted_leaderboard
