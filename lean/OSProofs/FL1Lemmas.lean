import OSModel
import OSProofs.MonoArith
import OSProofs.SortLemmas

/-!
# Helper lemmas for FL1: C05 / C06 in every arithmetic that satisfies the order laws `MonoArith`

Everything is over an abstract `α` with `[Scalar α]` and `(M : MonoArith α)`: no field axioms, no
`linarith`, no `ring`.  (`OSProofs.SortLemmas` is scalar-free: it is imported for the generic list
lemmas about `unwind` and, transitively, for `List.Forall₂`.)

* toolkit: strict/non-strict order, `sumL`, `smax`;
* the per-player tail `applyTeam`;
* the pair terms of Bradley–Terry and Thurstone–Mosteller, the Plackett–Luce sums;
* `compute` slot by slot; the sort / compute / unsort round trip of `rateCore`.
-/

namespace OS
open Scalar
variable {α : Type} [Scalar α]

local notation "𝟘" => (Scalar.ofNat 0)
local notation "𝟙" => (Scalar.ofNat 1)

/-! ### order toolkit -/

namespace MonoArith
variable (M : MonoArith α)
include M

theorem fl1_le_of_lt {a b : α} (h : a < b) : a ≤ b :=
  (M.le_total' a b).resolve_right (M.lt_iff_not_le'.1 h)

theorem fl1_le_of_not_lt {a b : α} (h : ¬ a < b) : b ≤ a :=
  Classical.byContradiction fun h' => h (M.lt_iff_not_le'.2 h')

theorem fl1_lt_of_not_le {a b : α} (h : ¬ a ≤ b) : b < a := M.lt_iff_not_le'.2 h

theorem fl1_lt_of_lt_of_le {a b c : α} (h1 : a < b) (h2 : b ≤ c) : a < c :=
  M.lt_iff_not_le'.2 fun h => M.lt_iff_not_le'.1 h1 (M.le_trans' h2 h)

theorem fl1_lt_of_le_of_lt {a b c : α} (h1 : a ≤ b) (h2 : b < c) : a < c :=
  M.lt_iff_not_le'.2 fun h => M.lt_iff_not_le'.1 h2 (M.le_trans' h h1)

theorem fl1_lt_irrefl (a : α) : ¬ a < a := fun h => M.lt_iff_not_le'.1 h (M.le_refl' a)

theorem fl1_zero_le_one : (𝟘 : α) ≤ 𝟙 := M.ofNat_le' (Nat.zero_le 1)
theorem fl1_zero_lt_one : (𝟘 : α) < 𝟙 := M.ofNat_lt' Nat.one_pos
theorem fl1_zero_le_two : (𝟘 : α) ≤ ofNat 2 := M.ofNat_le' (Nat.zero_le 2)
theorem fl1_zero_le_ofNat (n : Nat) : (𝟘 : α) ≤ ofNat n := M.ofNat_le' (Nat.zero_le n)
theorem fl1_zero_lt_ofNat {n : Nat} (h : 0 < n) : (𝟘 : α) < ofNat n := M.ofNat_lt' h

/-- `0 < a`, `0 ≤ b` ⟹ `0 < a + b` (no cancellation needed: `a ≤ a + b`) -/
theorem fl1_add_pos_of_pos_of_nonneg {a b : α} (ha : 𝟘 < a) (hb : 𝟘 ≤ b) : 𝟘 < a + b :=
  M.fl1_lt_of_lt_of_le ha (M.le_add_right' hb)

/-! ### `sumL` -/

theorem fl1_foldl_nonneg (l : List α) (acc : α) (hacc : 𝟘 ≤ acc) (h : ∀ x ∈ l, 𝟘 ≤ x) :
    𝟘 ≤ l.foldl (· + ·) acc := by
  induction l generalizing acc with
  | nil => exact hacc
  | cons x xs ih =>
    rw [List.foldl_cons]
    exact ih _ (M.add_nonneg' hacc (h x List.mem_cons_self))
      (fun y hy => h y (List.mem_cons_of_mem _ hy))

/-- a `sumL` of non-negative terms is non-negative -/
theorem fl1_sumL_nonneg {l : List α} (h : ∀ x ∈ l, 𝟘 ≤ x) : 𝟘 ≤ sumL l :=
  M.fl1_foldl_nonneg l _ (M.le_refl' _) h

theorem fl1_foldl_nonpos (l : List α) (acc : α) (hacc : acc ≤ 𝟘) (h : ∀ x ∈ l, x ≤ 𝟘) :
    l.foldl (· + ·) acc ≤ 𝟘 := by
  induction l generalizing acc with
  | nil => exact hacc
  | cons x xs ih =>
    rw [List.foldl_cons]
    exact ih _ (M.add_nonpos' hacc (h x List.mem_cons_self))
      (fun y hy => h y (List.mem_cons_of_mem _ hy))

/-- a `sumL` of non-positive terms is non-positive -/
theorem fl1_sumL_nonpos {l : List α} (h : ∀ x ∈ l, x ≤ 𝟘) : sumL l ≤ 𝟘 :=
  M.fl1_foldl_nonpos l _ (M.le_refl' _) h

theorem fl1_le_foldl (l : List α) (acc : α) (h : ∀ x ∈ l, 𝟘 ≤ x) :
    acc ≤ l.foldl (· + ·) acc := by
  induction l generalizing acc with
  | nil => exact M.le_refl' _
  | cons x xs ih =>
    rw [List.foldl_cons]
    exact M.le_trans' (M.le_add_right' (h x List.mem_cons_self))
      (ih _ (fun y hy => h y (List.mem_cons_of_mem _ hy)))

theorem fl1_le_foldl_of_mem (l : List α) (acc : α) (hacc : 𝟘 ≤ acc) (h : ∀ x ∈ l, 𝟘 ≤ x)
    {a : α} (ha : a ∈ l) : a ≤ l.foldl (· + ·) acc := by
  induction l generalizing acc with
  | nil => cases ha
  | cons x xs ih =>
    rw [List.foldl_cons]
    have hxs : ∀ y ∈ xs, 𝟘 ≤ y := fun y hy => h y (List.mem_cons_of_mem _ hy)
    rcases List.mem_cons.1 ha with rfl | ha'
    · exact M.le_trans' (M.le_add_left' hacc) (M.fl1_le_foldl xs _ hxs)
    · exact ih _ (M.add_nonneg' hacc (h x List.mem_cons_self)) hxs ha'

/-- every term of a `sumL` of non-negative terms is `≤` the sum -/
theorem fl1_le_sumL_of_mem {l : List α} (h : ∀ x ∈ l, 𝟘 ≤ x) {a : α} (ha : a ∈ l) :
    a ≤ sumL l :=
  M.fl1_le_foldl_of_mem l _ (M.le_refl' _) h ha

/-- `sumL [x] = 0 + x` lies on both sides of `x` -/
theorem fl1_sumL_singleton_le (x : α) : sumL [x] ≤ x := M.add_le_left' (M.le_refl' _)
theorem fl1_le_sumL_singleton (x : α) : x ≤ sumL [x] := M.le_add_left' (M.le_refl' _)

/-! ### `smax` -/

omit M in
theorem fl1_smax_le_one {a k : α} (ha : a ≤ 𝟙) (hk : k ≤ 𝟙) : smax a k ≤ 𝟙 := by
  unfold smax; split <;> assumption

theorem fl1_le_smax_left (a k : α) : a ≤ smax a k := by
  unfold smax; split
  · next h => exact M.fl1_le_of_lt h
  · exact M.le_refl' _

theorem fl1_le_smax_right (a k : α) : k ≤ smax a k := by
  unfold smax; split
  · exact M.le_refl' _
  · next h => exact M.fl1_le_of_not_lt h

/-! ### the Bradley–Terry probability `1 / (1 + exp x)` -/

theorem fl1_one_le_one_add_exp (x : α) : (𝟙 : α) ≤ 𝟙 + exp x := M.le_add_right' (M.exp_nonneg' x)

theorem fl1_one_add_exp_pos (x : α) : (𝟘 : α) < 𝟙 + exp x :=
  M.fl1_lt_of_lt_of_le M.fl1_zero_lt_one (M.fl1_one_le_one_add_exp x)

theorem fl1_bt_p_nonneg (x : α) : (𝟘 : α) ≤ 𝟙 / (𝟙 + exp x) :=
  M.div_nonneg' M.fl1_zero_le_one (M.fl1_one_add_exp_pos x)

theorem fl1_bt_p_le_one (x : α) : 𝟙 / (𝟙 + exp x) ≤ (𝟙 : α) :=
  M.div_le_one' (M.fl1_one_le_one_add_exp x) (M.fl1_one_add_exp_pos x)

end MonoArith

/-! ### the per-player tail -/

/-- the per-player update at the tail of every `_compute` -/
def fl1_upd (kappa sig2 omega delta : α) (p : Rating α) : Rating α :=
  { p with mu := p.mu + p.sigma * p.sigma / sig2 * omega,
           sigma := p.sigma * sqrt (smax (ofNat 1 - p.sigma * p.sigma / sig2 * delta) kappa) }

theorem fl1_applyTeam_eq_map (kappa : α) (t : TeamAgg α) (omega delta : α) :
    applyTeam kappa t omega delta = t.players.map (fl1_upd kappa t.sig2 omega delta) := rfl

@[simp] theorem fl1_upd_id (kappa sig2 omega delta : α) (p : Rating α) :
    (fl1_upd kappa sig2 omega delta p).id = p.id := rfl

namespace MonoArith
variable (M : MonoArith α)
include M

theorem fl1_share_nonneg (s sig2 : α) (hs : 𝟘 < sig2) : 𝟘 ≤ s * s / sig2 :=
  M.div_nonneg' (M.mul_self_nonneg' s) hs

/-- the shrink factor `sqrt(max(1 − share·δ, κ))` is `≤ 1` -/
theorem fl1_factor_le_one {s sig2 delta kappa : α} (hs : 𝟘 < sig2) (hd : 𝟘 ≤ delta)
    (hk : kappa ≤ 𝟙) : sqrt (smax (𝟙 - s * s / sig2 * delta) kappa) ≤ 𝟙 :=
  M.sqrt_le_one' (fl1_smax_le_one
    (M.sub_le_self' (M.mul_nonneg' (M.fl1_share_nonneg s sig2 hs) hd)) hk)

theorem fl1_upd_sigma_le {kappa sig2 omega delta : α} (p : Rating α) (hp : 𝟘 ≤ p.sigma)
    (hs : 𝟘 < sig2) (hd : 𝟘 ≤ delta) (hk : kappa ≤ 𝟙) :
    (fl1_upd kappa sig2 omega delta p).sigma ≤ p.sigma :=
  M.mul_le_of_le_one_right' hp (M.fl1_factor_le_one hs hd hk)

theorem fl1_upd_sigma_nonneg {kappa sig2 omega delta : α} (p : Rating α) (hp : 𝟘 ≤ p.sigma) :
    𝟘 ≤ (fl1_upd kappa sig2 omega delta p).sigma :=
  M.mul_nonneg' hp (M.sqrt_nonneg' _)

theorem fl1_upd_mu_ge {kappa sig2 omega delta : α} (p : Rating α) (hs : 𝟘 < sig2)
    (ho : 𝟘 ≤ omega) : p.mu ≤ (fl1_upd kappa sig2 omega delta p).mu :=
  M.le_add_right' (M.mul_nonneg' (M.fl1_share_nonneg _ _ hs) ho)

theorem fl1_upd_mu_le {kappa sig2 omega delta : α} (p : Rating α) (hs : 𝟘 < sig2)
    (ho : omega ≤ 𝟘) : (fl1_upd kappa sig2 omega delta p).mu ≤ p.mu :=
  M.add_le_right' (M.mul_nonpos_right' (M.fl1_share_nonneg _ _ hs) ho)

/-! ### team aggregates -/

theorem fl1_teamAgg_sig2_nonneg (team : List (Rating α)) (rank : Nat) :
    𝟘 ≤ (teamAgg team rank).sig2 := by
  apply M.fl1_sumL_nonneg
  intro x hx
  obtain ⟨p, _, rfl⟩ := List.mem_map.1 hx
  exact M.mul_self_nonneg' _

end MonoArith

theorem fl1_mem_teamAggs {teams : List (List (Rating α))} {ranks : List Nat} {t : TeamAgg α}
    (h : t ∈ teamAggs teams ranks) : ∃ S ∈ teams, ∃ r, t = teamAgg S r := by
  simp only [teamAggs] at h
  obtain ⟨⟨S, r⟩, hx, rfl⟩ := List.mem_map.1 h
  exact ⟨S, (List.of_mem_zip hx).1, r, rfl⟩

theorem fl1_teamAggs_length (teams : List (List (Rating α))) (ranks : List Nat) :
    (teamAggs teams ranks).length = min teams.length ranks.length := by
  simp [teamAggs]

theorem fl1_teamAggs_getElem? (teams : List (List (Rating α))) (ranks : List Nat) (i : Nat)
    {T : List (Rating α)} {d : Nat} (hT : teams[i]? = some T) (hd : ranks[i]? = some d) :
    (teamAggs teams ranks)[i]? = some (teamAgg T d) := by
  have hz : (teams.zip ranks)[i]? = some (T, d) := List.getElem?_zip_eq_some.2 ⟨hT, hd⟩
  simp only [teamAggs, List.getElem?_map, hz, Option.map_some]

theorem fl1_teamAggs_getElem?_inv (teams : List (List (Rating α))) (ranks : List Nat) (i : Nat)
    {t : TeamAgg α} (h : (teamAggs teams ranks)[i]? = some t) :
    ∃ T d, teams[i]? = some T ∧ ranks[i]? = some d ∧ t = teamAgg T d := by
  simp only [teamAggs, List.getElem?_map, Option.map_eq_some_iff] at h
  obtain ⟨⟨T, d⟩, hz, rfl⟩ := h
  obtain ⟨h1, h2⟩ := List.getElem?_zip_eq_some.1 hz
  exact ⟨T, d, h1, h2, rfl⟩

theorem fl1_teamAgg_sig2 (T : List (Rating α)) (d : Nat) :
    (teamAgg T d).sig2 = sumL (T.map (fun p => p.sigma * p.sigma)) := rfl

theorem fl1_teamAgg_rank (T : List (Rating α)) (d : Nat) : (teamAgg T d).rank = d := rfl

theorem fl1_teamAgg_players (T : List (Rating α)) (d : Nat) : (teamAgg T d).players = T := rfl


/-! ### the gamma callback -/

/-- **The hypothesis on gamma, in one place.**  The gamma callback is non-negative on the arguments the
models feed it: a positive `c`, a non-negative `sigma_squared`, at least one team.  (The unrestricted
"`0 ≤ gammaVal g c k mu s2 rank` for all arguments" is false for the library default `sqrt(σ²)/c` at
`c < 0`; it implies this one: `gammaNonneg_of_forall`.) -/
def GammaNonneg (g : GammaFn α) : Prop :=
  ∀ (c : α) (k : Nat) (mu s2 : α) (team : List (Rating α)) (rank : Nat), 𝟘 < c → 𝟘 ≤ s2 → 0 < k →
    𝟘 ≤ gammaVal g c k mu s2 team rank

theorem gammaNonneg_of_forall {g : GammaFn α}
    (h : ∀ (c : α) (k : Nat) (mu s2 : α) (team : List (Rating α)) (rank : Nat), 𝟘 ≤ gammaVal g c k mu s2 team rank) :
    GammaNonneg g := fun c k mu s2 team rank _ _ _ => h c k mu s2 team rank

/-- the default callback, `1/k`, `1/(rank+1)`, `0` and every non-negative constant are admissible
in every monotone arithmetic (`σ²/c²` is too whenever the computed `c*c` is positive) -/
theorem MonoArith.fl1_gammaNonneg_of_tag (M : MonoArith α) (g : GammaFn α)
    (hg : ∀ x, g = .const x → 𝟘 ≤ x) (hsq : g ≠ .sq)
    (hfn : ∀ f, g = .fn f → ∀ c k mu s2 team rank, 𝟘 < c → 𝟘 ≤ s2 → 0 < k → 𝟘 ≤ f c k mu s2 team rank) :
    GammaNonneg g := by
  intro c k mu s2 team rank hc hs hk
  cases g with
  | fn f => exact hfn f rfl c k mu s2 team rank hc hs hk
  | dflt => exact M.div_nonneg' (M.sqrt_nonneg' _) hc
  | const x => exact hg x rfl
  | invK => exact M.div_nonneg' M.fl1_zero_le_one (M.fl1_zero_lt_ofNat hk)
  | rankDep => exact M.div_nonneg' M.fl1_zero_le_one (M.fl1_zero_lt_ofNat (Nat.succ_pos _))
  | sq => exact absurd rfl hsq
  | zero => exact M.le_refl' _

/-! ### leaves (Thurstone–Mosteller only) -/

/-- sign conditions on the leaves under which the TM statements hold -/
structure LeavesNonneg (L : Leaves α) : Prop where
  v_nonneg : ∀ x t, 𝟘 ≤ L.v x t
  w_nonneg : ∀ x t, 𝟘 ≤ L.w x t
  wt_nonneg : ∀ x t, 𝟘 ≤ L.wt x t

/-! ### pair terms -/

theorem fl1_sumPairs_fst (prs : List (α × α)) : (sumPairs prs).1 = sumL (prs.map (·.1)) := rfl
theorem fl1_sumPairs_snd (prs : List (α × α)) : (sumPairs prs).2 = sumL (prs.map (·.2)) := rfl

namespace MonoArith
variable (M : MonoArith α)
include M

theorem fl1_sumPairs_snd_nonneg {prs : List (α × α)} (h : ∀ x ∈ prs, 𝟘 ≤ x.2) :
    𝟘 ≤ (sumPairs prs).2 := by
  rw [fl1_sumPairs_snd]; apply M.fl1_sumL_nonneg
  intro y hy; obtain ⟨x, hx, rfl⟩ := List.mem_map.1 hy; exact h x hx

theorem fl1_sumPairs_fst_nonneg {prs : List (α × α)} (h : ∀ x ∈ prs, 𝟘 ≤ x.1) :
    𝟘 ≤ (sumPairs prs).1 := by
  rw [fl1_sumPairs_fst]; apply M.fl1_sumL_nonneg
  intro y hy; obtain ⟨x, hx, rfl⟩ := List.mem_map.1 hy; exact h x hx

theorem fl1_sumPairs_fst_nonpos {prs : List (α × α)} (h : ∀ x ∈ prs, x.1 ≤ 𝟘) :
    (sumPairs prs).1 ≤ 𝟘 := by
  rw [fl1_sumPairs_fst]; apply M.fl1_sumL_nonpos
  intro y hy; obtain ⟨x, hx, rfl⟩ := List.mem_map.1 hy; exact h x hx

/-- Bradley–Terry: the variance component of a pair is `≥ 0` -/
theorem fl1_btPair_snd_nonneg (beta : α) (g : GammaFn α) (hg : GammaNonneg g) (n : Nat)
    (hn : 0 < n) (ti tq : TeamAgg α) (hs : 𝟘 ≤ ti.sig2)
    (hc : 𝟘 < sqrt (ti.sig2 + tq.sig2 + ofNat 2 * (beta * beta))) :
    𝟘 ≤ (btPair beta g n ti tq).2 := by
  simp only [btPair]
  exact M.mul_nonneg' (M.mul_nonneg'
    (M.div_nonneg' (M.mul_nonneg' (hg _ _ _ _ _ _ hc hs hn) (M.div_nonneg' hs hc)) hc)
    (M.fl1_bt_p_nonneg _)) (M.sub_nonneg' (M.fl1_bt_p_le_one _))

/-- Bradley–Terry: against a team ranked strictly behind, the mean component is `≥ 0` -/
theorem fl1_btPair_fst_nonneg (beta : α) (g : GammaFn α) (n : Nat)
    (ti tq : TeamAgg α) (hr : ti.rank < tq.rank) (hs : 𝟘 ≤ ti.sig2)
    (hc : 𝟘 < sqrt (ti.sig2 + tq.sig2 + ofNat 2 * (beta * beta))) :
    𝟘 ≤ (btPair beta g n ti tq).1 := by
  simp only [btPair, if_pos hr]
  exact M.mul_nonneg' (M.div_nonneg' hs hc) (M.sub_nonneg' (M.fl1_bt_p_le_one _))

/-- Bradley–Terry: against a team ranked strictly ahead, the mean component is `≤ 0` -/
theorem fl1_btPair_fst_nonpos (beta : α) (g : GammaFn α) (n : Nat)
    (ti tq : TeamAgg α) (hr : tq.rank < ti.rank) (hs : 𝟘 ≤ ti.sig2)
    (hc : 𝟘 < sqrt (ti.sig2 + tq.sig2 + ofNat 2 * (beta * beta))) :
    (btPair beta g n ti tq).1 ≤ 𝟘 := by
  simp only [btPair, if_neg (Nat.lt_asymm hr), if_neg (Nat.ne_of_lt hr)]
  exact M.mul_nonpos_right' (M.div_nonneg' hs hc) (M.sub_nonpos' (M.fl1_bt_p_nonneg _))

/-- Thurstone–Mosteller: the variance component of a pair is `≥ 0` -/
theorem fl1_tmPair_snd_nonneg (L : Leaves α) (hL : LeavesNonneg L) (cmul beta kappa : α)
    (g : GammaFn α) (hg : GammaNonneg g) (n : Nat) (hn : 0 < n) (ti tq : TeamAgg α)
    (hs : 𝟘 ≤ ti.sig2)
    (hc : 𝟘 < cmul * sqrt (ti.sig2 + tq.sig2 + ofNat 2 * (beta * beta))) :
    𝟘 ≤ (tmPair L cmul beta kappa g n ti tq).2 := by
  have hpre := M.div_nonneg' (M.mul_nonneg' (hg _ n ti.mu _ ti.players ti.rank hc hs hn)
    (M.div_nonneg' hs hc)) hc
  simp only [tmPair]
  split
  · exact M.mul_nonneg' hpre (hL.w_nonneg _ _)
  · split
    · exact M.mul_nonneg' hpre (hL.w_nonneg _ _)
    · exact M.mul_nonneg' hpre (hL.wt_nonneg _ _)

theorem fl1_tmPair_fst_nonneg (L : Leaves α) (hL : LeavesNonneg L) (cmul beta kappa : α)
    (g : GammaFn α) (n : Nat) (ti tq : TeamAgg α) (hr : ti.rank < tq.rank) (hs : 𝟘 ≤ ti.sig2)
    (hc : 𝟘 < cmul * sqrt (ti.sig2 + tq.sig2 + ofNat 2 * (beta * beta))) :
    𝟘 ≤ (tmPair L cmul beta kappa g n ti tq).1 := by
  simp only [tmPair, if_pos hr]
  exact M.mul_nonneg' (M.div_nonneg' hs hc) (hL.v_nonneg _ _)

theorem fl1_tmPair_fst_nonpos (L : Leaves α) (hL : LeavesNonneg L) (cmul beta kappa : α)
    (g : GammaFn α) (n : Nat) (ti tq : TeamAgg α) (hr : tq.rank < ti.rank) (hs : 𝟘 ≤ ti.sig2)
    (hc : 𝟘 < cmul * sqrt (ti.sig2 + tq.sig2 + ofNat 2 * (beta * beta))) :
    (tmPair L cmul beta kappa g n ti tq).1 ≤ 𝟘 := by
  simp only [tmPair, if_neg (Nat.lt_asymm hr), if_pos hr]
  exact M.mul_nonpos_left' (M.neg_nonpos' (M.div_nonneg' hs hc)) (hL.v_nonneg _ _)

/-- with positive team variances the Bradley–Terry divisor `c_iq` is positive: derived, not assumed -/
theorem fl1_ciq_pos (beta : α) (ti tq : TeamAgg α) (hi : 𝟘 < ti.sig2) (hq : 𝟘 ≤ tq.sig2) :
    𝟘 < sqrt (ti.sig2 + tq.sig2 + ofNat 2 * (beta * beta)) :=
  M.sqrt_pos' (M.fl1_add_pos_of_pos_of_nonneg (M.fl1_add_pos_of_pos_of_nonneg hi hq)
    (M.mul_nonneg' M.fl1_zero_le_two (M.mul_self_nonneg' _)))

end MonoArith

/-! ### opponents -/

theorem fl1_mem_othersOf {β : Type} {ts : List β} {i : Nat} {x : β} (h : x ∈ othersOf ts i) :
    ∃ j, j ≠ i ∧ ts[j]? = some x := by
  simp only [othersOf] at h
  obtain ⟨y, hy, rfl⟩ := List.mem_map.1 h
  obtain ⟨h1, h2⟩ := List.mem_filter.1 hy
  exact ⟨y.2, by simpa using h2, List.mem_zipIdx_iff_getElem?.1 h1⟩

theorem fl1_mem_neighboursOf {β : Type} {ts : List β} {i : Nat} {x : β}
    (h : x ∈ neighboursOf ts i) : ∃ j, j ≠ i ∧ ts[j]? = some x := by
  simp only [neighboursOf, List.mem_append] at h
  rcases h with h | h
  · by_cases hi : i = 0
    · simp [hi] at h
    · rw [if_neg hi] at h
      exact ⟨i - 1, by omega, by simpa [Option.mem_toList] using h⟩
  · exact ⟨i + 1, by omega, by simpa [Option.mem_toList] using h⟩

theorem fl1_mem_of_getElem? {β : Type} {l : List β} {i : Nat} {x : β} (h : l[i]? = some x) :
    x ∈ l := List.mem_of_getElem? h

/-! ### Plackett–Luce -/

/-- `sum_q[q]` for the team `tq` -/
def fl1_plSum (ts : List (TeamAgg α)) (c : α) (tq : TeamAgg α) : α :=
  sumL ((ts.filter (fun ti => decide (tq.rank ≤ ti.rank))).map (fun ti => exp (ti.mu / c)))

/-- `A_q` for the team `tq` -/
def fl1_plCnt (ts : List (TeamAgg α)) (tq : TeamAgg α) : Nat :=
  (ts.filter (fun q => decide (tq.rank = q.rank))).length

theorem fl1_zip_map_zip_map {β γ δ : Type} (f : β → γ) (g : β → δ) (l : List β) :
    l.zip ((l.map f).zip (l.map g)) = l.map (fun t => (t, f t, g t)) := by
  induction l with
  | nil => rfl
  | cons x xs ih => simp only [List.map_cons, List.zip_cons_cons, ih]

theorem fl1_pl_zip (ts : List (TeamAgg α)) (c : α) :
    ts.zip ((plSumQ ts c).zip (plA ts))
      = ts.map (fun t => (t, fl1_plSum ts c t, fl1_plCnt ts t)) :=
  fl1_zip_map_zip_map _ _ ts

theorem fl1_pl_mem_qs {ts : List (TeamAgg α)} {c : α} {x : (TeamAgg α × α × Nat) × Nat}
    (h : x ∈ (ts.zip ((plSumQ ts c).zip (plA ts))).zipIdx) :
    ∃ tq, ts[x.2]? = some tq ∧ x.1 = (tq, fl1_plSum ts c tq, fl1_plCnt ts tq) := by
  rw [fl1_pl_zip] at h
  have h2 := List.mem_zipIdx_iff_getElem?.1 h
  rw [List.getElem?_map, Option.map_eq_some_iff] at h2
  obtain ⟨tq, h3, h4⟩ := h2
  exact ⟨tq, h3, h4.symm⟩

theorem fl1_filter_eq_singleton {β : Type} (l : List β) (p : β → Bool) (i : Nat) (x : β)
    (hi : l[i]? = some x) (hx : p x = true)
    (ho : ∀ j y, l[j]? = some y → j ≠ i → p y = false) : l.filter p = [x] := by
  induction l generalizing i with
  | nil => simp at hi
  | cons y ys ih =>
    cases i with
    | zero =>
      simp only [List.getElem?_cons_zero, Option.some.injEq] at hi
      subst hi
      rw [List.filter_cons_of_pos hx]
      congr 1
      rw [List.filter_eq_nil_iff]
      intro a ha
      obtain ⟨j, hj⟩ := List.mem_iff_getElem?.1 ha
      have := ho (j + 1) a (by simpa using hj) (by omega)
      simp [this]
    | succ i' =>
      have hy : p y = false := ho 0 y (by simp) (by omega)
      rw [List.filter_cons_of_neg (by simp [hy])]
      apply ih i' (by simpa using hi)
      intro j z hj hne
      exact ho (j + 1) z (by simpa using hj) (by omega)

namespace MonoArith
variable (M : MonoArith α)
include M

/-- `e_i ≤ sum_q[q]` whenever team `i` is one of the teams `sum_q[q]` runs over -/
theorem fl1_exp_le_plSum (ts : List (TeamAgg α)) (c : α) (ti tq : TeamAgg α) (hti : ti ∈ ts)
    (hr : tq.rank ≤ ti.rank) : exp (ti.mu / c) ≤ fl1_plSum ts c tq := by
  apply M.fl1_le_sumL_of_mem
  · intro x hx
    obtain ⟨t, _, rfl⟩ := List.mem_map.1 hx
    exact M.exp_nonneg' _
  · exact List.mem_map.2 ⟨ti, List.mem_filter.2 ⟨hti, by simpa using hr⟩, rfl⟩

theorem fl1_plSum_pos (ts : List (TeamAgg α)) (c : α) (tq : TeamAgg α) (htq : tq ∈ ts)
    (hexp : 𝟘 < exp (tq.mu / c)) : 𝟘 < fl1_plSum ts c tq :=
  M.fl1_lt_of_lt_of_le hexp (M.fl1_exp_le_plSum ts c tq tq htq (Nat.le_refl _))

omit M [Scalar α] in
theorem fl1_plCnt_pos (ts : List (TeamAgg α)) (tq : TeamAgg α) (htq : tq ∈ ts) :
    0 < fl1_plCnt ts tq :=
  List.length_pos_of_mem (List.mem_filter.2 ⟨htq, by simp⟩)

/-- `0 ≤ p_iq` -/
theorem fl1_pl_p_nonneg (ts : List (TeamAgg α)) (c : α) (ti tq : TeamAgg α) (htq : tq ∈ ts)
    (hexp : 𝟘 < exp (tq.mu / c)) : 𝟘 ≤ exp (ti.mu / c) / fl1_plSum ts c tq :=
  M.div_nonneg' (M.exp_nonneg' _) (M.fl1_plSum_pos ts c tq htq hexp)

/-- `p_iq ≤ 1` when `rank_q ≤ rank_i` -/
theorem fl1_pl_p_le_one (ts : List (TeamAgg α)) (c : α) (ti tq : TeamAgg α) (hti : ti ∈ ts)
    (htq : tq ∈ ts) (hr : tq.rank ≤ ti.rank) (hexp : 𝟘 < exp (tq.mu / c)) :
    exp (ti.mu / c) / fl1_plSum ts c tq ≤ 𝟙 :=
  M.div_le_one' (M.fl1_exp_le_plSum ts c ti tq hti hr) (M.fl1_plSum_pos ts c tq htq hexp)

/-- Plackett–Luce: the variance component is `≥ 0` -/
theorem fl1_plOmegaDelta_snd_nonneg (g : GammaFn α) (hg : GammaNonneg g) (ts : List (TeamAgg α))
    (c : α) (hc : 𝟘 < c) (hcc : 𝟘 < c * c) (hexp : ∀ t ∈ ts, 𝟘 < exp (t.mu / c))
    (i : Nat) (ti : TeamAgg α) (hti : ti ∈ ts) (hs : 𝟘 ≤ ti.sig2) :
    𝟘 ≤ (plOmegaDelta g ts c (plSumQ ts c) (plA ts) i ti).2 := by
  simp only [plOmegaDelta]
  refine M.mul_nonneg' (M.mul_nonneg' ?_ (M.div_nonneg' hs hcc))
    (hg c ts.length ti.mu ti.sig2 ti.players ti.rank hc hs (List.length_pos_of_mem hti))
  apply M.fl1_sumL_nonneg
  intro y hy
  obtain ⟨x, hx, rfl⟩ := List.mem_map.1 hy
  obtain ⟨hx1, hx2⟩ := List.mem_filter.1 hx
  obtain ⟨tq, hq, hxe⟩ := fl1_pl_mem_qs hx1
  have htq : tq ∈ ts := List.mem_of_getElem? hq
  rw [hxe] at hx2 ⊢
  have hr : tq.rank ≤ ti.rank := by simpa using hx2
  exact M.div_nonneg' (M.mul_nonneg' (M.fl1_pl_p_nonneg ts c ti tq htq (hexp _ htq))
    (M.sub_nonneg' (M.fl1_pl_p_le_one ts c ti tq hti htq hr (hexp _ htq))))
    (M.fl1_zero_lt_ofNat (fl1_plCnt_pos ts tq htq))

/-- Plackett–Luce: if no *other* team is ranked at or ahead of team `i`, its mean component is `≥ 0` -/
theorem fl1_plOmegaDelta_fst_nonneg (g : GammaFn α) (ts : List (TeamAgg α))
    (c : α) (hc : 𝟘 < c) (hexp : ∀ t ∈ ts, 𝟘 < exp (t.mu / c))
    (i : Nat) (ti : TeamAgg α) (hti : ti ∈ ts) (hs : 𝟘 ≤ ti.sig2)
    (hfirst : ∀ j tj, ts[j]? = some tj → j ≠ i → ti.rank < tj.rank) :
    𝟘 ≤ (plOmegaDelta g ts c (plSumQ ts c) (plA ts) i ti).1 := by
  simp only [plOmegaDelta]
  refine M.mul_nonneg' ?_ (M.div_nonneg' hs hc)
  apply M.fl1_sumL_nonneg
  intro y hy
  obtain ⟨x, hx, rfl⟩ := List.mem_map.1 hy
  obtain ⟨hx1, hx2⟩ := List.mem_filter.1 hx
  obtain ⟨tq, hq, hxe⟩ := fl1_pl_mem_qs hx1
  have htq : tq ∈ ts := List.mem_of_getElem? hq
  have hr : tq.rank ≤ ti.rank := by rw [hxe] at hx2; simpa using hx2
  have hxi : x.2 = i := by
    by_contra hne
    exact absurd (hfirst x.2 tq hq hne) (Nat.not_lt.2 hr)
  rw [if_pos hxi, hxe]
  exact M.div_nonneg' (M.sub_nonneg' (M.fl1_pl_p_le_one ts c ti tq hti htq hr (hexp _ htq)))
    (M.fl1_zero_lt_ofNat (fl1_plCnt_pos ts tq htq))

omit M in
/-- `sum_q[i]` of a sole last team is the one-term sum `0 + e_i` -/
theorem fl1_plSum_sole_last (ts : List (TeamAgg α)) (c : α) (i : Nat) (ti : TeamAgg α)
    (hi : ts[i]? = some ti) (hlast : ∀ j tj, ts[j]? = some tj → j ≠ i → tj.rank < ti.rank) :
    fl1_plSum ts c ti = sumL [exp (ti.mu / c)] := by
  unfold fl1_plSum
  rw [fl1_filter_eq_singleton ts _ i ti hi (by simp)]
  · rfl
  · intro j y hj hne
    have := hlast j y hj hne
    simp only [decide_eq_false_iff_not, Nat.not_le]
    exact this

/-- Plackett–Luce: if every other team is ranked strictly ahead of team `i`, its mean component is `≤ 0` -/
theorem fl1_plOmegaDelta_fst_nonpos (g : GammaFn α) (ts : List (TeamAgg α))
    (c : α) (hc : 𝟘 < c) (hexp : ∀ t ∈ ts, 𝟘 < exp (t.mu / c))
    (i : Nat) (ti : TeamAgg α) (hi : ts[i]? = some ti) (hs : 𝟘 ≤ ti.sig2)
    (hlast : ∀ j tj, ts[j]? = some tj → j ≠ i → tj.rank < ti.rank) :
    (plOmegaDelta g ts c (plSumQ ts c) (plA ts) i ti).1 ≤ 𝟘 := by
  have hti : ti ∈ ts := List.mem_of_getElem? hi
  simp only [plOmegaDelta]
  refine M.mul_nonpos_left' ?_ (M.div_nonneg' hs hc)
  apply M.fl1_sumL_nonpos
  intro y hy
  obtain ⟨x, hx, rfl⟩ := List.mem_map.1 hy
  obtain ⟨hx1, hx2⟩ := List.mem_filter.1 hx
  obtain ⟨tq, hq, hxe⟩ := fl1_pl_mem_qs hx1
  have htq : tq ∈ ts := List.mem_of_getElem? hq
  by_cases hxi : x.2 = i
  · -- the team's own term: `p_ii = e_i / (0 + e_i) ≥ 1`
    rw [if_pos hxi, hxe]
    rw [hxi, hi] at hq
    cases Option.some.inj hq
    show (𝟙 - exp (ti.mu / c) / fl1_plSum ts c ti) / ofNat (fl1_plCnt ts ti) ≤ 𝟘
    rw [fl1_plSum_sole_last ts c i ti hi hlast]
    have hpos : 𝟘 < sumL [exp (ti.mu / c)] :=
      M.fl1_lt_of_lt_of_le (hexp _ hti) (M.fl1_le_sumL_singleton _)
    have h1 : 𝟙 ≤ exp (ti.mu / c) / sumL [exp (ti.mu / c)] := by
      have := M.div_le_div_right' (M.fl1_sumL_singleton_le (exp (ti.mu / c))) hpos
      rwa [M.div_self' hpos] at this
    exact M.div_nonpos' (M.sub_nonpos' h1) (M.fl1_zero_lt_ofNat (fl1_plCnt_pos ts ti hti))
  · rw [if_neg hxi, hxe]
    exact M.neg_nonpos' (M.div_nonneg' (M.fl1_pl_p_nonneg ts c ti tq htq (hexp _ htq))
      (M.fl1_zero_lt_ofNat (fl1_plCnt_pos ts tq htq)))

/-- with positive team variances the Plackett–Luce `c` is positive: derived, not assumed -/
theorem fl1_plC_pos (beta : α) (ts : List (TeamAgg α)) (hne : ts ≠ [])
    (hv : ∀ t ∈ ts, 𝟘 < t.sig2) : 𝟘 < plC beta ts := by
  obtain ⟨t, ht⟩ := List.exists_mem_of_ne_nil ts hne
  have hterm : ∀ u ∈ ts, 𝟘 < u.sig2 + beta * beta := fun u hu =>
    M.fl1_add_pos_of_pos_of_nonneg (hv u hu) (M.mul_self_nonneg' _)
  apply M.sqrt_pos'
  refine M.fl1_lt_of_lt_of_le (hterm t ht) (M.fl1_le_sumL_of_mem ?_ (List.mem_map.2 ⟨t, ht, rfl⟩))
  intro x hx
  obtain ⟨u, hu, rfl⟩ := List.mem_map.1 hx
  exact M.fl1_le_of_lt (hterm u hu)

end MonoArith


/-! ### `omegaDelta`, team by team -/

/-- the `(ω, δ)` of one team as a function of the team and its index -/
def fl1_od (K : Kind) (L : Leaves α) (P : Params α) (ts : List (TeamAgg α))
    (x : TeamAgg α × Nat) : α × α :=
  match K with
  | .PL => plOmegaDelta P.gamma ts (plC P.beta ts) (plSumQ ts (plC P.beta ts)) (plA ts) x.2 x.1
  | .BTF => sumPairs ((othersOf ts x.2).map (btPair P.beta P.gamma ts.length x.1))
  | .BTP => sumPairs ((neighboursOf ts x.2).map (btPair P.beta P.gamma ts.length x.1))
  | .TMF => sumPairs ((othersOf ts x.2).map
      (tmPair L (ofNat 1) P.beta P.kappa P.gamma ts.length x.1))
  | .TMP => sumPairs ((neighboursOf ts x.2).map
      (tmPair L (ofNat 2) P.beta P.kappa P.gamma ts.length x.1))

theorem fl1_omegaDelta_eq (K : Kind) (L : Leaves α) (P : Params α) (ts : List (TeamAgg α)) :
    omegaDelta K L P ts = ts.zipIdx.map (fl1_od K L P ts) := by
  cases K <;> rfl

theorem fl1_omegaDelta_length (K : Kind) (L : Leaves α) (P : Params α) (ts : List (TeamAgg α)) :
    (omegaDelta K L P ts).length = ts.length := by
  rw [fl1_omegaDelta_eq]; simp

theorem fl1_omegaDelta_getElem? (K : Kind) (L : Leaves α) (P : Params α) (ts : List (TeamAgg α))
    (i : Nat) :
    (omegaDelta K L P ts)[i]? = (ts[i]?).map (fun t => fl1_od K L P ts (t, i)) := by
  rw [fl1_omegaDelta_eq, List.getElem?_map, List.getElem?_zipIdx]
  cases ts[i]? <;> simp

theorem fl1_omegaDelta_getElem?_inv {K : Kind} {L : Leaves α} {P : Params α}
    {ts : List (TeamAgg α)} {i : Nat} {od : α × α} (h : (omegaDelta K L P ts)[i]? = some od) :
    ∃ ti, ts[i]? = some ti ∧ od = fl1_od K L P ts (ti, i) := by
  rw [fl1_omegaDelta_getElem?, Option.map_eq_some_iff] at h
  obtain ⟨ti, h1, h2⟩ := h
  exact ⟨ti, h1, h2.symm⟩

/-- **The computed divisors are strictly positive** — what C08 guarantees on the library's domain and what
no order law can give (`0 < a → 0 < a * a` fails by underflow):

* Plackett–Luce: `0 < c`, `0 < c * c`, and `0 < exp(μ_t / c)` for every team (hence `0 < sum_q[q]`);
* Bradley–Terry: `0 < c_iq` for every pair of teams;
* Thurstone–Mosteller: `0 < cmul * c_iq` for every pair of teams (`cmul` = 1 full, 2 partial pairing).

`MonoArith.fl1_divisorsPos_of_var_pos` derives the Bradley–Terry case from positive team variances, and
`0 < c` of the Plackett–Luce case from `0 < c * c` (`c` is a `sqrt`, hence `≥ 0`). -/
def DivisorsPos (K : Kind) (P : Params α) (ts : List (TeamAgg α)) : Prop :=
  match K with
  | .PL => 𝟘 < plC P.beta ts ∧ 𝟘 < plC P.beta ts * plC P.beta ts
      ∧ ∀ t ∈ ts, 𝟘 < exp (t.mu / plC P.beta ts)
  | .BTF => ∀ ti ∈ ts, ∀ tq ∈ ts, 𝟘 < sqrt (ti.sig2 + tq.sig2 + ofNat 2 * (P.beta * P.beta))
  | .BTP => ∀ ti ∈ ts, ∀ tq ∈ ts, 𝟘 < sqrt (ti.sig2 + tq.sig2 + ofNat 2 * (P.beta * P.beta))
  | .TMF => ∀ ti ∈ ts, ∀ tq ∈ ts,
      𝟘 < ofNat 1 * sqrt (ti.sig2 + tq.sig2 + ofNat 2 * (P.beta * P.beta))
  | .TMP => ∀ ti ∈ ts, ∀ tq ∈ ts,
      𝟘 < ofNat 2 * sqrt (ti.sig2 + tq.sig2 + ofNat 2 * (P.beta * P.beta))

/-- what is left of `DivisorsPos` once the team variances are known to be positive: nothing for
Bradley–Terry; the two underflow conditions for Plackett–Luce; everything for Thurstone–Mosteller -/
def DivisorsPosRest (K : Kind) (P : Params α) (ts : List (TeamAgg α)) : Prop :=
  match K with
  | .PL => 𝟘 < plC P.beta ts * plC P.beta ts ∧ ∀ t ∈ ts, 𝟘 < exp (t.mu / plC P.beta ts)
  | .BTF => True
  | .BTP => True
  | .TMF => DivisorsPos .TMF P ts
  | .TMP => DivisorsPos .TMP P ts

namespace MonoArith
variable (M : MonoArith α)
include M

theorem fl1_divisorsPos_of_var_pos (K : Kind) (P : Params α) (ts : List (TeamAgg α))
    (hv : ∀ t ∈ ts, 𝟘 < t.sig2) (hr : DivisorsPosRest K P ts) : DivisorsPos K P ts := by
  cases K with
  | PL =>
    -- `c = sqrt …  ≥ 0`; were `c ≤ 0`, the law `mul_nonpos_left'` would give `c * c ≤ 0`
    refine ⟨M.fl1_lt_of_not_le fun hle => ?_, hr.1, hr.2⟩
    exact M.lt_iff_not_le'.1 hr.1 (M.mul_nonpos_left' hle (M.sqrt_nonneg' _))
  | BTF =>
    intro ti hti tq htq
    exact M.fl1_ciq_pos _ ti tq (hv ti hti) (M.fl1_le_of_lt (hv tq htq))
  | BTP =>
    intro ti hti tq htq
    exact M.fl1_ciq_pos _ ti tq (hv ti hti) (M.fl1_le_of_lt (hv tq htq))
  | TMF => exact hr
  | TMP => exact hr

/-- **δ ≥ 0**, team by team, all five models -/
theorem fl1_od_snd_nonneg (K : Kind) (L : Leaves α) (P : Params α) (ts : List (TeamAgg α))
    (hL : K = .TMF ∨ K = .TMP → LeavesNonneg L) (hg : GammaNonneg P.gamma)
    (hts : ∀ t ∈ ts, 𝟘 ≤ t.sig2) (hd : DivisorsPos K P ts)
    (i : Nat) (ti : TeamAgg α) (hi : ts[i]? = some ti) :
    𝟘 ≤ (fl1_od K L P ts (ti, i)).2 := by
  have hti : ti ∈ ts := List.mem_of_getElem? hi
  have hn : 0 < ts.length := List.length_pos_of_mem hti
  cases K with
  | PL =>
    obtain ⟨h1, h2, h3⟩ := hd
    exact M.fl1_plOmegaDelta_snd_nonneg _ hg ts _ h1 h2 h3 i ti hti (hts _ hti)
  | BTF =>
    apply M.fl1_sumPairs_snd_nonneg
    intro y hy
    obtain ⟨tq, htq, rfl⟩ := List.mem_map.1 hy
    obtain ⟨j, _, hj⟩ := fl1_mem_othersOf htq
    exact M.fl1_btPair_snd_nonneg _ _ hg _ hn ti tq (hts _ hti)
      (hd ti hti tq (List.mem_of_getElem? hj))
  | BTP =>
    apply M.fl1_sumPairs_snd_nonneg
    intro y hy
    obtain ⟨tq, htq, rfl⟩ := List.mem_map.1 hy
    obtain ⟨j, _, hj⟩ := fl1_mem_neighboursOf htq
    exact M.fl1_btPair_snd_nonneg _ _ hg _ hn ti tq (hts _ hti)
      (hd ti hti tq (List.mem_of_getElem? hj))
  | TMF =>
    apply M.fl1_sumPairs_snd_nonneg
    intro y hy
    obtain ⟨tq, htq, rfl⟩ := List.mem_map.1 hy
    obtain ⟨j, _, hj⟩ := fl1_mem_othersOf htq
    exact M.fl1_tmPair_snd_nonneg L (hL (Or.inl rfl)) _ _ _ _ hg _ hn ti tq (hts _ hti)
      (hd ti hti tq (List.mem_of_getElem? hj))
  | TMP =>
    apply M.fl1_sumPairs_snd_nonneg
    intro y hy
    obtain ⟨tq, htq, rfl⟩ := List.mem_map.1 hy
    obtain ⟨j, _, hj⟩ := fl1_mem_neighboursOf htq
    exact M.fl1_tmPair_snd_nonneg L (hL (Or.inr rfl)) _ _ _ _ hg _ hn ti tq (hts _ hti)
      (hd ti hti tq (List.mem_of_getElem? hj))

/-- **ω ≥ 0 for a sole first team**, all five models -/
theorem fl1_od_fst_nonneg (K : Kind) (L : Leaves α) (P : Params α) (ts : List (TeamAgg α))
    (hL : K = .TMF ∨ K = .TMP → LeavesNonneg L)
    (hts : ∀ t ∈ ts, 𝟘 ≤ t.sig2) (hd : DivisorsPos K P ts)
    (i : Nat) (ti : TeamAgg α) (hi : ts[i]? = some ti)
    (hfirst : ∀ j tj, ts[j]? = some tj → j ≠ i → ti.rank < tj.rank) :
    𝟘 ≤ (fl1_od K L P ts (ti, i)).1 := by
  have hti : ti ∈ ts := List.mem_of_getElem? hi
  cases K with
  | PL =>
    obtain ⟨h1, _, h3⟩ := hd
    exact M.fl1_plOmegaDelta_fst_nonneg _ ts _ h1 h3 i ti hti (hts _ hti) hfirst
  | BTF =>
    apply M.fl1_sumPairs_fst_nonneg
    intro y hy
    obtain ⟨tq, htq, rfl⟩ := List.mem_map.1 hy
    obtain ⟨j, hne, hj⟩ := fl1_mem_othersOf htq
    exact M.fl1_btPair_fst_nonneg _ _ _ ti tq (hfirst j tq hj hne) (hts _ hti)
      (hd ti hti tq (List.mem_of_getElem? hj))
  | BTP =>
    apply M.fl1_sumPairs_fst_nonneg
    intro y hy
    obtain ⟨tq, htq, rfl⟩ := List.mem_map.1 hy
    obtain ⟨j, hne, hj⟩ := fl1_mem_neighboursOf htq
    exact M.fl1_btPair_fst_nonneg _ _ _ ti tq (hfirst j tq hj hne) (hts _ hti)
      (hd ti hti tq (List.mem_of_getElem? hj))
  | TMF =>
    apply M.fl1_sumPairs_fst_nonneg
    intro y hy
    obtain ⟨tq, htq, rfl⟩ := List.mem_map.1 hy
    obtain ⟨j, hne, hj⟩ := fl1_mem_othersOf htq
    exact M.fl1_tmPair_fst_nonneg L (hL (Or.inl rfl)) _ _ _ _ _ ti tq (hfirst j tq hj hne)
      (hts _ hti) (hd ti hti tq (List.mem_of_getElem? hj))
  | TMP =>
    apply M.fl1_sumPairs_fst_nonneg
    intro y hy
    obtain ⟨tq, htq, rfl⟩ := List.mem_map.1 hy
    obtain ⟨j, hne, hj⟩ := fl1_mem_neighboursOf htq
    exact M.fl1_tmPair_fst_nonneg L (hL (Or.inr rfl)) _ _ _ _ _ ti tq (hfirst j tq hj hne)
      (hts _ hti) (hd ti hti tq (List.mem_of_getElem? hj))

/-- **ω ≤ 0 for a sole last team**, all five models -/
theorem fl1_od_fst_nonpos (K : Kind) (L : Leaves α) (P : Params α) (ts : List (TeamAgg α))
    (hL : K = .TMF ∨ K = .TMP → LeavesNonneg L)
    (hts : ∀ t ∈ ts, 𝟘 ≤ t.sig2) (hd : DivisorsPos K P ts)
    (i : Nat) (ti : TeamAgg α) (hi : ts[i]? = some ti)
    (hlast : ∀ j tj, ts[j]? = some tj → j ≠ i → tj.rank < ti.rank) :
    (fl1_od K L P ts (ti, i)).1 ≤ 𝟘 := by
  have hti : ti ∈ ts := List.mem_of_getElem? hi
  cases K with
  | PL =>
    obtain ⟨h1, _, h3⟩ := hd
    exact M.fl1_plOmegaDelta_fst_nonpos _ ts _ h1 h3 i ti hi (hts _ hti) hlast
  | BTF =>
    apply M.fl1_sumPairs_fst_nonpos
    intro y hy
    obtain ⟨tq, htq, rfl⟩ := List.mem_map.1 hy
    obtain ⟨j, hne, hj⟩ := fl1_mem_othersOf htq
    exact M.fl1_btPair_fst_nonpos _ _ _ ti tq (hlast j tq hj hne) (hts _ hti)
      (hd ti hti tq (List.mem_of_getElem? hj))
  | BTP =>
    apply M.fl1_sumPairs_fst_nonpos
    intro y hy
    obtain ⟨tq, htq, rfl⟩ := List.mem_map.1 hy
    obtain ⟨j, hne, hj⟩ := fl1_mem_neighboursOf htq
    exact M.fl1_btPair_fst_nonpos _ _ _ ti tq (hlast j tq hj hne) (hts _ hti)
      (hd ti hti tq (List.mem_of_getElem? hj))
  | TMF =>
    apply M.fl1_sumPairs_fst_nonpos
    intro y hy
    obtain ⟨tq, htq, rfl⟩ := List.mem_map.1 hy
    obtain ⟨j, hne, hj⟩ := fl1_mem_othersOf htq
    exact M.fl1_tmPair_fst_nonpos L (hL (Or.inl rfl)) _ _ _ _ _ ti tq (hlast j tq hj hne)
      (hts _ hti) (hd ti hti tq (List.mem_of_getElem? hj))
  | TMP =>
    apply M.fl1_sumPairs_fst_nonpos
    intro y hy
    obtain ⟨tq, htq, rfl⟩ := List.mem_map.1 hy
    obtain ⟨j, hne, hj⟩ := fl1_mem_neighboursOf htq
    exact M.fl1_tmPair_fst_nonpos L (hL (Or.inr rfl)) _ _ _ _ _ ti tq (hlast j tq hj hne)
      (hts _ hti) (hd ti hti tq (List.mem_of_getElem? hj))

end MonoArith

/-! ### `compute`, slot by slot -/

theorem fl1_compute_getElem? (K : Kind) (L : Leaves α) (P : Params α)
    (teams : List (List (Rating α))) (dense : List Nat) (i : Nat) {T : List (Rating α)} {d : Nat}
    (hT : teams[i]? = some T) (hd : dense[i]? = some d) :
    (compute K L P teams dense)[i]? = some (applyTeam P.kappa (teamAgg T d)
      (fl1_od K L P (teamAggs teams dense) (teamAgg T d, i)).1
      (fl1_od K L P (teamAggs teams dense) (teamAgg T d, i)).2) := by
  have h1 := fl1_teamAggs_getElem? teams dense i hT hd
  have h2 : (omegaDelta K L P (teamAggs teams dense))[i]?
      = some (fl1_od K L P (teamAggs teams dense) (teamAgg T d, i)) := by
    rw [fl1_omegaDelta_getElem?, h1]; rfl
  have h3 : ((teamAggs teams dense).zip (omegaDelta K L P (teamAggs teams dense)))[i]?
      = some (teamAgg T d, fl1_od K L P (teamAggs teams dense) (teamAgg T d, i)) :=
    List.getElem?_zip_eq_some.2 ⟨h1, h2⟩
  simp only [compute, List.getElem?_map, h3, Option.map_some]

theorem fl1_compute_length (K : Kind) (L : Leaves α) (P : Params α)
    (teams : List (List (Rating α))) (dense : List Nat) :
    (compute K L P teams dense).length = min teams.length dense.length := by
  simp [compute, fl1_omegaDelta_length, fl1_teamAggs_length]

/-- a relation that holds between every team and its `applyTeam` image holds slot-wise between
the teams and `compute` -/
theorem fl1_compute_forall₂ (K : Kind) (L : Leaves α) (P : Params α)
    (teams : List (List (Rating α))) (dense : List Nat) (hlen : teams.length ≤ dense.length)
    (R : List (Rating α) → List (Rating α) → Prop)
    (h : ∀ i T d, teams[i]? = some T → dense[i]? = some d →
      R T (applyTeam P.kappa (teamAgg T d)
        (fl1_od K L P (teamAggs teams dense) (teamAgg T d, i)).1
        (fl1_od K L P (teamAggs teams dense) (teamAgg T d, i)).2)) :
    List.Forall₂ R teams (compute K L P teams dense) := by
  apply List.forall₂_of_length_eq_of_get
  · rw [fl1_compute_length]; omega
  · intro i h1 h2
    have hd : i < dense.length := by omega
    have hT' : teams[i]? = some teams[i] := List.getElem?_eq_getElem h1
    have hd' : dense[i]? = some dense[i] := List.getElem?_eq_getElem hd
    have h3 := fl1_compute_getElem? K L P teams dense i hT' hd'
    have h4 := (List.getElem?_eq_some_iff.1 h3).2
    simp only [List.get_eq_getElem]
    rw [h4]
    exact h i _ _ hT' hd'

/-! ### sort, compute, unsort: the slot correspondence (scalar-free) -/

theorem fl1_mem_unwind_fst {κ β : Type} (le : κ → κ → Bool) (tenet : List κ) (objs : List β)
    {x : β} (h : x ∈ (unwind le tenet objs).1) : x ∈ objs := by
  simp only [unwind, sortByKey] at h
  obtain ⟨y, hy, rfl⟩ := List.mem_map.1 h
  rw [List.mem_mergeSort] at hy
  obtain ⟨k, b, i⟩ := y
  exact List.fst_mem_of_mem_zipIdx (List.of_mem_zip hy).2

theorem fl1_unsort_forall₂ {β γ : Type} (objs : List β) (P : List (β × Nat))
    (hP : P.Perm objs.zipIdx)
    (R : β → γ → Prop) (C : List γ) (hC : List.Forall₂ R (P.map (·.1)) C) :
    List.Forall₂ R objs (unwind leNat (P.map (·.2)) C).1 := by
  have hPlen : P.length = objs.length := by simpa using hP.length_eq
  have hClen : C.length = objs.length := by have := hC.length_eq; simp at this; omega
  obtain ⟨_, hCget⟩ := List.forall₂_iff_get.1 hC
  simp only [unwind, sortByKey]
  generalize hQ : (P.map (·.2)).zip C.zipIdx = Q
  generalize hs2 : Q.mergeSort (fun a b => leNat a.1 b.1) = s2
  have hperm : s2.Perm Q := hs2 ▸ List.mergeSort_perm _ _
  have hQlen : Q.length = objs.length := by subst hQ; simp; omega
  have hslen : s2.length = objs.length := by rw [hperm.length_eq, hQlen]
  have ha : ∀ z ∈ s2, ∃ b, objs[z.1]? = some b ∧ R b z.2.1 := by
    intro z hz
    have hz' : z ∈ Q := hperm.subset hz
    obtain ⟨k, hk, rfl⟩ := List.mem_iff_getElem.1 hz'
    have hk' : k < P.length := by omega
    have hkC : k < C.length := by omega
    refine ⟨P[k].1, ?_, ?_⟩
    · have h1 : P[k] ∈ objs.zipIdx := hP.subset (List.getElem_mem _)
      have h2 := List.mem_zipIdx_iff_getElem?.1 h1
      subst hQ
      simpa using h2
    · have h3 := hCget k (by simpa using hk') hkC
      subst hQ
      simpa using h3
  have hkeys : s2.map (·.1) = List.range objs.length := by
    apply List.Perm.eq_of_pairwise (le := (· ≤ ·))
    · intro a b _ _ h1 h2; exact Nat.le_antisymm h1 h2
    · rw [List.pairwise_map, ← hs2]
      have := List.pairwise_mergeSort (le := fun a b : Nat × γ × Nat => leNat a.1 b.1)
        (by intro a b c; simp only [leNat, decide_eq_true_eq]; omega)
        (by intro a b; simp only [leNat, Bool.or_eq_true, decide_eq_true_eq]; omega) Q
      exact this.imp (by intro a b h; simpa [leNat] using h)
    · exact List.pairwise_le_range
    · have e1 : Q.map (·.1) = P.map (·.2) := by
        subst hQ; exact List.map_fst_zip (by simp; omega)
      have e2 : objs.zipIdx.map (·.2) = List.range objs.length := by
        simp [List.range_eq_range']
      have := (hperm.map (fun x : Nat × γ × Nat => x.1)).trans
        (e1 ▸ (hP.map (fun x : β × Nat => x.2)))
      rwa [e2] at this
  apply List.forall₂_of_length_eq_of_get
  · simp [hslen]
  · intro i h1 h2
    have hi : i < s2.length := by omega
    have hki : s2[i].1 = i := by
      have := congrArg (fun l => l[i]?) hkeys
      simpa [hi, h1] using this
    obtain ⟨b, hb1, hb2⟩ := ha s2[i] (List.getElem_mem _)
    rw [hki, List.getElem?_eq_getElem h1] at hb1
    simp only [List.get_eq_getElem, List.getElem_map]
    rw [Option.some.inj hb1]
    exact hb2

/-- any slot-wise relation between the *sorted* input and a list computed from it holds slot-wise
between the *original* input and the un-sorted list -/
theorem fl1_unwind_forall₂ {κ β γ : Type} (le : κ → κ → Bool) (tenet : List κ) (objs : List β)
    (hlen : objs.length ≤ tenet.length) (R : β → γ → Prop) (C : List γ)
    (hC : List.Forall₂ R (unwind le tenet objs).1 C) :
    List.Forall₂ R objs (unwind leNat (unwind le tenet objs).2 C).1 := by
  have hP : ((sortByKey le (tenet.zip objs.zipIdx)).map (·.2)).Perm objs.zipIdx := by
    have h1 := (List.mergeSort_perm (tenet.zip objs.zipIdx) (fun a b => le a.1 b.1)).map
      (fun x : κ × β × Nat => x.2)
    have h2 : (tenet.zip objs.zipIdx).map (fun x : κ × β × Nat => x.2) = objs.zipIdx :=
      List.map_snd_zip (by simpa using hlen)
    rw [h2] at h1
    exact h1
  have h3 := fl1_unsort_forall₂ objs _ hP R C
    (by simpa [unwind, List.map_map, Function.comp_def] using hC)
  simpa [unwind, List.map_map, Function.comp_def] using h3

theorem fl1_unwind_fst_length {κ β : Type} (le : κ → κ → Bool) (tenet : List κ) (objs : List β)
    (hlen : objs.length ≤ tenet.length) : (unwind le tenet objs).1.length = objs.length := by
  simp [unwind, sortByKey]; omega

/-! ### the clamp -/

/-- the limit_sigma clamp of one player: `q` is the new rating, `p` the deep-copied original -/
def fl1_clampP (q p : Rating α) : Rating α :=
  if q.sigma ≤ p.sigma then q else { q with sigma := p.sigma }

theorem fl1_clampTeams_eq_zipWith (orig res : List (List (Rating α))) :
    clampTeams orig res = List.zipWith (List.zipWith fl1_clampP) res orig := by
  simp only [clampTeams, List.zip_eq_zipWith, List.map_zipWith]
  rfl

@[simp] theorem fl1_clampP_id (q p : Rating α) : (fl1_clampP q p).id = q.id := by
  unfold fl1_clampP; split <;> rfl

@[simp] theorem fl1_clampP_mu (q p : Rating α) : (fl1_clampP q p).mu = q.mu := by
  unfold fl1_clampP; split <;> rfl

theorem fl1_clampP_sigma_cases (q p : Rating α) :
    (q.sigma ≤ p.sigma ∧ (fl1_clampP q p).sigma = q.sigma)
      ∨ (¬ q.sigma ≤ p.sigma ∧ (fl1_clampP q p).sigma = p.sigma) := by
  unfold fl1_clampP; split
  · next h => exact Or.inl ⟨h, rfl⟩
  · next h => exact Or.inr ⟨h, rfl⟩

theorem MonoArith.fl1_clampP_sigma_le_orig (M : MonoArith α) (q p : Rating α) :
    (fl1_clampP q p).sigma ≤ p.sigma := by
  rcases fl1_clampP_sigma_cases q p with ⟨h, e⟩ | ⟨_, e⟩
  · rw [e]; exact h
  · rw [e]; exact M.le_refl' _

theorem MonoArith.fl1_clampP_sigma_le_res (M : MonoArith α) (q p : Rating α) :
    (fl1_clampP q p).sigma ≤ q.sigma := by
  rcases fl1_clampP_sigma_cases q p with ⟨_, e⟩ | ⟨h, e⟩
  · rw [e]; exact M.le_refl' _
  · rw [e]; exact M.fl1_le_of_lt (M.fl1_lt_of_not_le h)

theorem fl1_forall₂_zipWith_right {β γ δ : Type} {A : β → γ → Prop} (f : γ → β → δ)
    {l₁ : List β} {l₂ : List γ} (h : List.Forall₂ A l₁ l₂) :
    List.Forall₂ (fun a c => ∃ b, A a b ∧ c = f b a) l₁ (List.zipWith f l₂ l₁) := by
  induction h with
  | nil => exact List.Forall₂.nil
  | cons hab _ ih => exact List.Forall₂.cons ⟨_, hab, rfl⟩ ih

/-! ### inflation -/

/-- the tau-inflation of one player -/
def fl1_inflP (tau : α) (p : Rating α) : Rating α :=
  { p with sigma := sqrt (p.sigma * p.sigma + tau * tau) }

theorem fl1_inflate_eq_map (tau : α) (teams : List (List (Rating α))) :
    inflate tau teams = teams.map (·.map (fl1_inflP tau)) := rfl

end OS
