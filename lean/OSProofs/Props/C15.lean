import OSModel
/-!
# C15 — per-call tau / limit_sigma mean exactly what the model-level setting means

Generic over the scalar type: these hold for the `Float` instantiation the driver runs as
well as for ℝ.  (Before the repairs F2/F3 the code resolved `tau` by truthiness and wrote
`limit_sigma` into the model; the model mirrors the repaired code.)
-/
namespace OS
variable {α ρ : Type} [Scalar α]

/-- `_compute` reads beta, kappa and gamma only -/
theorem compute_congr (K : Kind) (L : Leaves α) (P P' : Params α)
    (hb : P'.beta = P.beta) (hk : P'.kappa = P.kappa) (hg : P'.gamma = P.gamma) :
    compute K L P' = compute K L P := by
  funext teams dense
  cases K <;> simp [compute, omegaDelta, hb, hk, hg]

theorem rateCore_tau (K : Kind) (L : Leaves α) (P : Params α) (le : ρ → ρ → Bool)
    (teams : List (List (Rating α))) (r : Option (List ρ)) (t : α) (ls : Option Bool) :
    rateCore K L P le teams r { tau := some t, limitSigma := ls }
      = rateCore K L { P with tau := t } le teams r { tau := none, limitSigma := ls } := by
  unfold rateCore
  rw [compute_congr K L { P with tau := t } P rfl rfl rfl]
  rfl

theorem rateCore_limit (K : Kind) (L : Leaves α) (P : Params α) (le : ρ → ρ → Bool)
    (teams : List (List (Rating α))) (r : Option (List ρ)) (b : Bool) (t : Option α) :
    rateCore K L P le teams r { tau := t, limitSigma := some b }
      = rateCore K L { P with limitSigma := b } le teams r { tau := t, limitSigma := none } := by
  unfold rateCore
  rw [compute_congr K L { P with limitSigma := b } P rfl rfl rfl]
  rfl

/-- rate(..., tau = t) on any model = the model constructed with tau = t, for EVERY t (0 included) -/
theorem C15_tau (K : Kind) (L : Leaves α) (P : Params α) (le : ρ → ρ → Bool) (neg : ρ → ρ)
    (teams : List (List (Rating α))) (oc : Outcome ρ) (t : α) (ls : Option Bool) :
    rate K L P le neg teams oc { tau := some t, limitSigma := ls }
      = rate K L { P with tau := t } le neg teams oc { tau := none, limitSigma := ls } := by
  cases oc <;> (simp only [rate]; exact rateCore_tau K L P le teams _ t ls)

/-- rate(..., limit_sigma = b) = the model constructed with limit_sigma = b, for both Booleans -/
theorem C15_limit_sigma (K : Kind) (L : Leaves α) (P : Params α) (le : ρ → ρ → Bool) (neg : ρ → ρ)
    (teams : List (List (Rating α))) (oc : Outcome ρ) (b : Bool) (t : Option α) :
    rate K L P le neg teams oc { tau := t, limitSigma := some b }
      = rate K L { P with limitSigma := b } le neg teams oc { tau := t, limitSigma := none } := by
  cases oc <;> (simp only [rate]; exact rateCore_limit K L P le teams _ b t)

/-- omitting both arguments uses the model's own settings -/
theorem C15_omitted (K : Kind) (L : Leaves α) (P : Params α) (le : ρ → ρ → Bool) (neg : ρ → ρ)
    (teams : List (List (Rating α))) (oc : Outcome ρ) :
    rate K L P le neg teams oc { tau := none, limitSigma := none }
      = rate K L P le neg teams oc { tau := some P.tau, limitSigma := some P.limitSigma } := by
  cases oc <;> rfl

/-- both at once -/
theorem C15_both (K : Kind) (L : Leaves α) (P : Params α) (le : ρ → ρ → Bool) (neg : ρ → ρ)
    (teams : List (List (Rating α))) (oc : Outcome ρ) (t : α) (b : Bool) :
    rate K L P le neg teams oc { tau := some t, limitSigma := some b }
      = rate K L { P with tau := t, limitSigma := b } le neg teams oc { tau := none, limitSigma := none } := by
  rw [C15_tau, C15_limit_sigma]

omit [Scalar α] in
/-- the resolution itself: "is not None" semantics — a present value is used whatever it is -/
theorem resolveTau_some (P : Params α) (t : α) (ls : Option Bool) :
    resolveTau P { tau := some t, limitSigma := ls } = t := rfl

omit [Scalar α] in
theorem resolveLimit_some (P : Params α) (b : Bool) (t : Option α) :
    resolveLimit P { tau := t, limitSigma := some b } = b := rfl

end OS
