import OSModel
import OSProofs.SortLemmas
import OSProofs.C02Lemmas
/-!
# C02 — `rate` returns the players position by position

Whatever the ranks are, and however they permute the teams for the computation, the list
returned by `rate` has the nesting of the input, slot `[i][j]` of the output is the update
of slot `[i][j]` of the input (same id), computed from team `i`'s own aggregate, omega and
delta, and the `limit_sigma` clamp compares slot `[i][j]` with the prior of slot `[i][j]`.

Generic over the scalar type (holds for the `Float` instance the driver runs and for ℝ), and
**no hypothesis on the rank comparison `le`** is used anywhere: the sort / unsort round trip
(`OSProofs/SortLemmas.lean`) is an identity on positions for every comparator.
-/
namespace OS
open Scalar
variable {α ρ : Type} [Scalar α]

/-- the ids of a game, in the nesting of the game -/
def idsOf (ts : List (List (Rating α))) : List (List Nat) := ts.map (·.map (·.id))

/-! ### the pieces -/

theorem idsOf_zipWith_updTeam (kappa : α) (teams : List (List (Rating α)))
    (w : List (Nat × α × α)) (hw : w.length = teams.length) :
    idsOf (List.zipWith (updTeam kappa) teams w) = idsOf teams := by
  induction teams generalizing w with
  | nil => simp [idsOf]
  | cons t ts ih =>
    cases w with
    | nil => simp at hw
    | cons x w =>
      have := ih w (by simpa using hw)
      simp only [idsOf] at this
      simp only [idsOf, List.zipWith_cons_cons, List.map_cons, updTeam_ids, this]

/-- Updating every team from per-team data (one rank and one (omega, delta) per team) keeps
    the nesting and every id in its slot. -/
theorem applyAll_ids (kappa : α) (teams : List (List (Rating α))) (ds : List Nat)
    (od : List (α × α)) (hds : ds.length = teams.length) (hod : od.length = teams.length) :
    idsOf (((teamAggs teams ds).zip od).map (fun x => applyTeam kappa x.1 x.2.1 x.2.2))
      = idsOf teams := by
  rw [applyAll_eq_zipWith]
  apply idsOf_zipWith_updTeam
  rw [List.length_zip, hds, hod, Nat.min_self]

/-- `_compute` (any of the five models) returns the same nesting with the same id in every
    slot, provided it is given one dense rank per team. -/
theorem compute_ids (K : Kind) (L : Leaves α) (P : Params α)
    (teams : List (List (Rating α))) (dense : List Nat) (hd : dense.length = teams.length) :
    idsOf (compute K L P teams dense) = idsOf teams := by
  unfold compute
  apply applyAll_ids _ _ _ _ hd
  rw [omegaDelta_length, teamAggs_length, hd, Nat.min_self]

/-- the tau inflation keeps the nesting and every id in its slot -/
theorem inflate_ids (tau : α) (teams : List (List (Rating α))) :
    idsOf (inflate tau teams) = idsOf teams := by
  simp [idsOf, inflate]

/-- the `limit_sigma` clamp keeps the nesting and every id in its slot (when the result it is
    applied to has the nesting and ids of the original) -/
theorem clampTeams_ids (orig res : List (List (Rating α))) (h : idsOf res = idsOf orig) :
    idsOf (clampTeams orig res) = idsOf orig := by
  rw [← h]
  induction res generalizing orig with
  | nil => simp [idsOf, clampTeams]
  | cons a res ih =>
    cases orig with
    | nil => simp [idsOf] at h
    | cons b orig =>
      simp only [idsOf, List.map_cons, List.cons.injEq] at h
      have hl : a.length = b.length := by simpa using congrArg List.length h.1
      have := ih orig h.2
      simp only [idsOf, clampTeams] at this
      simp only [idsOf, clampTeams, List.zip_cons_cons, List.map_cons, this,
        clampTeam_ids a b hl]

/-! ### C02 for `rateCore` -/

/-- **Ranked call, explicit form** (no clamp).  Write `u` for the first `_unwind` (teams in
    rank order `u.1`, their original indices `u.2`), `dense` for the dense ranks and `od'` for
    the (omega, delta) pairs `_compute` derives in rank order.  The returned list is, team by
    team and in the ORIGINAL order, the per-player update of the tau-inflated input team with
    the dense rank and (omega, delta) that the second `_unwind` carries back to that team's
    position (by `unwind_by_perm`: position `u.2[k]` receives entry `k`, the one computed for
    the team that came from position `u.2[k]`). -/
theorem C02_team_update_some (K : Kind) (L : Leaves α) (P : Params α) (le : ρ → ρ → Bool)
    (teams : List (List (Rating α))) (r : List ρ) (o : CallOpts α)
    (hlen : r.length = teams.length) (hlim : resolveLimit P o = false) :
    let infl := inflate (resolveTau P o) teams
    let u := unwind le r infl
    let dense := denseRanks (fun a b => !le b a) (sortedKeys le r)
    let od' := omegaDelta K L P (teamAggs u.1 dense)
    rateCore K L P le teams (some r) o
      = ((teamAggs infl (unwind leNat u.2 dense).1).zip (unwind leNat u.2 od').1).map
          (fun x => applyTeam P.kappa x.1 x.2.1 x.2.2) := by
  intro infl u dense od'
  have hrl : r.length = infl.length := by simp [infl, inflate, hlen]
  have hdl : dense.length = infl.length := by
    rw [denseRanks_length, sortedKeys_length, hrl]
  have hul : (u.1).length = infl.length := by
    rw [unwind_fst_length, hrl, Nat.min_self]
  have hodl : od'.length = infl.length := by
    rw [omegaDelta_length, teamAggs_length, hul, hdl, Nat.min_self]
  have hzl : (dense.zip od').length = infl.length := by
    rw [List.length_zip, hdl, hodl, Nat.min_self]
  have h1 : rateCore K L P le teams (some r) o
      = (unwind leNat u.2 (((teamAggs u.1 dense).zip od').map
          (fun x => applyTeam P.kappa x.1 x.2.1 x.2.2))).1 := by
    unfold rateCore
    simp only [hlim, Bool.false_eq_true, if_false]
    rfl
  rw [h1, applyAll_eq_zipWith, applyAll_eq_zipWith,
    unwind_roundtrip_zip le r infl _ _ hrl hzl]
  congr 1
  exact List.zip_of_prod (unwind_zip_fst _ _ _ _ (by omega)) (unwind_zip_snd _ _ _ _ (by omega))

/-- **No player is dropped, duplicated or moved** (no clamp).  There are per-team data — one
    dense rank `ds[i]` and one pair `od[i] = (omega, delta)` per team — such that the returned
    list is, team by team and in the ORIGINAL order, the per-player update (`applyTeam`) of
    the tau-inflated input team `i` with team `i`'s own data: member `j` of returned team `i`
    is computed from member `j` of input team `i`.  Holds for omitted ranks and for any rank
    list of the right length, whatever the rank values and the comparison `le` are. -/
theorem C02_team_update (K : Kind) (L : Leaves α) (P : Params α) (le : ρ → ρ → Bool)
    (teams : List (List (Rating α))) (ranks : Option (List ρ)) (o : CallOpts α)
    (hr : ∀ r, ranks = some r → r.length = teams.length)
    (hlim : resolveLimit P o = false) :
    ∃ (ds : List Nat) (od : List (α × α)),
      ds.length = teams.length ∧ od.length = teams.length ∧
      rateCore K L P le teams ranks o
        = ((teamAggs (inflate (resolveTau P o) teams) ds).zip od).map
            (fun x => applyTeam P.kappa x.1 x.2.1 x.2.2) := by
  have hil : (inflate (resolveTau P o) teams).length = teams.length := by simp [inflate]
  cases ranks with
  | none =>
    refine ⟨List.range teams.length,
      omegaDelta K L P (teamAggs (inflate (resolveTau P o) teams) (List.range teams.length)),
      List.length_range, ?_, ?_⟩
    · rw [omegaDelta_length, teamAggs_length, hil, List.length_range, Nat.min_self]
    · unfold rateCore
      simp only [hlim, Bool.false_eq_true, if_false, compute, hil]
  | some r =>
    have hrl : r.length = (inflate (resolveTau P o) teams).length := by
      rw [hil]; exact hr r rfl
    have hul : ((unwind le r (inflate (resolveTau P o) teams)).2).length = teams.length := by
      rw [unwind_snd_length, hrl, Nat.min_self, hil]
    have hul1 : ((unwind le r (inflate (resolveTau P o) teams)).1).length = teams.length := by
      rw [unwind_fst_length, hrl, Nat.min_self, hil]
    refine ⟨_, _, ?_, ?_, C02_team_update_some K L P le teams r o (hr r rfl) hlim⟩
    · rw [unwind_fst_length, hul, denseRanks_length, sortedKeys_length, hr r rfl, Nat.min_self]
    · rw [unwind_fst_length, hul, omegaDelta_length, teamAggs_length, hul1, denseRanks_length,
        sortedKeys_length, hr r rfl, Nat.min_self, Nat.min_self]

/-- **The clamp is slot by slot.**  With `limit_sigma` in force the result is the unclamped
    result (same call with `limit_sigma = False`) clamped against the ORIGINAL teams in the
    original order: `clampTeams` compares slot `[i][j]` with the prior of slot `[i][j]`. -/
theorem C02_clamp_slot (K : Kind) (L : Leaves α) (P : Params α) (le : ρ → ρ → Bool)
    (teams : List (List (Rating α))) (ranks : Option (List ρ)) (o : CallOpts α)
    (hlim : resolveLimit P o = true) :
    rateCore K L P le teams ranks o
      = clampTeams teams (rateCore K L P le teams ranks { o with limitSigma := some false }) := by
  have h1 : resolveTau P { o with limitSigma := some false } = resolveTau P o := rfl
  have h2 : resolveLimit P { o with limitSigma := some false } = false := rfl
  unfold rateCore
  simp only [hlim, h1, h2, if_true, Bool.false_eq_true, if_false]

/-- **Same nesting, same id in every slot** for `rateCore`: omitted ranks, or any rank list
    with one entry per team — whatever the rank values are and however they permute the teams
    (no hypothesis on `le`), with or without the `limit_sigma` clamp, for every tau. -/
theorem C02_ids_rateCore (K : Kind) (L : Leaves α) (P : Params α) (le : ρ → ρ → Bool)
    (teams : List (List (Rating α))) (ranks : Option (List ρ)) (o : CallOpts α)
    (hr : ∀ r, ranks = some r → r.length = teams.length) :
    idsOf (rateCore K L P le teams ranks o) = idsOf teams := by
  have noclamp : ∀ o' : CallOpts α, resolveLimit P o' = false →
      idsOf (rateCore K L P le teams ranks o') = idsOf teams := by
    intro o' h
    obtain ⟨ds, od, hds, hod, heq⟩ := C02_team_update K L P le teams ranks o' hr h
    have hil : (inflate (resolveTau P o') teams).length = teams.length := by simp [inflate]
    rw [heq, applyAll_ids _ _ _ _ (hds.trans hil.symm) (hod.trans hil.symm), inflate_ids]
  cases hlim : resolveLimit P o with
  | false => exact noclamp o hlim
  | true =>
    rw [C02_clamp_slot K L P le teams ranks o hlim]
    exact clampTeams_ids _ _ (noclamp _ rfl)

/-- `C02_ids_rateCore` with the ranks omitted -/
theorem C02_ids_rateCore_none (K : Kind) (L : Leaves α) (P : Params α) (le : ρ → ρ → Bool)
    (teams : List (List (Rating α))) (o : CallOpts α) :
    idsOf (rateCore K L P le teams none o) = idsOf teams :=
  C02_ids_rateCore K L P le teams none o (fun _ h => nomatch h)

/-- `C02_ids_rateCore` with a rank list of the right length -/
theorem C02_ids_rateCore_some (K : Kind) (L : Leaves α) (P : Params α) (le : ρ → ρ → Bool)
    (teams : List (List (Rating α))) (r : List ρ) (o : CallOpts α)
    (hlen : r.length = teams.length) :
    idsOf (rateCore K L P le teams (some r) o) = idsOf teams :=
  C02_ids_rateCore K L P le teams (some r) o (fun _ h => by cases h; exact hlen)

/-! ### C02 for `rate` -/

/-- what validation guarantees about the outcome argument: one rank / score per team -/
def Outcome.fits (oc : Outcome ρ) (n : Nat) : Prop :=
  match oc with
  | .omitted => True
  | .ranks r => r.length = n
  | .scores s => s.length = n

/-- **C02 for `rate`**: outcome omitted, ranks, or scores (negated into ranks by any `neg`):
    the returned game has the nesting of the input and the same id in every slot. -/
theorem C02_ids_rate (K : Kind) (L : Leaves α) (P : Params α) (le : ρ → ρ → Bool)
    (neg : ρ → ρ) (teams : List (List (Rating α))) (oc : Outcome ρ) (o : CallOpts α)
    (hoc : oc.fits teams.length) :
    idsOf (rate K L P le neg teams oc o) = idsOf teams := by
  cases oc with
  | omitted => exact C02_ids_rateCore_none K L P le teams o
  | ranks r => exact C02_ids_rateCore_some K L P le teams r o hoc
  | scores s =>
    exact C02_ids_rateCore_some K L P le teams (s.map neg) o (by rw [List.length_map]; exact hoc)

/-- `C02_team_update` for `rate` (all three outcome forms, no clamp) -/
theorem C02_team_update_rate (K : Kind) (L : Leaves α) (P : Params α) (le : ρ → ρ → Bool)
    (neg : ρ → ρ) (teams : List (List (Rating α))) (oc : Outcome ρ) (o : CallOpts α)
    (hoc : oc.fits teams.length) (hlim : resolveLimit P o = false) :
    ∃ (ds : List Nat) (od : List (α × α)),
      ds.length = teams.length ∧ od.length = teams.length ∧
      rate K L P le neg teams oc o
        = ((teamAggs (inflate (resolveTau P o) teams) ds).zip od).map
            (fun x => applyTeam P.kappa x.1 x.2.1 x.2.2) := by
  cases oc with
  | omitted => exact C02_team_update K L P le teams none o (fun _ h => nomatch h) hlim
  | ranks r => exact C02_team_update K L P le teams (some r) o (fun _ h => by cases h; exact hoc) hlim
  | scores s =>
    exact C02_team_update K L P le teams (some (s.map neg)) o
      (fun _ h => by cases h; rw [List.length_map]; exact hoc) hlim

/-! ### the hypotheses are satisfiable -/

/-- a three-team game (teams of 1, 2 and 1 players) with three rank values: the ids come
    back in their slots for every model, comparison, rank values and options -/
example (K : Kind) (L : Leaves α) (P : Params α) (le : ρ → ρ → Bool) (neg : ρ → ρ)
    (a b c d : Rating α) (r₁ r₂ r₃ : ρ) (o : CallOpts α) :
    idsOf (rate K L P le neg [[a], [b, c], [d]] (.ranks [r₁, r₂, r₃]) o)
      = [[a.id], [b.id, c.id], [d.id]] :=
  C02_ids_rate K L P le neg [[a], [b, c], [d]] (.ranks [r₁, r₂, r₃]) o rfl

example (s₁ s₂ : ρ) : (Outcome.scores [s₁, s₂]).fits 2 := rfl
example : (Outcome.omitted : Outcome ρ).fits 5 := trivial

end OS
