#!/usr/bin/env python3
"""verify and ingest mutants produced by the independent testers:
   ingest_mutants.py Cxx   -> checks /tmp/mut-Cxx/patch_{a,b,c}.diff + demo_{a,b,c}.py in a scratch worktree"""
import json, os, shutil, subprocess, sys, tempfile
prop = sys.argv[1]
src = sys.argv[2] if len(sys.argv) > 2 else "/tmp/mut-" + prop
letters = sys.argv[3] if len(sys.argv) > 3 else "abc"
for x in letters:
    patch, demo = f"{src}/patch_{x}.diff", f"{src}/demo_{x}.py"
    if not (os.path.exists(patch) and os.path.exists(demo)) or os.path.getsize(patch) == 0:
        continue
    wt = tempfile.mkdtemp(prefix="ingest-wt-"); os.rmdir(wt)
    subprocess.run(["git", "-C", "/repo", "worktree", "add", "-q", "--detach", wt, "HEAD"], check=True)
    try:
        shutil.copy(demo, wt + "/demo.py")
        clean = subprocess.run(["/venv/bin/python", "demo.py"], cwd=wt, stdout=subprocess.PIPE, stderr=subprocess.STDOUT, timeout=600)
        ap = subprocess.run(["git", "-C", wt, "apply", patch])
        if ap.returncode != 0:
            print(prop, x, "PATCH DOES NOT APPLY"); continue
        t = subprocess.run(["/venv/bin/python", "-m", "pytest", "-q", "-p", "no:cacheprovider", "-x"], cwd=wt, stdout=subprocess.PIPE, stderr=subprocess.STDOUT)
        tests_ok = b"101 passed" in t.stdout
        mut = subprocess.run(["/venv/bin/python", "demo.py"], cwd=wt, stdout=subprocess.PIPE, stderr=subprocess.STDOUT, timeout=600)
        ok = clean.returncode == 0 and mut.returncode != 0 and tests_ok
        print(prop, x, "clean_rc", clean.returncode, "mut_rc", mut.returncode, "tests", "101 passed" if tests_ok else t.stdout.decode()[-200:], "=> KEEP" if ok else "=> REJECT")
        if ok:
            d = f"/verif/seeded/{prop}_{x}"
            os.makedirs(d, exist_ok=True)
            shutil.copy(patch, d + "/patch.diff"); shutil.copy(demo, d + "/demo.py")
            files = [l[6:].strip() for l in open(patch) if l.startswith("+++ b/")]
            meta = dict(property=prop, files=files, needs="", demo_output_with_change=mut.stdout.decode()[-600:],
                        ran=["git apply patch.diff in a scratch worktree of /repo HEAD", "pytest: 101 passed with the change",
                             "demo.py: exit 0 on the clean tree, exit %d with the change" % mut.returncode])
            if os.path.exists(d + "/meta.json"):
                meta["needs"] = json.load(open(d + "/meta.json")).get("needs", "")
            json.dump(meta, open(d + "/meta.json", "w"), indent=1)
    finally:
        subprocess.run(["git", "-C", "/repo", "worktree", "remove", "--force", wt])
