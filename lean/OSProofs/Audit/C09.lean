import OSProofs.Props.C09
import OSProofs.Props.FL2
import OSProofs.MonoArithInst
import OSProofs.Props.PredictLoops
#print axioms OS.predictWin_eq_winVal
#print axioms OS.C09_length
#print axioms OS.C09_entry
#print axioms OS.C09_sum_one
#print axioms OS.C09_range_strict
#print axioms OS.C09_range
#print axioms OS.C09_two_identical
#print axioms OS.C09_two_equal_mu
#print axioms OS.winVal_perm
#print axioms OS.C09_equivariant
#print axioms OS.C09_equivariant_zip
#print axioms OS.C09_swap_two
#print axioms OS.C09_identical
#print axioms OS.C09_identical_teams
#print axioms OS.C09_monotone_team_own
#print axioms OS.C09_monotone_team_other
#print axioms OS.C09_monotone_own
#print axioms OS.C09_monotone_other
#print axioms OS.MonoArith.real
#print axioms OS.MonoArith.rn
#print axioms OS.truncRounding
#print axioms OS.truncRounding_lossy
#print axioms OS.truncRounding_ne_id
#print axioms OS.FL_C09_two
#print axioms OS.FL_C09_range
#print axioms OS.FL_C09_range_two_or_more
#print axioms OS.FL_C09_range_all
#print axioms OS.FL_C09_length
#print axioms OS.permutations2_eq_orderedPairs
#print axioms OS.zipLongestIter_eq_chunk
#print axioms OS.pl2_zipLongestIter_eq_pad
#print axioms OS.predictWinLoop_eq
#print axioms OS.predictWinLoop_eq_real
