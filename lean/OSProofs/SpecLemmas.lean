import OSProofs.Spec

/-!
# Bridging lemmas: list folds in code order  ↔  `Finset` sums over `Fin n`

Bookkeeping used by `OSProofs/Props/C01.lean`: every list the model's `_compute` builds is a
`List.ofFn` over the team index, and `sumL ∘ map ∘ filter` is a filtered `Finset` sum.
-/

noncomputable section
namespace OS
open Finset

section lists
variable {β γ M : Type} [AddCommMonoid M]

/-- a mapped list, as a function of the position -/
theorem map_eq_ofFn (l : List β) (f : β → γ) :
    l.map f = List.ofFn (fun i : Fin l.length => f l[i]) := by
  apply List.ext_getElem <;> simp

/-- `enumerate(map f l)` as a function of the position -/
theorem zipIdx_map_eq_ofFn (l : List β) (f : β → γ) :
    (l.map f).zipIdx = List.ofFn (fun i : Fin l.length => (f l[i], i.1)) := by
  apply List.ext_getElem <;> simp

/-- `enumerate(l)` as a function of the position -/
theorem zipIdx_eq_ofFn (l : List β) :
    l.zipIdx = List.ofFn (fun i : Fin l.length => (l[i], i.1)) := by
  apply List.ext_getElem <;> simp

/-- `enumerate(l)` then `map` -/
theorem zipIdx_map'_eq_ofFn (l : List β) (f : β × Nat → γ) :
    l.zipIdx.map f = List.ofFn (fun i : Fin l.length => f (l[i], i.1)) := by
  apply List.ext_getElem <;> simp

theorem zip_map_self (l : List β) (f : β → γ) :
    l.zip (l.map f) = l.map (fun x => (x, f x)) := by
  induction l with
  | nil => rfl
  | cons a l ih => simp [ih]

/-- `zip(l, zip(map f l, map g l))` -/
theorem zip_zip_map (l : List β) {δ : Type} (f : β → γ) (g : β → δ) :
    l.zip ((l.map f).zip (l.map g)) = l.map (fun x => (x, f x, g x)) := by
  rw [List.zip_map', zip_map_self]

/-- a guarded loop `for x in l: if p x: acc += g x` adds `g x` or nothing -/
theorem sum_filter_map (l : List β) (p : β → Bool) (g : β → M) :
    ((l.filter p).map g).sum = (l.map (fun x => if p x then g x else 0)).sum := by
  induction l with
  | nil => simp
  | cons a l ih => by_cases h : p a <;> simp [h, ih]

/-- a guarded loop over a list given by positions is a filtered `Finset` sum -/
theorem sum_filter_map_ofFn {n : ℕ} (f : Fin n → β) (p : β → Bool) (g : β → M) :
    (((List.ofFn f).filter p).map g).sum
      = ∑ q ∈ univ.filter (fun q => p (f q) = true), g (f q) := by
  rw [sum_filter_map, List.map_ofFn, List.sum_ofFn, Finset.sum_filter]
  rfl

/-- a guarded loop over `l` is a filtered `Finset` sum over positions -/
theorem sum_filter_map_list (l : List β) (p : β → Bool) (g : β → M) :
    ((l.filter p).map g).sum
      = ∑ q ∈ univ.filter (fun q : Fin l.length => p l[q] = true), g l[q] := by
  conv_lhs => rw [← List.ofFn_getElem (xs := l)]
  exact sum_filter_map_ofFn (fun i : Fin l.length => l[i]) p g

/-- an unguarded loop over `l` is a `Finset` sum over positions -/
theorem sum_map_list (l : List β) (g : β → M) :
    (l.map g).sum = ∑ q : Fin l.length, g l[q] := by
  rw [map_eq_ofFn, List.sum_ofFn]

/-- counting by a guarded loop -/
theorem length_filter_list (l : List β) (p : β → Bool) :
    (l.filter p).length = (univ.filter (fun q : Fin l.length => p l[q] = true)).card := by
  have h := sum_filter_map_list (M := ℕ) l p (fun _ => 1)
  simpa using h

end lists

section opponents
variable {β M : Type} [AddCommMonoid M]

/-- full pairing: the loop over `othersOf ts i` is the sum over the positions `q ≠ i` -/
theorem sum_othersOf (l : List β) (i : Fin l.length) (g : β → M) :
    ((othersOf l i.1).map g).sum = ∑ q ∈ univ.filter (fun q : Fin l.length => q ≠ i), g l[q] := by
  unfold othersOf
  rw [List.map_map, zipIdx_eq_ofFn, sum_filter_map_ofFn]
  apply Finset.sum_congr
  · ext q; simp [Fin.ext_iff]
  · intros; rfl

theorem sum_left_nbr (l : List β) (i : Fin l.length) (g : β → M) :
    ((if i.1 = 0 then [] else (l[i.1 - 1]?).toList).map g).sum
      = ∑ q ∈ univ.filter (fun q : Fin l.length => q.1 + 1 = i.1), g l[q] := by
  by_cases h : i.1 = 0
  · rw [if_pos h, Finset.filter_false_of_mem]
    · simp
    · intro q _; omega
  · have hi : i.1 - 1 < l.length := by omega
    rw [if_neg h, List.getElem?_eq_getElem hi]
    have : univ.filter (fun q : Fin l.length => q.1 + 1 = i.1) = {⟨i.1 - 1, hi⟩} := by
      ext q
      simp only [Finset.mem_filter, Finset.mem_univ, true_and, Finset.mem_singleton, Fin.ext_iff]
      omega
    rw [this]; simp

theorem sum_right_nbr (l : List β) (i : Fin l.length) (g : β → M) :
    (((l[i.1 + 1]?).toList).map g).sum
      = ∑ q ∈ univ.filter (fun q : Fin l.length => q.1 = i.1 + 1), g l[q] := by
  by_cases h : i.1 + 1 < l.length
  · rw [List.getElem?_eq_getElem h]
    have : univ.filter (fun q : Fin l.length => q.1 = i.1 + 1) = {⟨i.1 + 1, h⟩} := by
      ext q; simp [Fin.ext_iff]
    rw [this]; simp
  · rw [List.getElem?_eq_none (by omega), Finset.filter_false_of_mem]
    · simp
    · intro q _; omega

/-- partial pairing: the loop over `neighboursOf ts i` (left, then right) is the sum over the
positions adjacent to `i` -/
theorem sum_neighboursOf (l : List β) (i : Fin l.length) (g : β → M) :
    ((neighboursOf l i.1).map g).sum = ∑ q ∈ nbrs i, g l[q] := by
  unfold neighboursOf nbrs
  rw [List.map_append, List.sum_append, sum_left_nbr, sum_right_nbr, Finset.filter_or,
    Finset.sum_union]
  rw [Finset.disjoint_filter]
  intro q _ h1 h2; omega

end opponents


section model
/-! ### the five `_compute` bodies, piece by piece -/

/-- the code's `_c` is the published normaliser -/
theorem plC_eq (β : ℝ) (ts : List (TeamAgg ℝ)) : plC β ts = SpecPL.c (gameOf ts) β := by
  unfold plC SpecPL.c
  rw [sumL_eq_sum, sum_map_list]
  simp only [sc_sqrt, gameOf, sq]

/-- entry `q` of the code's `_sum_q` is `S_q` -/
theorem plSumQ_entry (β : ℝ) (ts : List (TeamAgg ℝ)) (q : Fin ts.length) :
    sumL ((ts.filter (fun ti => decide (ts[q].rank ≤ ti.rank))).map
        (fun ti => Scalar.exp (ti.mu / plC β ts))) = SpecPL.S (gameOf ts) β q := by
  rw [sumL_eq_sum, sum_filter_map_list, plC_eq]
  simp only [decide_eq_true_eq, sc_exp]
  rfl

/-- entry `q` of the code's `_a` is `A_q` -/
theorem plA_entry (ts : List (TeamAgg ℝ)) (q : Fin ts.length) :
    (ts.filter (fun s => decide (ts[q].rank = s.rank))).length = SpecPL.A (gameOf ts) q := by
  rw [length_filter_list]
  unfold SpecPL.A
  congr 1
  ext s
  simp [gameOf, eq_comm]

/-- the rows `enumerate(zip(team_ratings, zip(sum_q, a)))` the Plackett–Luce loop walks over -/
theorem pl_rows (β : ℝ) (ts : List (TeamAgg ℝ)) :
    (ts.zip ((plSumQ ts (plC β ts)).zip (plA ts))).zipIdx
      = List.ofFn (fun q : Fin ts.length =>
          ((ts[q], SpecPL.S (gameOf ts) β q, SpecPL.A (gameOf ts) q), q.1)) := by
  unfold plSumQ plA
  rw [zip_zip_map, zipIdx_map_eq_ofFn]
  congr 1
  funext q
  rw [plSumQ_entry, plA_entry]

/-- the Plackett–Luce inner loop for team `i` -/
theorem plOmegaDelta_eq (g : GammaFn ℝ) (β : ℝ) (ts : List (TeamAgg ℝ)) (i : Fin ts.length) :
    plOmegaDelta g ts (plC β ts) (plSumQ ts (plC β ts)) (plA ts) i.1 ts[i]
      = (SpecPL.Ω (gameOf ts) β i, SpecPL.Δ (gameOf ts) β (gammaOf g ts) i) := by
  unfold plOmegaDelta
  simp only [pl_rows]
  simp only [sumL_eq_sum, sum_filter_map_ofFn, plC_eq]
  simp only [decide_eq_true_eq, sc_ofNat, sc_exp, Nat.cast_one]
  refine congrArg₂ Prod.mk ?_ ?_
  · unfold SpecPL.Ω SpecPL.p SpecPL.e
    rw [mul_comm]
    congr 1
    apply Finset.sum_congr rfl
    intro q _
    by_cases h : q = i
    · rw [if_pos (congrArg Fin.val h), if_pos h]; rfl
    · rw [if_neg (fun h' => h (Fin.ext h')), if_neg h, zero_sub, neg_div]; rfl
  · unfold SpecPL.Δ SpecPL.p SpecPL.e
    rw [sq]
    rfl

/-- the two accumulators of a pairing loop -/
theorem sumPairs_map {β : Type} (l : List β) (f : β → ℝ × ℝ) :
    sumPairs (l.map f) = ((l.map (fun x => (f x).1)).sum, (l.map (fun x => (f x).2)).sum) := by
  simp only [sumPairs, sumL_eq_sum, List.map_map]
  rfl

/-- the Bradley–Terry pair term of the code is the published pair term -/
theorem btPair_eq (β : ℝ) (g : GammaFn ℝ) (ts : List (TeamAgg ℝ)) (i q : Fin ts.length) :
    btPair β g ts.length ts[i] ts[q]
      = (SpecBT.ω (gameOf ts) β i q, SpecBT.δ (gameOf ts) β (gammaOf g ts) i q) := by
  unfold btPair SpecBT.ω SpecBT.δ SpecBT.p SpecBT.s SpecBT.c
  simp only [sc_sqrt, sc_exp, sc_ofNat, Nat.cast_one, Nat.cast_ofNat, Nat.cast_zero, sq]
  simp only [gameOf, gammaOf]
  rw [if_congr Iff.rfl rfl (if_congr (@eq_comm _ ts[q].rank ts[i].rank) rfl rfl)]
  congr 4

/-- the Thurstone–Mosteller pair term of the code is the published pair term -/
theorem tmPair_eq (L : Leaves ℝ) (cmul β κ : ℝ) (g : GammaFn ℝ) (ts : List (TeamAgg ℝ))
    (i q : Fin ts.length) :
    tmPair L cmul β κ g ts.length ts[i] ts[q]
      = (SpecTM.ω (gameOf ts) L cmul β κ i q, SpecTM.δ (gameOf ts) L cmul β κ (gammaOf g ts) i q) := by
  unfold tmPair SpecTM.ω SpecTM.δ SpecTM.x SpecTM.t SpecTM.c
  simp only [sc_sqrt, sc_ofNat, Nat.cast_ofNat, sq, gameOf, gammaOf]
  by_cases h1 : ts[i].rank < ts[q].rank
  · simp only [if_pos h1]
  · by_cases h2 : ts[q].rank < ts[i].rank
    · simp only [if_neg h1, if_pos h2]
    · simp only [if_neg h1, if_neg h2]

/-- pairing a list with a table indexed by its positions -/
theorem zip_ofFn_map {β γ δ : Type} (l : List β) (f : Fin l.length → γ) (g : β × γ → δ) :
    (l.zip (List.ofFn f)).map g = List.ofFn (fun i : Fin l.length => g (l[i], f i)) := by
  apply List.ext_getElem <;> simp

theorem teamAggs_length_real (teams : List (List (Rating ℝ))) (dense : List Nat) :
    (teamAggs teams dense).length = min teams.length dense.length := by
  simp [teamAggs]

theorem teamAggs_getElem (teams : List (List (Rating ℝ))) (dense : List Nat) (i : Nat)
    (h1 : i < teams.length) (h2 : i < dense.length) :
    (teamAggs teams dense)[i]'(by rw [teamAggs_length_real]; omega) = teamAgg teams[i] dense[i] := by
  simp [teamAggs]

end model

end OS
end
