import OSProofs.Props.C05
import OSProofs.Props.C05b
import OSProofs.Props.C05c
#print axioms OS.C05_same_direction
#print axioms OS.C05_btPair_win_nonneg
#print axioms OS.C05_btPair_loss_nonpos
#print axioms OS.C05_btPair_loss_le_draw_le_win
#print axioms OS.C05_tmPair_sign
#print axioms OS.C05_sole_first
#print axioms OS.C05_sole_last
#print axioms OS.C05_sole_first_members
#print axioms OS.C05_sole_last_members
#print axioms OS.C05_compute_sole_first
#print axioms OS.C05_compute_sole_last
#print axioms OS.C05_two_team_chain
#print axioms OS.C05_two_team_draw_BT_PL
#print axioms OS.C05_two_team_draw_BT_PL_strict
#print axioms OS.C05_two_team_draw_TM
#print axioms OS.C05_identical_teams_BTF
#print axioms OS.C05_identical_teams_TMF
#print axioms OS.C05_rank_improve_full
#print axioms OS.C05_exchange_full
#print axioms OS.C05_identical_teams_PL_groups
#print axioms OS.C05_identical_teams_PL
#print axioms OS.C05_identical_teams_PL_tiefree
#print axioms OS.C05_exchange_PL_groups
#print axioms OS.C05_exchange_PL
#print axioms OS.C05_exchange_PL_tiefree
#print axioms OS.C05_exchange_full_game
#print axioms OS.C05_exchange_PL_game
#print axioms OS.C05_members_mono
#print axioms OS.C05_all_identical_partial
#print axioms OS.C05_all_identical_partial_BTP
#print axioms OS.C05_identical_teams_PL_ties_false
#print axioms OS.C05_exchange_PL_ties_false
