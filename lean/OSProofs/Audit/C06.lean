import OSProofs.Props.C08
#print axioms OS.C08_sqrt_arg_nonneg
#print axioms OS.C08_inflate_pos
