import OSProofs.Props.FL3
import OSProofs.MonoArithInst
import OSProofs.Props.FL1Inst
import OSProofs.LeafCode

/-!
# FL3 — Part C: the four extra laws hold in ℝ and in every rounded arithmetic; instances of the chain

`OSProofs/Props/FL3.lean` is Mathlib-free and abstract.  Here:

* `ChainLaws.real`, `ChainLaws.rn r` — the four laws the two-team chain needs beyond `MonoArith`
  (`MulLeftMonoNonpos`, `MulRightMonoNonpos`, `HalfLeOne`, `NegMulLe`) are true of the exact arithmetic and
  survive every monotone, odd, idempotent rounding that fixes the naturals;
* the chain theorems at `MonoArith.real` and at `MonoArith.rn r`.
-/

noncomputable section
namespace OS
open Scalar

/-! ### ℝ -/

theorem ChainLaws.real : ChainLaws ℝ where
  mulL := by
    intro a x y ha hxy _
    simp only [sc_ofNat, Nat.cast_zero] at ha
    exact mul_le_mul_of_nonneg_left hxy ha
  mulR := by
    intro a x y ha hxy _
    simp only [sc_ofNat, Nat.cast_zero] at ha
    exact mul_le_mul_of_nonneg_right hxy ha
  half := by
    intro a ha
    simp only [sc_ofNat, Nat.cast_zero, Nat.cast_ofNat, Nat.cast_one, div_one] at *
    linarith
  negMul := by
    intro a b
    exact le_of_eq (by ring)

/-! ### `RN r` -/

theorem ChainLaws.rn (r : Rounding) : ChainLaws (RN r) where
  mulL := by
    intro a x y ha hxy _
    simp only [rn_le, rn_mul, rn_ofNat, Nat.cast_zero] at *
    exact r.mono (mul_le_mul_of_nonneg_left hxy ha)
  mulR := by
    intro a x y ha hxy _
    simp only [rn_le, rn_mul, rn_ofNat, Nat.cast_zero] at *
    exact r.mono (mul_le_mul_of_nonneg_right hxy ha)
  half := by
    intro a ha
    simp only [rn_le, rn_div, rn_ofNat, Nat.cast_zero, Nat.cast_ofNat, Nat.cast_one, div_one] at *
    exact r.mono (by linarith)
  negMul := by
    intro a b
    simp only [rn_le, rn_mul, rn_neg]
    exact le_of_eq (by congr 1; ring)

/-- in `RN r` division by 1 is exact (the quotient is representable, rounding is idempotent) -/
theorem fl3_rn_div_one (r : Rounding) (a : RN r) : a / Scalar.ofNat 1 = a := by
  apply RN.ext
  simp only [rn_div, rn_ofNat, Nat.cast_one, div_one]
  exact a.2

/-! ### the chain at ℝ -/

/-- **The two-team chain over ℝ, all five models, team 0**: hypotheses on the input only for
Bradley–Terry and Plackett–Luce (positive variance of team 0 resp. of both teams). -/
theorem FL_C05_two_team_chain_real (K : Kind) (L : Leaves ℝ) (P : Params ℝ)
    (T0 T1 : List (Rating ℝ))
    (hv0 : (0 : ℝ) < sumL (T0.map (fun p => p.sigma * p.sigma)))
    (hv1 : (0 : ℝ) < sumL (T1.map (fun p => p.sigma * p.sigma)))
    (hLv : K = .TMF ∨ K = .TMP →
      LeavesChainAt L (fl3_tmD (fl3_cmul K) P.beta (teamAgg T0 0) (teamAgg T1 0))
        (fl3_tmT (fl3_cmul K) P.beta P.kappa (teamAgg T0 0) (teamAgg T1 0)))
    {rw0 rw1 rd rl0 rl1 : Nat} (hw : rw0 < rw1) (hl : rl1 < rl0) :
    FL3ComputeChain K L P T0 T1 0 T0 rl0 rl1 rd rw0 rw1 := by
  refine FL_C05_two_team_chain MonoArith.real ChainLaws.real K L P T0 T1 (by simpa using hv0) ?_ hLv
    hw hl
  apply FL_divisorsPosRest_real K P _ (by simp)
  intro t ht
  simp only [List.mem_cons, List.not_mem_nil, or_false] at ht
  rcases ht with rfl | rfl
  · exact hv0
  · exact hv1

/-! ### the chain at `RN r` -/

/-- **The two-team chain in every rounded arithmetic, Bradley–Terry, team 0**: the only hypothesis is that
the (rounded) variance of team 0 is `> 0`.  The statement is about the rounded numbers. -/
theorem FL_C05_two_team_chain_rn_BT (r : Rounding) (K : Kind) (hK : K = .BTF ∨ K = .BTP)
    (L : Leaves (RN r)) (P : Params (RN r)) (T0 T1 : List (Rating (RN r)))
    (hv : Scalar.ofNat 0 < sumL (T0.map (fun p => p.sigma * p.sigma)))
    {rw0 rw1 rd rl0 rl1 : Nat} (hw : rw0 < rw1) (hl : rl1 < rl0) :
    FL3ComputeChain K L P T0 T1 0 T0 rl0 rl1 rd rw0 rw1 :=
  FL_C05_two_team_chain_BT (MonoArith.rn r) (ChainLaws.rn r).mulL K hK L P T0 T1 hv hw hl

/-- **The two-team chain in every rounded arithmetic, Plackett–Luce, team 0**: positive rounded variance of
team 0 and no underflow of `exp(μ₀/c)`. -/
theorem FL_C05_two_team_chain_rn_PL (r : Rounding) (L : Leaves (RN r)) (P : Params (RN r))
    (T0 T1 : List (Rating (RN r)))
    (hv : Scalar.ofNat 0 < sumL (T0.map (fun p => p.sigma * p.sigma)))
    (he : Scalar.ofNat 0 < Scalar.exp ((teamAgg T0 0).mu / plC P.beta [teamAgg T0 0, teamAgg T1 0]))
    {rw0 rw1 rd rl0 rl1 : Nat} (hw : rw0 < rw1) (hl : rl1 < rl0) :
    FL3ComputeChain .PL L P T0 T1 0 T0 rl0 rl1 rd rw0 rw1 :=
  FL_C05_two_team_chain_PL (MonoArith.rn r) (ChainLaws.rn r).mulL (ChainLaws.rn r).mulR
    (ChainLaws.rn r).half L P T0 T1 hv he hw hl

/-- **The two-team chain in every rounded arithmetic, all five models, both teams' statement for team 0** -/
theorem FL_C05_two_team_chain_rn (r : Rounding) (K : Kind) (L : Leaves (RN r)) (P : Params (RN r))
    (T0 T1 : List (Rating (RN r)))
    (hv : Scalar.ofNat 0 < sumL (T0.map (fun p => p.sigma * p.sigma)))
    (hd : DivisorsPosRest K P [teamAgg T0 0, teamAgg T1 0])
    (hLv : K = .TMF ∨ K = .TMP →
      LeavesChainAt L (fl3_tmD (fl3_cmul K) P.beta (teamAgg T0 0) (teamAgg T1 0))
        (fl3_tmT (fl3_cmul K) P.beta P.kappa (teamAgg T0 0) (teamAgg T1 0)))
    {rw0 rw1 rd rl0 rl1 : Nat} (hw : rw0 < rw1) (hl : rl1 < rl0) :
    FL3ComputeChain K L P T0 T1 0 T0 rl0 rl1 rd rw0 rw1 :=
  FL_C05_two_team_chain (MonoArith.rn r) (ChainLaws.rn r) K L P T0 T1 hv hd hLv hw hl

/-- in the lossy arithmetic `truncRounding 10`, Bradley–Terry partial pairing, team 1 -/
example (L : Leaves (RN (truncRounding 10))) (P : Params (RN (truncRounding 10)))
    (T0 T1 : List (Rating (RN (truncRounding 10))))
    (hv : Scalar.ofNat 0 < sumL (T1.map (fun p => p.sigma * p.sigma))) :
    FL3ComputeChain .BTP L P T0 T1 1 T1 0 1 0 1 0 :=
  FL_C05_two_team_chain_BT_team1 (MonoArith.rn _) (ChainLaws.rn _).mulL .BTP (Or.inr rfl) L P T0 T1 hv
    (by decide) (by decide)

/-- the hypotheses of `FL_C05_two_team_chain_real` are satisfiable: two one-player teams, library defaults,
Plackett–Luce -/
example (L : Leaves ℝ) :
    FL3ComputeChain .PL L ⟨25 / 6, 1 / 10000, 25 / 300, false, .dflt⟩
      [⟨0, 25, 25 / 3⟩] [⟨1, 25, 25 / 3⟩] 0 [⟨0, 25, 25 / 3⟩] 1 0 0 0 1 := by
  apply FL_C05_two_team_chain_real .PL L _ _ _ _ _ (by rintro (h | h) <;> cases h) (by decide)
    (by decide)
  · simp [sumL]
  · simp [sumL]

/-! ### Thurstone–Mosteller over ℝ with the library's own leaves -/

/-- **The leaf facts hold for the code's leaves over ℝ** whenever `t ≥ 0`: `vt(x,t) ≤ t − x ≤ v(x,t)` and
`−v(−x,t) ≤ −t − x ≤ vt(x,t)` (`vCode_ge`, `vtCode_mem` of `OSProofs/LeafCode.lean`). -/
theorem fl3_leavesChainAt_code_real (x t : ℝ) (ht : 0 ≤ t) :
    LeavesChainAt (codeLeaves : Leaves ℝ) x t := by
  have h1 := vCode_nonneg x t
  have h2 := vCode_nonneg (-x) t
  have h3 := vCode_ge x t
  have h4 := vCode_ge (-x) t
  obtain ⟨h5, h6⟩ := vtCode_mem x t ht
  refine ⟨?_, ?_, ?_, ?_⟩ <;> simp only [codeLeaves, sc_ofNat, Nat.cast_zero] <;> linarith

/-- **The two-team chain over ℝ, Thurstone–Mosteller (full and partial pairing) with the library's leaves,
team 0**: hypotheses on the input only — positive variances and `κ ≥ 0`. -/
theorem FL_C05_two_team_chain_real_TM_code (K : Kind) (hK : K = .TMF ∨ K = .TMP) (P : Params ℝ)
    (T0 T1 : List (Rating ℝ))
    (hv0 : (0 : ℝ) < sumL (T0.map (fun p => p.sigma * p.sigma)))
    (hv1 : (0 : ℝ) < sumL (T1.map (fun p => p.sigma * p.sigma)))
    (hk : 0 ≤ P.kappa)
    {rw0 rw1 rd rl0 rl1 : Nat} (hw : rw0 < rw1) (hl : rl1 < rl0) :
    FL3ComputeChain K codeLeaves P T0 T1 0 T0 rl0 rl1 rd rw0 rw1 := by
  have hd : DivisorsPosRest K P [teamAgg T0 0, teamAgg T1 0] := by
    apply FL_divisorsPosRest_real K P _ (by simp)
    intro t ht
    simp only [List.mem_cons, List.not_mem_nil, or_false] at ht
    rcases ht with rfl | rfl
    · exact hv0
    · exact hv1
  have hc' : Scalar.ofNat 0 < fl3_tmC (fl3_cmul K) P.beta (teamAgg T0 0) (teamAgg T1 0) := by
    have m0 : teamAgg T0 0 ∈ [teamAgg T0 0, teamAgg T1 0] := by simp
    have m1 : teamAgg T1 0 ∈ [teamAgg T0 0, teamAgg T1 0] := by simp
    rcases hK with rfl | rfl
    · exact hd _ m0 _ m1
    · exact hd _ m0 _ m1
  have hc : (0 : ℝ) < fl3_tmC (fl3_cmul K) P.beta (teamAgg T0 0) (teamAgg T1 0) := by
    simpa using hc'
  apply FL_C05_two_team_chain_real K codeLeaves P T0 T1 hv0 hv1 _ hw hl
  intro _
  apply fl3_leavesChainAt_code_real
  unfold fl3_tmT
  exact div_nonneg hk hc.le

end OS
end
