import OSModel
/-
  Line protocol driver: one operation per input line, one result line per operation.
  Floats travel as 16 hex digits (IEEE-754 bit patterns).
-/
open OS

def hexDigit (c : Char) : Option Nat :=
  if '0' ≤ c ∧ c ≤ '9' then some (c.toNat - '0'.toNat)
  else if 'a' ≤ c ∧ c ≤ 'f' then some (c.toNat - 'a'.toNat + 10)
  else if 'A' ≤ c ∧ c ≤ 'F' then some (c.toNat - 'A'.toNat + 10)
  else none

def parseHex (s : String) : Option Nat :=
  s.foldl (fun acc c => match acc, hexDigit c with
    | some a, some d => some (a * 16 + d)
    | _, _ => none) (some 0)

def parseFloat (s : String) : Option Float :=
  if s.length != 16 then none else (parseHex s).map (fun n => Float.ofBits n.toUInt64)

def toHex (x : Float) : String :=
  let ds := Nat.toDigits 16 x.toBits.toNat
  String.ofList (List.replicate (16 - ds.length) '0' ++ ds)

abbrev P := StateT (List String) (Except String)

def tok : P String := do
  match (← get) with
  | [] => throw "eof"
  | t :: ts => set ts; pure t

def pFloat : P Float := do
  let t ← tok
  match parseFloat t with
  | some f => pure f
  | none => throw s!"bad-float {t}"

def pNat : P Nat := do
  let t ← tok
  match t.toNat? with
  | some n => pure n
  | none => throw s!"bad-nat {t}"

def pBool : P Bool := do
  let t ← tok
  if t == "1" then pure true else if t == "0" then pure false else throw s!"bad-bool {t}"

def pOptFloat : P (Option Float) := do
  match (← get) with
  | "-" :: ts => set ts; pure none
  | _ => some <$> pFloat

def pOptBool : P (Option Bool) := do
  match (← get) with
  | "-" :: ts => set ts; pure none
  | _ => some <$> pBool

def pKind : P Kind := do
  match (← tok) with
  | "PL" => pure .PL | "BTF" => pure .BTF | "BTP" => pure .BTP
  | "TMF" => pure .TMF | "TMP" => pure .TMP
  | t => throw s!"bad-kind {t}"

def pLeaves : P (Leaves Float) := do
  match (← tok) with
  | "c" => pure codeLeaves
  | "e" => pure exactLeaves
  | "l" => pure { (codeLeaves : Leaves Float) with wt := wtLegacy }
  | t => throw s!"bad-leaves {t}"

/-- a parsed gamma tag; `"T"` is the team-reading callback `gammaTeamSigma`.  The tag is kept symbolic so that
the same callback can be built over every scalar type (`GammaTag.build`): a `.fn` member is a function and
cannot be converted from `Float` to another scalar type after the fact. -/
inductive GammaTag where
  | D | C (x : Float) | I | R | Q | Z | T

def GammaTag.build {α : Type} [Scalar α] (f : Float → α) : GammaTag → GammaFn α
  | .D => .dflt | .C k => .const (f k) | .I => .invK | .R => .rankDep | .Q => .sq | .Z => .zero
  | .T => gammaTeamSigma

def pGamma : P GammaTag := do
  let t ← tok
  let x ← pFloat
  match t with
  | "D" => pure .D | "C" => pure (.C x) | "I" => pure .I
  | "R" => pure .R | "Q" => pure .Q | "Z" => pure .Z
  | "T" => pure .T
  | _ => throw s!"bad-gamma {t}"

def pNum : P PyNum := do
  let t ← tok
  if t.startsWith "i" then
    match (t.drop 1).toString.toInt? with
    | some i => pure (.int i)
    | none => throw s!"bad-int {t}"
  else if t.startsWith "f" then
    match parseFloat (t.drop 1).toString with
    | some f => pure (.flt f)
    | none => throw s!"bad-fnum {t}"
  else throw s!"bad-num {t}"

def pMany {β : Type} (n : Nat) (p : P β) : P (List β) := do
  let mut out := #[]
  for _ in [0:n] do
    out := out.push (← p)
  pure out.toList

/-- sizes, then players (mu sigma) — ids are assigned 0,1,2,… in input order -/
def pTeams : P (List (List (Rating Float))) := do
  let n ← pNat
  let sizes ← pMany n pNat
  let mut id := 0
  let mut teams := #[]
  for sz in sizes do
    let mut team := #[]
    for _ in [0:sz] do
      let mu ← pFloat
      let sg ← pFloat
      team := team.push ({ id := id, mu := mu, sigma := sg } : Rating Float)
      id := id + 1
    teams := teams.push team.toList
  pure teams.toList

def showTeams (ts : List (List (Rating Float))) : String :=
  " / ".intercalate (ts.map (fun t =>
    " ".intercalate (t.map (fun p => s!"{p.id}:{toHex p.mu}:{toHex p.sigma}"))))

def allFinite (ts : List (List (Rating Float))) : Bool :=
  ts.all (·.all (fun p => p.mu.isFinite && p.sigma.isFinite))

partial def pVal : P PyVal := do
  let t ← tok
  let arg : Nat := ((t.drop 1).toString.toNat?).getD 0
  match t.front with
  | 'N' => pure .none
  | 'B' => pure (.bool (arg != 0))
  | 'I' => pure (.int (((t.drop 1).toString.toInt?).getD 0))
  | 'F' => pure (.flt (arg == 0))
  | 'S' => pure (.str arg)
  | 'L' => .list <$> pMany arg pVal
  | 'T' => .tuple <$> pMany arg pVal
  | 'D' => pure (.dict arg)
  | 'E' => pure (.set arg)
  | 'R' =>
    match (t.drop 1).toString with
    | "PL" => pure (.rating .PL) | "BTF" => pure (.rating .BTF) | "BTP" => pure (.rating .BTP)
    | "TMF" => pure (.rating .TMF) | "TMP" => pure (.rating .TMP)
    | _ => throw s!"bad-rating {t}"
  | 'O' => pure .obj
  | _ => throw s!"bad-val {t}"

def convTeams {α : Type} (f : Float → α) (ts : List (List (Rating Float))) : List (List (Rating α)) :=
  ts.map (·.map (fun p => { id := p.id, mu := f p.mu, sigma := f p.sigma }))

def backTeams {α : Type} (f : α → Float) (ts : List (List (Rating α))) : List (List (Rating Float)) :=
  ts.map (·.map (fun p => { id := p.id, mu := f p.mu, sigma := f p.sigma }))

/-- the callback of a parsed tag over the scalar type `α` (constants travel through `f`) -/
def convGamma {α : Type} [Scalar α] (f : Float → α) (g : GammaTag) : GammaFn α := g.build f

def showExc : Except PyExc Unit → String
  | .ok () => "ok"
  | .error .TypeError => "TypeError"
  | .error .ValueError => "ValueError"

def showBF (x : HP.BF) : String := s!"{x.m}@{x.e}"

def showTeamsX (ts : List (List (Rating HP.BF))) : String :=
  " / ".intercalate (ts.map (fun t =>
    " ".intercalate (t.map (fun p => s!"{p.id}:{showBF p.mu}:{showBF p.sigma}"))))

/-- one tape node: `f<hex16>` / `i<int>` constants, `A:a:b` `S:a:b` `M:a:b` `D:a:b`, `N:a` `B:a` `Q:a` `X:a` `R:a` `C:a` `P:a`
`I:a`, and recorded comparisons `L:a:b:o` `G:a:b:o` `E:a:b:o` -/
def pNode : P (TNode HP.BF) := do
  let t ← tok
  if t.startsWith "f" then
    match parseFloat (t.drop 1).toString with
    | some f => pure (.const (HP.ofFloat f))
    | none => throw s!"bad-node {t}"
  else if t.startsWith "i" then
    match (t.drop 1).toString.toInt? with
    | some i => pure (.const (HP.ofInt i))
    | none => throw s!"bad-node {t}"
  else
    let parts := t.splitOn ":"
    let nat (s : String) : P Nat := match s.toNat? with
      | some n => pure n
      | none => throw s!"bad-node {t}"
    match parts with
    | ["A", a, b] => pure (.add (← nat a) (← nat b))
    | ["S", a, b] => pure (.sub (← nat a) (← nat b))
    | ["M", a, b] => pure (.mul (← nat a) (← nat b))
    | ["D", a, b] => pure (.div (← nat a) (← nat b))
    | ["N", a] => pure (.neg (← nat a))
    | ["B", a] => pure (.abs (← nat a))
    | ["Q", a] => pure (.sqrt (← nat a))
    | ["X", a] => pure (.exp (← nat a))
    | ["R", a] => pure (.erfc (← nat a))
    | ["C", a] => pure (.cdf (← nat a))
    | ["P", a] => pure (.pdf (← nat a))
    | ["I", a] => pure (.icdf (← nat a))
    | ["L", a, b, o] => pure (.lt (← nat a) (← nat b) (o == "1"))
    | ["G", a, b, o] => pure (.le (← nat a) (← nat b) (o == "1"))
    | ["E", a, b, o] => pure (.eq (← nat a) (← nat b) (o == "1"))
    | _ => throw s!"bad-node {t}"

def runOp : P String := do
  let op ← tok
  match op with
  | "RATE" | "RLOOP" =>
    -- RLOOP: the same call through the LITERAL loop-shaped transliteration of `rate` and `_compute` (OSModel/Loops.lean)
    let k ← pKind
    let lv ← pLeaves
    let beta ← pFloat
    let kappa ← pFloat
    let tau ← pFloat
    let ls ← pBool
    let g ← pGamma
    let tauO ← pOptFloat
    let lsO ← pOptBool
    let oc ← tok
    let teams ← pTeams
    let n := teams.length
    let outcome : Outcome PyNum ← match oc with
      | "N" => pure Outcome.omitted
      | "R" => Outcome.ranks <$> pMany n pNum
      | "S" => Outcome.scores <$> pMany n pNum
      | t => throw s!"bad-outcome {t}"
    let P : Params Float := { beta := beta, kappa := kappa, tau := tau, limitSigma := ls, gamma := convGamma id g }
    let res := if op == "RLOOP" then rateLoop k lv P PyNum.le PyNum.neg teams outcome { tau := tauO, limitSigma := lsO }
               else rate k lv P PyNum.le PyNum.neg teams outcome { tau := tauO, limitSigma := lsO }
    if allFinite res then pure ("OK " ++ showTeams res) else pure ("NONFINITE " ++ showTeams res)
  | "TRACE" =>
    -- the arguments of the gamma callback during rate(), in order (same argument format as RATE)
    let k ← pKind
    let _lv ← pLeaves
    let beta ← pFloat
    let kappa ← pFloat
    let tau ← pFloat
    let ls ← pBool
    let g ← pGamma
    let tauO ← pOptFloat
    let lsO ← pOptBool
    let oc ← tok
    let teams ← pTeams
    let n := teams.length
    let outcome : Outcome PyNum ← match oc with
      | "N" => pure Outcome.omitted
      | "R" => Outcome.ranks <$> pMany n pNum
      | "S" => Outcome.scores <$> pMany n pNum
      | t => throw s!"bad-outcome {t}"
    let P : Params Float := { beta := beta, kappa := kappa, tau := tau, limitSigma := ls, gamma := convGamma id g }
    let tr := rateTrace k P PyNum.le PyNum.neg teams outcome { tau := tauO, limitSigma := lsO }
    pure ("OK " ++ " ".intercalate (tr.map (fun c =>
      s!"{toHex c.c}:{c.k}:{toHex c.mu}:{toHex c.sig2}:{c.rank}:{",".intercalate (c.ids.map toString)}")))
  | "XEVAL" =>
    -- a tape recorded from the Python code, evaluated on big floats; exact outputs `m@e` (value m·2^e)
    let k ← pNat
    let outs ← pMany k pNat
    let n ← pNat
    let nodes ← pMany n pNode
    let (vals, mism) := evalTape nodes
    pure (s!"OK {mism} " ++ " ".intercalate (outs.map (fun i => showBF (vals.getD i ⟨0, 0⟩))))
  | "HRATE" | "HRATEX" =>
    -- the same model terms evaluated on big floats (192 bits), exact or code leaves
    let k ← pKind
    let lvTok ← tok
    let beta ← pFloat
    let kappa ← pFloat
    let tau ← pFloat
    let ls ← pBool
    let g ← pGamma
    let tauO ← pOptFloat
    let lsO ← pOptBool
    let oc ← tok
    let teams ← pTeams
    let n := teams.length
    let outcome : Outcome PyNum ← match oc with
      | "N" => pure Outcome.omitted
      | "R" => Outcome.ranks <$> pMany n pNum
      | "S" => Outcome.scores <$> pMany n pNum
      | t => throw s!"bad-outcome {t}"
    -- exact leaves: evaluated through HP.leaves (at |x|, using that V~ is odd and W~ even in x) so that
    -- differences of upper tails do not cancel at 192 bits
    let hpExact : Leaves HP.BF :=
      { v := fun x t => (HP.leaves 128 x t).v, w := fun x t => (HP.leaves 128 x t).w,
        vt := fun x t => (HP.leaves 128 x t).vt, wt := fun x t => (HP.leaves 128 x t).wt }
    let lv : Leaves HP.BF := if lvTok == "e" then hpExact else codeLeaves
    let c := HP.ofFloat
    let P : Params HP.BF := { beta := c beta, kappa := c kappa, tau := c tau, limitSigma := ls, gamma := convGamma c g }
    let res := rate k lv P PyNum.le PyNum.neg (convTeams c teams) outcome { tau := tauO.map c, limitSigma := lsO }
    if op == "HRATEX" then pure ("OK " ++ showTeamsX res)
    else pure ("OK " ++ showTeams (backTeams HP.toFloat res))
  | "HPWIN" | "HPWINX" =>
    let beta ← pFloat
    let teams ← pTeams
    let sh := if op == "HPWINX" then showBF else fun x => toHex (HP.toFloat x)
    pure ("OK " ++ " ".intercalate ((predictWin (HP.ofFloat beta) (convTeams HP.ofFloat teams)).map sh))
  | "HPDRAW" | "HPDRAWX" =>
    let beta ← pFloat
    let teams ← pTeams
    let sh := if op == "HPDRAWX" then showBF else fun x => toHex (HP.toFloat x)
    pure ("OK " ++ sh (predictDraw (HP.ofFloat beta) (convTeams HP.ofFloat teams)))
  | "HPRANK" | "HPRANKX" =>
    let beta ← pFloat
    let teams ← pTeams
    let sh := if op == "HPRANKX" then showBF else fun x => toHex (HP.toFloat x)
    pure ("OK " ++ " ".intercalate ((predictRank (HP.ofFloat beta) (convTeams HP.ofFloat teams)).map
      (fun x => s!"{x.1}:{sh x.2}")))
  | "HLEAFX" =>
    -- the code-shaped leaves (guards and asymptotes included) on big floats, exact outputs
    let fn ← tok
    let x ← pFloat
    let t ← pFloat
    let bx := HP.ofFloat x
    let bt := HP.ofFloat t
    let r : HP.BF ← match fn with
      | "v" => pure (vCode bx bt) | "w" => pure (wCode bx bt)
      | "vt" => pure (vtCode bx bt) | "wt" => pure (wtCode bx bt)
      | "Phi" => pure (Scalar.Phi bx) | "phi" => pure (Scalar.phi bx) | "PhiInv" => pure (Scalar.PhiInv bx)
      | f => throw s!"bad-leaf {f}"
    pure ("OK " ++ showBF r)
  | "HORDX" =>
    let z ← pFloat
    let m ← pFloat
    let sg ← pFloat
    pure ("OK " ++ showBF (ordinal (HP.ofFloat z) ({ id := 0, mu := HP.ofFloat m, sigma := HP.ofFloat sg } : Rating HP.BF)))
  | "HLEAFS" =>
    let x ← pFloat
    let t ← pFloat
    let l := HP.leaves 128 (HP.ofFloat x) (HP.ofFloat t)
    pure ("OK " ++ " ".intercalate ([l.v, l.w, l.vt, l.wt, l.PhiXT].map (fun y => toHex (HP.toFloat y))))
  | "HPHI" =>
    let x ← pFloat
    pure ("OK " ++ toHex (HP.toFloat (HP.Phi 128 (HP.ofFloat x))))
  | "HPHI2" =>
    -- both evaluators of Φ on big floats (asymptotic branch where it applies / convergent series), exact outputs
    let x ← pFloat
    pure ("OK " ++ showBF (HP.Phi 128 (HP.ofFloat x)) ++ " " ++ showBF (HP.PhiSeries 128 (HP.ofFloat x)))
  | "LEAGUE" | "LEAGUEX" =>
    -- a whole league history on the model's league machine (ratings fed back by player number)
    let beta ← pFloat
    let kappa ← pFloat
    let tau ← pFloat
    let ls ← pBool
    let g ← pGamma
    let np ← pNat
    let init ← pMany np (do let m ← pFloat; let sg ← pFloat; pure (m, sg))
    let ng ← pNat
    let mut games : Array (LeagueGame Float PyNum) := #[]
    for _ in [0:ng] do
      let k ← pKind
      let tauO ← pOptFloat
      let lsO ← pOptBool
      let oc ← tok
      let nt ← pNat
      let sizes ← pMany nt pNat
      let mut teams : Array (List Nat) := #[]
      for sz in sizes do
        teams := teams.push (← pMany sz pNat)
      let outcome : Outcome PyNum ← match oc with
        | "N" => pure Outcome.omitted
        | "R" => Outcome.ranks <$> pMany nt pNum
        | "S" => Outcome.scores <$> pMany nt pNum
        | t => throw s!"bad-outcome {t}"
      games := games.push { kind := k, teams := teams.toList, outcome := outcome, opts := { tau := tauO, limitSigma := lsO } }
    if op == "LEAGUEX" then
      -- the same league machine on big floats, exact outputs
      let c := HP.ofFloat
      let gamesX : List (LeagueGame HP.BF PyNum) := games.toList.map (fun gm =>
        { kind := gm.kind, teams := gm.teams, outcome := gm.outcome, opts := { tau := gm.opts.tau.map c, limitSigma := gm.opts.limitSigma } })
      let PX : Params HP.BF := { beta := c beta, kappa := c kappa, tau := c tau, limitSigma := ls, gamma := convGamma c g }
      let s0X : Store HP.BF := { mu := fun p => c (init.getD p (0.0, 0.0)).1, sigma := fun p => c (init.getD p (0.0, 0.0)).2 }
      let sNX := playLeague codeLeaves PX PyNum.le PyNum.neg s0X gamesX
      pure ("OK " ++ " ".intercalate ((List.range np).map (fun p => s!"{showBF (sNX.mu p)}:{showBF (sNX.sigma p)}")))
    else
    let P : Params Float := { beta := beta, kappa := kappa, tau := tau, limitSigma := ls, gamma := convGamma id g }
    let s0 : Store Float := { mu := fun p => (init.getD p (0.0, 0.0)).1, sigma := fun p => (init.getD p (0.0, 0.0)).2 }
    let sN := playLeague codeLeaves P PyNum.le PyNum.neg s0 games.toList
    pure ("OK " ++ " ".intercalate ((List.range np).map (fun p => s!"{toHex (sN.mu p)}:{toHex (sN.sigma p)}")))
  | "LADDER" =>
    -- the literal model of common.py::_ladder_pairs on the list [1, …, n]
    let n ← pNat
    let l := (List.range n).map (· + 1)
    pure ("OK " ++ " | ".intercalate ((ladderPairsCode l).map (fun p => " ".intercalate (p.map toString))))
  | "NUMLE" =>
    -- Python's exact mixed int/float comparison as modelled by PyNum.le
    let a ← pNum
    let b ← pNum
    pure (if PyNum.le a b then "True" else "False")
  | "SUMQ" =>
    -- the literal (dict-shaped) model of PlackettLuce._sum_q on a list of (rank, mu) with a given c
    let c ← pFloat
    let n ← pNat
    let ranks ← pMany n pNat
    let mus ← pMany n pFloat
    let ts : List (TeamAgg Float) := (ranks.zip mus).map (fun rm => { mu := rm.2, sig2 := 1.0, rank := rm.1, players := [] })
    pure ("OK " ++ " ".intercalate ((plSumQCode ts c).map toHex))
  | "RANKDATA" =>
    -- the literal (loop-shaped) model of models/common.py::_rank_data
    let n ← pNat
    let vs ← pMany n pFloat
    pure ("OK " ++ " ".intercalate ((rankDataCode vs).map toString))
  | "PWIN" | "PWINLOOP" =>
    -- …LOOP: the same query through the LITERAL statement-by-statement transliteration (OSModel/PredictLoops.lean)
    let beta ← pFloat
    let teams ← pTeams
    pure ("OK " ++ " ".intercalate ((if op == "PWINLOOP" then predictWinLoop beta teams else predictWin beta teams).map toHex))
  | "PDRAW" | "PDRAWLOOP" =>
    let beta ← pFloat
    let teams ← pTeams
    pure ("OK " ++ toHex (if op == "PDRAWLOOP" then predictDrawLoop beta teams else predictDraw beta teams))
  | "PRANK" | "PRANKLOOP" =>
    let beta ← pFloat
    let teams ← pTeams
    pure ("OK " ++ " ".intercalate ((if op == "PRANKLOOP" then predictRankLoop beta teams else predictRank beta teams).map (fun x => s!"{x.1}:{toHex x.2}")))
  | "LEAF" =>
    let fn ← tok
    let x ← pFloat
    let t ← pFloat
    let r : Float ← match fn with
      | "v" => pure (vCode x t) | "w" => pure (wCode x t)
      | "vt" => pure (vtCode x t) | "wt" => pure (wtCode x t)
      | "vx" => pure (vExact x t) | "wx" => pure (wExact x t)
      | "vtx" => pure (vtExact x t) | "wtx" => pure (wtExact x t)
      | "wtl" => pure (wtLegacy x t)
      | "Phi" => pure (PhiF x) | "phi" => pure (phiF x) | "PhiInv" => pure (PhiInvF x)
      | f => throw s!"bad-leaf {f}"
    pure ("OK " ++ toHex r)
  | "CMP" =>
    let o ← tok
    let ma ← pFloat
    let sa ← pFloat
    let same ← pBool
    let mb ← pFloat
    let sb ← pFloat
    let a : Rating Float := { id := 0, mu := ma, sigma := sa }
    let b : Operand Float := if same then .same { id := 1, mu := mb, sigma := sb } else .foreign
    if o == "eq" then pure (if eqOp a b then "True" else "False")
    else
      let op ← match o with
        | "lt" => pure CmpOp.lt | "le" => pure CmpOp.le | "gt" => pure CmpOp.gt | "ge" => pure CmpOp.ge
        | t => throw s!"bad-cmp {t}"
      match cmpOp op a b with
      | .bool true => pure "True"
      | .bool false => pure "False"
      | .valueError => pure "ValueError"
  | "ORD" =>
    let z ← pFloat
    let m ← pFloat
    let s ← pFloat
    pure ("OK " ++ toHex (ordinal z ({ id := 0, mu := m, sigma := s } : Rating Float)))
  | "VRATE" =>
    let k ← pKind
    let teams ← pVal
    let ranks ← pVal
    let scores ← pVal
    pure (showExc (validateRate k teams ranks scores))
  | "VPRED" =>
    let k ← pKind
    let teams ← pVal
    pure (showExc (validatePredict k teams))
  | t => throw s!"bad-op {t}"

def handleLine (line : String) : String :=
  let toks := (line.splitOn " ").filter (· ≠ "")
  match (runOp.run toks) with
  | .ok (s, []) => s
  | .ok (_, rest) => s!"PARSE-ERROR trailing {rest.length}"
  | .error e => s!"PARSE-ERROR {e}"

partial def loop (h : IO.FS.Stream) (out : IO.FS.Stream) : IO Unit := do
  let line ← h.getLine
  if line.isEmpty then return ()
  let l := (line.dropEndWhile (fun c => c == '\n' || c == '\r')).toString
  out.putStrLn (handleLine l)
  loop h out

def main : IO Unit := do
  let out ← IO.getStdout
  loop (← IO.getStdin) out
  out.flush
