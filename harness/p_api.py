# stub
