import OSProofs.Props.C20
import OSProofs.Props.C20b
import OSProofs.Props.C20c
import OSProofs.Props.Gamma
#print axioms OS.C20_rating_given
#print axioms OS.C20_rating_defaults
#print axioms OS.C20_create_rating
#print axioms OS.C20_deepcopy
#print axioms OS.teamAgg_reid
#print axioms OS.C20_predict_reid
#print axioms OS.omegaDelta_reid
#print axioms OS.compute_reid
#print axioms OS.inflate_reid
#print axioms OS.clampTeams_reid
#print axioms OS.unwind_reid
#print axioms OS.C20_rateCore_reid
#print axioms OS.C20_rate_reid
#print axioms OS.C20_rate_values
#print axioms OS.C20_rate_values_of_eq
#print axioms OS.C20_rateCore_values_of_eq
#print axioms OS.C20_rate_rebuilt
#print axioms OS.C20_rate_setIds
#print axioms OS.storeBack_not_mem
#print axioms OS.storeBack_mem
#print axioms OS.storeBackPos_eq_storeBack
#print axioms OS.playGame_untouched
#print axioms OS.playGame_stored
#print axioms OS.C20_playGame_of_values_ids
#print axioms OS.C20_rate_load_reid
#print axioms OS.C20_playGamePos_eq_playGame
#print axioms OS.C20_playGamePos_rebuilt
#print axioms OS.C20_playGamePos_reid
#print axioms OS.C20_playGame_rebuild
#print axioms OS.C20_league_rebuild_general
#print axioms OS.C20_league_rebuild
#print axioms OS.C20_league_rebuild_prefix
#print axioms OS.C20_league_rebuild_fresh
#print axioms OS.C20_reid_any_gamma
#print axioms OS.C20_rate_reid_tagged
#print axioms OS.C20_rate_values_of_eq_tagged
#print axioms OS.C20_rate_rebuilt_tagged
#print axioms OS.C20_rate_setIds_tagged
#print axioms OS.Gamma_fn_idInv
