import OSModel
/-!
# The validation code, as a program of the embedded statement language, computes the model's verdicts

`canonCheckTeams` / `canonRateHead` are the translation (tools/py2lean.py) of `_check_teams` and of the head of `rate` as they stand in
the pinned tree; the five model files give the same program.  The two theorems say that running the program with the semantics `exec`
of `OSModel/VLang.lean` yields exactly `checkTeams` / `validateRate` — for every model kind and EVERY argument triple of dynamic values.
`OSProofs/GenValTie.lean` (generated from the current source on every run) applies them to the freshly translated programs via `rfl`.
-/
namespace OS
namespace VLangTie

def canonCheckTeams : VStmt :=
  (.ite (.isList "teams") (.seq (.ite (.lenLt "teams" 2) (.raise .ValueError) .pass) (.forIn "team" "teams" (.ite (.isList "team") (.seq (.ite (.lenLt "team" 1) (.raise .ValueError) .pass) (.forIn "player" "team" (.ite (.isOwnRating "player") .pass (.raise .TypeError)))) (.raise .TypeError)))) (.raise .TypeError))

def canonRateHead : VStmt :=
  (.seq (.seq (.ite (.isList "teams") (.seq (.ite (.lenLt "teams" 2) (.raise .ValueError) .pass) (.forIn "team" "teams" (.ite (.isList "team") (.seq (.ite (.lenLt "team" 1) (.raise .ValueError) .pass) (.forIn "player" "team" (.ite (.isOwnRating "player") .pass (.raise .TypeError)))) (.raise .TypeError)))) (.raise .TypeError)) (.ite (.truthy "ranks") (.seq (.ite (.isList "ranks") (.seq (.ite (.lenNe "ranks" "teams") (.raise .ValueError) .pass) (.forIn "rank" "ranks" (.ite (.isNumber "rank") .pass (.raise .TypeError)))) (.raise .TypeError)) (.ite (.truthy "scores") (.raise .ValueError) .pass)) .pass)) (.ite (.truthy "scores") (.ite (.isList "scores") (.seq (.ite (.lenNe "scores" "teams") (.raise .ValueError) .pass) (.forIn "score" "scores" (.ite (.isNumber "score") .pass (.raise .TypeError)))) (.raise .TypeError)) .pass))

/-! ## helper lemmas (prefix `vl_`) -/

theorem vl_get_hd (x : String) (v : PyVal) (env : VEnv) : VEnv.get ((x, v) :: env) x = v := by
  simp [VEnv.get, List.find?]

theorem vl_get_tl (x y : String) (v : PyVal) (env : VEnv) (h : (y == x) = false) :
    VEnv.get ((y, v) :: env) x = VEnv.get env x := by
  simp [VEnv.get, List.find?, h]

def vl_playerBody : VStmt := .ite (.isOwnRating "player") .pass (.raise .TypeError)

theorem vl_player_body (k : Kind) (env : VEnv) (x : PyVal) :
    exec k vl_playerBody (("player", x) :: env)
      = if x.isRatingOf k then .ok () else .error .TypeError := by
  simp only [vl_playerBody, exec, evalTest, vl_get_hd]
  cases x.isRatingOf k <;> rfl

theorem vl_execFor_players (k : Kind) (env : VEnv) (l : List PyVal) :
    execFor (fun x => exec k vl_playerBody (("player", x) :: env)) l = checkPlayers k l := by
  induction l with
  | nil => rfl
  | cons a l ih =>
    rw [execFor, vl_player_body, checkPlayers]
    cases a.isRatingOf k
    · rfl
    · exact ih

def vl_numBody (v : String) : VStmt := .ite (.isNumber v) .pass (.raise .TypeError)

theorem vl_num_body (k : Kind) (v : String) (env : VEnv) (x : PyVal) :
    exec k (vl_numBody v) ((v, x) :: env)
      = if x.isNumber then .ok () else .error .TypeError := by
  simp only [vl_numBody, exec, evalTest, vl_get_hd]
  cases x.isNumber <;> rfl

theorem vl_execFor_numbers (k : Kind) (v : String) (env : VEnv) (l : List PyVal) :
    execFor (fun x => exec k (vl_numBody v) ((v, x) :: env)) l = checkNumbers l := by
  induction l with
  | nil => rfl
  | cons a l ih =>
    rw [execFor, vl_num_body, checkNumbers]
    cases a.isNumber
    · rfl
    · exact ih

def vl_teamBody : VStmt :=
  .ite (.isList "team")
    (.seq (.ite (.lenLt "team" 1) (.raise .ValueError) .pass) (.forIn "player" "team" vl_playerBody))
    (.raise .TypeError)

theorem vl_team_body (k : Kind) (env : VEnv) (x : PyVal) :
    exec k vl_teamBody (("team", x) :: env)
      = match x with
        | .list players =>
          if players.length < 1 then .error .ValueError
          else match checkPlayers k players with
            | .ok () => .ok ()
            | .error e => .error e
        | _ => .error .TypeError := by
  cases x <;> simp only [vl_teamBody, exec, evalTest, vl_get_hd]
  case list xs =>
    simp only [PyVal.len?, PyVal.elems?, vl_execFor_players]
    by_cases h : xs.length < 1
    · simp [h]
    · simp only [h, decide_false, if_false]
      cases checkPlayers k xs <;> rfl

theorem vl_execFor_teams (k : Kind) (env : VEnv) (l : List PyVal) :
    execFor (fun x => exec k vl_teamBody (("team", x) :: env)) l = checkTeamList k l := by
  induction l with
  | nil => rfl
  | cons a l ih =>
    rw [execFor, vl_team_body]
    cases a <;> simp only [checkTeamList]
    case list xs =>
      by_cases h : xs.length < 1
      · simp [h]
      · simp only [h, if_false]
        cases hc : checkPlayers k xs with
        | error e => rfl
        | ok u => cases u; exact ih

def vl_teamsProg : VStmt :=
  .ite (.isList "teams")
    (.seq (.ite (.lenLt "teams" 2) (.raise .ValueError) .pass) (.forIn "team" "teams" vl_teamBody))
    (.raise .TypeError)

theorem vl_exec_teamsProg (k : Kind) (env : VEnv) :
    exec k vl_teamsProg env = checkTeams k (env.get "teams") := by
  simp only [vl_teamsProg, exec, evalTest]
  cases env.get "teams" <;> simp only [checkTeams]
  case list xs =>
    simp only [PyVal.len?, PyVal.elems?, vl_execFor_teams]
    by_cases h : xs.length < 2
    · simp [h]
    · simp only [h, decide_false, if_false]

def vl_selProg (name var : String) : VStmt :=
  .ite (.isList name)
    (.seq (.ite (.lenNe name "teams") (.raise .ValueError) .pass) (.forIn var name (vl_numBody var)))
    (.raise .TypeError)

def vl_selSpec (n : Nat) : PyVal → Except PyExc Unit
  | .list xs => if xs.length != n then .error .ValueError else checkNumbers xs
  | _ => .error .TypeError

theorem vl_checkSelector (n : Nat) (v : PyVal) :
    checkSelector n v = if v.truthy then vl_selSpec n v else .ok () := by
  cases v <;> rfl

theorem vl_exec_selProg (k : Kind) (env : VEnv) (name var : String) (ts : List PyVal)
    (ht : env.get "teams" = .list ts) :
    exec k (vl_selProg name var) env
      = vl_selSpec ts.length (env.get name) := by
  simp only [vl_selProg, exec, evalTest, ht]
  cases env.get name <;> simp only [vl_selSpec]
  case list xs =>
    simp only [PyVal.len?, PyVal.elems?, vl_execFor_numbers]
    cases h : (xs.length != ts.length) <;> simp

theorem vl_rateHead_shape : canonRateHead =
    .seq (.seq vl_teamsProg
            (.ite (.truthy "ranks")
              (.seq (vl_selProg "ranks" "rank") (.ite (.truthy "scores") (.raise .ValueError) .pass))
              .pass))
         (.ite (.truthy "scores") (vl_selProg "scores" "score") .pass) := rfl

theorem vl_env_teams (t r s : PyVal) :
    VEnv.get [("teams", t), ("ranks", r), ("scores", s)] "teams" = t := vl_get_hd _ _ _
theorem vl_env_ranks (t r s : PyVal) :
    VEnv.get [("teams", t), ("ranks", r), ("scores", s)] "ranks" = r := by
  rw [vl_get_tl _ _ _ _ (by decide)]; exact vl_get_hd _ _ _
theorem vl_env_scores (t r s : PyVal) :
    VEnv.get [("teams", t), ("ranks", r), ("scores", s)] "scores" = s := by
  rw [vl_get_tl _ _ _ _ (by decide), vl_get_tl _ _ _ _ (by decide)]; exact vl_get_hd _ _ _

theorem vl_checkTeams_ok (k : Kind) (t : PyVal) (h : checkTeams k t = .ok ()) :
    ∃ ts, t = .list ts := by
  cases t <;> simp [checkTeams] at h
  exact ⟨_, rfl⟩

theorem vl_checkTeams_shape : canonCheckTeams = vl_teamsProg := rfl

/-- `_check_teams` as written = `checkTeams` of the model -/
theorem exec_checkTeams (k : Kind) (p : VStmt) (h : p = canonCheckTeams) (t : PyVal) :
    exec k p [("teams", t)] = checkTeams k t := by
  subst h
  rw [vl_checkTeams_shape, vl_exec_teamsProg, vl_get_hd]

/-- the validation head of `rate` as written = `validateRate` of the model -/
theorem exec_rateHead (k : Kind) (p : VStmt) (h : p = canonRateHead) (t r s : PyVal) :
    exec k p [("teams", t), ("ranks", r), ("scores", s)] = validateRate k t r s := by
  subst h
  rw [vl_rateHead_shape]
  simp only [exec, vl_exec_teamsProg, evalTest, vl_env_teams, vl_env_ranks, vl_env_scores, validateRate]
  cases hct : checkTeams k t with
  | error e => rfl
  | ok u =>
    cases u
    obtain ⟨ts, rfl⟩ := vl_checkTeams_ok k t hct
    simp only [vl_exec_selProg k _ _ _ ts (vl_env_teams _ _ _), vl_env_ranks, vl_env_scores,
      vl_checkSelector, teamCount]
    generalize vl_selSpec ts.length r = A
    generalize vl_selSpec ts.length s = B
    cases r.truthy <;> cases s.truthy <;> rcases A with _ | ⟨⟨⟩⟩ <;> rfl

end VLangTie
end OS
