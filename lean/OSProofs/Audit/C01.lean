import OSProofs.Props.C01
import OSProofs.Props.C01b
import OSProofs.CodeShaped
import OSProofs.Ladder
#print axioms OS.C01_PL
#print axioms OS.C01_BTF
#print axioms OS.C01_BTP
#print axioms OS.C01_TMF
#print axioms OS.C01_TMP
#print axioms OS.C01_omegaDelta
#print axioms OS.C01_player
#print axioms OS.C01_teamAgg
#print axioms OS.C01_inflate_sq
#print axioms OS.C01_teamAgg_inflate
#print axioms OS.C01_compute
#print axioms OS.C01_rate_omitted
#print axioms OS.C01_rate_ranked
#print axioms OS.C01_rate_ranked_full
#print axioms OS.C01_rate_clamped
#print axioms OS.plSumQCode_eq
#print axioms OS.plSumQCode_eq_generic
#print axioms OS.plSumQCode_eq_denseRanks
#print axioms OS.plSumQCode_eq_range
#print axioms OS.denseRanks_nondecreasing
#print axioms OS.ladderPairsCode_eq
#print axioms OS.ladderPairsCode_getElem
#print axioms OS.rateCore_via_prepared
#print axioms OS.compute_eq_computeOn
