import OSProofs.Gauss
import Mathlib.Tactic.FieldSimp
import Mathlib.Tactic.Ring
import Mathlib.Tactic.Linarith
import Mathlib.Tactic.Positivity
import Mathlib.Analysis.Real.Pi.Bounds
import Mathlib.Analysis.Complex.ExponentialBounds

/-!
# More Gaussian facts (G6 in ratio form, G8b, G8c, G9)

* `trunc_ratio_mem`   : the truncated mean, as a ratio, lies strictly inside the truncation interval
* `mills_ratio_gt`    : V(u) = φ(u)/Φ(u) > −u
* `Wt_mul_Z_le` (G8b) : (bφ(b) − aφ(a))·Z + (φ(a) − φ(b))² ≤ Z², i.e. truncated variance ≥ 0, W̃ ≤ 1;
                        proved from the antiderivative `varPrim` of `(Z z − I₁)² φ(z)` (monotone)
* limits at −∞ of `u²φ, uφ, φ, u²Φ, uΦ, u³Φ`
* `kS_pos`            : (1+u²)Φ(u) + uφ(u) > 0      (lower Mills bound)
* `sampford` (G8c)    : V(u)(V(u)+u) < 1           (via `hS = Φ² − uφΦ − φ²`, `hS' = φ·kS`)
* `mS_neg`            : −(u³+3u)Φ(u) < (u²+2)φ(u)  (upper Mills bound, `mS' = −3 kS`)
* `mills_ratio_add_lt/gt`, `sampford_lower` : −u/(u²+2) < V+u < 1/(−u), W > u²(u²+3)/(u²+2)²
* `Phi_neg_eight_gt` (G9) : Φ(−8) > 6·10⁻¹⁶
-/

noncomputable section
open Real MeasureTheory intervalIntegral Set Filter Topology

namespace Gauss

theorem Z_pos {a b : ℝ} (hab : a < b) : 0 < Phi b - Phi a := sub_pos.mpr (Phi_strictMono hab)

theorem lt_of_Z_pos {a b : ℝ} (h : 0 < Phi b - Phi a) : a < b :=
  Phi_strictMono.lt_iff_lt.mp (sub_pos.mp h)

/-- G6 in ratio form: a < (φ(a) − φ(b)) / (Φ(b) − Φ(a)) < b -/
theorem trunc_ratio_mem {a b : ℝ} (hab : a < b) :
    a < (phi a - phi b) / (Phi b - Phi a) ∧ (phi a - phi b) / (Phi b - Phi a) < b := by
  obtain ⟨ξ, ⟨h1, h2⟩, h⟩ := trunc_mean_mem hab
  have hZ := Z_pos hab
  have : (phi a - phi b) / (Phi b - Phi a) = ξ := by
    rw [h]; field_simp
  rw [this]; exact ⟨h1, h2⟩

/-- G5 in ratio form: V(u) = φ(u)/Φ(u) > −u -/
theorem mills_ratio_gt (u : ℝ) : -u < phi u / Phi u := by
  have hP := Phi_pos u
  rw [lt_div_iff₀ hP]
  have := mills u
  linarith

/-- V(u) + u = (φ(u) + uΦ(u))/Φ(u) > 0 -/
theorem mills_ratio_add_pos (u : ℝ) : 0 < phi u / Phi u + u := by
  have := mills_ratio_gt u; linarith

theorem mills_ratio_pos (u : ℝ) : 0 < phi u / Phi u := div_pos (phi_pos u) (Phi_pos u)

/-! ### G8b: the variance of the truncated normal is non-negative, hence W̃ ≤ 1 -/

/-- antiderivative of `(c₁ z − c₂)² φ(z)` -/
def varPrim (c₁ c₂ : ℝ) (z : ℝ) : ℝ :=
  c₁ ^ 2 * (Phi z - z * phi z) + 2 * c₁ * c₂ * phi z + c₂ ^ 2 * Phi z

theorem varPrim_hasDerivAt (c₁ c₂ z : ℝ) :
    HasDerivAt (varPrim c₁ c₂) ((c₁ * z - c₂) ^ 2 * phi z) z := by
  unfold varPrim
  have h := ((((Phi_hasDerivAt z).sub (uphi_hasDerivAt z)).const_mul (c₁ ^ 2)).add
    ((phi_hasDerivAt z).const_mul (2 * c₁ * c₂))).add ((Phi_hasDerivAt z).const_mul (c₂ ^ 2))
  refine h.congr_deriv ?_
  ring

theorem varPrim_monotone (c₁ c₂ : ℝ) : Monotone (varPrim c₁ c₂) := by
  apply monotone_of_deriv_nonneg
  · intro z; exact (varPrim_hasDerivAt c₁ c₂ z).differentiableAt
  · intro z; rw [(varPrim_hasDerivAt c₁ c₂ z).deriv]
    exact mul_nonneg (sq_nonneg _) (phi_pos z).le

/-- G8b: `Z·(Z² − (bφ(b) − aφ(a))·Z − (φ(a) − φ(b))²) = Z²·∫ₐᵇ (z − m)² φ ≥ 0`, so the numerator of
`1 − W̃` is non-negative. -/
theorem Wt_mul_Z_le {a b : ℝ} (hab : a < b) :
    (b * phi b - a * phi a) * (Phi b - Phi a) + (phi a - phi b) ^ 2 ≤ (Phi b - Phi a) ^ 2 := by
  have hZ := Z_pos hab
  have hm := varPrim_monotone (Phi b - Phi a) (phi a - phi b) hab.le
  have key : varPrim (Phi b - Phi a) (phi a - phi b) b - varPrim (Phi b - Phi a) (phi a - phi b) a
      = (Phi b - Phi a) * ((Phi b - Phi a) ^ 2
          - ((b * phi b - a * phi a) * (Phi b - Phi a) + (phi a - phi b) ^ 2)) := by
    unfold varPrim; ring
  have h0 : 0 ≤ (Phi b - Phi a) * ((Phi b - Phi a) ^ 2
          - ((b * phi b - a * phi a) * (Phi b - Phi a) + (phi a - phi b) ^ 2)) := by
    rw [← key]; linarith
  have := nonneg_of_mul_nonneg_right h0 hZ
  linarith

/-! ### limits at −∞ -/

theorem sq_mul_phi_tendsto_atBot : Tendsto (fun u : ℝ => u ^ 2 * phi u) atBot (𝓝 0) := by
  have h1 : Tendsto (fun u : ℝ => u ^ 2 / 2) atBot atTop := by
    have : Tendsto (fun u : ℝ => (-u) ^ 2) atBot atTop :=
      (tendsto_pow_atTop (two_ne_zero)).comp tendsto_neg_atBot_atTop
    simp only [neg_sq] at this
    exact this.atTop_div_const (by norm_num)
  have h2 := (Real.tendsto_pow_mul_exp_neg_atTop_nhds_zero 1).comp h1
  have h3 := h2.const_mul (2 / Real.sqrt (2 * π))
  simp only [mul_zero] at h3
  refine h3.congr (fun u => ?_)
  simp only [Function.comp_apply, phi, pow_one]
  have : -(u ^ 2) / 2 = -(u ^ 2 / 2) := by ring
  rw [this]; ring

theorem abs_le_sq_of_le_neg_one {u : ℝ} (hu : u ≤ -1) : |u| ≤ u ^ 2 := by
  rw [abs_of_neg (by linarith)]; nlinarith

theorem one_le_sq_of_le_neg_one {u : ℝ} (hu : u ≤ -1) : 1 ≤ u ^ 2 := by nlinarith

theorem mul_phi_tendsto_atBot : Tendsto (fun u : ℝ => u * phi u) atBot (𝓝 0) := by
  refine squeeze_zero_norm' ?_ sq_mul_phi_tendsto_atBot
  filter_upwards [eventually_le_atBot (-1 : ℝ)] with u hu
  rw [Real.norm_eq_abs, abs_mul, abs_of_pos (phi_pos u)]
  exact mul_le_mul_of_nonneg_right (abs_le_sq_of_le_neg_one hu) (phi_pos u).le

theorem phi_tendsto_atBot : Tendsto phi atBot (𝓝 0) := by
  refine squeeze_zero_norm' ?_ sq_mul_phi_tendsto_atBot
  filter_upwards [eventually_le_atBot (-1 : ℝ)] with u hu
  rw [Real.norm_eq_abs, abs_of_pos (phi_pos u)]
  have := mul_le_mul_of_nonneg_right (one_le_sq_of_le_neg_one hu) (phi_pos u).le
  linarith

theorem sq_mul_Phi_tendsto_atBot : Tendsto (fun u : ℝ => u ^ 2 * Phi u) atBot (𝓝 0) := by
  have hz : Tendsto (fun u : ℝ => -(u * phi u)) atBot (𝓝 0) := by
    simpa using mul_phi_tendsto_atBot.neg
  refine squeeze_zero_norm' ?_ hz
  filter_upwards [eventually_lt_atBot (0 : ℝ)] with u hu
  rw [Real.norm_eq_abs, abs_of_nonneg (mul_nonneg (sq_nonneg u) (Phi_nonneg u))]
  have hm := mills u
  nlinarith

/-! ### G8c: Sampford's inequality V(u)·(V(u) + u) < 1 -/

/-- `k(u) = (1 + u²) Φ(u) + u φ(u)`; `k' = 2(φ + uΦ) > 0`, `k(−∞) = 0`. -/
def kS (u : ℝ) : ℝ := (1 + u ^ 2) * Phi u + u * phi u

theorem kS_hasDerivAt (u : ℝ) : HasDerivAt kS (2 * (phi u + u * Phi u)) u := by
  unfold kS
  have hq : HasDerivAt (fun u : ℝ => 1 + u ^ 2) (2 * u) u := by
    have h := ((hasDerivAt_id' u).fun_pow 2).const_add 1
    refine h.congr_deriv ?_
    simp
  have h := (hq.mul (Phi_hasDerivAt u)).add (uphi_hasDerivAt u)
  refine h.congr_deriv ?_
  ring

theorem kS_strictMono : StrictMono kS := by
  apply strictMono_of_deriv_pos
  intro u; rw [(kS_hasDerivAt u).deriv]
  have := mills u; linarith

theorem kS_tendsto_atBot : Tendsto kS atBot (𝓝 0) := by
  have h := (Phi_tendsto_atBot.add sq_mul_Phi_tendsto_atBot).add mul_phi_tendsto_atBot
  simp only [add_zero] at h
  refine h.congr (fun u => ?_)
  unfold kS; ring

/-- lower Mills bound: (1 + u²) Φ(u) + u φ(u) > 0 -/
theorem kS_pos (u : ℝ) : 0 < kS u :=
  lt_of_le_of_lt (kS_strictMono.monotone.le_of_tendsto kS_tendsto_atBot (u - 1))
    (kS_strictMono (by linarith))

/-- `h(u) = Φ² − uφΦ − φ²`; `h' = φ·k > 0`, `h(−∞) = 0`. -/
def hS (u : ℝ) : ℝ := Phi u ^ 2 - u * phi u * Phi u - phi u ^ 2

theorem hS_hasDerivAt (u : ℝ) : HasDerivAt hS (phi u * kS u) u := by
  unfold hS kS
  have h := (((Phi_hasDerivAt u).fun_pow 2).sub ((uphi_hasDerivAt u).mul (Phi_hasDerivAt u))).sub
    ((phi_hasDerivAt u).fun_pow 2)
  refine h.congr_deriv ?_
  simp; ring

theorem hS_strictMono : StrictMono hS := by
  apply strictMono_of_deriv_pos
  intro u; rw [(hS_hasDerivAt u).deriv]
  exact mul_pos (phi_pos u) (kS_pos u)

theorem hS_tendsto_atBot : Tendsto hS atBot (𝓝 0) := by
  have h := ((Phi_tendsto_atBot.pow 2).sub (mul_phi_tendsto_atBot.mul Phi_tendsto_atBot)).sub
    (phi_tendsto_atBot.pow 2)
  simp at h
  exact h

theorem hS_pos (u : ℝ) : 0 < hS u :=
  lt_of_le_of_lt (hS_strictMono.monotone.le_of_tendsto hS_tendsto_atBot (u - 1))
    (hS_strictMono (by linarith))

/-- G8c (Sampford): W(u) = V(u)(V(u) + u) < 1 with V = φ/Φ -/
theorem sampford (u : ℝ) : phi u / Phi u * (phi u / Phi u + u) < 1 := by
  have hP := Phi_pos u
  have h := hS_pos u
  unfold hS at h
  have : phi u / Phi u * (phi u / Phi u + u) = (phi u ^ 2 + u * phi u * Phi u) / Phi u ^ 2 := by
    field_simp
  rw [this, div_lt_one (by positivity)]
  linarith

/-! ### sharper tail bounds: V(u) + u ∈ (−u/(u²+2), 1/(−u)) for u < 0, and 1 − W(u) < (u²+4)/(u²+2)² -/

theorem mul_Phi_tendsto_atBot : Tendsto (fun u : ℝ => u * Phi u) atBot (𝓝 0) := by
  refine squeeze_zero_norm' ?_ phi_tendsto_atBot
  filter_upwards [eventually_lt_atBot (0 : ℝ)] with u hu
  rw [Real.norm_eq_abs, abs_of_nonpos (mul_nonpos_of_nonpos_of_nonneg hu.le (Phi_nonneg u))]
  have hm := mills u
  linarith

theorem cube_mul_Phi_tendsto_atBot : Tendsto (fun u : ℝ => u ^ 3 * Phi u) atBot (𝓝 0) := by
  refine squeeze_zero_norm' ?_ sq_mul_phi_tendsto_atBot
  filter_upwards [eventually_lt_atBot (0 : ℝ)] with u hu
  have h3 : u ^ 3 * Phi u ≤ 0 :=
    mul_nonpos_of_nonpos_of_nonneg (by have := pow_pos (neg_pos.mpr hu) 3; nlinarith) (Phi_nonneg u)
  rw [Real.norm_eq_abs, abs_of_nonpos h3]
  have hm := mills u
  have hu2 : 0 ≤ u ^ 2 := sq_nonneg u
  nlinarith [mul_nonneg hu2 hm.le]

/-- `m(u) = −(u³+3u) Φ(u) − (u²+2) φ(u)`; `m' = −3k < 0`, `m(−∞) = 0`. -/
def mS (u : ℝ) : ℝ := -(u ^ 3 + 3 * u) * Phi u - (u ^ 2 + 2) * phi u

theorem mS_hasDerivAt (u : ℝ) : HasDerivAt mS (-3 * kS u) u := by
  unfold mS kS
  have hp : HasDerivAt (fun u : ℝ => -(u ^ 3 + 3 * u)) (-(3 * u ^ 2 + 3)) u := by
    have h := ((((hasDerivAt_id' u).fun_pow 3)).add ((hasDerivAt_id' u).const_mul 3)).fun_neg
    refine h.congr_deriv ?_
    simp
  have hq : HasDerivAt (fun u : ℝ => u ^ 2 + 2) (2 * u) u := by
    have h := ((hasDerivAt_id' u).fun_pow 2).add_const 2
    refine h.congr_deriv ?_
    simp
  have h := (hp.mul (Phi_hasDerivAt u)).sub (hq.mul (phi_hasDerivAt u))
  refine h.congr_deriv ?_
  ring

theorem mS_strictAnti : StrictAnti mS := by
  apply strictAnti_of_deriv_neg
  intro u; rw [(mS_hasDerivAt u).deriv]
  have := kS_pos u; linarith

theorem mS_tendsto_atBot : Tendsto mS atBot (𝓝 0) := by
  have h := (((cube_mul_Phi_tendsto_atBot.add (mul_Phi_tendsto_atBot.const_mul 3)).neg).sub
    (sq_mul_phi_tendsto_atBot.add (phi_tendsto_atBot.const_mul 2)))
  simp only [mul_zero, add_zero, neg_zero, sub_zero] at h
  refine h.congr (fun u => ?_)
  unfold mS; ring

/-- upper Mills-type bound: −(u³+3u) Φ(u) < (u²+2) φ(u) -/
theorem mS_neg (u : ℝ) : mS u < 0 :=
  lt_of_lt_of_le (mS_strictAnti (by linarith : u - 1 < u))
    (mS_strictAnti.antitone.ge_of_tendsto mS_tendsto_atBot (u - 1))

/-- V(u) + u < 1/(−u) for u < 0 -/
theorem mills_ratio_add_lt {u : ℝ} (hu : u < 0) : phi u / Phi u + u < 1 / (-u) := by
  have hP := Phi_pos u
  have hk := kS_pos u
  unfold kS at hk
  have hnu : 0 < -u := neg_pos.mpr hu
  have : phi u / Phi u + u = (phi u + u * Phi u) / Phi u := by field_simp
  rw [this, div_lt_div_iff₀ hP hnu]
  nlinarith

/-- V(u) + u > −u/(u²+2) (informative for u < 0) -/
theorem mills_ratio_add_gt (u : ℝ) : -u / (u ^ 2 + 2) < phi u / Phi u + u := by
  have hP := Phi_pos u
  have hm := mS_neg u
  unfold mS at hm
  have hq : 0 < u ^ 2 + 2 := by positivity
  have : phi u / Phi u + u = (phi u + u * Phi u) / Phi u := by field_simp
  rw [this, div_lt_div_iff₀ hq hP]
  nlinarith

/-- lower companion of Sampford's inequality: W(u) > u²(u²+3)/(u²+2)² for u < 0 -/
theorem sampford_lower {u : ℝ} (hu : u < 0) :
    u ^ 2 * (u ^ 2 + 3) / (u ^ 2 + 2) ^ 2 < phi u / Phi u * (phi u / Phi u + u) := by
  have h1 := mills_ratio_add_gt u
  have hnu : 0 < -u := neg_pos.mpr hu
  have hq : 0 < u ^ 2 + 2 := by positivity
  have h0 : 0 < -u / (u ^ 2 + 2) := div_pos hnu hq
  have h2 : -u + -u / (u ^ 2 + 2) < phi u / Phi u := by linarith
  have h3 : 0 < -u + -u / (u ^ 2 + 2) := by linarith
  have : u ^ 2 * (u ^ 2 + 3) / (u ^ 2 + 2) ^ 2 = (-u + -u / (u ^ 2 + 2)) * (-u / (u ^ 2 + 2)) := by
    field_simp; ring
  rw [this]
  exact mul_lt_mul'' h2 h1 h3.le h0.le

/-! ### G9: Φ(−8) > 2⁻⁵² -/

theorem exp_32_lt : Real.exp 32 < 8 * 10 ^ 13 := by
  have h := Real.exp_one_lt_d9
  have h32 : Real.exp 32 = Real.exp 1 ^ 32 := by
    rw [← Real.exp_nat_mul]; norm_num
  rw [h32]
  calc Real.exp 1 ^ 32 < (2.7182818286 : ℝ) ^ 32 :=
        pow_lt_pow_left₀ h (Real.exp_pos 1).le (by norm_num)
    _ < 8 * 10 ^ 13 := by norm_num

theorem sqrt_two_pi_lt : Real.sqrt (2 * π) < 2.51 := by
  rw [Real.sqrt_lt' (by norm_num)]
  have := Real.pi_lt_d2
  norm_num; linarith

theorem phi_neg_eight_gt : 1 / (2.51 * (8 * 10 ^ 13)) < phi (-8) := by
  unfold phi
  have h1 : -((-8 : ℝ) ^ 2) / 2 = -32 := by norm_num
  rw [h1, Real.exp_neg, inv_eq_one_div, div_div]
  have hs : 0 < Real.sqrt (2 * π) := Real.sqrt_pos.mpr (by positivity)
  apply one_div_lt_one_div_of_lt (mul_pos (Real.exp_pos 32) hs)
  calc Real.exp 32 * Real.sqrt (2 * π) < (8 * 10 ^ 13) * 2.51 :=
        mul_lt_mul'' exp_32_lt sqrt_two_pi_lt (Real.exp_pos 32).le hs.le
    _ = 2.51 * (8 * 10 ^ 13) := by ring

/-- G9: Φ(−8) > 6·10⁻¹⁶ > 2⁻⁵² -/
theorem Phi_neg_eight_gt : 6 / 10 ^ 16 < Phi (-8) := by
  have hk := kS_pos (-8)
  unfold kS at hk
  have hp := phi_neg_eight_gt
  have : (1 : ℝ) / (2.51 * (8 * 10 ^ 13)) > 4.98 / 10 ^ 15 := by norm_num
  norm_num at hk ⊢
  linarith

end Gauss
end
