import OSProofs.MonoArith
import OSProofs.RealInst
import Mathlib.Algebra.Order.Floor.Ring
import Mathlib.Tactic.Positivity
import Mathlib.Tactic.Linarith
import Mathlib.Tactic.Ring
import Mathlib.Tactic.FieldSimp

/-!
# The order laws `MonoArith` hold for ℝ and for every monotone rounding of ℝ

* `MonoArith.real : MonoArith ℝ` — the laws are true of the exact arithmetic;
* `Rounding`, `RN r`, `instance : Scalar (RN r)` — "compute exactly, then round" for an arbitrary
  monotone, idempotent, odd rounding that fixes the natural numbers;
* `MonoArith.rn r : MonoArith (RN r)` — every listed law survives every such rounding;
* `truncRounding k` — rounding toward zero to multiples of `1/2^k`: a concrete, genuinely lossy
  rounding (`truncRounding_lossy`), so the class is not only inhabited by the identity.
-/

noncomputable section
namespace OS
open Scalar

/-! ### ℝ -/

theorem MonoArith.real : MonoArith ℝ where
  le_refl' a := le_refl a
  le_trans' := le_trans
  le_total' := le_total
  lt_iff_not_le' := lt_iff_not_ge
  add_le_add' := add_le_add
  add_nonneg' := by intro a b ha hb; simp only [sc_ofNat, Nat.cast_zero] at *; exact add_nonneg ha hb
  add_nonpos' := by intro a b ha hb; simp only [sc_ofNat, Nat.cast_zero] at *; exact add_nonpos ha hb
  le_add_right' := by intro a b hb; simp only [sc_ofNat, Nat.cast_zero] at *; linarith
  le_add_left' := by intro a b hb; simp only [sc_ofNat, Nat.cast_zero] at *; linarith
  add_le_right' := by intro a b hb; simp only [sc_ofNat, Nat.cast_zero] at *; linarith
  add_le_left' := by intro a b hb; simp only [sc_ofNat, Nat.cast_zero] at *; linarith
  sub_le_sub' := sub_le_sub
  sub_nonneg' := by intro a b h; simp only [sc_ofNat, Nat.cast_zero]; linarith
  sub_nonpos' := by intro a b h; simp only [sc_ofNat, Nat.cast_zero]; linarith
  sub_le_self' := by intro a b h; simp only [sc_ofNat, Nat.cast_zero] at *; linarith
  le_sub_self' := by intro a b h; simp only [sc_ofNat, Nat.cast_zero] at *; linarith
  neg_le_neg' := neg_le_neg
  neg_nonneg' := by intro a h; simp only [sc_ofNat, Nat.cast_zero] at *; linarith
  neg_nonpos' := by intro a h; simp only [sc_ofNat, Nat.cast_zero] at *; linarith
  neg_add_le' := by intro a b; linarith
  neg_sub_le' := by intro a b; linarith
  mul_nonneg' := by intro a b ha hb; simp only [sc_ofNat, Nat.cast_zero] at *; exact mul_nonneg ha hb
  mul_nonpos_right' := by
    intro a b ha hb; simp only [sc_ofNat, Nat.cast_zero] at *; exact mul_nonpos_of_nonneg_of_nonpos ha hb
  mul_nonpos_left' := by
    intro a b ha hb; simp only [sc_ofNat, Nat.cast_zero] at *; exact mul_nonpos_of_nonpos_of_nonneg ha hb
  mul_self_nonneg' a := by simp only [sc_ofNat, Nat.cast_zero]; exact mul_self_nonneg a
  mul_le_mul' := by
    intro a b c d ha hab hc hcd; simp only [sc_ofNat, Nat.cast_zero] at *
    exact mul_le_mul hab hcd hc (ha.trans hab)
  mul_le_of_le_one_right' := by
    intro a b ha hb; simp only [sc_ofNat, Nat.cast_zero, Nat.cast_one] at *
    exact mul_le_of_le_one_right ha hb
  mul_le_of_le_one_left' := by
    intro a b ha hb; simp only [sc_ofNat, Nat.cast_zero, Nat.cast_one] at *
    exact mul_le_of_le_one_left ha hb
  le_mul_of_one_le_right' := by
    intro a b ha hb; simp only [sc_ofNat, Nat.cast_zero, Nat.cast_one] at *
    exact le_mul_of_one_le_right ha hb
  div_nonneg' := by
    intro a b ha hb; simp only [sc_ofNat, Nat.cast_zero] at *; exact div_nonneg ha hb.le
  div_nonpos' := by
    intro a b ha hb; simp only [sc_ofNat, Nat.cast_zero] at *; exact div_nonpos_of_nonpos_of_nonneg ha hb.le
  div_le_div_right' := by
    intro a b c hab hc; simp only [sc_ofNat, Nat.cast_zero] at *
    exact div_le_div_of_nonneg_right hab hc.le
  div_le_one' := by
    intro a b hab hb; simp only [sc_ofNat, Nat.cast_zero, Nat.cast_one] at *
    exact (div_le_one hb).2 hab
  div_self' := by
    intro a ha; simp only [sc_ofNat, Nat.cast_zero, Nat.cast_one] at *; exact div_self ha.ne'
  div_le_self' := by
    intro a b ha hb; simp only [sc_ofNat, Nat.cast_zero, Nat.cast_one] at *; exact div_le_self ha hb
  sqrt_nonneg' a := by simp only [sc_ofNat, Nat.cast_zero, sc_sqrt]; exact Real.sqrt_nonneg a
  sqrt_pos' := by
    intro a ha; simp only [sc_ofNat, Nat.cast_zero, sc_sqrt] at *; exact Real.sqrt_pos.2 ha
  sqrt_le_sqrt' := by intro a b h; simp only [sc_sqrt]; exact Real.sqrt_le_sqrt h
  sqrt_le_one' := by
    intro a h; simp only [sc_ofNat, Nat.cast_one, sc_sqrt] at *
    have h3 := Real.sqrt_le_sqrt h
    rwa [Real.sqrt_one] at h3
  exp_nonneg' a := by simp only [sc_ofNat, Nat.cast_zero, sc_exp]; exact (Real.exp_pos a).le
  Phi_nonneg' a := by simp only [sc_ofNat, Nat.cast_zero, sc_Phi]; exact Gauss.Phi_nonneg a
  Phi_le_one' a := by simp only [sc_ofNat, Nat.cast_one, sc_Phi]; exact Gauss.Phi_le_one a
  phi_nonneg' a := by simp only [sc_ofNat, Nat.cast_zero, sc_phi]; exact (Gauss.phi_pos a).le
  ofNat_le' := by intro m n h; simp only [sc_ofNat]; exact_mod_cast h
  ofNat_lt' := by intro m n h; simp only [sc_ofNat]; exact_mod_cast h
  ofNat_add' m n := by simp only [sc_ofNat, Nat.cast_add]
  ofNat_mul_div' := by
    intro m n hn; simp only [sc_ofNat, Nat.cast_mul]
    have : (n : ℝ) ≠ 0 := by exact_mod_cast hn.ne'
    field_simp

/-! ### roundings -/

/-- a rounding of the reals: monotone, idempotent, odd, fixing the natural numbers -/
structure Rounding where
  rnd : ℝ → ℝ
  mono : ∀ {x y : ℝ}, x ≤ y → rnd x ≤ rnd y
  idem : ∀ x, rnd (rnd x) = rnd x
  odd : ∀ x, rnd (-x) = -rnd x
  nat : ∀ n : ℕ, rnd (n : ℝ) = (n : ℝ)

/-- the representable numbers of a rounding -/
def RN (r : Rounding) : Type := { x : ℝ // r.rnd x = x }

namespace RN
variable {r : Rounding}

/-- round a real into the representable numbers -/
def mk (r : Rounding) (x : ℝ) : RN r := ⟨r.rnd x, r.idem x⟩

@[ext] theorem ext {a b : RN r} (h : a.1 = b.1) : a = b := Subtype.ext h

end RN

instance instScalarRN (r : Rounding) : Scalar (RN r) where
  add a b := RN.mk r (a.1 + b.1)
  sub a b := RN.mk r (a.1 - b.1)
  mul a b := RN.mk r (a.1 * b.1)
  div a b := RN.mk r (a.1 / b.1)
  neg a := ⟨-a.1, by rw [r.odd, a.2]⟩
  lt a b := a.1 < b.1
  le a b := a.1 ≤ b.1
  ofNat n := ⟨(n : ℝ), r.nat n⟩
  sqrt a := RN.mk r (Real.sqrt a.1)
  exp a := RN.mk r (Real.exp a.1)
  Phi a := RN.mk r (Gauss.Phi a.1)
  phi a := RN.mk r (Gauss.phi a.1)
  PhiInv a := RN.mk r (Gauss.PhiInv a.1)
  decLt _ _ := Classical.propDecidable _
  decLe _ _ := Classical.propDecidable _

section
variable {r : Rounding}

@[simp] theorem rn_add (a b : RN r) : (a + b).1 = r.rnd (a.1 + b.1) := rfl
@[simp] theorem rn_sub (a b : RN r) : (a - b).1 = r.rnd (a.1 - b.1) := rfl
@[simp] theorem rn_mul (a b : RN r) : (a * b).1 = r.rnd (a.1 * b.1) := rfl
@[simp] theorem rn_div (a b : RN r) : (a / b).1 = r.rnd (a.1 / b.1) := rfl
@[simp] theorem rn_neg (a : RN r) : (-a).1 = -a.1 := rfl
@[simp] theorem rn_le (a b : RN r) : a ≤ b ↔ a.1 ≤ b.1 := Iff.rfl
@[simp] theorem rn_lt (a b : RN r) : a < b ↔ a.1 < b.1 := Iff.rfl
@[simp] theorem rn_ofNat (n : ℕ) : (Scalar.ofNat n : RN r).1 = (n : ℝ) := rfl
@[simp] theorem rn_sqrt (a : RN r) : (Scalar.sqrt a).1 = r.rnd (Real.sqrt a.1) := rfl
@[simp] theorem rn_exp (a : RN r) : (Scalar.exp a).1 = r.rnd (Real.exp a.1) := rfl
@[simp] theorem rn_Phi (a : RN r) : (Scalar.Phi a).1 = r.rnd (Gauss.Phi a.1) := rfl
@[simp] theorem rn_phi (a : RN r) : (Scalar.phi a).1 = r.rnd (Gauss.phi a.1) := rfl
@[simp] theorem rn_PhiInv (a : RN r) : (Scalar.PhiInv a).1 = r.rnd (Gauss.PhiInv a.1) := rfl

theorem Rounding.zero (r : Rounding) : r.rnd 0 = 0 := by simpa using r.nat 0
theorem Rounding.one (r : Rounding) : r.rnd 1 = 1 := by simpa using r.nat 1

/-- rounding a number that is `≥` a representable number stays `≥` it -/
theorem Rounding.le_rnd (r : Rounding) (a : RN r) {x : ℝ} (h : a.1 ≤ x) : a.1 ≤ r.rnd x := by
  have := r.mono h; rwa [a.2] at this

/-- rounding a number that is `≤` a representable number stays `≤` it -/
theorem Rounding.rnd_le (r : Rounding) (a : RN r) {x : ℝ} (h : x ≤ a.1) : r.rnd x ≤ a.1 := by
  have := r.mono h; rwa [a.2] at this

theorem Rounding.rnd_nonneg (r : Rounding) {x : ℝ} (h : 0 ≤ x) : 0 ≤ r.rnd x := by
  have := r.mono h; rwa [r.zero] at this

theorem Rounding.rnd_nonpos (r : Rounding) {x : ℝ} (h : x ≤ 0) : r.rnd x ≤ 0 := by
  have := r.mono h; rwa [r.zero] at this

theorem Rounding.rnd_le_one (r : Rounding) {x : ℝ} (h : x ≤ 1) : r.rnd x ≤ 1 := by
  have := r.mono h; rwa [r.one] at this

theorem Rounding.one_le_rnd (r : Rounding) {x : ℝ} (h : 1 ≤ x) : 1 ≤ r.rnd x := by
  have := r.mono h; rwa [r.one] at this

end

theorem MonoArith.rn (r : Rounding) : MonoArith (RN r) where
  le_refl' a := le_refl a.1
  le_trans' := by intro a b c h1 h2; exact le_trans (α := ℝ) h1 h2
  le_total' a b := le_total a.1 b.1
  lt_iff_not_le' := by intro a b; exact lt_iff_not_ge (α := ℝ)
  add_le_add' := by
    intro a b c d h1 h2; simp only [rn_le, rn_add] at *; exact r.mono (add_le_add h1 h2)
  add_nonneg' := by
    intro a b ha hb; simp only [rn_le, rn_add, rn_ofNat, Nat.cast_zero] at *
    exact r.rnd_nonneg (add_nonneg ha hb)
  add_nonpos' := by
    intro a b ha hb; simp only [rn_le, rn_add, rn_ofNat, Nat.cast_zero] at *
    exact r.rnd_nonpos (add_nonpos ha hb)
  le_add_right' := by
    intro a b hb; simp only [rn_le, rn_add, rn_ofNat, Nat.cast_zero] at *
    exact r.le_rnd a (by linarith)
  le_add_left' := by
    intro a b ha; simp only [rn_le, rn_add, rn_ofNat, Nat.cast_zero] at *
    exact r.le_rnd b (by linarith)
  add_le_right' := by
    intro a b hb; simp only [rn_le, rn_add, rn_ofNat, Nat.cast_zero] at *
    exact r.rnd_le a (by linarith)
  add_le_left' := by
    intro a b ha; simp only [rn_le, rn_add, rn_ofNat, Nat.cast_zero] at *
    exact r.rnd_le b (by linarith)
  sub_le_sub' := by
    intro a b c d h1 h2; simp only [rn_le, rn_sub] at *; exact r.mono (sub_le_sub h1 h2)
  sub_nonneg' := by
    intro a b h; simp only [rn_le, rn_sub, rn_ofNat, Nat.cast_zero] at *
    exact r.rnd_nonneg (by linarith)
  sub_nonpos' := by
    intro a b h; simp only [rn_le, rn_sub, rn_ofNat, Nat.cast_zero] at *
    exact r.rnd_nonpos (by linarith)
  sub_le_self' := by
    intro a b h; simp only [rn_le, rn_sub, rn_ofNat, Nat.cast_zero] at *
    exact r.rnd_le a (by linarith)
  le_sub_self' := by
    intro a b h; simp only [rn_le, rn_sub, rn_ofNat, Nat.cast_zero] at *
    exact r.le_rnd a (by linarith)
  neg_le_neg' := by intro a b h; simp only [rn_le, rn_neg] at *; linarith
  neg_nonneg' := by intro a h; simp only [rn_le, rn_neg, rn_ofNat, Nat.cast_zero] at *; linarith
  neg_nonpos' := by intro a h; simp only [rn_le, rn_neg, rn_ofNat, Nat.cast_zero] at *; linarith
  neg_add_le' := by
    intro a b; simp only [rn_le, rn_neg, rn_add]
    rw [← r.odd]; apply le_of_eq; congr 1; ring
  neg_sub_le' := by
    intro a b; simp only [rn_le, rn_neg, rn_sub]
    rw [← r.odd]; apply le_of_eq; congr 1; ring
  mul_nonneg' := by
    intro a b ha hb; simp only [rn_le, rn_mul, rn_ofNat, Nat.cast_zero] at *
    exact r.rnd_nonneg (mul_nonneg ha hb)
  mul_nonpos_right' := by
    intro a b ha hb; simp only [rn_le, rn_mul, rn_ofNat, Nat.cast_zero] at *
    exact r.rnd_nonpos (mul_nonpos_of_nonneg_of_nonpos ha hb)
  mul_nonpos_left' := by
    intro a b ha hb; simp only [rn_le, rn_mul, rn_ofNat, Nat.cast_zero] at *
    exact r.rnd_nonpos (mul_nonpos_of_nonpos_of_nonneg ha hb)
  mul_self_nonneg' a := by
    simp only [rn_le, rn_mul, rn_ofNat, Nat.cast_zero]; exact r.rnd_nonneg (mul_self_nonneg a.1)
  mul_le_mul' := by
    intro a b c d ha hab hc hcd; simp only [rn_le, rn_mul, rn_ofNat, Nat.cast_zero] at *
    exact r.mono (mul_le_mul hab hcd hc (ha.trans hab))
  mul_le_of_le_one_right' := by
    intro a b ha hb; simp only [rn_le, rn_mul, rn_ofNat, Nat.cast_zero, Nat.cast_one] at *
    exact r.rnd_le a (mul_le_of_le_one_right ha hb)
  mul_le_of_le_one_left' := by
    intro a b ha hb; simp only [rn_le, rn_mul, rn_ofNat, Nat.cast_zero, Nat.cast_one] at *
    exact r.rnd_le b (mul_le_of_le_one_left ha hb)
  le_mul_of_one_le_right' := by
    intro a b ha hb; simp only [rn_le, rn_mul, rn_ofNat, Nat.cast_zero, Nat.cast_one] at *
    exact r.le_rnd a (le_mul_of_one_le_right ha hb)
  div_nonneg' := by
    intro a b ha hb; simp only [rn_le, rn_lt, rn_div, rn_ofNat, Nat.cast_zero] at *
    exact r.rnd_nonneg (div_nonneg ha hb.le)
  div_nonpos' := by
    intro a b ha hb; simp only [rn_le, rn_lt, rn_div, rn_ofNat, Nat.cast_zero] at *
    exact r.rnd_nonpos (div_nonpos_of_nonpos_of_nonneg ha hb.le)
  div_le_div_right' := by
    intro a b c hab hc; simp only [rn_le, rn_lt, rn_div, rn_ofNat, Nat.cast_zero] at *
    exact r.mono (div_le_div_of_nonneg_right hab hc.le)
  div_le_one' := by
    intro a b hab hb; simp only [rn_le, rn_lt, rn_div, rn_ofNat, Nat.cast_zero, Nat.cast_one] at *
    exact r.rnd_le_one ((div_le_one hb).2 hab)
  div_self' := by
    intro a ha; simp only [rn_lt, rn_ofNat, Nat.cast_zero] at ha
    apply RN.ext
    simp only [rn_div, rn_ofNat, Nat.cast_one, div_self ha.ne', r.one]
  div_le_self' := by
    intro a b ha hb; simp only [rn_le, rn_div, rn_ofNat, Nat.cast_zero, Nat.cast_one] at *
    exact r.rnd_le a (div_le_self ha hb)
  sqrt_nonneg' a := by
    simp only [rn_le, rn_sqrt, rn_ofNat, Nat.cast_zero]; exact r.rnd_nonneg (Real.sqrt_nonneg _)
  sqrt_pos' := by
    -- `a ≤ 1`: `√a ≥ a`, a representable positive number; `a ≥ 1`: `√a ≥ 1`
    intro a ha; simp only [rn_lt, rn_sqrt, rn_ofNat, Nat.cast_zero] at *
    rcases le_total a.1 1 with h1 | h1
    · have h2 : a.1 ≤ Real.sqrt a.1 := by
        have h3 := Real.sqrt_le_sqrt h1
        rw [Real.sqrt_one] at h3
        calc a.1 = Real.sqrt a.1 * Real.sqrt a.1 := (Real.mul_self_sqrt ha.le).symm
          _ ≤ Real.sqrt a.1 * 1 := mul_le_mul_of_nonneg_left h3 (Real.sqrt_nonneg _)
          _ = Real.sqrt a.1 := mul_one _
      exact lt_of_lt_of_le ha (r.le_rnd a h2)
    · have h2 : (1 : ℝ) ≤ Real.sqrt a.1 := by
        have h3 := Real.sqrt_le_sqrt h1
        rwa [Real.sqrt_one] at h3
      exact lt_of_lt_of_le one_pos (r.one_le_rnd h2)
  sqrt_le_sqrt' := by
    intro a b h; simp only [rn_le, rn_sqrt] at *; exact r.mono (Real.sqrt_le_sqrt h)
  sqrt_le_one' := by
    intro a h; simp only [rn_le, rn_sqrt, rn_ofNat, Nat.cast_one] at *
    have h3 := Real.sqrt_le_sqrt h
    rw [Real.sqrt_one] at h3
    exact r.rnd_le_one h3
  exp_nonneg' a := by
    simp only [rn_le, rn_exp, rn_ofNat, Nat.cast_zero]; exact r.rnd_nonneg (Real.exp_pos _).le
  Phi_nonneg' a := by
    simp only [rn_le, rn_Phi, rn_ofNat, Nat.cast_zero]; exact r.rnd_nonneg (Gauss.Phi_nonneg _)
  Phi_le_one' a := by
    simp only [rn_le, rn_Phi, rn_ofNat, Nat.cast_one]; exact r.rnd_le_one (Gauss.Phi_le_one _)
  phi_nonneg' a := by
    simp only [rn_le, rn_phi, rn_ofNat, Nat.cast_zero]; exact r.rnd_nonneg (Gauss.phi_pos _).le
  ofNat_le' := by intro m n h; simp only [rn_le, rn_ofNat]; exact_mod_cast h
  ofNat_lt' := by intro m n h; simp only [rn_lt, rn_ofNat]; exact_mod_cast h
  ofNat_add' m n := by
    apply RN.ext
    simp only [rn_add, rn_ofNat]
    rw [← Nat.cast_add, r.nat]
  ofNat_mul_div' := by
    intro m n hn
    apply RN.ext
    simp only [rn_div, rn_ofNat]
    have h0 : (n : ℝ) ≠ 0 := by exact_mod_cast hn.ne'
    have : ((m * n : ℕ) : ℝ) / (n : ℝ) = (m : ℝ) := by
      rw [Nat.cast_mul]; field_simp
    rw [this, r.nat]

/-! ### a genuinely lossy rounding: toward zero, to multiples of `1/2^k` -/

/-- truncation toward zero to an integer -/
def truncZ (x : ℝ) : ℝ := if 0 ≤ x then (⌊x⌋ : ℝ) else (⌈x⌉ : ℝ)

theorem truncZ_mono {x y : ℝ} (h : x ≤ y) : truncZ x ≤ truncZ y := by
  unfold truncZ
  split_ifs with hx hy hy
  · exact_mod_cast Int.floor_le_floor h
  · exact absurd (hx.trans h) hy
  · have h1 : (⌈x⌉ : ℝ) ≤ 0 := by exact_mod_cast Int.ceil_le.2 (by simpa using (not_le.1 hx).le)
    have h2 : (0 : ℝ) ≤ ⌊y⌋ := by exact_mod_cast Int.floor_nonneg.2 hy
    linarith
  · exact_mod_cast Int.ceil_le_ceil h

theorem truncZ_int (z : ℤ) : truncZ (z : ℝ) = z := by
  unfold truncZ; split_ifs <;> simp

theorem truncZ_isInt (x : ℝ) : ∃ z : ℤ, truncZ x = z := by
  unfold truncZ; split_ifs
  · exact ⟨_, rfl⟩
  · exact ⟨_, rfl⟩

theorem truncZ_neg (x : ℝ) : truncZ (-x) = -truncZ x := by
  unfold truncZ
  rcases lt_trichotomy x 0 with h | h | h
  · rw [if_pos (by linarith), if_neg (by linarith), Int.floor_neg]; simp
  · subst h; simp
  · rw [if_neg (by linarith), if_pos h.le, Int.ceil_neg]; simp

/-- rounding toward zero to multiples of `1/2^k` -/
def truncRounding (k : ℕ) : Rounding where
  rnd x := truncZ (x * 2 ^ k) / 2 ^ k
  mono := by
    intro x y h
    have hk : (0 : ℝ) < 2 ^ k := by positivity
    exact div_le_div_of_nonneg_right (truncZ_mono (mul_le_mul_of_nonneg_right h hk.le)) hk.le
  idem := by
    intro x
    have hk : (2 : ℝ) ^ k ≠ 0 := by positivity
    obtain ⟨z, hz⟩ := truncZ_isInt (x * 2 ^ k)
    rw [hz, div_mul_cancel₀ _ hk, truncZ_int]
  odd := by
    intro x
    rw [neg_mul, truncZ_neg, neg_div]
  nat := by
    intro n
    have hk : (2 : ℝ) ^ k ≠ 0 := by positivity
    have : (n : ℝ) * 2 ^ k = ((n * 2 ^ k : ℕ) : ℤ) := by push_cast; ring
    rw [this, truncZ_int]
    push_cast
    field_simp

/-- the class of roundings is inhabited by a rounding that is not the identity -/
example : Rounding := truncRounding 10

/-- `truncRounding k` really loses information: `1/2^(k+1)` is rounded to `0` -/
theorem truncRounding_lossy (k : ℕ) : (truncRounding k).rnd (1 / 2 ^ (k + 1)) = 0 := by
  show truncZ (1 / 2 ^ (k + 1) * 2 ^ k) / 2 ^ k = 0
  have h : (1 : ℝ) / 2 ^ (k + 1) * 2 ^ k = 1 / 2 := by
    rw [pow_succ]; field_simp
  rw [h]
  unfold truncZ
  rw [if_pos (by norm_num)]
  have : ⌊(1 / 2 : ℝ)⌋ = 0 := by
    rw [Int.floor_eq_iff]; norm_num
  rw [this]; simp

theorem truncRounding_ne_id (k : ℕ) : (truncRounding k).rnd ≠ id := by
  intro h
  have h1 := truncRounding_lossy k
  rw [h] at h1
  have : (0 : ℝ) < 1 / 2 ^ (k + 1) := by positivity
  simp only [id] at h1
  linarith

/-- `MonoArith.rn` instantiated at the lossy rounding -/
example : MonoArith (RN (truncRounding 10)) := MonoArith.rn _

end OS
end
