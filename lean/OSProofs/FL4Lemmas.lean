import OSProofs.Props.FL1
import OSProofs.LeagueLemmas
import OSProofs.CodeShapedLemmas

/-!
# Helper lemmas for FL4

Part A: the concrete league machine (`OSModel/League.lean`) under the order laws `MonoArith`:
`FLGameOK` (what `FL_C06_rate` needs for one game of the league, at the store it is played on),
`FLLeagueOK` (every game of a history is `FLGameOK` at the store it is played on), and the slot
statement for one game (`fl4_playGame_slot`).

Part B: `_arg_sort` / `_rank_data` for an arbitrary scalar type whose `<` / `≤` form a total preorder
(`OrderLaws`): the generic version of Part 3 of `OSProofs/CodeShapedLemmas.lean`.  Nothing but the four
order laws is used; in particular no antisymmetry and no decidable equality on `α`.
-/

namespace OS
open Scalar
variable {α ρ : Type} [Scalar α]

local notation "𝟘" => (Scalar.ofNat 0)
local notation "𝟙" => (Scalar.ofNat 1)

/-! ## Part A: the league -/

/-- the `ranks` argument `rate` hands to `rateCore` for an outcome -/
def fl4_ranksOf (neg : ρ → ρ) (oc : Outcome ρ) : Option (List ρ) :=
  match oc with
  | .omitted => none
  | .ranks r => some r
  | .scores s => some (s.map neg)

/-- **What `FL_C06_rate` needs for game `g` played on store `s`.**

* `leaves`   — non-negative leaves, asked only for a Thurstone–Mosteller game;
* `var_pos`  — the computed variance of every loaded, tau-inflated team is `> 0`;
* `kappa_le` — `κ ≤ 1`;
* `gamma`    — the gamma callback is non-negative;
* `divisors` — the remaining computed divisors are positive (nothing for Bradley–Terry; `0 < c*c` and
  `0 < exp(μ_t/c)` for Plackett–Luce), for the team aggregates `rate` builds for THIS game;
* `wf`       — the league machine's well-formedness: no player number occurs twice in the game, and the
  outcome is omitted or has one entry per team. -/
structure FLGameOK (L : Leaves α) (P : Params α) (le : ρ → ρ → Bool) (neg : ρ → ρ)
    (s : Store α) (g : LeagueGame α ρ) : Prop where
  leaves : g.kind = .TMF ∨ g.kind = .TMP → LeavesNonneg L
  var_pos : ∀ T ∈ inflate (resolveTau P g.opts) (loadTeams s g),
    𝟘 < sumL (T.map (fun p => p.sigma * p.sigma))
  kappa_le : P.kappa ≤ 𝟙
  gamma : GammaNonneg P.gamma
  divisors : DivisorsPosRest g.kind P
    (FL_rateAggs P le (loadTeams s g) (fl4_ranksOf neg g.outcome) g.opts)
  wf : g.WF

/-- every game of the history is `FLGameOK` at the store it is played on -/
def FLLeagueOK (L : Leaves α) (P : Params α) (le : ρ → ρ → Bool) (neg : ρ → ρ) :
    Store α → List (LeagueGame α ρ) → Prop
  | _, [] => True
  | s, g :: gs => FLGameOK L P le neg s g ∧ FLLeagueOK L P le neg (playGame L P le neg s g) gs

theorem fl4_leagueOK_nil (L : Leaves α) (P : Params α) (le : ρ → ρ → Bool) (neg : ρ → ρ)
    (s : Store α) : FLLeagueOK L P le neg s ([] : List (LeagueGame α ρ)) := trivial

theorem fl4_leagueOK_cons (L : Leaves α) (P : Params α) (le : ρ → ρ → Bool) (neg : ρ → ρ)
    (s : Store α) (g : LeagueGame α ρ) (gs : List (LeagueGame α ρ)) :
    FLLeagueOK L P le neg s (g :: gs) ↔
      FLGameOK L P le neg s g ∧ FLLeagueOK L P le neg (playGame L P le neg s g) gs := Iff.rfl

theorem fl4_leagueOK_append (L : Leaves α) (P : Params α) (le : ρ → ρ → Bool) (neg : ρ → ρ)
    (s : Store α) (gs hs : List (LeagueGame α ρ)) :
    FLLeagueOK L P le neg s (gs ++ hs) ↔
      FLLeagueOK L P le neg s gs ∧ FLLeagueOK L P le neg (playLeague L P le neg s gs) hs := by
  induction gs generalizing s with
  | nil => simp [fl4_leagueOK_nil, lg_playLeague_nil]
  | cons g gs ih =>
    rw [List.cons_append, fl4_leagueOK_cons, fl4_leagueOK_cons, ih, lg_playLeague_cons, and_assoc]

theorem fl4_leagueOK_take (L : Leaves α) (P : Params α) (le : ρ → ρ → Bool) (neg : ρ → ρ)
    (s : Store α) (gs : List (LeagueGame α ρ)) (h : FLLeagueOK L P le neg s gs) (k : Nat) :
    FLLeagueOK L P le neg s (gs.take k) ∧
      FLLeagueOK L P le neg (playLeague L P le neg s (gs.take k)) (gs.drop k) := by
  rw [← fl4_leagueOK_append, List.take_append_drop]
  exact h

/-- the recursive `FLLeagueOK` says: game number `k` is `FLGameOK` at the store after the first `k` games -/
theorem fl4_leagueOK_iff_getElem (L : Leaves α) (P : Params α) (le : ρ → ρ → Bool) (neg : ρ → ρ)
    (s : Store α) (gs : List (LeagueGame α ρ)) :
    FLLeagueOK L P le neg s gs ↔
      ∀ k (hk : k < gs.length),
        FLGameOK L P le neg (playLeague L P le neg s (gs.take k)) gs[k] := by
  induction gs generalizing s with
  | nil => simp [fl4_leagueOK_nil]
  | cons g gs ih =>
    rw [fl4_leagueOK_cons, ih]
    constructor
    · rintro ⟨h0, h1⟩ k hk
      cases k with
      | zero => simpa [lg_playLeague_nil] using h0
      | succ k =>
        simp only [List.take_succ_cons, lg_playLeague_cons, List.getElem_cons_succ]
        exact h1 k (by simpa using hk)
    · intro h
      refine ⟨h 0 (Nat.zero_lt_succ _), ?_⟩
      intro k hk
      have := h (k + 1) (by simpa using hk)
      simpa only [List.take_succ_cons, lg_playLeague_cons, List.getElem_cons_succ] using this

theorem fl4_forall₂_mem_left {β γ : Type} {R : β → γ → Prop} {l₁ : List β} {l₂ : List γ}
    (h : List.Forall₂ R l₁ l₂) {a : β} (ha : a ∈ l₁) : ∃ b ∈ l₂, R a b := by
  induction h with
  | nil => cases ha
  | cons hab _ ih =>
    rcases List.mem_cons.1 ha with rfl | ha'
    · exact ⟨_, List.mem_cons_self, hab⟩
    · obtain ⟨b, hb, hr⟩ := ih ha'
      exact ⟨b, List.mem_cons_of_mem _ hb, hr⟩

omit [Scalar α] in
theorem fl4_fits_loaded (s : Store α) (g : LeagueGame α ρ) (hf : g.outcome.fits g.teams.length) :
    ∀ r, (g.outcome = .ranks r ∨ g.outcome = .scores r) → r.length = (loadTeams s g).length := by
  intro r h
  rw [lg_loadTeams_length]
  rcases h with h | h <;> rw [h] at hf <;> exact hf

/-- after an `FLGameOK` game the store holds for participant `p` the (mu, sigma) of a rating `r'` that
`rate` returned for the rating `s.load p` passed in, and `FLSlotRate` relates the two -/
theorem fl4_playGame_slot (M : MonoArith α) (L : Leaves α) (P : Params α) (le : ρ → ρ → Bool)
    (neg : ρ → ρ) (s : Store α) (g : LeagueGame α ρ) (hok : FLGameOK L P le neg s g)
    (p : Nat) (hp : g.plays p) :
    ∃ r' : Rating α, FLSlotRate (resolveTau P g.opts) (resolveLimit P g.opts) (s.load p) r'
      ∧ (playGame L P le neg s g).mu p = r'.mu ∧ (playGame L P le neg s g).sigma p = r'.sigma := by
  have h := FL_C06_rate M g.kind L P le neg (loadTeams s g) g.outcome g.opts hok.leaves hok.var_pos
    hok.kappa_le hok.gamma hok.divisors (fl4_fits_loaded s g hok.wf.2)
  have hfl := List.rel_flatten h
  rw [lg_loadTeams_flatten] at hfl
  obtain ⟨r', hr', hslot⟩ := fl4_forall₂_mem_left hfl (List.mem_map.2 ⟨p, hp, rfl⟩)
  have hid : r'.id = p := hslot.1
  obtain ⟨hm, hs⟩ := playGame_stored L P le neg s g hok.wf r' hr'
  rw [hid] at hm hs
  exact ⟨r', hslot, hm, hs⟩

/-! ## Part B: `_arg_sort` / `_rank_data` for a total preorder -/

/-- **`≤` is a total preorder and `<` is its strict part** (no NaN): the four order laws of `MonoArith`.
Antisymmetry is NOT among them (`+0.0 ≤ -0.0 ≤ +0.0` in doubles). -/
structure OrderLaws (α : Type) [Scalar α] : Prop where
  le_refl' : ∀ a : α, a ≤ a
  le_trans' : ∀ {a b c : α}, a ≤ b → b ≤ c → a ≤ c
  le_total' : ∀ a b : α, a ≤ b ∨ b ≤ a
  lt_iff_not_le' : ∀ {a b : α}, a < b ↔ ¬ b ≤ a

/-- every monotone arithmetic has the order laws -/
theorem MonoArith.orderLaws (M : MonoArith α) : OrderLaws α :=
  ⟨M.le_refl', M.le_trans', M.le_total', M.lt_iff_not_le'⟩

namespace OrderLaws
variable (O : OrderLaws α)
include O

theorem fl4_le_of_lt {a b : α} (h : a < b) : a ≤ b :=
  (O.le_total' a b).resolve_right (O.lt_iff_not_le'.1 h)

theorem fl4_le_of_not_lt {a b : α} (h : ¬ a < b) : b ≤ a :=
  Classical.byContradiction fun h' => h (O.lt_iff_not_le'.2 h')

theorem fl4_not_lt_of_le {a b : α} (h : a ≤ b) : ¬ b < a := fun h' => O.lt_iff_not_le'.1 h' h

theorem fl4_lt_of_lt_of_le {a b c : α} (h1 : a < b) (h2 : b ≤ c) : a < c :=
  O.lt_iff_not_le'.2 fun h => O.lt_iff_not_le'.1 h1 (O.le_trans' h2 h)

theorem fl4_lt_of_le_of_lt {a b c : α} (h1 : a ≤ b) (h2 : b < c) : a < c :=
  O.lt_iff_not_le'.2 fun h => O.lt_iff_not_le'.1 h2 (O.le_trans' h h1)

theorem fl4_lt_trans {a b c : α} (h1 : a < b) (h2 : b < c) : a < c :=
  O.fl4_lt_of_lt_of_le h1 (O.fl4_le_of_lt h2)

theorem fl4_lt_irrefl (a : α) : ¬ a < a := fun h => O.lt_iff_not_le'.1 h (O.le_refl' a)

end OrderLaws

/-! ### `_arg_sort` -/

/-- Python's `(v, i) <= (w, j)`: `v < w`, or `v == w` (neither is below the other) and `i <= j`.
Only `<` on `α` is consulted. -/
theorem fl4_lexLe_iff (a b : α × Nat) :
    lexLe a b = true ↔ a.1 < b.1 ∨ (¬ b.1 < a.1 ∧ a.2 ≤ b.2) := by
  unfold lexLe
  simp only [Bool.or_eq_true, Bool.and_eq_true, Bool.not_eq_true', decide_eq_true_eq,
    decide_eq_false_iff_not]

theorem fl4_lexLe_total (a b : α × Nat) : (lexLe a b || lexLe b a) = true := by
  rw [Bool.or_eq_true, fl4_lexLe_iff, fl4_lexLe_iff]
  by_cases h : a.1 < b.1
  · exact Or.inl (Or.inl h)
  · by_cases h' : b.1 < a.1
    · exact Or.inr (Or.inl h')
    · rcases Nat.le_total a.2 b.2 with h2 | h2
      · exact Or.inl (Or.inr ⟨h', h2⟩)
      · exact Or.inr (Or.inr ⟨h, h2⟩)

theorem OrderLaws.fl4_lexLe_trans (O : OrderLaws α) (a b c : α × Nat) (h1 : lexLe a b = true)
    (h2 : lexLe b c = true) : lexLe a c = true := by
  rw [fl4_lexLe_iff] at *
  rcases h1 with h1 | ⟨h1, h1'⟩ <;> rcases h2 with h2 | ⟨h2, h2'⟩
  · exact Or.inl (O.fl4_lt_trans h1 h2)
  · exact Or.inl (O.fl4_lt_of_lt_of_le h1 (O.fl4_le_of_not_lt h2))
  · exact Or.inl (O.fl4_lt_of_le_of_lt (O.fl4_le_of_not_lt h1) h2)
  · exact Or.inr ⟨O.fl4_not_lt_of_le (O.le_trans' (O.fl4_le_of_not_lt h1) (O.fl4_le_of_not_lt h2)),
      Nat.le_trans h1' h2'⟩

/-- the sorted `(value, index)` pairs -/
def fl4_S (v : List α) : List (α × Nat) := v.zipIdx.mergeSort lexLe

theorem fl4_S_perm (v : List α) : (fl4_S v).Perm v.zipIdx := List.mergeSort_perm _ _

theorem fl4_S_length (v : List α) : (fl4_S v).length = v.length := by
  simp [fl4_S]

theorem OrderLaws.fl4_S_sorted (O : OrderLaws α) (v : List α) :
    ((fl4_S v).map (·.1)).Pairwise (· ≤ ·) := by
  rw [List.pairwise_map]
  refine (List.pairwise_mergeSort O.fl4_lexLe_trans fl4_lexLe_total v.zipIdx).imp ?_
  intro a b h
  rcases (fl4_lexLe_iff a b).mp h with h | ⟨h, _⟩
  · exact O.fl4_le_of_lt h
  · exact O.fl4_le_of_not_lt h

theorem fl4_argSortCode_eq (v : List α) : argSortCode v = (fl4_S v).map (·.2) := rfl

/-- `arg_sorted_vector = [vector[rank] for rank in arg_sort_rank_vector]` is the list of the first
components of the sorted pairs -/
theorem fl4_argSorted_eq (v : List α) :
    (argSortCode v).map (fun r => v.getD r (ofNat 0)) = (fl4_S v).map (·.1) := by
  rw [fl4_argSortCode_eq, List.map_map]
  apply List.map_congr_left
  intro a ha
  have hm : a ∈ v.zipIdx := (fl4_S_perm v).mem_iff.mp ha
  rw [List.mem_zipIdx_iff_getElem?] at hm
  simp [List.getD, hm]

theorem fl4_idx_perm (v : List α) : (argSortCode v).Perm (List.range v.length) := by
  rw [fl4_argSortCode_eq]
  have h := (fl4_S_perm v).map (·.2)
  have e : v.zipIdx.map (·.2) = List.range' 0 v.length := List.zipIdx_map_snd 0 v
  rw [e, ← List.range_eq_range'] at h
  exact h

theorem fl4_sv_perm (v : List α) : ((fl4_S v).map (·.1)).Perm v := by
  have h := (fl4_S_perm v).map (·.1)
  rwa [show v.zipIdx.map (·.1) = v from List.zipIdx_map_fst 0 v] at h

/-! ### sorted lists: the entries below `x` are a prefix -/

theorem fl4_cntLt_eq_countP (v : List α) (x : α) :
    cntLt v x = v.countP (fun y => decide (y < x)) :=
  List.countP_eq_length_filter.symm

theorem fl4_cntLt_perm {l l' : List α} (h : l.Perm l') (x : α) : cntLt l x = cntLt l' x := by
  rw [fl4_cntLt_eq_countP, fl4_cntLt_eq_countP]
  exact h.countP_eq _

theorem fl4_cntLt_cons (a : α) (l : List α) (x : α) :
    cntLt (a :: l) x = (if a < x then 1 else 0) + cntLt l x := by
  unfold cntLt
  rw [List.filter_cons]
  by_cases h : a < x
  · simp [h]; omega
  · simp [h]

/-- equivalent values (`x ≤ y ≤ x`; not necessarily equal) have the same entries below them -/
theorem OrderLaws.fl4_cntLt_congr (O : OrderLaws α) (l : List α) {x y : α} (h1 : x ≤ y) (h2 : y ≤ x) :
    cntLt l x = cntLt l y := by
  unfold cntLt
  congr 1
  apply List.filter_congr
  intro a _
  apply decide_eq_decide.mpr
  exact ⟨fun h => O.fl4_lt_of_lt_of_le h h1, fun h => O.fl4_lt_of_lt_of_le h h2⟩

theorem OrderLaws.fl4_cntLt_zero_of_le (O : OrderLaws α) (l : List α) (x : α) (h : ∀ y ∈ l, x ≤ y) :
    cntLt l x = 0 := by
  unfold cntLt
  rw [List.length_eq_zero_iff, List.filter_eq_nil_iff]
  intro y hy
  simpa using O.fl4_not_lt_of_le (h y hy)

/-- in a sorted list, position `p` is among the first `cntLt sv x` iff its entry is `< x` -/
theorem OrderLaws.fl4_lt_cntLt_iff (O : OrderLaws α) (sv : List α) (hs : sv.Pairwise (· ≤ ·)) (x : α)
    (p : Nat) (hp : p < sv.length) : p < cntLt sv x ↔ sv.getD p (ofNat 0) < x := by
  induction sv generalizing p with
  | nil => simp at hp
  | cons a l ih =>
    rw [List.pairwise_cons] at hs
    rw [fl4_cntLt_cons]
    by_cases ha : a < x
    · cases p with
      | zero => simp [ha]
      | succ p =>
        have := ih hs.2 p (by simpa using hp)
        simp only [ha, if_true, List.getD_cons_succ]
        rw [← this]
        omega
    · have hxa : x ≤ a := O.fl4_le_of_not_lt ha
      have hz : cntLt l x = 0 := O.fl4_cntLt_zero_of_le l x (fun y hy => O.le_trans' hxa (hs.1 y hy))
      simp only [ha, if_false, hz, Nat.add_zero, Nat.not_lt_zero, false_iff]
      cases p with
      | zero => simpa using ha
      | succ p =>
        rw [List.getD_cons_succ]
        have hp' : p < l.length := by simpa using hp
        have hmem : l.getD p (ofNat 0) ∈ l := by
          rw [lit_getD_eq l _ hp']; exact List.getElem_mem hp'
        exact O.fl4_not_lt_of_le (O.le_trans' hxa (hs.1 _ hmem))

theorem OrderLaws.fl4_sorted_getD (O : OrderLaws α) (sv : List α) (hs : sv.Pairwise (· ≤ ·)) (i j : Nat)
    (hij : i ≤ j) (hj : j < sv.length) : sv.getD i (ofNat 0) ≤ sv.getD j (ofNat 0) := by
  rcases Nat.lt_or_eq_of_le hij with h | h
  · rw [lit_getD_eq sv _ hj, lit_getD_eq sv _ (show i < sv.length by omega)]
    exact List.pairwise_iff_getElem.mp hs i j (by omega) hj h
  · subst h; exact O.le_refl' _

/-! ### the main loop of `_rank_data` -/

/-- one iteration of `for index in range(vector_length)` (the `step` inside `rankDataCode`) -/
def fl4_step (n : Nat) (sv : List α) (idx : List Nat) (st : Nat × List Nat)
    (index : Nat) : Nat × List Nat :=
  let dup := st.1 + 1
  if index == n - 1 || sne (sv.getD index (ofNat 0)) (sv.getD (index + 1) (ofNat 0)) then
    (0, (pyRange (index + 1 - dup) (index + 1)).foldl
          (fun out j => out.set (idx.getD j 0) (index + 1 - dup + 1)) st.2)
  else (dup, st.2)

theorem fl4_rankDataCode_unfold (v : List α) :
    rankDataCode v =
      ((List.range v.length).foldl
        (fl4_step v.length ((argSortCode v).map (fun r => v.getD r (ofNat 0))) (argSortCode v))
        (0, List.replicate v.length 0)).2 := rfl

/-- `a != b` is "one is strictly below the other" -/
theorem fl4_sne_iff (a b : α) : sne a b = true ↔ (a < b ∨ b < a) := by
  unfold sne
  simp only [Bool.or_eq_true, decide_eq_true_eq]

/-- start position of the run of equivalent values that contains position `k` of the sorted vector
(`n` for `k = n`) -/
def fl4_start (sv : List α) (k : Nat) : Nat :=
  if k < sv.length then cntLt sv (sv.getD k (ofNat 0)) else sv.length

theorem OrderLaws.fl4_start_le (O : OrderLaws α) (sv : List α) (hs : sv.Pairwise (· ≤ ·)) (k : Nat)
    (hk : k ≤ sv.length) : fl4_start sv k ≤ k := by
  unfold fl4_start
  split
  · rename_i h
    apply Classical.byContradiction
    intro hc
    have := (O.fl4_lt_cntLt_iff sv hs (sv.getD k (ofNat 0)) k h).mp (by omega)
    exact O.fl4_lt_irrefl _ this
  · omega

/-- loop invariant after the indices `< k` have been processed -/
structure fl4_RInv (sv : List α) (idx : List Nat) (k : Nat) (st : Nat × List Nat) : Prop where
  dup : st.1 = k - fl4_start sv k
  len : st.2.length = sv.length
  done : ∀ j < fl4_start sv k, st.2[idx.getD j 0]? = some (cntLt sv (sv.getD j (ofNat 0)) + 1)

theorem OrderLaws.fl4_RInv_init (O : OrderLaws α) (sv : List α) (idx : List Nat)
    (hs : sv.Pairwise (· ≤ ·)) : fl4_RInv sv idx 0 (0, List.replicate sv.length 0) := by
  have h0 : fl4_start sv 0 = 0 := Nat.le_zero.mp (O.fl4_start_le sv hs 0 (Nat.zero_le _))
  refine ⟨by simp, by simp, ?_⟩
  intro j hj
  rw [h0] at hj
  exact absurd hj (Nat.not_lt_zero _)

theorem OrderLaws.fl4_RInv_step (O : OrderLaws α) (sv : List α) (idx : List Nat)
    (hs : sv.Pairwise (· ≤ ·)) (hlen : idx.length = sv.length) (hnd : idx.Nodup)
    (hlt : ∀ j < sv.length, idx.getD j 0 < sv.length)
    (k : Nat) (hk : k < sv.length) (st : Nat × List Nat) (h : fl4_RInv sv idx k st) :
    fl4_RInv sv idx (k + 1) (fl4_step sv.length sv idx st k) := by
  obtain ⟨hdup, hl, hdone⟩ := h
  have hsk : fl4_start sv k ≤ k := O.fl4_start_le sv hs k (Nat.le_of_lt hk)
  have hsk_eq : fl4_start sv k = cntLt sv (sv.getD k (ofNat 0)) := by
    unfold fl4_start; rw [if_pos hk]
  unfold fl4_step
  simp only []
  split
  · -- end of a run
    rename_i hc
    have hstart' : fl4_start sv (k + 1) = k + 1 := by
      by_cases hk1 : k + 1 < sv.length
      · have hlt' : sv.getD k (ofNat 0) < sv.getD (k + 1) (ofNat 0) := by
          rw [Bool.or_eq_true] at hc
          rcases hc with hc | hc
          · simp only [beq_iff_eq] at hc; omega
          · rcases (fl4_sne_iff _ _).mp hc with h | h
            · exact h
            · exact absurd h (O.fl4_not_lt_of_le (O.fl4_sorted_getD sv hs k (k + 1) (by omega) hk1))
        have h1 := (O.fl4_lt_cntLt_iff sv hs (sv.getD (k + 1) (ofNat 0)) k hk).mpr hlt'
        have h2 := O.fl4_start_le sv hs (k + 1) (Nat.le_of_lt hk1)
        unfold fl4_start at h2 ⊢
        rw [if_pos hk1] at h2 ⊢
        omega
      · unfold fl4_start; rw [if_neg hk1]; omega
    have e1 : k + 1 - (st.1 + 1) = fl4_start sv k := by rw [hdup]; omega
    rw [e1]
    have hfold : ∀ out : List Nat,
        (pyRange (fl4_start sv k) (k + 1)).foldl
          (fun out j => out.set (idx.getD j 0) (fl4_start sv k + 1)) out =
        ((pyRange (fl4_start sv k) (k + 1)).map (fun j => idx.getD j 0)).foldl
          (fun out p => out.set p (fl4_start sv k + 1)) out := by
      intro out; rw [List.foldl_map]
    refine ⟨by simp [hstart'], ?_, ?_⟩
    · show ((pyRange _ _).foldl _ st.2).length = _
      rw [hfold, lit_setAll_length, hl]
    · intro j hj
      rw [hstart'] at hj
      show ((pyRange _ _).foldl _ st.2)[idx.getD j 0]? = _
      rw [hfold, lit_setAll_get]
      have hjn : j < sv.length := by omega
      by_cases hjs : j < fl4_start sv k
      · -- an earlier run: untouched
        have hno : ¬ ∃ j', fl4_start sv k ≤ j' ∧ j' < k + 1 ∧ idx.getD j' 0 = idx.getD j 0 := by
          rintro ⟨j', h1, h2, e⟩
          have hj'n : j' < idx.length := by omega
          have hjn' : j < idx.length := by omega
          rw [lit_getD_eq idx 0 hj'n, lit_getD_eq idx 0 hjn'] at e
          have := (hnd.getElem_inj_iff).mp e
          omega
        rw [if_neg (fun hm => hno ((lit_mem_positions _ _ _ _).mp hm))]
        exact hdone j hjs
      · -- the run that just ended
        have hyes : ∃ j', fl4_start sv k ≤ j' ∧ j' < k + 1 ∧ idx.getD j' 0 = idx.getD j 0 :=
          ⟨j, by omega, hj, rfl⟩
        rw [if_pos ((lit_mem_positions _ _ _ _).mpr hyes), hl, if_pos (hlt j hjn)]
        have hle1 : sv.getD j (ofNat 0) ≤ sv.getD k (ofNat 0) :=
          O.fl4_sorted_getD sv hs j k (by omega) hk
        have hle2 : sv.getD k (ofNat 0) ≤ sv.getD j (ofNat 0) := by
          have := (O.fl4_lt_cntLt_iff sv hs (sv.getD k (ofNat 0)) j hjn).not.mp (by omega)
          exact O.fl4_le_of_not_lt this
        rw [O.fl4_cntLt_congr sv hle1 hle2, hsk_eq]
  · -- inside a run
    rename_i hc
    rw [Bool.or_eq_true, not_or] at hc
    obtain ⟨hc1, hc2⟩ := hc
    have hk1 : k + 1 < sv.length := by
      simp only [beq_iff_eq] at hc1; omega
    have hc2' : ¬ (sv.getD k (ofNat 0) < sv.getD (k + 1) (ofNat 0)
        ∨ sv.getD (k + 1) (ofNat 0) < sv.getD k (ofNat 0)) :=
      fun h => hc2 ((fl4_sne_iff _ _).mpr h)
    rw [not_or] at hc2'
    have hstart' : fl4_start sv (k + 1) = fl4_start sv k := by
      unfold fl4_start; rw [if_pos hk1, if_pos hk]
      exact O.fl4_cntLt_congr sv (O.fl4_le_of_not_lt hc2'.1) (O.fl4_le_of_not_lt hc2'.2)
    refine ⟨?_, hl, ?_⟩
    · show st.1 + 1 = _
      rw [hstart', hdup]; omega
    · intro j hj
      rw [hstart'] at hj
      exact hdone j hj

theorem OrderLaws.fl4_RInv_fold (O : OrderLaws α) (sv : List α) (idx : List Nat)
    (hs : sv.Pairwise (· ≤ ·)) (hlen : idx.length = sv.length) (hnd : idx.Nodup)
    (hlt : ∀ j < sv.length, idx.getD j 0 < sv.length) (k : Nat) (hk : k ≤ sv.length) :
    fl4_RInv sv idx k
      ((List.range k).foldl (fl4_step sv.length sv idx) (0, List.replicate sv.length 0)) := by
  induction k with
  | zero => exact O.fl4_RInv_init sv idx hs
  | succ k ih =>
    rw [List.range_succ, List.foldl_append, List.foldl_cons, List.foldl_nil]
    exact O.fl4_RInv_step sv idx hs hlen hnd hlt k (by omega) _ (ih (by omega))

/-- what the loop of `_rank_data` computes, for any sorted vector `sv` and any duplicate-free index vector
`idx` of the same length: entry `idx[j]` of the result is one plus the number of entries of `sv` strictly
below `sv[j]` -/
theorem OrderLaws.fl4_loop_spec (O : OrderLaws α) (sv : List α) (idx : List Nat)
    (hs : sv.Pairwise (· ≤ ·)) (hlen : idx.length = sv.length) (hnd : idx.Nodup)
    (hlt : ∀ j < sv.length, idx.getD j 0 < sv.length) :
    let out := ((List.range sv.length).foldl (fl4_step sv.length sv idx)
      (0, List.replicate sv.length 0)).2
    out.length = sv.length ∧
      ∀ j < sv.length, out[idx.getD j 0]? = some (cntLt sv (sv.getD j (ofNat 0)) + 1) := by
  intro out
  have h := O.fl4_RInv_fold sv idx hs hlen hnd hlt sv.length (Nat.le_refl _)
  refine ⟨h.len, ?_⟩
  intro j hj
  apply h.done
  unfold fl4_start
  rw [if_neg (Nat.lt_irrefl _)]
  exact hj

end OS
