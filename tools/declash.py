#!/usr/bin/env python3
"""rename declarations in NEW files that clash with names already declared in other OSProofs files
usage: declash.py <prefix> <newfile> [<newfile>...]"""
import re, sys, glob, os
prefix, new = sys.argv[1], [os.path.abspath(f) for f in sys.argv[2:]]
root = os.path.dirname(os.path.dirname(os.path.abspath(__file__))) + "/lean/OSProofs"
decl = re.compile(r"^(?:@\[[^\]]*\]\s*)?(?:private\s+|noncomputable\s+|protected\s+)*(?:theorem|lemma|def|abbrev|structure|inductive)\s+([A-Za-z_][\w.']*)", re.M)
old = set()
for f in glob.glob(root + "/**/*.lean", recursive=True):
    if os.path.abspath(f) not in new and "/Audit/" not in f:
        old.update(decl.findall(open(f).read()))
for f in new:
    names = set(decl.findall(open(f).read()))
    clash = sorted(names & old)
    if clash:
        print(f, "clashes:", clash)
        for g in new + [x for x in glob.glob(root + "/Audit/*.lean")]:
            pass
        for g in new:
            s = open(g).read()
            for n in clash:
                s = re.sub(r"(?<![\w.'])" + re.escape(n) + r"(?![\w'])", prefix + n, s)
            open(g, "w").write(s)
