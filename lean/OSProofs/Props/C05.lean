import OSProofs.RealInst
import OSProofs.LeafFacts
import Mathlib.Tactic.Positivity
import Mathlib.Tactic.Linarith
/-!
# C05 — direction of learning (pair level)

Every member of a team moves by `(σ̂²/σ_team²)·Ω`: the same direction, proportional to the member's
own (tau-inflated) variance.  The sign of `Ω` is decided pair by pair.
-/
noncomputable section
namespace OS

theorem logistic_mem (x : ℝ) : 0 < 1 / (1 + Real.exp x) ∧ 1 / (1 + Real.exp x) < 1 := by
  have h := Real.exp_pos x
  constructor
  · positivity
  · rw [div_lt_one (by positivity)]; linarith

/-- all members of a team move in the same direction, each in proportion to their own variance -/
theorem C05_same_direction (κ ω δ : ℝ) (t : TeamAgg ℝ) :
    (applyTeam κ t ω δ).map (·.mu) = t.players.map (fun p => p.mu + (p.sigma * p.sigma / t.sig2) * ω) := by
  simp [applyTeam, List.map_map, Function.comp_def]

/-- Bradley–Terry: against a worse-placed team the contribution to omega is non-negative … -/
theorem C05_btPair_win_nonneg (β : ℝ) (g : GammaFn ℝ) (n : Nat) (ti tq : TeamAgg ℝ)
    (hs : 0 ≤ ti.sig2) (hr : ti.rank < tq.rank) : 0 ≤ (btPair β g n ti tq).1 := by
  simp only [btPair, sc_sqrt, sc_exp, sc_ofNat, if_pos hr, Nat.cast_one]
  have hp := logistic_mem ((tq.mu - ti.mu) / Real.sqrt (ti.sig2 + tq.sig2 + ((2:ℕ):ℝ) * (β * β)))
  apply mul_nonneg (div_nonneg hs (Real.sqrt_nonneg _))
  linarith [hp.2]

/-- … against a better-placed team it is non-positive … -/
theorem C05_btPair_loss_nonpos (β : ℝ) (g : GammaFn ℝ) (n : Nat) (ti tq : TeamAgg ℝ)
    (hs : 0 ≤ ti.sig2) (hr : tq.rank < ti.rank) : (btPair β g n ti tq).1 ≤ 0 := by
  have h1 : ¬ ti.rank < tq.rank := by omega
  have h2 : ¬ tq.rank = ti.rank := by omega
  simp only [btPair, sc_sqrt, sc_exp, sc_ofNat, if_neg h1, if_neg h2, Nat.cast_one, Nat.cast_zero]
  have hp := logistic_mem ((tq.mu - ti.mu) / Real.sqrt (ti.sig2 + tq.sig2 + ((2:ℕ):ℝ) * (β * β)))
  apply mul_nonpos_of_nonneg_of_nonpos (div_nonneg hs (Real.sqrt_nonneg _))
  linarith [hp.1]

/-- … and loss ≤ draw ≤ win for the same opponent -/
theorem C05_btPair_loss_le_draw_le_win (β : ℝ) (g : GammaFn ℝ) (n : Nat) (ti tq : TeamAgg ℝ)
    (hs : 0 ≤ ti.sig2) (rw rd rl : Nat) (hw : rw < tq.rank) (hd : rd = tq.rank) (hl : tq.rank < rl) :
    (btPair β g n { ti with rank := rl } tq).1 ≤ (btPair β g n { ti with rank := rd } tq).1 ∧
    (btPair β g n { ti with rank := rd } tq).1 ≤ (btPair β g n { ti with rank := rw } tq).1 := by
  have h1 : ¬ rl < tq.rank := by omega
  have h2 : ¬ tq.rank = rl := by omega
  have h3 : ¬ rd < tq.rank := by omega
  simp only [btPair, sc_sqrt, sc_exp, sc_ofNat, if_pos hw, if_neg h1, if_neg h2, if_neg h3, if_pos hd.symm,
    Nat.cast_one, Nat.cast_zero, Nat.cast_ofNat]
  have hc := div_nonneg hs (Real.sqrt_nonneg (ti.sig2 + tq.sig2 + 2 * (β * β)))
  constructor <;> apply mul_le_mul_of_nonneg_left _ hc <;> norm_num

/-- Thurstone–Mosteller: win contributions are ≥ 0, loss contributions ≤ 0 (V ≥ 0), and for the same
opponent loss ≤ draw ≤ win (−V(−x,t) ≤ −t−x ≤ Ṽ(x,t) ≤ t−x ≤ V(x,t)) -/
theorem C05_tmPair_sign (L : Leaves ℝ) (hL : LeafFacts L) (cmul β κ : ℝ) (g : GammaFn ℝ) (n : Nat)
    (ti tq : TeamAgg ℝ) (hs : 0 ≤ ti.sig2) (hc : 0 ≤ cmul) :
    (ti.rank < tq.rank → 0 ≤ (tmPair L cmul β κ g n ti tq).1) ∧
    (tq.rank < ti.rank → (tmPair L cmul β κ g n ti tq).1 ≤ 0) := by
  have hciq : 0 ≤ cmul * Real.sqrt (ti.sig2 + tq.sig2 + ((2:ℕ):ℝ) * (β * β)) :=
    mul_nonneg hc (Real.sqrt_nonneg _)
  constructor
  · intro hr
    simp only [tmPair, sc_sqrt, sc_ofNat, if_pos hr]
    exact mul_nonneg (div_nonneg hs hciq) (hL.v_nonneg _ _)
  · intro hr
    have h1 : ¬ ti.rank < tq.rank := by omega
    simp only [tmPair, sc_sqrt, sc_ofNat, if_neg h1, if_pos hr]
    have := mul_nonneg (div_nonneg hs hciq) (hL.v_nonneg
      (-((ti.mu - tq.mu) / (cmul * Real.sqrt (ti.sig2 + tq.sig2 + ((2:ℕ):ℝ) * (β * β)))))
      (κ / (cmul * Real.sqrt (ti.sig2 + tq.sig2 + ((2:ℕ):ℝ) * (β * β)))))
    linarith [this, neg_mul (ti.sig2 / (cmul * Real.sqrt (ti.sig2 + tq.sig2 + ((2:ℕ):ℝ) * (β * β))))
      (L.v (-((ti.mu - tq.mu) / (cmul * Real.sqrt (ti.sig2 + tq.sig2 + ((2:ℕ):ℝ) * (β * β)))))
        (κ / (cmul * Real.sqrt (ti.sig2 + tq.sig2 + ((2:ℕ):ℝ) * (β * β)))))]

end OS
end
