import OSModel.PredictLoops
import OSProofs.Loops
import OSProofs.PredictLemmas
/-!
# Helper lemmas: the statement-by-statement predictions and `_unwind` equal the closed forms

Mathlib-free and generic over `[Scalar α]`: no law of arithmetic is used except where a hypothesis says
so explicitly.  Headline theorems are in `OSProofs/Props/PredictLoops.lean`.
-/
namespace OS
open Scalar

/-! ## generic list facts -/

/-- `for x in l: out.extend(g(x))` -/
theorem pl2_foldl_append_flatMap {β γ : Type} (g : γ → List β) (l : List γ) (acc : List β) :
    l.foldl (fun out x => out ++ g x) acc = acc ++ l.flatMap g := by
  induction l generalizing acc with
  | nil => simp
  | cons x xs ih => rw [List.foldl_cons, ih, List.flatMap_cons, List.append_assoc]

theorem pl2_flatMap_congr {β γ : Type} (f g : γ → List β) (l : List γ) (h : ∀ x ∈ l, f x = g x) :
    l.flatMap f = l.flatMap g := by
  rw [List.flatMap_def, List.flatMap_def, List.map_congr_left h]

/-- a loop that appends one item under a guard is a filtered map -/
theorem pl2_flatMap_ite {β γ : Type} (p : γ → Bool) (f : γ → β) (l : List γ) :
    l.flatMap (fun b => if p b then [f b] else []) = (l.filter p).map f := by
  induction l with
  | nil => rfl
  | cons x xs ih =>
    rw [List.flatMap_cons, ih, List.filter_cons]
    cases p x <;> simp

/-- `for i in range(len(l)): … l[i] …` is `for i, x in enumerate(l): … x …` -/
theorem pl2_range_flatMap {β γ : Type} (l : List β) (G : Nat → List γ) :
    (List.range l.length).flatMap G = l.zipIdx.flatMap (fun a => G a.2) := by
  have h : List.range l.length = l.zipIdx.map (·.2) := by
    rw [List.zipIdx_map_snd, List.range_eq_range']
  rw [h, List.flatMap_map]

theorem pl2_getElem?_of_mem_zipIdx {β : Type} (l : List β) (x : β × Nat) (h : x ∈ l.zipIdx) :
    l[x.2]? = some x.1 := by
  rw [List.mem_zipIdx_iff_getElem?] at h
  exact h

/-! ## `itertools.permutations(xs, 2)` is `orderedPairs xs` -/

/-- what one `(i, j)` iteration of `permutations2` appends -/
def pl2_permItem {β : Type} (pool : List β) (i j : Nat) : List (β × β) :=
  if i != j then
    match pool[i]?, pool[j]? with
    | some a, some b => [(a, b)]
    | _, _ => []
  else []

theorem pl2_permItem_mem {β : Type} (pool : List β) (a b : β × Nat)
    (ha : a ∈ pool.zipIdx) (hb : b ∈ pool.zipIdx) :
    pl2_permItem pool a.2 b.2 = if b.2 != a.2 then [(a.1, b.1)] else [] := by
  unfold pl2_permItem
  rw [pl2_getElem?_of_mem_zipIdx pool a ha, pl2_getElem?_of_mem_zipIdx pool b hb]
  by_cases h : a.2 = b.2
  · simp [h]
  · have h' : ¬ b.2 = a.2 := fun e => h e.symm
    simp [h, h']

/-- **`itertools.permutations(xs, 2)` (index pairs `(i, j)`, `i` outer, `j` inner, `i ≠ j`) yields the
    pairs in the order of `orderedPairs`** -/
theorem pl2_permutations2_eq {β : Type} (xs : List β) : permutations2 xs = orderedPairs xs := by
  unfold permutations2 orderedPairs
  refine (lp_foldl_ext _ (fun out i => out ++ (List.range xs.length).flatMap (pl2_permItem xs i))
    _ _ ?_).trans ?_
  · intro out i _
    rw [← pl2_foldl_append_flatMap]
    apply lp_foldl_ext
    intro acc j _
    unfold pl2_permItem
    cases hij : (i != j)
    · simp
    · simp only [if_true]
      cases xs[i]? <;> cases xs[j]? <;> simp
  rw [pl2_foldl_append_flatMap, List.nil_append]
  rw [pl2_range_flatMap xs]
  apply pl2_flatMap_congr
  intro a ha
  rw [pl2_range_flatMap xs, ← pl2_flatMap_ite]
  apply pl2_flatMap_congr
  intro b hb
  exact pl2_permItem_mem xs a b ha hb

/-! ## `zip_longest(*[iter(xs)] * k)` is `chunk k xs` (padded) -/

/-- one round: the next `k` items, then `None`s -/
theorem pl2_zlRound_fst {β : Type} (k : Nat) (it : List β) :
    (zlRound k it).1 = (it.take k).map some ++ List.replicate (k - it.length) none := by
  induction k generalizing it with
  | zero => simp [zlRound]
  | succ k ih =>
    cases it with
    | nil =>
      have h := ih ([] : List β)
      simp only [List.take_nil, List.map_nil, List.nil_append, List.length_nil, Nat.sub_zero] at h
      simp only [zlRound, h, List.take_nil, List.map_nil, List.nil_append, List.length_nil,
        Nat.sub_zero, List.replicate_succ]
    | cons x xs =>
      simp only [zlRound, ih xs, List.take_succ_cons, List.map_cons, List.cons_append,
        List.length_cons, Nat.add_sub_add_right]

/-- the padding of a group that is shorter than `k` -/
def pl2_pad {β : Type} (k : Nat) (c : List β) : List (Option β) :=
  c.map some ++ List.replicate (k - c.length) none

/-- **the shared-iterator idiom groups consecutive items by `k`, padding the last group with `None`** -/
theorem pl2_zipLongestIter_eq_pad {β : Type} (k : Nat) (l : List β) :
    zipLongestIter k l = (chunk k l).map (pl2_pad k) := by
  generalize hn : l.length = n
  induction n using Nat.strongRecOn generalizing l with
  | _ n ih =>
    cases l with
    | nil => rw [zipLongestIter, chunk]; rfl
    | cons x xs =>
      rw [zipLongestIter, chunk]
      by_cases hk : k = 0
      · simp [hk]
      · simp only [hk, if_false, List.map_cons]
        rw [zlRound_snd, pl2_zlRound_fst]
        have hlt : ((x :: xs).drop k).length < n := by
          rw [List.length_drop, ← hn]; simp only [List.length_cons]; omega
        rw [ih _ hlt _ rfl]
        unfold pl2_pad
        congr 3
        rw [List.length_take]
        omega

/-- every group is full when the number of items is a multiple of `k` -/
theorem pl2_chunk_length {β : Type} (k : Nat) (l : List β) (h : l.length % k = 0) :
    ∀ c ∈ chunk k l, c.length = k := by
  generalize hn : l.length = n
  induction n using Nat.strongRecOn generalizing l with
  | _ n ih =>
    cases l with
    | nil => rw [chunk]; intro c hc; cases hc
    | cons x xs =>
      rw [chunk]
      by_cases hk : k = 0
      · simp [hk]
      · simp only [hk, if_false]
        have hkl : k ≤ (x :: xs).length := by
          apply Nat.le_of_dvd (by simp) (Nat.dvd_of_mod_eq_zero h)
        intro c hc
        rcases List.mem_cons.mp hc with rfl | hc
        · rw [List.length_take]; omega
        · have hlt : ((x :: xs).drop k).length < n := by
            rw [List.length_drop, ← hn]; simp only [List.length_cons]; omega
          refine ih _ hlt _ ?_ rfl c hc
          rw [List.length_drop]
          exact (Nat.dvd_sub (Nat.dvd_of_mod_eq_zero h) (Nat.dvd_refl k)) |> Nat.mod_eq_zero_of_dvd

/-- **`zip_longest(*[iter(xs)] * k)` is `chunk k xs`, no `None` anywhere, when `len(xs)` is a multiple
    of `k`** -/
theorem pl2_zipLongestIter_eq_chunk {β : Type} (k : Nat) (l : List β) (h : l.length % k = 0) :
    zipLongestIter k l = (chunk k l).map (fun c => c.map some) := by
  rw [pl2_zipLongestIter_eq_pad]
  apply List.map_congr_left
  intro c hc
  unfold pl2_pad
  rw [pl2_chunk_length k l h c hc, Nat.sub_self, List.replicate_zero, List.append_nil]

section
variable {α : Type} [Scalar α]

theorem pl2_sumTuple_some (c : List α) : sumTuple (c.map some) = sumL c := by
  unfold sumTuple
  rw [List.filterMap_map]
  simp

/-- the regrouping comprehension of `predict_win` / `predict_rank` -/
theorem pl2_regroup (k : Nat) (l : List α) (denom : α) (h : l.length % k = 0) :
    (zipLongestIter k l).map (fun team_prob => sumTuple team_prob / denom)
      = (chunk k l).map (fun c => sumL c / denom) := by
  rw [pl2_zipLongestIter_eq_chunk k l h, List.map_map]
  apply List.map_congr_left
  intro c _
  simp only [Function.comp, pl2_sumTuple_some]

end

/-! ## `_calculate_team_ratings` without ranks -/

section
variable {α : Type} [Scalar α]

/-- the one arithmetic fact the predictions need: `_calculate_team_ratings` adds a team's values with
    `reduce(lambda x, y: x + y, …)` — no initial value, the fold starts from the FIRST player's value —
    while `teamAgg` (like Python's `sum`) starts from `0`.  The two agree when adding the first
    player's `mu` (and `sigma**2`) to `0` gives it back.  True for every real number and for every
    `float` except `mu = -0.0` (`0 + -0.0` is `+0.0`). -/
def FirstPlayerZeroAdd (team : List (Rating α)) : Prop :=
  ∀ p, team.head? = some p →
    ofNat 0 + p.mu = p.mu ∧ ofNat 0 + p.sigma * p.sigma = p.sigma * p.sigma

theorem pl2_calc_eq (game : List (List (Rating α))) (hz : ∀ team ∈ game, FirstPlayerZeroAdd team) :
    calcTeamRatingsNoRanks game = teamAggs game (List.range game.length) := by
  unfold calcTeamRatingsNoRanks teamRatingsCode
  simp only []
  rw [lp_rankingsLoopNone_eq game]
  exact lp_teamRatingsLoop_eq game _ (by rw [List.length_range]; exact Nat.le_refl _) hz

/-- `self._calculate_team_ratings([pair_a])[0]` -/
theorem pl2_calc_single (t : List (Rating α)) (hz : FirstPlayerZeroAdd t) :
    (calcTeamRatingsNoRanks [t]).getD 0 TeamAgg.dflt = teamAgg t 0 := by
  rw [pl2_calc_eq [t] (by intro team ht; rw [List.mem_singleton.mp ht]; exact hz)]
  rfl

/-- `self._calculate_team_ratings(teams)` for two teams: ranks `0` and `1` -/
theorem pl2_calc_two (t0 t1 : List (Rating α)) (h0 : FirstPlayerZeroAdd t0)
    (h1 : FirstPlayerZeroAdd t1) :
    calcTeamRatingsNoRanks [t0, t1] = [teamAgg t0 0, teamAgg t1 1] := by
  rw [pl2_calc_eq [t0, t1] (by
    intro team ht
    rcases List.mem_cons.mp ht with rfl | ht
    · exact h0
    · rw [List.mem_singleton.mp ht]; exact h1)]
  rfl

/-- predictions never read the rank -/
theorem pl2_teamAgg_mu (t : List (Rating α)) (r : Nat) : (teamAgg t r).mu = (teamAgg t 0).mu := rfl
theorem pl2_teamAgg_sig2 (t : List (Rating α)) (r : Nat) : (teamAgg t r).sig2 = (teamAgg t 0).sig2 := rfl

end

/-! ## `orderedPairs` plumbing -/

theorem pl2_orderedPairs_map {β γ : Type} (f : β → γ) (l : List β) :
    orderedPairs (l.map f) = (orderedPairs l).map (Prod.map f f) := by
  simp [orderedPairs, List.zipIdx_map, List.filter_map, Function.comp_def, List.flatMap_map,
    List.map_flatMap]

theorem pl2_mem_orderedPairs {β : Type} (l : List β) (ab : β × β) (h : ab ∈ orderedPairs l) :
    ab.1 ∈ l ∧ ab.2 ∈ l := by
  unfold orderedPairs at h
  rw [List.mem_flatMap] at h
  obtain ⟨a, ha, h⟩ := h
  rw [List.mem_map] at h
  obtain ⟨b, hb, rfl⟩ := h
  have hb' := (List.mem_filter.mp hb).1
  exact ⟨(List.mem_zipIdx_iff_getElem?.mp ha) |> List.mem_of_getElem?,
         (List.mem_zipIdx_iff_getElem?.mp hb') |> List.mem_of_getElem?⟩

/-- the number of pairwise probabilities is a multiple of the group size -/
theorem pl2_pairs_mod {β γ : Type} (l : List β) (f : β × β → γ) :
    ((orderedPairs l).map f).length % (l.length - 1) = 0 := by
  rw [List.length_map, length_orderedPairs, Nat.mul_mod_left]

/-! ## the pairwise loop shared by the three predictions -/

section
variable {α : Type} [Scalar α]

/-- `pairwise_probabilities = []; for pair_a, pair_b in itertools.permutations(teams, 2): …append(H(mu_a,
    sigma_a, mu_b, sigma_b))` with the four values read from `self._calculate_team_ratings([pair])[0]`
    is the map of `H` over the ordered pairs of `aggs teams` -/
theorem pl2_pairLoop (H : α → α → α → α → α) (teams : List (List (Rating α)))
    (hz : ∀ team ∈ teams, FirstPlayerZeroAdd team) :
    (permutations2 teams).foldl
      (fun pairwise_probabilities ab =>
        pairwise_probabilities ++
          [H ((calcTeamRatingsNoRanks [ab.1]).getD 0 TeamAgg.dflt).mu
             ((calcTeamRatingsNoRanks [ab.1]).getD 0 TeamAgg.dflt).sig2
             ((calcTeamRatingsNoRanks [ab.2]).getD 0 TeamAgg.dflt).mu
             ((calcTeamRatingsNoRanks [ab.2]).getD 0 TeamAgg.dflt).sig2])
      []
      = (orderedPairs (aggs teams)).map (fun ab => H ab.1.mu ab.1.sig2 ab.2.mu ab.2.sig2) := by
  rw [lp_foldl_append_nil (fun ab : List (Rating α) × List (Rating α) =>
        H ((calcTeamRatingsNoRanks [ab.1]).getD 0 TeamAgg.dflt).mu
          ((calcTeamRatingsNoRanks [ab.1]).getD 0 TeamAgg.dflt).sig2
          ((calcTeamRatingsNoRanks [ab.2]).getD 0 TeamAgg.dflt).mu
          ((calcTeamRatingsNoRanks [ab.2]).getD 0 TeamAgg.dflt).sig2),
    pl2_permutations2_eq]
  unfold aggs
  rw [pl2_orderedPairs_map, List.map_map]
  apply List.map_congr_left
  intro ab hab
  obtain ⟨ha, hb⟩ := pl2_mem_orderedPairs teams ab hab
  simp only [Function.comp, Prod.map]
  rw [pl2_calc_single ab.1 (hz _ ha), pl2_calc_single ab.2 (hz _ hb)]

theorem pl2_length_aggs (teams : List (List (Rating α))) : (aggs teams).length = teams.length := by
  unfold aggs; rw [List.length_map]

/-- `predictWin` away from the two-team case -/
theorem pl2_predictWin_general (beta : α) (teams : List (List (Rating α))) (h : teams.length ≠ 2) :
    predictWin beta teams
      = (chunk (teams.length - 1) ((orderedPairs (aggs teams)).map (fun ab =>
          Phi ((ab.1.mu - ab.2.mu) / pairDenom teams.length beta ab.1 ab.2)))).map
          (fun c => sumL c / (ofNat (teams.length * (teams.length - 1)) / ofNat 2)) := by
  unfold predictWin
  split
  · rename_i a b heq
    have := pl2_length_aggs teams
    rw [heq] at this
    exact absurd this.symm h
  · rfl

/-- `predictWin` in the two-team case -/
theorem pl2_predictWin_two (beta : α) (t0 t1 : List (Rating α)) :
    predictWin beta [t0, t1]
      = [Phi (((teamAgg t0 0).mu - (teamAgg t1 0).mu)
            / pairDenom (playerCount [t0, t1]) beta (teamAgg t0 0) (teamAgg t1 0)),
         ofNat 1 - Phi (((teamAgg t0 0).mu - (teamAgg t1 0).mu)
            / pairDenom (playerCount [t0, t1]) beta (teamAgg t0 0) (teamAgg t1 0))] := rfl

theorem pl2_playerCount_two {β : Type} (t0 t1 : List β) :
    playerCount [t0, t1] = t0.length + t1.length := by
  unfold playerCount
  simp

end

/-! ## `max(ranks)` and the reversal `abs(_ - max_ordinal) + 1` -/

theorem pl2_maxStep (m item : Nat) : (if item > m then item else m) = Nat.max m item := by
  show _ = max m item
  rw [Nat.max_def]
  split <;> split <;> omega

/-- Python's `max` over a list of naturals (first item, then strict improvements) is the fold `listMaxNat` -/
theorem pl2_pyMaxNat_eq (l : List Nat) : pyMaxNat l = listMaxNat l := by
  cases l with
  | nil => rfl
  | cons x xs =>
    unfold pyMaxNat listMaxNat
    rw [List.foldl_cons, show Nat.max 0 x = x from Nat.zero_max x]
    apply lp_foldl_ext
    intro m item _
    exact pl2_maxStep m item

theorem pl2_foldl_max_ge (l : List Nat) (acc : Nat) :
    acc ≤ l.foldl Nat.max acc ∧ ∀ x ∈ l, x ≤ l.foldl Nat.max acc := by
  induction l generalizing acc with
  | nil => exact ⟨Nat.le_refl _, fun x hx => by cases hx⟩
  | cons y ys ih =>
    rw [List.foldl_cons]
    obtain ⟨h1, h2⟩ := ih (Nat.max acc y)
    refine ⟨Nat.le_trans (Nat.le_max_left acc y) h1, ?_⟩
    intro x hx
    rcases List.mem_cons.mp hx with rfl | hx
    · exact Nat.le_trans (Nat.le_max_right acc x) h1
    · exact h2 x hx

theorem pl2_le_listMaxNat (l : List Nat) (x : Nat) (hx : x ∈ l) : x ≤ listMaxNat l :=
  (pl2_foldl_max_ge l 0).2 x hx

/-- `abs(x - max_ordinal)` on Python ints is `max_ordinal - x` for `x ≤ max_ordinal` -/
theorem pl2_natAbs_sub (x mx : Nat) (h : x ≤ mx) :
    (Int.ofNat x - Int.ofNat mx).natAbs = mx - x := by
  show ((x : Int) - (mx : Int)).natAbs = mx - x
  omega

/-- `max_ordinal = max(ranks); ranks = [abs(_ - max_ordinal) + 1 for _ in ranks]` -/
theorem pl2_reverse_ranks (r : List Nat) :
    r.map (fun (x : Nat) => (Int.ofNat x - Int.ofNat (pyMaxNat r)).natAbs + 1)
      = r.map (fun x => (listMaxNat r - x) + 1) := by
  apply List.map_congr_left
  intro x hx
  rw [pl2_pyMaxNat_eq, pl2_natAbs_sub x _ (pl2_le_listMaxNat r x hx)]

/-! ## `_unwind` -/

/-- `[[tenet[i], h(x, i)] for i, x in enumerate(objects)]` is `zip(tenet, …)` (rows whose `tenet[i]` does
    not exist are dropped on both sides) -/
theorem pl2_matrix_aux {κ β γ : Type} (objs : List β) :
    ∀ (tenet : List κ) (h : β × Nat → γ),
      objs.zipIdx.filterMap (fun xi => (tenet[xi.2]?).map (fun t => (t, h xi)))
        = tenet.zip (objs.zipIdx.map h) := by
  induction objs with
  | nil => intro tenet h; simp
  | cons x xs ih =>
    intro tenet h
    have hshift : xs.zipIdx 1 = xs.zipIdx.map (fun p => (p.1, p.2 + 1)) := by
      rw [List.zipIdx_succ]
    rw [List.zipIdx_cons, Nat.zero_add, hshift, List.filterMap_cons, List.filterMap_map, List.map_cons,
      List.map_map]
    cases tenet with
    | nil => simp
    | cons t ts =>
      have := ih ts (h ∘ fun p => (p.1, p.2 + 1))
      simp only [List.getElem?_cons_zero, Option.map_some, List.zip_cons_cons, Function.comp_def,
        List.getElem?_cons_succ] at this ⊢
      rw [this]

theorem pl2_matrix_eq {κ β : Type} (tenet : List κ) (objs : List β) :
    objs.zipIdx.filterMap (fun xi => (tenet[xi.2]?).map (fun t => (t, (xi.1, xi.2))))
      = tenet.zip objs.zipIdx := by
  have := pl2_matrix_aux objs tenet (fun xi => xi)
  rw [List.map_id'] at this
  exact this

theorem pl2_zip_fst_snd {κ γ : Type} (m : List (κ × γ)) : (m.map (·.1)).zip (m.map (·.2)) = m := by
  induction m with
  | nil => rfl
  | cons r rs ih => rw [List.map_cons, List.map_cons, List.zip_cons_cons, ih]

end OS
