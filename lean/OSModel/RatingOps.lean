import OSModel.Team
/-
  The rating class: `ordinal`, comparison operators, constructor paths, deepcopy.
-/
namespace OS
open Scalar
variable {α : Type} [Scalar α]

def ordinal (z : α) (r : Rating α) : α := r.mu - z * r.sigma

/-- the right operand of a comparison: a rating of the same class, or anything else -/
inductive Operand (α : Type) where
  | same (r : Rating α)
  | foreign

inductive CmpOp where
  | lt | le | gt | ge
  deriving DecidableEq, Repr

inductive CmpOut where
  | bool (b : Bool)
  | valueError
  deriving DecidableEq, Repr

def three : α := ofNat 3

/-- `__lt__`, `__le__`, `__gt__`, `__ge__` -/
def cmpOp (op : CmpOp) (a : Rating α) (b : Operand α) : CmpOut :=
  match b with
  | .foreign => .valueError
  | .same r =>
    let x := ordinal three a
    let y := ordinal three r
    match op with
    | .lt => .bool (decide (x < y))
    | .le => .bool (decide (x ≤ y))
    | .gt => .bool (decide (y < x))
    | .ge => .bool (decide (y ≤ x))

/-- float equality as the conjunction of the two weak inequalities (no NaN in the domain) -/
def feq (x y : α) : Bool := decide (x ≤ y) && decide (y ≤ x)

/-- `__eq__` followed by Python's fallback for `NotImplemented` (identity; a foreign
    operand is a different object, hence unequal) -/
def eqOp (a : Rating α) (b : Operand α) : Bool :=
  match b with
  | .foreign => false
  | .same r => feq a.mu r.mu && feq a.sigma r.sigma

/-- `model.rating(mu, sigma, name)`: defaults only where the argument is omitted -/
def mkRating (defMu defSigma : α) (freshId : Nat) (mu sigma : Option α) : Rating α :=
  { id := freshId,
    mu := match mu with | some m => m | none => defMu,
    sigma := match sigma with | some s => s | none => defSigma }

/-- `create_rating([mu, sigma], name)` -/
def createRating (freshId : Nat) (mu sigma : α) : Rating α := { id := freshId, mu := mu, sigma := sigma }

/-- `__deepcopy__` : same id, mu, sigma (and name) in a distinct object -/
def deepcopyRating (r : Rating α) : Rating α := { id := r.id, mu := r.mu, sigma := r.sigma }

end OS
