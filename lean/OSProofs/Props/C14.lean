import OSModel
import OSProofs.Sched
/-!
# C14 — stateless calls: results independent of call history, identity and interleaving

(a)/(c) call histories: a machine whose state is the model's attribute record and whose
operations are `rate` / `predict_*` calls; no step changes the state, hence the output of a
call after any history is its output from the initial state.
(d) interleavings: `Sched.shuffle_serial` instantiated with the footprint of a call
(reads the model attributes, reads and writes only the rating objects passed).
The tie to the code is the footprint itself, which the C14 correspondence observes on every
run (attribute-write tracing on a subclass, `__dict__` snapshots); with defect F2 unrepaired
the footprint contains a write to the shared location `limit_sigma` and `Indep` fails.
-/
namespace OS
variable {α ρ : Type} [Scalar α]

/-- one API call on a model (the rating values passed are part of the call) -/
inductive Call (α ρ : Type) where
  | rate (K : Kind) (teams : List (List (Rating α))) (oc : Outcome ρ) (o : CallOpts α)
  | predictWin (teams : List (List (Rating α)))
  | predictDraw (teams : List (List (Rating α)))
  | predictRank (teams : List (List (Rating α)))

inductive Out (α : Type) where
  | ratings (r : List (List (Rating α)))
  | probs (p : List α)
  | prob (p : α)
  | ranked (p : List (Nat × α))

/-- the model object: its attributes are the state -/
def step (L : Leaves α) (le : ρ → ρ → Bool) (neg : ρ → ρ) (P : Params α) (c : Call α ρ) :
    Params α × Out α :=
  match c with
  | .rate K teams oc o => (P, .ratings (rate K L P le neg teams oc o))
  | .predictWin teams => (P, .probs (predictWin P.beta teams))
  | .predictDraw teams => (P, .prob (predictDraw P.beta teams))
  | .predictRank teams => (P, .ranked (predictRank P.beta teams))

/-- (a) no rate or predict call changes any attribute of the model object -/
theorem C14_attrs_unchanged (L : Leaves α) (le : ρ → ρ → Bool) (neg : ρ → ρ) (P : Params α)
    (c : Call α ρ) : (step L le neg P c).1 = P := by
  cases c <;> rfl

def runHistory (L : Leaves α) (le : ρ → ρ → Bool) (neg : ρ → ρ) (P : Params α)
    (h : List (Call α ρ)) : Params α :=
  h.foldl (fun s c => (step L le neg s c).1) P

theorem runHistory_eq (L : Leaves α) (le : ρ → ρ → Bool) (neg : ρ → ρ) (P : Params α)
    (h : List (Call α ρ)) : runHistory L le neg P h = P := by
  induction h generalizing P with
  | nil => rfl
  | cons c cs ih =>
    have : runHistory L le neg P (c :: cs) = runHistory L le neg (step L le neg P c).1 cs := rfl
    rw [this, C14_attrs_unchanged]; exact ih P

/-- (c) after ANY history of calls (arbitrary per-call tau / limit_sigma), a call returns what it
returns on the freshly constructed model -/
theorem C14_history_irrelevant (L : Leaves α) (le : ρ → ρ → Bool) (neg : ρ → ρ) (P : Params α)
    (h : List (Call α ρ)) (c : Call α ρ) :
    (step L le neg (runHistory L le neg P h) c).2 = (step L le neg P c).2 := by
  rw [runHistory_eq]

end OS

/-! ### (d) thread interleavings -/
namespace Sched

/-- the footprint of a `rate` / `predict_*` call: reads the model attributes `M` and the rating
objects `R` passed, writes only `R` -/
structure CallFootprint (a : Action) (M R : List Loc) : Prop where
  reads_sub : ∀ l, l ∈ a.reads → l ∈ M ∨ l ∈ R
  writes_sub : ∀ l, l ∈ a.writes → l ∈ R

/-- calls on disjoint sets of ratings through one shared model are independent -/
theorem calls_indep {a b : Action} {M Ra Rb : List Loc}
    (ha : CallFootprint a M Ra) (hb : CallFootprint b M Rb)
    (hdis : ∀ l, l ∈ Ra → l ∉ Rb) (hMa : ∀ l, l ∈ M → l ∉ Ra) (hMb : ∀ l, l ∈ M → l ∉ Rb) :
    Indep a b := by
  constructor
  · intro l hl ht
    have hla := ha.writes_sub l hl
    simp only [Action.touches, List.mem_append] at ht
    rcases ht with hr | hw
    · rcases hb.reads_sub l hr with hm | hr'
      · exact hMa l hm hla
      · exact hdis l hla hr'
    · exact hdis l hla (hb.writes_sub l hw)
  · intro l hl ht
    have hlb := hb.writes_sub l hl
    simp only [Action.touches, List.mem_append] at ht
    rcases ht with hr | hw
    · rcases ha.reads_sub l hr with hm | hr'
      · exact hMb l hm hlb
      · exact hdis l hr' hlb
    · exact hdis l (ha.writes_sub l hw) hlb

/-- C14(d): threads making calls on pairwise disjoint sets of ratings through one shared model
(attributes `M`, never written): EVERY interleaving of their atomic actions leaves the same store
— hence the same returned ratings — as running the threads one after another. -/
theorem C14_interleaving {ths : List (List Action)} {zs : List Action} (hs : Shuffle ths zs)
    (M : List Loc) (R : Nat → List Loc)
    (hfp : ∀ i (hi : i < ths.length), ∀ x, x ∈ ths[i] → CallFootprint x M (R i))
    (hdis : ∀ i j, i ≠ j → ∀ l, l ∈ R i → l ∉ R j)
    (hM : ∀ i l, l ∈ M → l ∉ R i) (s : Store) :
    runAll zs s = runAll ths.flatten s :=
  shuffle_serial hs (fun i j hi hj hij x hx y hy =>
    calls_indep (hfp i hi x hx) (hfp j hj y hy) (hdis i j hij) (fun l hl => hM i l hl) (fun l hl => hM j l hl)) s

/-- the pre-repair footprint (defect F2): a call that also WRITES the shared model attribute
`limit_sigma` (location 0) is not independent of a call that reads it — the interleaving theorem's
hypothesis fails, which is the measured race. -/
example : ¬ Indep
    ⟨[0, 1], [0, 1], fun s l => if l = 0 then 1 else if l = 1 then s 0 + s 1 else s l,
      by intro s l h; simp at h; simp [h], by intro s s' h l hl; simp at hl; rcases hl with rfl | rfl <;> simp [h]⟩
    ⟨[0, 2], [2], fun s l => if l = 2 then s 0 + s 2 else s l,
      by intro s l h; simp at h; simp [h], by intro s s' h l hl; simp at hl; subst hl; simp [h]⟩ := by
  intro h
  exact h.1 0 (by simp) (by simp [Action.touches])

end Sched
