import OSProofs.Props.C08
import OSProofs.Props.C08b
import OSProofs.Props.C08c
import OSProofs.Props.C08Mag
#print axioms OS.C08_sqrt_arg_nonneg
#print axioms OS.C08_ciq_pos
#print axioms OS.C08_plC_pos
#print axioms OS.C08_team_var_pos
#print axioms OS.C08_inflate_pos
#print axioms OS.C08_invcdf_arg
#print axioms OS.C08_bt_exp_arg_bound
#print axioms OS.C08_leaf_divisors_pos
#print axioms OS.C08_leaf_divisors_are
#print axioms OS.C08_gamma_guards
#print axioms OS.C08_applyTeam_guards
#print axioms OS.C08_inflate_guards
#print axioms OS.C08_unwind_inflated
#print axioms OS.C08_teamAgg_facts
#print axioms OS.C08_teamAggs_length
#print axioms OS.C08_rate_guards_BT
#print axioms OS.C08_rate_guards_TM
#print axioms OS.C08_rate_guards_PL
#print axioms OS.C08_compute_guards
#print axioms OS.C08_rate_guards
#print axioms OS.C08_predict_guards
#print axioms OS.C08_gammaVal_shape
#print axioms OS.C08_btPair_shape
#print axioms OS.C08_tmPair_shape
#print axioms OS.C08_drawMargin_shape
#print axioms OS.C08_applyTeam_shape
#print axioms OS.C08_pairDenom_shape
#print axioms OS.C08_full_models_discarded_sites
#print axioms OS.C08_mag_domain_implies_guard_domain
#print axioms OS.C08_mag_inflated
#print axioms OS.C08_magnitudes_aggregates
#print axioms OS.C08_leafBounds_code
#print axioms OS.C08_magnitudes_rate_BT
#print axioms OS.C08_magnitudes_rate_PL
#print axioms OS.C08_magnitudes_rate_TM
#print axioms OS.C08_magnitudes_rate
#print axioms OS.C08_magnitudes_rate_entry
#print axioms OS.C08_magnitudes_predict
#print axioms OS.C08_no_overflow_corollary
#print axioms OS.C08_no_overflow_rate
