import OSProofs.C08bLemmas
/-!
# C08b — totality: every arithmetic guard of every site of the model holds on the domain

Python raises `ZeroDivisionError` on a zero float denominator, `ValueError` on `math.sqrt` of
a negative number, `OverflowError` when `math.exp` overflows (argument > 709.78) and
`StatisticsError` for `inv_cdf(p)` with `p ∉ (0,1)`.  This file lists, function by function of
`OSModel`, every denominator, every square-root argument, every `exp` argument and the
`inv_cdf` argument that the model evaluates (`Grd.*Sites`), and proves that on the supported
numeric range (`Grd.Domain`, `Grd.PredictDomain`) every denominator is non-zero (indeed
positive), every square-root argument is non-negative, every `exp` argument is at most 453 in
absolute value, and the `inv_cdf` argument lies strictly between 0 and 1.

How to read the site lists.  A `…Sites` predicate has one conjunct per operation of the
corresponding model function that can raise; quantifiers range over a SUPERSET of the
operands the code meets (e.g. all ordered pairs of teams rather than only the opponents or
ladder neighbours; every real `δ` rather than the `δ` actually computed), so nothing depends
on intermediate values being what they should be.  `Gauss.Phi`, `Gauss.phi` are total (the
code's `phi` calls `exp` on a non-positive number only; `Phi` is `erfc`-based), sums and
products cannot raise over ℝ.  Overflow of IEEE doubles inside sums/products is not a
statement about ℝ; it is sampled at the domain corners by the differential test.

Only lower bounds and the bound `|mu| ≤ 20β`, `≤ 16` players enter the proofs; the upper
bounds `sigma ≤ 10β`, `κ ≤ 1`, `≤ 8` teams are part of the documented domain but no guard
over ℝ needs them.
-/
noncomputable section
namespace OS
open Gauss

namespace Grd

/-! ## the domain -/

/-- a valid `rate` call in the supported numeric range: β > 0, 0 < κ ≤ 1, τ ≥ 0, 2..8
non-empty teams of 1..16 players, |mu| ≤ 20β, 0 ≤ sigma ≤ 10β, and for every player
sigma > 0 or τ > 0 -/
structure Domain (β κ τ : ℝ) (teams : List (List (Rating ℝ))) : Prop where
  beta_pos : 0 < β
  kappa_pos : 0 < κ
  kappa_le_one : κ ≤ 1
  tau_nonneg : 0 ≤ τ
  teams_ge : 2 ≤ teams.length
  teams_le : teams.length ≤ 8
  players_ge : ∀ t ∈ teams, 1 ≤ t.length
  players_le : ∀ t ∈ teams, t.length ≤ 16
  mu_bound : ∀ t ∈ teams, ∀ p ∈ t, |p.mu| ≤ 20 * β
  sigma_nonneg : ∀ t ∈ teams, ∀ p ∈ t, 0 ≤ p.sigma
  sigma_le : ∀ t ∈ teams, ∀ p ∈ t, p.sigma ≤ 10 * β
  nondeg : ∀ t ∈ teams, ∀ p ∈ t, 0 < p.sigma ∨ 0 < τ

/-- what `_compute` receives: the tau-inflated ratings (all sigmas strictly positive), in any
order (`rate` sorts the teams by rank first) -/
structure Inflated (β : ℝ) (teams : List (List (Rating ℝ))) : Prop where
  teams_ge : 2 ≤ teams.length
  players_ge : ∀ t ∈ teams, 1 ≤ t.length
  players_le : ∀ t ∈ teams, t.length ≤ 16
  mu_bound : ∀ t ∈ teams, ∀ p ∈ t, |p.mu| ≤ 20 * β
  sigma_pos : ∀ t ∈ teams, ∀ p ∈ t, 0 < p.sigma

/-- a valid `predict_win / predict_draw / predict_rank` call in the supported range (sigma = 0
is allowed: predictions do not inflate) -/
structure PredictDomain (β : ℝ) (teams : List (List (Rating ℝ))) : Prop where
  beta_pos : 0 < β
  teams_ge : 2 ≤ teams.length
  teams_le : teams.length ≤ 8
  players_ge : ∀ t ∈ teams, 1 ≤ t.length
  players_le : ∀ t ∈ teams, t.length ≤ 16
  mu_bound : ∀ t ∈ teams, ∀ p ∈ t, |p.mu| ≤ 20 * β
  sigma_nonneg : ∀ t ∈ teams, ∀ p ∈ t, 0 ≤ p.sigma
  sigma_le : ∀ t ∈ teams, ∀ p ∈ t, p.sigma ≤ 10 * β

/-! ## the sites, function by function -/

/-- an admissible `math.exp` argument (`OverflowError` needs > 709.78; 453 is what is proved) -/
def ExpArgOK (x : ℝ) : Prop := |x| ≤ 453

/-- `inflate`: `sqrt(sigma² + tau²)` — argument non-negative -/
def inflateSites (τ : ℝ) (teams : List (List (Rating ℝ))) : Prop :=
  ∀ t ∈ teams, ∀ p ∈ t, 0 ≤ p.sigma * p.sigma + τ * τ

/-- `gammaVal g c k mu sig2 team rank`: `sqrt(sig2)/c`, `1/k`, `1/(rank+1)`, `sig2/(c*c)`.
An arbitrary callback `.fn f` is code of the caller, not of the library: it contributes no site of the
library (whatever it divides by or takes the root of is the caller's to guard; the library evaluates
it on `c > 0`, `k ≥ 1`, `sig2 ≥ 0` — the hypotheses of `C08_gamma_guards`). -/
def gammaSites (g : GammaFn ℝ) (c : ℝ) (k : ℕ) (sig2 : ℝ) (rank : ℕ) : Prop :=
  match g with
  | .fn _ => True
  | .dflt => 0 ≤ sig2 ∧ c ≠ 0
  | .const _ => True
  | .invK => (k : ℝ) ≠ 0
  | .rankDep => ((rank + 1 : ℕ) : ℝ) ≠ 0
  | .sq => c * c ≠ 0
  | .zero => True

/-- `applyTeam κ t ω δ` (for this `δ`, any `ω`): the division by the team variance, and
`sqrt(max(1 − share·δ, κ))` -/
def applyTeamSites (κ : ℝ) (t : TeamAgg ℝ) (δ : ℝ) : Prop :=
  0 < t.sig2 ∧ ∀ p ∈ t.players, 0 < smax (1 - p.sigma * p.sigma / t.sig2 * δ) κ

/-- `c_iq = sqrt(σ_i² + σ_q² + 2β²)` of `btPair` and `tmPair` -/
def ciq (β : ℝ) (ti tq : TeamAgg ℝ) : ℝ := Real.sqrt (ti.sig2 + tq.sig2 + 2 * (β * β))

/-- `btPair β g n ti tq`: the sqrt argument, the three divisions by `c_iq`, the `exp` argument,
the denominator `1 + exp(..)`, the literal 2, and the gamma callback -/
def btPairSites (β : ℝ) (g : GammaFn ℝ) (n : ℕ) (ti tq : TeamAgg ℝ) : Prop :=
  0 ≤ ti.sig2 + tq.sig2 + 2 * (β * β)
  ∧ 0 < ciq β ti tq
  ∧ ExpArgOK ((tq.mu - ti.mu) / ciq β ti tq)
  ∧ 0 < 1 + Real.exp ((tq.mu - ti.mu) / ciq β ti tq)
  ∧ (2 : ℝ) ≠ 0
  ∧ gammaSites g (ciq β ti tq) n ti.sig2 ti.rank

/-- the divisions inside `vCode`/`wCode` (by `Φ(x−t)`, on the branch `¬ Φ(x−t) < ε`), `vtCode`
(by `b = Φ(t−|x|) − Φ(−t−|x|)`, on the branch `¬ b < 1e-5`) and `wtCode` (by `b`, twice, on the
branch `¬ b < ε`) -/
def leafSites (x t : ℝ) : Prop :=
  (¬ Phi (x - t) < epsF → 0 < Phi (x - t))
  ∧ (¬ Zc x t < tiny5 → 0 < Zc x t)
  ∧ (¬ Zc x t < epsF → 0 < Zc x t)

/-- `tmPair codeLeaves cmul β κ g n ti tq`: the sqrt argument, the divisions by
`c = cmul·c_iq` (of `μ_i − μ_q`, `σ_i²`, `κ`, `γ·σ_i²/c`), the gamma callback, and the leaves at
`(±(μ_i − μ_q)/c, κ/c)` -/
def tmPairSites (cmul β κ : ℝ) (g : GammaFn ℝ) (n : ℕ) (ti tq : TeamAgg ℝ) : Prop :=
  0 ≤ ti.sig2 + tq.sig2 + 2 * (β * β)
  ∧ 0 < cmul * ciq β ti tq
  ∧ gammaSites g (cmul * ciq β ti tq) n ti.sig2 ti.rank
  ∧ leafSites ((ti.mu - tq.mu) / (cmul * ciq β ti tq)) (κ / (cmul * ciq β ti tq))
  ∧ leafSites (-((ti.mu - tq.mu) / (cmul * ciq β ti tq))) (κ / (cmul * ciq β ti tq))

/-- Plackett–Luce (`plC`, `plSumQ`, `plA`, `plOmegaDelta` for every team): the sqrt argument of
`c`; the divisions by `c` and `c*c`; every `exp(μ_i / c)`; every entry of `sum_q` (a
denominator); every entry of `A` (a denominator, after the cast to float); the gamma callback -/
def plSites (β : ℝ) (g : GammaFn ℝ) (ts : List (TeamAgg ℝ)) : Prop :=
  0 ≤ sumL (ts.map (fun t => t.sig2 + β * β))
  ∧ 0 < plC β ts
  ∧ 0 < plC β ts * plC β ts
  ∧ (∀ t ∈ ts, ExpArgOK (t.mu / plC β ts))
  ∧ (∀ s ∈ plSumQ ts (plC β ts), 0 < s)
  ∧ (∀ a ∈ plA ts, 0 < (a : ℝ))
  ∧ (∀ t ∈ ts, gammaSites g (plC β ts) ts.length t.sig2 t.rank)

/-- `omegaDelta K codeLeaves P ts` followed by `applyTeam` for every team: the pair sites for
every ordered pair of teams (a superset of the opponents / ladder neighbours met) or the
Plackett–Luce sites, and the update sites for every team and every `δ` -/
def computeSites (K : Kind) (P : Params ℝ) (ts : List (TeamAgg ℝ)) : Prop :=
  (match K with
    | .PL => plSites P.beta P.gamma ts
    | .BTF => ∀ ti ∈ ts, ∀ tq ∈ ts, btPairSites P.beta P.gamma ts.length ti tq
    | .BTP => ∀ ti ∈ ts, ∀ tq ∈ ts, btPairSites P.beta P.gamma ts.length ti tq
    | .TMF => ∀ ti ∈ ts, ∀ tq ∈ ts, tmPairSites 1 P.beta P.kappa P.gamma ts.length ti tq
    | .TMP => ∀ ti ∈ ts, ∀ tq ∈ ts, tmPairSites 2 P.beta P.kappa P.gamma ts.length ti tq)
  ∧ ∀ t ∈ ts, ∀ δ : ℝ, applyTeamSites P.kappa t δ

/-- `pairDenom nb β a b = sqrt(nb·β² + σ_a² + σ_b²)`, used as a denominator -/
def pairDenomSites (nb : ℕ) (β : ℝ) (a b : TeamAgg ℝ) : Prop :=
  0 ≤ (nb : ℝ) * (β * β) + a.sig2 + b.sig2 ∧ 0 < pairDenom nb β a b

/-- `drawMargin β N`: `sqrt(N)`, `1/N`, the literal 2, and the `inv_cdf` argument in (0,1) -/
def drawMarginSites (N : ℕ) : Prop :=
  0 ≤ (N : ℝ) ∧ (N : ℝ) ≠ 0 ∧ (2 : ℝ) ≠ 0
  ∧ 0 < (1 + 1 / (N : ℝ)) / 2 ∧ (1 + 1 / (N : ℝ)) / 2 < 1

/-- `predictWin`, `predictDraw`, `predictRankProbs`/`predictRank` on `teams`: the pair
denominators with `nb =` number of teams and `nb =` number of players (two-team branch of
`predictWin`) for every ordered pair of team aggregates, the draw margin for the player count,
and the normalising denominators `n(n−1)/2` and `n(n−1)` (resp. 1 when `n ≤ 2`) -/
def predictSites (β : ℝ) (teams : List (List (Rating ℝ))) : Prop :=
  (∀ a ∈ aggs teams, ∀ b ∈ aggs teams,
      pairDenomSites teams.length β a b ∧ pairDenomSites (playerCount teams) β a b)
  ∧ drawMarginSites (playerCount teams)
  ∧ (2 : ℝ) ≠ 0
  ∧ 0 < ((teams.length * (teams.length - 1) : ℕ) : ℝ) / 2
  ∧ 0 < (if teams.length > 2 then ((teams.length * (teams.length - 1) : ℕ) : ℝ) else ((1 : ℕ) : ℝ))

end Grd

open Grd

/-! ## the model functions over ℝ in the vocabulary of the site lists

Each lemma restates one model function (unfolding the `Scalar ℝ` instance only), so that the
denominators, root arguments and `exp` arguments listed above can be read off one expression.
(`plC`, `plSumQ`, `plA`, `inflate`, `smax` occur in the site lists as the model's own terms.) -/

theorem C08_gammaVal_shape (g : GammaFn ℝ) (c : ℝ) (k : ℕ) (mu sig2 : ℝ) (team : List (Rating ℝ))
    (rank : ℕ) :
    gammaVal g c k mu sig2 team rank =
      match g with
      | .fn f => f c k mu sig2 team rank
      | .dflt => Real.sqrt sig2 / c
      | .const x => x
      | .invK => 1 / (k : ℝ)
      | .rankDep => 1 / ((rank + 1 : ℕ) : ℝ)
      | .sq => sig2 / (c * c)
      | .zero => 0 := by
  cases g <;> simp only [gammaVal, sc_sqrt, sc_ofNat, Nat.cast_one, Nat.cast_zero]

theorem C08_btPair_shape (β : ℝ) (g : GammaFn ℝ) (n : ℕ) (ti tq : TeamAgg ℝ) :
    btPair β g n ti tq =
      (ti.sig2 / ciq β ti tq *
          ((if ti.rank < tq.rank then (1 : ℝ) else if tq.rank = ti.rank then 1 / 2 else 0)
            - 1 / (1 + Real.exp ((tq.mu - ti.mu) / ciq β ti tq))),
       gammaVal g (ciq β ti tq) n ti.mu ti.sig2 ti.players ti.rank * (ti.sig2 / ciq β ti tq) / ciq β ti tq
          * (1 / (1 + Real.exp ((tq.mu - ti.mu) / ciq β ti tq)))
          * (1 - 1 / (1 + Real.exp ((tq.mu - ti.mu) / ciq β ti tq)))) := by
  simp only [btPair, ciq, sc_sqrt, sc_exp, sc_ofNat, Nat.cast_ofNat, Nat.cast_one, Nat.cast_zero]

theorem C08_tmPair_shape (L : Leaves ℝ) (cmul β κ : ℝ) (g : GammaFn ℝ) (n : ℕ) (ti tq : TeamAgg ℝ) :
    tmPair L cmul β κ g n ti tq =
      (if ti.rank < tq.rank then
        (ti.sig2 / (cmul * ciq β ti tq)
            * L.v ((ti.mu - tq.mu) / (cmul * ciq β ti tq)) (κ / (cmul * ciq β ti tq)),
         gammaVal g (cmul * ciq β ti tq) n ti.mu ti.sig2 ti.players ti.rank * (ti.sig2 / (cmul * ciq β ti tq))
            / (cmul * ciq β ti tq)
            * L.w ((ti.mu - tq.mu) / (cmul * ciq β ti tq)) (κ / (cmul * ciq β ti tq)))
      else if tq.rank < ti.rank then
        (-(ti.sig2 / (cmul * ciq β ti tq))
            * L.v (-((ti.mu - tq.mu) / (cmul * ciq β ti tq))) (κ / (cmul * ciq β ti tq)),
         gammaVal g (cmul * ciq β ti tq) n ti.mu ti.sig2 ti.players ti.rank * (ti.sig2 / (cmul * ciq β ti tq))
            / (cmul * ciq β ti tq)
            * L.w (-((ti.mu - tq.mu) / (cmul * ciq β ti tq))) (κ / (cmul * ciq β ti tq)))
      else
        (ti.sig2 / (cmul * ciq β ti tq)
            * L.vt ((ti.mu - tq.mu) / (cmul * ciq β ti tq)) (κ / (cmul * ciq β ti tq)),
         gammaVal g (cmul * ciq β ti tq) n ti.mu ti.sig2 ti.players ti.rank * (ti.sig2 / (cmul * ciq β ti tq))
            / (cmul * ciq β ti tq)
            * L.wt ((ti.mu - tq.mu) / (cmul * ciq β ti tq)) (κ / (cmul * ciq β ti tq)))) := by
  simp only [tmPair, ciq, sc_sqrt, sc_ofNat, Nat.cast_ofNat]

theorem C08_drawMargin_shape (β : ℝ) (N : ℕ) :
    drawMargin β N = Real.sqrt (N : ℝ) * β * Gauss.PhiInv ((1 + 1 / (N : ℝ)) / 2) := by
  simp only [drawMargin, sc_sqrt, sc_ofNat, sc_PhiInv, Nat.cast_ofNat, Nat.cast_one]

theorem C08_applyTeam_shape (κ : ℝ) (t : TeamAgg ℝ) (ω δ : ℝ) :
    applyTeam κ t ω δ = t.players.map (fun p =>
      { p with mu := p.mu + p.sigma * p.sigma / t.sig2 * ω,
               sigma := p.sigma * Real.sqrt (smax (1 - p.sigma * p.sigma / t.sig2 * δ) κ) }) := by
  simp only [applyTeam, sc_sqrt, sc_ofNat, Nat.cast_one]

theorem C08_pairDenom_shape (nb : ℕ) (β : ℝ) (a b : TeamAgg ℝ) :
    pairDenom nb β a b = Real.sqrt ((nb : ℝ) * (β * β) + a.sig2 + b.sig2) := by
  simp only [pairDenom, sc_sqrt, sc_ofNat]


/-! ## site lemmas -/

/-- every divisor inside the four correction functions is positive on the branch that divides -/
theorem C08_leaf_divisors_pos (x t : ℝ) : leafSites x t :=
  ⟨fun h => lt_of_lt_of_le epsF_pos (not_lt.mp h), Zc_pos_of_not_lt_tiny5, Zc_pos_of_not_lt_epsF⟩

/-- the leaf divisors are literally the ones of the code: on the dividing branch `vCode`, `wCode`
are quotients by `Φ(x−t)`, `vtCode`, `wtCode` quotients by `Zc x t` -/
theorem C08_leaf_divisors_are (x t : ℝ) :
    (¬ Phi (x - t) < epsF → vCode x t = phi (x - t) / Phi (x - t))
    ∧ (¬ Phi (x - t) < epsF →
        wCode x t = phi (x - t) / Phi (x - t) * (phi (x - t) / Phi (x - t) + (x - t)))
    ∧ (¬ Zc x t < tiny5 → x < 0 → vtCode x t = -(phi (-t - |x|) - phi (t - |x|)) / Zc x t)
    ∧ (¬ Zc x t < tiny5 → ¬ x < 0 → vtCode x t = (phi (-t - |x|) - phi (t - |x|)) / Zc x t)
    ∧ (¬ Zc x t < epsF →
        wtCode x t = ((t - |x|) * phi (t - |x|) + (t + |x|) * phi (-t - |x|)) / Zc x t
          + (phi (-t - |x|) - phi (t - |x|)) / Zc x t
            * ((phi (-t - |x|) - phi (t - |x|)) / Zc x t)) :=
  ⟨vCode_exact, wCode_exact, vtCode_exact_neg, vtCode_exact_nonneg, wtCode_exact⟩

/-- the gamma callbacks: with `c > 0`, at least one team and a non-negative team variance no
callback divides by zero or takes the root of a negative number -/
theorem C08_gamma_guards (g : GammaFn ℝ) (c : ℝ) (k : ℕ) (sig2 : ℝ) (rank : ℕ)
    (hc : 0 < c) (hk : 1 ≤ k) (hs : 0 ≤ sig2) : gammaSites g c k sig2 rank := by
  cases g with
  | fn f => trivial
  | dflt => exact ⟨hs, hc.ne'⟩
  | const x => trivial
  | invK =>
    have : (0 : ℝ) < k := by exact_mod_cast hk
    exact this.ne'
  | rankDep =>
    have : (0 : ℝ) < ((rank + 1 : ℕ) : ℝ) := by exact_mod_cast Nat.succ_pos rank
    exact this.ne'
  | sq => exact (mul_pos hc hc).ne'
  | zero => trivial

/-- the per-player update: the team variance is positive and the root is taken of
`max(·, κ) > 0`, whatever `δ` is -/
theorem C08_applyTeam_guards (κ : ℝ) (hκ : 0 < κ) (t : TeamAgg ℝ) (ht : 0 < t.sig2) (δ : ℝ) :
    applyTeamSites κ t δ :=
  ⟨ht, fun _ _ => C08_sqrt_arg_nonneg _ κ hκ⟩

/-- `inflate`: the root argument is non-negative and every inflated sigma is strictly positive;
the inflated game is what `_compute` is specified for -/
theorem C08_inflate_guards {β κ τ : ℝ} {teams : List (List (Rating ℝ))}
    (D : Domain β κ τ teams) : inflateSites τ teams ∧ Inflated β (inflate τ teams) := by
  refine ⟨fun t _ p _ => add_nonneg (mul_self_nonneg _) (mul_self_nonneg _), ?_⟩
  refine ⟨by simpa [inflate] using D.teams_ge, ?_, ?_, ?_, ?_⟩
  · intro t ht
    obtain ⟨t0, h0, rfl⟩ := grd_mem_inflate ht
    simpa using D.players_ge t0 h0
  · intro t ht
    obtain ⟨t0, h0, rfl⟩ := grd_mem_inflate ht
    simpa using D.players_le t0 h0
  · intro t ht p hp
    obtain ⟨t0, h0, rfl⟩ := grd_mem_inflate ht
    obtain ⟨p0, hp0, rfl⟩ := List.mem_map.mp hp
    exact D.mu_bound t0 h0 p0 hp0
  · intro t ht p hp
    obtain ⟨t0, h0, rfl⟩ := grd_mem_inflate ht
    obtain ⟨p0, hp0, rfl⟩ := List.mem_map.mp hp
    apply C08_inflate_pos
    rcases D.nondeg t0 h0 p0 hp0 with h | h
    · exact Or.inl h.ne'
    · exact Or.inr h.ne'

/-- sorting the teams by rank (`_unwind`) keeps the game in the domain of `_compute` -/
theorem C08_unwind_inflated {ρ : Type} {β : ℝ} {teams : List (List (Rating ℝ))}
    (I : Inflated β teams) (le : ρ → ρ → Bool) (r : List ρ) (hr : r.length = teams.length) :
    Inflated β (unwind le r teams).1 := by
  refine ⟨?_, ?_, ?_, ?_, ?_⟩
  · rw [unwind_fst_length, hr, Nat.min_self]; exact I.teams_ge
  · exact fun t ht => I.players_ge t (grd_mem_unwind le r teams ht)
  · exact fun t ht => I.players_le t (grd_mem_unwind le r teams ht)
  · exact fun t ht => I.mu_bound t (grd_mem_unwind le r teams ht)
  · exact fun t ht => I.sigma_pos t (grd_mem_unwind le r teams ht)

/-- what the domain gives for one team aggregate: |θ| ≤ 320β and σ² > 0 -/
theorem C08_teamAgg_facts {β : ℝ} (hβ : 0 < β) {teams : List (List (Rating ℝ))}
    (I : Inflated β teams) (dense : List Nat) {t : TeamAgg ℝ} (ht : t ∈ teamAggs teams dense) :
    |t.mu| ≤ 320 * β ∧ 0 < t.sig2 := by
  obtain ⟨tm, hm, rk, rfl⟩ := grd_mem_teamAggs ht
  exact ⟨grd_team_mu_bound tm rk β hβ (I.players_le tm hm) (I.mu_bound tm hm),
    grd_team_var_pos tm rk (I.players_ge tm hm) (I.sigma_pos tm hm)⟩

theorem C08_teamAggs_length {β : ℝ} {teams : List (List (Rating ℝ))} (I : Inflated β teams)
    (dense : List Nat) (hd : dense.length = teams.length) : 2 ≤ (teamAggs teams dense).length := by
  have h : (teamAggs teams dense).length = min teams.length dense.length := by simp [teamAggs]
  rw [h, hd, Nat.min_self]; exact I.teams_ge

/-! ## the summary theorems, one per operation -/

/-- **Bradley–Terry (full and partial pairing).**  For every ordered pair of teams of a game in
the domain: the argument of the root in `c_iq` is non-negative, `c_iq > 0` (so the three
divisions by it are safe), the `exp` argument `(θ_q − θ_i)/c_iq` is at most 453 in absolute
value (|θ| ≤ 320β, `c_iq ≥ √2·β`), the denominator `1 + exp(..)` is positive, and the gamma
callback (any of the six) evaluates safely. -/
theorem C08_rate_guards_BT (β : ℝ) (g : GammaFn ℝ) (hβ : 0 < β)
    (teams : List (List (Rating ℝ))) (I : Inflated β teams)
    (dense : List Nat) (hd : dense.length = teams.length) :
    ∀ ti ∈ teamAggs teams dense, ∀ tq ∈ teamAggs teams dense,
      btPairSites β g (teamAggs teams dense).length ti tq := by
  intro ti hi tq hq
  obtain ⟨hmi, hsi⟩ := C08_teamAgg_facts hβ I dense hi
  obtain ⟨hmq, hsq⟩ := C08_teamAgg_facts hβ I dense hq
  obtain ⟨hc, hc2⟩ := C08_ciq_pos β ti.sig2 tq.sig2 hβ hsi.le hsq.le
  have hn := C08_teamAggs_length I dense hd
  have hd' : |tq.mu - ti.mu| ≤ 640 * β := by
    have := abs_sub tq.mu ti.mu
    linarith
  refine ⟨by positivity, hc, C08_bt_exp_arg_bound β _ _ hβ hd' hc2, by positivity, two_ne_zero,
    C08_gamma_guards g _ _ _ _ hc (by omega) hsi.le⟩

/-- **Thurstone–Mosteller (full pairing `cmul = 1`, partial pairing `cmul = 2`).**  For every
ordered pair of teams of a game in the domain: the root argument is non-negative,
`c = cmul·c_iq > 0` (all four divisions by it are safe), the gamma callback evaluates safely, and
inside `v, w, vt, wt` (at both `+` and `−` the normalised skill difference) every division is by
a positive number. -/
theorem C08_rate_guards_TM (cmul β κ : ℝ) (g : GammaFn ℝ) (hβ : 0 < β) (hcm : 0 < cmul)
    (teams : List (List (Rating ℝ))) (I : Inflated β teams)
    (dense : List Nat) (hd : dense.length = teams.length) :
    ∀ ti ∈ teamAggs teams dense, ∀ tq ∈ teamAggs teams dense,
      tmPairSites cmul β κ g (teamAggs teams dense).length ti tq := by
  intro ti hi tq hq
  obtain ⟨_, hsi⟩ := C08_teamAgg_facts hβ I dense hi
  obtain ⟨_, hsq⟩ := C08_teamAgg_facts hβ I dense hq
  obtain ⟨hc, _⟩ := C08_ciq_pos β ti.sig2 tq.sig2 hβ hsi.le hsq.le
  have hn := C08_teamAggs_length I dense hd
  have hc' : 0 < cmul * ciq β ti tq := mul_pos hcm hc
  exact ⟨by positivity, hc', C08_gamma_guards g _ _ _ _ hc' (by omega) hsi.le,
    C08_leaf_divisors_pos _ _, C08_leaf_divisors_pos _ _⟩

/-- **Plackett–Luce.**  For a game in the domain: the root argument of `c` is non-negative,
`c ≥ √2·β > 0` and `c·c > 0`; every `exp` argument `θ_i/c` is at most 453 (indeed 227) in
absolute value; every entry of `sum_q` is positive (the sum over `rank_i ≥ rank_q` contains the
term of `q` itself); every entry of `A` is at least 1 (team `q` is tied with itself); the gamma
callback evaluates safely. -/
theorem C08_rate_guards_PL (β : ℝ) (g : GammaFn ℝ) (hβ : 0 < β)
    (teams : List (List (Rating ℝ))) (I : Inflated β teams)
    (dense : List Nat) (hd : dense.length = teams.length) :
    plSites β g (teamAggs teams dense) := by
  have hn := C08_teamAggs_length I dense hd
  have hs : ∀ t ∈ teamAggs teams dense, 0 ≤ t.sig2 :=
    fun t ht => (C08_teamAgg_facts hβ I dense ht).2.le
  have hc2 := grd_plC_ge β hβ _ hn hs
  have hc : 0 < plC β (teamAggs teams dense) :=
    lt_of_lt_of_le (mul_pos (Real.sqrt_pos.mpr (by norm_num)) hβ) hc2
  refine ⟨?_, hc, mul_pos hc hc, ?_, ?_, ?_, ?_⟩
  · rw [sumL_eq_sum]
    apply List.sum_nonneg
    intro x hx
    obtain ⟨t, ht, rfl⟩ := List.mem_map.mp hx
    have := hs t ht
    positivity
  · intro t ht
    have hm := (C08_teamAgg_facts hβ I dense ht).1
    exact C08_bt_exp_arg_bound β _ _ hβ (by linarith) hc2
  · intro s hs'
    unfold plSumQ at hs'
    obtain ⟨tq, htq, rfl⟩ := List.mem_map.mp hs'
    rw [sumL_eq_sum]
    apply grd_sum_pos
    · apply List.ne_nil_of_mem (a := tq)
      exact List.mem_filter.mpr ⟨htq, by simp⟩
    · intro x _
      rw [sc_exp]; exact Real.exp_pos _
  · intro a ha
    unfold plA at ha
    obtain ⟨ti, hti, rfl⟩ := List.mem_map.mp ha
    have : 0 < (List.filter (fun q => decide (ti.rank = q.rank)) (teamAggs teams dense)).length :=
      List.length_pos_of_mem (List.mem_filter.mpr ⟨hti, by simp⟩)
    exact_mod_cast this
  · intro t ht
    exact C08_gamma_guards g _ _ _ _ hc (by omega) (hs t ht)

/-- **`_compute` of any of the five models**, on the inflated game: every denominator that
`omegaDelta` and `applyTeam` evaluate is positive, every square-root argument is non-negative,
every `exp` argument is at most 453 in absolute value. -/
theorem C08_compute_guards (K : Kind) (P : Params ℝ) (hβ : 0 < P.beta) (hκ : 0 < P.kappa)
    (teams : List (List (Rating ℝ))) (I : Inflated P.beta teams)
    (dense : List Nat) (hd : dense.length = teams.length) :
    computeSites K P (teamAggs teams dense) := by
  refine ⟨?_, fun t ht δ =>
    C08_applyTeam_guards _ hκ t (C08_teamAgg_facts hβ I dense ht).2 δ⟩
  cases K with
  | PL => exact C08_rate_guards_PL _ _ hβ teams I dense hd
  | BTF => exact C08_rate_guards_BT _ _ hβ teams I dense hd
  | BTP => exact C08_rate_guards_BT _ _ hβ teams I dense hd
  | TMF => exact C08_rate_guards_TM 1 _ _ _ hβ one_pos teams I dense hd
  | TMP => exact C08_rate_guards_TM 2 _ _ _ hβ two_pos teams I dense hd

/-- **`rate`** (`rateCore`, any model, any per-call tau / limit_sigma, ranks omitted or given —
scores reach `rateCore` as ranks): for a game in the domain, with `τ` the resolved tau,
the inflation sites hold, and the sites of `_compute` hold for exactly the arguments `rateCore`
passes to `compute`: the inflated teams with ranks `0..n−1`, resp. the inflated teams sorted
by rank with their dense ranks.  (`clampTeams`, `unwind`, `denseRanks` only compare.) -/
theorem C08_rate_guards {ρ : Type} (K : Kind) (P : Params ℝ) (le : ρ → ρ → Bool)
    (teams : List (List (Rating ℝ))) (o : CallOpts ℝ)
    (D : Domain P.beta P.kappa (resolveTau P o) teams) :
    inflateSites (resolveTau P o) teams
    ∧ computeSites K P (teamAggs (inflate (resolveTau P o) teams)
        (List.range (inflate (resolveTau P o) teams).length))
    ∧ ∀ r : List ρ, r.length = teams.length →
        computeSites K P (teamAggs (unwind le r (inflate (resolveTau P o) teams)).1
          (denseRanks (fun a b => !le b a) (sortedKeys le r))) := by
  obtain ⟨h1, I⟩ := C08_inflate_guards D
  refine ⟨h1, C08_compute_guards K P D.beta_pos D.kappa_pos _ I _ (by simp), ?_⟩
  intro r hr
  have hlen : (inflate (resolveTau P o) teams).length = teams.length := by simp [inflate]
  apply C08_compute_guards K P D.beta_pos D.kappa_pos _
    (C08_unwind_inflated I le r (hr.trans hlen.symm))
  rw [denseRanks_length, sortedKeys_length, unwind_fst_length, hlen, hr, Nat.min_self]

/-- **`predict_win`, `predict_draw`, `predict_rank`.**  For a game in the prediction domain:
every pair denominator `sqrt(nb·β² + σ_a² + σ_b²)` (with `nb` the number of teams, and the
number of players in the two-team branch of `predict_win`) has a non-negative root argument and
is positive; in the draw margin `sqrt(N)` has `N ≥ 0`, `1/N` has `N ≠ 0` and the `inv_cdf`
argument `(1 + 1/N)/2` lies strictly between 0 and 1 (`N ≥ 2` players); the normalising
denominators `n(n−1)/2` and `n(n−1)` (1 for `n = 2`) are positive. -/
theorem C08_predict_guards (β : ℝ) (teams : List (List (Rating ℝ)))
    (D : PredictDomain β teams) : predictSites β teams := by
  have hβ := D.beta_pos
  have hn := D.teams_ge
  have hN : 2 ≤ playerCount teams := le_trans hn (grd_playerCount_ge teams D.players_ge)
  have hnn : 0 < teams.length * (teams.length - 1) :=
    Nat.mul_pos (by omega) (by omega)
  have hnnR : (0 : ℝ) < ((teams.length * (teams.length - 1) : ℕ) : ℝ) := by exact_mod_cast hnn
  have hpd : ∀ nb : ℕ, 2 ≤ nb → ∀ a ∈ aggs teams, ∀ b ∈ aggs teams, pairDenomSites nb β a b := by
    intro nb hnb a ha b hb
    obtain ⟨ta, _, rfl⟩ := grd_mem_aggs ha
    obtain ⟨tb, _, rfl⟩ := grd_mem_aggs hb
    have h1 := grd_team_var_nonneg ta 0
    have h2 := grd_team_var_nonneg tb 0
    have h3 : (0 : ℝ) < nb := by exact_mod_cast (show 0 < nb by omega)
    have h4 : 0 < (nb : ℝ) * (β * β) + (teamAgg ta 0).sig2 + (teamAgg tb 0).sig2 := by positivity
    refine ⟨h4.le, ?_⟩
    unfold pairDenom
    rw [sc_sqrt, sc_ofNat]
    exact Real.sqrt_pos.mpr h4
  refine ⟨fun a ha b hb => ⟨hpd _ hn a ha b hb, hpd _ hN a ha b hb⟩, ?_, two_ne_zero, by positivity, ?_⟩
  · obtain ⟨h1, h2⟩ := C08_invcdf_arg (playerCount teams) hN
    have h3 : (0 : ℝ) < playerCount teams := by exact_mod_cast (show 0 < playerCount teams by omega)
    exact ⟨h3.le, h3.ne', two_ne_zero, by linarith, h2⟩
  · split_ifs
    · exact hnnR
    · simp

/-! ## the domain is inhabited -/

/-- the default configuration (β = 25/6, κ = 1/10000, τ = 1/12) with a two-team game of default
ratings (mu = 25, sigma = 25/3) lies in the domain -/
example : Domain (25 / 6) (1 / 10000) (1 / 12)
    [[⟨0, 25, 25 / 3⟩], [⟨1, 25, 25 / 3⟩, ⟨2, 30, 0⟩]] := by
  constructor <;> norm_num

example : PredictDomain (25 / 6)
    [[⟨0, 25, 25 / 3⟩], [⟨1, 25, 25 / 3⟩, ⟨2, 30, 0⟩]] := by
  constructor <;> norm_num

end OS
end
