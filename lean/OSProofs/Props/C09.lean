import OSProofs.Props.C12
import Mathlib.Tactic.FieldSimp
import Mathlib.Tactic.NormNum
/-!
# C09 — `predict_win` is a probability vector, symmetric and monotone

From the closed forms of C12, over ℝ and for every β (also β ≤ 0):

* the result has one entry per team, the entries lie strictly between 0 and 1 and sum to 1;
* two identical teams get `[1/2, 1/2]`;
* the entry of a team is a function `winVal` of that team's aggregate and of the *multiset* of the
  other teams' aggregates, so permuting the teams permutes the result with them, and teams with
  the same θ and s² get the same entry;
* raising the mu of a member of one team does not lower that team's entry and does not raise
  any other entry.

Uniform closed form used here (all n ≥ 2): entry `i` is
`(Σ_{b ∈ opponents of i} Φ((θi − θb)/√(c β² + s²i + s²b))) / (n(n−1)/2)` where `c = N` (number of
players) when `n = 2` and `c = n` (number of teams) when `n ≥ 3` — the two code paths of
`predict_win` differ in this coefficient.
-/

noncomputable section
namespace OS
open Scalar

/-- the pairwise term `Φ((θa − θb)/√(c β² + s²a + s²b))` -/
def winTerm (β : ℝ) (c : ℕ) (a b : TeamAgg ℝ) : ℝ :=
  Gauss.Phi ((a.mu - b.mu) / Real.sqrt (c * β ^ 2 + a.sig2 + b.sig2))

/-- the coefficient of β² in `predict_win`: the number of players `N` for two teams, the number
of teams `n` otherwise -/
def winCoef (n N : ℕ) : ℕ := if n = 2 then N else n

/-- the entry of a team in `predict_win`, from its own aggregate and the other teams' aggregates
(`n` teams, `N` players in total) -/
def winVal (β : ℝ) (n N : ℕ) (own : TeamAgg ℝ) (others : List (TeamAgg ℝ)) : ℝ :=
  (others.map (winTerm β (winCoef n N) own)).sum / (((n * (n - 1) : ℕ) : ℝ) / 2)

/-! ### facts about the pair term -/

theorem winTerm_symm (β : ℝ) (c : ℕ) (a b : TeamAgg ℝ) :
    winTerm β c a b + winTerm β c b a = 1 := by
  unfold winTerm
  rw [show (c : ℝ) * β ^ 2 + b.sig2 + a.sig2 = c * β ^ 2 + a.sig2 + b.sig2 by ring,
    show (b.mu - a.mu) / Real.sqrt (c * β ^ 2 + a.sig2 + b.sig2)
      = -((a.mu - b.mu) / Real.sqrt (c * β ^ 2 + a.sig2 + b.sig2)) by ring, Gauss.Phi_neg]
  ring

theorem winTerm_self' (β : ℝ) (c : ℕ) (a b : TeamAgg ℝ) (h : a.mu = b.mu) :
    winTerm β c a b = 1 / 2 := by
  unfold winTerm
  rw [h, sub_self, zero_div, Gauss.Phi_zero]

theorem winTerm_self (β : ℝ) (c : ℕ) (a : TeamAgg ℝ) : winTerm β c a a = 1 / 2 :=
  winTerm_self' β c a a rfl

theorem winTerm_pos (β : ℝ) (c : ℕ) (a b : TeamAgg ℝ) : 0 < winTerm β c a b := Gauss.Phi_pos _

theorem winTerm_lt_one (β : ℝ) (c : ℕ) (a b : TeamAgg ℝ) : winTerm β c a b < 1 :=
  Gauss.Phi_lt_one _

/-- the pair term depends on the first team only through θ and s² -/
theorem winTerm_congr_left (β : ℝ) (c : ℕ) (a a' b : TeamAgg ℝ) (hmu : a.mu = a'.mu)
    (hs : a.sig2 = a'.sig2) : winTerm β c a b = winTerm β c a' b := by
  unfold winTerm; rw [hmu, hs]

/-- increasing in the first team's θ -/
theorem winTerm_mono_left (β : ℝ) (c : ℕ) (a a' b : TeamAgg ℝ) (hmu : a.mu ≤ a'.mu)
    (hs : a'.sig2 = a.sig2) : winTerm β c a b ≤ winTerm β c a' b := by
  unfold winTerm
  rw [hs]
  exact Gauss.Phi_strictMono.monotone
    (div_le_div_of_nonneg_right (by linarith) (Real.sqrt_nonneg _))

/-- decreasing in the second team's θ -/
theorem winTerm_anti_right (β : ℝ) (c : ℕ) (a b b' : TeamAgg ℝ) (hmu : b.mu ≤ b'.mu)
    (hs : b'.sig2 = b.sig2) : winTerm β c a b' ≤ winTerm β c a b := by
  unfold winTerm
  rw [hs]
  exact Gauss.Phi_strictMono.monotone
    (div_le_div_of_nonneg_right (by linarith) (Real.sqrt_nonneg _))

theorem winDenom_pos (n : ℕ) (hn : 2 ≤ n) : (0 : ℝ) < ((n * (n - 1) : ℕ) : ℝ) / 2 := by
  have : 0 < n * (n - 1) := Nat.mul_pos (by omega) (by omega)
  have : (0 : ℝ) < ((n * (n - 1) : ℕ) : ℝ) := by exact_mod_cast this
  positivity

/-- the value of a team does not depend on the order of the other teams -/
theorem winVal_perm (β : ℝ) (n N : ℕ) (own : TeamAgg ℝ) (r r' : List (TeamAgg ℝ))
    (h : r.Perm r') : winVal β n N own r = winVal β n N own r' := by
  unfold winVal
  rw [(h.map _).sum_eq]

/-! ### the uniform closed form -/

/-- all n ≥ 2: entry `i` of `predict_win` is `winVal` of team `i` and its opponents -/
theorem predictWin_eq_winVal (β : ℝ) (teams : List (List (Rating ℝ))) (hn : 2 ≤ teams.length) :
    predictWin β teams = (aggs teams).zipIdx.map (fun a =>
      winVal β teams.length (playerCount teams) a.1 ((aggs teams).eraseIdx a.2)) := by
  by_cases h2 : teams.length = 2
  · obtain ⟨a, b, rfl⟩ := List.length_eq_two.mp h2
    rw [C12_win_two]
    have hD : (((2 * (2 - 1) : ℕ) : ℝ) / 2) = 1 := by norm_num
    simp only [aggs, List.map_cons, List.map_nil, List.zipIdx_cons, List.zipIdx_nil,
      List.length_cons, List.length_nil, Nat.zero_add, Nat.reduceAdd, winVal, winCoef, if_true,
      List.eraseIdx_zero, List.eraseIdx_cons_succ, List.tail_cons, List.sum_cons, List.sum_nil,
      add_zero, hD, div_one]
    have := winTerm_symm β (playerCount [a, b]) (teamAgg a 0) (teamAgg b 0)
    unfold winTerm at this ⊢
    rw [eq_sub_of_add_eq' this]
  · rw [C12_win_many β teams (by omega)]
    apply List.map_congr_left
    intro a _
    simp only [winVal, winCoef, if_neg h2]
    rfl

/-- the same, with `picks` -/
theorem predictWin_eq_picks (β : ℝ) (teams : List (List (Rating ℝ))) (hn : 2 ≤ teams.length) :
    predictWin β teams = (picks (aggs teams)).map (fun p =>
      winVal β teams.length (playerCount teams) p.1 p.2) := by
  rw [predictWin_eq_winVal β teams hn,
    zipIdx_map_eraseIdx' (aggs teams) (winVal β teams.length (playerCount teams))]

/-- **Length.** One probability per team. -/
theorem C09_length (β : ℝ) (teams : List (List (Rating ℝ))) (hn : 2 ≤ teams.length) :
    (predictWin β teams).length = teams.length := by
  rw [predictWin_eq_winVal β teams hn]
  simp [length_aggs]

/-- **Entry `i`** of `predict_win` is `winVal` of team `i`'s aggregate and the aggregates of the
other teams. -/
theorem C09_entry (β : ℝ) (teams : List (List (Rating ℝ))) (hn : 2 ≤ teams.length) (i : ℕ)
    (hi : i < teams.length) (h : i < (predictWin β teams).length) :
    (predictWin β teams)[i] = winVal β teams.length (playerCount teams) (teamAgg teams[i] 0)
      ((aggs teams).eraseIdx i) := by
  rw [List.getElem_of_eq (predictWin_eq_winVal β teams hn) h]
  simp only [List.getElem_map, List.getElem_zipIdx, Nat.zero_add, getElem_aggs teams i hi]

/-- the index hypotheses of the entry-wise theorems below are satisfiable: every team index is a
valid index of the result, also after replacing a team -/
example (β : ℝ) (teams : List (List (Rating ℝ))) (hn : 2 ≤ teams.length) (i : ℕ)
    (hi : i < teams.length) (t' : List (Rating ℝ)) :
    i < (predictWin β teams).length ∧ i < (predictWin β (teams.set i t')).length := by
  rw [C09_length β teams hn, C09_length β _ (by simpa using hn)]
  exact ⟨hi, by simpa using hi⟩

/-- entry `i` through the sum over *all* teams: `(Σ_b Φ(...) − 1/2) / (n(n−1)/2)` -/
theorem winVal_eraseIdx (β : ℝ) (n N : ℕ) (l : List (TeamAgg ℝ)) (i : ℕ) (hi : i < l.length) :
    winVal β n N l[i] (l.eraseIdx i)
      = ((l.map (winTerm β (winCoef n N) l[i])).sum - 1 / 2) / (((n * (n - 1) : ℕ) : ℝ) / 2) := by
  unfold winVal
  rw [sum_map_eraseIdx l _ i hi, winTerm_self]

/-! ### probability vector -/

theorem sum_map_div_const {ι : Type} (l : List ι) (f : ι → ℝ) (D : ℝ) :
    (l.map (fun a => f a / D)).sum = (l.map f).sum / D := by
  induction l with
  | nil => simp
  | cons a l ih => simp [ih, add_div]

/-- **Sum.** The win probabilities add up to 1. -/
theorem C09_sum_one (β : ℝ) (teams : List (List (Rating ℝ))) (hn : 2 ≤ teams.length) :
    (predictWin β teams).sum = 1 := by
  rw [predictWin_eq_picks β teams hn]
  unfold winVal
  rw [sum_map_div_const (picks (aggs teams))
    (fun p => (p.2.map (winTerm β (winCoef teams.length (playerCount teams)) p.1)).sum)]
  have h := pairSum_of_symm_eq (winTerm β (winCoef teams.length (playerCount teams))) 1
    (winTerm_symm β _) (aggs teams)
  unfold pairSum at h
  rw [h, length_aggs, one_mul]
  exact div_self (winDenom_pos _ hn).ne'

/-- **Range (strict).** Every win probability lies strictly between 0 and 1. -/
theorem C09_range_strict (β : ℝ) (teams : List (List (Rating ℝ))) (hn : 2 ≤ teams.length) :
    ∀ p ∈ predictWin β teams, 0 < p ∧ p < 1 := by
  intro p hp
  rw [predictWin_eq_winVal β teams hn] at hp
  obtain ⟨a, ha, rfl⟩ := List.mem_map.mp hp
  have hlt : a.2 < (aggs teams).length := by simpa using List.snd_lt_of_mem_zipIdx ha
  have hlen : ((aggs teams).eraseIdx a.2).length = teams.length - 1 := by
    rw [List.length_eraseIdx_of_lt hlt, length_aggs]
  have hne : (aggs teams).eraseIdx a.2 ≠ [] := by
    intro h; rw [h] at hlen; simp at hlen; omega
  have hD := winDenom_pos teams.length hn
  unfold winVal
  constructor
  · apply div_pos _ hD
    apply List.sum_pos
    · intro x hx
      obtain ⟨b, _, rfl⟩ := List.mem_map.mp hx
      exact winTerm_pos _ _ _ _
    · simpa using hne
  · rw [div_lt_one hD]
    have h1 := List.sum_lt_sum_of_ne_nil hne
      (winTerm β (winCoef teams.length (playerCount teams)) a.1) (fun _ => (1 : ℝ))
      (fun b _ => winTerm_lt_one _ _ _ _)
    have h2 : (((aggs teams).eraseIdx a.2).map (fun _ => (1 : ℝ))).sum = ((teams.length - 1 : ℕ) : ℝ) := by
      rw [List.map_const', List.sum_replicate, hlen]; simp
    rw [h2] at h1
    refine lt_of_lt_of_le h1 ?_
    obtain ⟨k, hk⟩ : ∃ k, teams.length = k + 2 := ⟨teams.length - 2, by omega⟩
    rw [hk]
    simp only [show k + 2 - 1 = k + 1 by omega]
    push_cast
    rw [le_div_iff₀ (by norm_num)]
    nlinarith [(Nat.cast_nonneg k : (0 : ℝ) ≤ k)]

/-- **Range.** Every win probability lies in [0, 1]. -/
theorem C09_range (β : ℝ) (teams : List (List (Rating ℝ))) (hn : 2 ≤ teams.length) :
    ∀ p ∈ predictWin β teams, 0 ≤ p ∧ p ≤ 1 := fun p hp =>
  ⟨(C09_range_strict β teams hn p hp).1.le, (C09_range_strict β teams hn p hp).2.le⟩

/-- **Two identical teams** get exactly `[1/2, 1/2]`. -/
theorem C09_two_identical (β : ℝ) (a : List (Rating ℝ)) : predictWin β [a, a] = [1 / 2, 1 / 2] := by
  rw [C12_win_two, sub_self, zero_div, Gauss.Phi_zero]
  norm_num

/-- two teams with the same θ (whatever their sizes and sigmas) get `[1/2, 1/2]` -/
theorem C09_two_equal_mu (β : ℝ) (a b : List (Rating ℝ))
    (h : (teamAgg a 0).mu = (teamAgg b 0).mu) : predictWin β [a, b] = [1 / 2, 1 / 2] := by
  rw [C12_win_two, h, sub_self, zero_div, Gauss.Phi_zero]
  norm_num

/-! ### symmetry -/

theorem playerCount_perm {β : Type} {teams teams' : List (List β)} (h : teams.Perm teams') :
    playerCount teams = playerCount teams' := by
  rw [playerCount_eq_sum, playerCount_eq_sum, (h.map _).sum_eq]

/-- **Equivariance.** Permuting the teams permutes the win probabilities. -/
theorem C09_equivariant (β : ℝ) (teams teams' : List (List (Rating ℝ))) (hn : 2 ≤ teams.length)
    (h : teams.Perm teams') : (predictWin β teams).Perm (predictWin β teams') := by
  have hn' : 2 ≤ teams'.length := by rw [← h.length_eq]; exact hn
  rw [predictWin_eq_picks β teams hn, predictWin_eq_picks β teams' hn', ← h.length_eq,
    ← playerCount_perm h]
  exact picks_map_perm (h.map _) (winVal β teams.length (playerCount teams))
    (fun y r r' hr => winVal_perm β _ _ y r r' hr)

theorem zip_predictWin (β : ℝ) (teams : List (List (Rating ℝ))) (hn : 2 ≤ teams.length) :
    teams.zip (predictWin β teams) = (picks (aggs teams)).map (fun p =>
      (p.1.players, winVal β teams.length (playerCount teams) p.1 p.2)) := by
  have h1 : (aggs teams).zipIdx.map (fun a => a.1.players) = teams := by
    have : (aggs teams).map (·.players) = teams := by
      simp only [aggs, List.map_map]
      exact List.map_id' _
    conv_rhs => rw [← this, ← List.zipIdx_map_fst 0 (aggs teams), List.map_map]
    rfl
  calc teams.zip (predictWin β teams)
      = ((aggs teams).zipIdx.map (fun a => a.1.players)).zip ((aggs teams).zipIdx.map (fun a =>
          winVal β teams.length (playerCount teams) a.1 ((aggs teams).eraseIdx a.2))) := by
        rw [h1, ← predictWin_eq_winVal β teams hn]
    _ = _ := by
        rw [List.zip_map']
        exact zipIdx_map_eraseIdx' (aggs teams)
          (fun y r => (y.players, winVal β teams.length (playerCount teams) y r))

/-- **Equivariance, team by team.** Each team carries its win probability with it when the teams
are permuted: the list of (team, probability) pairs is permuted. -/
theorem C09_equivariant_zip (β : ℝ) (teams teams' : List (List (Rating ℝ)))
    (hn : 2 ≤ teams.length) (h : teams.Perm teams') :
    (teams.zip (predictWin β teams)).Perm (teams'.zip (predictWin β teams')) := by
  have hn' : 2 ≤ teams'.length := by rw [← h.length_eq]; exact hn
  rw [zip_predictWin β teams hn, zip_predictWin β teams' hn', ← h.length_eq,
    ← playerCount_perm h]
  exact picks_map_perm (h.map _)
    (fun y r => (y.players, winVal β teams.length (playerCount teams) y r))
    (fun y r r' hr => by rw [winVal_perm β _ _ y r r' hr])

/-- swapping two teams swaps their probabilities -/
theorem C09_swap_two (β : ℝ) (a b : List (Rating ℝ)) :
    predictWin β [b, a] = (predictWin β [a, b]).reverse := by
  rw [predictWin_eq_winVal β [a, b] (by simp), predictWin_eq_winVal β [b, a] (by simp)]
  have : playerCount [b, a] = playerCount [a, b] := by
    rw [playerCount_pair, playerCount_pair, Nat.add_comm]
  simp [aggs, List.zipIdx_cons, this]

/-- **Identical teams get identical values**: two teams with the same θ and the same s² (in
particular two equal teams) have the same win probability. -/
theorem C09_identical (β : ℝ) (teams : List (List (Rating ℝ))) (hn : 2 ≤ teams.length)
    (i j : ℕ) (hi : i < teams.length) (hj : j < teams.length)
    (hmu : (teamAgg teams[i] 0).mu = (teamAgg teams[j] 0).mu)
    (hs : (teamAgg teams[i] 0).sig2 = (teamAgg teams[j] 0).sig2)
    (h1 : i < (predictWin β teams).length) (h2 : j < (predictWin β teams).length) :
    (predictWin β teams)[i] = (predictWin β teams)[j] := by
  rw [C09_entry β teams hn i hi, C09_entry β teams hn j hj, ← getElem_aggs teams i hi,
    ← getElem_aggs teams j hj, winVal_eraseIdx, winVal_eraseIdx]
  congr 2
  apply congrArg
  apply List.map_congr_left
  intro b _
  apply winTerm_congr_left
  · rw [getElem_aggs teams i hi, getElem_aggs teams j hj]; exact hmu
  · rw [getElem_aggs teams i hi, getElem_aggs teams j hj]; exact hs

theorem C09_identical_teams (β : ℝ) (teams : List (List (Rating ℝ))) (hn : 2 ≤ teams.length)
    (i j : ℕ) (hi : i < teams.length) (hj : j < teams.length) (h : teams[i] = teams[j])
    (h1 : i < (predictWin β teams).length) (h2 : j < (predictWin β teams).length) :
    (predictWin β teams)[i] = (predictWin β teams)[j] :=
  C09_identical β teams hn i j hi hj (by rw [h]) (by rw [h]) h1 h2

/-! ### monotonicity -/

theorem playerCount_set {β : Type} (teams : List (List β)) (i : ℕ) (hi : i < teams.length)
    (t' : List β) (hlen : t'.length = teams[i].length) :
    playerCount (teams.set i t') = playerCount teams := by
  rw [playerCount_eq_sum, playerCount_eq_sum]
  congr 1
  apply List.ext_getElem (by simp)
  intro k h1 h2
  simp only [List.getElem_map, List.getElem_set]
  split
  · next h => subst h; exact hlen
  · rfl

/-- **Monotone, own entry.** Replace team `i` by a team of the same size and the same s² whose θ
is not smaller: the win probability of team `i` does not go down. -/
theorem C09_monotone_team_own (β : ℝ) (teams : List (List (Rating ℝ))) (hn : 2 ≤ teams.length)
    (i : ℕ) (hi : i < teams.length) (t' : List (Rating ℝ)) (hlen : t'.length = teams[i].length)
    (hsig : (teamAgg t' 0).sig2 = (teamAgg teams[i] 0).sig2)
    (hmu : (teamAgg teams[i] 0).mu ≤ (teamAgg t' 0).mu)
    (h1 : i < (predictWin β teams).length) (h2 : i < (predictWin β (teams.set i t')).length) :
    (predictWin β teams)[i] ≤ (predictWin β (teams.set i t'))[i] := by
  have hn' : 2 ≤ (teams.set i t').length := by simpa using hn
  have hi' : i < (teams.set i t').length := by simpa using hi
  rw [C09_entry β teams hn i hi, C09_entry β _ hn' i hi', playerCount_set teams i hi t' hlen]
  simp only [List.length_set, List.getElem_set_self, aggs, List.map_set, List.eraseIdx_set_eq]
  unfold winVal
  apply div_le_div_of_nonneg_right _ (winDenom_pos _ hn).le
  apply List.sum_le_sum
  intro b _
  exact winTerm_mono_left β _ _ _ b hmu hsig

/-- **Monotone, other entries.** Under the same replacement the win probability of every other
team does not go up. -/
theorem C09_monotone_team_other (β : ℝ) (teams : List (List (Rating ℝ))) (hn : 2 ≤ teams.length)
    (i : ℕ) (hi : i < teams.length) (t' : List (Rating ℝ)) (hlen : t'.length = teams[i].length)
    (hsig : (teamAgg t' 0).sig2 = (teamAgg teams[i] 0).sig2)
    (hmu : (teamAgg teams[i] 0).mu ≤ (teamAgg t' 0).mu)
    (k : ℕ) (hk : k < teams.length) (hki : k ≠ i)
    (h1 : k < (predictWin β teams).length) (h2 : k < (predictWin β (teams.set i t')).length) :
    (predictWin β (teams.set i t'))[k] ≤ (predictWin β teams)[k] := by
  have hn' : 2 ≤ (teams.set i t').length := by simpa using hn
  have hk' : k < (teams.set i t').length := by simpa using hk
  have hset : aggs (teams.set i t') = (aggs teams).set i (teamAgg t' 0) := by
    simp only [aggs, List.map_set]
  have hkl : k < (aggs teams).length := by rw [length_aggs]; exact hk
  have hil : i < (aggs teams).length := by rw [length_aggs]; exact hi
  have hkl' : k < (aggs (teams.set i t')).length := by rw [length_aggs]; exact hk'
  have e1 : teamAgg (teams.set i t')[k] 0 = (aggs (teams.set i t'))[k] :=
    (getElem_aggs _ k hk').symm
  have e2 : (aggs (teams.set i t'))[k] = (aggs teams)[k] := by
    simp only [hset]
    rw [List.getElem_set_ne (Ne.symm hki)]
  rw [C09_entry β teams hn k hk, C09_entry β _ hn' k hk', playerCount_set teams i hi t' hlen,
    List.length_set, e1, ← getElem_aggs teams k hk, winVal_eraseIdx β _ _ _ k hkl',
    winVal_eraseIdx β _ _ _ k hkl, e2]
  apply div_le_div_of_nonneg_right _ (winDenom_pos _ hn).le
  rw [hset, sum_map_set _ _ i hil]
  have := winTerm_anti_right β (winCoef teams.length (playerCount teams)) (aggs teams)[k]
    (aggs teams)[i] (teamAgg t' 0) (by rw [getElem_aggs teams i hi]; exact hmu)
    (by rw [getElem_aggs teams i hi]; exact hsig)
  linarith

/-- team `t` with the mu of its `j`-th member raised by `d` -/
def raiseMu (t : List (Rating ℝ)) (j : ℕ) (d : ℝ) : List (Rating ℝ) :=
  t.modify j (fun p => { p with mu := p.mu + d })

theorem raiseMu_eq_set (t : List (Rating ℝ)) (j : ℕ) (hj : j < t.length) (d : ℝ) :
    raiseMu t j d = t.set j { t[j] with mu := t[j].mu + d } := by
  unfold raiseMu
  rw [List.modify_eq_set_getElem?]
  simp [List.getElem?_eq_getElem hj]

theorem length_raiseMu (t : List (Rating ℝ)) (j : ℕ) (d : ℝ) : (raiseMu t j d).length = t.length := by
  simp [raiseMu]

theorem raiseMu_sig2 (t : List (Rating ℝ)) (j : ℕ) (hj : j < t.length) (d : ℝ) :
    (teamAgg (raiseMu t j d) 0).sig2 = (teamAgg t 0).sig2 := by
  rw [teamAgg_sig2, teamAgg_sig2, raiseMu_eq_set t j hj, sum_map_set _ _ j hj]
  ring

theorem raiseMu_mu (t : List (Rating ℝ)) (j : ℕ) (hj : j < t.length) (d : ℝ) :
    (teamAgg (raiseMu t j d) 0).mu = (teamAgg t 0).mu + d := by
  rw [teamAgg_mu, teamAgg_mu, raiseMu_eq_set t j hj, sum_map_set _ _ j hj]
  ring

/-- **Monotone in a member's mu, own team.** Raising the mu of member `j` of team `i` by `d ≥ 0`
does not lower the win probability of team `i`. -/
theorem C09_monotone_own (β : ℝ) (teams : List (List (Rating ℝ))) (hn : 2 ≤ teams.length)
    (i : ℕ) (hi : i < teams.length) (j : ℕ) (hj : j < teams[i].length) (d : ℝ) (hd : 0 ≤ d)
    (h1 : i < (predictWin β teams).length)
    (h2 : i < (predictWin β (teams.set i (raiseMu teams[i] j d))).length) :
    (predictWin β teams)[i] ≤ (predictWin β (teams.set i (raiseMu teams[i] j d)))[i] :=
  C09_monotone_team_own β teams hn i hi _ (length_raiseMu _ _ _) (raiseMu_sig2 _ j hj d)
    (by rw [raiseMu_mu _ j hj d]; linarith) h1 h2

/-- **Monotone in a member's mu, other teams.** Raising the mu of member `j` of team `i` by `d ≥ 0`
does not raise the win probability of any other team `k`. -/
theorem C09_monotone_other (β : ℝ) (teams : List (List (Rating ℝ))) (hn : 2 ≤ teams.length)
    (i : ℕ) (hi : i < teams.length) (j : ℕ) (hj : j < teams[i].length) (d : ℝ) (hd : 0 ≤ d)
    (k : ℕ) (hk : k < teams.length) (hki : k ≠ i)
    (h1 : k < (predictWin β teams).length)
    (h2 : k < (predictWin β (teams.set i (raiseMu teams[i] j d))).length) :
    (predictWin β (teams.set i (raiseMu teams[i] j d)))[k] ≤ (predictWin β teams)[k] :=
  C09_monotone_team_other β teams hn i hi _ (length_raiseMu _ _ _) (raiseMu_sig2 _ j hj d)
    (by rw [raiseMu_mu _ j hj d]; linarith) k hk hki h1 h2

end OS
end
