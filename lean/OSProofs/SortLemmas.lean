import OSModel.Sort
import OSModel.Ranking
import Mathlib.Data.List.Sort
import Mathlib.Data.List.Perm.Basic
import Mathlib.Data.List.Range
/-!
# R1 — the sort / unsort round trip of `rate`

`rate` sorts the teams by rank with `_unwind` (remembering the original indices, the
"tenet"), computes in sorted order, and sorts the results back with a second `_unwind`
keyed by the tenet.  No property of the rank comparison is needed: the round trip holds for
any comparator, because it only uses `mergeSort_perm` for the first sort and sortedness
for the second, index-keyed one.
-/
namespace OS
open List
variable {κ β γ δ : Type}

/-- A list of naturals that is sorted (≤) and a permutation of `range n` is `range n`. -/
theorem eq_range_of_perm_sorted {l : List Nat} {n : Nat}
    (hp : l.Perm (List.range n)) (hs : l.Pairwise (· ≤ ·)) : l = List.range n := by
  apply List.Perm.eq_of_pairwise (le := (· ≤ ·)) _ hs _ hp
  · intro a b _ _ hab hba; exact Nat.le_antisymm hab hba
  · exact (List.pairwise_lt_range (n := n)).imp (fun h => Nat.le_of_lt h)

/-- second `_unwind`: sorting payloads by a tenet that is a permutation of `range n`
    puts payload `k` at position `tenet[k]`. -/
theorem unwind_by_perm {β : Type} (tenet : List Nat) (xs : List β) (n : Nat)
    (hlen : xs.length = n) (hp : tenet.Perm (List.range n)) :
    ∀ (k t : Nat), tenet[k]? = some t → ((unwind leNat tenet xs).1)[t]? = xs[k]? := by
  intro k t hkt
  have htl : tenet.length = n := by simpa using hp.length_eq
  set z := tenet.zip xs.zipIdx with hz
  set S := sortByKey leNat z with hS
  have hperm : S.Perm z := by simpa [hS, sortByKey] using mergeSort_perm z _
  have hsorted : S.Pairwise (fun a b => a.1 ≤ b.1) := by
    have := pairwise_mergeSort (le := fun (a b : Nat × (β × Nat)) => leNat a.1 b.1)
      (fun a b c hab hbc => by simp [leNat] at *; omega)
      (fun a b => by simp [leNat]; omega) z
    simpa [hS, sortByKey, leNat] using this
  have hfst : (S.map (·.1)).Perm (List.range n) := by
    have h1 : (S.map (·.1)).Perm (z.map (·.1)) := hperm.map _
    have h2 : z.map (·.1) = tenet := by
      rw [hz]; apply List.map_fst_zip; simp [htl, hlen]
    rw [h2] at h1; exact h1.trans hp
  have hfst_sorted : (S.map (·.1)).Pairwise (· ≤ ·) := by
    rw [List.pairwise_map]; exact hsorted
  have hrange := eq_range_of_perm_sorted hfst hfst_sorted
  -- membership of the k-th pair
  have hk : k < n := by
    obtain ⟨h, _⟩ := List.getElem?_eq_some_iff.mp hkt; omega
  have hmem : (t, (xs[k]'(by omega), k)) ∈ z := by
    rw [hz, List.mem_iff_getElem?]
    refine ⟨k, ?_⟩
    simp [List.getElem?_zip_eq_some, hkt, hlen, hk]
  have hmemS : (t, (xs[k]'(by omega), k)) ∈ S := hperm.symm.subset hmem
  obtain ⟨i, hi⟩ := List.mem_iff_getElem?.mp hmemS
  have hit : i = t := by
    have h1 : (S.map (·.1))[i]? = some t := by simp [List.getElem?_map, hi]
    rw [hrange] at h1
    have := List.getElem?_eq_some_iff.mp h1
    obtain ⟨hlt, heq⟩ := this
    simpa using heq
  subst hit
  simp [unwind, ← hz, ← hS, List.getElem?_map, hi]

/-- first `_unwind`: the tenet is a permutation of `range n` and the k-th sorted object
    is the object at original index `tenet[k]`. -/
theorem unwind_first (le : κ → κ → Bool) (ranks : List κ) (teams : List β)
    (hlen : ranks.length = teams.length) :
    ((unwind le ranks teams).2).Perm (List.range teams.length) ∧
    ∀ (k : Nat) (t : Nat) (x : β), ((unwind le ranks teams).2)[k]? = some t →
        ((unwind le ranks teams).1)[k]? = some x → teams[t]? = some x := by
  set z := ranks.zip teams.zipIdx with hz
  set S := sortByKey le z with hS
  have hperm : S.Perm z := by simpa [hS, sortByKey] using mergeSort_perm z _
  have hsnd : z.map (·.2) = teams.zipIdx := by
    rw [hz]; apply List.map_snd_zip; simp [hlen]
  constructor
  · have h1 : (S.map (·.2.2)).Perm (z.map (·.2.2)) := hperm.map _
    have h2 : z.map (·.2.2) = List.range teams.length := by
      have : z.map (·.2.2) = (z.map (·.2)).map (·.2) := by simp
      rw [this, hsnd]
      simp [List.zipIdx_map_snd, List.range_eq_range']
    simpa [unwind, ← hz, ← hS, h2] using h1
  · intro k t x hk hx
    simp only [unwind, ← hz, ← hS, List.getElem?_map] at hk hx
    cases hS_k : S[k]? with
    | none => simp [hS_k] at hk
    | some e =>
      simp [hS_k] at hk hx
      have hmem : e ∈ z := hperm.subset (List.mem_of_getElem? hS_k)
      have hmem2 : e.2 ∈ teams.zipIdx := by
        rw [← hsnd]; exact List.mem_map_of_mem hmem
      have := List.mem_zipIdx hmem2
      -- e.2 = (teams[e.2.2], e.2.2)
      obtain ⟨e1, e2, e3⟩ := e
      simp at hk hx this
      obtain ⟨h2, h3⟩ := this
      rw [← hk, ← hx, h3]
      exact List.getElem?_eq_getElem h2

/-- round trip used by `rate`: sort by rank, map a slot-wise function, sort back by tenet -/
theorem unwind_roundtrip (le : κ → κ → Bool) (ranks : List κ) (teams : List β) (f : β → γ)
    (hlen : ranks.length = teams.length) :
    (unwind leNat (unwind le ranks teams).2 ((unwind le ranks teams).1.map f)).1 = teams.map f := by
  obtain ⟨hperm, hslot⟩ := unwind_first le ranks teams hlen
  set ordered := (unwind le ranks teams).1 with ho
  set tenet := (unwind le ranks teams).2 with ht
  have hol : ordered.length = teams.length := by
    simp [ho, unwind, sortByKey, hlen]
  have key := unwind_by_perm tenet (ordered.map f) teams.length (by simp [hol]) hperm
  apply List.ext_getElem?
  intro i
  by_cases hi : i < teams.length
  · -- i occurs in tenet
    have : i ∈ tenet := hperm.symm.subset (List.mem_range.mpr hi)
    obtain ⟨k, hk⟩ := List.mem_iff_getElem?.mp this
    rw [key k i hk]
    have hkl : k < ordered.length := by
      have := (List.getElem?_eq_some_iff.mp hk).1
      have := hperm.length_eq; simp at this; omega
    have hx : ordered[k]? = some ordered[k] := List.getElem?_eq_getElem hkl
    have := hslot k i ordered[k] hk hx
    simp [List.getElem?_map, hx, this]
  · have h1 : (teams.map f)[i]? = none := by simp; omega
    rw [h1]
    apply List.getElem?_eq_none
    simp [unwind, sortByKey, hol] at *
    have := hperm.length_eq; simp at this; omega

/-! ### lengths -/

theorem sortByKey_length (le : κ → κ → Bool) (l : List (κ × β)) :
    (sortByKey le l).length = l.length := by
  simp [sortByKey]

theorem unwind_fst_length (le : κ → κ → Bool) (tenet : List κ) (xs : List β) :
    ((unwind le tenet xs).1).length = min tenet.length xs.length := by
  simp [unwind, sortByKey]

theorem unwind_snd_length (le : κ → κ → Bool) (tenet : List κ) (xs : List β) :
    ((unwind le tenet xs).2).length = min tenet.length xs.length := by
  simp [unwind, sortByKey]

theorem sortedKeys_length (le : κ → κ → Bool) (tenet : List κ) :
    (sortedKeys le tenet).length = tenet.length := by
  simp [sortedKeys, sortByKey]

theorem denseRanksAux_length (lt : κ → κ → Bool) (prev : κ) (idx s : Nat) (l : List κ) :
    (denseRanksAux lt prev idx s l).length = l.length := by
  induction l generalizing prev idx s with
  | nil => rfl
  | cons x xs ih => simp [denseRanksAux, ih]

theorem denseRanks_length (lt : κ → κ → Bool) (l : List κ) :
    (denseRanks lt l).length = l.length := by
  cases l with
  | nil => rfl
  | cons x xs => simp [denseRanks, denseRanksAux_length]

/-! ### the round trip with an arbitrary sorted-order side list -/

/-- Slot form of the round trip: if `tenet[k] = t` then, after sorting ANY list `ys` of the
    right length back by the tenet, position `t` holds `ys[k]`, and the team at original
    position `t` is the `k`-th team of the sorted order. -/
theorem unwind_roundtrip_slot (le : κ → κ → Bool) (ranks : List κ) (teams : List β)
    (ys : List γ) (hlen : ranks.length = teams.length) (hys : ys.length = teams.length)
    (k t : Nat) (hk : ((unwind le ranks teams).2)[k]? = some t) :
    ((unwind leNat (unwind le ranks teams).2 ys).1)[t]? = ys[k]? ∧
      teams[t]? = ((unwind le ranks teams).1)[k]? := by
  obtain ⟨hperm, hslot⟩ := unwind_first le ranks teams hlen
  refine ⟨unwind_by_perm _ ys teams.length hys hperm k t hk, ?_⟩
  have hkl : k < ((unwind le ranks teams).1).length := by
    have h1 := (List.getElem?_eq_some_iff.mp hk).1
    rw [unwind_snd_length] at h1
    rw [unwind_fst_length]; exact h1
  rw [List.getElem?_eq_getElem hkl]
  exact hslot k t _ hk (List.getElem?_eq_getElem hkl)

/-- Round trip for a computation that combines the `k`-th sorted team with the `k`-th entry
    of an arbitrary sorted-order list `w` (ranks, omegas, deltas …): sorting the results
    back is the same as combining every ORIGINAL team, in its original position, with the
    entry of `w` that was computed for it. -/
theorem unwind_roundtrip_zip (le : κ → κ → Bool) (ranks : List κ) (teams : List β)
    (w : List δ) (f : β → δ → γ)
    (hlen : ranks.length = teams.length) (hw : w.length = teams.length) :
    (unwind leNat (unwind le ranks teams).2
        (List.zipWith f (unwind le ranks teams).1 w)).1
      = List.zipWith f teams (unwind leNat (unwind le ranks teams).2 w).1 := by
  have hperm := (unwind_first le ranks teams hlen).1
  have htl : ((unwind le ranks teams).2).length = teams.length := by
    rw [unwind_snd_length, hlen, Nat.min_self]
  have hol : ((unwind le ranks teams).1).length = teams.length := by
    rw [unwind_fst_length, hlen, Nat.min_self]
  have hzl : (List.zipWith f (unwind le ranks teams).1 w).length = teams.length := by
    rw [List.length_zipWith, hol, hw, Nat.min_self]
  apply List.ext_getElem?
  intro i
  by_cases hi : i < teams.length
  · have hmem : i ∈ (unwind le ranks teams).2 := hperm.symm.subset (List.mem_range.mpr hi)
    obtain ⟨k, hk⟩ := List.mem_iff_getElem?.mp hmem
    obtain ⟨h1, h2⟩ := unwind_roundtrip_slot le ranks teams _ hlen hzl k i hk
    obtain ⟨h3, -⟩ := unwind_roundtrip_slot le ranks teams w hlen hw k i hk
    rw [h1, List.getElem?_zipWith, List.getElem?_zipWith, h2, h3]
  · have hL : ((unwind leNat (unwind le ranks teams).2
        (List.zipWith f (unwind le ranks teams).1 w)).1).length ≤ i := by
      rw [unwind_fst_length, htl, hzl, Nat.min_self]; omega
    have hR : (List.zipWith f teams (unwind leNat (unwind le ranks teams).2 w).1).length ≤ i := by
      rw [List.length_zipWith, unwind_fst_length, htl, hw, Nat.min_self, Nat.min_self]; omega
    rw [List.getElem?_eq_none hL, List.getElem?_eq_none hR]

/-! ### `_unwind` and slot-wise maps of the payload -/

/-- `_unwind` commutes with a slot-wise map of the payload -/
theorem unwind_map (le : κ → κ → Bool) (tenet : List κ) (xs : List β) (f : β → γ) :
    unwind le tenet (xs.map f) = (((unwind le tenet xs).1).map f, (unwind le tenet xs).2) := by
  have h : sortByKey le (tenet.zip (xs.map f).zipIdx)
      = (sortByKey le (tenet.zip xs.zipIdx)).map (Prod.map id (Prod.map f id)) := by
    unfold sortByKey
    rw [List.zipIdx_map, List.zip_map_right]
    exact (List.map_mergeSort (r := fun a b : κ × β × Nat => le a.1 b.1)
      (s := fun a b : κ × γ × Nat => le a.1 b.1) (f := Prod.map id (Prod.map f id))
      (fun a _ b _ => rfl)).symm
  simp only [unwind, h, List.map_map]
  rfl

/-- sorting a zipped payload and projecting = sorting the components -/
theorem unwind_zip_fst (le : κ → κ → Bool) (tenet : List κ) (a : List β) (b : List γ)
    (h : a.length ≤ b.length) :
    ((unwind le tenet (a.zip b)).1).map Prod.fst = (unwind le tenet a).1 := by
  have := congrArg Prod.fst (unwind_map le tenet (a.zip b) Prod.fst)
  rw [List.map_fst_zip h] at this
  exact this.symm

theorem unwind_zip_snd (le : κ → κ → Bool) (tenet : List κ) (a : List β) (b : List γ)
    (h : b.length ≤ a.length) :
    ((unwind le tenet (a.zip b)).1).map Prod.snd = (unwind le tenet b).1 := by
  have := congrArg Prod.fst (unwind_map le tenet (a.zip b) Prod.snd)
  rw [List.map_snd_zip h] at this
  exact this.symm

end OS
