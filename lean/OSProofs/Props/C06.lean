import OSProofs.C06Lemmas
import Mathlib.Algebra.BigOperators.Group.Finset.Basic

/-!
# C06 — sigma stays positive, grows by at most tau per game, and limit_sigma caps it

All statements are about the model of `OSModel` instantiated at `ℝ`.

* `delta_nonneg` — in all five models the variance component `δ_t` of every team is `≥ 0`.
* `applyTeam_sigma_le` — the per-player tail of `_compute` multiplies sigma by a factor in `(0,1]`.
* `C06_game_membership` — every returned team is the `applyTeam` image (with some `δ ≥ 0`) of
  one of the tau-inflated input teams; needs no hypothesis on the ranks.
* `C06_game`, `C06_rate` — slot by slot: `σ' ≤ √(σ² + τ²)`, positivity, and `σ' ≤ σ` under limit_sigma.
* `C06_clamp` — the limit_sigma clamp returns `min(σ_new, σ_old)` in every slot.
* `C06_history`, `C06_history_limit` — the league-level consequences, over an abstract step.

Two remarks on hypotheses (both make the theorems *stronger* than literally asked):

* the hypothesis on gamma is `GammaOK g` (`0 ≤ gamma(c, …, σ², …)` whenever `0 ≤ c` and `0 ≤ σ²`),
  not "for all `c`": the library default `√σ²/c` is negative for `c < 0`, so the unrestricted
  hypothesis would exclude the default callback;
* `β > 0` and "all prior `σ ≥ 0`" are not needed for the bounds (over ℝ `√` and `x/0 = 0` keep
  every quantity involved non-negative); `LeafFacts L` is needed for TMF/TMP only.

One correction: "`σ > 0 ∨ τ ≠ 0 → 0 < σ'`" is false when limit_sigma is in force, `σ = 0` and
`τ ≠ 0` (the clamp puts `σ' = min(σ_new, 0) = 0`, see `C06_limit_zero_stays_zero`).  `C06_game`
therefore has: `0 < σ → 0 < σ'` always, and `(σ ≠ 0 ∨ τ ≠ 0) → 0 < σ'` when limit_sigma is off.
-/

noncomputable section
namespace OS
open Scalar

/-! ### delta ≥ 0 -/

/-- **δ ≥ 0.**  For each of the five models, any list of team aggregates with non-negative
team variances, `κ > 0` and a gamma callback that is non-negative on non-negative arguments
(and, for the two Thurstone–Mosteller models only, the leaf facts `W ≥ 0`, `W̃ ≥ 0`): the second
component of every `(ω, δ)` pair `_compute` produces is non-negative. -/
theorem delta_nonneg (K : Kind) (L : Leaves ℝ) (P : Params ℝ)
    (hL : K = .TMF ∨ K = .TMP → LeafFacts L) (hk0 : 0 < P.kappa) (hg : GammaOK P.gamma)
    (ts : List (TeamAgg ℝ)) (hts : ∀ t ∈ ts, 0 ≤ t.sig2) :
    ∀ od ∈ omegaDelta K L P ts, 0 ≤ od.2 :=
  omegaDelta_snd_nonneg K L hL P hk0.le hg ts hts

/-! ### the per-player tail -/

/-- **applyTeam can only shrink sigma.**  With `δ ≥ 0`, `0 < κ ≤ 1` and a non-negative team
variance, `applyTeam κ t ω δ` is `t.players.map (updPlayer κ t.sig2 ω δ)` and, slot by slot,
the new rating keeps the id, has `σ' ≤ σ` and `0 ≤ σ'` when `0 ≤ σ`, and `0 < σ'` when `0 < σ`. -/
theorem applyTeam_sigma_le {kappa omega delta : ℝ} (t : TeamAgg ℝ) (hd : 0 ≤ delta)
    (hk0 : 0 < kappa) (hk1 : kappa ≤ 1) (hs : 0 ≤ t.sig2) :
    applyTeam kappa t omega delta = t.players.map (updPlayer kappa t.sig2 omega delta) ∧
    List.Forall₂ (fun p p' => p'.id = p.id ∧ (0 ≤ p.sigma → p'.sigma ≤ p.sigma ∧ 0 ≤ p'.sigma)
        ∧ (0 < p.sigma → 0 < p'.sigma))
      t.players (applyTeam kappa t omega delta) := by
  refine ⟨rfl, ?_⟩
  rw [applyTeam_eq_map, List.forall₂_map_right_iff, List.forall₂_same]
  intro p _
  exact ⟨rfl, fun hp => ⟨updPlayer_sigma_le hd hk0 hk1 hs p hp, updPlayer_sigma_nonneg p hp⟩,
    fun hp => updPlayer_sigma_pos hk0 p hp⟩

/-- membership form of `applyTeam_sigma_le` -/
theorem applyTeam_sigma_le_mem {kappa omega delta : ℝ} (t : TeamAgg ℝ) (hd : 0 ≤ delta)
    (hk0 : 0 < kappa) (hk1 : kappa ≤ 1) (hs : 0 ≤ t.sig2) :
    ∀ p' ∈ applyTeam kappa t omega delta, ∃ p ∈ t.players, p'.id = p.id ∧
      (0 ≤ p.sigma → p'.sigma ≤ p.sigma) ∧ (0 < p.sigma → 0 < p'.sigma) := by
  intro p' hp'
  rw [applyTeam_eq_map] at hp'
  obtain ⟨p, hp, rfl⟩ := List.mem_map.1 hp'
  exact ⟨p, hp, rfl, fun h => updPlayer_sigma_le hd hk0 hk1 hs p h,
    fun h => updPlayer_sigma_pos hk0 p h⟩

/-- what C06 says about one slot before the limit_sigma clamp: `p` the rating passed in,
`p'` the rating returned, `τ` the additive dynamics factor of the call -/
def SlotRaw (tau : ℝ) (p p' : Rating ℝ) : Prop :=
  p'.id = p.id ∧ 0 ≤ p'.sigma ∧ p'.sigma ≤ √(p.sigma ^ 2 + tau ^ 2)
    ∧ ((p.sigma ≠ 0 ∨ tau ≠ 0) → 0 < p'.sigma)

/-- an `applyTeam` image (with `δ ≥ 0`) of a tau-inflated team satisfies `SlotRaw` slot-wise -/
theorem isUpdateOf_slots {kappa tau : ℝ} (hk0 : 0 < kappa) (hk1 : kappa ≤ 1)
    {S T : List (Rating ℝ)} (h : IsUpdateOf kappa (S.map (inflP tau)) T) :
    List.Forall₂ (SlotRaw tau) S T := by
  obtain ⟨rank, ω, δ, hδ, rfl⟩ := h
  have hs := teamAgg_sig2_nonneg (S.map (inflP tau)) rank
  rw [applyTeam_eq_map]
  show List.Forall₂ (SlotRaw tau) S ((S.map (inflP tau)).map _)
  rw [List.map_map, List.forall₂_map_right_iff, List.forall₂_same]
  intro p _
  refine ⟨rfl, updPlayer_sigma_nonneg _ (inflP_sigma_nonneg tau p), ?_, fun hp => ?_⟩
  · rw [← inflP_sigma]
    exact updPlayer_sigma_le hδ hk0 hk1 hs _ (inflP_sigma_nonneg tau p)
  · exact updPlayer_sigma_pos hk0 _ (inflP_sigma_pos tau p hp)

/-! ### one game -/

/-- the result of `rate` before the limit_sigma clamp -/
def rawResult {ρ : Type} (K : Kind) (L : Leaves ℝ) (P : Params ℝ) (le : ρ → ρ → Bool)
    (teams : List (List (Rating ℝ))) (ranks : Option (List ρ)) (o : CallOpts ℝ) :
    List (List (Rating ℝ)) :=
  rateCore K L P le teams ranks { o with limitSigma := some false }

theorem rateCore_eq_clamp {ρ : Type} (K : Kind) (L : Leaves ℝ) (P : Params ℝ) (le : ρ → ρ → Bool)
    (teams : List (List (Rating ℝ))) (ranks : Option (List ρ)) (o : CallOpts ℝ) :
    rateCore K L P le teams ranks o =
      if resolveLimit P o then clampTeams teams (rawResult K L P le teams ranks o)
      else rawResult K L P le teams ranks o := by
  have h : rawResult K L P le teams ranks o = (match ranks with
      | none => compute K L P (inflate (resolveTau P o) teams)
          (List.range (inflate (resolveTau P o) teams).length)
      | some r =>
        (unwind leNat (unwind le r (inflate (resolveTau P o) teams)).2
          (compute K L P (unwind le r (inflate (resolveTau P o) teams)).1
            (denseRanks (fun a b => !le b a) (sortedKeys le r)))).1) := rfl
  rw [h]
  rfl

/-- **C06, membership form.**  For every model, every parameter set with `κ ≥ 0` and a gamma
callback that is non-negative on non-negative arguments, every list of teams, every `ranks`
(no hypothesis on their number or order) and every call options: each team returned before the
clamp is `applyTeam κ (teamAgg S rank) ω δ` for one of the tau-inflated input teams `S`, some
`rank`, some `ω` and some `δ ≥ 0`. -/
theorem C06_game_membership {ρ : Type} (K : Kind) (L : Leaves ℝ) (P : Params ℝ)
    (le : ρ → ρ → Bool) (teams : List (List (Rating ℝ))) (ranks : Option (List ρ))
    (o : CallOpts ℝ) (hL : K = .TMF ∨ K = .TMP → LeafFacts L) (hk : 0 ≤ P.kappa)
    (hg : GammaOK P.gamma) :
    ∀ T ∈ rawResult K L P le teams ranks o,
      ∃ S ∈ inflate (resolveTau P o) teams, ∃ (rank : Nat) (omega delta : ℝ),
        0 ≤ delta ∧ T = applyTeam P.kappa (teamAgg S rank) omega delta := by
  intro T hT
  cases ranks with
  | none =>
    simp only [rawResult, rateCore, resolveLimit, resolveTau, Bool.false_eq_true, if_false] at hT
    exact compute_mem K L hL P hk hg _ _ T hT
  | some r =>
    simp only [rawResult, rateCore, resolveLimit, resolveTau, Bool.false_eq_true, if_false] at hT
    obtain ⟨S, hS, hU⟩ := compute_mem K L hL P hk hg _ _ T (mem_unwind_fst _ _ _ hT)
    exact ⟨S, mem_unwind_fst _ _ _ hS, hU⟩

/-- per-player reading of the membership form: every player of every returned team is the
update of a player `q` (same id) of a tau-inflated input team with `0 ≤ σ' ≤ σ̂_q`, and
`0 < σ'` when `σ̂_q > 0` -/
theorem C06_game_membership_players {ρ : Type} (K : Kind) (L : Leaves ℝ) (P : Params ℝ)
    (le : ρ → ρ → Bool) (teams : List (List (Rating ℝ))) (ranks : Option (List ρ))
    (o : CallOpts ℝ) (hL : K = .TMF ∨ K = .TMP → LeafFacts L) (hk0 : 0 < P.kappa)
    (hk1 : P.kappa ≤ 1) (hg : GammaOK P.gamma) :
    ∀ T ∈ rawResult K L P le teams ranks o, ∀ p' ∈ T,
      ∃ S ∈ teams, ∃ p ∈ S, p'.id = p.id ∧ 0 ≤ p'.sigma
        ∧ p'.sigma ≤ √(p.sigma ^ 2 + resolveTau P o ^ 2)
        ∧ ((p.sigma ≠ 0 ∨ resolveTau P o ≠ 0) → 0 < p'.sigma) := by
  intro T hT p' hp'
  obtain ⟨S, hS, rank, ω, δ, hδ, rfl⟩ := C06_game_membership K L P le teams ranks o hL hk0.le hg T hT
  rw [inflate_eq_map] at hS
  obtain ⟨S₀, hS₀, rfl⟩ := List.mem_map.1 hS
  have hsl := isUpdateOf_slots (tau := resolveTau P o) hk0 hk1 (S := S₀) ⟨rank, ω, δ, hδ, rfl⟩
  obtain ⟨k, hk, rfl⟩ := List.mem_iff_getElem.1 hp'
  have hk' : k < S₀.length := by rw [hsl.length_eq]; exact hk
  have := (List.forall₂_iff_get.1 hsl).2 k hk' hk
  exact ⟨S₀, hS₀, S₀[k], List.getElem_mem _, this⟩

/-- slot form before the clamp: team `i` of the result is an `applyTeam` image, with `δ ≥ 0`,
of team `i` of the tau-inflated input -/
theorem rawResult_forall₂ {ρ : Type} (K : Kind) (L : Leaves ℝ) (P : Params ℝ)
    (le : ρ → ρ → Bool) (teams : List (List (Rating ℝ))) (ranks : Option (List ρ))
    (o : CallOpts ℝ) (hL : K = .TMF ∨ K = .TMP → LeafFacts L) (hk : 0 ≤ P.kappa)
    (hg : GammaOK P.gamma) (hr : ∀ r, ranks = some r → teams.length ≤ r.length) :
    List.Forall₂ (IsUpdateOf P.kappa) (inflate (resolveTau P o) teams)
      (rawResult K L P le teams ranks o) := by
  have hlen : (inflate (resolveTau P o) teams).length = teams.length := by simp [inflate]
  cases ranks with
  | none =>
    simp only [rawResult, rateCore, resolveLimit, resolveTau, Bool.false_eq_true, if_false]
    exact compute_forall₂ K L hL P hk hg _ _ (by simp)
  | some r =>
    have hr' : (inflate (resolveTau P o) teams).length ≤ r.length := by
      rw [hlen]; exact hr r rfl
    simp only [rawResult, rateCore, resolveLimit, resolveTau, Bool.false_eq_true, if_false]
    apply unwind_forall₂ le r _ hr'
    apply compute_forall₂ K L hL P hk hg
    rw [c06_unwind_fst_length le r _ hr', c06_denseRanks_length, c06_sortedKeys_length]
    exact hr'

/-- what C06 says about one slot of `rate`: `p` the rating passed in, `p'` the rating returned -/
def SlotC06 (tau : ℝ) (limit : Bool) (p p' : Rating ℝ) : Prop :=
  p'.id = p.id
  ∧ p'.sigma ≤ √(p.sigma ^ 2 + tau ^ 2)
  ∧ (0 < p.sigma → 0 < p'.sigma)
  ∧ (limit = false → (p.sigma ≠ 0 ∨ tau ≠ 0) → 0 < p'.sigma)
  ∧ (0 ≤ p.sigma → 0 ≤ p'.sigma)
  ∧ (limit = true → p'.sigma ≤ p.sigma)

/-- **C06 for one game, slot by slot.**  For every model, every parameter set with
`0 < κ ≤ 1` and a gamma callback non-negative on non-negative arguments (leaf facts for the two
Thurstone–Mosteller models), every list of teams, ranks omitted or as many ranks as teams,
every call options, with `τ` and `limit_sigma` as resolved for the call: the result has the
shape of the input and the rating `p'` returned in slot `[i][j]` for the rating `p` passed in
that slot has the same id and

* `σ' ≤ √(σ² + τ²)`;
* `0 < σ'` if `0 < σ`; also if merely `σ ≠ 0 ∨ τ ≠ 0` provided limit_sigma is off;
* `0 ≤ σ'` if `0 ≤ σ`;
* `σ' ≤ σ` if limit_sigma is on. -/
theorem C06_game {ρ : Type} (K : Kind) (L : Leaves ℝ) (P : Params ℝ)
    (le : ρ → ρ → Bool) (teams : List (List (Rating ℝ))) (ranks : Option (List ρ))
    (o : CallOpts ℝ) (hL : K = .TMF ∨ K = .TMP → LeafFacts L) (hk0 : 0 < P.kappa)
    (hk1 : P.kappa ≤ 1) (hg : GammaOK P.gamma)
    (hr : ∀ r, ranks = some r → r.length = teams.length) :
    List.Forall₂ (List.Forall₂ (SlotC06 (resolveTau P o) (resolveLimit P o)))
      teams (rateCore K L P le teams ranks o) := by
  have hraw := rawResult_forall₂ K L P le teams ranks o hL hk0.le hg
    (fun r h => (hr r h).ge)
  rw [inflate_eq_map, List.forall₂_map_left_iff] at hraw
  have hraw' : List.Forall₂ (List.Forall₂ (SlotRaw (resolveTau P o))) teams
      (rawResult K L P le teams ranks o) :=
    hraw.imp (fun S T h => isUpdateOf_slots hk0 hk1 h)
  rw [rateCore_eq_clamp]
  cases hlim : resolveLimit P o with
  | false =>
    simp only [Bool.false_eq_true, if_false]
    refine hraw'.imp (fun S T h => h.imp ?_)
    rintro p p' ⟨h1, h2, h3, h4⟩
    exact ⟨h1, h3, fun hp => h4 (Or.inl hp.ne'), fun _ hp => h4 hp, fun _ => h2,
      fun h => Bool.noConfusion h⟩
  | true =>
    simp only [if_true]
    rw [clampTeams_eq_zipWith]
    refine (forall₂_zipWith_right (List.zipWith clampP) hraw').imp ?_
    rintro S T' ⟨T, hST, rfl⟩
    refine (forall₂_zipWith_right clampP hST).imp ?_
    rintro p p'' ⟨p', ⟨h1, h2, h3, h4⟩, rfl⟩
    refine ⟨by simp [h1], ?_, ?_, fun h => Bool.noConfusion h, ?_, fun _ => ?_⟩
    · rw [clampP_sigma]; exact (min_le_left _ _).trans h3
    · intro hp; rw [clampP_sigma]; exact lt_min (h4 (Or.inl hp.ne')) hp
    · intro hp; rw [clampP_sigma]; exact le_min h2 hp
    · rw [clampP_sigma]; exact min_le_right _ _

/-- `C06_game` read at one slot `[i][j]` with `getElem` -/
theorem C06_game_slot {ρ : Type} (K : Kind) (L : Leaves ℝ) (P : Params ℝ)
    (le : ρ → ρ → Bool) (teams : List (List (Rating ℝ))) (ranks : Option (List ρ))
    (o : CallOpts ℝ) (hL : K = .TMF ∨ K = .TMP → LeafFacts L) (hk0 : 0 < P.kappa)
    (hk1 : P.kappa ≤ 1) (hg : GammaOK P.gamma)
    (hr : ∀ r, ranks = some r → r.length = teams.length)
    (i j : Nat) (hi : i < teams.length) (hj : j < teams[i].length) :
    ∃ (hi' : i < (rateCore K L P le teams ranks o).length)
      (hj' : j < ((rateCore K L P le teams ranks o)[i]).length),
      SlotC06 (resolveTau P o) (resolveLimit P o) (teams[i][j])
        ((rateCore K L P le teams ranks o)[i][j]) := by
  have h := C06_game K L P le teams ranks o hL hk0 hk1 hg hr
  obtain ⟨hl, hget⟩ := List.forall₂_iff_get.1 h
  have hi' : i < (rateCore K L P le teams ranks o).length := hl ▸ hi
  have h2 := hget i hi hi'
  simp only [List.get_eq_getElem] at h2
  obtain ⟨hl2, hget2⟩ := List.forall₂_iff_get.1 h2
  have hj' : j < ((rateCore K L P le teams ranks o)[i]).length := hl2 ▸ hj
  exact ⟨hi', hj', by simpa using hget2 j hj hj'⟩

/-- **C06 for `rate`** (ranks, scores or neither): the same slot-wise statement as `C06_game` -/
theorem C06_rate {ρ : Type} (K : Kind) (L : Leaves ℝ) (P : Params ℝ)
    (le : ρ → ρ → Bool) (neg : ρ → ρ) (teams : List (List (Rating ℝ))) (oc : Outcome ρ)
    (o : CallOpts ℝ) (hL : K = .TMF ∨ K = .TMP → LeafFacts L) (hk0 : 0 < P.kappa)
    (hk1 : P.kappa ≤ 1) (hg : GammaOK P.gamma)
    (hr : ∀ r, (oc = .ranks r ∨ oc = .scores r) → r.length = teams.length) :
    List.Forall₂ (List.Forall₂ (SlotC06 (resolveTau P o) (resolveLimit P o)))
      teams (rate K L P le neg teams oc o) := by
  cases oc with
  | omitted =>
    exact C06_game K L P le teams none o hL hk0 hk1 hg (by intro r h; cases h)
  | ranks r =>
    refine C06_game K L P le teams (some r) o hL hk0 hk1 hg ?_
    intro r' h; cases h; exact hr r (Or.inl rfl)
  | scores s =>
    refine C06_game K L P le teams (some (s.map neg)) o hL hk0 hk1 hg ?_
    intro r' h; cases h; rw [List.length_map]; exact hr s (Or.inr rfl)

/-- the corner that makes "`σ > 0 ∨ τ ≠ 0 → 0 < σ'`" false under limit_sigma: a rating that
enters with `σ = 0` while limit_sigma is in force leaves with `σ' = 0`, whatever `τ` is -/
theorem C06_limit_zero_stays_zero {tau : ℝ} {p p' : Rating ℝ} (h : SlotC06 tau true p p')
    (hp : p.sigma = 0) : p'.sigma = 0 := by
  obtain ⟨_, _, _, _, h5, h6⟩ := h
  exact le_antisymm (hp ▸ h6 rfl) (h5 hp.ge)

/-! ### the clamp -/

/-- **The limit_sigma clamp.**  `clampTeams orig res` is the slot-wise `clampP` of `res` against
`orig`; whenever slot `[i][j]` of it exists, so do slots `[i][j]` of `orig` (rating `p`) and of
`res` (rating `q`), and the clamped rating has the id and mu of `q` and
`σ = min(σ_q, σ_p)` — in particular `≤ σ_p` and `≤ σ_q`. -/
theorem C06_clamp (orig res : List (List (Rating ℝ))) :
    clampTeams orig res = List.zipWith (List.zipWith clampP) res orig ∧
    ∀ (i j : Nat) (r : Rating ℝ), ((clampTeams orig res)[i]?).bind (·[j]?) = some r →
      ∃ p q, (orig[i]?).bind (·[j]?) = some p ∧ (res[i]?).bind (·[j]?) = some q ∧
        r.id = q.id ∧ r.mu = q.mu ∧ r.sigma = min q.sigma p.sigma ∧
        r.sigma ≤ p.sigma ∧ r.sigma ≤ q.sigma := by
  refine ⟨clampTeams_eq_zipWith orig res, ?_⟩
  intro i j r h
  rw [clampTeams_eq_zipWith, List.getElem?_zipWith] at h
  cases hR : res[i]? with
  | none => simp [hR] at h
  | some R =>
    cases hO : orig[i]? with
    | none => simp [hR, hO] at h
    | some O =>
      simp only [hR, hO, Option.bind_some, List.getElem?_zipWith] at h
      cases hq : R[j]? with
      | none => simp [hq] at h
      | some q =>
        cases hp : O[j]? with
        | none => simp [hq, hp] at h
        | some p =>
          simp only [hq, hp, Option.some.injEq] at h
          subst h
          refine ⟨p, q, by simp [hp], by simp [hq], by simp, by simp, clampP_sigma q p, ?_, ?_⟩
          · rw [clampP_sigma]; exact min_le_right _ _
          · rw [clampP_sigma]; exact min_le_left _ _

/-- the clamp on lists of the same shape, as a slot-wise relation -/
theorem C06_clamp_forall₂ {A : Rating ℝ → Rating ℝ → Prop} {orig res : List (List (Rating ℝ))}
    (h : List.Forall₂ (List.Forall₂ A) orig res) :
    List.Forall₂ (List.Forall₂ (fun p r => ∃ q, A p q ∧ r.id = q.id ∧ r.mu = q.mu
        ∧ r.sigma = min q.sigma p.sigma)) orig (clampTeams orig res) := by
  rw [clampTeams_eq_zipWith]
  refine (forall₂_zipWith_right (List.zipWith clampP) h).imp ?_
  rintro S T' ⟨T, hST, rfl⟩
  refine (forall₂_zipWith_right clampP hST).imp ?_
  rintro p r ⟨q, hpq, rfl⟩
  exact ⟨q, hpq, by simp, by simp, clampP_sigma q p⟩

/-! ### a league -/

/-- one game of a league seen from the players' sigmas: the `τ` of the call, who takes part,
and the sigma of every player after the game -/
structure GameStep where
  tau : ℝ
  plays : Nat → Prop
  post : Nat → ℝ

/-- `g` is a step the rating system can take from the state `sig`: participants end with
`0 ≤ σ' ≤ √(σ² + τ²)` (what `C06_game` gives), everybody else is untouched -/
def GameStep.Adm (g : GameStep) (sig : Nat → ℝ) : Prop :=
  ∀ p, (g.plays p → 0 ≤ g.post p ∧ g.post p ≤ √(sig p ^ 2 + g.tau ^ 2))
    ∧ (¬ g.plays p → g.post p = sig p)

open Classical in
/-- what game `g` adds to the variance budget of player `p`: `τ_g²` if `p` takes part, else `0` -/
def stepBudget (g : GameStep) (p : Nat) : ℝ := if g.plays p then g.tau ^ 2 else 0

theorem stepBudget_pos {g : GameStep} {p : Nat} (h : g.plays p) : stepBudget g p = g.tau ^ 2 := by
  simp [stepBudget, h]

theorem stepBudget_neg {g : GameStep} {p : Nat} (h : ¬ g.plays p) : stepBudget g p = 0 := by
  simp [stepBudget, h]

/-- `Σ τ_g²` over the first `k` games in which player `p` took part -/
def tauBudget (g : Nat → GameStep) (p k : Nat) : ℝ :=
  ∑ i ∈ Finset.range k, stepBudget (g i) p

theorem tauBudget_zero (g : Nat → GameStep) (p : Nat) : tauBudget g p 0 = 0 := by
  simp [tauBudget]

theorem tauBudget_succ (g : Nat → GameStep) (p k : Nat) :
    tauBudget g p (k + 1) = tauBudget g p k + stepBudget (g k) p := by
  simp only [tauBudget, Finset.sum_range_succ]

/-- a slot of `C06_game` is an admissible participant step -/
theorem SlotC06.adm {tau : ℝ} {limit : Bool} {p p' : Rating ℝ} (h : SlotC06 tau limit p p')
    (hp : 0 ≤ p.sigma) : 0 ≤ p'.sigma ∧ p'.sigma ≤ √(p.sigma ^ 2 + tau ^ 2) :=
  ⟨h.2.2.2.2.1 hp, h.2.1⟩

/-- **Variance budget of a league.**  Let `sig k` be the sigmas after `k` games and suppose each
of the first `N` games is an admissible step.  Then for every `k ≤ N` and every player,
`σ_k² ≤ σ_0² + Σ_{g < k, p plays in g} τ_g²`. -/
theorem C06_history (g : Nat → GameStep) (sig : Nat → Nat → ℝ) (N : Nat)
    (hstep : ∀ k < N, (g k).Adm (sig k) ∧ sig (k + 1) = (g k).post) :
    ∀ k ≤ N, ∀ p, sig k p ^ 2 ≤ sig 0 p ^ 2 + tauBudget g p k := by
  intro k
  induction k with
  | zero => intro _ p; simp [tauBudget]
  | succ k ih =>
    intro hk p
    have ih' := ih (Nat.le_of_succ_le hk) p
    obtain ⟨hadm, hnext⟩ := hstep k hk
    obtain ⟨hplay, hrest⟩ := hadm p
    rw [tauBudget_succ, hnext]
    by_cases hpl : (g k).plays p
    · obtain ⟨h0, h1⟩ := hplay hpl
      have h2 : (g k).post p ^ 2 ≤ √(sig k p ^ 2 + (g k).tau ^ 2) ^ 2 :=
        pow_le_pow_left₀ h0 h1 2
      rw [Real.sq_sqrt (by positivity)] at h2
      rw [stepBudget_pos hpl]
      linarith
    · rw [stepBudget_neg hpl, hrest hpl]
      linarith

/-- **limit_sigma makes sigma non-increasing along a league.**  If in each of the first `N`
games every player's sigma after the game is at most the one before (participants by
`C06_game` with limit_sigma on, the others untouched), then `k ≤ l ≤ N → σ_l ≤ σ_k`. -/
theorem C06_history_limit (g : Nat → GameStep) (sig : Nat → Nat → ℝ) (N : Nat)
    (hstep : ∀ k < N, sig (k + 1) = (g k).post ∧ ∀ p, (g k).post p ≤ sig k p) :
    ∀ k l, k ≤ l → l ≤ N → ∀ p, sig l p ≤ sig k p := by
  intro k l hkl
  induction l, hkl using Nat.le_induction with
  | base => intro _ p; exact le_refl _
  | succ l hkl ih =>
    intro hl p
    obtain ⟨hnext, hle⟩ := hstep l hl
    rw [hnext]
    exact (hle p).trans (ih (Nat.le_of_succ_le hl) p)

/-! ### the hypotheses are satisfiable -/

/-- the library defaults `κ = 0.0001`, `β = 25/6` -/
example : (0 : ℝ) < 1 / 10000 ∧ (1 / 10000 : ℝ) ≤ 1 ∧ (0 : ℝ) < 25 / 6 := by norm_num

/-- the default gamma `√σ² / c` is admissible -/
example : GammaOK (GammaFn.dflt : GammaFn ℝ) := gammaOK_of_tag _ trivial (by intro x h; cases h)

/-- so are `1/k`, `1/(rank+1)`, `σ²/c²`, `0` and every non-negative constant -/
example : GammaOK (GammaFn.invK : GammaFn ℝ) ∧ GammaOK (GammaFn.rankDep : GammaFn ℝ)
    ∧ GammaOK (GammaFn.sq : GammaFn ℝ) ∧ GammaOK (GammaFn.zero : GammaFn ℝ)
    ∧ GammaOK (GammaFn.const (3 / 2) : GammaFn ℝ) :=
  ⟨gammaOK_of_tag _ trivial (by intro x h; cases h), gammaOK_of_tag _ trivial (by intro x h; cases h),
   gammaOK_of_tag _ trivial (by intro x h; cases h), gammaOK_of_tag _ trivial (by intro x h; cases h),
   gammaOK_of_tag _ trivial (by intro x h; cases h; norm_num)⟩

/-- `gammaVal .dflt` is `≥ 0` for `c ≥ 0` -/
example (c : ℝ) (k : Nat) (mu s2 : ℝ) (team : List (Rating ℝ)) (r : Nat) (hc : 0 ≤ c) :
    0 ≤ gammaVal GammaFn.dflt c k mu s2 team r := by
  simp only [gammaVal, sc_sqrt]; exact div_nonneg (Real.sqrt_nonneg _) hc

/-- an arbitrary callback is admissible as soon as it is non-negative for `c, σ² ≥ 0`; e.g. the
team-reading callback `√(Σ_team σ²)/c`, or "mean variance of the roster" -/
example : GammaOK gammaTeamSigma ∧
    GammaOK (.fn (fun _ _ _ s2 team _ => s2 / (team.length + 1)) : GammaFn ℝ) :=
  ⟨gam_teamSigma_gammaOK, fun _ _ _ _ team _ _ hs => div_nonneg hs (by positivity)⟩

/-- the unrestricted hypothesis "`0 ≤ gamma` for all `c`" would exclude the default callback -/
example : ¬ ∀ (c : ℝ) (k : Nat) (mu s2 : ℝ) (team : List (Rating ℝ)) (r : Nat),
    0 ≤ gammaVal GammaFn.dflt c k mu s2 team r := by
  intro h
  have := h (-1) 0 0 1 [] 0
  simp only [gammaVal, sc_sqrt, Real.sqrt_one] at this
  norm_num at this

/-- `LeafFacts` has a model (so the TMF/TMP instances are not vacuous either) -/
example : LeafFacts ⟨fun x t => |t - x|, fun _ _ => 0, fun x _ => -x, fun _ _ => 0⟩ where
  v_nonneg x t := abs_nonneg _
  v_ge x t := le_abs_self _
  w_nonneg _ _ := le_refl _
  wt_nonneg _ _ _ := le_refl _
  vt_mem x t ht := ⟨by linarith, by linarith⟩
  vt_odd x t _ := rfl

/-- `C06_game` instantiated: Plackett–Luce with the library defaults, any teams, no ranks -/
example (L : Leaves ℝ) (teams : List (List (Rating ℝ))) (o : CallOpts ℝ) :
    List.Forall₂ (List.Forall₂ (SlotC06
        (resolveTau ⟨25 / 6, 1 / 10000, 25 / 300, false, .dflt⟩ o)
        (resolveLimit ⟨25 / 6, 1 / 10000, 25 / 300, false, .dflt⟩ o)))
      teams
      (rateCore .PL L ⟨25 / 6, 1 / 10000, 25 / 300, false, .dflt⟩ leNat teams none o) :=
  C06_game .PL L _ leNat teams none o (by intro h; rcases h with h | h <;> cases h)
    (by norm_num) (by norm_num) (gammaOK_of_tag _ trivial (by intro x h; cases h))
    (by intro r h; cases h)

/-- `C06_rate` instantiated for all five models at once, with leaves that satisfy `LeafFacts`,
ranks given for a three-team game -/
example (K : Kind) (t1 t2 t3 : List (Rating ℝ)) (o : CallOpts ℝ) :
    List.Forall₂ (List.Forall₂ (SlotC06
        (resolveTau ⟨25 / 6, 1 / 10000, 25 / 300, true, .dflt⟩ o)
        (resolveLimit ⟨25 / 6, 1 / 10000, 25 / 300, true, .dflt⟩ o)))
      [t1, t2, t3]
      (rate K ⟨fun x t => |t - x|, fun _ _ => 0, fun x _ => -x, fun _ _ => 0⟩
        ⟨25 / 6, 1 / 10000, 25 / 300, true, .dflt⟩ leNat id [t1, t2, t3] (.ranks [2, 1, 2]) o) :=
  C06_rate K _ _ leNat id _ _ o
    (fun _ => { v_nonneg := fun x t => abs_nonneg _, v_ge := fun x t => le_abs_self _,
                w_nonneg := fun _ _ => le_refl _, wt_nonneg := fun _ _ _ => le_refl _,
                vt_mem := fun x t ht => ⟨by linarith, by linarith⟩, vt_odd := fun x t _ => rfl })
    (by norm_num) (by norm_num) (gammaOK_of_tag _ trivial (by intro x h; cases h))
    (by intro r h; rcases h with h | h <;> cases h; rfl)

/-- an admissible step exists from any non-negative state (nobody plays) -/
example (sig : Nat → ℝ) : (⟨0, fun _ => False, sig⟩ : GameStep).Adm sig :=
  fun _ => ⟨fun h => h.elim, fun _ => rfl⟩

end OS
end
