import OSProofs.C05Lemmas
import OSProofs.LeafCode
/-!
# C05 — direction of learning (game level)

"Winning never costs mu, losing never earns it", for whole games and all five models, over ℝ.

1. A team alone in first place has `Ω ≥ 0`, a team alone in last place has `Ω ≤ 0`; hence every
   member's mu moves up (resp. down) or stays.
   Stated for `omegaDelta` + `applyTeam` on arbitrary team aggregates with `σ_team² ≥ 0`, and for
   `compute` on arbitrary teams (no hypothesis on the ratings at all).
2. Two-team games: `Ω_loss ≤ Ω_draw ≤ Ω_win`, `Ω_loss ≤ 0 ≤ Ω_win`, and the direction of a draw.
3. Twins (same mu, same variance) under full pairing (BTF, TMF): the better-placed twin has the
   larger `Ω`.

None of the weak inequalities needs `β > 0`: over ℝ, `x / 0 = 0`, so a degenerate `c = 0` makes the
terms vanish rather than blow up.  `β > 0` (and `σ_team² > 0`) is used only for the strict version of
the draw direction.  `κ ≥ 0` is used only where the draw branch `Ṽ` of Thurstone–Mosteller occurs.
-/
noncomputable section
namespace OS

/-! ## 1. alone in first place / alone in last place -/

/-- **Sole winner, all five models.**  A team that is alone in first place (its rank is strictly
better than every other team's) gets a non-negative `Ω`.  (Needs only `σ_team² ≥ 0`; for the
Thurstone–Mosteller models, `V ≥ 0` from `LeafFacts`.) -/
theorem C05_sole_first (K : Kind) (L : Leaves ℝ) (hL : LeafFacts L) (P : Params ℝ)
    (ts : List (TeamAgg ℝ)) (hs : ∀ t ∈ ts, 0 ≤ t.sig2) (i : Nat) (hi : i < ts.length)
    (hfirst : ∀ (q : Nat) (hq : q < ts.length), q ≠ i → ts[i].rank < ts[q].rank) :
    0 ≤ ((omegaDelta K L P ts)[i]'(omegaDelta_lt L P ts hi)).1 := by
  have hsi : 0 ≤ ts[i].sig2 := hs _ (List.getElem_mem hi)
  cases K with
  | PL =>
    rw [omegaDelta_PL_getElem L P ts i hi]
    exact plOmega_sole_first _ ts _ (Real.sqrt_nonneg _) i hi hsi hfirst
  | BTF =>
    rw [omegaDelta_BTF_getElem L P ts i hi, sumPairs, List.map_map]
    refine sumL_map_nonneg fun x hx => ?_
    obtain ⟨q, hq, hne, rfl⟩ := (mem_othersOf ts i x).mp hx
    exact C05_btPair_win_nonneg _ _ _ _ _ hsi (hfirst q hq hne)
  | BTP =>
    rw [omegaDelta_BTP_getElem L P ts i hi, sumPairs, List.map_map]
    refine sumL_map_nonneg fun x hx => ?_
    obtain ⟨q, hq, hne, rfl⟩ := ne_of_mem_neighboursOf ts i x hx
    exact C05_btPair_win_nonneg _ _ _ _ _ hsi (hfirst q hq hne)
  | TMF =>
    rw [omegaDelta_TMF_getElem L P ts i hi, sumPairs, List.map_map]
    refine sumL_map_nonneg fun x hx => ?_
    obtain ⟨q, hq, hne, rfl⟩ := (mem_othersOf ts i x).mp hx
    exact (C05_tmPair_sign L hL _ _ _ _ _ _ _ hsi (by simp)).1 (hfirst q hq hne)
  | TMP =>
    rw [omegaDelta_TMP_getElem L P ts i hi, sumPairs, List.map_map]
    refine sumL_map_nonneg fun x hx => ?_
    obtain ⟨q, hq, hne, rfl⟩ := ne_of_mem_neighboursOf ts i x hx
    exact (C05_tmPair_sign L hL _ _ _ _ _ _ _ hsi (by simp)).1 (hfirst q hq hne)

/-- **Sole loser, all five models.**  A team that is alone in last place gets a non-positive `Ω`. -/
theorem C05_sole_last (K : Kind) (L : Leaves ℝ) (hL : LeafFacts L) (P : Params ℝ)
    (ts : List (TeamAgg ℝ)) (hs : ∀ t ∈ ts, 0 ≤ t.sig2) (i : Nat) (hi : i < ts.length)
    (hlast : ∀ (q : Nat) (hq : q < ts.length), q ≠ i → ts[q].rank < ts[i].rank) :
    ((omegaDelta K L P ts)[i]'(omegaDelta_lt L P ts hi)).1 ≤ 0 := by
  have hsi : 0 ≤ ts[i].sig2 := hs _ (List.getElem_mem hi)
  cases K with
  | PL =>
    rw [omegaDelta_PL_getElem L P ts i hi]
    exact plOmega_sole_last _ ts _ (Real.sqrt_nonneg _) i hi hsi hlast
  | BTF =>
    rw [omegaDelta_BTF_getElem L P ts i hi, sumPairs, List.map_map]
    refine sumL_map_nonpos fun x hx => ?_
    obtain ⟨q, hq, hne, rfl⟩ := (mem_othersOf ts i x).mp hx
    exact C05_btPair_loss_nonpos _ _ _ _ _ hsi (hlast q hq hne)
  | BTP =>
    rw [omegaDelta_BTP_getElem L P ts i hi, sumPairs, List.map_map]
    refine sumL_map_nonpos fun x hx => ?_
    obtain ⟨q, hq, hne, rfl⟩ := ne_of_mem_neighboursOf ts i x hx
    exact C05_btPair_loss_nonpos _ _ _ _ _ hsi (hlast q hq hne)
  | TMF =>
    rw [omegaDelta_TMF_getElem L P ts i hi, sumPairs, List.map_map]
    refine sumL_map_nonpos fun x hx => ?_
    obtain ⟨q, hq, hne, rfl⟩ := (mem_othersOf ts i x).mp hx
    exact (C05_tmPair_sign L hL _ _ _ _ _ _ _ hsi (by simp)).2 (hlast q hq hne)
  | TMP =>
    rw [omegaDelta_TMP_getElem L P ts i hi, sumPairs, List.map_map]
    refine sumL_map_nonpos fun x hx => ?_
    obtain ⟨q, hq, hne, rfl⟩ := ne_of_mem_neighboursOf ts i x hx
    exact (C05_tmPair_sign L hL _ _ _ _ _ _ _ hsi (by simp)).2 (hlast q hq hne)

/-- every member's mu moves in the direction of `Ω` (non-negative `Ω`: nobody loses mu) -/
theorem applyTeam_mu_ge (κ ω δ : ℝ) (t : TeamAgg ℝ) (hs : 0 ≤ t.sig2) (hω : 0 ≤ ω) :
    List.Forall₂ (fun p p' => p.mu ≤ p'.mu) t.players (applyTeam κ t ω δ) := by
  unfold applyTeam
  rw [List.forall₂_map_right_iff, List.forall₂_same]
  intro p _
  have : 0 ≤ p.sigma * p.sigma / t.sig2 * ω :=
    mul_nonneg (div_nonneg (mul_self_nonneg _) hs) hω
  simpa using this

/-- … (non-positive `Ω`: nobody gains mu) -/
theorem applyTeam_mu_le (κ ω δ : ℝ) (t : TeamAgg ℝ) (hs : 0 ≤ t.sig2) (hω : ω ≤ 0) :
    List.Forall₂ (fun p p' => p'.mu ≤ p.mu) t.players (applyTeam κ t ω δ) := by
  unfold applyTeam
  rw [List.forall₂_map_right_iff, List.forall₂_same]
  intro p _
  have : p.sigma * p.sigma / t.sig2 * ω ≤ 0 :=
    mul_nonpos_of_nonneg_of_nonpos (div_nonneg (mul_self_nonneg _) hs) hω
  simpa using this

/-- **Sole winner: no member loses mu.**  The updated team of a sole winner, member by member
(`List.Forall₂` pairs the `j`-th old member with the `j`-th new one): `mu_old ≤ mu_new`. -/
theorem C05_sole_first_members (K : Kind) (L : Leaves ℝ) (hL : LeafFacts L) (P : Params ℝ)
    (ts : List (TeamAgg ℝ)) (hs : ∀ t ∈ ts, 0 ≤ t.sig2) (i : Nat) (hi : i < ts.length)
    (hfirst : ∀ (q : Nat) (hq : q < ts.length), q ≠ i → ts[i].rank < ts[q].rank) :
    List.Forall₂ (fun p p' => p.mu ≤ p'.mu) ts[i].players
      (applyTeam P.kappa ts[i] ((omegaDelta K L P ts)[i]'(omegaDelta_lt L P ts hi)).1
        ((omegaDelta K L P ts)[i]'(omegaDelta_lt L P ts hi)).2) :=
  applyTeam_mu_ge _ _ _ _ (hs _ (List.getElem_mem hi)) (C05_sole_first K L hL P ts hs i hi hfirst)

/-- **Sole loser: no member gains mu.** -/
theorem C05_sole_last_members (K : Kind) (L : Leaves ℝ) (hL : LeafFacts L) (P : Params ℝ)
    (ts : List (TeamAgg ℝ)) (hs : ∀ t ∈ ts, 0 ≤ t.sig2) (i : Nat) (hi : i < ts.length)
    (hlast : ∀ (q : Nat) (hq : q < ts.length), q ≠ i → ts[q].rank < ts[i].rank) :
    List.Forall₂ (fun p p' => p'.mu ≤ p.mu) ts[i].players
      (applyTeam P.kappa ts[i] ((omegaDelta K L P ts)[i]'(omegaDelta_lt L P ts hi)).1
        ((omegaDelta K L P ts)[i]'(omegaDelta_lt L P ts hi)).2) :=
  applyTeam_mu_le _ _ _ _ (hs _ (List.getElem_mem hi)) (C05_sole_last K L hL P ts hs i hi hlast)

/-- **Sole winner, at the level of `_compute`.**  For any teams (no hypothesis on the ratings:
over ℝ a team's variance is a sum of squares) and dense ranks of the same length, if team `i` is
alone in first place then every one of its members comes out with `mu_new ≥ mu_old`. -/
theorem C05_compute_sole_first (K : Kind) (L : Leaves ℝ) (hL : LeafFacts L) (P : Params ℝ)
    (teams : List (List (Rating ℝ))) (dense : List Nat) (hlen : dense.length = teams.length)
    (i : Nat) (hi : i < teams.length)
    (hfirst : ∀ (q : Nat) (hq : q < dense.length), q ≠ i → dense[i] < dense[q]) :
    List.Forall₂ (fun p p' => p.mu ≤ p'.mu) teams[i]
      ((compute K L P teams dense)[i]'(compute_lt hi (by omega))) := by
  have hd : i < dense.length := by omega
  have hlt : i < (teamAggs teams dense).length := by rw [teamAggs_length]; omega
  rw [compute_getElem K L P teams dense i hi hd]
  have hs : ∀ t ∈ teamAggs teams dense, 0 ≤ t.sig2 := by
    intro t ht
    obtain ⟨tr, _, rfl⟩ := List.mem_map.mp ht
    exact c05_teamAgg_sig2_nonneg _ _
  have h := C05_sole_first_members K L hL P (teamAggs teams dense) hs i hlt (by
    intro q hq hne
    have hq' : q < teams.length ∧ q < dense.length := by rw [teamAggs_length] at hq; omega
    rw [c05_teamAggs_getElem teams dense i hi hd, c05_teamAggs_getElem teams dense q hq'.1 hq'.2]
    exact hfirst q hq'.2 hne)
  have hp : ((teamAggs teams dense)[i]'hlt).players = teams[i] := by
    rw [c05_teamAggs_getElem teams dense i hi hd]; rfl
  rw [hp] at h
  exact h

/-- **Sole loser, at the level of `_compute`**: every member comes out with `mu_new ≤ mu_old`. -/
theorem C05_compute_sole_last (K : Kind) (L : Leaves ℝ) (hL : LeafFacts L) (P : Params ℝ)
    (teams : List (List (Rating ℝ))) (dense : List Nat) (hlen : dense.length = teams.length)
    (i : Nat) (hi : i < teams.length)
    (hlast : ∀ (q : Nat) (hq : q < dense.length), q ≠ i → dense[q] < dense[i]) :
    List.Forall₂ (fun p p' => p'.mu ≤ p.mu) teams[i]
      ((compute K L P teams dense)[i]'(compute_lt hi (by omega))) := by
  have hd : i < dense.length := by omega
  have hlt : i < (teamAggs teams dense).length := by rw [teamAggs_length]; omega
  rw [compute_getElem K L P teams dense i hi hd]
  have hs : ∀ t ∈ teamAggs teams dense, 0 ≤ t.sig2 := by
    intro t ht
    obtain ⟨tr, _, rfl⟩ := List.mem_map.mp ht
    exact c05_teamAgg_sig2_nonneg _ _
  have h := C05_sole_last_members K L hL P (teamAggs teams dense) hs i hlt (by
    intro q hq hne
    have hq' : q < teams.length ∧ q < dense.length := by rw [teamAggs_length] at hq; omega
    rw [c05_teamAggs_getElem teams dense i hi hd, c05_teamAggs_getElem teams dense q hq'.1 hq'.2]
    exact hlast q hq'.2 hne)
  have hp : ((teamAggs teams dense)[i]'hlt).players = teams[i] := by
    rw [c05_teamAggs_getElem teams dense i hi hd]; rfl
  rw [hp] at h
  exact h

/-! ## 2. two-team games -/

/-- `Ω` of the first team in the two-team game `[a, b]` in which `a` is given rank `ra` and `b`
rank `rb` (mu, sigma², players unchanged) -/
def omegaTwo (K : Kind) (L : Leaves ℝ) (P : Params ℝ) (a b : TeamAgg ℝ) (ra rb : Nat) : ℝ :=
  ((omegaDelta K L P [{ a with rank := ra }, { b with rank := rb }])[0]'(two_lt _ _ _ _ _)).1

/-- **Two teams, all five models: loss ≤ draw ≤ win, loss ≤ 0 ≤ win.**  Play the same two teams
three times: `a` loses (`rl' < rl`), draws (`rd = rd'`), wins (`rw < rw'`).  Then
`Ω_loss ≤ Ω_draw ≤ Ω_win` and `Ω_loss ≤ 0 ≤ Ω_win`. -/
theorem C05_two_team_chain (K : Kind) (L : Leaves ℝ) (hL : LeafFacts L) (P : Params ℝ)
    (a b : TeamAgg ℝ) (ha : 0 ≤ a.sig2) (hκ : 0 ≤ P.kappa)
    (rw rw' rd rd' rl rl' : Nat) (hw : rw < rw') (hd : rd = rd') (hl : rl' < rl) :
    omegaTwo K L P a b rl rl' ≤ omegaTwo K L P a b rd rd' ∧
    omegaTwo K L P a b rd rd' ≤ omegaTwo K L P a b rw rw' ∧
    omegaTwo K L P a b rl rl' ≤ 0 ∧ 0 ≤ omegaTwo K L P a b rw rw' := by
  unfold omegaTwo
  have hbt : 0 ≤ a.sig2 / pairC P.beta a b := div_nonneg ha (pairC_nonneg _ _ _)
  have hp := btP_mem P.beta a b
  have htm : ∀ cmul : ℝ, 0 ≤ cmul →
      (tmPair L cmul P.beta P.kappa P.gamma 2 { a with rank := rl } { b with rank := rl' }).1 ≤
        (tmPair L cmul P.beta P.kappa P.gamma 2 { a with rank := rd } { b with rank := rd' }).1 ∧
      (tmPair L cmul P.beta P.kappa P.gamma 2 { a with rank := rd } { b with rank := rd' }).1 ≤
        (tmPair L cmul P.beta P.kappa P.gamma 2 { a with rank := rw } { b with rank := rw' }).1 ∧
      (tmPair L cmul P.beta P.kappa P.gamma 2 { a with rank := rl } { b with rank := rl' }).1 ≤ 0 ∧
      0 ≤ (tmPair L cmul P.beta P.kappa P.gamma 2 { a with rank := rw } { b with rank := rw' }).1 := by
    intro cmul hc
    have hc' : 0 ≤ cmul * pairC P.beta a b := mul_nonneg hc (pairC_nonneg _ _ _)
    rw [tmPair_fst_loss _ _ _ _ _ _ _ _ hl, tmPair_fst_draw _ _ _ _ _ _ _ _ hd,
      tmPair_fst_win _ _ _ _ _ _ _ _ hw]
    simp only [pairC_rank]
    exact tm_chain hL _ (div_nonneg ha hc') (div_nonneg hκ hc')
  cases K with
  | PL =>
    rw [two_PL_loss _ _ _ _ hl, two_PL_draw _ _ _ _ hd, two_PL_win _ _ _ _ hw]
    simp only [plC_two_rank, plP_rank]
    have hp := plP_mem (plC P.beta [a, b]) a b
    exact scale_chain (div_nonneg ha (Real.sqrt_nonneg _)) hp.1.le hp.2.le
  | BTF =>
    rw [two_BTF, two_BTF, two_BTF, btPair_fst_loss _ _ _ _ _ hl, btPair_fst_draw _ _ _ _ _ hd,
      btPair_fst_win _ _ _ _ _ hw]
    simp only [pairC_rank, btP_rank]
    exact scale_chain hbt hp.1.le hp.2.le
  | BTP =>
    rw [two_BTP, two_BTP, two_BTP, btPair_fst_loss _ _ _ _ _ hl, btPair_fst_draw _ _ _ _ _ hd,
      btPair_fst_win _ _ _ _ _ hw]
    simp only [pairC_rank, btP_rank]
    exact scale_chain hbt hp.1.le hp.2.le
  | TMF => rw [two_TMF, two_TMF, two_TMF]; exact htm 1 (by norm_num)
  | TMP => rw [two_TMP, two_TMP, two_TMP]; exact htm 2 (by norm_num)

/-- **Draw of two teams, Plackett–Luce and Bradley–Terry: the favourite pays.**  In a drawn
two-team game the team with the larger mu gets `Ω ≤ 0`, the one with the smaller mu `Ω ≥ 0`
(equal mu: `Ω = 0`). -/
theorem C05_two_team_draw_BT_PL (K : Kind) (hK : K = .PL ∨ K = .BTF ∨ K = .BTP) (L : Leaves ℝ)
    (P : Params ℝ) (a b : TeamAgg ℝ) (ha : 0 ≤ a.sig2) (r r' : Nat) (hd : r = r') :
    (b.mu ≤ a.mu → omegaTwo K L P a b r r' ≤ 0) ∧ (a.mu ≤ b.mu → 0 ≤ omegaTwo K L P a b r r') := by
  unfold omegaTwo
  have hbt : 0 ≤ a.sig2 / pairC P.beta a b := div_nonneg ha (pairC_nonneg _ _ _)
  have hpl : 0 ≤ a.sig2 / plC P.beta [a, b] := div_nonneg ha (Real.sqrt_nonneg _)
  have hc : 0 ≤ plC P.beta [a, b] := Real.sqrt_nonneg _
  rcases hK with rfl | rfl | rfl
  · rw [two_PL_draw _ _ _ _ hd]
    simp only [plC_two_rank, plP_rank]
    exact ⟨fun h => mul_nonpos_of_nonneg_of_nonpos hpl (by linarith [plP_ge_half _ hc a b h]),
      fun h => mul_nonneg hpl (by linarith [plP_le_half _ hc a b h])⟩
  · rw [two_BTF, btPair_fst_draw _ _ _ _ _ hd]
    simp only [pairC_rank, btP_rank]
    exact ⟨fun h => mul_nonpos_of_nonneg_of_nonpos hbt (by linarith [btP_ge_half P.beta a b h]),
      fun h => mul_nonneg hbt (by linarith [btP_le_half P.beta a b h])⟩
  · rw [two_BTP, btPair_fst_draw _ _ _ _ _ hd]
    simp only [pairC_rank, btP_rank]
    exact ⟨fun h => mul_nonpos_of_nonneg_of_nonpos hbt (by linarith [btP_ge_half P.beta a b h]),
      fun h => mul_nonneg hbt (by linarith [btP_le_half P.beta a b h])⟩

/-- … strictly, when `β > 0` and the team has positive variance: the strict favourite strictly
loses, the strict underdog strictly gains. -/
theorem C05_two_team_draw_BT_PL_strict (K : Kind) (hK : K = .PL ∨ K = .BTF ∨ K = .BTP)
    (L : Leaves ℝ) (P : Params ℝ) (hβ : 0 < P.beta) (a b : TeamAgg ℝ) (ha : 0 < a.sig2)
    (hb : 0 ≤ b.sig2) (r r' : Nat) (hd : r = r') :
    (b.mu < a.mu → omegaTwo K L P a b r r' < 0) ∧ (a.mu < b.mu → 0 < omegaTwo K L P a b r r') := by
  unfold omegaTwo
  have hcb := pairC_pos P.beta hβ a b ha.le hb
  have hc := plC_two_pos P.beta hβ a b ha.le hb
  have hbt : 0 < a.sig2 / pairC P.beta a b := div_pos ha hcb
  have hpl : 0 < a.sig2 / plC P.beta [a, b] := div_pos ha hc
  rcases hK with rfl | rfl | rfl
  · rw [two_PL_draw _ _ _ _ hd]
    simp only [plC_two_rank, plP_rank]
    exact ⟨fun h => mul_neg_of_pos_of_neg hpl (by linarith [plP_gt_half _ hc a b h]),
      fun h => mul_pos hpl (by linarith [plP_lt_half _ hc a b h])⟩
  · rw [two_BTF, btPair_fst_draw _ _ _ _ _ hd]
    simp only [pairC_rank, btP_rank]
    exact ⟨fun h => mul_neg_of_pos_of_neg hbt (by linarith [btP_gt_half P.beta a b hcb h]),
      fun h => mul_pos hbt (by linarith [btP_lt_half P.beta a b hcb h])⟩
  · rw [two_BTP, btPair_fst_draw _ _ _ _ _ hd]
    simp only [pairC_rank, btP_rank]
    exact ⟨fun h => mul_neg_of_pos_of_neg hbt (by linarith [btP_gt_half P.beta a b hcb h]),
      fun h => mul_pos hbt (by linarith [btP_lt_half P.beta a b hcb h])⟩

/-- **Draw of two teams, Thurstone–Mosteller.**  With `c = cmul·√(σ_a² + σ_b² + 2β²)`
(`cmul = 1` full pairing, `2` partial pairing) and draw margin `κ/c`: the favourite gains at most
`(σ_a²/c)·(κ/c)`, the underdog loses at most that much. -/
theorem C05_two_team_draw_TM (K : Kind) (cmul : ℝ) (hK : K = .TMF ∧ cmul = 1 ∨ K = .TMP ∧ cmul = 2)
    (L : Leaves ℝ) (hL : LeafFacts L) (P : Params ℝ) (a b : TeamAgg ℝ) (ha : 0 ≤ a.sig2)
    (hκ : 0 ≤ P.kappa) (r r' : Nat) (hd : r = r') :
    let c := cmul * Real.sqrt (a.sig2 + b.sig2 + 2 * (P.beta * P.beta))
    (b.mu ≤ a.mu → omegaTwo K L P a b r r' ≤ a.sig2 / c * (P.kappa / c)) ∧
    (a.mu ≤ b.mu → -(a.sig2 / c * (P.kappa / c)) ≤ omegaTwo K L P a b r r') := by
  intro c
  have key : 0 ≤ cmul →
      (b.mu ≤ a.mu → (tmPair L cmul P.beta P.kappa P.gamma 2 { a with rank := r }
        { b with rank := r' }).1 ≤ a.sig2 / c * (P.kappa / c)) ∧
      (a.mu ≤ b.mu → -(a.sig2 / c * (P.kappa / c)) ≤
        (tmPair L cmul P.beta P.kappa P.gamma 2 { a with rank := r } { b with rank := r' }).1) := by
    intro hcm
    have hc : 0 ≤ c := mul_nonneg hcm (Real.sqrt_nonneg _)
    have hk : 0 ≤ a.sig2 / c := div_nonneg ha hc
    have ht : 0 ≤ P.kappa / c := div_nonneg hκ hc
    have hcc : cmul * pairC P.beta a b = c := rfl
    rw [tmPair_fst_draw _ _ _ _ _ _ _ _ hd]
    simp only [pairC_rank, hcc]
    have hm := hL.vt_mem ((a.mu - b.mu) / c) (P.kappa / c) ht
    constructor
    · intro h
      have hx : 0 ≤ (a.mu - b.mu) / c := div_nonneg (by linarith) hc
      exact mul_le_mul_of_nonneg_left (by linarith [hm.2]) hk
    · intro h
      have hx : (a.mu - b.mu) / c ≤ 0 := div_nonpos_of_nonpos_of_nonneg (by linarith) hc
      rw [← mul_neg]
      exact mul_le_mul_of_nonneg_left (by linarith [hm.1]) hk
  unfold omegaTwo
  rcases hK with ⟨rfl, rfl⟩ | ⟨rfl, rfl⟩
  · rw [two_TMF]; exact key (by norm_num)
  · rw [two_TMP]; exact key (by norm_num)

/-! ## 3. identical teams (full pairing) -/

/-- **Identical teams, Bradley–Terry full pairing: the better-placed twin learns more.**  If the
teams at positions `i` and `k` have the same mu and the same variance and `i` placed strictly
better than `k`, then `Ω_k ≤ Ω_i`.  (Ties elsewhere in the game are allowed.) -/
theorem C05_identical_teams_BTF (L : Leaves ℝ) (P : Params ℝ) (ts : List (TeamAgg ℝ))
    (i k : Nat) (hi : i < ts.length) (hk : k < ts.length) (hs : 0 ≤ ts[i].sig2)
    (hmu : ts[i].mu = ts[k].mu) (hsig : ts[i].sig2 = ts[k].sig2) (hr : ts[i].rank < ts[k].rank) :
    ((omegaDelta .BTF L P ts)[k]'(omegaDelta_lt L P ts hk)).1 ≤
      ((omegaDelta .BTF L P ts)[i]'(omegaDelta_lt L P ts hi)).1 := by
  rw [omegaDelta_BTF_getElem L P ts i hi, omegaDelta_BTF_getElem L P ts k hk]
  simp only [sumPairs, List.map_map]
  rw [sumL_othersOf _ ts i hi, sumL_othersOf _ ts k hk]
  simp only [Function.comp_apply, btPair_fst_self, sub_zero]
  refine sumL_map_le fun tq _ => ?_
  simp only [Function.comp_apply, btPair_fst]
  have hc : pairC P.beta ts[k] tq = pairC P.beta ts[i] tq := by unfold pairC; rw [hsig]
  have hp : btP P.beta ts[k] tq = btP P.beta ts[i] tq := by unfold btP; rw [hc, hmu]
  rw [hc, hp, ← hsig]
  exact mul_le_mul_of_nonneg_left (by linarith [btS_mono ts[i] ts[k] tq hr])
    (div_nonneg hs (pairC_nonneg _ _ _))

/-- **Identical teams, Thurstone–Mosteller full pairing: the better-placed twin learns more.**
Same statement for TMF; needs the draw margin `κ ≥ 0` and the `LeafFacts` chain
`−V(−x,t) ≤ Ṽ(x,t) ≤ V(x,t)`. -/
theorem C05_identical_teams_TMF (L : Leaves ℝ) (hL : LeafFacts L) (P : Params ℝ) (hκ : 0 ≤ P.kappa)
    (ts : List (TeamAgg ℝ))
    (i k : Nat) (hi : i < ts.length) (hk : k < ts.length) (hs : 0 ≤ ts[i].sig2)
    (hmu : ts[i].mu = ts[k].mu) (hsig : ts[i].sig2 = ts[k].sig2) (hr : ts[i].rank < ts[k].rank) :
    ((omegaDelta .TMF L P ts)[k]'(omegaDelta_lt L P ts hk)).1 ≤
      ((omegaDelta .TMF L P ts)[i]'(omegaDelta_lt L P ts hi)).1 := by
  rw [omegaDelta_TMF_getElem L P ts i hi, omegaDelta_TMF_getElem L P ts k hk]
  simp only [sumPairs, List.map_map]
  rw [sumL_othersOf _ ts i hi, sumL_othersOf _ ts k hk]
  simp only [Function.comp_apply]
  rw [tmPair_fst_self_twin L _ _ _ _ _ ts[i] ts[k] hsig]
  have := sumL_map_le (l := ts) (fun tq _ =>
    tmPair_fst_twin_le hL (Scalar.ofNat 1) P.beta P.kappa P.gamma ts.length ts[i] ts[k] tq (by simp) hκ hs hmu hsig hr)
  simp only [Function.comp_def]
  linarith

/-! ## non-vacuity -/

/-- a three-team game: team 0 alone in first place, team 2 alone in last place, a tie-free middle -/
def exGame : List (TeamAgg ℝ) :=
  [⟨25, 64, 0, [⟨0, 25, 8⟩]⟩, ⟨55, 73, 1, [⟨1, 30, 8⟩, ⟨2, 25, 3⟩]⟩, ⟨20, 49, 2, [⟨3, 20, 7⟩]⟩]

theorem exGame_sig2 : ∀ t ∈ exGame, 0 ≤ t.sig2 := by
  simp [exGame]

theorem exGame_first : ∀ (q : Nat) (hq : q < exGame.length), q ≠ 0 → exGame[0].rank < exGame[q].rank := by
  intro q hq hne
  have : q = 1 ∨ q = 2 := by simp [exGame] at hq; omega
  rcases this with rfl | rfl <;> simp [exGame]

theorem exGame_last : ∀ (q : Nat) (hq : q < exGame.length), q ≠ 2 → exGame[q].rank < exGame[2].rank := by
  intro q hq hne
  have : q = 0 ∨ q = 1 := by simp [exGame] at hq; omega
  rcases this with rfl | rfl <;> simp [exGame]

/-- the hypotheses of `C05_sole_first(_members)` are satisfiable (with the code's leaves, any model,
any parameters) -/
example (K : Kind) (P : Params ℝ) :
    List.Forall₂ (fun p p' => p.mu ≤ p'.mu) exGame[0].players
      (applyTeam P.kappa exGame[0] ((omegaDelta K codeLeaves P exGame)[0]'(omegaDelta_lt _ P _ (by simp [exGame]))).1
        ((omegaDelta K codeLeaves P exGame)[0]'(omegaDelta_lt _ P _ (by simp [exGame]))).2) :=
  C05_sole_first_members K codeLeaves leafFacts_code P exGame exGame_sig2 0 (by simp [exGame]) exGame_first

example (K : Kind) (P : Params ℝ) :
    List.Forall₂ (fun p p' => p'.mu ≤ p.mu) exGame[2].players
      (applyTeam P.kappa exGame[2] ((omegaDelta K codeLeaves P exGame)[2]'(omegaDelta_lt _ P _ (by simp [exGame]))).1
        ((omegaDelta K codeLeaves P exGame)[2]'(omegaDelta_lt _ P _ (by simp [exGame]))).2) :=
  C05_sole_last_members K codeLeaves leafFacts_code P exGame exGame_sig2 2 (by simp [exGame]) exGame_last

/-- the hypotheses of the two-team theorems are satisfiable -/
example (K : Kind) (P : Params ℝ) (hκ : 0 ≤ P.kappa) (a b : TeamAgg ℝ) (ha : 0 ≤ a.sig2) :
    omegaTwo K codeLeaves P a b 1 0 ≤ omegaTwo K codeLeaves P a b 0 0 ∧
    omegaTwo K codeLeaves P a b 0 0 ≤ omegaTwo K codeLeaves P a b 0 1 ∧
    omegaTwo K codeLeaves P a b 1 0 ≤ 0 ∧ 0 ≤ omegaTwo K codeLeaves P a b 0 1 :=
  C05_two_team_chain K codeLeaves leafFacts_code P a b ha hκ 0 1 0 0 1 0 (by omega) rfl (by omega)

/-- twins: positions 0 and 2 carry the same mu and variance, 0 placed better -/
def exTwins : List (TeamAgg ℝ) := [⟨25, 64, 0, []⟩, ⟨30, 70, 1, []⟩, ⟨25, 64, 2, []⟩]

example (P : Params ℝ) (hκ : 0 ≤ P.kappa) :
    ((omegaDelta .TMF codeLeaves P exTwins)[2]'(omegaDelta_lt _ P _ (by simp [exTwins]))).1 ≤
      ((omegaDelta .TMF codeLeaves P exTwins)[0]'(omegaDelta_lt _ P _ (by simp [exTwins]))).1 :=
  C05_identical_teams_TMF codeLeaves leafFacts_code P hκ exTwins 0 2 (by simp [exTwins])
    (by simp [exTwins]) (by simp [exTwins]) (by simp [exTwins]) (by simp [exTwins])
    (by simp [exTwins])

end OS
end
