import OSModel.Rate
/-
  The intermediate state of `rate` that the library itself exposes: the arguments with which it
  calls the `gamma` callback — (c or c_iq, number of teams, team mu, team sigma², the team's players,
  the team's dense rank) once per team (Plackett–Luce) or once per (team, opponent) pair (the others),
  in processing order.  Comparing this trace with the real callback arguments ties the model's
  INTERNALS to the code's internals: tau inflation, the rank sort and its order among tied teams,
  the dense ranks, the team aggregates, the normalisers c / c_iq, the pairing structure.
-/
namespace OS
open Scalar
variable {α : Type} [Scalar α]

structure GammaCall (α : Type) where
  c : α
  k : Nat
  mu : α
  sig2 : α
  rank : Nat
  ids : List Nat

/-- the list of team aggregates `_compute` works on inside `rate` (inflate → sort → dense ranks) -/
def prepared {ρ : Type} (P : Params α) (le : ρ → ρ → Bool) (teams : List (List (Rating α)))
    (ranks : Option (List ρ)) (o : CallOpts α) : List (TeamAgg α) :=
  let infl := inflate (resolveTau P o) teams
  match ranks with
  | none => teamAggs infl (List.range infl.length)
  | some r => teamAggs (unwind le r infl).1 (denseRanks (fun a b => !le b a) (sortedKeys le r))

def tracePairC (cmul beta : α) (ti tq : TeamAgg α) : α :=
  cmul * sqrt (ti.sig2 + tq.sig2 + ofNat 2 * (beta * beta))

def callOf (c : α) (n : Nat) (t : TeamAgg α) : GammaCall α :=
  ⟨c, n, t.mu, t.sig2, t.rank, t.players.map (·.id)⟩

/-- the gamma calls `_compute` of model `K` makes on the team list `ts`, in order -/
def gammaCalls (K : Kind) (P : Params α) (ts : List (TeamAgg α)) : List (GammaCall α) :=
  let n := ts.length
  match K with
  | .PL => let c := plC P.beta ts; ts.map (callOf c n)
  | .BTF => ts.zipIdx.flatMap (fun x => (othersOf ts x.2).map (fun q => callOf (sqrt (x.1.sig2 + q.sig2 + ofNat 2 * (P.beta * P.beta))) n x.1))
  | .BTP => ts.zipIdx.flatMap (fun x => (neighboursOf ts x.2).map (fun q => callOf (sqrt (x.1.sig2 + q.sig2 + ofNat 2 * (P.beta * P.beta))) n x.1))
  | .TMF => ts.zipIdx.flatMap (fun x => (othersOf ts x.2).map (fun q => callOf (tracePairC (ofNat 1) P.beta x.1 q) n x.1))
  | .TMP => ts.zipIdx.flatMap (fun x => (neighboursOf ts x.2).map (fun q => callOf (tracePairC (ofNat 2) P.beta x.1 q) n x.1))

/-- the gamma calls of a whole `rate` call -/
def rateTrace {ρ : Type} (K : Kind) (P : Params α) (le : ρ → ρ → Bool) (neg : ρ → ρ)
    (teams : List (List (Rating α))) (oc : Outcome ρ) (o : CallOpts α) : List (GammaCall α) :=
  let ranks : Option (List ρ) := match oc with
    | .omitted => none
    | .ranks r => some r
    | .scores s => some (s.map neg)
  gammaCalls K P (prepared P le teams ranks o)

/-- `_compute` on an explicit list of team aggregates -/
def computeOn (K : Kind) (L : Leaves α) (P : Params α) (ts : List (TeamAgg α)) : List (List (Rating α)) :=
  (ts.zip (omegaDelta K L P ts)).map (fun x => applyTeam P.kappa x.1 x.2.1 x.2.2)

theorem compute_eq_computeOn (K : Kind) (L : Leaves α) (P : Params α)
    (teams : List (List (Rating α))) (dense : List Nat) :
    compute K L P teams dense = computeOn K L P (teamAggs teams dense) := rfl

/-- `rate` evaluates `_compute` exactly on `prepared` — the list whose gamma calls `rateTrace` reports -/
theorem rateCore_via_prepared {ρ : Type} (K : Kind) (L : Leaves α) (P : Params α) (le : ρ → ρ → Bool)
    (teams : List (List (Rating α))) (ranks : Option (List ρ)) (o : CallOpts α) :
    rateCore K L P le teams ranks o =
      (let raw := match ranks with
          | none => computeOn K L P (prepared P le teams none o)
          | some r => (unwind leNat (unwind le r (inflate (resolveTau P o) teams)).2
                        (computeOn K L P (prepared P le teams (some r) o))).1
       if resolveLimit P o then clampTeams teams raw else raw) := by
  cases ranks <;> rfl

end OS
