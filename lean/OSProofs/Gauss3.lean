import OSProofs.Gauss2
import Mathlib.Tactic.Ring
import Mathlib.Tactic.Linarith
import Mathlib.Tactic.Positivity

/-!
# G8d: the variance of the standard normal truncated to `[a,b]` is at most `(b − a)²`

* `Wt_mul_Z_ge` : `(1 − (b−a)²)·Z² ≤ (bφ(b) − aφ(a))·Z + (φ(a) − φ(b))²`, i.e. `W̃ ≥ 1 − (b−a)²`.

Same technique as `Wt_mul_Z_le` (no integrals): with `Z = Φ(b) − Φ(a)`, `I₁ = φ(a) − φ(b)` constants,
`G(u) = (b−a)² Z² Φ(u) − varPrim Z I₁ u` has derivative `[(b−a)² Z² − (Z u − I₁)²]·φ(u)`, which is
non-negative on `[a,b]` because `I₁ = ξ Z` with `ξ ∈ (a,b)` (`trunc_mean_mem`), hence
`|Z u − I₁| = Z·|u − ξ| ≤ Z·(b − a)`.  So `G(a) ≤ G(b)`, which is the claim multiplied by `Z > 0`.
-/

noncomputable section
open Real Set

namespace Gauss

/-- `G(u) = (b−a)² Z² Φ(u) − ∫ᵘ (Z z − I₁)² φ(z) dz` (with the explicit antiderivative `varPrim`) -/
def wtb_G (a b : ℝ) (u : ℝ) : ℝ :=
  (b - a) ^ 2 * (Phi b - Phi a) ^ 2 * Phi u - varPrim (Phi b - Phi a) (phi a - phi b) u

theorem wtb_G_hasDerivAt (a b u : ℝ) :
    HasDerivAt (wtb_G a b)
      (((b - a) ^ 2 * (Phi b - Phi a) ^ 2 - ((Phi b - Phi a) * u - (phi a - phi b)) ^ 2) * phi u) u := by
  unfold wtb_G
  have h := ((Phi_hasDerivAt u).const_mul ((b - a) ^ 2 * (Phi b - Phi a) ^ 2)).sub
    (varPrim_hasDerivAt (Phi b - Phi a) (phi a - phi b) u)
  refine h.congr_deriv ?_
  ring

/-- on `[a,b]` the integrand `(Z u − I₁)²` is at most `(b−a)² Z²` -/
theorem wtb_sq_le {a b : ℝ} (hab : a < b) {u : ℝ} (hu : u ∈ Icc a b) :
    ((Phi b - Phi a) * u - (phi a - phi b)) ^ 2 ≤ (b - a) ^ 2 * (Phi b - Phi a) ^ 2 := by
  obtain ⟨ξ, ⟨h1, h2⟩, h⟩ := trunc_mean_mem hab
  obtain ⟨hu1, hu2⟩ := hu
  have e : (Phi b - Phi a) * u - (phi a - phi b) = (u - ξ) * (Phi b - Phi a) := by rw [h]; ring
  rw [e, mul_pow]
  apply mul_le_mul_of_nonneg_right _ (sq_nonneg _)
  apply sq_le_sq'
  · linarith
  · linarith

theorem wtb_G_monotoneOn {a b : ℝ} (hab : a < b) : MonotoneOn (wtb_G a b) (Icc a b) := by
  apply monotoneOn_of_deriv_nonneg (convex_Icc a b)
  · exact fun u _ => (wtb_G_hasDerivAt a b u).continuousAt.continuousWithinAt
  · exact fun u _ => (wtb_G_hasDerivAt a b u).differentiableAt.differentiableWithinAt
  · intro u hu
    rw [(wtb_G_hasDerivAt a b u).deriv]
    have hu' : u ∈ Icc a b := interior_subset hu
    exact mul_nonneg (sub_nonneg.mpr (wtb_sq_le hab hu')) (phi_pos u).le

/-- G8d: `Z·[(bφ(b) − aφ(a))·Z + (φ(a) − φ(b))² − (1 − (b−a)²)·Z²] = (b−a)² Z³ − Z²·∫ₐᵇ (z − m)² φ ≥ 0`:
the variance of the standard normal truncated to `[a,b]` is at most `(b − a)²`, so `W̃ ≥ 1 − (b−a)²`. -/
theorem Wt_mul_Z_ge {a b : ℝ} (hab : a < b) :
    (1 - (b - a) ^ 2) * (Phi b - Phi a) ^ 2
      ≤ (b * phi b - a * phi a) * (Phi b - Phi a) + (phi a - phi b) ^ 2 := by
  have hZ := Z_pos hab
  have hm := wtb_G_monotoneOn hab (left_mem_Icc.mpr hab.le) (right_mem_Icc.mpr hab.le) hab.le
  have key : wtb_G a b b - wtb_G a b a
      = (Phi b - Phi a) * ((b * phi b - a * phi a) * (Phi b - Phi a) + (phi a - phi b) ^ 2
          - (1 - (b - a) ^ 2) * (Phi b - Phi a) ^ 2) := by
    unfold wtb_G varPrim; ring
  have h0 : 0 ≤ (Phi b - Phi a) * ((b * phi b - a * phi a) * (Phi b - Phi a) + (phi a - phi b) ^ 2
          - (1 - (b - a) ^ 2) * (Phi b - Phi a) ^ 2) := by
    rw [← key]; linarith
  have := nonneg_of_mul_nonneg_right h0 hZ
  linarith

end Gauss
end
