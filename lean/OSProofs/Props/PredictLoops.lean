import OSProofs.PredictLoops
import OSProofs.RealInst
import OSProofs.CodeShaped
import OSProofs.Props.Loops

/-!
# The closed forms of `Predict.lean` and `Sort.lean` are justified by proof

`OSModel/PredictLoops.lean` transliterates `predict_win`, `predict_draw`, `predict_rank` (the same text in
all five model files) and `_unwind` statement by statement: `itertools.permutations(teams, 2)` as the
double index loop of the itertools documentation, the `zip_longest(*[iter(x)] * (n - 1))` idiom as `n - 1`
references to one iterator, `self._calculate_team_ratings([pair_a])` as the literal
`_calculate_team_ratings` (called without ranks, `reduce` without initial value), `max(ranks)`,
`abs(_ - max_ordinal) + 1` on Python ints, `_matrix_transpose`, `zip`, `.sort(key=…)`.
This file proves each of them equal to the closed form every other theorem of the project is about.

* `permutations2_eq_orderedPairs`, `zipLongestIter_eq_chunk`: the two itertools idioms.
* `predictWinLoop_eq`, `predictDrawLoop_eq`, `predictRankLoop_eq`: for EVERY scalar type, under the one
  hypothesis `FirstPlayerZeroAdd` on every team (`0 + mu = mu` and `0 + sigma² = sigma²` for the FIRST
  player of the team: the code starts its `reduce` from the first player, the model's `sumL` from `0`);
  `predictRankLoop_eq` also needs the literal `_rank_data` to agree with its closed form on the one list
  it is applied to (true over ℝ for every list: `rankDataCode_eq`).  No hypothesis on the number of teams.
* `predictWinLoop_eq_real`, `predictDrawLoop_eq_real`, `predictRankLoop_eq_real`: unconditional over ℝ.
* `pl2_hypothesis_needed`: the hypothesis cannot be dropped for an arbitrary scalar type.
* `unwindCode_eq`: `_unwind`, no hypothesis.
-/

namespace OS
open Scalar

/-- **`itertools.permutations(xs, 2)`** (all index pairs `(i, j)` with `i ≠ j`, `i` in the outer loop,
`j` in the inner loop, both ascending) **yields exactly the list `orderedPairs xs`, in the same order.** -/
theorem permutations2_eq_orderedPairs {β : Type} (xs : List β) :
    permutations2 xs = orderedPairs xs := pl2_permutations2_eq xs

/-- **`zip_longest(*[iter(xs)] * k)`** (`k` references to ONE iterator; every output tuple takes the next
`k` items; `None` pads the last tuple) **is `chunk k xs`, with no `None` anywhere, whenever `len(xs)` is a
multiple of `k`.**  (In general it is `chunk k xs` with the last group padded: `pl2_zipLongestIter_eq_pad`.) -/
theorem zipLongestIter_eq_chunk {β : Type} (k : Nat) (xs : List β) (h : xs.length % k = 0) :
    zipLongestIter k xs = (chunk k xs).map (fun c => c.map some) :=
  pl2_zipLongestIter_eq_chunk k xs h

example : ([1, 2, 3, 4, 5, 6] : List Nat).length % 2 = 0 := by decide

section
variable {α : Type} [Scalar α]

/-- **`predict_win`, statement by statement, equals the closed form `predictWin`** — two-team special case
and general case alike, any number of teams — for every scalar type, provided every team's first player
satisfies `0 + mu = mu` and `0 + sigma² = sigma²` (`FirstPlayerZeroAdd`; the code's `reduce` starts from
the first player, `sumL` from `0`).  Same operations in the same order otherwise: bit for bit at `Float`
(with the plain left-to-right `sum` of CPython ≤ 3.11). -/
theorem predictWinLoop_eq (beta : α) (teams : List (List (Rating α)))
    (hz : ∀ team ∈ teams, FirstPlayerZeroAdd team) :
    predictWinLoop beta teams = predictWin beta teams := by
  by_cases h2 : teams.length = 2
  · -- the two-team special case
    match teams, h2 with
    | [t0, t1], _ =>
      rw [pl2_predictWin_two]
      unfold predictWinLoop
      simp only [List.length_cons, List.length_nil, if_true]
      rw [pl2_calc_two t0 t1 (hz _ (by simp)) (hz _ (by simp))]
      simp only [List.getD_cons_zero, List.getD_cons_succ, pl2_teamAgg_mu t1 1, pl2_teamAgg_sig2 t1 1,
        pairDenom, pl2_playerCount_two]
  · rw [pl2_predictWin_general beta teams h2]
    unfold predictWinLoop
    simp only [h2, if_false]
    rw [pl2_pairLoop (fun mu_a sigma_a mu_b sigma_b =>
      Phi ((mu_a - mu_b) / sqrt (ofNat teams.length * (beta * beta) + sigma_a + sigma_b))) teams hz]
    have hmod := pl2_pairs_mod (aggs teams) (fun ab =>
      Phi ((ab.1.mu - ab.2.mu) / sqrt (ofNat teams.length * (beta * beta) + ab.1.sig2 + ab.2.sig2)))
    rw [pl2_length_aggs] at hmod
    exact pl2_regroup _ _ _ hmod

/-- **`predict_draw`, statement by statement, equals the closed form `predictDraw`**, for every scalar
type, under the same hypothesis on the first player of every team. -/
theorem predictDrawLoop_eq (beta : α) (teams : List (List (Rating α)))
    (hz : ∀ team ∈ teams, FirstPlayerZeroAdd team) :
    predictDrawLoop beta teams = predictDraw beta teams := by
  unfold predictDrawLoop
  simp only []
  rw [pl2_pairLoop (fun mu_a sigma_a mu_b sigma_b =>
    Phi ((sqrt (ofNat ((teams.map (fun t => t.length)).foldl (· + ·) 0)) * beta
            * PhiInv ((ofNat 1 + ofNat 1 / ofNat ((teams.map (fun t => t.length)).foldl (· + ·) 0))
                / ofNat 2) - mu_a + mu_b)
          / sqrt (ofNat teams.length * (beta * beta) + sigma_a + sigma_b))
      - Phi ((mu_a - mu_b - sqrt (ofNat ((teams.map (fun t => t.length)).foldl (· + ·) 0)) * beta
            * PhiInv ((ofNat 1 + ofNat 1 / ofNat ((teams.map (fun t => t.length)).foldl (· + ·) 0))
                / ofNat 2))
          / sqrt (ofNat teams.length * (beta * beta) + sigma_a + sigma_b))) teams hz]
  rw [apply_ite (ofNat : Nat → α)]
  rfl

/-- **`predict_rank`, statement by statement** (with the literal `_rank_data`, `max(ranks)`,
`abs(_ - max_ordinal) + 1` on Python ints, the final `zip`) **equals the closed form `predictRank`**, for
every scalar type, under the hypothesis on first players and provided the literal `_rank_data` agrees
with its closed form on the list of probabilities (it does for every list over ℝ). -/
theorem predictRankLoop_eq (beta : α) (teams : List (List (Rating α)))
    (hz : ∀ team ∈ teams, FirstPlayerZeroAdd team)
    (hrd : rankDataCode (predictRankProbs beta teams) = rankData (predictRankProbs beta teams)) :
    predictRankLoop beta teams = predictRank beta teams := by
  unfold predictRankLoop
  simp only []
  rw [pl2_pairLoop (fun mu_a sigma_a mu_b sigma_b =>
    Phi ((mu_a - mu_b - sqrt (ofNat ((teams.map (fun t => t.length)).foldl (· + ·) 0)) * beta
            * PhiInv ((ofNat 1 + ofNat 1 / ofNat ((teams.map (fun t => t.length)).foldl (· + ·) 0))
                / ofNat 2))
          / sqrt (ofNat teams.length * (beta * beta) + sigma_a + sigma_b))) teams hz]
  have hmod := pl2_pairs_mod (aggs teams) (fun ab =>
    Phi ((ab.1.mu - ab.2.mu - sqrt (ofNat ((teams.map (fun t => t.length)).foldl (· + ·) 0)) * beta
            * PhiInv ((ofNat 1 + ofNat 1 / ofNat ((teams.map (fun t => t.length)).foldl (· + ·) 0))
                / ofNat 2))
          / sqrt (ofNat teams.length * (beta * beta) + ab.1.sig2 + ab.2.sig2)))
  rw [pl2_length_aggs] at hmod
  rw [pl2_regroup _ _ _ hmod, pl2_reverse_ranks]
  show ((rankDataCode (predictRankProbs beta teams)).map
      (fun x => listMaxNat (rankDataCode (predictRankProbs beta teams)) - x + 1)).zip
        (predictRankProbs beta teams) = _
  rw [hrd]
  rfl

end

/-- **`_unwind(tenet, objects)`, statement by statement** (`matrix`, `_matrix_transpose`, `zip`, the stable
`.sort(key=item[0])`, the two comprehensions) **equals `unwind`**, for every comparison `le`, every key and
object type, every pair of lists.  (When `tenet` is shorter than `objects` Python raises `IndexError`; both
sides then keep the rows that exist.) -/
theorem unwindCode_eq {κ β : Type} (le : κ → κ → Bool) (tenet : List κ) (objs : List β) :
    unwindCode le tenet objs = unwind le tenet objs := by
  unfold unwindCode unwind sortByKey
  simp only []
  rw [pl2_matrix_eq]
  cases hm : tenet.zip objs.zipIdx with
  | nil => simp [matrixTranspose2]
  | cons row rows =>
    simp only [matrixTranspose2]
    rw [pl2_zip_fst_snd, List.map_map, List.map_map]
    rfl

/-! ## over ℝ: no hypothesis -/

theorem pl2_firstPlayer_real (team : List (Rating ℝ)) : FirstPlayerZeroAdd team :=
  fun _ _ => ⟨lp_hzero_real _, lp_hzero_real _⟩

/-- over ℝ the literal `predict_win` IS `predictWin`, for every input -/
theorem predictWinLoop_eq_real (beta : ℝ) (teams : List (List (Rating ℝ))) :
    predictWinLoop beta teams = predictWin beta teams :=
  predictWinLoop_eq beta teams (fun t _ => pl2_firstPlayer_real t)

/-- over ℝ the literal `predict_draw` IS `predictDraw`, for every input -/
theorem predictDrawLoop_eq_real (beta : ℝ) (teams : List (List (Rating ℝ))) :
    predictDrawLoop beta teams = predictDraw beta teams :=
  predictDrawLoop_eq beta teams (fun t _ => pl2_firstPlayer_real t)

/-- over ℝ the literal `predict_rank` (literal `_rank_data` included) IS `predictRank`, for every input -/
theorem predictRankLoop_eq_real (beta : ℝ) (teams : List (List (Rating ℝ))) :
    predictRankLoop beta teams = predictRank beta teams :=
  predictRankLoop_eq beta teams (fun t _ => pl2_firstPlayer_real t) (rankDataCode_eq _)

/-! ## the hypothesis cannot be dropped

A scalar type in which `ofNat 0 + a ≠ a` (the integers with `ofNat n = n + 1`): the literal `predict_win`
(whose `reduce` never adds a `0`) and the closed form (whose `sumL` does) differ on two one-player teams. -/

/-- the integers with a shifted `ofNat`; `sqrt`, `Phi`, … are the identity -/
@[reducible] def pl2_shifted : Scalar Int :=
  { ofNat := fun n => (n : Int) + 1, sqrt := id, exp := id, Phi := id, phi := id, PhiInv := id,
    decLt := fun a b => inferInstanceAs (Decidable (a < b)),
    decLe := fun a b => inferInstanceAs (Decidable (a ≤ b)) }

theorem pl2_hypothesis_needed :
    @predictWinLoop Int pl2_shifted 1 [[⟨0, 100, 1⟩], [⟨1, 0, 1⟩]]
      ≠ @predictWin Int pl2_shifted 1 [[⟨0, 100, 1⟩], [⟨1, 0, 1⟩]] := by
  decide

/-! ## The hypotheses are satisfiable, and the literal definitions compute what Python computes

`#guard` evaluates the definitions at `Float` (compile-time check, no axiom).  The expected values are the
outputs of the pinned Python library (CPython 3.12.1, whose `sum` is compensated: agreement to rounding):
```
m = PlackettLuce(); mk = lambda mu, s: m.rating(mu=mu, sigma=s)
T = [[mk(25.0, 8.0), mk(30.0, 4.0)], [mk(27.0, 6.0)], [mk(20.0, 7.5), mk(22.0, 3.0), mk(31.0, 9.0)], [mk(24.0, 5.0)]]
m.predict_win(T); m.predict_draw(T); m.predict_rank(T); m.predict_win(T[:2]); …
``` -/

/-- the hypotheses of the three equality theorems hold for every game over ℝ -/
example (beta : ℝ) (teams : List (List (Rating ℝ))) :
    (∀ team ∈ teams, FirstPlayerZeroAdd team) ∧
      rankDataCode (predictRankProbs beta teams) = rankData (predictRankProbs beta teams) :=
  ⟨fun t _ => pl2_firstPlayer_real t, rankDataCode_eq _⟩

private def pl2_beta : Float := 25.0 / 6.0

private def pl2_T : List (List (Rating Float)) :=
  [[⟨0, 25.0, 8.0⟩, ⟨1, 30.0, 4.0⟩], [⟨2, 27.0, 6.0⟩], [⟨3, 20.0, 7.5⟩, ⟨4, 22.0, 3.0⟩, ⟨5, 31.0, 9.0⟩],
   [⟨6, 24.0, 5.0⟩]]

private def pl2_bits (l : List Float) : List UInt64 := l.map (·.toBits)

private def pl2_close (l e : List Float) : Bool :=
  l.length == e.length && (l.zip e).all (fun p => (p.1 - p.2).abs < 1e-12)

-- four teams: the loop versions equal the closed forms bit for bit
#guard pl2_bits (predictWinLoop pl2_beta pl2_T) == pl2_bits (predictWin pl2_beta pl2_T)
#guard (predictDrawLoop pl2_beta pl2_T).toBits == (predictDraw pl2_beta pl2_T).toBits
#guard (predictRankLoop pl2_beta pl2_T).map (fun p => (p.1, p.2.toBits))
  == (predictRank pl2_beta pl2_T).map (fun p => (p.1, p.2.toBits))
-- two teams (the special case of `predict_win`) and three teams
#guard [2, 3].all (fun k =>
  pl2_bits (predictWinLoop pl2_beta (pl2_T.take k)) == pl2_bits (predictWin pl2_beta (pl2_T.take k)) &&
  (predictDrawLoop pl2_beta (pl2_T.take k)).toBits == (predictDraw pl2_beta (pl2_T.take k)).toBits &&
  (predictRankLoop pl2_beta (pl2_T.take k)).map (fun p => (p.1, p.2.toBits))
    == (predictRank pl2_beta (pl2_T.take k)).map (fun p => (p.1, p.2.toBits)))
-- the values are Python's
#guard pl2_close (predictWinLoop pl2_beta pl2_T)
  [0.3530430466342251, 0.10422513395522026, 0.474955804788076, 0.06777601462247862]
#guard ((predictDrawLoop pl2_beta pl2_T) - 0.03512539293302167).abs < 1e-12
#guard (predictRankLoop pl2_beta pl2_T).map (·.1) == [2, 3, 1, 4]
#guard pl2_close ((predictRankLoop pl2_beta pl2_T).map (·.2))
  [0.34675451382308253, 0.09175149968683466, 0.4700302883797827, 0.05633830517727837]
#guard pl2_close (predictWinLoop pl2_beta (pl2_T.take 2)) [0.9846024879599927, 0.015397512040007277]
#guard ((predictDrawLoop pl2_beta (pl2_T.take 2)) - 0.03133071876072546).abs < 1e-12
#guard (predictRankLoop pl2_beta (pl2_T.take 2)).map (·.1) == [1, 2]
#guard pl2_close ((predictRankLoop pl2_beta (pl2_T.take 2)).map (·.2)) [0.9786946929822499, 0.00563994763738736]
-- the itertools idioms and `_unwind` on Python's own examples
#guard permutations2 [1, 2, 3] == [(1, 2), (1, 3), (2, 1), (2, 3), (3, 1), (3, 2)]
#guard zipLongestIter 2 [1, 2, 3, 4, 5] == [[some 1, some 2], [some 3, some 4], [some 5, none]]
#guard unwindCode leNat [3, 1, 2, 1] ["a", "b", "c", "d"] == (["b", "d", "c", "a"], [1, 3, 2, 0])
#guard unwindCode leNat [3, 1, 2, 1, 0] ["a", "b", "c", "d"] == (["b", "d", "c", "a"], [1, 3, 2, 0])
#guard unwindCode leNat ([] : List Nat) ([] : List String) == ([], [])
-- `mu = -0.0` for a team's first player is the one `float` for which `FirstPlayerZeroAdd` fails:
-- the literal `_calculate_team_ratings` keeps `-0.0`, `teamAgg` gives `+0.0`
#guard ((calcTeamRatingsNoRanks [[(⟨0, -0.0, 1.0⟩ : Rating Float)]]).map (·.mu.toBits)) == [(-0.0 : Float).toBits]
#guard ((aggs [[(⟨0, -0.0, 1.0⟩ : Rating Float)]]).map (·.mu.toBits)) == [(0.0 : Float).toBits]

end OS
