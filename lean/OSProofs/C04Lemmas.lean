import OSProofs.Props.C01
import OSProofs.Props.C04
import OSProofs.C02Lemmas
import OSProofs.GammaLemmas
import Mathlib.Data.List.Forall2
import Mathlib.Logic.Equiv.Fin.Basic

/-!
# Helper lemmas for C04b, part A: re-indexing the closed forms

The closed forms of `OSProofs/Spec.lean` are `Finset` sums over the team index `Fin n`.
Re-indexing the game along a bijection `e : Fin m ≃ Fin n` re-indexes the result: the sums over all
teams (`c`), the filtered sums (`S_q`, `Ω_i`, `Δ_i`), the cardinalities (`A_q`) and the sums over
`q ≠ i` are invariant under a change of summation variable.
-/

noncomputable section
namespace OS
open Finset

/-- the game whose team `i` is team `e i` of `G` -/
def Game.eqv_comp {m n : ℕ} (G : Game n) (e : Fin m → Fin n) : Game m :=
  { θ := fun i => G.θ (e i), s2 := fun i => G.s2 (e i), r := fun i => G.r (e i) }

section reindex
variable {m n : ℕ} (G : Game n) (e : Fin m ≃ Fin n) (β : ℝ)

/-! ### Plackett–Luce -/

theorem eqv_PL_c : SpecPL.c (G.eqv_comp e) β = SpecPL.c G β := by
  unfold SpecPL.c
  congr 1
  exact Equiv.sum_comp e (fun i => G.s2 i + β ^ 2)

theorem eqv_PL_e (i : Fin m) : SpecPL.e (G.eqv_comp e) β i = SpecPL.e G β (e i) := by
  unfold SpecPL.e
  rw [eqv_PL_c]
  rfl

theorem eqv_PL_S (q : Fin m) : SpecPL.S (G.eqv_comp e) β q = SpecPL.S G β (e q) := by
  unfold SpecPL.S
  refine Finset.sum_equiv e ?_ ?_
  · intro j
    simp only [mem_filter, mem_univ, true_and]
    exact Iff.rfl
  · intro j _
    exact eqv_PL_e G e β j

theorem eqv_PL_A (q : Fin m) : SpecPL.A (G.eqv_comp e) q = SpecPL.A G (e q) := by
  unfold SpecPL.A
  refine Finset.card_equiv e ?_
  intro j
  simp only [mem_filter, mem_univ, true_and]
  exact Iff.rfl

theorem eqv_PL_p (i q : Fin m) : SpecPL.p (G.eqv_comp e) β i q = SpecPL.p G β (e i) (e q) := by
  unfold SpecPL.p
  rw [eqv_PL_e, eqv_PL_S]

theorem eqv_PL_Ω (i : Fin m) : SpecPL.Ω (G.eqv_comp e) β i = SpecPL.Ω G β (e i) := by
  unfold SpecPL.Ω
  rw [eqv_PL_c]
  congr 1
  refine Finset.sum_equiv e ?_ ?_
  · intro j
    simp only [mem_filter, mem_univ, true_and]
    exact Iff.rfl
  · intro q _
    rw [eqv_PL_p, eqv_PL_A]
    simp only [EmbeddingLike.apply_eq_iff_eq]

theorem eqv_PL_Δ (γ : ℝ → Fin n → ℝ) (i : Fin m) :
    SpecPL.Δ (G.eqv_comp e) β (fun c j => γ c (e j)) i = SpecPL.Δ G β γ (e i) := by
  unfold SpecPL.Δ
  rw [eqv_PL_c]
  congr 2
  refine Finset.sum_equiv e ?_ ?_
  · intro j
    simp only [mem_filter, mem_univ, true_and]
    exact Iff.rfl
  · intro q _
    rw [eqv_PL_p, eqv_PL_A]

/-! ### full pairing: sums over `q ≠ i` -/

theorem eqv_sum_ne {M : Type} [AddCommMonoid M] (f : Fin n → M) (i : Fin m) :
    ∑ q ∈ univ.filter (fun q => q ≠ i), f (e q) = ∑ q ∈ univ.filter (fun q => q ≠ e i), f q := by
  refine Finset.sum_equiv e ?_ (fun _ _ => rfl)
  intro j
  simp only [mem_filter, mem_univ, true_and, ne_eq, EmbeddingLike.apply_eq_iff_eq]

theorem eqv_BT_ΩF (i : Fin m) : SpecBT.ΩF (G.eqv_comp e) β i = SpecBT.ΩF G β (e i) :=
  eqv_sum_ne e (fun q => SpecBT.ω G β (e i) q) i

theorem eqv_BT_ΔF (γ : ℝ → Fin n → ℝ) (i : Fin m) :
    SpecBT.ΔF (G.eqv_comp e) β (fun c j => γ c (e j)) i = SpecBT.ΔF G β γ (e i) :=
  eqv_sum_ne e (fun q => SpecBT.δ G β γ (e i) q) i

theorem eqv_TM_ΩF (L : Leaves ℝ) (κ : ℝ) (i : Fin m) :
    SpecTM.ΩF (G.eqv_comp e) L β κ i = SpecTM.ΩF G L β κ (e i) :=
  eqv_sum_ne e (fun q => SpecTM.ω G L 1 β κ (e i) q) i

theorem eqv_TM_ΔF (L : Leaves ℝ) (κ : ℝ) (γ : ℝ → Fin n → ℝ) (i : Fin m) :
    SpecTM.ΔF (G.eqv_comp e) L β κ (fun c j => γ c (e j)) i = SpecTM.ΔF G L β κ γ (e i) :=
  eqv_sum_ne e (fun q => SpecTM.δ G L 1 β κ γ (e i) q) i

/-! ### partial pairing: sums over the ladder neighbours, for a neighbour-preserving `e` -/

theorem eqv_sum_nbrs {M : Type} [AddCommMonoid M]
    (he : ∀ i q : Fin m, q ∈ nbrs i ↔ e q ∈ nbrs (e i)) (f : Fin n → M) (i : Fin m) :
    ∑ q ∈ nbrs i, f (e q) = ∑ q ∈ nbrs (e i), f q :=
  Finset.sum_equiv e (he i) (fun _ _ => rfl)

theorem eqv_BT_ΩP (he : ∀ i q : Fin m, q ∈ nbrs i ↔ e q ∈ nbrs (e i)) (i : Fin m) :
    SpecBT.ΩP (G.eqv_comp e) β i = SpecBT.ΩP G β (e i) :=
  eqv_sum_nbrs e he (fun q => SpecBT.ω G β (e i) q) i

theorem eqv_BT_ΔP (he : ∀ i q : Fin m, q ∈ nbrs i ↔ e q ∈ nbrs (e i)) (γ : ℝ → Fin n → ℝ)
    (i : Fin m) :
    SpecBT.ΔP (G.eqv_comp e) β (fun c j => γ c (e j)) i = SpecBT.ΔP G β γ (e i) :=
  eqv_sum_nbrs e he (fun q => SpecBT.δ G β γ (e i) q) i

theorem eqv_TM_ΩP (he : ∀ i q : Fin m, q ∈ nbrs i ↔ e q ∈ nbrs (e i)) (L : Leaves ℝ) (κ : ℝ)
    (i : Fin m) :
    SpecTM.ΩP (G.eqv_comp e) L β κ i = SpecTM.ΩP G L β κ (e i) :=
  eqv_sum_nbrs e he (fun q => SpecTM.ω G L 2 β κ (e i) q) i

theorem eqv_TM_ΔP (he : ∀ i q : Fin m, q ∈ nbrs i ↔ e q ∈ nbrs (e i)) (L : Leaves ℝ) (κ : ℝ)
    (γ : ℝ → Fin n → ℝ) (i : Fin m) :
    SpecTM.ΔP (G.eqv_comp e) L β κ (fun c j => γ c (e j)) i = SpecTM.ΔP G L β κ γ (e i) :=
  eqv_sum_nbrs e he (fun q => SpecTM.δ G L 2 β κ γ (e i) q) i

end reindex

/-! ### all five models at once -/

/-- the models whose `(Ω_i, Δ_i)` are sums over ALL teams / all other teams -/
def Kind.eqv_full : Kind → Prop
  | .PL | .BTF | .TMF => True
  | .BTP | .TMP => False

/-- `specOmegaDelta` as a function of the index-form game and gamma table only -/
def eqv_specOD (K : Kind) (L : Leaves ℝ) (β κ : ℝ) {n : ℕ} (G : Game n) (γ : ℝ → Fin n → ℝ)
    (i : Fin n) : ℝ × ℝ :=
  match K with
  | .PL => (SpecPL.Ω G β i, SpecPL.Δ G β γ i)
  | .BTF => (SpecBT.ΩF G β i, SpecBT.ΔF G β γ i)
  | .BTP => (SpecBT.ΩP G β i, SpecBT.ΔP G β γ i)
  | .TMF => (SpecTM.ΩF G L β κ i, SpecTM.ΔF G L β κ γ i)
  | .TMP => (SpecTM.ΩP G L β κ i, SpecTM.ΔP G L β κ γ i)

theorem eqv_specOmegaDelta_eq_specOD (K : Kind) (L : Leaves ℝ) (P : Params ℝ) (ts : List (TeamAgg ℝ))
    (i : Fin ts.length) :
    specOmegaDelta K L P ts i
      = eqv_specOD K L P.beta P.kappa (gameOf ts) (gammaOf P.gamma ts) i := by
  cases K <;> rfl

/-- re-indexing the game along `e` re-indexes `(Ω, Δ)`: for the full models any bijection `e`, for
the partial-pairing models a bijection that preserves the ladder neighbours -/
theorem eqv_specOD_comp (K : Kind) (L : Leaves ℝ) (β κ : ℝ) {m n : ℕ} (G : Game n)
    (γ : ℝ → Fin n → ℝ) (e : Fin m ≃ Fin n)
    (hK : K.eqv_full ∨ ∀ i q : Fin m, q ∈ nbrs i ↔ e q ∈ nbrs (e i)) (i : Fin m) :
    eqv_specOD K L β κ (G.eqv_comp e) (fun c j => γ c (e j)) i = eqv_specOD K L β κ G γ (e i) := by
  cases K
  · exact Prod.ext (eqv_PL_Ω G e β i) (eqv_PL_Δ G e β γ i)
  · exact Prod.ext (eqv_BT_ΩF G e β i) (eqv_BT_ΔF G e β γ i)
  · have he := hK.resolve_left (fun h => h)
    exact Prod.ext (eqv_BT_ΩP G e β he i) (eqv_BT_ΔP G e β he γ i)
  · exact Prod.ext (eqv_TM_ΩF G e β L κ i) (eqv_TM_ΔF G e β L κ γ i)
  · have he := hK.resolve_left (fun h => h)
    exact Prod.ext (eqv_TM_ΩP G e β he L κ i) (eqv_TM_ΔP G e β he L κ γ i)

/-- the gamma callback is called with the same result for the two teams, whatever `c` and the
number of teams: `gamma(c, n, t.mu, t.σ², t.team, t.rank) = gamma(c, n, t'.mu, t'.σ², t'.team, t'.rank)` -/
def gam_SameCalls (g : GammaFn ℝ) (t t' : TeamAgg ℝ) : Prop :=
  ∀ (c : ℝ) (n : ℕ), GammaAt g c n t = GammaAt g c n t'

theorem gam_sameCalls_refl (g : GammaFn ℝ) (t : TeamAgg ℝ) : gam_SameCalls g t t := fun _ _ => rfl

theorem gam_sameCalls_of_eq (g : GammaFn ℝ) {t t' : TeamAgg ℝ} (h : t = t') : gam_SameCalls g t t' :=
  h ▸ gam_sameCalls_refl g t

/-- a tagged member reads only mu (not even that), variance and rank -/
theorem gam_sameCalls_tagged {g : GammaFn ℝ} (hg : g.Tagged) {t t' : TeamAgg ℝ}
    (hs2 : t.sig2 = t'.sig2) (hrk : t.rank = t'.rank) : gam_SameCalls g t t' := by
  intro c n
  unfold GammaAt
  rw [hs2, hrk]
  exact gam_tagged_mu_team hg c n _ _ _ _ _ _

/-- a callback that does not depend on the order of the players -/
theorem gam_sameCalls_perm {g : GammaFn ℝ} (hg : GammaPermInv g) {t t' : TeamAgg ℝ}
    (hmu : t.mu = t'.mu) (hs2 : t.sig2 = t'.sig2) (hrk : t.rank = t'.rank)
    (hp : t.players.Perm t'.players) : gam_SameCalls g t t' := by
  intro c n
  unfold GammaAt
  rw [hmu, hs2, hrk]
  exact hg c n _ _ _ _ _ hp

/-- list form: if team `i` of `ts'` has the mu, variance and rank of team `e i` of `ts` (and the gamma
callback returns the same for both), then it gets the `(Ω, Δ)` of team `e i` -/
theorem eqv_specOmegaDelta_reindex (K : Kind) (L : Leaves ℝ) (P : Params ℝ)
    (ts ts' : List (TeamAgg ℝ)) (e : Fin ts'.length ≃ Fin ts.length)
    (hmu : ∀ i, ts'[i].mu = ts[e i].mu) (hs2 : ∀ i, ts'[i].sig2 = ts[e i].sig2)
    (hrk : ∀ i, ts'[i].rank = ts[e i].rank)
    (hgam : ∀ i, gam_SameCalls P.gamma ts'[i] ts[e i])
    (hK : K.eqv_full ∨ ∀ i q : Fin ts'.length, q ∈ nbrs i ↔ e q ∈ nbrs (e i)) (i : Fin ts'.length) :
    specOmegaDelta K L P ts' i = specOmegaDelta K L P ts (e i) := by
  have hlen : ts'.length = ts.length := by simpa using Fintype.card_congr e
  have hG : gameOf ts' = (gameOf ts).eqv_comp e := by
    unfold gameOf Game.eqv_comp
    congr 1
    · funext i; exact hmu i
    · funext i; exact hs2 i
    · funext i; exact hrk i
  have hγ : gammaOf P.gamma ts' = fun c j => gammaOf P.gamma ts c (e j) := by
    funext c j
    unfold gammaOf
    exact (hgam j c ts'.length).trans
      (congrArg (fun k => GammaAt P.gamma c k ts[e j]) hlen)
  rw [eqv_specOmegaDelta_eq_specOD, eqv_specOmegaDelta_eq_specOD, hG, hγ]
  exact eqv_specOD_comp K L P.beta P.kappa (gameOf ts) (gammaOf P.gamma ts) e hK i

/-- `finCongr` preserves the ladder neighbours -/
theorem eqv_finCongr_nbrs {m n : ℕ} (h : m = n) (i q : Fin m) :
    q ∈ nbrs i ↔ finCongr h q ∈ nbrs (finCongr h i) := by
  simp [nbrs]

end OS
end

noncomputable section
namespace OS

/-! ### entries of `omegaDelta` -/

/-- entry `j` of `omegaDelta` is the closed form for team `j` -/
theorem eqv_omegaDelta_getElem (K : Kind) (L : Leaves ℝ) (P : Params ℝ) (ts : List (TeamAgg ℝ))
    (j : ℕ) (h : j < ts.length) :
    (omegaDelta K L P ts)[j]'(by rw [omegaDelta_length]; exact h)
      = specOmegaDelta K L P ts ⟨j, h⟩ := by
  simp only [C01_omegaDelta, List.getElem_ofFn]

/-- `omegaDelta` of a list whose team `i` looks like team `e i` of `ts` (same mu, variance, rank) -/
theorem eqv_omegaDelta_reindex (K : Kind) (L : Leaves ℝ) (P : Params ℝ)
    (ts ts' : List (TeamAgg ℝ)) (e : Fin ts'.length ≃ Fin ts.length)
    (hmu : ∀ i, ts'[i].mu = ts[e i].mu) (hs2 : ∀ i, ts'[i].sig2 = ts[e i].sig2)
    (hrk : ∀ i, ts'[i].rank = ts[e i].rank)
    (hgam : ∀ i, gam_SameCalls P.gamma ts'[i] ts[e i])
    (hK : K.eqv_full ∨ ∀ i q : Fin ts'.length, q ∈ nbrs i ↔ e q ∈ nbrs (e i)) :
    omegaDelta K L P ts'
      = List.ofFn (fun i : Fin ts'.length =>
          (omegaDelta K L P ts)[(e i).1]'(by rw [omegaDelta_length]; exact (e i).2)) := by
  rw [C01_omegaDelta K L P ts']
  congr 1
  funext i
  rw [eqv_omegaDelta_getElem K L P ts (e i).1 (e i).2]
  exact eqv_specOmegaDelta_reindex K L P ts ts' e hmu hs2 hrk hgam hK i

/-! ### players within a team in a different order -/

/-- what `omegaDelta` reads of a team: its mu, variance and rank (not the roster) -/
def TeamAgg.eqv_key (t : TeamAgg ℝ) : ℝ × ℝ × ℕ := (t.mu, t.sig2, t.rank)

theorem eqv_omegaDelta_congr (K : Kind) (L : Leaves ℝ) (P : Params ℝ) (ts ts' : List (TeamAgg ℝ))
    (h : ts.map TeamAgg.eqv_key = ts'.map TeamAgg.eqv_key)
    (hgam : List.Forall₂ (gam_SameCalls P.gamma) ts ts') :
    omegaDelta K L P ts = omegaDelta K L P ts' := by
  have hlen : ts'.length = ts.length := by simpa using (congrArg List.length h).symm
  have hk : ∀ i : Fin ts'.length, ts'[i].eqv_key = (ts[finCongr hlen i]).eqv_key := by
    intro i
    have h1 : (ts.map TeamAgg.eqv_key)[i.1]'(by rw [List.length_map, ← hlen]; exact i.2) = (ts'.map TeamAgg.eqv_key)[i.1]'(by simp) := by
      simp only [h]
    simpa using h1.symm
  rw [eqv_omegaDelta_reindex K L P ts ts' (finCongr hlen)
    (fun i => congrArg (·.1) (hk i)) (fun i => congrArg (·.2.1) (hk i))
    (fun i => congrArg (·.2.2) (hk i))
    (fun i c n => ((hgam.get (hlen ▸ i.2) i.2) c n).symm) (Or.inr (eqv_finCongr_nbrs hlen))]
  apply List.ext_getElem
  · simp [omegaDelta_length, hlen]
  · intro k h1 h2
    simp

theorem eqv_teamAggs_forall₂ {teams teams' : List (List (Rating ℝ))}
    (h : List.Forall₂ List.Perm teams teams') (dense : List ℕ) :
    List.Forall₂ (fun t t' : TeamAgg ℝ => t.mu = t'.mu ∧ t.sig2 = t'.sig2 ∧ t.rank = t'.rank ∧
        t.players.Perm t'.players) (teamAggs teams dense) (teamAggs teams' dense) := by
  induction h generalizing dense with
  | nil => simp [teamAggs]
  | @cons t t' ts ts' hp _ ih =>
    cases dense with
    | nil => simp [teamAggs]
    | cons d ds =>
      have := ih ds
      simp only [teamAggs] at this
      simp only [teamAggs, List.zip_cons_cons, List.map_cons]
      exact List.Forall₂.cons
        ⟨(C04_teamAgg_perm hp d).1, (C04_teamAgg_perm hp d).2, rfl, hp⟩ this

theorem eqv_teamAggs_key {teams teams' : List (List (Rating ℝ))}
    (h : List.Forall₂ List.Perm teams teams') (dense : List ℕ) :
    (teamAggs teams dense).map TeamAgg.eqv_key = (teamAggs teams' dense).map TeamAgg.eqv_key := by
  have := eqv_teamAggs_forall₂ h dense
  generalize teamAggs teams dense = a at this
  generalize teamAggs teams' dense = b at this
  induction this with
  | nil => rfl
  | cons hab _ ih =>
    simp only [List.map_cons, ih, TeamAgg.eqv_key, hab.1, hab.2.1, hab.2.2.1]

/-- the aggregates of two presentations of the rosters get the same gamma calls, for a callback that
does not depend on the order of the players -/
theorem gam_teamAggs_sameCalls {g : GammaFn ℝ} (hg : GammaPermInv g)
    {teams teams' : List (List (Rating ℝ))}
    (h : List.Forall₂ List.Perm teams teams') (dense : List ℕ) :
    List.Forall₂ (gam_SameCalls g) (teamAggs teams dense) (teamAggs teams' dense) :=
  (eqv_teamAggs_forall₂ h dense).imp
    (fun _ _ hab => gam_sameCalls_perm hg hab.1 hab.2.1 hab.2.2.1 hab.2.2.2)

/-- the per-player update as a map over the roster -/
theorem eqv_applyTeam_eq (κ : ℝ) (t : TeamAgg ℝ) (ω δ : ℝ) :
    applyTeam κ t ω δ = t.players.map (specPlayer κ t.sig2 ω δ) := by
  rw [C01_player]; rfl

theorem eqv_specPlayer_id (κ s2 ω δ : ℝ) (p : Rating ℝ) : (specPlayer κ s2 ω δ p).id = p.id := rfl

/-- the tail of `_compute`, for two presentations of the same teams and ANY list of (Ω, Δ):
there is one update function per team, applied to every player of that team in both
presentations -/
theorem eqv_applyAll_fn (κ : ℝ) {teams teams' : List (List (Rating ℝ))}
    (h : List.Forall₂ List.Perm teams teams') (dense : List ℕ) (od : List (ℝ × ℝ)) :
    ∃ fs : List (Rating ℝ → Rating ℝ),
      fs.length = min teams.length (min dense.length od.length) ∧
      (∀ f ∈ fs, ∀ p, (f p).id = p.id) ∧
      ((teamAggs teams dense).zip od).map (fun x => applyTeam κ x.1 x.2.1 x.2.2)
        = List.zipWith (fun f t => t.map f) fs teams ∧
      ((teamAggs teams' dense).zip od).map (fun x => applyTeam κ x.1 x.2.1 x.2.2)
        = List.zipWith (fun f t => t.map f) fs teams' := by
  induction h generalizing dense od with
  | nil => exact ⟨[], by simp, by simp, by simp [teamAggs], by simp [teamAggs]⟩
  | @cons t t' ts ts' hp _ ih =>
    cases dense with
    | nil => exact ⟨[], by simp, by simp, by simp [teamAggs], by simp [teamAggs]⟩
    | cons d ds =>
      cases od with
      | nil => exact ⟨[], by simp, by simp, by simp [teamAggs], by simp [teamAggs]⟩
      | cons x od =>
        obtain ⟨fs, hl, hid, h1, h2⟩ := ih ds od
        simp only [teamAggs] at h1 h2
        refine ⟨specPlayer κ (teamAgg t d).sig2 x.1 x.2 :: fs, ?_, ?_, ?_, ?_⟩
        · simp only [List.length_cons, hl]; omega
        · intro f hf p
          rcases List.mem_cons.1 hf with rfl | hf
          · rfl
          · exact hid f hf p
        · simp only [teamAggs, List.zip_cons_cons, List.map_cons, List.zipWith_cons_cons]
          rw [h1, eqv_applyTeam_eq]
          rfl
        · simp only [teamAggs, List.zip_cons_cons, List.map_cons, List.zipWith_cons_cons]
          rw [h2, eqv_applyTeam_eq, (C04_teamAgg_perm hp d).2]
          rfl

theorem eqv_zipWith_map_perm {β γ : Type} (fs : List (β → γ)) {teams teams' : List (List β)}
    (h : List.Forall₂ List.Perm teams teams') :
    List.Forall₂ List.Perm (List.zipWith (fun f t => t.map f) fs teams)
      (List.zipWith (fun f t => t.map f) fs teams') := by
  induction h generalizing fs with
  | nil => simp
  | cons hp _ ih =>
    cases fs with
    | nil => simp
    | cons f fs =>
      simp only [List.zipWith_cons_cons]
      exact List.Forall₂.cons (hp.map f) (ih fs)

theorem eqv_forall₂_getElem? {β γ : Type} {R : β → γ → Prop} {l : List β} {l' : List γ}
    (h : List.Forall₂ R l l') (i : ℕ) (a : β) (ha : l[i]? = some a) :
    ∃ b, l'[i]? = some b ∧ R a b := by
  induction h generalizing i with
  | nil => simp at ha
  | @cons x y xs ys hxy _ ih =>
    cases i with
    | zero =>
      simp only [List.getElem?_cons_zero, Option.some.injEq] at ha
      exact ⟨y, by simp, ha ▸ hxy⟩
    | succ i =>
      simp only [List.getElem?_cons_succ] at ha ⊢
      exact ih i ha

end OS
end
