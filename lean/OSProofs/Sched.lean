/-! Abstract interleaving machine for C14(d). Mathlib-free. -/
namespace Sched

abbrev Loc := Nat
abbrev Val := Int
abbrev Store := Loc → Val

/-- An atomic action: a store transformer with a declared footprint. -/
structure Action where
  reads : List Loc
  writes : List Loc
  run : Store → Store
  /-- frame: locations outside `writes` are untouched -/
  frame : ∀ s l, l ∉ writes → run s l = s l
  /-- the written values depend only on the locations read -/
  dep : ∀ s s', (∀ l, l ∈ reads → s l = s' l) → ∀ l, l ∈ writes → run s l = run s' l

def Action.touches (a : Action) : List Loc := a.reads ++ a.writes

/-- two actions are independent when neither writes what the other touches -/
def Indep (a b : Action) : Prop :=
  (∀ l, l ∈ a.writes → l ∉ b.touches) ∧ (∀ l, l ∈ b.writes → l ∉ a.touches)

theorem commute (a b : Action) (h : Indep a b) (s : Store) :
    a.run (b.run s) = b.run (a.run s) := by
  funext l
  by_cases ha : l ∈ a.writes
  · have hb : l ∉ b.writes := fun hb => h.1 l ha (by simp [Action.touches, hb])
    rw [b.frame _ l hb]
    refine a.dep _ _ ?_ l ha
    intro l' hl'
    have : l' ∉ b.writes := fun hb' => h.2 l' hb' (by simp [Action.touches, hl'])
    exact b.frame s l' this
  · rw [a.frame _ l ha]
    by_cases hb : l ∈ b.writes
    · refine b.dep _ _ ?_ l hb
      intro l' hl'
      have : l' ∉ a.writes := fun ha' => h.1 l' ha' (by simp [Action.touches, hl'])
      exact (a.frame s l' this).symm
    · rw [b.frame _ l hb, b.frame _ l hb, a.frame _ l ha]

def runAll (as : List Action) (s : Store) : Store := as.foldl (fun s a => a.run s) s

/-- `Interleave xs ys zs`: `zs` is an interleaving of `xs` and `ys` preserving both orders. -/
inductive Interleave : List Action → List Action → List Action → Prop
  | nil : Interleave [] [] []
  | left {x xs ys zs} : Interleave xs ys zs → Interleave (x :: xs) ys (x :: zs)
  | right {y xs ys zs} : Interleave xs ys zs → Interleave xs (y :: ys) (y :: zs)

theorem runAll_cons (a : Action) (as : List Action) (s : Store) :
    runAll (a :: as) s = runAll as (a.run s) := rfl

/-- an action independent of every action of a list can be moved past the whole list -/
theorem run_past (y : Action) (xs : List Action) (h : ∀ x, x ∈ xs → Indep x y) (s : Store) :
    runAll xs (y.run s) = y.run (runAll xs s) := by
  induction xs generalizing s with
  | nil => rfl
  | cons x xs ih =>
    rw [runAll_cons, runAll_cons]
    have hxy : Indep x y := h x (by simp)
    rw [commute x y hxy s]
    exact ih (fun x' hx' => h x' (by simp [hx'])) (x.run s)

theorem runAll_append (xs ys : List Action) (s : Store) :
    runAll (xs ++ ys) s = runAll ys (runAll xs s) := by
  simp [runAll, List.foldl_append]

/-- Two threads whose actions are pairwise independent: every interleaving equals the serial
execution (first all of `xs`, then all of `ys`) — and by symmetry the other serial order. -/
theorem interleave_serial {xs ys zs : List Action} (hi : Interleave xs ys zs)
    (h : ∀ x, x ∈ xs → ∀ y, y ∈ ys → Indep x y) (s : Store) :
    runAll zs s = runAll (xs ++ ys) s := by
  induction hi generalizing s with
  | nil => rfl
  | left hi ih =>
    rw [List.cons_append, runAll_cons, runAll_cons]
    exact ih (fun x hx y hy => h x (by simp [hx]) y hy) _
  | @right y xs ys zs hi ih =>
    rw [runAll_cons, ih (fun x hx y' hy' => h x hx y' (by simp [hy'])) _]
    rw [runAll_append, runAll_append, runAll_cons]
    rw [run_past y xs (fun x hx => h x hx y (by simp)) s]

theorem Interleave.symm {xs ys zs : List Action} (hi : Interleave xs ys zs) : Interleave ys xs zs := by
  induction hi with
  | nil => exact .nil
  | left _ ih => exact .right ih
  | right _ ih => exact .left ih

theorem Indep.symm {a b : Action} (h : Indep a b) : Indep b a := ⟨h.2, h.1⟩

/-- … and the other serial order -/
theorem interleave_serial' {xs ys zs : List Action} (hi : Interleave xs ys zs)
    (h : ∀ x, x ∈ xs → ∀ y, y ∈ ys → Indep x y) (s : Store) :
    runAll zs s = runAll (ys ++ xs) s :=
  interleave_serial hi.symm (fun y hy x hx => (h x hx y hy).symm) s

/-- m threads: `Shuffle ths zs` — `zs` is obtained by repeatedly taking the head of some thread -/
inductive Shuffle : List (List Action) → List Action → Prop
  | done {ths} : (∀ t, t ∈ ths → t = []) → Shuffle ths []
  | step {pre post : List (List Action)} {a : Action} {rest zs} :
      Shuffle (pre ++ rest :: post) zs → Shuffle (pre ++ (a :: rest) :: post) (a :: zs)

theorem runAll_flatten_nil (ths : List (List Action)) (h : ∀ t, t ∈ ths → t = []) (s : Store) :
    runAll ths.flatten s = s := by
  induction ths with
  | nil => rfl
  | cons t ts ih =>
    have ht : t = [] := h t (by simp)
    subst ht
    simpa using ih (fun t' ht' => h t' (by simp [ht']))

/-- Any number of threads with pairwise independent actions (across threads): every schedule
gives the same final store as running the threads one after another in list order. -/
theorem shuffle_serial {ths : List (List Action)} {zs : List Action} (hs : Shuffle ths zs)
    (h : ∀ i j (hi : i < ths.length) (hj : j < ths.length), i ≠ j →
          ∀ x, x ∈ ths[i] → ∀ y, y ∈ ths[j] → Indep x y) (s : Store) :
    runAll zs s = runAll ths.flatten s := by
  induction hs generalizing s with
  | done hnil => rw [runAll_flatten_nil _ hnil]; rfl
  | @step pre post a rest zs _ ih =>
    have hlen : (pre ++ (a :: rest) :: post).length = (pre ++ rest :: post).length := by simp
    -- independence carries over to the smaller configuration
    have h' : ∀ i j (hi : i < (pre ++ rest :: post).length) (hj : j < (pre ++ rest :: post).length), i ≠ j →
          ∀ x, x ∈ (pre ++ rest :: post)[i] → ∀ y, y ∈ (pre ++ rest :: post)[j] → Indep x y := by
      intro i j hi hj hij x hx y hy
      have key : ∀ k (hk : k < (pre ++ rest :: post).length) z, z ∈ (pre ++ rest :: post)[k] →
          z ∈ (pre ++ (a :: rest) :: post)[k]'(by rw [hlen]; exact hk) := by
        intro k hk z hz
        by_cases hkp : k < pre.length
        · simp [List.getElem_append_left hkp] at hz ⊢; exact hz
        · by_cases hke : k = pre.length
          · subst hke; simp at hz ⊢; exact Or.inr hz
          · have : pre.length < k := by omega
            simp [List.getElem_append_right (by omega : pre.length ≤ k)] at hz ⊢
            obtain ⟨m, hm⟩ : ∃ m, k - pre.length = m + 1 := ⟨k - pre.length - 1, by omega⟩
            simp [hm] at hz ⊢; exact hz
      exact h i j (by rw [hlen]; exact hi) (by rw [hlen]; exact hj) hij x (key i hi x hx) y (key j hj y hy)
    rw [runAll_cons, ih h' (a.run s)]
    -- move `a` to the front of thread `pre.length`, past all of `pre`
    simp only [List.flatten_append, List.flatten_cons, runAll_append, List.cons_append, runAll_cons]
    have hpast : runAll pre.flatten (a.run s) = a.run (runAll pre.flatten s) := by
      apply run_past
      intro x hx
      obtain ⟨t, ht, hxt⟩ := List.mem_flatten.mp hx
      obtain ⟨i, hi, rfl⟩ := List.getElem_of_mem ht
      have hi' : i < (pre ++ (a :: rest) :: post).length := by simp; omega
      have hp : pre.length < (pre ++ (a :: rest) :: post).length := by simp
      have := h i pre.length hi' hp (by omega) x (by simpa [List.getElem_append_left hi] using hxt) a (by simp)
      exact this
    rw [hpast]

end Sched
