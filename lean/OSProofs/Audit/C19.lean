import OSProofs.Props.C19
import OSProofs.Props.C19b
#print axioms OS.omegaDelta_btp_eq_btf
#print axioms OS.compute_btp_eq_btf
#print axioms OS.C19_btp_eq_btf_two
#print axioms OS.C19_validateRate_kind_free
#print axioms OS.C19_validatePredict_kind_free
#print axioms OS.swapKind_isRatingOf
