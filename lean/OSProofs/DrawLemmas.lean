import OSProofs.Gauss
import OSProofs.RealInst

/-!
# Helper lemmas for C10 (predict_draw) and C11 (predict_rank, integer ranks)

Part A: the "draw band" of an ordered pair and of an unordered pair of teams, as functions of
the gap `d = θa − θb`, the margin `m` and the scale `s`.

Part B: `rankData` (competition ranking) and `listMaxNat` over a list of reals.
-/

noncomputable section
namespace OS
open Gauss Set

/-! ## Part A: draw bands -/

/-- the term `predict_draw` adds for the ORDERED pair (a,b), with `d = θa − θb`:
`Φ((m − θa + θb)/s) − Φ((θa − θb − m)/s)` -/
def band (m s d : ℝ) : ℝ := Phi ((m - d) / s) - Phi ((d - m) / s)

/-- the contribution of the UNORDERED pair {a,b}: the ordered pairs (a,b) and (b,a) together -/
def pairBand (m s d : ℝ) : ℝ := band m s d + band m s (-d)

/-- the function of the gap whose double is `pairBand` -/
def gapFun (m s d : ℝ) : ℝ := Phi ((d + m) / s) - Phi ((d - m) / s)

theorem band_eq (m s d : ℝ) : band m s d = 1 - 2 * Phi ((d - m) / s) := by
  unfold band
  have h : (m - d) / s = -((d - m) / s) := by ring
  rw [h, Phi_neg]; ring

/-- a single ordered-pair term is `2Φ(u) − 1`, `u = (m−d)/s`: negative as soon as `d > m` -/
theorem band_eq' (m s d : ℝ) : band m s d = 2 * Phi ((m - d) / s) - 1 := by
  unfold band
  have h : (d - m) / s = -((m - d) / s) := by ring
  rw [h, Phi_neg]; ring

theorem band_neg_of_gt {m s d : ℝ} (hs : 0 < s) (hd : m < d) : band m s d < 0 := by
  rw [band_eq']
  have h : (m - d) / s < 0 := div_neg_of_neg_of_pos (by linarith) hs
  have := Phi_strictMono h
  rw [Phi_zero] at this
  linarith

theorem pairBand_eq (m s d : ℝ) :
    pairBand m s d = 2 * (Phi ((d + m) / s) - Phi ((d - m) / s)) := by
  unfold pairBand
  rw [band_eq, band_eq]
  have h : (-d - m) / s = -((d + m) / s) := by ring
  rw [h, Phi_neg]; ring

theorem pairBand_eq_gapFun (m s d : ℝ) : pairBand m s d = 2 * gapFun m s d := pairBand_eq m s d

theorem pairBand_even (m s d : ℝ) : pairBand m s (-d) = pairBand m s d := by
  unfold pairBand
  rw [neg_neg, add_comm]

theorem pairBand_abs (m s d : ℝ) : pairBand m s |d| = pairBand m s d := by
  rcases abs_choice d with h | h <;> rw [h]
  exact pairBand_even m s d

theorem pairBand_nonneg {m s : ℝ} (hm : 0 ≤ m) (hs : 0 < s) (d : ℝ) : 0 ≤ pairBand m s d := by
  rw [pairBand_eq]
  have h : (d - m) / s ≤ (d + m) / s := by
    apply div_le_div_of_nonneg_right _ hs.le
    linarith
  have := Phi_strictMono.monotone h
  linarith

theorem pairBand_lt_two (m s d : ℝ) : pairBand m s d < 2 := by
  rw [pairBand_eq]
  have h1 := Phi_lt_one ((d + m) / s)
  have h2 := Phi_pos ((d - m) / s)
  linarith

theorem pairBand_le_two (m s d : ℝ) : pairBand m s d ≤ 2 := (pairBand_lt_two m s d).le

theorem gapFun_hasDerivAt (m s d : ℝ) :
    HasDerivAt (gapFun m s) ((phi ((d + m) / s) - phi ((d - m) / s)) / s) d := by
  have h1 : HasDerivAt (fun d : ℝ => (d + m) / s) (1 / s) d :=
    ((hasDerivAt_id' d).add_const m).div_const s
  have h2 : HasDerivAt (fun d : ℝ => (d - m) / s) (1 / s) d :=
    ((hasDerivAt_id' d).sub_const m).div_const s
  have h3 := (Phi_hasDerivAt ((d + m) / s)).comp d h1
  have h4 := (Phi_hasDerivAt ((d - m) / s)).comp d h2
  have h5 := h3.sub h4
  refine (h5.congr_deriv ?_)
  ring

theorem gapFun_deriv_nonpos {m s d : ℝ} (hm : 0 ≤ m) (hs : 0 < s) (hd : 0 ≤ d) :
    (phi ((d + m) / s) - phi ((d - m) / s)) / s ≤ 0 := by
  apply div_nonpos_of_nonpos_of_nonneg _ hs.le
  have hpos : (0:ℝ) ≤ |(d - m) / s| := abs_nonneg _
  have hle : |(d - m) / s| ≤ (d + m) / s := by
    rw [abs_div, abs_of_pos hs]
    apply div_le_div_of_nonneg_right _ hs.le
    rw [abs_le]; constructor <;> linarith
  have h := phi_antitoneOn (mem_Ici.mpr hpos) (mem_Ici.mpr (hpos.trans hle)) hle
  have habs : phi |(d - m) / s| = phi ((d - m) / s) := by
    rcases abs_choice ((d - m) / s) with h | h <;> rw [h]
    exact phi_even _
  rw [habs] at h
  linarith

theorem gapFun_antitoneOn {m s : ℝ} (hm : 0 ≤ m) (hs : 0 < s) :
    AntitoneOn (gapFun m s) (Ici 0) := by
  apply antitoneOn_of_deriv_nonpos (convex_Ici 0)
  · intro d _
    exact (gapFun_hasDerivAt m s d).continuousAt.continuousWithinAt
  · intro d _
    exact (gapFun_hasDerivAt m s d).differentiableAt.differentiableWithinAt
  · intro d hd
    rw [interior_Ici] at hd
    rw [(gapFun_hasDerivAt m s d).deriv]
    exact gapFun_deriv_nonpos hm hs (le_of_lt hd)

/-- on nonnegative gaps the pair band does not increase with the gap -/
theorem pairBand_antitone {m s : ℝ} (hm : 0 ≤ m) (hs : 0 < s) {d₁ d₂ : ℝ}
    (h1 : 0 ≤ d₁) (h12 : d₁ ≤ d₂) : pairBand m s d₂ ≤ pairBand m s d₁ := by
  rw [pairBand_eq_gapFun, pairBand_eq_gapFun]
  have := gapFun_antitoneOn hm hs (mem_Ici.mpr h1) (mem_Ici.mpr (h1.trans h12)) h12
  linarith

/-- in terms of |gap|, for gaps of any sign -/
theorem pairBand_antitone_abs {m s : ℝ} (hm : 0 ≤ m) (hs : 0 < s) {d₁ d₂ : ℝ}
    (h : |d₁| ≤ |d₂|) : pairBand m s d₂ ≤ pairBand m s d₁ := by
  rw [← pairBand_abs m s d₁, ← pairBand_abs m s d₂]
  exact pairBand_antitone hm hs (abs_nonneg _) h

/-- the pair band is largest at zero gap -/
theorem pairBand_le_zero_gap {m s : ℝ} (hm : 0 ≤ m) (hs : 0 < s) (d : ℝ) :
    pairBand m s d ≤ pairBand m s 0 :=
  pairBand_antitone_abs hm hs (by simp)

theorem pairBand_zero_gap (m s : ℝ) : pairBand m s 0 = 2 * (2 * Phi (m / s) - 1) := by
  rw [pairBand_eq]
  have h : (0 - m) / s = -((0 + m) / s) := by ring
  rw [h, Phi_neg, zero_add]; ring

/-- mean of `k` unordered-pair terms, each in [0,2], over the `2k` ordered pairs -/
theorem avg_bound (l : List ℝ) (k : ℕ) (hk : 0 < k) (hl : l.length = k)
    (h : ∀ x ∈ l, 0 ≤ x ∧ x ≤ 2) :
    0 ≤ l.sum / (2 * k) ∧ l.sum / (2 * k) ≤ 1 := by
  have hsum : 0 ≤ l.sum ∧ l.sum ≤ 2 * (l.length : ℝ) := by
    clear hl
    induction l with
    | nil => simp
    | cons x xs ih =>
      have hx := h x (by simp)
      have := ih (fun y hy => h y (by simp [hy]))
      simp only [List.sum_cons, List.length_cons, Nat.cast_add, Nat.cast_one]
      constructor <;> linarith
  rw [hl] at hsum
  have hk' : (0:ℝ) < 2 * k := by positivity
  constructor
  · exact div_nonneg hsum.1 hk'.le
  · rw [div_le_one hk']; exact hsum.2

/-! ### the size inequality (DESIGN Appendix A.9) -/

/-- The size inequality behind `predict_draw ≤ 1` for two teams, for EVERY total player count. -/
theorem draw_size_ineq
    (N : ℝ) (hN : 2 ≤ N) (zN z2 : ℝ) (hz2 : 0 ≤ z2)
    (hPN : Phi zN = 1 / 2 + 1 / (2 * N)) (hP2 : Phi z2 = 3 / 4) :
    Phi (Real.sqrt (N / 2) * zN) ≤ 3 / 4 := by
  have hconc := Phi_concaveOn
  have hNpos : 0 < N := by linarith
  set lam := Real.sqrt (2 / N) with hlam
  have hlam_pos : 0 < lam := Real.sqrt_pos.mpr (by positivity)
  have hlam_le : lam ≤ 1 := by
    rw [hlam]; apply Real.sqrt_le_one.mpr ?_ |>.trans_eq rfl
    rw [div_le_one hNpos]; exact hN
  have hz2mem : z2 ∈ Ici (0:ℝ) := Set.mem_Ici.mpr hz2
  have h0mem : (0:ℝ) ∈ Ici (0:ℝ) := Set.mem_Ici.mpr (le_refl 0)
  have hc := hconc.2 hz2mem h0mem hlam_pos.le (by linarith : 0 ≤ 1 - lam) (by ring)
  simp only [smul_eq_mul, mul_zero, add_zero] at hc
  rw [Phi_zero, hP2] at hc
  have hlam_ge : 2 / N ≤ lam := by
    have h1 : 2 / N ≤ 1 := by rw [div_le_one hNpos]; exact hN
    have h0 : 0 ≤ 2 / N := by positivity
    calc 2 / N = Real.sqrt ((2 / N) ^ 2) := (Real.sqrt_sq h0).symm
      _ ≤ Real.sqrt (2 / N) := Real.sqrt_le_sqrt (by nlinarith)
  have hPhi_le : Phi zN ≤ Phi (lam * z2) := by
    rw [hPN]
    have : 1 / (2 * N) = (2 / N) / 4 := by field_simp; ring
    rw [this]; nlinarith
  have hz : zN ≤ lam * z2 := by
    by_contra h; push Not at h
    exact absurd (Phi_strictMono h) (not_lt.mpr hPhi_le)
  have hmul : Real.sqrt (N / 2) * lam = 1 := by
    rw [hlam, ← Real.sqrt_mul (by positivity)]
    have : N / 2 * (2 / N) = 1 := by field_simp
    rw [this, Real.sqrt_one]
  have : Real.sqrt (N / 2) * zN ≤ z2 := by
    calc Real.sqrt (N / 2) * zN ≤ Real.sqrt (N / 2) * (lam * z2) :=
          mul_le_mul_of_nonneg_left hz (Real.sqrt_nonneg _)
      _ = (Real.sqrt (N / 2) * lam) * z2 := by ring
      _ = z2 := by rw [hmul, one_mul]
  calc Phi (Real.sqrt (N / 2) * zN) ≤ Phi z2 := Phi_strictMono.monotone this
    _ = 3 / 4 := hP2

/-- the margin quantile `z_N = Φ⁻¹((1 + 1/N)/2)` for `N ≥ 2` -/
theorem zN_spec {N : ℝ} (hN : 2 ≤ N) :
    Phi (PhiInv ((1 + 1 / N) / 2)) = 1 / 2 + 1 / (2 * N) ∧ 0 ≤ PhiInv ((1 + 1 / N) / 2) := by
  have hNpos : 0 < N := by linarith
  have h1 : 1 / N ≤ 1 / 2 := by
    rw [div_le_div_iff₀ hNpos (by norm_num)]; linarith
  have h0 : 0 < 1 / N := by positivity
  have hlo : (1:ℝ) / 2 ≤ (1 + 1 / N) / 2 := by linarith
  have hhi : (1 + 1 / N) / 2 < 1 := by linarith
  refine ⟨?_, PhiInv_nonneg hlo hhi⟩
  rw [Phi_PhiInv (by linarith) hhi]
  field_simp

theorem size_ineq_inst {N : ℝ} (hN : 2 ≤ N) :
    Phi (Real.sqrt (N / 2) * PhiInv ((1 + 1 / N) / 2)) ≤ 3 / 4 := by
  have hz := zN_spec hN
  have h34 : Phi (PhiInv (3 / 4)) = 3 / 4 := Phi_PhiInv (by norm_num) (by norm_num)
  have h34' : 0 ≤ PhiInv (3 / 4) := PhiInv_nonneg (by norm_num) (by norm_num)
  exact draw_size_ineq N hN _ _ h34' hz.1 h34

/-- `m/s ≤ √(N/2)·z` when `m = √N β z` and `s = √(2β² + v)` -/
theorem two_team_ratio_le {N β v z : ℝ} (hN : 2 ≤ N) (hβ : 0 < β) (hv : 0 ≤ v) (hz : 0 ≤ z) :
    (Real.sqrt N * β * z) / Real.sqrt (2 * β ^ 2 + v) ≤ Real.sqrt (N / 2) * z := by
  have h2 : 0 < Real.sqrt 2 := Real.sqrt_pos.mpr (by norm_num)
  have hs : Real.sqrt 2 * β ≤ Real.sqrt (2 * β ^ 2 + v) := by
    apply Real.le_sqrt_of_sq_le
    rw [mul_pow, Real.sq_sqrt (by norm_num)]
    linarith
  have hnum : 0 ≤ Real.sqrt N * β * z := by positivity
  calc (Real.sqrt N * β * z) / Real.sqrt (2 * β ^ 2 + v)
      ≤ (Real.sqrt N * β * z) / (Real.sqrt 2 * β) :=
        div_le_div_of_nonneg_left hnum (by positivity) hs
    _ = Real.sqrt (N / 2) * z := by
        rw [Real.sqrt_div (by linarith)]
        field_simp

/-! ## Part B: competition ranking -/

/-- number of entries of `v` strictly below `x` (same `decide` instance as `rankData`) -/
def cntLt {α : Type} [Scalar α] (v : List α) (x : α) : ℕ :=
  (v.filter (fun y => decide (y < x))).length

/-- the integer ranks `predict_rank` returns: `max(rankData) − rankData + 1` -/
def finalRanks {α : Type} [Scalar α] (probs : List α) : List ℕ :=
  (rankData probs).map (fun x => (listMaxNat (rankData probs) - x) + 1)

theorem rankData_eq {α : Type} [Scalar α] (v : List α) :
    rankData v = v.map (fun x => 1 + cntLt v x) := rfl

theorem cntLt_eq_countP (v : List ℝ) (x : ℝ) :
    cntLt v x = v.countP (fun y => decide (y < x)) :=
  List.countP_eq_length_filter.symm

theorem cntLt_mono (v : List ℝ) {x y : ℝ} (h : x ≤ y) : cntLt v x ≤ cntLt v y := by
  rw [cntLt_eq_countP, cntLt_eq_countP]
  apply List.countP_mono_left
  intro z _ hz
  simp only [decide_eq_true_eq] at hz ⊢
  exact lt_of_lt_of_le hz h

theorem cntLt_strict (v : List ℝ) {x y : ℝ} (hx : x ∈ v) (h : x < y) :
    cntLt v x < cntLt v y := by
  rw [cntLt_eq_countP, cntLt_eq_countP]
  induction v with
  | nil => simp at hx
  | cons z zs ih =>
    rw [List.countP_cons, List.countP_cons]
    have hmono : zs.countP (fun w => decide (w < x)) ≤ zs.countP (fun w => decide (w < y)) := by
      have := cntLt_mono zs h.le
      rwa [cntLt_eq_countP, cntLt_eq_countP] at this
    rcases List.mem_cons.mp hx with rfl | hx'
    · have h1 : ¬ (x < x) := lt_irrefl x
      simp only [decide_eq_true_eq, h1, h, if_true, if_false]
      omega
    · have := ih hx'
      by_cases hzx : z < x
      · have hzy : z < y := hzx.trans h
        simp only [decide_eq_true_eq, hzx, hzy, if_true]
        omega
      · simp only [decide_eq_true_eq, hzx, if_false]
        split_ifs <;> omega

theorem cntLt_lt_length (v : List ℝ) {x : ℝ} (hx : x ∈ v) : cntLt v x < v.length := by
  rw [cntLt_eq_countP]
  apply lt_of_le_of_ne List.countP_le_length
  intro h
  rw [List.countP_eq_length] at h
  have := h x hx
  simp at this

/-! ### `listMaxNat` is an attained upper bound -/

theorem foldl_max_ge_init (l : List ℕ) (a : ℕ) : a ≤ l.foldl Nat.max a := by
  induction l generalizing a with
  | nil => exact le_refl a
  | cons x xs ih =>
    rw [List.foldl_cons]
    exact le_trans (Nat.le_max_left a x) (ih _)

theorem foldl_max_ge_mem (l : List ℕ) (a : ℕ) {x : ℕ} (hx : x ∈ l) : x ≤ l.foldl Nat.max a := by
  induction l generalizing a with
  | nil => simp at hx
  | cons y ys ih =>
    rw [List.foldl_cons]
    rcases List.mem_cons.mp hx with rfl | hx'
    · exact le_trans (Nat.le_max_right a x) (foldl_max_ge_init ys _)
    · exact ih _ hx'

theorem foldl_max_mem (l : List ℕ) (a : ℕ) : l.foldl Nat.max a = a ∨ l.foldl Nat.max a ∈ l := by
  induction l generalizing a with
  | nil => left; rfl
  | cons y ys ih =>
    rw [List.foldl_cons]
    rcases ih (Nat.max a y) with h | h
    · rw [h]
      rcases Nat.le_total a y with hay | hya
      · right
        have e : a.max y = y := Nat.max_eq_right hay
        rw [e]; exact List.mem_cons_self
      · left; exact Nat.max_eq_left hya
    · right; exact List.mem_cons_of_mem _ h

theorem le_listMaxNat {l : List ℕ} {x : ℕ} (hx : x ∈ l) : x ≤ listMaxNat l :=
  foldl_max_ge_mem l 0 hx

theorem listMaxNat_mem {l : List ℕ} (hl : l ≠ []) : listMaxNat l ∈ l := by
  rcases foldl_max_mem l 0 with h | h
  · -- the maximum is 0: every entry is 0
    obtain ⟨x, hx⟩ := List.exists_mem_of_ne_nil l hl
    have hx0 : x ≤ 0 := by
      have := le_listMaxNat hx
      unfold listMaxNat at this
      rwa [h] at this
    have : x = 0 := Nat.le_zero.mp hx0
    unfold listMaxNat
    rw [h, ← this]; exact hx
  · exact h

/-! ### the ranks -/

theorem rankData_length {α : Type} [Scalar α] (v : List α) : (rankData v).length = v.length := by
  simp [rankData]

theorem finalRanks_length {α : Type} [Scalar α] (v : List α) :
    (finalRanks v).length = v.length := by
  simp [finalRanks, rankData]

theorem rankData_getElem (v : List ℝ) (a : ℕ) (ha : a < v.length) :
    (rankData v)[a]'(by rw [rankData_length]; exact ha) = 1 + cntLt v v[a] := by
  simp [rankData_eq]

theorem finalRanks_getElem (v : List ℝ) (a : ℕ) (ha : a < v.length) :
    (finalRanks v)[a]'(by rw [finalRanks_length]; exact ha)
      = (listMaxNat (rankData v) - (1 + cntLt v v[a])) + 1 := by
  simp [finalRanks, rankData_eq]

theorem rankData_le_max (v : List ℝ) (a : ℕ) (ha : a < v.length) :
    1 + cntLt v v[a] ≤ listMaxNat (rankData v) := by
  apply le_listMaxNat
  rw [rankData_eq]
  exact List.mem_map.mpr ⟨v[a], List.getElem_mem ha, rfl⟩

theorem listMaxNat_rankData_le (v : List ℝ) : listMaxNat (rankData v) ≤ v.length := by
  by_cases hv : v = []
  · subst hv; simp [rankData, listMaxNat]
  · have hne : rankData v ≠ [] := by
      intro h; apply hv
      have := congrArg List.length h
      rw [rankData_length] at this
      exact List.eq_nil_of_length_eq_zero this
    have hmem := listMaxNat_mem hne
    rw [rankData_eq] at hmem
    obtain ⟨x, hx, hxe⟩ := List.mem_map.mp hmem
    have := cntLt_lt_length v hx
    rw [rankData_eq, ← hxe]
    omega

/-- the largest `rankData` value is the one of a maximal entry -/
theorem rankData_of_maximal (v : List ℝ) (a : ℕ) (ha : a < v.length)
    (hmax : ∀ y ∈ v, y ≤ v[a]) : 1 + cntLt v v[a] = listMaxNat (rankData v) := by
  apply le_antisymm (rankData_le_max v a ha)
  have hne : rankData v ≠ [] := by
    intro h
    have := congrArg List.length h
    rw [rankData_length, List.length_nil] at this
    omega
  have hmem := listMaxNat_mem hne
  rw [rankData_eq] at hmem
  obtain ⟨x, hx, hxe⟩ := List.mem_map.mp hmem
  rw [rankData_eq, ← hxe]
  have := cntLt_mono v (hmax x hx)
  omega

end OS
end
