import OSModel.CodeShaped
import OSProofs.RealInst
import OSProofs.DrawLemmas

/-!
# Helper lemmas for `OSProofs/CodeShaped.lean`

Part 1: the insertion-ordered dict (`dictAdd`), the inner and the outer loop of `_sum_q`.
Part 2: `_calculate_rankings` is monotone.
Part 3: `_arg_sort` (lexicographic merge sort of `(value, index)` pairs) and the run-scanning
loop of `_rank_data`.
All names start with `lit_`.
-/

namespace OS
open Scalar

/-! ## Part 1: `_sum_q` -/


section dict
variable {β : Type} [Add β]

/-- `v + x` if the key was present with value `v`, else `x` -/
def lit_addOpt : Option β → β → β
  | none, x => x
  | some v, x => v + x

/-- left-to-right sum that starts from the first element (no leading zero); `none` for `[]` -/
def lit_sum1 : List β → Option β
  | [] => none
  | x :: xs => some (xs.foldl (· + ·) x)

theorem lit_sum1_append_singleton (l : List β) (x : β) :
    lit_sum1 (l ++ [x]) = some (lit_addOpt (lit_sum1 l) x) := by
  cases l with
  | nil => rfl
  | cons a l => simp [lit_sum1, lit_addOpt, List.foldl_append]

theorem lit_keys_dictAdd (d : List (Nat × β)) (q : Nat) (x : β) :
    (dictAdd d q x).map (·.1) =
      if q ∈ d.map (·.1) then d.map (·.1) else d.map (·.1) ++ [q] := by
  induction d with
  | nil => simp [dictAdd]
  | cons kv d ih =>
    obtain ⟨k, v⟩ := kv
    by_cases h : k = q
    · simp [dictAdd, h]
    · have h' : ¬ q = k := fun e => h e.symm
      simp only [dictAdd, h, if_false, List.map_cons, ih, List.mem_cons, h', false_or]
      split <;> simp

theorem lit_lookup_dictAdd (d : List (Nat × β)) (q : Nat) (x : β) (k : Nat) :
    (dictAdd d q x).lookup k =
      if k = q then some (lit_addOpt (d.lookup q) x) else d.lookup k := by
  induction d with
  | nil =>
    by_cases h : k = q
    · simp [dictAdd, h, lit_addOpt, List.lookup]
    · have hb : (k == q) = false := by simpa using h
      simp [dictAdd, h, hb, List.lookup]
  | cons kv d ih =>
    obtain ⟨k', v⟩ := kv
    by_cases h : k' = q
    · subst h
      by_cases hk : k = k'
      · subst hk; simp [dictAdd, lit_addOpt]
      · have hb : (k == k') = false := by simpa using hk
        simp [dictAdd, List.lookup_cons, hk, hb]
    · have h' : ¬ q = k' := fun e => h e.symm
      have hb' : (q == k') = false := by simpa using h'
      by_cases hk : k = k'
      · subst hk
        simp [dictAdd, h]
      · have hb : (k == k') = false := by simpa using hk
        simp [dictAdd, h, List.lookup_cons, hb, hb', ih]

theorem lit_nodup_dictAdd (d : List (Nat × β)) (q : Nat) (x : β)
    (hd : (d.map (·.1)).Nodup) : ((dictAdd d q x).map (·.1)).Nodup := by
  rw [lit_keys_dictAdd]
  split
  · exact hd
  · rename_i h
    rw [List.nodup_append]
    refine ⟨hd, by simp, ?_⟩
    intro a ha b hb
    simp at hb; subst hb
    intro e; subst e; exact h ha

omit [Add β] in
/-- with distinct keys, the values are the lookups of the keys -/
theorem lit_values_eq (d : List (Nat × β)) (hd : (d.map (·.1)).Nodup) :
    d.map (fun kv => some kv.2) = (d.map (·.1)).map (fun k => d.lookup k) := by
  induction d with
  | nil => rfl
  | cons kv d ih =>
    obtain ⟨k, v⟩ := kv
    simp only [List.map_cons, List.nodup_cons] at hd ⊢
    simp only [List.lookup_cons, beq_self_eq_true]
    congr 1
    rw [ih hd.2]
    apply List.map_congr_left
    intro k' hk'
    have : (k' == k) = false := by
      simp only [beq_eq_false_iff_ne, ne_eq]
      intro e; subst e; exact hd.1 hk'
    simp [this]


/-! #### the inner loop, for an arbitrary indexed list with distinct indices -/

variable {γ : Type}

/-- the inner loop with an abstract test `p` -/
def lit_inner (p : γ × Nat → Prop) [DecidablePred p] (x : β) (L : List (γ × Nat))
    (d : List (Nat × β)) : List (Nat × β) :=
  L.foldl (fun d tq => if p tq then dictAdd d tq.2 x else d) d

theorem lit_inner_cons (p : γ × Nat → Prop) [DecidablePred p] (x : β) (tq : γ × Nat)
    (L : List (γ × Nat)) (d : List (Nat × β)) :
    lit_inner p x (tq :: L) d = lit_inner p x L (if p tq then dictAdd d tq.2 x else d) := rfl

theorem lit_inner_nodup (p : γ × Nat → Prop) [DecidablePred p] (x : β) (L : List (γ × Nat))
    (d : List (Nat × β)) (hd : (d.map (·.1)).Nodup) :
    ((lit_inner p x L d).map (·.1)).Nodup := by
  induction L generalizing d with
  | nil => exact hd
  | cons tq L ih =>
    rw [lit_inner_cons]
    apply ih
    split
    · exact lit_nodup_dictAdd d _ x hd
    · exact hd

theorem lit_inner_keys (p : γ × Nat → Prop) [DecidablePred p] (x : β) (L : List (γ × Nat))
    (hL : (L.map (·.2)).Nodup) (d : List (Nat × β)) :
    (lit_inner p x L d).map (·.1) =
      d.map (·.1) ++
        (L.filter (fun tq => decide (p tq) && !(d.map (·.1)).contains tq.2)).map (·.2) := by
  induction L generalizing d with
  | nil => simp [lit_inner]
  | cons tq L ih =>
    rw [lit_inner_cons]
    simp only [List.map_cons, List.nodup_cons] at hL
    rw [ih hL.2]
    by_cases hp : p tq
    · by_cases hk : tq.2 ∈ d.map (·.1)
      · have hc : (d.map (·.1)).contains tq.2 = true := by simpa using hk
        simp only [hp, if_true, lit_keys_dictAdd, hk, List.filter_cons, decide_true, hc,
          Bool.not_true, Bool.and_false, Bool.false_eq_true, if_false]
      · have hc : (d.map (·.1)).contains tq.2 = false := by simpa using hk
        simp only [hp, if_true, lit_keys_dictAdd, hk, if_false, List.filter_cons, decide_true, hc,
          Bool.not_false, Bool.and_true, List.map_cons, List.append_assoc, List.singleton_append]
        congr 3
        apply List.filter_congr
        intro tq' htq'
        have hne : ¬ tq'.2 = tq.2 := by
          intro e; apply hL.1; rw [← e]; exact List.mem_map_of_mem htq'
        have : (d.map (·.1) ++ [tq.2]).contains tq'.2 = (d.map (·.1)).contains tq'.2 := by
          rw [Bool.eq_iff_iff]; simp [hne]
        rw [this]
    · simp only [hp, if_false, List.filter_cons, decide_false, Bool.false_and,
        Bool.false_eq_true]

theorem lit_inner_lookup (p : γ × Nat → Prop) [DecidablePred p] (x : β) (L : List (γ × Nat))
    (hL : (L.map (·.2)).Nodup) (d : List (Nat × β)) (k : Nat) :
    (lit_inner p x L d).lookup k =
      if ∃ tq ∈ L, tq.2 = k ∧ p tq then some (lit_addOpt (d.lookup k) x) else d.lookup k := by
  induction L generalizing d with
  | nil => simp [lit_inner]
  | cons tq L ih =>
    rw [lit_inner_cons]
    simp only [List.map_cons, List.nodup_cons] at hL
    rw [ih hL.2]
    by_cases hk : tq.2 = k
    · have hno : ¬ ∃ tq' ∈ L, tq'.2 = k ∧ p tq' := by
        rintro ⟨tq', hm, he, -⟩
        apply hL.1; rw [hk, ← he]; exact List.mem_map_of_mem hm
      rw [if_neg hno]
      by_cases hp : p tq
      · have hyes : ∃ tq' ∈ tq :: L, tq'.2 = k ∧ p tq' := ⟨tq, by simp, hk, hp⟩
        rw [if_pos hyes, if_pos hp, lit_lookup_dictAdd, hk, if_pos rfl]
      · have hno' : ¬ ∃ tq' ∈ tq :: L, tq'.2 = k ∧ p tq' := by
          rintro ⟨tq', hm, he, hp'⟩
          rcases List.mem_cons.mp hm with rfl | hm
          · exact hp hp'
          · exact hno ⟨tq', hm, he, hp'⟩
        rw [if_neg hno', if_neg hp]
    · have hsame : (if p tq then dictAdd d tq.2 x else d).lookup k = d.lookup k := by
        split
        · rw [lit_lookup_dictAdd, if_neg (fun e => hk e.symm)]
        · rfl
      have hiff : (∃ tq' ∈ tq :: L, tq'.2 = k ∧ p tq') ↔ (∃ tq' ∈ L, tq'.2 = k ∧ p tq') := by
        constructor
        · rintro ⟨tq', hm, he, hp'⟩
          rcases List.mem_cons.mp hm with rfl | hm
          · exact absurd he hk
          · exact ⟨tq', hm, he, hp'⟩
        · rintro ⟨tq', hm, he, hp'⟩
          exact ⟨tq', List.mem_cons_of_mem _ hm, he, hp'⟩
      rw [hsame]
      simp only [hiff]

end dict

/-! #### the outer loop -/

theorem lit_filter_split {γ : Type} (L : List γ) (P P' : γ → Bool)
    (hPP' : ∀ a, P a = true → P' a = true)
    (hdown : L.Pairwise (fun a b => P b = true → P a = true)) :
    L.filter P ++ L.filter (fun a => P' a && !P a) = L.filter P' := by
  induction L with
  | nil => rfl
  | cons a L ih =>
    rw [List.pairwise_cons] at hdown
    by_cases ha : P a = true
    · have ha' := hPP' a ha
      simp only [List.filter_cons, ha, ha', if_true, Bool.not_true, Bool.and_false,
        Bool.false_eq_true, if_false, List.cons_append, ih hdown.2]
    · have hnone : ∀ b ∈ L, ¬ P b = true := fun b hb hPb => ha (hdown.1 b hb hPb)
      have h1 : (a :: L).filter P = [] := by
        rw [List.filter_eq_nil_iff]
        intro b hb
        rcases List.mem_cons.mp hb with rfl | hb
        · exact ha
        · exact hnone b hb
      rw [h1, List.nil_append]
      apply List.filter_congr
      intro b hb
      have : P b = false := by
        rcases List.mem_cons.mp hb with rfl | hb
        · simpa using ha
        · simpa using hnone b hb
      simp [this]

theorem lit_contains_filter_snd {γ : Type} (L : List (γ × Nat)) (hL : (L.map (·.2)).Nodup)
    (P : γ × Nat → Bool) (tq : γ × Nat) (htq : tq ∈ L) :
    ((L.filter P).map (·.2)).contains tq.2 = P tq := by
  rw [Bool.eq_iff_iff, List.contains_iff_mem, List.mem_map]
  constructor
  · rintro ⟨tq', hm, he⟩
    rw [List.mem_filter] at hm
    have := List.inj_on_of_nodup_map hL hm.1 htq he
    rw [← this]; exact hm.2
  · intro h
    exact ⟨tq, List.mem_filter.mpr ⟨htq, h⟩, rfl⟩

section outer
variable {α : Type} [Scalar α]

/-- invariant of the outer loop after the teams `done` have been processed -/
def lit_Inv (L : List (TeamAgg α × Nat)) (e : TeamAgg α → α) (done : List (TeamAgg α))
    (d : List (Nat × α)) : Prop :=
  (d.map (·.1)).Nodup ∧
  d.map (·.1) =
    (L.filter (fun tq => done.any (fun tj => decide (tq.1.rank ≤ tj.rank)))).map (·.2) ∧
  ∀ tq ∈ L, d.lookup tq.2 =
    lit_sum1 ((done.filter (fun tj => decide (tq.1.rank ≤ tj.rank))).map e)

theorem lit_Inv_step (L : List (TeamAgg α × Nat)) (e : TeamAgg α → α)
    (hL : (L.map (·.2)).Nodup) (hs : L.Pairwise (fun a b => a.1.rank ≤ b.1.rank))
    (done : List (TeamAgg α)) (d : List (Nat × α)) (ti : TeamAgg α)
    (h : lit_Inv L e done d) :
    lit_Inv L e (done ++ [ti]) (lit_inner (fun tq => ti.rank ≥ tq.1.rank) (e ti) L d) := by
  obtain ⟨hnd, hkeys, hval⟩ := h
  refine ⟨lit_inner_nodup _ _ _ _ hnd, ?_, ?_⟩
  · rw [lit_inner_keys _ _ _ hL, hkeys, ← List.map_append]
    congr 1
    have hcongr : L.filter (fun tq => decide (ti.rank ≥ tq.1.rank) &&
          !((L.filter (fun tq => done.any (fun tj => decide (tq.1.rank ≤ tj.rank)))).map
              (·.2)).contains tq.2) =
        L.filter (fun tq => (done ++ [ti]).any (fun tj => decide (tq.1.rank ≤ tj.rank)) &&
          !done.any (fun tj => decide (tq.1.rank ≤ tj.rank))) := by
      apply List.filter_congr
      intro tq htq
      rw [lit_contains_filter_snd L hL _ tq htq]
      simp only [List.any_append, List.any_cons, List.any_nil, Bool.or_false, ge_iff_le]
      cases done.any (fun tj => decide (tq.1.rank ≤ tj.rank)) <;> simp
    rw [hcongr]
    apply lit_filter_split
    · intro a ha
      simp only [List.any_append, ha, Bool.true_or]
    · refine hs.imp ?_
      intro a b hab hb
      rw [List.any_eq_true] at hb ⊢
      obtain ⟨tj, htj, hle⟩ := hb
      refine ⟨tj, htj, ?_⟩
      simp only [decide_eq_true_eq] at hle ⊢
      exact Nat.le_trans hab hle
  · intro tq htq
    rw [lit_inner_lookup _ _ _ hL, hval tq htq]
    by_cases hle : tq.1.rank ≤ ti.rank
    · have hyes : ∃ tq' ∈ L, tq'.2 = tq.2 ∧ ti.rank ≥ tq'.1.rank := ⟨tq, htq, rfl, hle⟩
      rw [if_pos hyes, List.filter_append, List.map_append]
      simp only [List.filter_cons, hle, decide_true, if_true, List.filter_nil, List.map_cons,
        List.map_nil]
      rw [lit_sum1_append_singleton]
    · have hno : ¬ ∃ tq' ∈ L, tq'.2 = tq.2 ∧ ti.rank ≥ tq'.1.rank := by
        rintro ⟨tq', hm, he, hp⟩
        have := List.inj_on_of_nodup_map hL hm htq he
        subst this; exact hle hp
      rw [if_neg hno, List.filter_append, List.map_append]
      simp only [List.filter_cons, hle, decide_false, Bool.false_eq_true, if_false,
        List.filter_nil, List.map_nil, List.append_nil]

theorem lit_Inv_fold (L : List (TeamAgg α × Nat)) (e : TeamAgg α → α)
    (hL : (L.map (·.2)).Nodup) (hs : L.Pairwise (fun a b => a.1.rank ≤ b.1.rank))
    (rest done : List (TeamAgg α)) (d : List (Nat × α)) (h : lit_Inv L e done d) :
    lit_Inv L e (done ++ rest)
      (rest.foldl (fun d ti => lit_inner (fun tq => ti.rank ≥ tq.1.rank) (e ti) L d) d) := by
  induction rest generalizing done d with
  | nil => simpa using h
  | cons ti rest ih =>
    rw [List.foldl_cons]
    have := ih (done ++ [ti]) _ (lit_Inv_step L e hL hs done d ti h)
    simpa using this

/-- `acc = l[0]; for x in l[1:]: acc += x` (and `0` for the empty list): the left-to-right sum
    without the leading `0 +` of `sumL` -/
def lit_sumL1 (l : List α) : α := (lit_sum1 l).getD (ofNat 0)

theorem lit_Inv_nil (L : List (TeamAgg α × Nat)) (e : TeamAgg α → α) : lit_Inv L e [] [] := by
  refine ⟨by simp, by simp, ?_⟩
  intro tq _
  simp [lit_sum1]

theorem lit_plSumQDict_eq (ts : List (TeamAgg α)) (c : α) :
    plSumQDict ts c =
      ts.foldl (fun d ti =>
        lit_inner (fun tq => ti.rank ≥ tq.1.rank) (exp (ti.mu / c)) ts.zipIdx d) [] := by
  have h : ts.foldl (fun d ti =>
        lit_inner (fun tq => ti.rank ≥ tq.1.rank) (exp (ti.mu / c)) ts.zipIdx d) [] =
      (ts.zipIdx.map (·.1)).foldl (fun d ti =>
        lit_inner (fun tq => ti.rank ≥ tq.1.rank) (exp (ti.mu / c)) ts.zipIdx d) [] := by
    congr 1
    exact (List.zipIdx_map_fst 0 ts).symm
  rw [h, List.foldl_map]
  rfl

end outer

/-- over the reals the sum started from the first term is the sum started from `0` -/
theorem lit_sumL1_real (l : List ℝ) : lit_sumL1 l = sumL l := by
  rw [sumL_eq_sum]
  cases l with
  | nil => simp [lit_sumL1, lit_sum1]
  | cons x xs =>
    have : ∀ (l : List ℝ) (a : ℝ), List.foldl (· + ·) a l = a + l.sum := by
      intro l
      induction l with
      | nil => intro a; simp
      | cons x xs ih => intro a; simp [ih, add_assoc]
    simp [lit_sumL1, lit_sum1, this]


/-! ## Part 2: `_calculate_rankings` -/


theorem lit_denseRanksAux_mono {ρ : Type} (lt : ρ → ρ → Bool) (l : List ρ) :
    ∀ (prev : ρ) (idx s : Nat), s ≤ idx →
      (∀ y ∈ denseRanksAux lt prev idx s l, s ≤ y) ∧
      (denseRanksAux lt prev idx s l).Pairwise (· ≤ ·) := by
  induction l with
  | nil => intro prev idx s _; simp [denseRanksAux]
  | cons x xs ih =>
    intro prev idx s hs
    simp only [denseRanksAux]
    have hs' : (if lt prev x = true then idx else s) ≤ idx + 1 := by split <;> omega
    have hge : s ≤ (if lt prev x = true then idx else s) := by split <;> omega
    obtain ⟨h1, h2⟩ := ih x (idx + 1) _ hs'
    refine ⟨?_, ?_⟩
    · intro y hy
      rcases List.mem_cons.mp hy with rfl | hy
      · exact hge
      · exact Nat.le_trans hge (h1 y hy)
    · exact List.pairwise_cons.mpr ⟨h1, h2⟩


/-! ## Part 3: `_arg_sort` / `_rank_data` -/


/-! ### `_arg_sort` -/

theorem lit_lexLe_iff (a b : ℝ × Nat) :
    lexLe a b = true ↔ a.1 < b.1 ∨ (a.1 = b.1 ∧ a.2 ≤ b.2) := by
  unfold lexLe
  simp only [Bool.or_eq_true, Bool.and_eq_true, Bool.not_eq_true', decide_eq_true_eq,
    decide_eq_false_iff_not, not_lt]
  constructor
  · rintro (h | ⟨h1, h2⟩)
    · exact Or.inl h
    · rcases lt_or_eq_of_le h1 with h | h
      · exact Or.inl h
      · exact Or.inr ⟨h, h2⟩
  · rintro (h | ⟨h1, h2⟩)
    · exact Or.inl h
    · exact Or.inr ⟨h1.le, h2⟩

theorem lit_lexLe_trans (a b c : ℝ × Nat) (h1 : lexLe a b = true) (h2 : lexLe b c = true) :
    lexLe a c = true := by
  rw [lit_lexLe_iff] at *
  rcases h1 with h1 | ⟨h1, h1'⟩ <;> rcases h2 with h2 | ⟨h2, h2'⟩
  · exact Or.inl (h1.trans h2)
  · exact Or.inl (h2 ▸ h1)
  · exact Or.inl (h1 ▸ h2)
  · exact Or.inr ⟨h1.trans h2, h1'.trans h2'⟩

theorem lit_lexLe_total (a b : ℝ × Nat) : (lexLe a b || lexLe b a) = true := by
  rw [Bool.or_eq_true, lit_lexLe_iff, lit_lexLe_iff]
  rcases lt_trichotomy a.1 b.1 with h | h | h
  · exact Or.inl (Or.inl h)
  · rcases Nat.le_total a.2 b.2 with h' | h'
    · exact Or.inl (Or.inr ⟨h, h'⟩)
    · exact Or.inr (Or.inr ⟨h.symm, h'⟩)
  · exact Or.inr (Or.inl h)

/-- the sorted `(value, index)` pairs -/
noncomputable def lit_S (v : List ℝ) : List (ℝ × Nat) := v.zipIdx.mergeSort lexLe

theorem lit_S_perm (v : List ℝ) : (lit_S v).Perm v.zipIdx := List.mergeSort_perm _ _

theorem lit_S_length (v : List ℝ) : (lit_S v).length = v.length := by
  simp [lit_S]

theorem lit_S_sorted (v : List ℝ) : ((lit_S v).map (·.1)).Pairwise (· ≤ ·) := by
  rw [List.pairwise_map]
  refine (List.pairwise_mergeSort lit_lexLe_trans lit_lexLe_total v.zipIdx).imp ?_
  intro a b h
  rcases (lit_lexLe_iff a b).mp h with h | ⟨h, _⟩
  · exact h.le
  · exact h.le

theorem lit_argSortCode_eq (v : List ℝ) : argSortCode v = (lit_S v).map (·.2) := rfl

/-- `arg_sorted_vector = [vector[rank] for rank in arg_sort_rank_vector]` is the list of the
    first components of the sorted pairs -/
theorem lit_argSorted_eq (v : List ℝ) :
    (argSortCode v).map (fun r => v.getD r (ofNat 0)) = (lit_S v).map (·.1) := by
  rw [lit_argSortCode_eq, List.map_map]
  apply List.map_congr_left
  intro a ha
  have hm : a ∈ v.zipIdx := (lit_S_perm v).mem_iff.mp ha
  rw [List.mem_zipIdx_iff_getElem?] at hm
  simp [List.getD, hm]

theorem lit_idx_perm (v : List ℝ) : (argSortCode v).Perm (List.range v.length) := by
  rw [lit_argSortCode_eq]
  have h := (lit_S_perm v).map (·.2)
  have e : v.zipIdx.map (·.2) = List.range' 0 v.length := List.zipIdx_map_snd 0 v
  rw [e, ← List.range_eq_range'] at h
  exact h

theorem lit_sv_perm (v : List ℝ) : ((lit_S v).map (·.1)).Perm v := by
  have h := (lit_S_perm v).map (·.1)
  rwa [show v.zipIdx.map (·.1) = v from List.zipIdx_map_fst 0 v] at h


/-! ### sorted lists: the entries below `x` are a prefix -/

theorem lit_cntLt_cons (a : ℝ) (l : List ℝ) (x : ℝ) :
    cntLt (a :: l) x = (if a < x then 1 else 0) + cntLt l x := by
  unfold cntLt
  rw [List.filter_cons]
  by_cases h : a < x
  · simp [h]; omega
  · simp [h]

theorem lit_cntLt_zero_of_le (l : List ℝ) (x : ℝ) (h : ∀ y ∈ l, x ≤ y) : cntLt l x = 0 := by
  unfold cntLt
  rw [List.length_eq_zero_iff, List.filter_eq_nil_iff]
  intro y hy
  simpa using h y hy

theorem lit_getD_eq {β : Type} (l : List β) (d : β) {i : Nat} (h : i < l.length) :
    l.getD i d = l[i] := by
  simp [List.getD_eq_getElem?_getD, h]

/-- in a sorted list, position `p` is among the first `cntLt sv x` iff its entry is `< x` -/
theorem lit_lt_cntLt_iff (sv : List ℝ) (hs : sv.Pairwise (· ≤ ·)) (x : ℝ) (p : Nat)
    (hp : p < sv.length) : p < cntLt sv x ↔ sv.getD p 0 < x := by
  induction sv generalizing p with
  | nil => simp at hp
  | cons a l ih =>
    rw [List.pairwise_cons] at hs
    rw [lit_cntLt_cons]
    by_cases ha : a < x
    · cases p with
      | zero => simp [ha]
      | succ p =>
        have := ih hs.2 p (by simpa using hp)
        simp only [ha, if_true, List.getD_cons_succ]
        rw [← this]
        omega
    · have hz : cntLt l x = 0 := lit_cntLt_zero_of_le l x
        (fun y hy => le_trans (not_lt.mp ha) (hs.1 y hy))
      simp only [ha, if_false, hz, Nat.add_zero, Nat.not_lt_zero, false_iff, not_lt]
      cases p with
      | zero => simpa using not_lt.mp ha
      | succ p =>
        rw [List.getD_cons_succ]
        have hp' : p < l.length := by simpa using hp
        have hmem : l.getD p 0 ∈ l := by
          rw [lit_getD_eq l 0 hp']; exact List.getElem_mem hp'
        exact le_trans (not_lt.mp ha) (hs.1 _ hmem)

theorem lit_sorted_getD (sv : List ℝ) (hs : sv.Pairwise (· ≤ ·)) (i j : Nat) (hij : i ≤ j)
    (hj : j < sv.length) : sv.getD i 0 ≤ sv.getD j 0 := by
  rcases Nat.lt_or_eq_of_le hij with h | h
  · rw [lit_getD_eq sv 0 hj, lit_getD_eq sv 0 (show i < sv.length by omega)]
    exact List.pairwise_iff_getElem.mp hs i j (by omega) hj h
  · subst h; exact le_refl _

/-! ### the assignment loop `for j in range(a, b): out[idx[j]] = r` -/

theorem lit_setAll_length (ps : List Nat) (r : Nat) (out : List Nat) :
    (ps.foldl (fun out p => out.set p r) out).length = out.length := by
  induction ps generalizing out with
  | nil => rfl
  | cons p ps ih => rw [List.foldl_cons, ih, List.length_set]

theorem lit_setAll_get (ps : List Nat) (r : Nat) (out : List Nat) (i : Nat) :
    (ps.foldl (fun out p => out.set p r) out)[i]? =
      if i ∈ ps then (if i < out.length then some r else none) else out[i]? := by
  induction ps generalizing out with
  | nil => simp
  | cons p ps ih =>
    rw [List.foldl_cons, ih, List.length_set, List.getElem?_set]
    by_cases h1 : i ∈ ps
    · simp [h1]
    · by_cases h2 : p = i
      · subst h2; simp [h1]
      · have h2' : ¬ i = p := fun e => h2 e.symm
        simp [h1, h2, h2']


/-! ### the main loop of `_rank_data` -/

/-- one iteration of `for index in range(vector_length)` (the `step` inside `rankDataCode`) -/
noncomputable def lit_step (n : Nat) (sv : List ℝ) (idx : List Nat) (st : Nat × List Nat)
    (index : Nat) : Nat × List Nat :=
  let dup := st.1 + 1
  if index == n - 1 || sne (sv.getD index (ofNat 0)) (sv.getD (index + 1) (ofNat 0)) then
    (0, (pyRange (index + 1 - dup) (index + 1)).foldl
          (fun out j => out.set (idx.getD j 0) (index + 1 - dup + 1)) st.2)
  else (dup, st.2)

theorem lit_rankDataCode_unfold (v : List ℝ) :
    rankDataCode v =
      ((List.range v.length).foldl
        (lit_step v.length ((argSortCode v).map (fun r => v.getD r (ofNat 0))) (argSortCode v))
        (0, List.replicate v.length 0)).2 := rfl

theorem lit_sne_iff (a b : ℝ) : sne a b = true ↔ a ≠ b := by
  unfold sne
  simp only [Bool.or_eq_true, decide_eq_true_eq]
  exact lt_or_lt_iff_ne

/-- start position of the run of equal values that contains position `k` of the sorted vector
    (`n` for `k = n`) -/
noncomputable def lit_start (sv : List ℝ) (k : Nat) : Nat :=
  if k < sv.length then cntLt sv (sv.getD k 0) else sv.length

theorem lit_start_le (sv : List ℝ) (hs : sv.Pairwise (· ≤ ·)) (k : Nat) (hk : k ≤ sv.length) :
    lit_start sv k ≤ k := by
  unfold lit_start
  split
  · rename_i h
    by_contra hc
    have := (lit_lt_cntLt_iff sv hs (sv.getD k 0) k h).mp (by omega)
    exact lt_irrefl _ this
  · omega

/-- loop invariant after the indices `< k` have been processed -/
structure lit_RInv (sv : List ℝ) (idx : List Nat) (k : Nat) (st : Nat × List Nat) : Prop where
  dup : st.1 = k - lit_start sv k
  len : st.2.length = sv.length
  done : ∀ j < lit_start sv k, st.2[idx.getD j 0]? = some (cntLt sv (sv.getD j 0) + 1)

theorem lit_RInv_init (sv : List ℝ) (idx : List Nat) (hs : sv.Pairwise (· ≤ ·)) :
    lit_RInv sv idx 0 (0, List.replicate sv.length 0) := by
  have h0 : lit_start sv 0 = 0 := Nat.le_zero.mp (lit_start_le sv hs 0 (Nat.zero_le _))
  refine ⟨by simp, by simp, ?_⟩
  intro j hj
  rw [h0] at hj
  exact absurd hj (Nat.not_lt_zero _)

theorem lit_mem_positions (idx : List Nat) (a b i : Nat) :
    i ∈ (pyRange a b).map (fun j => idx.getD j 0) ↔ ∃ j, a ≤ j ∧ j < b ∧ idx.getD j 0 = i := by
  unfold pyRange
  rw [List.mem_map]
  constructor
  · rintro ⟨j, hj, e⟩
    rw [List.mem_range'_1] at hj
    exact ⟨j, hj.1, by omega, e⟩
  · rintro ⟨j, h1, h2, e⟩
    exact ⟨j, List.mem_range'_1.mpr ⟨h1, by omega⟩, e⟩

theorem lit_RInv_step (sv : List ℝ) (idx : List Nat) (hs : sv.Pairwise (· ≤ ·))
    (hlen : idx.length = sv.length) (hnd : idx.Nodup)
    (hlt : ∀ j < sv.length, idx.getD j 0 < sv.length)
    (k : Nat) (hk : k < sv.length) (st : Nat × List Nat) (h : lit_RInv sv idx k st) :
    lit_RInv sv idx (k + 1) (lit_step sv.length sv idx st k) := by
  obtain ⟨hdup, hl, hdone⟩ := h
  have hsk : lit_start sv k ≤ k := lit_start_le sv hs k hk.le
  have hsk_eq : lit_start sv k = cntLt sv (sv.getD k 0) := by
    unfold lit_start; rw [if_pos hk]
  unfold lit_step
  simp only [sc_ofNat, Nat.cast_zero]
  split
  · -- end of a run
    rename_i hc
    have hstart' : lit_start sv (k + 1) = k + 1 := by
      by_cases hk1 : k + 1 < sv.length
      · have hne : sv.getD k 0 ≠ sv.getD (k + 1) 0 := by
          rw [Bool.or_eq_true] at hc
          rcases hc with hc | hc
          · simp only [beq_iff_eq] at hc; omega
          · exact (lit_sne_iff _ _).mp hc
        have hlt' : sv.getD k 0 < sv.getD (k + 1) 0 :=
          lt_of_le_of_ne (lit_sorted_getD sv hs k (k + 1) (by omega) hk1) hne
        have h1 := (lit_lt_cntLt_iff sv hs (sv.getD (k + 1) 0) k hk).mpr hlt'
        have h2 := lit_start_le sv hs (k + 1) hk1.le
        unfold lit_start at h2 ⊢
        rw [if_pos hk1] at h2 ⊢
        omega
      · unfold lit_start; rw [if_neg hk1]; omega
    have e1 : k + 1 - (st.1 + 1) = lit_start sv k := by rw [hdup]; omega
    rw [e1]
    have hfold : ∀ out : List Nat,
        (pyRange (lit_start sv k) (k + 1)).foldl
          (fun out j => out.set (idx.getD j 0) (lit_start sv k + 1)) out =
        ((pyRange (lit_start sv k) (k + 1)).map (fun j => idx.getD j 0)).foldl
          (fun out p => out.set p (lit_start sv k + 1)) out := by
      intro out; rw [List.foldl_map]
    refine ⟨by simp [hstart'], ?_, ?_⟩
    · show ((pyRange _ _).foldl _ st.2).length = _
      rw [hfold, lit_setAll_length, hl]
    · intro j hj
      rw [hstart'] at hj
      show ((pyRange _ _).foldl _ st.2)[idx.getD j 0]? = _
      rw [hfold, lit_setAll_get]
      have hjn : j < sv.length := by omega
      by_cases hjs : j < lit_start sv k
      · -- an earlier run: untouched
        have hno : ¬ ∃ j', lit_start sv k ≤ j' ∧ j' < k + 1 ∧ idx.getD j' 0 = idx.getD j 0 := by
          rintro ⟨j', h1, h2, e⟩
          have hj'n : j' < idx.length := by omega
          have hjn' : j < idx.length := by omega
          rw [lit_getD_eq idx 0 hj'n, lit_getD_eq idx 0 hjn'] at e
          have := (hnd.getElem_inj_iff).mp e
          omega
        rw [if_neg (fun hm => hno ((lit_mem_positions _ _ _ _).mp hm))]
        exact hdone j hjs
      · -- the run that just ended
        have hyes : ∃ j', lit_start sv k ≤ j' ∧ j' < k + 1 ∧ idx.getD j' 0 = idx.getD j 0 :=
          ⟨j, by omega, hj, rfl⟩
        rw [if_pos ((lit_mem_positions _ _ _ _).mpr hyes), hl, if_pos (hlt j hjn)]
        have heq : sv.getD j 0 = sv.getD k 0 := by
          apply le_antisymm (lit_sorted_getD sv hs j k (by omega) hk)
          have := (lit_lt_cntLt_iff sv hs (sv.getD k 0) j hjn).not.mp (by omega)
          exact not_lt.mp this
        rw [heq, hsk_eq]
  · -- inside a run
    rename_i hc
    rw [Bool.or_eq_true, not_or] at hc
    obtain ⟨hc1, hc2⟩ := hc
    have hk1 : k + 1 < sv.length := by
      simp only [beq_iff_eq] at hc1; omega
    have heq : sv.getD k 0 = sv.getD (k + 1) 0 := by
      by_contra hne; exact hc2 ((lit_sne_iff _ _).mpr hne)
    have hstart' : lit_start sv (k + 1) = lit_start sv k := by
      unfold lit_start; rw [if_pos hk1, if_pos hk, heq]
    refine ⟨?_, hl, ?_⟩
    · show st.1 + 1 = _
      rw [hstart', hdup]; omega
    · intro j hj
      rw [hstart'] at hj
      exact hdone j hj


theorem lit_RInv_fold (sv : List ℝ) (idx : List Nat) (hs : sv.Pairwise (· ≤ ·))
    (hlen : idx.length = sv.length) (hnd : idx.Nodup)
    (hlt : ∀ j < sv.length, idx.getD j 0 < sv.length) (k : Nat) (hk : k ≤ sv.length) :
    lit_RInv sv idx k
      ((List.range k).foldl (lit_step sv.length sv idx) (0, List.replicate sv.length 0)) := by
  induction k with
  | zero => exact lit_RInv_init sv idx hs
  | succ k ih =>
    rw [List.range_succ, List.foldl_append, List.foldl_cons, List.foldl_nil]
    exact lit_RInv_step sv idx hs hlen hnd hlt k (by omega) _ (ih (by omega))

/-- what the loop of `_rank_data` computes, for any sorted vector `sv` and any duplicate-free
    index vector `idx` of the same length: entry `idx[j]` of the result is one plus the number
    of entries of `sv` strictly below `sv[j]` -/
theorem lit_loop_spec (sv : List ℝ) (idx : List Nat) (hs : sv.Pairwise (· ≤ ·))
    (hlen : idx.length = sv.length) (hnd : idx.Nodup)
    (hlt : ∀ j < sv.length, idx.getD j 0 < sv.length) :
    let out := ((List.range sv.length).foldl (lit_step sv.length sv idx)
      (0, List.replicate sv.length 0)).2
    out.length = sv.length ∧
      ∀ j < sv.length, out[idx.getD j 0]? = some (cntLt sv (sv.getD j 0) + 1) := by
  intro out
  have h := lit_RInv_fold sv idx hs hlen hnd hlt sv.length (le_refl _)
  refine ⟨h.len, ?_⟩
  intro j hj
  apply h.done
  unfold lit_start
  rw [if_neg (lt_irrefl _)]
  exact hj

theorem lit_cntLt_perm {l l' : List ℝ} (h : l.Perm l') (x : ℝ) : cntLt l x = cntLt l' x := by
  rw [cntLt_eq_countP, cntLt_eq_countP]
  exact h.countP_eq _


end OS
