"""
Registry of the per-property checks, corpus / replay handling, trusted-base text.
"""
import glob, json, os, random
import core

TRUSTED_BASE = [
    "Lean 4.33.0 kernel; Mathlib v4.33.0 as installed; axioms propext, Classical.choice, Quot.sound only (audited per theorem on every run)",
    "hand-written Lean model lean/OSModel (generic over Scalar); its faithfulness to /repo is CHECKED by this run's correspondence (driver = the same definitions at Float), reach bounded by the generators",
    "theorems are over the reals; IEEE rounding, libm (exp, sqrt, erfc) and the Lean compiler/runtime executing the Float instance are trusted executable code",
    "CPython 3.12 semantics as encoded in the model (stable sort, exact int/float comparison, truthiness, bool subclass of int, dict insertion order, itertools.permutations order)",
    "the Python harness (generators, canonicalisation, comparison, search) and the driver's parser",
    "rounding-free correspondence (harness/symtrace.py, exact.py, OSModel/Tape.lean): the instrumented float class and the shims that read math.sqrt/exp/erfc and NormalDist cdf/pdf/inv_cdf as the real functions; the big-float evaluator OSModel/HiPrec.lean, whose arithmetic core (comparison exact; add/sub/mul within 2^(1-P), div/sqrt within 2^(2-P)) is proved in OSProofs/Props/Oracle.lean while its series (exp, erf/erfc, pi, ln 2, Phi^-1) are trusted and cross-checked",
]
EXTRA_TRUST = {}
ASSUMPTIONS = {}
CHECKS = {}
ITEM_CHECKS = {}


def register(prop, fn, item_fn=None, assumptions=None, extra_trust=None):
    CHECKS[prop] = fn
    if item_fn:
        ITEM_CHECKS[prop] = item_fn
    if assumptions:
        ASSUMPTIONS[prop] = assumptions
    if extra_trust:
        EXTRA_TRUST[prop] = extra_trust


def run_corpus(prop, res):
    d = os.path.join(core.VERIF, "corpus", prop)
    n = 0
    for p in sorted(glob.glob(os.path.join(d, "*.json"))):
        item = json.load(open(p))
        if prop in ITEM_CHECKS:
            ITEM_CHECKS[prop](res, item)
            n += 1
    res.count("corpus_items", n)


def replay(prop, res, path):
    body = json.load(open(path))
    items = []
    if isinstance(body, dict) and "failing_inputs" in body:
        items = [f["input"] for f in body["failing_inputs"] + body.get("broken", []) if f.get("input")]
    else:
        items = [body]
    for it in items:
        if prop in ITEM_CHECKS:
            ITEM_CHECKS[prop](res, it)
    if isinstance(body, dict) and "failing_inputs" in body and not res.failures:
        # the recorded input is of a kind that only the full run knows how to rebuild (a call sequence, an interleaving point, a probe of
        # the rating classes): repeat the run that found it, with its seed
        if body.get("seed") is not None:
            res.seed = body["seed"]
        res.notes.append("replay: the recorded input did not fail when re-evaluated on its own; the whole check was repeated with the recorded seed %r" % body.get("seed"))
        CHECKS[prop](res)


def matches_known(k, f):
    """an open known finding matches a failure when its predicate (a substring of the failure
    text, plus optional model kind) holds"""
    if k.get("match") and k["match"] not in str(f["what"]):
        return False
    return True


def search_failing_input(prop, res, soft):
    """A correspondence or a proof obligation broke and the run itself found no concrete failing
    input.  Re-evaluate the property's own predicate on the implementation at the disagreeing
    inputs and on a fresh budget of generated inputs (different seed)."""
    found = []
    if prop in ITEM_CHECKS:
        r2 = core.Result(prop, res.tier, res.seed + 7919)
        for f in soft:
            if f.get("input"):
                try:
                    ITEM_CHECKS[prop](r2, f["input"])
                except Exception:  # noqa: BLE001
                    pass
        try:
            CHECKS[prop](r2)
        except Exception:  # noqa: BLE001
            pass
        found = [f for f in r2.failures if f["kind"] == "property"]
    return found


import p_rate   # noqa: E402,F401
import p_pred   # noqa: E402,F401
import p_api    # noqa: E402,F401
import p_leaf   # noqa: E402,F401
