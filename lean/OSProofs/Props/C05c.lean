import OSProofs.C05cLemmas
import OSProofs.Props.C05b
/-!
# C05 — direction of learning (game level, continued): place exchange and identical teams

Every member of team `i` moves by `(σ̂²/σ_team²)·Ω_i` with a non-negative factor
(`C05_same_direction`, `C05_members_mono`), so "posterior mu does not go down" is a statement
about `Ω_i`.  All statements are about `omegaDelta` (the `(Ω_i, Δ_i)` of `_compute`) at `α := ℝ`,
for arbitrary lists of team aggregates; the only hypotheses on the numbers are `σ_team² ≥ 0`, and
`κ ≥ 0` + the leaf facts where Thurstone–Mosteller's `Ṽ`/`V` occur.  `β` is arbitrary.

1. Full pairing (BTF, TMF): `Ω_i` is monotone in the outcomes of team `i`
   (`C05_rank_improve_full`); in particular exchanging places with a better-placed team never
   lowers `Ω_i` and never raises the `Ω` of the team that moves down (`C05_exchange_full`,
   `C05_exchange_full_game`).  Tie-freeness is NOT needed.
2. Plackett–Luce, identical teams: the better-placed twin has the larger `Ω`, if its place is not
   shared (`C05_identical_teams_PL`, `…_tiefree`), more generally if its tie group is no larger
   than the other twin's (`…_groups`).
3. Plackett–Luce, place exchange: never lowers the `Ω` of the team that moves up (nor raises that
   of the team that moves down), if the better place is not shared (`C05_exchange_PL`,
   `…_tiefree`, `C05_exchange_PL_game`), more generally by tie-group size (`…_groups`).
4. Partial pairing (BTP, TMP), all teams identical, tie-free, listed by place: `Ω` is `≥ 0` for
   the first, exactly `0` in the middle, `≤ 0` for the last (`C05_all_identical_partial`).
5. With a tie at the better place the Plackett–Luce statements 2 and 3 are FALSE for the code and
   for the published formula alike (`C05_identical_teams_PL_ties_false`,
   `C05_exchange_PL_ties_false`): a tied winner only gets `1/A` of the winner's credit.
-/
noncomputable section
namespace OS

/-! ## 1. full pairing: better outcomes, larger `Ω` -/

/-- **Full pairing (Bradley–Terry and Thurstone–Mosteller): `Ω_i` is monotone in the outcomes
of team `i`.**  `ts` and `ts'` are two games with the same teams (same length, same mu and
variance position by position) and possibly different ranks.  If against every opponent `q` the
outcome of `i` in `ts'` is at least as good as in `ts` (a win stays a win, a tie stays a tie or
becomes a win) then `Ω_i(ts) ≤ Ω_i(ts')`.  Needs `σ_i² ≥ 0`; for Thurstone–Mosteller also
`κ ≥ 0` and the leaf facts `−V(−x,t) ≤ Ṽ(x,t) ≤ V(x,t)`. -/
theorem C05_rank_improve_full (K : Kind) (hK : K = .BTF ∨ K = .TMF) (L : Leaves ℝ) (P : Params ℝ)
    (hTM : K = .TMF → LeafFacts L ∧ 0 ≤ P.kappa)
    (ts ts' : List (TeamAgg ℝ)) (hlen : ts'.length = ts.length)
    (hmu : ∀ (q : Nat) (hq : q < ts.length), (ts'[q]'(by omega)).mu = ts[q].mu)
    (hsig : ∀ (q : Nat) (hq : q < ts.length), (ts'[q]'(by omega)).sig2 = ts[q].sig2)
    (i : Nat) (hi : i < ts.length) (hs : 0 ≤ ts[i].sig2)
    (himp : ∀ (q : Nat) (hq : q < ts.length), q ≠ i →
      (ts[i].rank < ts[q].rank → (ts'[i]'(by omega)).rank < (ts'[q]'(by omega)).rank) ∧
      (ts[i].rank = ts[q].rank → (ts'[i]'(by omega)).rank ≤ (ts'[q]'(by omega)).rank)) :
    ((omegaDelta K L P ts)[i]'(omegaDelta_lt L P ts hi)).1 ≤
      ((omegaDelta K L P ts')[i]'(omegaDelta_lt L P ts' (by omega))).1 := by
  rw [swp_omega_spec K L P ts ts.length rfl i hi,
    swp_omega_spec K L P ts' ts.length hlen i (by omega)]
  have hθ : (swp_gameAt ts' ts.length hlen).θ = (swp_gameAt ts ts.length rfl).θ :=
    funext fun p => hmu p.1 p.2
  have hs2 : (swp_gameAt ts' ts.length hlen).s2 = (swp_gameAt ts ts.length rfl).s2 :=
    funext fun p => hsig p.1 p.2
  have h : ∀ q : Fin ts.length, q ≠ ⟨i, hi⟩ →
      ((swp_gameAt ts ts.length rfl).r ⟨i, hi⟩ < (swp_gameAt ts ts.length rfl).r q →
        (swp_gameAt ts' ts.length hlen).r ⟨i, hi⟩ < (swp_gameAt ts' ts.length hlen).r q) ∧
      ((swp_gameAt ts ts.length rfl).r ⟨i, hi⟩ = (swp_gameAt ts ts.length rfl).r q →
        (swp_gameAt ts' ts.length hlen).r ⟨i, hi⟩ ≤ (swp_gameAt ts' ts.length hlen).r q) :=
    fun q hq => himp q.1 q.2 (fun e => hq (Fin.ext e))
  rcases hK with rfl | rfl
  · exact swp_BT_ΩF_le _ _ _ hθ hs2 ⟨i, hi⟩ hs h
  · exact swp_TM_ΩF_le _ _ L (hTM rfl).1 _ _ (hTM rfl).2 hθ hs2 ⟨i, hi⟩ hs h

/-- **Full pairing: exchanging places with a better-placed team.**  `ts'` is `ts` with the ranks
of the teams at positions `i` and `q` exchanged, where `q` is placed strictly better than `i`.
Then the team that moves up does not lose (`Ω_i(ts) ≤ Ω_i(ts')`) and the team that moves down
does not gain (`Ω_q(ts') ≤ Ω_q(ts)`).  Ties anywhere in the game are allowed. -/
theorem C05_exchange_full (K : Kind) (hK : K = .BTF ∨ K = .TMF) (L : Leaves ℝ) (P : Params ℝ)
    (hTM : K = .TMF → LeafFacts L ∧ 0 ≤ P.kappa)
    (ts ts' : List (TeamAgg ℝ)) (hlen : ts'.length = ts.length)
    (hmu : ∀ (p : Nat) (hp : p < ts.length), (ts'[p]'(by omega)).mu = ts[p].mu)
    (hsig : ∀ (p : Nat) (hp : p < ts.length), (ts'[p]'(by omega)).sig2 = ts[p].sig2)
    (i q : Nat) (hi : i < ts.length) (hq : q < ts.length)
    (hsi : 0 ≤ ts[i].sig2) (hsq : 0 ≤ ts[q].sig2)
    (hr : ts[q].rank < ts[i].rank)
    (hri : (ts'[i]'(by omega)).rank = ts[q].rank) (hrq : (ts'[q]'(by omega)).rank = ts[i].rank)
    (hro : ∀ (p : Nat) (hp : p < ts.length), p ≠ i → p ≠ q → (ts'[p]'(by omega)).rank = ts[p].rank) :
    ((omegaDelta K L P ts)[i]'(omegaDelta_lt L P ts hi)).1 ≤
      ((omegaDelta K L P ts')[i]'(omegaDelta_lt L P ts' (by omega))).1 ∧
    ((omegaDelta K L P ts')[q]'(omegaDelta_lt L P ts' (by omega))).1 ≤
      ((omegaDelta K L P ts)[q]'(omegaDelta_lt L P ts hq)).1 := by
  constructor
  · refine C05_rank_improve_full K hK L P hTM ts ts' hlen hmu hsig i hi hsi ?_
    intro p hp hne
    by_cases hpq : p = q
    · subst hpq
      rw [hri, hrq]; omega
    · rw [hri, hro p hp hne hpq]; omega
  · refine C05_rank_improve_full K hK L P hTM ts' ts hlen.symm
      (fun p hp => (hmu p (by omega)).symm) (fun p hp => (hsig p (by omega)).symm) q (by omega)
      (by rw [hsig q hq]; exact hsq) ?_
    intro p hp hne
    by_cases hpi : p = i
    · subst hpi
      rw [hri, hrq]; omega
    · rw [hrq, hro p (by omega) hpi hne]; omega

/-! ## 2. Plackett–Luce: identical teams -/

/-- no two teams of the game share a rank -/
def C05_TieFree (ts : List (TeamAgg ℝ)) : Prop :=
  ∀ (p q : Nat) (hp : p < ts.length) (hq : q < ts.length), p ≠ q → ts[p].rank ≠ ts[q].rank

/-- **Identical teams, Plackett–Luce, by size of the tie groups.**  If the teams at positions `i`
and `k` have the same mu and the same variance, `i` placed strictly better than `k`, and the
tie group of `i` (the number of teams sharing `i`'s rank, `i` included) is no larger than the tie
group of `k`, then `Ω_k ≤ Ω_i`.  The exact identity behind it (`e` the common strength):
`Ω_i − Ω_k = (σ²/c)·(1/A_i − 1/A_k + Σ_{q : r_i < r_q ≤ r_k} (e/S_q)/A_q)`. -/
theorem C05_identical_teams_PL_groups (L : Leaves ℝ) (P : Params ℝ) (ts : List (TeamAgg ℝ))
    (i k : Nat) (hi : i < ts.length) (hk : k < ts.length) (hs : 0 ≤ ts[i].sig2)
    (hmu : ts[i].mu = ts[k].mu) (hsig : ts[i].sig2 = ts[k].sig2) (hr : ts[i].rank < ts[k].rank)
    (hA : C05_tieGroup ts ts[i].rank ≤ C05_tieGroup ts ts[k].rank) :
    ((omegaDelta .PL L P ts)[k]'(omegaDelta_lt L P ts hk)).1 ≤
      ((omegaDelta .PL L P ts)[i]'(omegaDelta_lt L P ts hi)).1 :=
  swp_twins_list L P ts i k hi hk hs hmu hsig hr (by rw [swp_A_gameAt, swp_A_gameAt]; exact hA)

/-- **Identical teams, Plackett–Luce: the better-placed twin learns more**, provided the better
place is not shared: no other team has the rank of `i`.  (Ties anywhere else, including at `k`'s
place, are allowed.) -/
theorem C05_identical_teams_PL (L : Leaves ℝ) (P : Params ℝ) (ts : List (TeamAgg ℝ))
    (i k : Nat) (hi : i < ts.length) (hk : k < ts.length) (hs : 0 ≤ ts[i].sig2)
    (hmu : ts[i].mu = ts[k].mu) (hsig : ts[i].sig2 = ts[k].sig2) (hr : ts[i].rank < ts[k].rank)
    (huntied : ∀ (p : Nat) (hp : p < ts.length), p ≠ i → ts[p].rank ≠ ts[i].rank) :
    ((omegaDelta .PL L P ts)[k]'(omegaDelta_lt L P ts hk)).1 ≤
      ((omegaDelta .PL L P ts)[i]'(omegaDelta_lt L P ts hi)).1 := by
  refine C05_identical_teams_PL_groups L P ts i k hi hk hs hmu hsig hr ?_
  rw [swp_tieGroup_eq_one ts i hi huntied]
  exact swp_tieGroup_pos ts k hk

/-- … in particular in every tie-free game -/
theorem C05_identical_teams_PL_tiefree (L : Leaves ℝ) (P : Params ℝ) (ts : List (TeamAgg ℝ))
    (htf : C05_TieFree ts)
    (i k : Nat) (hi : i < ts.length) (hk : k < ts.length) (hs : 0 ≤ ts[i].sig2)
    (hmu : ts[i].mu = ts[k].mu) (hsig : ts[i].sig2 = ts[k].sig2) (hr : ts[i].rank < ts[k].rank) :
    ((omegaDelta .PL L P ts)[k]'(omegaDelta_lt L P ts hk)).1 ≤
      ((omegaDelta .PL L P ts)[i]'(omegaDelta_lt L P ts hi)).1 :=
  C05_identical_teams_PL L P ts i k hi hk hs hmu hsig hr (fun p hp hne => htf p i hp hi hne)

/-! ## 3. Plackett–Luce: place exchange -/

/-- **Plackett–Luce: exchanging places with a better-placed team, by size of the tie groups.**
`ts'` is `ts` with the ranks of the teams at positions `i` and `q` exchanged, `q` placed strictly
better than `i`, and the tie group of `q` no larger than the tie group of `i`.  Then the team that
moves up does not lose (`Ω_i(ts) ≤ Ω_i(ts')`) and the team that moves down does not gain
(`Ω_q(ts') ≤ Ω_q(ts)`). -/
theorem C05_exchange_PL_groups (L : Leaves ℝ) (P : Params ℝ)
    (ts ts' : List (TeamAgg ℝ)) (hlen : ts'.length = ts.length)
    (hmu : ∀ (p : Nat) (hp : p < ts.length), (ts'[p]'(by omega)).mu = ts[p].mu)
    (hsig : ∀ (p : Nat) (hp : p < ts.length), (ts'[p]'(by omega)).sig2 = ts[p].sig2)
    (i q : Nat) (hi : i < ts.length) (hq : q < ts.length)
    (hsi : 0 ≤ ts[i].sig2) (hsq : 0 ≤ ts[q].sig2)
    (hr : ts[q].rank < ts[i].rank)
    (hri : (ts'[i]'(by omega)).rank = ts[q].rank) (hrq : (ts'[q]'(by omega)).rank = ts[i].rank)
    (hro : ∀ (p : Nat) (hp : p < ts.length), p ≠ i → p ≠ q → (ts'[p]'(by omega)).rank = ts[p].rank)
    (hA : C05_tieGroup ts ts[q].rank ≤ C05_tieGroup ts ts[i].rank) :
    ((omegaDelta .PL L P ts)[i]'(omegaDelta_lt L P ts hi)).1 ≤
      ((omegaDelta .PL L P ts')[i]'(omegaDelta_lt L P ts' (by omega))).1 ∧
    ((omegaDelta .PL L P ts')[q]'(omegaDelta_lt L P ts' (by omega))).1 ≤
      ((omegaDelta .PL L P ts)[q]'(omegaDelta_lt L P ts hq)).1 := by
  have hA' : SpecPL.A (swp_gameAt ts ts.length rfl) ⟨q, hq⟩
      ≤ SpecPL.A (swp_gameAt ts ts.length rfl) ⟨i, hi⟩ := by
    rw [swp_A_gameAt, swp_A_gameAt]; exact hA
  exact ⟨swp_exchange_list L P ts ts' hlen hmu hsig i q hi hq hsi hr hri hrq hro hA',
    swp_exchange_list_down L P ts ts' hlen hmu hsig i q hi hq hsq hr hri hrq hro hA'⟩

/-- **Plackett–Luce: exchanging places with a better-placed team never lowers `Ω`** (and never
raises the `Ω` of the team that moves down), provided the better place is not shared: no other
team has the rank of `q` in `ts`.  With `A ≡ 1` on the places involved this is
`Ω_i = (σ_i²/c)·(1 − Σ_{p : r_p ≤ r_i} e_i/S_p)`: after the exchange the sum ranges over fewer
places, and for the places that remain the set `{j : r_j ≥ r_p}` — hence `S_p` — is unchanged. -/
theorem C05_exchange_PL (L : Leaves ℝ) (P : Params ℝ)
    (ts ts' : List (TeamAgg ℝ)) (hlen : ts'.length = ts.length)
    (hmu : ∀ (p : Nat) (hp : p < ts.length), (ts'[p]'(by omega)).mu = ts[p].mu)
    (hsig : ∀ (p : Nat) (hp : p < ts.length), (ts'[p]'(by omega)).sig2 = ts[p].sig2)
    (i q : Nat) (hi : i < ts.length) (hq : q < ts.length)
    (hsi : 0 ≤ ts[i].sig2) (hsq : 0 ≤ ts[q].sig2)
    (hr : ts[q].rank < ts[i].rank)
    (hri : (ts'[i]'(by omega)).rank = ts[q].rank) (hrq : (ts'[q]'(by omega)).rank = ts[i].rank)
    (hro : ∀ (p : Nat) (hp : p < ts.length), p ≠ i → p ≠ q → (ts'[p]'(by omega)).rank = ts[p].rank)
    (huntied : ∀ (p : Nat) (hp : p < ts.length), p ≠ q → ts[p].rank ≠ ts[q].rank) :
    ((omegaDelta .PL L P ts)[i]'(omegaDelta_lt L P ts hi)).1 ≤
      ((omegaDelta .PL L P ts')[i]'(omegaDelta_lt L P ts' (by omega))).1 ∧
    ((omegaDelta .PL L P ts')[q]'(omegaDelta_lt L P ts' (by omega))).1 ≤
      ((omegaDelta .PL L P ts)[q]'(omegaDelta_lt L P ts hq)).1 := by
  refine C05_exchange_PL_groups L P ts ts' hlen hmu hsig i q hi hq hsi hsq hr hri hrq hro ?_
  rw [swp_tieGroup_eq_one ts q hq huntied]
  exact swp_tieGroup_pos ts i hi

/-- … in particular in every tie-free game -/
theorem C05_exchange_PL_tiefree (L : Leaves ℝ) (P : Params ℝ)
    (ts ts' : List (TeamAgg ℝ)) (htf : C05_TieFree ts) (hlen : ts'.length = ts.length)
    (hmu : ∀ (p : Nat) (hp : p < ts.length), (ts'[p]'(by omega)).mu = ts[p].mu)
    (hsig : ∀ (p : Nat) (hp : p < ts.length), (ts'[p]'(by omega)).sig2 = ts[p].sig2)
    (i q : Nat) (hi : i < ts.length) (hq : q < ts.length)
    (hsi : 0 ≤ ts[i].sig2) (hsq : 0 ≤ ts[q].sig2)
    (hr : ts[q].rank < ts[i].rank)
    (hri : (ts'[i]'(by omega)).rank = ts[q].rank) (hrq : (ts'[q]'(by omega)).rank = ts[i].rank)
    (hro : ∀ (p : Nat) (hp : p < ts.length), p ≠ i → p ≠ q → (ts'[p]'(by omega)).rank = ts[p].rank) :
    ((omegaDelta .PL L P ts)[i]'(omegaDelta_lt L P ts hi)).1 ≤
      ((omegaDelta .PL L P ts')[i]'(omegaDelta_lt L P ts' (by omega))).1 ∧
    ((omegaDelta .PL L P ts')[q]'(omegaDelta_lt L P ts' (by omega))).1 ≤
      ((omegaDelta .PL L P ts)[q]'(omegaDelta_lt L P ts hq)).1 :=
  C05_exchange_PL L P ts ts' hlen hmu hsig i q hi hq hsi hsq hr hri hrq hro
    (fun p hp hne => htf p q hp hq hne)

/-! ## 4. the exchange as an operation on the game; from `Ω` to the members -/

/-- **Place exchange, full pairing, on the game itself**: for `K ∈ {BTF, TMF}`, after
`C05_exchangeRanks ts i q` with `q` placed strictly better than `i`, `Ω_i` has not gone down and `Ω_q`
has not gone up. -/
theorem C05_exchange_full_game (K : Kind) (hK : K = .BTF ∨ K = .TMF) (L : Leaves ℝ) (P : Params ℝ)
    (hTM : K = .TMF → LeafFacts L ∧ 0 ≤ P.kappa) (ts : List (TeamAgg ℝ))
    (i q : Nat) (hi : i < ts.length) (hq : q < ts.length)
    (hsi : 0 ≤ ts[i].sig2) (hsq : 0 ≤ ts[q].sig2) (hr : ts[q].rank < ts[i].rank) :
    ((omegaDelta K L P ts)[i]'(omegaDelta_lt L P ts hi)).1 ≤
      ((omegaDelta K L P (C05_exchangeRanks ts i q))[i]'(omegaDelta_lt L P _ (by simpa using hi))).1 ∧
    ((omegaDelta K L P (C05_exchangeRanks ts i q))[q]'(omegaDelta_lt L P _ (by simpa using hq))).1 ≤
      ((omegaDelta K L P ts)[q]'(omegaDelta_lt L P ts hq)).1 := by
  obtain ⟨h1, h2, h3, h4⟩ := swp_exchangeRanks_spec ts i q hi hq
  exact C05_exchange_full K hK L P hTM ts (C05_exchangeRanks ts i q) (by simp)
    (fun p hp => (h1 p hp).1) (fun p hp => (h1 p hp).2.1) i q hi hq hsi hsq hr h2 h3 h4

/-- **Place exchange, Plackett–Luce, on the game itself**: in a tie-free game, after
`C05_exchangeRanks ts i q` with `q` placed strictly better than `i`, `Ω_i` has not gone down and `Ω_q`
has not gone up. -/
theorem C05_exchange_PL_game (L : Leaves ℝ) (P : Params ℝ) (ts : List (TeamAgg ℝ))
    (htf : C05_TieFree ts) (i q : Nat) (hi : i < ts.length) (hq : q < ts.length)
    (hsi : 0 ≤ ts[i].sig2) (hsq : 0 ≤ ts[q].sig2) (hr : ts[q].rank < ts[i].rank) :
    ((omegaDelta .PL L P ts)[i]'(omegaDelta_lt L P ts hi)).1 ≤
      ((omegaDelta .PL L P (C05_exchangeRanks ts i q))[i]'(omegaDelta_lt L P _ (by simpa using hi))).1 ∧
    ((omegaDelta .PL L P (C05_exchangeRanks ts i q))[q]'(omegaDelta_lt L P _ (by simpa using hq))).1 ≤
      ((omegaDelta .PL L P ts)[q]'(omegaDelta_lt L P ts hq)).1 := by
  obtain ⟨h1, h2, h3, h4⟩ := swp_exchangeRanks_spec ts i q hi hq
  exact C05_exchange_PL_tiefree L P ts (C05_exchangeRanks ts i q) htf (by simp)
    (fun p hp => (h1 p hp).1) (fun p hp => (h1 p hp).2.1) i q hi hq hsi hsq hr h2 h3 h4

/-- **From `Ω` to the members' mu.**  The same team (same roster, same team variance `≥ 0`) updated
with a larger `Ω`: every member ends with a mu at least as large (whatever the two `Δ`). -/
theorem C05_members_mono (κ ω ω' δ δ' : ℝ) (t t' : TeamAgg ℝ) (hp : t'.players = t.players)
    (hsig : t'.sig2 = t.sig2) (hs : 0 ≤ t.sig2) (hω : ω ≤ ω') :
    List.Forall₂ (fun p p' => p.mu ≤ p'.mu) (applyTeam κ t ω δ) (applyTeam κ t' ω' δ') := by
  unfold applyTeam
  rw [hp, hsig, List.forall₂_map_left_iff, List.forall₂_map_right_iff, List.forall₂_same]
  intro p _
  have : p.sigma * p.sigma / t.sig2 * ω ≤ p.sigma * p.sigma / t.sig2 * ω' :=
    mul_le_mul_of_nonneg_left hω (div_nonneg (mul_self_nonneg _) hs)
  simpa using this

/-! ## 5. partial pairing: a ladder of identical teams -/

/-- **Partial pairing (BTP, TMP), all teams identical, no ties, teams listed by place** (the order
in which `rate` hands them to `_compute`).  Every team strictly between the first and the last
gets `Ω = 0` exactly (its win term against the team below and its loss term against the team above
cancel), every team that has a team below it gets `Ω ≥ 0` and every team that has a team above it
gets `Ω ≤ 0`; hence the posteriors are weakly ordered by place: `p` before `q` ⇒ `Ω_q ≤ Ω_p`.
(For TMP, `V ≥ 0` is used.) -/
theorem C05_all_identical_partial (K : Kind) (hK : K = .BTP ∨ K = .TMP) (L : Leaves ℝ)
    (hL : K = .TMP → LeafFacts L) (P : Params ℝ) (ts : List (TeamAgg ℝ)) (m s : ℝ) (hs : 0 ≤ s)
    (hid : ∀ t ∈ ts, t.mu = m ∧ t.sig2 = s)
    (hsorted : ∀ (p q : Nat) (hp : p < ts.length) (hq : q < ts.length), p < q →
      ts[p].rank < ts[q].rank) :
    (∀ (i : Nat) (hi : i < ts.length), 0 < i → i + 1 < ts.length →
      ((omegaDelta K L P ts)[i]'(omegaDelta_lt L P ts hi)).1 = 0) ∧
    (∀ (p q : Nat) (hp : p < ts.length) (hq : q < ts.length), p < q →
      ((omegaDelta K L P ts)[q]'(omegaDelta_lt L P ts hq)).1 ≤ 0 ∧
      0 ≤ ((omegaDelta K L P ts)[p]'(omegaDelta_lt L P ts hp)).1 ∧
      ((omegaDelta K L P ts)[q]'(omegaDelta_lt L P ts hq)).1 ≤
        ((omegaDelta K L P ts)[p]'(omegaDelta_lt L P ts hp)).1) := by
  have hC : 0 ≤ Real.sqrt (s + s + 2 * (P.beta * P.beta)) := Real.sqrt_nonneg _
  have key : ∀ (F : TeamAgg ℝ → TeamAgg ℝ → ℝ) (w : ℝ), 0 ≤ w →
      (∀ ti ∈ ts, ∀ tq ∈ ts, (ti.rank < tq.rank → F ti tq = w) ∧ (tq.rank < ti.rank → F ti tq = -w)) →
      (∀ (i : Nat) (hi : i < ts.length), 0 < i → i + 1 < ts.length →
        sumL ((neighboursOf ts i).map (F ts[i])) = 0) ∧
      (∀ (p q : Nat) (hp : p < ts.length) (hq : q < ts.length), p < q →
        sumL ((neighboursOf ts q).map (F ts[q])) ≤ 0 ∧
        0 ≤ sumL ((neighboursOf ts p).map (F ts[p])) ∧
        sumL ((neighboursOf ts q).map (F ts[q])) ≤ sumL ((neighboursOf ts p).map (F ts[p]))) := by
    intro F w hw hF
    obtain ⟨h1, h2⟩ := swp_ladder_abstract F w hw ts
      (fun p q hp hq hpq => (hF _ (List.getElem_mem hp) _ (List.getElem_mem hq)).1
        (hsorted p q hp hq hpq))
      (fun p q hp hq hpq => (hF _ (List.getElem_mem hp) _ (List.getElem_mem hq)).2
        (hsorted q p hq hp hpq))
    exact ⟨h1, fun p q hp hq hpq =>
      ⟨(h2 p q hp hq hpq).1, (h2 p q hp hq hpq).2, (h2 p q hp hq hpq).1.trans (h2 p q hp hq hpq).2⟩⟩
  rcases hK with rfl | rfl
  · have := key (fun ti tq => (btPair P.beta P.gamma ts.length ti tq).1)
      (s / Real.sqrt (s + s + 2 * (P.beta * P.beta)) * (1 / 2))
      (mul_nonneg (div_nonneg hs hC) (by norm_num))
      (fun ti hi tq hq => swp_btPair_identical _ _ _ m s ti tq (hid ti hi) (hid tq hq))
    have e : ∀ (i : Nat) (hi : i < ts.length),
        ((omegaDelta .BTP L P ts)[i]'(omegaDelta_lt L P ts hi)).1 = sumL ((neighboursOf ts i).map
          (fun tq => (btPair P.beta P.gamma ts.length ts[i] tq).1)) := by
      intro i hi
      rw [omegaDelta_BTP_getElem L P ts i hi, sumPairs, List.map_map]; rfl
    exact ⟨fun i hi h0 h1 => by rw [e i hi]; exact this.1 i hi h0 h1,
      fun p q hp hq hpq => by rw [e p hp, e q hq]; exact this.2 p q hp hq hpq⟩
  · have hcm : (0:ℝ) ≤ Scalar.ofNat 2 := by simp
    have := key (fun ti tq => (tmPair L (Scalar.ofNat 2) P.beta P.kappa P.gamma ts.length ti tq).1)
      (s / (Scalar.ofNat 2 * Real.sqrt (s + s + 2 * (P.beta * P.beta))) *
        L.v 0 (P.kappa / (Scalar.ofNat 2 * Real.sqrt (s + s + 2 * (P.beta * P.beta)))))
      (mul_nonneg (div_nonneg hs (mul_nonneg hcm hC)) ((hL rfl).v_nonneg _ _))
      (fun ti hi tq hq => swp_tmPair_identical L _ _ _ _ _ m s ti tq (hid ti hi) (hid tq hq))
    have e : ∀ (i : Nat) (hi : i < ts.length),
        ((omegaDelta .TMP L P ts)[i]'(omegaDelta_lt L P ts hi)).1 = sumL ((neighboursOf ts i).map
          (fun tq => (tmPair L (Scalar.ofNat 2) P.beta P.kappa P.gamma ts.length ts[i] tq).1)) := by
      intro i hi
      rw [omegaDelta_TMP_getElem L P ts i hi, sumPairs, List.map_map]; rfl
    exact ⟨fun i hi h0 h1 => by rw [e i hi]; exact this.1 i hi h0 h1,
      fun p q hp hq hpq => by rw [e p hp, e q hq]; exact this.2 p q hp hq hpq⟩

/-- the Bradley–Terry case of `C05_all_identical_partial` (no hypothesis on the leaves) -/
theorem C05_all_identical_partial_BTP (L : Leaves ℝ) (P : Params ℝ) (ts : List (TeamAgg ℝ))
    (m s : ℝ) (hs : 0 ≤ s) (hid : ∀ t ∈ ts, t.mu = m ∧ t.sig2 = s)
    (hsorted : ∀ (p q : Nat) (hp : p < ts.length) (hq : q < ts.length), p < q →
      ts[p].rank < ts[q].rank)
    (p q : Nat) (hp : p < ts.length) (hq : q < ts.length) (hpq : p < q) :
    ((omegaDelta .BTP L P ts)[q]'(omegaDelta_lt L P ts hq)).1 ≤
      ((omegaDelta .BTP L P ts)[p]'(omegaDelta_lt L P ts hp)).1 :=
  ((C05_all_identical_partial .BTP (Or.inl rfl) L (fun h => by cases h) P ts m s hs hid hsorted).2
    p q hp hq hpq).2.2

/-! ## 6. with a tie at the better place the Plackett–Luce statements are false -/

/-- **With a tie at the better place the Plackett–Luce statements fail.**  Five identical teams
(mu 0, variance 1), ranks `[0, 0, 1, 2, 3]`: positions 0 and 2 are identical teams and position 0
placed strictly better, yet `Ω_0 = (3/10)/c < (7/15)/c = Ω_2` — the team that finished alone in
second place learns more than the two teams that tied for first (each of which gets only half of
the winner's credit).  Any `β`, any leaves. -/
theorem C05_identical_teams_PL_ties_false (L : Leaves ℝ) (P : Params ℝ) :
    ((omegaDelta .PL L P swp_exTiesPL)[0]'(omegaDelta_lt L P _ (by decide))).1 <
      ((omegaDelta .PL L P swp_exTiesPL)[2]'(omegaDelta_lt L P _ (by decide))).1 := by
  rw [swp_omega_spec .PL L P swp_exTiesPL 5 rfl 0 (by decide),
    swp_omega_spec .PL L P swp_exTiesPL 5 rfl 2 (by decide)]
  have h := swp_exTies_vals P.beta
  have hc := swp_exTies_c_pos P.beta
  show SpecPL.Ω (swp_gameAt swp_exTiesPL 5 rfl) P.beta 0 < SpecPL.Ω (swp_gameAt swp_exTiesPL 5 rfl) P.beta 2
  rw [h.1, h.2]
  exact mul_lt_mul_of_pos_left (by norm_num) (by positivity)

/-- … and moving up into a shared place can cost mu: the team at position 2 of `swp_exTiesPL` (alone
in second place) exchanges ranks with the tied winner at position 0; its `Ω` drops from `(7/15)/c`
to `(3/10)/c`. -/
theorem C05_exchange_PL_ties_false (L : Leaves ℝ) (P : Params ℝ) :
    ((omegaDelta .PL L P (C05_exchangeRanks swp_exTiesPL 2 0))[2]'(omegaDelta_lt L P _ (by
        rw [swp_exchangeRanks_length]; decide))).1 <
      ((omegaDelta .PL L P swp_exTiesPL)[2]'(omegaDelta_lt L P _ (by decide))).1 := by
  have hlen : (C05_exchangeRanks swp_exTiesPL 2 0).length = 5 := by rw [swp_exchangeRanks_length]; rfl
  rw [swp_omega_spec .PL L P swp_exTiesPL 5 rfl 2 (by decide),
    swp_omega_spec .PL L P (C05_exchangeRanks swp_exTiesPL 2 0) 5 hlen 2 (by rw [hlen]; decide)]
  have hG : swp_gameAt (C05_exchangeRanks swp_exTiesPL 2 0) 5 hlen = swp_gameAt swp_exTiesPL' 5 rfl := by
    unfold swp_gameAt
    simp only [swp_exTies'_eq]
  have hc := swp_exTies_c_pos P.beta
  show SpecPL.Ω (swp_gameAt (C05_exchangeRanks swp_exTiesPL 2 0) 5 hlen) P.beta 2
    < SpecPL.Ω (swp_gameAt swp_exTiesPL 5 rfl) P.beta 2
  rw [hG, swp_exTies'_val, (swp_exTies_vals P.beta).2]
  exact mul_lt_mul_of_pos_left (by norm_num) (by positivity)

/-! ## non-vacuity -/

theorem swp_exGame_tieFree : C05_TieFree exGame := by
  intro p q hp hq hne
  have hp' : p < 3 := hp
  have hq' : q < 3 := hq
  interval_cases p <;> interval_cases q <;> simp_all [exGame]

theorem swp_exTwins_tieFree : C05_TieFree exTwins := by
  intro p q hp hq hne
  have hp' : p < 3 := hp
  have hq' : q < 3 := hq
  interval_cases p <;> interval_cases q <;> simp_all [exTwins]

/-- the hypotheses of the exchange theorems are satisfiable: in `exGame` (ranks 0, 1, 2, no ties)
the last team exchanges places with the winner; full pairing, code leaves, any `β`, any `κ ≥ 0` -/
example (K : Kind) (hK : K = .BTF ∨ K = .TMF) (P : Params ℝ) (hκ : 0 ≤ P.kappa) :
    ((omegaDelta K codeLeaves P exGame)[2]'(omegaDelta_lt _ P _ (by simp [exGame]))).1 ≤
      ((omegaDelta K codeLeaves P (C05_exchangeRanks exGame 2 0))[2]'(omegaDelta_lt _ P _
        (by simp [exGame]))).1 ∧
    ((omegaDelta K codeLeaves P (C05_exchangeRanks exGame 2 0))[0]'(omegaDelta_lt _ P _
        (by simp [exGame]))).1 ≤
      ((omegaDelta K codeLeaves P exGame)[0]'(omegaDelta_lt _ P _ (by simp [exGame]))).1 :=
  C05_exchange_full_game K hK codeLeaves P (fun _ => ⟨leafFacts_code, hκ⟩) exGame 2 0
    (by simp [exGame]) (by simp [exGame]) (by simp [exGame]) (by simp [exGame]) (by simp [exGame])

/-- … and under Plackett–Luce -/
example (P : Params ℝ) :
    ((omegaDelta .PL codeLeaves P exGame)[2]'(omegaDelta_lt _ P _ (by simp [exGame]))).1 ≤
      ((omegaDelta .PL codeLeaves P (C05_exchangeRanks exGame 2 0))[2]'(omegaDelta_lt _ P _
        (by simp [exGame]))).1 ∧
    ((omegaDelta .PL codeLeaves P (C05_exchangeRanks exGame 2 0))[0]'(omegaDelta_lt _ P _
        (by simp [exGame]))).1 ≤
      ((omegaDelta .PL codeLeaves P exGame)[0]'(omegaDelta_lt _ P _ (by simp [exGame]))).1 :=
  C05_exchange_PL_game codeLeaves P exGame swp_exGame_tieFree 2 0
    (by simp [exGame]) (by simp [exGame]) (by simp [exGame]) (by simp [exGame]) (by simp [exGame])

/-- twins under Plackett–Luce: positions 0 and 2 of `exTwins` -/
example (P : Params ℝ) :
    ((omegaDelta .PL codeLeaves P exTwins)[2]'(omegaDelta_lt _ P _ (by simp [exTwins]))).1 ≤
      ((omegaDelta .PL codeLeaves P exTwins)[0]'(omegaDelta_lt _ P _ (by simp [exTwins]))).1 :=
  C05_identical_teams_PL_tiefree codeLeaves P exTwins swp_exTwins_tieFree 0 2 (by simp [exTwins])
    (by simp [exTwins]) (by simp [exTwins]) (by simp [exTwins]) (by simp [exTwins])
    (by simp [exTwins])

/-- twins in a game WITH ties elsewhere: positions 2 (alone in second place) and 3 of
`swp_exTiesPL`, whose first place is shared by positions 0 and 1 -/
example (P : Params ℝ) :
    ((omegaDelta .PL codeLeaves P swp_exTiesPL)[3]'(omegaDelta_lt _ P _ (by decide))).1 ≤
      ((omegaDelta .PL codeLeaves P swp_exTiesPL)[2]'(omegaDelta_lt _ P _ (by decide))).1 :=
  C05_identical_teams_PL codeLeaves P swp_exTiesPL 2 3 (by decide) (by decide)
    (by simp [swp_exTiesPL]) (by simp [swp_exTiesPL]) (by simp [swp_exTiesPL])
    (by simp [swp_exTiesPL]) (by
      intro p hp hne
      have hp' : p < 5 := hp
      interval_cases p <;> simp_all [swp_exTiesPL])

/-- a ladder of three identical teams -/
def swp_exLadder : List (TeamAgg ℝ) := [⟨25, 64, 0, []⟩, ⟨25, 64, 1, []⟩, ⟨25, 64, 2, []⟩]

example (K : Kind) (hK : K = .BTP ∨ K = .TMP) (P : Params ℝ) :
    ((omegaDelta K codeLeaves P swp_exLadder)[1]'(omegaDelta_lt _ P _ (by decide))).1 = 0 ∧
    ((omegaDelta K codeLeaves P swp_exLadder)[2]'(omegaDelta_lt _ P _ (by decide))).1 ≤
      ((omegaDelta K codeLeaves P swp_exLadder)[0]'(omegaDelta_lt _ P _ (by decide))).1 := by
  have h := C05_all_identical_partial K hK codeLeaves (fun _ => leafFacts_code) P swp_exLadder 25 64
    (by norm_num) (by simp [swp_exLadder]) (by
      intro p q hp hq hpq
      have hp' : p < 3 := hp
      have hq' : q < 3 := hq
      interval_cases p <;> interval_cases q <;> simp_all [swp_exLadder])
  exact ⟨h.1 1 (by decide) (by decide) (by decide), (h.2 0 2 (by decide) (by decide) (by decide)).2.2⟩

end OS
end
