import OSProofs.PredictLemmas
import Mathlib.Algebra.BigOperators.Group.List.Basic
import Mathlib.Algebra.Order.BigOperators.Group.List
import Mathlib.Data.Real.Basic
import Mathlib.Tactic.Ring
import Mathlib.Tactic.Linarith
/-!
# Real sums over ordered pairs

Symmetrisation of the double sum `Σ_i Σ_{b ∈ others of i} B(l[i], b)` (which is the sum of `B` over
`orderedPairs l`): it equals the sum over the unordered pairs of `B(a, b) + B(b, a)`.
-/
namespace OS

/-- the double sum "for each entry, over the other entries" -/
def pairSum {β : Type} (B : β → β → ℝ) (l : List β) : ℝ :=
  ((picks l).map (fun p => (p.2.map (B p.1)).sum)).sum

theorem pairSum_cons {β : Type} (B : β → β → ℝ) (x : β) (xs : List β) :
    pairSum B (x :: xs) = (xs.map (fun b => B x b + B b x)).sum + pairSum B xs := by
  unfold pairSum
  simp only [picks, List.map_cons, List.sum_cons, List.map_map]
  have h1 : ((fun p : β × List β => (p.2.map (B p.1)).sum) ∘ fun p : β × List β => (p.1, x :: p.2))
      = fun p : β × List β => B p.1 x + (p.2.map (B p.1)).sum := by
    funext p; simp
  have h2 : ((picks xs).map (fun p => B p.1 x)).sum = (xs.map (fun y => B y x)).sum := by
    conv_rhs => rw [← picks_map_fst xs, List.map_map]
    rfl
  rw [h1, List.sum_map_add, h2, List.sum_map_add]
  ring

/-- symmetrisation: the double sum is the sum over unordered pairs of `B a b + B b a` -/
theorem pairSum_eq_unordered {β : Type} (B : β → β → ℝ) (l : List β) :
    pairSum B l = ((unorderedPairs l).map (fun p => B p.1 p.2 + B p.2 p.1)).sum := by
  induction l with
  | nil => simp [pairSum, picks, unorderedPairs]
  | cons x xs ih =>
    rw [pairSum_cons, ih]
    simp only [unorderedPairs, List.map_append, List.sum_append, List.map_map]
    rfl

/-- the zipIdx / eraseIdx form of the double sum -/
theorem pairSum_eq_zipIdx {β : Type} (B : β → β → ℝ) (l : List β) :
    pairSum B l = (l.zipIdx.map (fun a => ((l.eraseIdx a.2).map (B a.1)).sum)).sum := by
  unfold pairSum
  rw [zipIdx_map_eraseIdx' l (fun y r => (r.map (B y)).sum)]

/-- the sum of `f` over `orderedPairs l` (= `itertools.permutations(l, 2)`) is the sum over the
unordered pairs of `f (a, b) + f (b, a)` -/
theorem sum_orderedPairs_eq_unordered {β : Type} (f : β × β → ℝ) (l : List β) :
    ((orderedPairs l).map f).sum = ((unorderedPairs l).map (fun p => f p + f p.swap)).sum := by
  have h := pairSum_eq_unordered (fun a b => f (a, b)) l
  rw [pairSum_eq_zipIdx] at h
  rw [orderedPairs_map_eraseIdx]
  have : ∀ (L : List (β × ℕ)) (g : β × ℕ → List ℝ),
      (L.flatMap g).sum = (L.map (fun a => (g a).sum)).sum := by
    intro L g
    induction L with
    | nil => simp
    | cons a L ih => simp [ih]
  rw [this, h]
  rfl

theorem real_card_unorderedPairs {β : Type} (l : List β) :
    ((unorderedPairs l).length : ℝ) = ((l.length * (l.length - 1) : ℕ) : ℝ) / 2 := by
  rw [← length_unorderedPairs]
  push_cast
  ring

/-- if every symmetrised pair term is `c`, the double sum is `c · n(n-1)/2` -/
theorem pairSum_of_symm_eq {β : Type} (B : β → β → ℝ) (c : ℝ) (h : ∀ a b, B a b + B b a = c)
    (l : List β) : pairSum B l = c * (((l.length * (l.length - 1) : ℕ) : ℝ) / 2) := by
  rw [pairSum_eq_unordered, ← real_card_unorderedPairs]
  have : ∀ L : List (β × β), (L.map (fun p => B p.1 p.2 + B p.2 p.1)).sum = c * (L.length : ℝ) := by
    intro L
    induction L with
    | nil => simp
    | cons p L ih =>
      rw [List.map_cons, List.sum_cons, ih, h, List.length_cons]
      push_cast
      ring
  exact this _

/-- if every symmetrised pair term is ≥ 0, so is the double sum -/
theorem pairSum_nonneg {β : Type} (B : β → β → ℝ) (h : ∀ a b, 0 ≤ B a b + B b a) (l : List β) :
    0 ≤ pairSum B l := by
  rw [pairSum_eq_unordered]
  apply List.sum_nonneg
  intro x hx
  obtain ⟨p, _, rfl⟩ := List.mem_map.mp hx
  exact h _ _

/-- if every symmetrised pair term is ≤ c, the double sum is ≤ `c · n(n-1)/2` -/
theorem pairSum_le {β : Type} (B : β → β → ℝ) (c : ℝ) (h : ∀ a b, B a b + B b a ≤ c)
    (l : List β) : pairSum B l ≤ c * (((l.length * (l.length - 1) : ℕ) : ℝ) / 2) := by
  rw [pairSum_eq_unordered, ← real_card_unorderedPairs]
  have : ∀ L : List (β × β), (L.map (fun p => B p.1 p.2 + B p.2 p.1)).sum ≤ c * (L.length : ℝ) := by
    intro L
    induction L with
    | nil => simp
    | cons p L ih =>
      simp only [List.map_cons, List.sum_cons, List.length_cons]
      push_cast
      have := h p.1 p.2
      linarith
  exact this _

/-- the sum over the others is the total minus the own term -/
theorem sum_map_eraseIdx {β : Type} (l : List β) (G : β → ℝ) (i : ℕ) (hi : i < l.length) :
    ((l.eraseIdx i).map G).sum = (l.map G).sum - G l[i] := by
  induction l generalizing i with
  | nil => simp at hi
  | cons x xs ih =>
    cases i with
    | zero => simp
    | succ j =>
      simp only [List.eraseIdx_cons_succ, List.map_cons, List.sum_cons, List.getElem_cons_succ]
      rw [ih j (by simpa using hi)]
      ring

/-- replacing one entry changes the total by the difference of the two terms -/
theorem sum_map_set {β : Type} (l : List β) (G : β → ℝ) (i : ℕ) (hi : i < l.length) (a : β) :
    ((l.set i a).map G).sum = (l.map G).sum - G l[i] + G a := by
  induction l generalizing i with
  | nil => simp at hi
  | cons x xs ih =>
    cases i with
    | zero => simp [add_comm]
    | succ j =>
      simp only [List.set_cons_succ, List.map_cons, List.sum_cons, List.getElem_cons_succ]
      rw [ih j (by simpa using hi)]
      ring

end OS
