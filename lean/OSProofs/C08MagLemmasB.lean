import OSProofs.C08MagLemmas
import OSProofs.Props.C09
import OSProofs.DrawLemmas
import Mathlib.Analysis.Real.Pi.Bounds
import Mathlib.Analysis.Complex.ExponentialBounds
/-!
# Helper lemmas for C08Mag, part B: the per-player update, `compute`, `rate`, the predictions,
and the numeric facts (`e^453 < 10^197` …).  Every lemma is prefixed `mag_`.
-/
noncomputable section
namespace OS
open Gauss

/-! ### the per-player update at the tail of `_compute` -/

namespace Mag

/-- the share `σ̂_p² / σ_t²` of player `p` in team `t` -/
def share (t : TeamAgg ℝ) (p : Rating ℝ) : ℝ := p.sigma * p.sigma / t.sig2

/-- every intermediate quantity of the update of one player `p` of team `t` by `(ω, δ)`, given
`|ω| ≤ W` and `0 ≤ δ ≤ D` -/
structure PlayerUpdateBounds (β lo κ W D : ℝ) (t : TeamAgg ℝ) (p : Rating ℝ) (ω δ : ℝ) : Prop where
  share_ge : lo * lo / (3200 * (β * β)) ≤ share t p
  share_le : share t p ≤ 1
  mu_step : |share t p * ω| ≤ W
  mu_new : |p.mu + share t p * ω| ≤ 20 * β + W
  var_step_ge : 0 ≤ share t p * δ
  var_step_le : share t p * δ ≤ D
  floor_arg_ge : 1 - D ≤ 1 - share t p * δ
  floor_arg_le : 1 - share t p * δ ≤ 1
  root_arg_ge : κ ≤ smax (1 - share t p * δ) κ
  root_arg_le : smax (1 - share t p * δ) κ ≤ 1
  root_ge : Real.sqrt κ ≤ Real.sqrt (smax (1 - share t p * δ) κ)
  root_le : Real.sqrt (smax (1 - share t p * δ) κ) ≤ 1
  sigma_new_ge : Real.sqrt κ * lo ≤ p.sigma * Real.sqrt (smax (1 - share t p * δ) κ)
  sigma_new_ge' : Real.sqrt κ * p.sigma ≤ p.sigma * Real.sqrt (smax (1 - share t p * δ) κ)
  sigma_new_le : p.sigma * Real.sqrt (smax (1 - share t p * δ) κ) ≤ p.sigma
  sigma_new_sq_le : p.sigma * Real.sqrt (smax (1 - share t p * δ) κ)
      * (p.sigma * Real.sqrt (smax (1 - share t p * δ) κ)) ≤ 200 * (β * β)

end Mag

theorem mag_player_update {β lo κ W D ω δ : ℝ} {ts : List (TeamAgg ℝ)} (A : Mag.AggBounds β lo ts)
    (_hκ0 : 0 < κ) (hκ1 : κ ≤ 1) (hω : |ω| ≤ W) (hδ0 : 0 ≤ δ) (hδ : δ ≤ D)
    {t : TeamAgg ℝ} (ht : t ∈ ts) {p : Rating ℝ} (hp : p ∈ t.players) :
    Mag.PlayerUpdateBounds β lo κ W D t p ω δ := by
  have hβ := A.beta_pos
  have hlo := A.lo_pos
  have hsp : 0 < t.sig2 := lt_of_lt_of_le (mul_pos hlo hlo) (A.var_ge t ht)
  have hpl := A.player_sigma_ge t ht p hp
  have hp0 : 0 < p.sigma := lt_of_lt_of_le hlo hpl
  have hpp : lo * lo ≤ p.sigma * p.sigma := mul_le_mul hpl hpl hlo.le hp0.le
  have hW : 0 ≤ W := le_trans (abs_nonneg _) hω
  have hs0 : 0 ≤ Mag.share t p := div_nonneg (mul_self_nonneg _) hsp.le
  have hs1 : Mag.share t p ≤ 1 := by
    unfold Mag.share; rw [div_le_one hsp]; exact A.player_share t ht p hp
  have hsg : lo * lo / (3200 * (β * β)) ≤ Mag.share t p :=
    mag_div_le_div (mul_self_nonneg lo) hpp hsp (A.var_le t ht)
  have hstep : |Mag.share t p * ω| ≤ W := by
    rw [abs_mul, abs_of_nonneg hs0]
    calc Mag.share t p * |ω| ≤ 1 * W := mul_le_mul hs1 hω (abs_nonneg _) zero_le_one
      _ = W := one_mul W
  have hvs0 : 0 ≤ Mag.share t p * δ := mul_nonneg hs0 hδ0
  have hvs1 : Mag.share t p * δ ≤ D := by
    calc Mag.share t p * δ ≤ 1 * D := mul_le_mul hs1 hδ hδ0 zero_le_one
      _ = D := one_mul D
  have hmax1 : κ ≤ smax (1 - Mag.share t p * δ) κ := by rw [smax_eq_max]; exact le_max_right _ _
  have hmax2 : smax (1 - Mag.share t p * δ) κ ≤ 1 := by
    rw [smax_eq_max]; exact max_le (by linarith) hκ1
  have hr1 := Real.sqrt_le_sqrt hmax1
  have hr2 : Real.sqrt (smax (1 - Mag.share t p * δ) κ) ≤ 1 := by
    rw [Real.sqrt_le_one]; exact hmax2
  have hr0 : 0 ≤ Real.sqrt (smax (1 - Mag.share t p * δ) κ) := Real.sqrt_nonneg _
  have hnew_le : p.sigma * Real.sqrt (smax (1 - Mag.share t p * δ) κ) ≤ p.sigma :=
    mul_le_of_le_one_right hp0.le hr2
  have hnew0 : 0 ≤ p.sigma * Real.sqrt (smax (1 - Mag.share t p * δ) κ) := mul_nonneg hp0.le hr0
  refine ⟨hsg, hs1, hstep, ?_, hvs0, hvs1, by linarith, by linarith, hmax1, hmax2, hr1, hr2,
    ?_, ?_, hnew_le, ?_⟩
  · have := abs_add_le p.mu (Mag.share t p * ω)
    have := A.player_mu t ht p hp
    linarith
  · rw [mul_comm (Real.sqrt κ)]
    exact mul_le_mul hpl hr1 (Real.sqrt_nonneg _) hp0.le
  · rw [mul_comm (Real.sqrt κ)]
    exact mul_le_mul_of_nonneg_left hr1 hp0.le
  · calc _ ≤ p.sigma * p.sigma := mul_le_mul hnew_le hnew_le hnew0 hp0.le
      _ ≤ 200 * (β * β) := A.player_sigma_sq_le t ht p hp

/-! ### `compute` and `rate` -/

namespace Mag

/-- what is asserted of every returned rating (before the limit_sigma clamp): `|μ'| ≤ 20β + W`,
`√κ·lo ≤ σ'`, `σ'² ≤ 200β²` -/
def OutOK (β lo κ W : ℝ) (p' : Rating ℝ) : Prop :=
  |p'.mu| ≤ 20 * β + W ∧ Real.sqrt κ * lo ≤ p'.sigma ∧ p'.sigma * p'.sigma ≤ 200 * (β * β)

/-- uniform bounds on the pairs `(Ω_i, Δ_i)` of a model on every admissible list of aggregates -/
def ODBounds (K : Kind) (L : Leaves ℝ) (P : Params ℝ) (β lo W D : ℝ) : Prop :=
  ∀ ts : List (TeamAgg ℝ), AggBounds β lo ts →
    ∀ od ∈ omegaDelta K L P ts, |od.1| ≤ W ∧ 0 ≤ od.2 ∧ od.2 ≤ D

end Mag

theorem mag_compute_mem (K : Kind) (L : Leaves ℝ) (P : Params ℝ) (teams : List (List (Rating ℝ)))
    (dense : List Nat) :
    ∀ T ∈ compute K L P teams dense, ∃ t ∈ teamAggs teams dense,
      ∃ od ∈ omegaDelta K L P (teamAggs teams dense), T = applyTeam P.kappa t od.1 od.2 := by
  intro T hT
  simp only [compute] at hT
  obtain ⟨⟨t, od⟩, hx, rfl⟩ := List.mem_map.mp hT
  obtain ⟨ht, hod⟩ := List.of_mem_zip hx
  exact ⟨t, ht, od, hod, rfl⟩

/-- every player returned by `applyTeam` is the update of a player of the team, with all the
intermediate bounds of `Mag.PlayerUpdateBounds` -/
theorem mag_applyTeam_mem {β lo κ W D ω δ : ℝ} {ts : List (TeamAgg ℝ)} (A : Mag.AggBounds β lo ts)
    (hκ0 : 0 < κ) (hκ1 : κ ≤ 1) (hω : |ω| ≤ W) (hδ0 : 0 ≤ δ) (hδ : δ ≤ D)
    {t : TeamAgg ℝ} (ht : t ∈ ts) :
    ∀ p' ∈ applyTeam κ t ω δ, ∃ p ∈ t.players,
      p'.id = p.id ∧ p'.mu = p.mu + Mag.share t p * ω
      ∧ p'.sigma = p.sigma * Real.sqrt (smax (1 - Mag.share t p * δ) κ)
      ∧ Mag.PlayerUpdateBounds β lo κ W D t p ω δ := by
  intro p' hp'
  rw [C08_applyTeam_shape] at hp'
  obtain ⟨p, hp, rfl⟩ := List.mem_map.mp hp'
  exact ⟨p, hp, rfl, rfl, rfl, mag_player_update A hκ0 hκ1 hω hδ0 hδ ht hp⟩

theorem mag_compute_out {β lo W D : ℝ} (K : Kind) (L : Leaves ℝ) (P : Params ℝ)
    (hκ0 : 0 < P.kappa) (hκ1 : P.kappa ≤ 1) (H : Mag.ODBounds K L P β lo W D)
    (teams : List (List (Rating ℝ))) (I : Mag.Inflated β lo teams)
    (dense : List Nat) (hd : dense.length = teams.length) :
    ∀ T ∈ compute K L P teams dense, ∀ p' ∈ T, Mag.OutOK β lo P.kappa W p' := by
  intro T hT p' hp'
  obtain ⟨t, ht, od, hod, rfl⟩ := mag_compute_mem K L P teams dense T hT
  have A := mag_aggBounds I dense hd
  obtain ⟨h1, h2, h3⟩ := H _ A od hod
  obtain ⟨p, _, _, hmu, hsig, B⟩ := mag_applyTeam_mem A hκ0 hκ1 h1 h2 h3 ht p' hp'
  refine ⟨by rw [hmu]; exact B.mu_new, by rw [hsig]; exact B.sigma_new_ge,
    by rw [hsig]; exact B.sigma_new_sq_le⟩

/-- **`rate` before the clamp** (`rawResult`): every returned rating satisfies `Mag.OutOK` -/
theorem mag_rawResult_out {ρ : Type} {β lo W D : ℝ} (K : Kind) (L : Leaves ℝ) (P : Params ℝ)
    (le : ρ → ρ → Bool) (teams : List (List (Rating ℝ))) (ranks : Option (List ρ)) (o : CallOpts ℝ)
    (Dm : Mag.Domain β P.kappa (resolveTau P o) lo teams)
    (H : Mag.ODBounds K L P β lo W D) (hr : ∀ r, ranks = some r → r.length = teams.length) :
    ∀ T ∈ rawResult K L P le teams ranks o, ∀ p' ∈ T, Mag.OutOK β lo P.kappa W p' := by
  have I := mag_inflate_domain Dm
  have hκ1 : P.kappa ≤ 1 := le_trans Dm.kappa_le (by norm_num)
  have hlen : (inflate (resolveTau P o) teams).length = teams.length := by simp [inflate]
  intro T hT
  cases ranks with
  | none =>
    change T ∈ compute K L P (inflate (resolveTau P o) teams)
      (List.range (inflate (resolveTau P o) teams).length) at hT
    exact mag_compute_out K L P Dm.kappa_pos hκ1 H _ I _ (by simp) T hT
  | some r =>
    change T ∈ (unwind leNat (unwind le r (inflate (resolveTau P o) teams)).2
      (compute K L P (unwind le r (inflate (resolveTau P o) teams)).1
        (denseRanks (fun a b => !le b a) (sortedKeys le r)))).1 at hT
    have hr' := (hr r rfl).trans hlen.symm
    refine mag_compute_out K L P Dm.kappa_pos hκ1 H _ (mag_unwind_inflated I le r hr') _ ?_ T
      (mem_unwind_fst _ _ _ hT)
    rw [denseRanks_length, sortedKeys_length, unwind_fst_length, hr', Nat.min_self]

/-- the limit_sigma clamp only copies: every rating it returns is a computed rating `q`, or `q`
with the sigma of an original rating `p` (when `p.sigma < q.sigma`) -/
theorem mag_mem_clampTeams {orig res : List (List (Rating ℝ))} {T : List (Rating ℝ)}
    (hT : T ∈ clampTeams orig res) {p' : Rating ℝ} (hp' : p' ∈ T) :
    ∃ R ∈ res, ∃ q ∈ R, ∃ S ∈ orig, ∃ p ∈ S,
      p' = q ∨ (p'.mu = q.mu ∧ p'.sigma = p.sigma ∧ p.sigma < q.sigma) := by
  simp only [clampTeams] at hT
  obtain ⟨⟨R, S⟩, hRS, rfl⟩ := List.mem_map.mp hT
  obtain ⟨⟨q, p⟩, hqp, rfl⟩ := List.mem_map.mp hp'
  obtain ⟨hR, hS⟩ := List.of_mem_zip hRS
  obtain ⟨hq, hp⟩ := List.of_mem_zip hqp
  refine ⟨R, hR, q, hq, S, hS, p, hp, ?_⟩
  by_cases h : q.sigma ≤ p.sigma
  · left; rw [if_pos h]
  · right; rw [if_neg h]; exact ⟨rfl, rfl, not_le.mp h⟩

namespace Mag
/-- what is asserted of every rating returned by `rate` (limit_sigma on or off): the bounds of
`OutOK`, except that under the clamp sigma may instead be the unchanged sigma of an input rating
(a copy, no arithmetic) -/
def RateOutOK (β lo κ W : ℝ) (teams : List (List (Rating ℝ))) (p' : Rating ℝ) : Prop :=
  |p'.mu| ≤ 20 * β + W ∧ 0 ≤ p'.sigma ∧ p'.sigma * p'.sigma ≤ 200 * (β * β)
  ∧ (Real.sqrt κ * lo ≤ p'.sigma ∨ ∃ S ∈ teams, ∃ p ∈ S, p'.sigma = p.sigma)
end Mag

/-- **`rate`** (any limit_sigma): every returned rating satisfies `Mag.RateOutOK` -/
theorem mag_rateCore_out {ρ : Type} {β lo W D : ℝ} (K : Kind) (L : Leaves ℝ) (P : Params ℝ)
    (le : ρ → ρ → Bool) (teams : List (List (Rating ℝ))) (ranks : Option (List ρ)) (o : CallOpts ℝ)
    (Dm : Mag.Domain β P.kappa (resolveTau P o) lo teams)
    (H : Mag.ODBounds K L P β lo W D) (hr : ∀ r, ranks = some r → r.length = teams.length) :
    ∀ T ∈ rateCore K L P le teams ranks o, ∀ p' ∈ T, Mag.RateOutOK β lo P.kappa W teams p' := by
  have hraw := mag_rawResult_out K L P le teams ranks o Dm H hr
  have hβ := Dm.beta_pos
  have hsl : 0 ≤ Real.sqrt P.kappa * lo := mul_nonneg (Real.sqrt_nonneg _) Dm.lo_pos.le
  intro T hT p' hp'
  rw [rateCore_eq_clamp] at hT
  split_ifs at hT
  · obtain ⟨R, hR, q, hq, S, hS, p, hp, h | ⟨h1, h2, h3⟩⟩ := mag_mem_clampTeams hT hp'
    · obtain ⟨a, b, c⟩ := hraw R hR q hq
      rw [h]
      exact ⟨a, le_trans hsl b, c, Or.inl b⟩
    · obtain ⟨a, b, c⟩ := hraw R hR q hq
      have hp0 := Dm.sigma_nonneg S hS p hp
      refine ⟨by rw [h1]; exact a, by rw [h2]; exact hp0, ?_, Or.inr ⟨S, hS, p, hp, h2⟩⟩
      rw [h2]
      have hq0 : 0 ≤ q.sigma := le_trans hsl b
      calc p.sigma * p.sigma ≤ q.sigma * q.sigma := mul_le_mul h3.le h3.le hp0 hq0
        _ ≤ 200 * (β * β) := c
  · obtain ⟨a, b, c⟩ := hraw T hT p' hp'
    exact ⟨a, le_trans hsl b, c, Or.inl b⟩

/-! ### numeric facts about `Φ⁻¹` -/

/-- `φ(1) < 1/4` -/
theorem mag_phi_one_lt : phi 1 < 1 / 4 := by
  rw [phi_eq]
  have hs : (2.5 : ℝ) ≤ Real.sqrt (2 * Real.pi) := by
    rw [Real.le_sqrt' (by norm_num)]
    have := Real.pi_gt_d2
    norm_num; linarith
  have he : (1.64 : ℝ) ≤ Real.exp (1 / 2) := by
    have h1 : Real.exp (1 / 2) * Real.exp (1 / 2) = Real.exp 1 := by
      rw [← Real.exp_add]; norm_num
    have h2 := Real.exp_one_gt_d9
    have h3 := Real.exp_pos (1 / 2 : ℝ)
    by_contra h
    have h4 := not_le.mp h
    nlinarith
  have hneg : Real.exp (-(1 / 2 : ℝ) * 1 ^ 2) = 1 / Real.exp (1 / 2) := by
    have h0 : (-(1 / 2 : ℝ) * 1 ^ 2) = -(1 / 2) := by norm_num
    rw [h0, Real.exp_neg, inv_eq_one_div]
  rw [hneg, div_div, div_lt_iff₀ (by positivity)]
  have h5 : (1.64 : ℝ) * 2.5 ≤ Real.exp (1 / 2) * Real.sqrt (2 * Real.pi) :=
    mul_le_mul he hs (by norm_num) (Real.exp_pos _).le
  nlinarith

/-- `Φ(1) > 3/4` (Mills: `Φ(−1) < φ(1)`) -/
theorem mag_Phi_one_gt : 3 / 4 < Phi 1 := by
  have h := mills (-1)
  rw [phi_even, Phi_neg] at h
  have := mag_phi_one_lt
  linarith

/-- `Φ⁻¹` is monotone on (0,1) -/
theorem mag_PhiInv_mono {p q : ℝ} (hp : 0 < p) (hpq : p ≤ q) (hq : q < 1) : PhiInv p ≤ PhiInv q := by
  rw [← Phi_strictMono.le_iff_le, Phi_PhiInv hp (lt_of_le_of_lt hpq hq),
    Phi_PhiInv (lt_of_lt_of_le hp hpq) hq]
  exact hpq

/-- `Φ⁻¹(3/4) < 1` -/
theorem mag_PhiInv_three_quarters_lt_one : PhiInv (3 / 4) < 1 := by
  rw [← Phi_strictMono.lt_iff_lt, Phi_PhiInv (by norm_num) (by norm_num)]
  exact mag_Phi_one_gt

/-! ### predictions: aggregates, player count, pair denominators, draw margin -/

theorem mag_playerCount_le {γ : Type} (teams : List (List γ)) (m : ℕ)
    (h : ∀ t ∈ teams, t.length ≤ m) : playerCount teams ≤ teams.length * m := by
  rw [playerCount_eq_sum]
  induction teams with
  | nil => simp
  | cons t ts ih =>
    have h1 := h t (by simp)
    have h2 := ih (fun x hx => h x (by simp [hx]))
    simp only [List.map_cons, List.sum_cons, List.length_cons, Nat.add_mul]
    omega

/-- an aggregate of a prediction call: `|θ| ≤ 320β`, `0 ≤ σ² ≤ 1600β²` -/
theorem mag_predict_agg {β : ℝ} {teams : List (List (Rating ℝ))} (D : Grd.PredictDomain β teams)
    {a : TeamAgg ℝ} (ha : a ∈ aggs teams) :
    |a.mu| ≤ 320 * β ∧ 0 ≤ a.sig2 ∧ a.sig2 ≤ 1600 * (β * β) := by
  obtain ⟨t, ht, rfl⟩ := grd_mem_aggs ha
  have hβ := D.beta_pos
  refine ⟨grd_team_mu_bound t 0 β hβ (D.players_le t ht) (D.mu_bound t ht),
    grd_team_var_nonneg t 0, ?_⟩
  have := mag_team_var_le t 0 (100 * (β * β)) (by positivity) (D.players_le t ht)
    (fun p hp => by
      have h1 := D.sigma_nonneg t ht p hp
      have h2 := D.sigma_le t ht p hp
      nlinarith)
  linarith

/-- `pairDenom nb β a b = √(nb·β² + σ_a² + σ_b²)` for `2 ≤ nb ≤ 128` and variances in
`[0, 1600β²]`: `√2·β ≤ d ≤ 58β`, `√nb·β ≤ d` -/
theorem mag_pairDenom_bounds (nb : ℕ) (β : ℝ) (a b : TeamAgg ℝ) (hβ : 0 < β) (h2 : 2 ≤ nb)
    (h128 : nb ≤ 128) (ha0 : 0 ≤ a.sig2) (hb0 : 0 ≤ b.sig2) (ha : a.sig2 ≤ 1600 * (β * β))
    (hb : b.sig2 ≤ 1600 * (β * β)) :
    Real.sqrt 2 * β ≤ pairDenom nb β a b ∧ pairDenom nb β a b ≤ 58 * β
    ∧ Real.sqrt nb * β ≤ pairDenom nb β a b := by
  rw [C08_pairDenom_shape]
  have hnb2 : (2 : ℝ) ≤ nb := by exact_mod_cast h2
  have hnb : (nb : ℝ) ≤ 128 := by exact_mod_cast h128
  have hββ : 0 < β * β := mul_pos hβ hβ
  have e1 : ∀ x : ℝ, 0 ≤ x → Real.sqrt x * β = Real.sqrt (x * (β * β)) := by
    intro x hx
    rw [Real.sqrt_mul hx, Real.sqrt_mul_self hβ.le]
  refine ⟨?_, ?_, ?_⟩
  · rw [e1 2 (by norm_num)]
    exact Real.sqrt_le_sqrt (by nlinarith)
  · rw [Real.sqrt_le_iff]
    exact ⟨by positivity, by nlinarith⟩
  · rw [e1 nb (by positivity)]
    exact Real.sqrt_le_sqrt (by nlinarith)

/-- a Φ argument of the predictions: `|num| ≤ 652β`, `d ≥ √2·β` give `|num/d| ≤ 462` -/
theorem mag_predict_arg_bound (β num d : ℝ) (hβ : 0 < β) (hn : |num| ≤ 652 * β)
    (hd : Real.sqrt 2 * β ≤ d) : |num / d| ≤ 462 := by
  have hs2 := grd_sqrt_two_gt
  have hdpos : 0 < d := lt_of_lt_of_le (by positivity) hd
  rw [abs_div, abs_of_pos hdpos, div_le_iff₀ hdpos]
  have : 1.414 * β ≤ d := le_trans (by nlinarith) hd
  nlinarith

/-- the draw margin `m = √N·β·Φ⁻¹((1+1/N)/2)` for `2 ≤ N ≤ 128` players:
the `inv_cdf` argument lies in `(1/2, 3/4]`, its value in `[0, Φ⁻¹(3/4)]` with `Φ⁻¹(3/4) < 1`,
and `0 ≤ m ≤ √N·β·Φ⁻¹(3/4) ≤ √N·β ≤ 12β`, `m ≤ N·β` -/
theorem mag_drawMargin_bounds (β : ℝ) (hβ : 0 < β) (N : ℕ) (h2 : 2 ≤ N) (h128 : N ≤ 128) :
    (1 / 2 < (1 + 1 / (N : ℝ)) / 2 ∧ (1 + 1 / (N : ℝ)) / 2 ≤ 3 / 4)
    ∧ (0 ≤ PhiInv ((1 + 1 / (N : ℝ)) / 2) ∧ PhiInv ((1 + 1 / (N : ℝ)) / 2) ≤ PhiInv (3 / 4))
    ∧ 0 ≤ drawMargin β N
    ∧ drawMargin β N ≤ Real.sqrt N * β * PhiInv (3 / 4)
    ∧ drawMargin β N ≤ Real.sqrt N * β
    ∧ drawMargin β N ≤ 12 * β
    ∧ drawMargin β N ≤ N * β := by
  have hN2 : (2 : ℝ) ≤ N := by exact_mod_cast h2
  have hN : (N : ℝ) ≤ 128 := by exact_mod_cast h128
  have hNpos : (0 : ℝ) < N := by linarith
  obtain ⟨a1, a2⟩ := C08_invcdf_arg N h2
  have a3 : (1 + 1 / (N : ℝ)) / 2 ≤ 3 / 4 := by
    have : 1 / (N : ℝ) ≤ 1 / 2 := one_div_le_one_div_of_le (by norm_num) hN2
    linarith
  have z0 := (zN_spec hN2).2
  have z1 : PhiInv ((1 + 1 / (N : ℝ)) / 2) ≤ PhiInv (3 / 4) :=
    mag_PhiInv_mono (by linarith) a3 (by norm_num)
  have z2 := mag_PhiInv_three_quarters_lt_one
  have hsN0 : 0 ≤ Real.sqrt N := Real.sqrt_nonneg _
  have hsN : Real.sqrt N ≤ 12 := by
    rw [Real.sqrt_le_iff]; exact ⟨by norm_num, by linarith⟩
  have hsN' : Real.sqrt N ≤ N := by
    rw [Real.sqrt_le_iff]; exact ⟨hNpos.le, by nlinarith⟩
  have hsb : 0 ≤ Real.sqrt N * β := mul_nonneg hsN0 hβ.le
  rw [C08_drawMargin_shape]
  have m1 : Real.sqrt N * β * PhiInv ((1 + 1 / (N : ℝ)) / 2) ≤ Real.sqrt N * β * PhiInv (3 / 4) :=
    mul_le_mul_of_nonneg_left z1 hsb
  have m2 : Real.sqrt N * β * PhiInv (3 / 4) ≤ Real.sqrt N * β := by
    calc Real.sqrt N * β * PhiInv (3 / 4) ≤ Real.sqrt N * β * 1 :=
          mul_le_mul_of_nonneg_left z2.le hsb
      _ = Real.sqrt N * β := mul_one _
  have m3 : Real.sqrt N * β ≤ 12 * β := mul_le_mul_of_nonneg_right hsN hβ.le
  have m4 : Real.sqrt N * β ≤ N * β := mul_le_mul_of_nonneg_right hsN' hβ.le
  exact ⟨⟨a1, a3⟩, ⟨z0, z1⟩, mul_nonneg hsb z0, m1, by linarith, by linarith, by linarith⟩

/-! ### predictions: the returned numbers -/

/-- `predict_draw` returns a number in `[0, 2]` (crude: every ordered-pair term is a difference of
two values of Φ; C10 has the sharp bound for two teams) -/
theorem mag_predictDraw_range (β : ℝ) (teams : List (List (Rating ℝ))) (hn : 2 ≤ teams.length) :
    0 ≤ predictDraw β teams ∧ predictDraw β teams ≤ 2 := by
  unfold predictDraw
  simp only [sabs_eq_abs, sumL_eq_sum, sc_Phi, sc_ofNat]
  have hlen : (orderedPairs (aggs teams)).length = teams.length * (teams.length - 1) := by
    rw [length_orderedPairs, length_aggs]
  have hsum := grd_abs_sum_le (orderedPairs (aggs teams)) (fun ab : TeamAgg ℝ × TeamAgg ℝ =>
      Phi ((drawMargin β (playerCount teams) - ab.1.mu + ab.2.mu) / pairDenom teams.length β ab.1 ab.2)
      - Phi ((ab.1.mu - ab.2.mu - drawMargin β (playerCount teams)) / pairDenom teams.length β ab.1 ab.2))
    1 (fun ab _ => by
      have h1 := Phi_pos ((drawMargin β (playerCount teams) - ab.1.mu + ab.2.mu)
        / pairDenom teams.length β ab.1 ab.2)
      have h2 := Phi_lt_one ((drawMargin β (playerCount teams) - ab.1.mu + ab.2.mu)
        / pairDenom teams.length β ab.1 ab.2)
      have h3 := Phi_pos ((ab.1.mu - ab.2.mu - drawMargin β (playerCount teams))
        / pairDenom teams.length β ab.1 ab.2)
      have h4 := Phi_lt_one ((ab.1.mu - ab.2.mu - drawMargin β (playerCount teams))
        / pairDenom teams.length β ab.1 ab.2)
      rw [abs_le]; constructor <;> linarith)
  rw [hlen, mul_one] at hsum
  have hnn : (0 : ℝ) < ((teams.length * (teams.length - 1) : ℕ) : ℝ) := by
    exact_mod_cast Nat.mul_pos (by omega) (by omega)
  split_ifs with h
  · refine ⟨div_nonneg (abs_nonneg _) hnn.le, ?_⟩
    rw [div_le_iff₀ hnn]
    linarith
  · have h2 : teams.length = 2 := by omega
    have hcast : ((teams.length * (teams.length - 1) : ℕ) : ℝ) = 2 := by rw [h2]; norm_num
    rw [hcast] at hsum
    rw [Nat.cast_one, div_one]
    exact ⟨abs_nonneg _, hsum⟩

/-- every `predict_rank` probability lies in `[0, 1]` -/
theorem mag_predictRankProbs_range (β : ℝ) (teams : List (List (Rating ℝ)))
    (hn : 2 ≤ teams.length) : ∀ p ∈ predictRankProbs β teams, 0 ≤ p ∧ p ≤ 1 := by
  intro p hp
  rw [C12_rank_probs β teams hn] at hp
  obtain ⟨a, ha, rfl⟩ := List.mem_map.mp hp
  have hidx : a.2 < (aggs teams).length := by
    have := List.snd_lt_of_mem_zipIdx ha
    simpa using this
  have hl : ((aggs teams).eraseIdx a.2).length = teams.length - 1 := by
    rw [List.length_eraseIdx_of_lt hidx, length_aggs]
  have hs0 := sum_map_Phi_nonneg ((aggs teams).eraseIdx a.2) (fun b =>
    (a.1.mu - b.mu - drawMargin β (playerCount teams))
      / Real.sqrt (teams.length * β ^ 2 + a.1.sig2 + b.sig2))
  have hs1 := mag_sum_le ((aggs teams).eraseIdx a.2) (fun b =>
    Phi ((a.1.mu - b.mu - drawMargin β (playerCount teams))
      / Real.sqrt (teams.length * β ^ 2 + a.1.sig2 + b.sig2))) 1 (fun b _ => Phi_le_one _)
  rw [hl, mul_one] at hs1
  obtain ⟨k, hk⟩ : ∃ k, teams.length = k + 2 := ⟨teams.length - 2, by omega⟩
  have hden : ((teams.length - 1 : ℕ) : ℝ) ≤ ((teams.length * (teams.length - 1) : ℕ) : ℝ) / 2 := by
    rw [hk]
    simp only [show k + 2 - 1 = k + 1 by omega]
    push_cast
    nlinarith [(Nat.cast_nonneg k : (0 : ℝ) ≤ k)]
  have hdpos : (0 : ℝ) < ((teams.length * (teams.length - 1) : ℕ) : ℝ) / 2 := by
    have : (0 : ℝ) < ((teams.length * (teams.length - 1) : ℕ) : ℝ) := by
      exact_mod_cast Nat.mul_pos (by omega) (by omega)
    positivity
  refine ⟨div_nonneg hs0 hdpos.le, ?_⟩
  rw [div_le_one hdpos]
  linarith

/-! ### numeric facts about `exp` -/

theorem mag_exp_nat_lt (n : ℕ) (B : ℝ) (h : (2.7182818286 : ℝ) ^ n < B) : Real.exp n < B := by
  have h1 := Real.exp_one_lt_d9
  have h2 : Real.exp n = Real.exp 1 ^ n := by
    rw [← Real.exp_nat_mul]; simp
  rw [h2]
  exact lt_of_le_of_lt (pow_le_pow_left₀ (Real.exp_pos 1).le h1.le n) h

set_option exponentiation.threshold 1000 in
theorem mag_exp_453_lt : Real.exp 453 < 10 ^ 197 := by
  have := mag_exp_nat_lt 453 (10 ^ 197) (by norm_num)
  exact_mod_cast this

set_option exponentiation.threshold 1000 in
theorem mag_exp_454_lt : Real.exp 454 < 10 ^ 198 := by
  have := mag_exp_nat_lt 454 (10 ^ 198) (by norm_num)
  exact_mod_cast this

theorem mag_exp_227_lt : Real.exp 227 < 10 ^ 99 := by
  have := mag_exp_nat_lt 227 (10 ^ 99) (by norm_num)
  exact_mod_cast this

theorem mag_exp_neg_gt {x B : ℝ} (h : Real.exp x < B) : 1 / B < Real.exp (-x) := by
  rw [Real.exp_neg, inv_eq_one_div]
  exact one_div_lt_one_div_of_lt (Real.exp_pos x) h

/-! ### the per-model constants -/

namespace Mag

/-- the bound on `|Ω_i|` per model (default gamma) -/
def W (K : Kind) (β κ : ℝ) : ℝ :=
  match K with
  | .PL => 1288 * β
  | .BTF => 648 * β
  | .BTP => 648 * β
  | .TMF => 294192 * β + 8 * κ
  | .TMP => 294192 * β + 8 * κ

/-- the bound on `Δ_i` per model (default gamma) -/
def D (K : Kind) : ℝ :=
  match K with
  | .PL => 2
  | .BTF => 2
  | .BTP => 2
  | .TMF => 8
  | .TMP => 8

end Mag

/-- all five models, default gamma: `|Ω_i| ≤ W K β κ`, `0 ≤ Δ_i ≤ D K` on every admissible list of
team aggregates (Thurstone–Mosteller: for leaves satisfying `Mag.LeafBounds`, e.g. the code's) -/
theorem mag_odBounds {β lo : ℝ} (K : Kind) (L : Leaves ℝ)
    (LB : K = .TMF ∨ K = .TMP → Mag.LeafBounds L) (P : Params ℝ) (hP : P.beta = β)
    (hg : P.gamma = .dflt) (hκ : 0 < P.kappa) :
    Mag.ODBounds K L P β lo (Mag.W K β P.kappa) (Mag.D K) := by
  intro ts A od hod
  cases K with
  | PL => exact mag_omegaDelta_PL L P hP hg A od hod
  | BTF => exact mag_omegaDelta_BT .BTF (Or.inl rfl) L P hP hg A od hod
  | BTP => exact mag_omegaDelta_BT .BTP (Or.inr rfl) L P hP hg A od hod
  | TMF => exact mag_omegaDelta_TM .TMF (Or.inl rfl) L (LB (Or.inl rfl)) P hP hg hκ A od hod
  | TMP => exact mag_omegaDelta_TM .TMP (Or.inr rfl) L (LB (Or.inr rfl)) P hP hg hκ A od hod

/-- Plackett–Luce: the factors `σ_i²/c`, `σ_i²/c²` and the default gamma `√σ_i²/c` of team `i` -/
theorem mag_pl_team_factors {β lo : ℝ} {ts : List (TeamAgg ℝ)} (A : Mag.AggBounds β lo ts)
    {ti : TeamAgg ℝ} (hti : ti ∈ ts) :
    (lo * lo / (161 * β) ≤ ti.sig2 / plC β ts ∧ ti.sig2 / plC β ts ≤ 161 * β)
    ∧ (lo * lo / (161 * β) / (161 * β) ≤ ti.sig2 / (plC β ts * plC β ts)
        ∧ ti.sig2 / (plC β ts * plC β ts) ≤ 1)
    ∧ (lo / (161 * β) ≤ gammaVal .dflt (plC β ts) ts.length ti.mu ti.sig2 ti.players ti.rank
        ∧ gammaVal .dflt (plC β ts) ts.length ti.mu ti.sig2 ti.players ti.rank ≤ 1) := by
  have hβ := A.beta_pos
  have hlo := A.lo_pos
  obtain ⟨hc1, hc2, hc3, hcs⟩ := mag_plC_bounds A
  have hcpos : 0 < plC β ts := lt_of_lt_of_le hβ hc3
  have h161 : 0 < 161 * β := by positivity
  have hsi0 : 0 ≤ ti.sig2 := le_trans (mul_self_nonneg lo) (A.var_ge ti hti)
  obtain ⟨d1, d2, d3, d4⟩ := mag_div_sqrt_le hsi0 hcpos (hcs ti hti)
  obtain ⟨g1, g2⟩ := mag_gamma_dflt hlo.le (A.var_ge ti hti) hcpos (hcs ti hti)
  have hll : 0 ≤ lo * lo := mul_self_nonneg lo
  have s1 : lo * lo / (161 * β) ≤ ti.sig2 / plC β ts :=
    mag_div_le_div hll (A.var_ge ti hti) hcpos hc2
  have s2 : lo * lo / (161 * β) / (161 * β) ≤ ti.sig2 / plC β ts / plC β ts :=
    mag_div_le_div (div_nonneg hll h161.le) s1 hcpos hc2
  have g0 : lo / (161 * β) ≤ Real.sqrt ti.sig2 / plC β ts :=
    le_trans (mag_div_le_div hlo.le le_rfl hcpos hc2) g1
  have e : ti.sig2 / (plC β ts * plC β ts) = ti.sig2 / plC β ts / plC β ts := (div_div _ _ _).symm
  rw [e]
  simp only [gammaVal, sc_sqrt]
  exact ⟨⟨s1, le_trans d2 hc2⟩, ⟨s2, d3⟩, ⟨g0, g2⟩⟩

end OS
end
