import OSModel.Scalar
namespace OS
open Scalar

/-- a rating object: `id` stands for the object's identity (and its uuid / name) -/
structure Rating (α : Type) where
  id : Nat
  mu : α
  sigma : α

/-- `…TeamRating` -/
structure TeamAgg (α : Type) where
  mu : α
  sig2 : α
  rank : Nat
  players : List (Rating α)

variable {α : Type} [Scalar α]

/-- `_calculate_team_ratings` for one team -/
def teamAgg (team : List (Rating α)) (rank : Nat) : TeamAgg α :=
  { mu := sumL (team.map (·.mu)),
    sig2 := sumL (team.map (fun p => p.sigma * p.sigma)),
    rank := rank, players := team }

def teamAggs (teams : List (List (Rating α))) (ranks : List Nat) : List (TeamAgg α) :=
  (teams.zip ranks).map (fun tr => teamAgg tr.1 tr.2)

/-- the gamma callbacks the harness can also build on the Python side -/
inductive GammaFn (α : Type) where
  | dflt                -- sqrt(sigma_squared) / c      (the library default)
  | const (k : α)       -- lambda *_: k
  | invK                -- 1 / k
  | rankDep             -- 1 / (rank + 1)
  | sq                  -- sigma_squared / c**2
  | zero

def gammaVal (g : GammaFn α) (c : α) (k : Nat) (_mu sig2 : α) (rank : Nat) : α :=
  match g with
  | .dflt => sqrt sig2 / c
  | .const x => x
  | .invK => ofNat 1 / ofNat k
  | .rankDep => ofNat 1 / ofNat (rank + 1)
  | .sq => sig2 / (c * c)
  | .zero => ofNat 0

inductive Kind where
  | PL | BTF | BTP | TMF | TMP
  deriving DecidableEq, Repr

structure Params (α : Type) where
  beta : α
  kappa : α
  tau : α
  limitSigma : Bool
  gamma : GammaFn α

/-- tail of every `_compute`: the per-player update with the kappa floor -/
def applyTeam (kappa : α) (t : TeamAgg α) (omega delta : α) : List (Rating α) :=
  t.players.map (fun p =>
    let share := p.sigma * p.sigma / t.sig2
    { p with mu := p.mu + share * omega,
             sigma := p.sigma * sqrt (smax (ofNat 1 - share * delta) kappa) })

end OS
