import OSProofs.FL4Lemmas
import OSProofs.Props.PredictLoops

/-!
# FL4 — C06 along league histories in every monotone arithmetic; `_rank_data` for every total preorder

## Part A
The league machine of `OSModel/League.lean` (`playGame` = load the participants from the store, `rate`,
write every returned rating back under its id; `playLeague` = fold over a history) over an arbitrary scalar
type `α` with the order laws `MonoArith α`.  The statements are about the numbers the machine *stores* — no
field axiom is used.

* `FL_C06_playGame` — one game: a non-participant keeps his (mu, sigma); a participant's new sigma is
  `≤ sqrt(σ·σ + τ_g·τ_g)` as computed, `≤ σ` when limit_sigma resolves to true for that game, `≥ 0` when
  limit_sigma is off or `σ ≥ 0`.
* `FL_C06_league_limit` (`_total`, `_all`) — with limit_sigma in force in every game player `p` takes part
  in, `σ_l(p) ≤ σ_k(p)` for `k ≤ l`: sigma never increases along the history, exactly, as computed.
* `FL_C06_league_nonneg` — a stored sigma that starts `≥ 0` stays `≥ 0`.
* `FL_C06_league_step_bound` — without limit_sigma, the per-game bound
  `σ_{k+1}(p) ≤ sqrt(σ_k(p)·σ_k(p) + τ_k·τ_k)`, as computed.  **The accumulated bound
  `σ_k² ≤ σ_0² + Σ τ_g²` (`C06_league`) is a statement about real numbers and is NOT claimed under
  rounding**: `sqrt(x)·sqrt(x)` may exceed `x` by rounding, and errors accumulate over the games.

The hypothesis is `FLLeagueOK L P le neg s gs`: game number `k` of the history satisfies `FLGameOK` at the store
after the first `k` games (`FL_leagueOK_iff`).  `FLGameOK` is the list of hypotheses of `FL_C06_rate` for that
game plus the league machine's well-formedness (`LeagueGame.WF`: no player twice in a game, one outcome entry
per team), mirroring `C06_playGame_slot`.

## Part B
* `OrderLaws α` — `≤` is a total preorder and `<` its strict part: the first four fields of `MonoArith`
  (`MonoArith.orderLaws`).
* `rankDataCode_eq_of_preorder` — the literal `_rank_data` equals the closed form `rankData` on every list.
* `predictRankLoop_eq_mono` — the literal `predict_rank` equals the model's in every monotone arithmetic.
-/

namespace OS
open Scalar
variable {α ρ : Type} [Scalar α]

local notation "𝟘" => (Scalar.ofNat 0)
local notation "𝟙" => (Scalar.ofNat 1)

/-! ## Part A -/

/-- `FLLeagueOK`, unfolded: game number `k` of the history is `FLGameOK` at the store after the first `k`
games. -/
theorem FL_leagueOK_iff (L : Leaves α) (P : Params α) (le : ρ → ρ → Bool) (neg : ρ → ρ)
    (s : Store α) (gs : List (LeagueGame α ρ)) :
    FLLeagueOK L P le neg s gs ↔
      ∀ k (hk : k < gs.length),
        FLGameOK L P le neg (playLeague L P le neg s (gs.take k)) gs[k] :=
  fl4_leagueOK_iff_getElem L P le neg s gs

section
variable (M : MonoArith α)
include M

/-- **C06 for one game of the league, in every monotone arithmetic.**  Let `s' = playGame … s g` for a game
`g` (any model kind, any outcome form, any per-call options) that satisfies `FLGameOK` at the store `s`; `τ_g`
and `limit_sigma` as resolved for that call.  For every player `p`:

* if `p` takes part in `g`: `σ'(p) ≤ sqrt(σ(p)·σ(p) + τ_g·τ_g)` — the tau-inflated stored sigma exactly as
  the library computes it; with limit_sigma on, `σ'(p) ≤ σ(p)`; with limit_sigma off, `0 ≤ σ'(p)`;
  and `0 ≤ σ(p) → 0 ≤ σ'(p)` in either case;
* if `p` does not take part: `μ'(p) = μ(p)` and `σ'(p) = σ(p)`. -/
theorem FL_C06_playGame (L : Leaves α) (P : Params α) (le : ρ → ρ → Bool) (neg : ρ → ρ)
    (s : Store α) (g : LeagueGame α ρ) (hok : FLGameOK L P le neg s g) (p : Nat) :
    (g.plays p →
      (playGame L P le neg s g).sigma p
          ≤ sqrt (s.sigma p * s.sigma p + resolveTau P g.opts * resolveTau P g.opts)
      ∧ (resolveLimit P g.opts = true → (playGame L P le neg s g).sigma p ≤ s.sigma p)
      ∧ (resolveLimit P g.opts = false → 𝟘 ≤ (playGame L P le neg s g).sigma p)
      ∧ (𝟘 ≤ s.sigma p → 𝟘 ≤ (playGame L P le neg s g).sigma p))
    ∧ (¬ g.plays p →
      (playGame L P le neg s g).mu p = s.mu p ∧ (playGame L P le neg s g).sigma p = s.sigma p) := by
  refine ⟨fun hp => ?_, fun hp => playGame_untouched L P le neg s g hok.wf.2 p hp⟩
  obtain ⟨r', ⟨_, h2, h3, h4, h5⟩, _, hsig⟩ := fl4_playGame_slot M L P le neg s g hok p hp
  simp only [lg_load_sigma] at h2 h3 h5
  rw [hsig]
  exact ⟨h2, h3, h4, h5⟩

/-- whole-history form of `FL_C06_league_limit`: the final sigma is at most the initial one -/
theorem FL_C06_league_limit_total (L : Leaves α) (P : Params α) (le : ρ → ρ → Bool) (neg : ρ → ρ)
    (s : Store α) (gs : List (LeagueGame α ρ)) (hok : FLLeagueOK L P le neg s gs)
    (p : Nat) (hlim : ∀ g ∈ gs, g.plays p → resolveLimit P g.opts = true) :
    (playLeague L P le neg s gs).sigma p ≤ s.sigma p := by
  induction gs generalizing s with
  | nil => exact M.le_refl' _
  | cons g gs ih =>
    rw [lg_playLeague_cons]
    refine M.le_trans' (ih (playGame L P le neg s g) hok.2
      (fun g' h => hlim g' (List.mem_cons_of_mem _ h))) ?_
    obtain ⟨hin, hout⟩ := FL_C06_playGame M L P le neg s g hok.1 p
    by_cases hpl : g.plays p
    · exact (hin hpl).2.1 (hlim g List.mem_cons_self hpl)
    · rw [(hout hpl).2]; exact M.le_refl' _

/-- **limit_sigma makes sigma non-increasing along the league — exactly, in every monotone arithmetic**
(C06, history clause).  Write `σ_k(p)` for the sigma of player `p` in the store after the first `k` games of
the history `gs` (`playLeague … s (gs.take k)`).  If every game is `FLGameOK` at the store it is played on and
limit_sigma is in force (per call, else by the model's setting) in every game in which `p` takes part, then
`k ≤ l → σ_l(p) ≤ σ_k(p)`; in particular `σ_final(p) ≤ σ_initial(p)`.  No sign condition on the stored
sigmas, none on the taus. -/
theorem FL_C06_league_limit (L : Leaves α) (P : Params α) (le : ρ → ρ → Bool) (neg : ρ → ρ)
    (s : Store α) (gs : List (LeagueGame α ρ)) (hok : FLLeagueOK L P le neg s gs)
    (p : Nat) (hlim : ∀ g ∈ gs, g.plays p → resolveLimit P g.opts = true)
    (k l : Nat) (hkl : k ≤ l) :
    (playLeague L P le neg s (gs.take l)).sigma p ≤ (playLeague L P le neg s (gs.take k)).sigma p := by
  obtain ⟨d, rfl⟩ := Nat.exists_eq_add_of_le hkl
  rw [List.take_add, lg_playLeague_append]
  have hsub : ∀ g ∈ (gs.drop k).take d, g ∈ gs :=
    fun g h => List.mem_of_mem_drop (List.mem_of_mem_take h)
  have h1 := (fl4_leagueOK_take L P le neg s gs hok k).2
  have h2 := (fl4_leagueOK_take L P le neg _ (gs.drop k) h1 d).1
  exact FL_C06_league_limit_total M L P le neg _ _ h2 p (fun g h => hlim g (hsub g h))

/-- the form with limit_sigma in force in every game of the history: every player's sigma is non-increasing -/
theorem FL_C06_league_limit_all (L : Leaves α) (P : Params α) (le : ρ → ρ → Bool) (neg : ρ → ρ)
    (s : Store α) (gs : List (LeagueGame α ρ)) (hok : FLLeagueOK L P le neg s gs)
    (hlim : ∀ g ∈ gs, resolveLimit P g.opts = true) :
    ∀ (p k l : Nat), k ≤ l →
      (playLeague L P le neg s (gs.take l)).sigma p ≤ (playLeague L P le neg s (gs.take k)).sigma p :=
  fun p k l hkl => FL_C06_league_limit M L P le neg s gs hok p (fun g h _ => hlim g h) k l hkl

/-- whole-history form of `FL_C06_league_nonneg` -/
theorem FL_C06_league_nonneg_total (L : Leaves α) (P : Params α) (le : ρ → ρ → Bool) (neg : ρ → ρ)
    (s : Store α) (gs : List (LeagueGame α ρ)) (hok : FLLeagueOK L P le neg s gs)
    (p : Nat) (hp : 𝟘 ≤ s.sigma p) : 𝟘 ≤ (playLeague L P le neg s gs).sigma p := by
  induction gs generalizing s with
  | nil => exact hp
  | cons g gs ih =>
    rw [lg_playLeague_cons]
    apply ih _ hok.2
    obtain ⟨hin, hout⟩ := FL_C06_playGame M L P le neg s g hok.1 p
    by_cases hpl : g.plays p
    · exact (hin hpl).2.2.2 hp
    · rw [(hout hpl).2]; exact hp

/-- **A stored sigma that starts `≥ 0` stays `≥ 0`** after every prefix of the history, with or without
limit_sigma, in every monotone arithmetic. -/
theorem FL_C06_league_nonneg (L : Leaves α) (P : Params α) (le : ρ → ρ → Bool) (neg : ρ → ρ)
    (s : Store α) (gs : List (LeagueGame α ρ)) (hok : FLLeagueOK L P le neg s gs)
    (p : Nat) (hp : 𝟘 ≤ s.sigma p) (k : Nat) :
    𝟘 ≤ (playLeague L P le neg s (gs.take k)).sigma p :=
  FL_C06_league_nonneg_total M L P le neg s (gs.take k) (fl4_leagueOK_take L P le neg s gs hok k).1 p hp

/-- **The per-game bound without limit_sigma.**  For game number `k` of the history and a participant `p`:
`σ_{k+1}(p) ≤ sqrt(σ_k(p)·σ_k(p) + τ_k·τ_k)`, every operation as computed (`τ_k` the tau in force in that
game).  The accumulated bound `σ_k² ≤ σ_0² + Σ τ_g²` of `C06_league` is a statement about real numbers and is
not claimed here. -/
theorem FL_C06_league_step_bound (L : Leaves α) (P : Params α) (le : ρ → ρ → Bool) (neg : ρ → ρ)
    (s : Store α) (gs : List (LeagueGame α ρ)) (hok : FLLeagueOK L P le neg s gs)
    (k : Nat) (hk : k < gs.length) (p : Nat) (hp : gs[k].plays p) :
    (playLeague L P le neg s (gs.take (k + 1))).sigma p
      ≤ sqrt ((playLeague L P le neg s (gs.take k)).sigma p * (playLeague L P le neg s (gs.take k)).sigma p
          + resolveTau P gs[k].opts * resolveTau P gs[k].opts) := by
  have hnext : playLeague L P le neg s (gs.take (k + 1))
      = playGame L P le neg (playLeague L P le neg s (gs.take k)) gs[k] := by
    rw [List.take_add_one, List.getElem?_eq_getElem hk, lg_playLeague_append]
    rfl
  rw [hnext]
  exact ((FL_C06_playGame M L P le neg _ gs[k]
    ((fl4_leagueOK_iff_getElem L P le neg s gs).1 hok k hk) p).1 hp).1

end

/-! ## Part B -/

/-- **`_rank_data`: the sort-and-scan loop equals the closed form `rankData`, for every total preorder.**
For every scalar type whose `≤` is reflexive, transitive and total and whose `<` is `¬ ≥` (`OrderLaws`: the
four order laws of `MonoArith`; IEEE doubles without NaN satisfy them), and every list `v`:
`rankDataCode v = rankData v` — each entry gets `1 +` the number of strictly smaller entries.

No antisymmetry and no equality test on `α` is needed: `_arg_sort` compares the tuples `(value, index)`
through `lexLe`, which consults only `<` on the values ("equal" means "neither is below the other", which is
what Python's `==` says of two non-NaN floats, `+0.0 == -0.0` included), and the run detection
`arg_sorted[i] != arg_sorted[i+1]` is `sne`, again only `<`.  Values that are equivalent but not identical
(`+0.0` / `-0.0`) form one run and have the same entries strictly below them (`fl4_cntLt_congr`). -/
theorem rankDataCode_eq_of_preorder (O : OrderLaws α) (v : List α) : rankDataCode v = rankData v := by
  rw [fl4_rankDataCode_unfold]
  have hsv := fl4_argSorted_eq v
  have hperm := fl4_idx_perm v
  have hlenI : (argSortCode v).length = v.length := by
    rw [hperm.length_eq, List.length_range]
  have hn : v.length = ((fl4_S v).map (·.1)).length := by
    rw [List.length_map, fl4_S_length]
  have hnd : (argSortCode v).Nodup := hperm.nodup_iff.mpr List.nodup_range
  have hltI : ∀ j < ((fl4_S v).map (·.1)).length,
      (argSortCode v).getD j 0 < ((fl4_S v).map (·.1)).length := by
    intro j hj
    rw [← hn] at hj ⊢
    have hj' : j < (argSortCode v).length := by omega
    rw [lit_getD_eq _ 0 hj']
    have : (argSortCode v)[j] ∈ List.range v.length := hperm.mem_iff.mp (List.getElem_mem hj')
    exact List.mem_range.mp this
  have hspec := O.fl4_loop_spec ((fl4_S v).map (·.1)) (argSortCode v) (O.fl4_S_sorted v)
    (by rw [hlenI, hn]) hnd hltI
  rw [hsv]
  rw [← hn] at hspec
  obtain ⟨hlenO, hget⟩ := hspec
  apply List.ext_getElem?
  intro i
  by_cases hi : i < v.length
  · have him : i ∈ argSortCode v := hperm.mem_iff.mpr (List.mem_range.mpr hi)
    obtain ⟨j, hj, hji⟩ := List.getElem_of_mem him
    have hjv : j < v.length := by omega
    have h1 := hget j hjv
    rw [lit_getD_eq _ 0 hj, hji] at h1
    rw [h1]
    have hsvj : ((fl4_S v).map (·.1)).getD j (ofNat 0) = v[i] := by
      rw [← hsv]
      rw [lit_getD_eq _ _ (by rw [List.length_map]; exact hj)]
      rw [List.getElem_map, hji]
      exact lit_getD_eq v _ hi
    rw [hsvj, fl4_cntLt_perm (fl4_sv_perm v), rankData_eq, List.getElem?_map,
      List.getElem?_eq_getElem hi, Option.map_some, Nat.add_comm]
  · rw [List.getElem?_eq_none (by omega), List.getElem?_eq_none]
    rw [rankData_length]; omega

/-- the same in every monotone arithmetic -/
theorem rankDataCode_eq_mono (M : MonoArith α) (v : List α) : rankDataCode v = rankData v :=
  rankDataCode_eq_of_preorder M.orderLaws v

/-- **`predict_rank`, statement by statement** (literal `_rank_data`, `_arg_sort`, `max(ranks)`,
`abs(_ - max_ordinal) + 1`, the final `zip`) **equals the closed form `predictRank` whenever the order is a
total preorder** and every team's first player satisfies `0 + mu = mu`, `0 + sigma² = sigma²`
(`FirstPlayerZeroAdd`; the code's `reduce` starts from the first player, the model's `sumL` from `0`). -/
theorem predictRankLoop_eq_of_preorder (O : OrderLaws α) (beta : α) (teams : List (List (Rating α)))
    (hz : ∀ team ∈ teams, FirstPlayerZeroAdd team) :
    predictRankLoop beta teams = predictRank beta teams :=
  predictRankLoop_eq beta teams hz (rankDataCode_eq_of_preorder O _)

/-- **The literal `predict_rank` equals the model's `predictRank` in every monotone arithmetic**, under
`FirstPlayerZeroAdd` on every team: the hypothesis `hrd` of `predictRankLoop_eq` is discharged. -/
theorem predictRankLoop_eq_mono (M : MonoArith α) (beta : α) (teams : List (List (Rating α)))
    (hz : ∀ team ∈ teams, FirstPlayerZeroAdd team) :
    predictRankLoop beta teams = predictRank beta teams :=
  predictRankLoop_eq_of_preorder M.orderLaws beta teams hz

/-! ### signed zeros at `Float`

`+0.0` and `-0.0` are equivalent (`≤` both ways) but not identical; the literal code and the closed form
treat them as one run.  Expected values: the pinned Python library,
`_rank_data([0.0,-0.0,1.0,-0.0]), _arg_sort([0.0,-0.0,1.0,-0.0])` prints `[1, 1, 4, 1] [0, 1, 3, 2]`;
`_rank_data([-0.0,0.5,0.0,0.5]), _arg_sort(…)` prints `[1, 3, 1, 3] [0, 2, 1, 3]`. -/

#guard argSortCode ([0.0, -0.0, 1.0, -0.0] : List Float) == [0, 1, 3, 2]
#guard rankDataCode ([0.0, -0.0, 1.0, -0.0] : List Float) == [1, 1, 4, 1]
#guard rankData ([0.0, -0.0, 1.0, -0.0] : List Float) == [1, 1, 4, 1]
#guard argSortCode ([-0.0, 0.5, 0.0, 0.5] : List Float) == [0, 2, 1, 3]
#guard rankDataCode ([-0.0, 0.5, 0.0, 0.5] : List Float) == [1, 3, 1, 3]
#guard rankData ([-0.0, 0.5, 0.0, 0.5] : List Float) == [1, 3, 1, 3]

end OS
