import OSProofs.Props.C10
import OSProofs.PredictSumLemmas
import Mathlib.Data.List.Forall2

/-!
# C10, end to end for any number of teams

Combines the analytic facts of `OSProofs/Props/C10.lean` with the regrouping of
`orderedPairs` (= `itertools.permutations(·, 2)`) into unordered pairs
(`sum_orderedPairs_eq_unordered`, `length_unorderedPairs` from `OSProofs/PredictSumLemmas.lean`,
`OSProofs/PredictLemmas.lean`, written by the C12 worker) to obtain statements about the model
function `predictDraw` itself:

* `predictDraw_eq_unordered` — it is |Σ over unordered pairs of `pairBand`| / denominator;
* `C10_predictDraw_many_teams` — more than two teams: the value is the mean of the pair
  contributions over the `n(n−1)` ordered pairs and lies in [0, 1];
* `C10_predictDraw_mem` — any game with ≥ 2 non-empty teams: `0 ≤ predictDraw ≤ 1`;
* `C10_predictDraw_equalise` — replacing the teams by teams of the same sizes and the same Σσ²
  whose means are all equal does not lower `predictDraw` (any number of teams).
-/

noncomputable section
namespace OS
open Gauss

/-- contribution of the unordered pair `p` of team aggregates -/
def drawPair (n : ℕ) (β m : ℝ) (p : TeamAgg ℝ × TeamAgg ℝ) : ℝ :=
  pairBand m (pairDenom n β p.1 p.2) (p.1.mu - p.2.mu)

/-- the draw margin is non-negative for β ≥ 0 (for N ≥ 2 players because the quantile is ≥ ½;
in the degenerate cases N = 0, 1 the model's `PhiInv` is evaluated at ½ resp. 1 and gives 0) -/
theorem C10_drawMargin_nonneg {β : ℝ} (hβ : 0 ≤ β) (N : ℕ) : 0 ≤ drawMargin β N := by
  rw [drawMargin_real]
  apply mul_nonneg (mul_nonneg (Real.sqrt_nonneg _) hβ)
  have hp : 1 / 2 ≤ (1 + 1 / (N : ℝ)) / 2 := by
    have : 0 ≤ 1 / (N : ℝ) := by positivity
    linarith
  by_cases h1 : (1 + 1 / (N : ℝ)) / 2 < 1
  · exact PhiInv_nonneg hp h1
  · unfold PhiInv
    rw [dif_neg (fun h => h1 h.2)]

theorem pairDenom_pos {n : ℕ} {β : ℝ} (hn : 0 < n) (hβ : 0 < β) {a b : TeamAgg ℝ}
    (ha : 0 ≤ a.sig2) (hb : 0 ≤ b.sig2) : 0 < pairDenom n β a b := by
  simp only [pairDenom, sc_sqrt, sc_ofNat]
  apply Real.sqrt_pos.mpr
  have : (0:ℝ) < n := by exact_mod_cast hn
  positivity

theorem mem_unorderedPairs {γ : Type} {l : List γ} {p : γ × γ} (hp : p ∈ unorderedPairs l) :
    p.1 ∈ l ∧ p.2 ∈ l := by
  induction l with
  | nil => simp [unorderedPairs] at hp
  | cons x xs ih =>
    simp only [unorderedPairs, List.mem_append, List.mem_map] at hp
    rcases hp with ⟨b, hb, rfl⟩ | hp
    · exact ⟨by simp, by simp [hb]⟩
    · have := ih hp
      exact ⟨by simp [this.1], by simp [this.2]⟩

theorem aggs_sig2_nonneg (teams : List (List (Rating ℝ))) {a : TeamAgg ℝ} (ha : a ∈ aggs teams) :
    0 ≤ a.sig2 := by
  unfold aggs at ha
  obtain ⟨t, _, rfl⟩ := List.mem_map.mp ha
  exact sig2_nonneg t

theorem length_aggs' (teams : List (List (Rating ℝ))) : (aggs teams).length = teams.length := by
  simp [aggs]

/-- **`predictDraw` in terms of unordered pairs** (any number of teams): the sum over the ordered
pairs is the sum over the unordered pairs {a,b} of `pairBand m s_ab (θa − θb)`. -/
theorem predictDraw_eq_unordered (β : ℝ) (teams : List (List (Rating ℝ))) :
    predictDraw β teams
      = |((unorderedPairs (aggs teams)).map
            (drawPair teams.length β (drawMargin β (playerCount teams)))).sum|
        / (if teams.length > 2 then ((teams.length * (teams.length - 1) : ℕ) : ℝ) else 1) := by
  unfold predictDraw
  dsimp only
  rw [sumL_eq_sum, sabs_eq_abs, sum_orderedPairs_eq_unordered]
  have hf : ∀ p : TeamAgg ℝ × TeamAgg ℝ,
      (Scalar.Phi ((drawMargin β (playerCount teams) - p.1.mu + p.2.mu)
            / pairDenom teams.length β p.1 p.2)
          - Scalar.Phi ((p.1.mu - p.2.mu - drawMargin β (playerCount teams))
            / pairDenom teams.length β p.1 p.2))
        + (Scalar.Phi ((drawMargin β (playerCount teams) - p.swap.1.mu + p.swap.2.mu)
            / pairDenom teams.length β p.swap.1 p.swap.2)
          - Scalar.Phi ((p.swap.1.mu - p.swap.2.mu - drawMargin β (playerCount teams))
            / pairDenom teams.length β p.swap.1 p.swap.2))
        = drawPair teams.length β (drawMargin β (playerCount teams)) p := by
    intro p
    exact C10_terms_eq_pairBand _ _ _ p.1 p.2
  simp only [hf, sc_ofNat, Nat.cast_one]

/-- every pair contribution of a real game is in [0, 2] -/
theorem drawPair_mem {β : ℝ} (hβ : 0 < β) (teams : List (List (Rating ℝ)))
    {p : TeamAgg ℝ × TeamAgg ℝ} (hp : p ∈ unorderedPairs (aggs teams)) (N : ℕ) :
    0 ≤ drawPair teams.length β (drawMargin β N) p
      ∧ drawPair teams.length β (drawMargin β N) p ≤ 2 := by
  have hm := mem_unorderedPairs hp
  have hn : 0 < teams.length := by
    rw [← length_aggs']; exact List.length_pos_of_mem hm.1
  exact C10_pairBand_mem (C10_drawMargin_nonneg hβ.le N)
    (pairDenom_pos hn hβ (aggs_sig2_nonneg teams hm.1) (aggs_sig2_nonneg teams hm.2)) _

theorem drawPair_sum_nonneg {β : ℝ} (hβ : 0 < β) (teams : List (List (Rating ℝ))) (N : ℕ) :
    0 ≤ ((unorderedPairs (aggs teams)).map (drawPair teams.length β (drawMargin β N))).sum := by
  apply List.sum_nonneg
  intro x hx
  obtain ⟨p, hp, rfl⟩ := List.mem_map.mp hx
  exact (drawPair_mem hβ teams hp N).1

/-- **C10, more than two teams, end to end**: for β > 0 the model's `predictDraw` is the sum of
the `k = n(n−1)/2` unordered-pair contributions divided by `2k = n(n−1)` (the absolute value in
the code is vacuous) and lies in [0, 1]. -/
theorem C10_predictDraw_many_teams (β : ℝ) (hβ : 0 < β) (teams : List (List (Rating ℝ)))
    (hn : 2 < teams.length) :
    predictDraw β teams
        = ((unorderedPairs (aggs teams)).map
            (drawPair teams.length β (drawMargin β (playerCount teams)))).sum
          / (2 * ((unorderedPairs (aggs teams)).length : ℕ))
      ∧ 0 ≤ predictDraw β teams ∧ predictDraw β teams ≤ 1 := by
  have hk2 : 2 * (unorderedPairs (aggs teams)).length = teams.length * (teams.length - 1) := by
    rw [length_unorderedPairs, length_aggs']
  have hk : 0 < (unorderedPairs (aggs teams)).length := by
    have : 0 < teams.length * (teams.length - 1) := Nat.mul_pos (by omega) (by omega)
    omega
  have heq : predictDraw β teams
        = ((unorderedPairs (aggs teams)).map
            (drawPair teams.length β (drawMargin β (playerCount teams)))).sum
          / (2 * ((unorderedPairs (aggs teams)).length : ℕ)) := by
    rw [predictDraw_eq_unordered, abs_of_nonneg (drawPair_sum_nonneg hβ teams _), if_pos hn,
      ← hk2]
    push_cast
    rfl
  refine ⟨heq, ?_⟩
  rw [heq]
  apply avg_bound _ _ hk (by simp)
  intro x hx
  obtain ⟨p, hp, rfl⟩ := List.mem_map.mp hx
  exact drawPair_mem hβ teams hp _

/-- **C10: `predict_draw` is a probability**, for every game with at least two teams, all of
them non-empty, and β > 0. -/
theorem C10_predictDraw_mem (β : ℝ) (hβ : 0 < β) (teams : List (List (Rating ℝ)))
    (hn : 2 ≤ teams.length) (hne : ∀ t ∈ teams, t ≠ []) :
    0 ≤ predictDraw β teams ∧ predictDraw β teams ≤ 1 := by
  rcases Nat.lt_or_ge 2 teams.length with h | h
  · exact (C10_predictDraw_many_teams β hβ teams h).2
  · have h2 : teams.length = 2 := by omega
    match teams, h2, hne with
    | [ta, tb], _, hne =>
      exact (C10_predictDraw_two_teams β hβ ta tb (hne ta (by simp)) (hne tb (by simp))).2

/-! ### equalising the teams -/

theorem sum_unorderedPairs_le {γ : Type} (R : γ → γ → Prop) (F F' : γ × γ → ℝ)
    (h : ∀ a b a' b', R a a' → R b b' → F (a, b) ≤ F' (a', b'))
    {l l' : List γ} (hl : List.Forall₂ R l l') :
    ((unorderedPairs l).map F).sum ≤ ((unorderedPairs l').map F').sum := by
  induction hl with
  | nil => simp [unorderedPairs]
  | @cons x x' xs xs' hx hxs ih =>
    simp only [unorderedPairs, List.map_append, List.sum_append, List.map_map]
    apply add_le_add _ ih
    clear ih
    induction hxs with
    | nil => simp
    | cons hy _ ih2 =>
      simp only [List.map_cons, List.sum_cons, Function.comp]
      exact add_le_add (h _ _ _ _ hx hy) ih2

theorem playerCount_eq_of_forall₂ {teams teams' : List (List (Rating ℝ))}
    (h : List.Forall₂ (fun t t' => t'.length = t.length) teams teams') :
    playerCount teams' = playerCount teams := by
  have hmap : teams'.map List.length = teams.map List.length := by
    induction h with
    | nil => rfl
    | cons hx _ ih => simp only [List.map_cons, hx, ih]
  unfold playerCount
  rw [hmap]

/-- **C10, equalising, end to end** (any number of teams): let `teams'` consist, team by team, of
as many players as `teams`, with the same Σσ² per team, and with all team means equal to one
value `c`.  Then `predictDraw β teams ≤ predictDraw β teams'`: making the teams evenly matched
never lowers the draw probability. -/
theorem C10_predictDraw_equalise (β : ℝ) (hβ : 0 < β) (c : ℝ)
    (teams teams' : List (List (Rating ℝ)))
    (h : List.Forall₂ (fun t t' => t'.length = t.length
        ∧ (teamAgg t' 0).sig2 = (teamAgg t 0).sig2 ∧ (teamAgg t' 0).mu = c) teams teams') :
    predictDraw β teams ≤ predictDraw β teams' := by
  have hlen : teams'.length = teams.length := h.length_eq.symm
  have hpc : playerCount teams' = playerCount teams :=
    playerCount_eq_of_forall₂ (h.imp (fun _ _ hh => hh.1))
  rw [predictDraw_eq_unordered, predictDraw_eq_unordered,
    abs_of_nonneg (drawPair_sum_nonneg hβ teams _),
    abs_of_nonneg (drawPair_sum_nonneg hβ teams' _), hlen, hpc]
  apply div_le_div_of_nonneg_right
  · -- the numerators, pair by pair
    by_cases hnil : teams = []
    · subst hnil
      rw [List.forall₂_nil_left_iff] at h
      subst h
      exact le_refl _
    have hpos : 0 < teams.length := List.length_pos_iff.mpr hnil
    have hagg : List.Forall₂ (fun a a' : TeamAgg ℝ => 0 ≤ a.sig2
        ∧ a'.sig2 = a.sig2 ∧ a'.mu = c) (aggs teams) (aggs teams') := by
      unfold aggs
      rw [List.forall₂_map_left_iff, List.forall₂_map_right_iff]
      exact h.imp (fun t _ ht => ⟨sig2_nonneg t, ht.2.1, ht.2.2⟩)
    refine sum_unorderedPairs_le _ _ _ ?_ hagg
    intro a b a' b' ha hb
    unfold drawPair
    have hs : pairDenom teams.length β a' b' = pairDenom teams.length β a b := by
      simp only [pairDenom, ha.2.1, hb.2.1]
    have hd : a'.mu - b'.mu = 0 := by rw [ha.2.2, hb.2.2, sub_self]
    rw [hs, hd]
    exact pairBand_le_zero_gap (C10_drawMargin_nonneg hβ.le _)
      (pairDenom_pos hpos hβ ha.1 hb.1) _
  · split_ifs
    · exact Nat.cast_nonneg _
    · exact zero_le_one

/-- the hypothesis of `C10_predictDraw_equalise` is satisfiable (three one-player teams with
means 25, 30, 20 against three with mean 25 each) -/
example : List.Forall₂ (fun t t' : List (Rating ℝ) => t'.length = t.length
      ∧ (teamAgg t' 0).sig2 = (teamAgg t 0).sig2 ∧ (teamAgg t' 0).mu = 25)
    [[⟨0, 25, 8⟩], [⟨1, 30, 8⟩], [⟨2, 20, 8⟩]] [[⟨0, 25, 8⟩], [⟨1, 25, 8⟩], [⟨2, 25, 8⟩]] := by
  refine List.Forall₂.cons ?_ (List.Forall₂.cons ?_ (List.Forall₂.cons ?_ List.Forall₂.nil)) <;>
    simp [teamAgg, sumL_eq_sum]

end OS
end
