import OSModel
import OSProofs.SortLemmas
/-!
# Helper lemmas for C02 (position-by-position correspondence of `rate`)

Generic over the scalar type; nothing here looks at a number.
-/
namespace OS
open Scalar
variable {α ρ : Type} [Scalar α]

/-- the update of one team from its own rank, omega and delta -/
def updTeam (kappa : α) (t : List (Rating α)) (w : Nat × α × α) : List (Rating α) :=
  applyTeam kappa (teamAgg t w.1) w.2.1 w.2.2

theorem teamAggs_length (teams : List (List (Rating α))) (ds : List Nat) :
    (teamAggs teams ds).length = min teams.length ds.length := by
  simp [teamAggs]

/-- `omegaDelta` returns one pair per team, for every model -/
theorem omegaDelta_length (K : Kind) (L : Leaves α) (P : Params α) (ts : List (TeamAgg α)) :
    (omegaDelta K L P ts).length = ts.length := by
  cases K <;> simp [omegaDelta]

/-- the tail of `compute` is a `zipWith` of the teams with their (rank, omega, delta) -/
theorem applyAll_eq_zipWith (kappa : α) (teams : List (List (Rating α))) (ds : List Nat)
    (od : List (α × α)) :
    ((teamAggs teams ds).zip od).map (fun x => applyTeam kappa x.1 x.2.1 x.2.2)
      = List.zipWith (updTeam kappa) teams (ds.zip od) := by
  induction teams generalizing ds od with
  | nil => simp [teamAggs]
  | cons t ts ih =>
    cases ds with
    | nil => simp [teamAggs]
    | cons d ds =>
      cases od with
      | nil => simp [teamAggs]
      | cons x od =>
        have := ih ds od
        simp only [teamAggs] at this
        simp only [teamAggs, List.zip_cons_cons, List.map_cons, List.zipWith_cons_cons, this]
        rfl

theorem applyTeam_ids (kappa : α) (t : TeamAgg α) (om de : α) :
    (applyTeam kappa t om de).map (·.id) = t.players.map (·.id) := by
  simp [applyTeam]

theorem updTeam_ids (kappa : α) (t : List (Rating α)) (w : Nat × α × α) :
    (updTeam kappa t w).map (·.id) = t.map (·.id) := by
  simp [updTeam, applyTeam_ids, teamAgg]

/-- the clamp of one team keeps every id in its slot -/
theorem clampTeam_ids (a b : List (Rating α)) (h : a.length = b.length) :
    ((a.zip b).map (fun pq =>
        if pq.1.sigma ≤ pq.2.sigma then pq.1 else { pq.1 with sigma := pq.2.sigma })).map (·.id)
      = a.map (·.id) := by
  induction a generalizing b with
  | nil => simp
  | cons p a ih =>
    cases b with
    | nil => simp at h
    | cons q b =>
      have := ih b (by simpa using h)
      simp only [List.zip_cons_cons, List.map_cons, this]
      congr 1
      split <;> rfl

end OS
