import OSProofs.SpecLemmas

/-!
# C01 — `rate` computes the published Weng–Lin posterior for each of the five models

Refinement theorems over ℝ: the code-shaped `omegaDelta` / `compute` of `OSModel/Compute.lean`
(left folds in the Python code's iteration order, dict/list bookkeeping of `_sum_q`, `_a`,
`enumerate`/`zip`) equal the closed forms of `OSProofs/Spec.lean` (plain `Finset` sums over the team
index).  No hypothesis on the ranks is needed: `S_q` and `A_q` are defined through rank
comparisons, both in the code and in the closed form.
-/

noncomputable section
namespace OS
open Finset

/-- **Plackett–Luce.**  For EVERY list of team aggregates (any ranks, sorted or not) the code's
loops return, for each team `i`, exactly the published
`Ω_i = (s2_i/c) Σ_{q : r_q ≤ r_i} ([q=i] − e_i/S_q)/A_q` and
`Δ_i = (Σ_{q : r_q ≤ r_i} (e_i/S_q)(1 − e_i/S_q)/A_q)(s2_i/c²) γ_i`. -/
theorem C01_PL (L : Leaves ℝ) (P : Params ℝ) (ts : List (TeamAgg ℝ)) :
    omegaDelta .PL L P ts = List.ofFn (fun i : Fin ts.length =>
      (SpecPL.Ω (gameOf ts) P.beta i, SpecPL.Δ (gameOf ts) P.beta (gammaOf P.gamma ts) i)) := by
  simp only [omegaDelta]
  rw [zipIdx_map'_eq_ofFn]
  congr 1
  funext i
  exact plOmegaDelta_eq P.gamma P.beta ts i

/-- **Bradley–Terry, full pairing.**  `Ω_i`, `Δ_i` are the sums of the published pair terms over
all opponents `q ≠ i`. -/
theorem C01_BTF (L : Leaves ℝ) (P : Params ℝ) (ts : List (TeamAgg ℝ)) :
    omegaDelta .BTF L P ts = List.ofFn (fun i : Fin ts.length =>
      (SpecBT.ΩF (gameOf ts) P.beta i, SpecBT.ΔF (gameOf ts) P.beta (gammaOf P.gamma ts) i)) := by
  simp only [omegaDelta]
  rw [zipIdx_map'_eq_ofFn]
  congr 1
  funext i
  simp only [sumPairs_map, sum_othersOf, btPair_eq]
  rfl

/-- **Bradley–Terry, partial pairing.**  `Ω_i`, `Δ_i` are the sums of the same pair terms over
the neighbours `i − 1`, `i + 1` (those that exist) in the given list order. -/
theorem C01_BTP (L : Leaves ℝ) (P : Params ℝ) (ts : List (TeamAgg ℝ)) :
    omegaDelta .BTP L P ts = List.ofFn (fun i : Fin ts.length =>
      (SpecBT.ΩP (gameOf ts) P.beta i, SpecBT.ΔP (gameOf ts) P.beta (gammaOf P.gamma ts) i)) := by
  simp only [omegaDelta]
  rw [zipIdx_map'_eq_ofFn]
  congr 1
  funext i
  simp only [sumPairs_map, sum_neighboursOf, btPair_eq]
  rfl

/-- **Thurstone–Mosteller, full pairing.**  Sums over `q ≠ i` of the published pair terms
(`v`, `w` on a win, `−v(−x)`, `w(−x)` on a loss, `ṽ`, `w̃` on a tie; `c_iq = √(s2_i + s2_q + 2β²)`). -/
theorem C01_TMF (L : Leaves ℝ) (P : Params ℝ) (ts : List (TeamAgg ℝ)) :
    omegaDelta .TMF L P ts = List.ofFn (fun i : Fin ts.length =>
      (SpecTM.ΩF (gameOf ts) L P.beta P.kappa i,
       SpecTM.ΔF (gameOf ts) L P.beta P.kappa (gammaOf P.gamma ts) i)) := by
  simp only [omegaDelta]
  rw [zipIdx_map'_eq_ofFn]
  congr 1
  funext i
  simp only [sumPairs_map, sum_othersOf, tmPair_eq, sc_ofNat, Nat.cast_one]
  rfl

/-- **Thurstone–Mosteller, partial pairing.**  Sums over the ladder neighbours of the same pair
terms with `c_iq = 2·√(s2_i + s2_q + 2β²)`. -/
theorem C01_TMP (L : Leaves ℝ) (P : Params ℝ) (ts : List (TeamAgg ℝ)) :
    omegaDelta .TMP L P ts = List.ofFn (fun i : Fin ts.length =>
      (SpecTM.ΩP (gameOf ts) L P.beta P.kappa i,
       SpecTM.ΔP (gameOf ts) L P.beta P.kappa (gammaOf P.gamma ts) i)) := by
  simp only [omegaDelta]
  rw [zipIdx_map'_eq_ofFn]
  congr 1
  funext i
  simp only [sumPairs_map, sum_neighboursOf, tmPair_eq, sc_ofNat, Nat.cast_ofNat]
  rfl

/-- all five at once -/
theorem C01_omegaDelta (K : Kind) (L : Leaves ℝ) (P : Params ℝ) (ts : List (TeamAgg ℝ)) :
    omegaDelta K L P ts = List.ofFn (specOmegaDelta K L P ts) := by
  cases K
  · exact C01_PL L P ts
  · exact C01_BTF L P ts
  · exact C01_BTP L P ts
  · exact C01_TMF L P ts
  · exact C01_TMP L P ts

/-- **Per-player tail.**  Every player of a team gets `μ' = μ + (σ²/s2)·ω` and
`σ' = σ·√(max(1 − (σ²/s2)·δ, κ))`; Python's `max` is the real maximum. -/
theorem C01_player (κ : ℝ) (t : TeamAgg ℝ) (ω δ : ℝ) :
    applyTeam κ t ω δ = t.players.map (fun p =>
      { p with mu := p.mu + (p.sigma ^ 2 / t.sig2) * ω,
               sigma := p.sigma * Real.sqrt (max (1 - (p.sigma ^ 2 / t.sig2) * δ) κ) }) := by
  unfold applyTeam
  simp only [smax_eq_max, sc_sqrt, sc_ofNat, Nat.cast_one, sq]

/-- **Team aggregation.**  The team mean is the sum of the player means, the team variance the
sum of the squared player sigmas; rank and roster are carried along. -/
theorem C01_teamAgg (team : List (Rating ℝ)) (rk : Nat) :
    teamAgg team rk =
      { mu := (team.map (·.mu)).sum, sig2 := (team.map (fun p => p.sigma ^ 2)).sum,
        rank := rk, players := team } := by
  unfold teamAgg
  simp only [sumL_eq_sum, sq]

/-- the tau inflation replaces `σ²` by `σ² + τ²` (no sign condition: `σ² + τ² ≥ 0`) -/
theorem C01_inflate_sq (τ σ : ℝ) : Real.sqrt (σ * σ + τ * τ) ^ 2 = σ ^ 2 + τ ^ 2 := by
  rw [Real.sq_sqrt (add_nonneg (mul_self_nonneg _) (mul_self_nonneg _))]; ring

/-- **Team aggregation after the tau inflation.**  Team `i` of `teamAggs (inflate τ teams) dense`
has mean `Σ_j μ_j`, variance `Σ_j (σ_j² + τ²)`, rank `dense[i]`, and the inflated roster. -/
theorem C01_teamAgg_inflate (τ : ℝ) (teams : List (List (Rating ℝ))) (dense : List Nat) (i : Nat)
    (h1 : i < teams.length) (h2 : i < dense.length) :
    (teamAggs (inflate τ teams) dense)[i]'(by
        rw [teamAggs_length_real]; simp only [inflate, List.length_map]; omega) =
      { mu := (teams[i].map (·.mu)).sum,
        sig2 := (teams[i].map (fun p => p.sigma ^ 2 + τ ^ 2)).sum,
        rank := dense[i],
        players := teams[i].map (fun p =>
          { p with sigma := Real.sqrt (p.sigma ^ 2 + τ ^ 2) }) } := by
  rw [teamAggs_getElem _ _ i (by simp only [inflate, List.length_map]; exact h1) h2, C01_teamAgg]
  simp only [inflate, List.getElem_map, List.map_map, sc_sqrt, ← sq]
  congr 1
  refine congrArg List.sum (List.map_congr_left (fun p _ => ?_))
  simp only [Function.comp_apply]
  rw [Real.sq_sqrt (by positivity)]

/-- **`_compute`.**  The result of `_compute` is, for each team `i` of `ts = teamAggs teams dense`
and each of its players, the published per-player update with the published `(Ω_i, Δ_i)` of the
model `K`. -/
theorem C01_compute (K : Kind) (L : Leaves ℝ) (P : Params ℝ) (teams : List (List (Rating ℝ)))
    (dense : List Nat) :
    compute K L P teams dense = specCompute K L P (teamAggs teams dense) := by
  unfold compute specCompute
  simp only [C01_omegaDelta, zip_ofFn_map, C01_player]
  rfl

/-- **`rate` without ranks or scores** (teams in the given order, ranks `0, 1, …`) and without the
`limit_sigma` clamp: the published posterior of the tau-inflated teams. -/
theorem C01_rate_omitted {ρ : Type} (K : Kind) (L : Leaves ℝ) (P : Params ℝ) (le : ρ → ρ → Bool)
    (neg : ρ → ρ) (teams : List (List (Rating ℝ))) (o : CallOpts ℝ)
    (hl : resolveLimit P o = false) :
    rate K L P le neg teams .omitted o
      = specCompute K L P
          (teamAggs (inflate (resolveTau P o) teams) (List.range teams.length)) := by
  simp only [rate, rateCore, hl, C01_compute]
  simp [inflate]

/-- sanity check of the closed form (the statements above are not about a degenerate spec): two
teams, team 0 wins — the textbook two-team Plackett–Luce `Ω` -/
example (G : Game 2) (β : ℝ) (h0 : G.r 0 = 0) (h1 : G.r 1 = 1) :
    SpecPL.Ω G β 0
        = (G.s2 0 / SpecPL.c G β) * (1 - SpecPL.e G β 0 / (SpecPL.e G β 0 + SpecPL.e G β 1))
    ∧ SpecPL.Ω G β 1
        = (G.s2 1 / SpecPL.c G β) * (-(SpecPL.e G β 1 / (SpecPL.e G β 0 + SpecPL.e G β 1))) := by
  constructor
  · simp only [SpecPL.Ω, SpecPL.p, SpecPL.S, SpecPL.A, Fin.sum_univ_two, Finset.sum_filter,
      Finset.card_filter, h0, h1]
    norm_num
  · simp only [SpecPL.Ω, SpecPL.p, SpecPL.S, SpecPL.A, Fin.sum_univ_two, Finset.sum_filter,
      Finset.card_filter, h0, h1]
    have hne : SpecPL.e G β 1 ≠ 0 := (Real.exp_pos _).ne'
    norm_num [div_self hne]

end OS
end
