import OSProofs.Props.FL1
import OSProofs.MonoArithInst
import Mathlib.Algebra.Order.BigOperators.Group.List

/-!
# FL1 — the `MonoArith` theorems instantiated at ℝ and at every rounded arithmetic `RN r`

`OSProofs/Props/FL1.lean` is Mathlib-free and abstract; this file plugs in the two proved instances
`MonoArith.real` and `MonoArith.rn r`, so that the statements are visibly usable:

* over ℝ every divisor hypothesis is discharged (`FL_divisorsPosRest_real`): `FL_C06_real_instance`,
  `FL_C05_real_instance_first/last` have hypotheses on the input only;
* over `RN r` (exact result, then an arbitrary monotone rounding `r`) Bradley–Terry needs no divisor
  hypothesis either: `FL_C06_rn_instance_BT`; for Plackett–Luce the two underflow conditions remain
  (`FL_C06_rn_instance`).
-/

noncomputable section
namespace OS
open Scalar

/-! ### ℝ: all divisor hypotheses hold -/

/-- over ℝ, positive team variances and at least one team make every computed divisor positive -/
theorem FL_divisorsPosRest_real (K : Kind) (P : Params ℝ) (ts : List (TeamAgg ℝ)) (hne : ts ≠ [])
    (hv : ∀ t ∈ ts, (0 : ℝ) < t.sig2) : DivisorsPosRest K P ts := by
  have hv' : ∀ t ∈ ts, (Scalar.ofNat 0 : ℝ) < t.sig2 := by
    intro t ht; simpa using hv t ht
  have hc : ∀ ti ∈ ts, ∀ tq ∈ ts,
      (0 : ℝ) < Real.sqrt (ti.sig2 + tq.sig2 + 2 * (P.beta * P.beta)) := by
    intro ti hti tq htq
    have := MonoArith.real.fl1_ciq_pos P.beta ti tq (hv' ti hti)
      (MonoArith.real.fl1_le_of_lt (hv' tq htq))
    simpa using this
  cases K with
  | PL =>
    have h := MonoArith.real.fl1_plC_pos P.beta ts hne hv'
    simp only [sc_ofNat, Nat.cast_zero] at h
    refine ⟨?_, fun t _ => ?_⟩
    · simp only [sc_ofNat, Nat.cast_zero]; exact mul_pos h h
    · simp only [sc_ofNat, Nat.cast_zero, sc_exp]; exact Real.exp_pos _
  | BTF => trivial
  | BTP => trivial
  | TMF =>
    intro ti hti tq htq
    simp only [sc_ofNat, Nat.cast_zero, Nat.cast_one, one_mul, sc_sqrt, Nat.cast_ofNat]
    exact hc ti hti tq htq
  | TMP =>
    intro ti hti tq htq
    simp only [sc_ofNat, Nat.cast_zero, sc_sqrt, Nat.cast_ofNat]
    exact mul_pos two_pos (hc ti hti tq htq)

/-- over ℝ, a non-empty team of players with `σ > 0` has a positive variance after inflation -/
theorem fl1_real_infl_var_pos (tau : ℝ) (teams : List (List (Rating ℝ)))
    (hT : ∀ T ∈ teams, T ≠ []) (hs : ∀ T ∈ teams, ∀ p ∈ T, (0 : ℝ) < p.sigma) :
    ∀ T ∈ inflate tau teams, (Scalar.ofNat 0 : ℝ) < sumL (T.map (fun p => p.sigma * p.sigma)) := by
  intro T hTm
  rw [fl1_inflate_eq_map] at hTm
  obtain ⟨T₀, hT₀, rfl⟩ := List.mem_map.1 hTm
  rw [sumL_eq_sum, sc_ofNat, Nat.cast_zero]
  apply List.sum_pos
  · intro x hx
    obtain ⟨p, hp, rfl⟩ := List.mem_map.1 hx
    obtain ⟨p₀, hp₀, rfl⟩ := List.mem_map.1 hp
    have h0 := hs T₀ hT₀ p₀ hp₀
    have : (0 : ℝ) < Real.sqrt (p₀.sigma * p₀.sigma + tau * tau) :=
      Real.sqrt_pos.2 (by have := mul_pos h0 h0; have := mul_self_nonneg tau; linarith)
    exact mul_pos this this
  · simpa using hT T₀ hT₀

theorem fl1_rateAggs_mem {α : Type} [Scalar α] {ρ : Type} (P : Params α) (le : ρ → ρ → Bool)
    (teams : List (List (Rating α))) (ranks : Option (List ρ)) (o : CallOpts α) :
    ∀ t ∈ FL_rateAggs P le teams ranks o,
      ∃ S ∈ inflate (resolveTau P o) teams, ∃ r, t = teamAgg S r := by
  intro t ht
  cases ranks with
  | none => exact fl1_mem_teamAggs ht
  | some r =>
    obtain ⟨S, hS, d, rfl⟩ := fl1_mem_teamAggs ht
    exact ⟨S, fl1_mem_unwind_fst _ _ _ hS, d, rfl⟩

theorem fl1_rateAggs_ne_nil {α : Type} [Scalar α] {ρ : Type} (P : Params α) (le : ρ → ρ → Bool)
    (teams : List (List (Rating α))) (ranks : Option (List ρ)) (o : CallOpts α)
    (hne : teams ≠ []) (hr : ∀ r, ranks = some r → r.length = teams.length) :
    FL_rateAggs P le teams ranks o ≠ [] := by
  have hpos : 0 < teams.length := List.length_pos_iff.2 hne
  have hlen : (inflate (resolveTau P o) teams).length = teams.length := by simp [inflate]
  apply List.ne_nil_of_length_pos
  cases ranks with
  | none =>
    simp only [FL_rateAggs, fl1_teamAggs_length, List.length_range, hlen]; omega
  | some r =>
    have h1 := hr r rfl
    simp only [FL_rateAggs, fl1_teamAggs_length, denseRanks_length, sortedKeys_length,
      unwind_fst_length, hlen]
    omega

/-- **C06 over ℝ, hypotheses on the input only.**  At least one team, no empty team, all `σ > 0`, `κ ≤ 1`,
non-negative gamma (non-negative leaves for TMF/TMP), ranks omitted or one per team: slot by slot,
`σ' ≤ √(σ·σ + τ·τ)`, `σ' ≤ σ` under limit_sigma, `0 ≤ σ'`. -/
theorem FL_C06_real_instance {ρ : Type} (K : Kind) (L : Leaves ℝ) (P : Params ℝ)
    (le : ρ → ρ → Bool) (teams : List (List (Rating ℝ))) (ranks : Option (List ρ)) (o : CallOpts ℝ)
    (hL : K = .TMF ∨ K = .TMP → LeavesNonneg L)
    (hne : teams ≠ []) (hT : ∀ T ∈ teams, T ≠ []) (hs : ∀ T ∈ teams, ∀ p ∈ T, (0 : ℝ) < p.sigma)
    (hk : P.kappa ≤ 1) (hg : GammaNonneg P.gamma)
    (hr : ∀ r, ranks = some r → r.length = teams.length) :
    List.Forall₂ (List.Forall₂ (FLSlotRate (resolveTau P o) (resolveLimit P o)))
      teams (rateCore K L P le teams ranks o) := by
  have hv := fl1_real_infl_var_pos (resolveTau P o) teams hT hs
  refine FL_C06_rateCore MonoArith.real K L P le teams ranks o hL hv (by simpa using hk) hg ?_ hr
  apply FL_divisorsPosRest_real K P _ (fl1_rateAggs_ne_nil P le teams ranks o hne hr)
  intro t ht
  obtain ⟨S, hS, d, rfl⟩ := fl1_rateAggs_mem P le teams ranks o t ht
  simpa [fl1_teamAgg_sig2] using hv S hS

/-- **C05 over ℝ, sole winner**: hypotheses on the input only (positive team variances) -/
theorem FL_C05_real_instance_first (K : Kind) (L : Leaves ℝ) (P : Params ℝ)
    (teams : List (List (Rating ℝ))) (dense : List Nat)
    (hL : K = .TMF ∨ K = .TMP → LeavesNonneg L)
    (hv : ∀ T ∈ teams, (0 : ℝ) < sumL (T.map (fun p => p.sigma * p.sigma)))
    (i : Nat) (T : List (Rating ℝ)) (d : Nat) (hT : teams[i]? = some T) (hdi : dense[i]? = some d)
    (hfirst : ∀ j dj, j < teams.length → j ≠ i → dense[j]? = some dj → d < dj) :
    ∃ T', (compute K L P teams dense)[i]? = some T' ∧
      List.Forall₂ (fun p p' => p'.id = p.id ∧ p.mu ≤ p'.mu) T T' := by
  have hv' : ∀ T ∈ teams, (Scalar.ofNat 0 : ℝ) < sumL (T.map (fun p => p.sigma * p.sigma)) := by
    intro T hT; simpa using hv T hT
  refine FL_C05_compute_sole_first MonoArith.real K L P teams dense hL hv' ?_ i T d hT hdi hfirst
  apply FL_divisorsPosRest_real
  · exact List.ne_nil_of_mem (List.mem_of_getElem? (fl1_teamAggs_getElem? teams dense i hT hdi))
  · intro t ht; simpa using fl1_mem_teamAggs_var (dense := dense) hv' t ht

/-- **C05 over ℝ, sole loser** -/
theorem FL_C05_real_instance_last (K : Kind) (L : Leaves ℝ) (P : Params ℝ)
    (teams : List (List (Rating ℝ))) (dense : List Nat)
    (hL : K = .TMF ∨ K = .TMP → LeavesNonneg L)
    (hv : ∀ T ∈ teams, (0 : ℝ) < sumL (T.map (fun p => p.sigma * p.sigma)))
    (i : Nat) (T : List (Rating ℝ)) (d : Nat) (hT : teams[i]? = some T) (hdi : dense[i]? = some d)
    (hlast : ∀ j dj, j < teams.length → j ≠ i → dense[j]? = some dj → dj < d) :
    ∃ T', (compute K L P teams dense)[i]? = some T' ∧
      List.Forall₂ (fun p p' => p'.id = p.id ∧ p'.mu ≤ p.mu) T T' := by
  have hv' : ∀ T ∈ teams, (Scalar.ofNat 0 : ℝ) < sumL (T.map (fun p => p.sigma * p.sigma)) := by
    intro T hT; simpa using hv T hT
  refine FL_C05_compute_sole_last MonoArith.real K L P teams dense hL hv' ?_ i T d hT hdi hlast
  apply FL_divisorsPosRest_real
  · exact List.ne_nil_of_mem (List.mem_of_getElem? (fl1_teamAggs_getElem? teams dense i hT hdi))
  · intro t ht; simpa using fl1_mem_teamAggs_var (dense := dense) hv' t ht

/-! ### `RN r`: exact result, then an arbitrary monotone rounding -/

/-- **C06 in every rounded arithmetic.**  `FL_C06_rateCore` at `MonoArith.rn r`: the statement is about
the *rounded* numbers. -/
theorem FL_C06_rn_instance (r : Rounding) {ρ : Type} (K : Kind) (L : Leaves (RN r))
    (P : Params (RN r)) (le : ρ → ρ → Bool) (teams : List (List (Rating (RN r))))
    (ranks : Option (List ρ)) (o : CallOpts (RN r))
    (hL : K = .TMF ∨ K = .TMP → LeavesNonneg L)
    (hv : ∀ T ∈ inflate (resolveTau P o) teams,
      Scalar.ofNat 0 < sumL (T.map (fun p => p.sigma * p.sigma)))
    (hk : P.kappa ≤ Scalar.ofNat 1) (hg : GammaNonneg P.gamma)
    (hd : DivisorsPosRest K P (FL_rateAggs P le teams ranks o))
    (hr : ∀ r', ranks = some r' → r'.length = teams.length) :
    List.Forall₂ (List.Forall₂ (FLSlotRate (resolveTau P o) (resolveLimit P o)))
      teams (rateCore K L P le teams ranks o) :=
  FL_C06_rateCore (MonoArith.rn r) K L P le teams ranks o hL hv hk hg hd hr

/-- **C06 in every rounded arithmetic, Bradley–Terry**: besides `κ ≤ 1` and a non-negative gamma the only
hypothesis is that the (rounded) variances of the inflated teams are `> 0`; with the library's default
gamma nothing about gamma is left either. -/
theorem FL_C06_rn_instance_BT (r : Rounding) {ρ : Type} (L : Leaves (RN r))
    (beta kappa tau : RN r) (lim : Bool) (le : ρ → ρ → Bool)
    (teams : List (List (Rating (RN r)))) (ranks : Option (List ρ)) (o : CallOpts (RN r))
    (hv : ∀ T ∈ inflate (resolveTau ⟨beta, kappa, tau, lim, .dflt⟩ o) teams,
      Scalar.ofNat 0 < sumL (T.map (fun p => p.sigma * p.sigma)))
    (hk : kappa ≤ Scalar.ofNat 1)
    (hr : ∀ r', ranks = some r' → r'.length = teams.length) :
    List.Forall₂ (List.Forall₂ (FLSlotRate (resolveTau ⟨beta, kappa, tau, lim, .dflt⟩ o)
        (resolveLimit ⟨beta, kappa, tau, lim, .dflt⟩ o)))
      teams (rateCore .BTF L ⟨beta, kappa, tau, lim, .dflt⟩ le teams ranks o) :=
  FL_C06_rateCore (MonoArith.rn r) .BTF L _ le teams ranks o (by rintro (h | h) <;> cases h) hv hk
    ((MonoArith.rn r).fl1_gammaNonneg_of_tag _ (by intro x h; cases h) (by intro h; cases h) (by intro f h; cases h))
    trivial hr

/-- C05 in every rounded arithmetic: a sole winner's members never lose mu (Bradley–Terry, partial pairing) -/
example (r : Rounding) (L : Leaves (RN r)) (P : Params (RN r))
    (teams : List (List (Rating (RN r)))) (dense : List Nat)
    (hv : ∀ T ∈ teams, Scalar.ofNat 0 < sumL (T.map (fun p => p.sigma * p.sigma)))
    (i : Nat) (T : List (Rating (RN r))) (d : Nat) (hT : teams[i]? = some T)
    (hdi : dense[i]? = some d)
    (hfirst : ∀ j dj, j < teams.length → j ≠ i → dense[j]? = some dj → d < dj) :
    ∃ T', (compute .BTP L P teams dense)[i]? = some T' ∧
      List.Forall₂ (fun p p' => p'.id = p.id ∧ p.mu ≤ p'.mu) T T' :=
  FL_C05_compute_sole_first (MonoArith.rn r) .BTP L P teams dense (by rintro (h | h) <;> cases h)
    hv trivial i T d hT hdi hfirst

/-- C05 in the lossy arithmetic `truncRounding 10`, Plackett–Luce, sole loser -/
example (L : Leaves (RN (truncRounding 10))) (P : Params (RN (truncRounding 10)))
    (teams : List (List (Rating (RN (truncRounding 10))))) (dense : List Nat)
    (hv : ∀ T ∈ teams, Scalar.ofNat 0 < sumL (T.map (fun p => p.sigma * p.sigma)))
    (hd : DivisorsPosRest .PL P (teamAggs teams dense))
    (i : Nat) (T : List (Rating (RN (truncRounding 10)))) (d : Nat) (hT : teams[i]? = some T)
    (hdi : dense[i]? = some d)
    (hlast : ∀ j dj, j < teams.length → j ≠ i → dense[j]? = some dj → dj < d) :
    ∃ T', (compute .PL L P teams dense)[i]? = some T' ∧
      List.Forall₂ (fun p p' => p'.id = p.id ∧ p'.mu ≤ p.mu) T T' :=
  FL_C05_compute_sole_last (MonoArith.rn _) .PL L P teams dense (by rintro (h | h) <;> cases h)
    hv hd i T d hT hdi hlast

/-- why `GammaNonneg` restricts `c` to `c > 0`: the unrestricted "`0 ≤ gamma` for all `c`" is false for the
library's default callback `√σ² / c` (take `c = -1`, `σ² = 1`) -/
example : ¬ ∀ (c : ℝ) (k : Nat) (mu s2 : ℝ) (rank : Nat),
    (Scalar.ofNat 0 : ℝ) ≤ gammaVal GammaFn.dflt c k mu s2 [] rank := by
  intro h
  have := h (-1) 0 0 1 0
  simp only [gammaVal, sc_sqrt, Real.sqrt_one, sc_ofNat, Nat.cast_zero] at this
  norm_num at this

/-- the hypotheses of `FL_C06_real_instance` are satisfiable: two one-player teams, library defaults -/
example (L : Leaves ℝ) (o : CallOpts ℝ) :
    List.Forall₂ (List.Forall₂ (FLSlotRate
        (resolveTau ⟨25 / 6, 1 / 10000, 25 / 300, false, .dflt⟩ o)
        (resolveLimit ⟨25 / 6, 1 / 10000, 25 / 300, false, .dflt⟩ o)))
      [[⟨0, 25, 25 / 3⟩], [⟨1, 25, 25 / 3⟩]]
      (rateCore .PL L ⟨25 / 6, 1 / 10000, 25 / 300, false, .dflt⟩ leNat
        [[⟨0, 25, 25 / 3⟩], [⟨1, 25, 25 / 3⟩]] (some [1, 2]) o) := by
  apply FL_C06_real_instance .PL L _ leNat _ _ o (by rintro (h | h) <;> cases h) (by simp)
  · intro T hT; simp at hT; rcases hT with rfl | rfl <;> simp
  · intro T hT p hp; simp at hT; rcases hT with rfl | rfl <;> simp at hp <;> subst hp <;> norm_num
  · norm_num
  · exact MonoArith.real.fl1_gammaNonneg_of_tag _ (by intro x h; cases h) (by intro h; cases h) (by intro f h; cases h)
  · intro r h; cases h; rfl

end OS
end
