"""
Entry point of every registered check:  ./check Cxx --tier quick|thorough

 1. lean gate: `lake build` (model, driver, proofs), forbidden-token grep, `#print axioms`
    audit of the property's theorems (thorough: leanchecker on the property's modules);
 2. corpus replays of the property, then the property's correspondence / predicate run;
 3. known-findings handling, evidence file, VIOLATION protocol.
"""
import argparse, json, os, re, subprocess, sys, time, traceback

HERE = os.path.dirname(os.path.abspath(__file__))
sys.path.insert(0, HERE)
VERIF = os.path.dirname(HERE)
LEAN_DIR = os.path.join(VERIF, "lean")

ALLOWED_AXIOMS = {"propext", "Classical.choice", "Quot.sound"}
FORBIDDEN = re.compile(r"\b(sorry|admit|native_decide|bv_decide|implemented_by|unsafe)\b|^\s*axiom\s|maxHeartbeats 0")


def strip_comments(src):
    src = re.sub(r"/-.*?-/", "", src, flags=re.S)
    return "\n".join(l.split("--")[0] for l in src.split("\n"))


def lean_gate(prop, tier):
    """returns dict(ok, obligations, discharged, theorems, problems, checker_cmd)"""
    out = dict(ok=True, obligations=0, discharged=0, theorems=[], problems=[], checker_cmd="")
    env = dict(os.environ)
    b = subprocess.run(["lake", "build"], cwd=LEAN_DIR, stdout=subprocess.PIPE, stderr=subprocess.STDOUT, env=env)
    out["checker_cmd"] = "cd lean && lake build && lake env lean OSProofs/Audit/%s.lean" % prop
    if b.returncode != 0:
        out["ok"] = False
        out["problems"].append("lake build failed: " + b.stdout.decode()[-1500:])
        return out
    # forbidden tokens anywhere in the Lean sources (comments stripped)
    for root in ("OSModel", "OSProofs"):
        for dp, _, fns in os.walk(os.path.join(LEAN_DIR, root)):
            for fn in fns:
                if fn.endswith(".lean"):
                    src = strip_comments(open(os.path.join(dp, fn)).read())
                    for i, l in enumerate(src.split("\n")):
                        if FORBIDDEN.search(l):
                            out["ok"] = False
                            out["problems"].append("forbidden token in %s:%d: %s" % (fn, i + 1, l.strip()[:80]))
    for fn in ("Driver.lean",):
        src = strip_comments(open(os.path.join(LEAN_DIR, fn)).read())
        if re.search(r"\b(sorry|native_decide|implemented_by)\b|^\s*axiom\s", src, flags=re.M):
            out["ok"] = False
            out["problems"].append("forbidden token in " + fn)
    audit = os.path.join(LEAN_DIR, "OSProofs", "Audit", prop + ".lean")
    if not os.path.exists(audit):
        out["ok"] = False
        out["problems"].append("no audit file for " + prop)
        return out
    want = re.findall(r"^#print axioms\s+(\S+)", open(audit).read(), flags=re.M)
    out["obligations"] = len(want)
    a = subprocess.run(["lake", "env", "lean", "OSProofs/Audit/%s.lean" % prop], cwd=LEAN_DIR,
                       stdout=subprocess.PIPE, stderr=subprocess.STDOUT, env=env)
    txt = a.stdout.decode()
    if a.returncode != 0:
        out["ok"] = False
        out["problems"].append("audit failed: " + txt[-1500:])
        return out
    txt1 = re.sub(r"\s+", " ", txt)
    got = {}
    for m in re.finditer(r"'(\S+)' depends on axioms: \[([^\]]*)\]", txt1):
        got[m.group(1)] = set(x.strip() for x in m.group(2).split(",") if x.strip())
    for m in re.finditer(r"'(\S+)' does not depend on any axioms", txt1):
        got[m.group(1)] = set()
    for name in want:
        full = [k for k in got if k == name or k.endswith("." + name)]
        if not full:
            out["ok"] = False
            out["problems"].append("theorem %s not reported by audit" % name)
            continue
        ax = got[full[0]]
        if ax - ALLOWED_AXIOMS:
            out["ok"] = False
            out["problems"].append("theorem %s uses axioms %s" % (name, sorted(ax - ALLOWED_AXIOMS)))
        else:
            out["discharged"] += 1
            out["theorems"].append(dict(name=name, axioms=sorted(ax)))
    if tier == "thorough":
        mods = re.findall(r"^import\s+(OSProofs\.\S+)", open(audit).read(), flags=re.M)
        if mods:
            c = subprocess.run(["lake", "env", "leanchecker"] + mods, cwd=LEAN_DIR,
                               stdout=subprocess.PIPE, stderr=subprocess.STDOUT, env=env)
            out["leanchecker"] = dict(modules=mods, rc=c.returncode, tail=c.stdout.decode()[-300:])
            out["checker_cmd"] += " && lake env leanchecker " + " ".join(mods)
            if c.returncode != 0:
                out["ok"] = False
                out["problems"].append("leanchecker failed: " + c.stdout.decode()[-800:])
    return out


def guarded(prop, res, fn):
    """run a check; an exception escaping from the implementation on a call the check considers valid, or
    the harness failing to digest what the implementation returned, is a finding, not an internal error"""
    import core
    try:
        fn(res)
    except core.HarnessError:
        raise
    except Exception as e:  # noqa: BLE001
        tb = traceback.extract_tb(e.__traceback__)
        in_impl = any(os.path.realpath(f.filename).startswith(os.path.realpath(core.REPO) + os.sep) for f in tb)
        where = "; ".join("%s:%d" % (os.path.basename(f.filename), f.lineno) for f in tb[-3:])
        if in_impl:
            res.fail("property", "%s: a call the check considers valid raised %s: %s (%s)" % (prop, type(e).__name__, e, where), None)
        else:
            res.fail("correspondence", "%s: the harness could not digest what the implementation returned: %s: %s (%s)" % (
                prop, type(e).__name__, e, where), None)


def run_shard(args):
    """one shard of a thorough run, in its own process"""
    prop, tier, seed, shard, nshards = args
    import core
    import props
    res = core.Result(prop, tier, seed + 1000003 * shard)
    res.shard, res.nshards = shard, nshards
    if shard == 0:
        guarded(prop, res, lambda r: props.run_corpus(prop, r))
    guarded(prop, res, props.CHECKS[prop])
    for (txt, g_) in core.INTERLEAVE_FAILURES[:20]:
        res.fail("property", "%s (call discipline): %s" % (prop, txt), dict(type="pred" if isinstance(g_, dict) and g_.get("_pred") else "game", game=g_))
    core.INTERLEAVE_FAILURES.clear()
    return dict(evaluations=res.evaluations, nontrivial=list(res.nontrivial), samples=res.samples, hist=res.hist,
                failures=res.failures, traces=res.traces, notes=res.notes, rule=res.rule)


def run_thorough(prop, tier, seed, res):
    import multiprocessing as mp
    n = int(os.environ.get("VERIF_WORKERS", "14"))
    with mp.Pool(n) as pool:
        outs = pool.map(run_shard, [(prop, tier, seed, k, n) for k in range(n)])
    for o in outs:
        res.evaluations += o["evaluations"]
        res.nontrivial.update(o["nontrivial"])
        if len(res.samples) < 3:
            res.samples += o["samples"][:1]
        for k, v in o["hist"].items():
            res.hist[k] = res.hist.get(k, 0) + v
        res.failures += o["failures"]
        res.traces += o["traces"]
        res.rule = o["rule"] or res.rule
    res.notes.append("thorough tier: %d worker processes, each with its own derived seed and its shard of the exhaustive enumerations" % n)


def load_known():
    p = os.path.join(VERIF, "known_findings.json")
    if os.path.exists(p):
        return json.load(open(p))
    return {"open": [], "fixed": []}


def main():
    ap = argparse.ArgumentParser()
    ap.add_argument("prop")
    ap.add_argument("--tier", default=os.environ.get("VERIF_TIER", "quick"))
    ap.add_argument("--replay", default=None)
    ap.add_argument("--no-lean", action="store_true", help="skip the lean gate (development only)")
    args = ap.parse_args()
    prop, tier = args.prop, args.tier
    if tier not in ("quick", "thorough"):
        tier = "quick"
    seed = int(os.environ.get("VERIF_SEED", "20260926"))
    t0 = time.time()
    try:
        gate = dict(ok=True, obligations=0, discharged=0, theorems=[], problems=[], checker_cmd="(skipped)")
        if not args.no_lean:
            gate = lean_gate(prop, tier)
        import core
        import props
        res = core.Result(prop, tier, seed)
        if args.replay:
            guarded(prop, res, lambda r: props.replay(prop, r, args.replay))
        elif tier == "thorough":
            run_thorough(prop, tier, seed, res)
        else:
            guarded(prop, res, lambda r: props.run_corpus(prop, r))
            guarded(prop, res, props.CHECKS[prop])
        for (txt, g_) in core.INTERLEAVE_FAILURES[:20]:
            res.fail("property", "%s (call discipline): %s" % (prop, txt), dict(type="pred" if isinstance(g_, dict) and g_.get("_pred") else "game", game=g_))
        for k_, v_ in core.CALL_STATS.items():
            if v_:
                res.hist["rate_calls_" + k_] = v_
        if core.REENTRANT_STATS["calls"]:
            res.hist["rate_calls_with_interleaved_nested_call"] = res.hist.get("rate_calls_with_interleaved_nested_call", 0) + core.REENTRANT_STATS["calls"]
        import p_pred
        for k_, v_ in p_pred.PRED_STATS.items():
            if v_:
                res.hist["predict_calls_" + k_] = v_
        for pr in gate["problems"]:
            res.fail("proof", pr, None)
        # ---- known findings
        known = load_known()
        remaining, known_lines = [], []
        for f in res.failures:
            hit = None
            for k in known.get("open", []):
                if k["property"] == prop and props.matches_known(k, f):
                    hit = k
                    break
            if hit:
                known_lines.append("KNOWN-FINDING: property=%s %s" % (prop, hit["what"]))
            else:
                remaining.append(f)
        for l in sorted(set(known_lines)):
            print(l)
        # ---- search for a failing input when only a correspondence / proof broke
        concrete = [f for f in remaining if f["kind"] == "property"]
        soft = [f for f in remaining if f["kind"] != "property"]
        if soft and not concrete:
            found = props.search_failing_input(prop, res, soft)
            # what the search finds is subject to the same known-findings file as what the run itself finds
            concrete = [f for f in found if not any(k["property"] == prop and props.matches_known(k, f) for k in known.get("open", []))]
        replay_path = None
        violation = bool(remaining)
        if violation:
            os.makedirs(os.path.join(VERIF, "replays"), exist_ok=True)
            replay_path = os.path.join(VERIF, "replays", "%s-%d-%d.json" % (prop, seed, int(time.time())))
            body = dict(property=prop, tier=tier, seed=seed,
                        failing_inputs=core.jsonable(concrete[:5]),
                        broken=core.jsonable([dict(kind=f["kind"], what=f["what"], input=f["input"]) for f in soft[:5]]),
                        note=("concrete failing input(s) on the implementation" if concrete else
                              "no failing input found; the correspondence / theorem named under 'broken' no longer checks"))
            json.dump(body, open(replay_path, "w"), indent=1)
        wall = time.time() - t0
        ev = dict(
            property_id=prop, tier=tier, seed=seed, level="proof",
            coverage=dict(
                obligations=gate["obligations"], discharged=gate["discharged"],
                checker_cmd=gate["checker_cmd"],
                trusted_base=props.TRUSTED_BASE + props.EXTRA_TRUST.get(prop, []),
                theorems=gate["theorems"],
                evaluations=res.evaluations, distinct_nontrivial=len(res.nontrivial),
                rule=res.rule, samples=core.jsonable(res.samples),
                traces_validated_against_impl=res.traces,
                distribution=res.hist, notes=res.notes,
                leanchecker=gate.get("leanchecker"),
                exhaustive=False,
            ),
            assumptions=props.ASSUMPTIONS.get(prop, []),
            wall_s=round(wall, 2), violations=len(remaining),
        )
        # development runs (lean gate skipped) never overwrite the registered evidence
        default_ev = os.path.join(VERIF, "evidence") if not args.no_lean else "/tmp/verif-evidence-dev"
        evdir = os.environ.get("VERIF_EVIDENCE_DIR", default_ev)
        os.makedirs(evdir, exist_ok=True)
        json.dump(ev, open(os.path.join(evdir, prop + ".json"), "w"), indent=1)
        if violation:
            for f in (concrete or soft)[:3]:
                print("  failing: [%s] %s" % (f["kind"], str(f["what"])[:400]))
            line = "VIOLATION property=%s replay=%s" % (prop, replay_path)
            if not concrete:
                line += " no-failing-input-found"
            print(line)
            sys.exit(1)
        print("OK property=%s tier=%s evaluations=%d theorems=%d/%d wall=%.1fs" % (
            prop, tier, res.evaluations, gate["discharged"], gate["obligations"], wall))
        sys.exit(0)
    except SystemExit:
        raise
    except Exception:  # noqa: BLE001
        traceback.print_exc()
        print("INTERNAL-ERROR property=%s" % prop)
        sys.exit(2)


if __name__ == "__main__":
    main()
