import OSModel
/-!
# Helper lemmas for C03 (outcomes are ordinal)

Facts about `sortByKey`/`unwind`/`sortedKeys` (stable merge sort by key) and `denseRanks`.
Everything is generic in the key type and its Boolean comparison; no analysis.
-/
namespace OS

/-! ### the key sort commutes with re-labelling the keys -/

/-- Sorting by key commutes with mapping keys through `f` (and payloads through `g`) as long as
    `f` preserves the comparison on the keys that occur. -/
theorem sortByKey_map {κ κ' β β' : Type} (le : κ → κ → Bool) (le' : κ' → κ' → Bool)
    (f : κ → κ') (g : β → β') (l : List (κ × β))
    (h : ∀ a ∈ l, ∀ b ∈ l, le' (f a.1) (f b.1) = le a.1 b.1) :
    sortByKey le' (l.map (Prod.map f g)) = (sortByKey le l).map (Prod.map f g) := by
  unfold sortByKey
  rw [List.map_mergeSort (s := fun a b => le' a.1 b.1)]
  intro a ha b hb
  simp [h a ha b hb]

theorem unwind_map_key {κ κ' β : Type} (le : κ → κ → Bool) (le' : κ' → κ' → Bool)
    (f : κ → κ') (r : List κ) (objs : List β)
    (h : ∀ a ∈ r, ∀ b ∈ r, le' (f a) (f b) = le a b) :
    unwind le' (r.map f) objs = unwind le r objs := by
  unfold unwind
  simp only []
  rw [List.zip_map_left, sortByKey_map le le' f id]
  · simp [List.map_map, Function.comp_def]
  · rintro ⟨a, x⟩ ha ⟨b, y⟩ hb
    exact h a (List.of_mem_zip ha).1 b (List.of_mem_zip hb).1

theorem sortedKeys_map {κ κ' : Type} (le : κ → κ → Bool) (le' : κ' → κ' → Bool)
    (f : κ → κ') (r : List κ)
    (h : ∀ a ∈ r, ∀ b ∈ r, le' (f a) (f b) = le a b) :
    sortedKeys le' (r.map f) = (sortedKeys le r).map f := by
  unfold sortedKeys
  rw [List.zipIdx_map, List.zip_map, sortByKey_map le le' f (Prod.map f id)]
  · simp [List.map_map, Function.comp_def]
  · rintro ⟨a, x⟩ ha ⟨b, y⟩ hb
    exact h a (List.of_mem_zip ha).1 b (List.of_mem_zip hb).1

/-- `sortedKeys` really is `sorted(ranks)`: the merge sort of the keys themselves -/
theorem sortedKeys_eq_mergeSort {κ : Type} (le : κ → κ → Bool) (r : List κ) :
    sortedKeys le r = r.mergeSort le := by
  unfold sortedKeys sortByKey
  rw [List.map_mergeSort (s := le) (fun _ _ _ _ => rfl), List.map_fst_zip (by simp)]

theorem mem_sortedKeys {κ : Type} (le : κ → κ → Bool) (r : List κ) (a : κ) :
    a ∈ sortedKeys le r ↔ a ∈ r := by
  rw [sortedKeys_eq_mergeSort]; exact List.mem_mergeSort

@[simp] theorem length_sortedKeys {κ : Type} (le : κ → κ → Bool) (r : List κ) :
    (sortedKeys le r).length = r.length := by
  rw [sortedKeys_eq_mergeSort]; exact List.length_mergeSort r

theorem sortedKeys_pairwise {κ : Type} (le : κ → κ → Bool)
    (total : ∀ a b, (le a b || le b a) = true)
    (trans : ∀ a b c, le a b = true → le b c = true → le a c = true) (r : List κ) :
    (sortedKeys le r).Pairwise (fun a b => le a b = true) := by
  rw [sortedKeys_eq_mergeSort]
  exact List.pairwise_mergeSort trans total r

/-! ### sorting an already sorted key list -/

theorem sortByKey_of_pairwise {κ β : Type} (le : κ → κ → Bool) (l : List (κ × β))
    (h : (l.map (·.1)).Pairwise (fun a b => le a b = true)) : sortByKey le l = l := by
  unfold sortByKey
  exact List.mergeSort_of_pairwise (List.pairwise_map.1 h)

theorem range_pairwise_leNat (n : Nat) :
    (List.range n).Pairwise (fun a b => leNat a b = true) := by
  have := @List.pairwise_le_range n
  simpa [leNat] using this

/-- `_unwind(range(n), objs)` does nothing when there are `n` objects -/
theorem unwind_range {β : Type} (objs : List β) (n : Nat) (hn : objs.length = n) :
    unwind leNat (List.range n) objs = (objs, List.range n) := by
  unfold unwind
  simp only []
  rw [sortByKey_of_pairwise]
  · have h2 : ((List.range n).zip objs.zipIdx).map (·.2) = objs.zipIdx :=
      List.map_snd_zip (by simp [hn])
    have e1 : ((List.range n).zip objs.zipIdx).map (·.2.1)
        = (((List.range n).zip objs.zipIdx).map (·.2)).map (·.1) := by
      simp [List.map_map, Function.comp_def]
    have e2 : ((List.range n).zip objs.zipIdx).map (·.2.2)
        = (((List.range n).zip objs.zipIdx).map (·.2)).map (·.2) := by
      simp [List.map_map, Function.comp_def]
    rw [e1, e2, h2, List.zipIdx_map_fst, List.zipIdx_map_snd, hn, List.range_eq_range']
  · rw [List.map_fst_zip (by simp [hn])]
    exact range_pairwise_leNat n

theorem sortedKeys_range (n : Nat) : sortedKeys leNat (List.range n) = List.range n := by
  rw [sortedKeys_eq_mergeSort]
  exact List.mergeSort_of_pairwise (range_pairwise_leNat n)

/-! ### denseRanks -/

@[simp] theorem length_denseRanksAux {ρ : Type} (lt : ρ → ρ → Bool) (prev : ρ) (idx s : Nat)
    (xs : List ρ) : (denseRanksAux lt prev idx s xs).length = xs.length := by
  induction xs generalizing prev idx s with
  | nil => rfl
  | cons x xs ih => simp [denseRanksAux, ih]

@[simp] theorem length_denseRanks {ρ : Type} (lt : ρ → ρ → Bool) (l : List ρ) :
    (denseRanks lt l).length = l.length := by
  cases l <;> simp [denseRanks]

theorem denseRanksAux_map {ρ ρ' : Type} (lt : ρ → ρ → Bool) (lt' : ρ' → ρ' → Bool) (f : ρ → ρ')
    (prev : ρ) (idx s : Nat) (xs : List ρ)
    (h : ∀ a ∈ prev :: xs, ∀ b ∈ prev :: xs, lt' (f a) (f b) = lt a b) :
    denseRanksAux lt' (f prev) idx s (xs.map f) = denseRanksAux lt prev idx s xs := by
  induction xs generalizing prev idx s with
  | nil => rfl
  | cons x xs ih =>
    simp only [List.map_cons, denseRanksAux]
    rw [h prev (by simp) x (by simp), ih]
    intro a ha b hb
    exact h a (List.mem_cons_of_mem _ ha) b (List.mem_cons_of_mem _ hb)

/-- the dense ranks only look at the comparisons between the listed values -/
theorem denseRanks_map {ρ ρ' : Type} (lt : ρ → ρ → Bool) (lt' : ρ' → ρ' → Bool) (f : ρ → ρ')
    (l : List ρ) (h : ∀ a ∈ l, ∀ b ∈ l, lt' (f a) (f b) = lt a b) :
    denseRanks lt' (l.map f) = denseRanks lt l := by
  cases l with
  | nil => rfl
  | cons x xs => simp only [List.map_cons, denseRanks]; rw [denseRanksAux_map lt lt' f x 1 0 xs h]

theorem denseRanksAux_range' (p s k : Nat) :
    denseRanksAux (fun a b => !leNat b a) p (p + 1) s (List.range' (p + 1) k)
      = List.range' (p + 1) k := by
  induction k generalizing p s with
  | zero => rfl
  | succ k ih =>
    rw [List.range'_succ]
    simp only [denseRanksAux]
    have : (!leNat (p + 1) p) = true := by simp [leNat]
    rw [if_pos this, ih]

theorem denseRanks_range (n : Nat) :
    denseRanks (fun a b => !leNat b a) (List.range n) = List.range n := by
  cases n with
  | zero => rfl
  | succ n =>
    rw [List.range_eq_range', List.range'_succ]
    simp only [denseRanks]
    have := denseRanksAux_range' 0 0 n
    simp only [Nat.zero_add] at this
    rw [this]

/-! ### what the dense ranks are: the number of strictly smaller values -/

section spec
variable {ρ : Type} (le : ρ → ρ → Bool)

/-- number of entries of `S` strictly below `x` -/
def below (S : List ρ) (x : ρ) : Nat := (S.filter (fun y => !le x y)).length

variable {le}

theorem le_refl_of_total (total : ∀ a b, (le a b || le b a) = true) (a : ρ) : le a a = true := by
  simpa using total a a

/-- values that compare equal have the same entries below them -/
theorem below_congr (trans : ∀ a b c, le a b = true → le b c = true → le a c = true)
    (S : List ρ) {x y : ρ} (hxy : le x y = true) (hyx : le y x = true) :
    below le S x = below le S y := by
  unfold below
  congr 1
  apply List.filter_congr
  intro z _
  cases hx : le x z <;> cases hy : le y z <;> simp
  · exact absurd (trans x y z hxy hy) (by simp [hx])
  · exact absurd (trans y x z hyx hx) (by simp [hy])

theorem countP_lt_of_imp {β : Type} (p q : β → Bool) (S : List β)
    (hpq : ∀ z ∈ S, p z = true → q z = true) (w : β) (hw : w ∈ S) (hq : q w = true)
    (hp : p w = false) : S.countP p < S.countP q := by
  induction S with
  | nil => cases hw
  | cons z S ih =>
    have hmono : S.countP p ≤ S.countP q :=
      List.countP_mono_left (fun x hx => hpq x (List.mem_cons_of_mem _ hx))
    rcases List.mem_cons.1 hw with rfl | hw'
    · rw [List.countP_cons, List.countP_cons, hq, hp]; simp; omega
    · have := ih (fun x hx => hpq x (List.mem_cons_of_mem _ hx)) hw'
      rw [List.countP_cons, List.countP_cons]
      have hz := hpq z (by simp)
      cases hpz : p z <;> cases hqz : q z <;> simp_all <;> omega

/-- a strictly smaller value that occurs in `S` has strictly fewer entries below it -/
theorem below_lt (total : ∀ a b, (le a b || le b a) = true)
    (trans : ∀ a b c, le a b = true → le b c = true → le a c = true)
    (S : List ρ) {x y : ρ} (hx : x ∈ S) (hxy : le y x = false) :
    below le S x < below le S y := by
  unfold below
  rw [← List.countP_eq_length_filter, ← List.countP_eq_length_filter]
  refine countP_lt_of_imp _ _ S ?_ x hx (by simp [hxy]) (by simp [le_refl_of_total total x])
  intro z _ hz
  have hzx : le z x = true := by
    have := total x z
    simp at hz
    simpa [hz] using this
  cases hyz : le y z
  · rfl
  · exact absurd (trans y z x hyz hzx) (by simp [hxy])

/-- invariant of the loop in `_calculate_rankings` -/
theorem denseRanksAux_eq (total : ∀ a b, (le a b || le b a) = true)
    (trans : ∀ a b c, le a b = true → le b c = true → le a c = true)
    (pre : List ρ) (prev : ρ) (xs : List ρ)
    (hs : (pre ++ prev :: xs).Pairwise (fun a b => le a b = true)) :
    denseRanksAux (fun a b => !le b a) prev (pre.length + 1) (below le (pre ++ prev :: xs) prev) xs
      = xs.map (below le (pre ++ prev :: xs)) := by
  induction xs generalizing pre prev with
  | nil => rfl
  | cons x xs ih =>
    have hS : pre ++ prev :: x :: xs = (pre ++ [prev]) ++ x :: xs := by simp
    have hpx : le prev x = true := by
      have := (List.pairwise_append.1 hs).2.1
      exact (List.pairwise_cons.1 this).1 x (by simp)
    have key : (if (!le x prev) = true then pre.length + 1
        else below le (pre ++ prev :: x :: xs) prev) = below le (pre ++ prev :: x :: xs) x := by
      cases hxp : le x prev
      · -- strictly above everything so far: the tie group starts here
        simp only [Bool.not_false, if_true]
        unfold below
        rw [hS, List.filter_append]
        have h1 : (pre ++ [prev]).filter (fun y => !le x y) = pre ++ [prev] := by
          rw [List.filter_eq_self]
          intro a ha
          have hap : le a prev = true := by
            rcases List.mem_append.1 ha with h | h
            · exact (List.pairwise_append.1 hs).2.2 a h prev (by simp)
            · rw [List.mem_singleton.1 h]; exact le_refl_of_total total prev
          cases hxa : le x a
          · rfl
          · exact absurd (trans x a prev hxa hap) (by simp [hxp])
        have h2 : (x :: xs).filter (fun y => !le x y) = [] := by
          rw [List.filter_eq_nil_iff]
          intro a ha
          have hxa : le x a = true := by
            rcases List.mem_cons.1 ha with h | h
            · rw [h]; exact le_refl_of_total total x
            · have := (List.pairwise_append.1 (hS ▸ hs)).2.1
              exact (List.pairwise_cons.1 this).1 a h
          simp [hxa]
        rw [h1, h2]; simp
      · simp only [Bool.not_true, Bool.false_eq_true, if_false]
        exact below_congr trans _ hpx hxp
    simp only [denseRanksAux, List.map_cons]
    rw [key]
    have := ih (pre ++ [prev]) x (hS ▸ hs)
    rw [← hS] at this
    simp only [List.length_append, List.length_singleton] at this
    rw [this]

theorem denseRanks_eq_map (total : ∀ a b, (le a b || le b a) = true)
    (trans : ∀ a b c, le a b = true → le b c = true → le a c = true)
    (s : List ρ) (hs : s.Pairwise (fun a b => le a b = true)) :
    denseRanks (fun a b => !le b a) s = s.map (below le s) := by
  cases s with
  | nil => rfl
  | cons x xs =>
    have h0 : below le (x :: xs) x = 0 := by
      unfold below
      rw [List.length_eq_zero_iff, List.filter_eq_nil_iff]
      intro a ha
      have hxa : le x a = true := by
        rcases List.mem_cons.1 ha with h | h
        · rw [h]; exact le_refl_of_total total x
        · exact (List.pairwise_cons.1 hs).1 a h
      simp [hxa]
    have := denseRanksAux_eq total trans [] x xs (by simpa using hs)
    simp only [List.nil_append, List.length_nil, Nat.zero_add, h0] at this
    simp only [denseRanks, List.map_cons, h0, this]

end spec

theorem map_getElem_finRange {β : Type} (l : List β) :
    (List.finRange l.length).map (fun i => l[i.1]) = l := by
  apply List.ext_getElem
  · simp
  · intro i h1 h2; simp

/-! ### `_compute` returns one team per input team -/

variable {α : Type} [Scalar α]

theorem length_omegaDelta (K : Kind) (L : Leaves α) (P : Params α) (ts : List (TeamAgg α)) :
    (omegaDelta K L P ts).length = ts.length := by
  cases K <;> simp [omegaDelta]

theorem length_compute (K : Kind) (L : Leaves α) (P : Params α)
    (teams : List (List (Rating α))) (dense : List Nat) :
    (compute K L P teams dense).length = min teams.length dense.length := by
  simp [compute, length_omegaDelta, teamAggs]

theorem length_inflate (tau : α) (teams : List (List (Rating α))) :
    (inflate tau teams).length = teams.length := by
  simp [inflate]

end OS
