import OSModel.Validate
/-
  A deep embedding of the statement language in which the argument validation of the library is written
  (`_check_teams` and the head of `rate`): `if`/`else`, `for x in xs`, `raise TypeError/ValueError`, `pass`, with the
  tests `isinstance(x, list)`, `isinstance(x, (int, float))`, `isinstance(x, <own rating class>)`, truthiness, and
  comparisons of `len(..)`.  `tools/py2lean.py` translates the CURRENT source text of those two functions into a term
  of `VStmt` on every run; `exec` is its semantics over the dynamic values `PyVal`; the tie theorems
  (`OSProofs/GenValTie.lean`) say that the translated program computes `checkTeams` / `validateRate`.
-/
namespace OS

/-- tests that occur in the validation code; variables are referred to by name -/
inductive VTest where
  | isList (x : String)                 -- isinstance(x, list)
  | isNumber (x : String)               -- isinstance(x, (int, float))
  | isOwnRating (x : String)            -- isinstance(x, <the model's own rating class>)
  | truthy (x : String)                 -- if x:
  | lenLt (x : String) (k : Nat)        -- len(x) < k
  | lenNe (x y : String)                -- len(x) != len(y)
  | and (a b : VTest)
  | not (a : VTest)
  deriving Repr

inductive VStmt where
  | pass
  | raise (e : PyExc)
  | seq (a b : VStmt)
  | ite (c : VTest) (thn els : VStmt)
  | forIn (v xs : String) (body : VStmt)      -- for v in xs: body
  deriving Repr

abbrev VEnv := List (String × PyVal)

def VEnv.get (env : VEnv) (x : String) : PyVal :=
  match env.find? (fun p => p.1 == x) with
  | some p => p.2
  | Option.none => PyVal.none

/-- `len(v)`: defined for the sized values, `TypeError` otherwise (as in Python) -/
def PyVal.len? : PyVal → Option Nat
  | .list xs => some xs.length
  | .tuple xs => some xs.length
  | .str n => some n
  | .dict n => some n
  | .set n => some n
  | _ => Option.none

/-- the elements a `for` loop visits; `none`: the value is not iterable (`TypeError`).  Strings, dicts and sets are iterable in
    Python but never reach a loop of the validation code (every loop is guarded by `isinstance(.., list)`); they are given no
    elements here and the tie theorems do not depend on it. -/
def PyVal.elems? : PyVal → Option (List PyVal)
  | .list xs => some xs
  | .tuple xs => some xs
  | .str _ => some []
  | .dict _ => some []
  | .set _ => some []
  | _ => Option.none

def evalTest (k : Kind) (env : VEnv) : VTest → Except PyExc Bool
  | .isList x => .ok (match env.get x with | .list _ => true | _ => false)
  | .isNumber x => .ok (env.get x).isNumber
  | .isOwnRating x => .ok ((env.get x).isRatingOf k)
  | .truthy x => .ok (env.get x).truthy
  | .lenLt x n => match (env.get x).len? with
      | some l => .ok (decide (l < n))
      | Option.none => .error .TypeError
  | .lenNe x y => match (env.get x).len?, (env.get y).len? with
      | some a, some b => .ok (a != b)
      | _, _ => .error .TypeError
  | .and a b => match evalTest k env a with
      | .ok true => evalTest k env b
      | r => r
  | .not a => match evalTest k env a with
      | .ok b => .ok (!b)
      | r => r

/-- run `f` on each element in order, stopping at the first exception -/
def execFor (f : PyVal → Except PyExc Unit) : List PyVal → Except PyExc Unit
  | [] => .ok ()
  | x :: xs => match f x with
    | .ok () => execFor f xs
    | .error e => .error e

/-- big-step semantics of the statement language -/
def exec (k : Kind) : VStmt → VEnv → Except PyExc Unit
  | .pass, _ => .ok ()
  | .raise e, _ => .error e
  | .seq a b, env => match exec k a env with
    | .ok () => exec k b env
    | .error e => .error e
  | .ite c t e, env => match evalTest k env c with
    | .ok true => exec k t env
    | .ok false => exec k e env
    | .error x => .error x
  | .forIn v xs body, env => match (env.get xs).elems? with
    | some l => execFor (fun x => exec k body ((v, x) :: env)) l
    | Option.none => .error .TypeError

end OS
