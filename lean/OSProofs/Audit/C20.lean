import OSProofs.Props.C20
#print axioms OS.C20_rating_given
#print axioms OS.C20_rating_defaults
#print axioms OS.C20_create_rating
#print axioms OS.C20_deepcopy
#print axioms OS.teamAgg_reid
#print axioms OS.C20_predict_reid
